//! Harness library: interpreter of the line protocol against the real crate
//! (in-process), PRNG, observable-state helpers.  See /verif/DESIGN.md §3.

pub mod gen;
pub mod oracle;

use std::cell::RefCell;
use std::fmt::Write as _;

// ---------------------------------------------------------------- PRNG

#[derive(Clone)]
pub struct Rng(pub u64);

impl Rng {
    pub fn new(seed: u64) -> Self {
        let mut r = Rng(seed.wrapping_mul(0x9E37_79B9_7F4A_7C15) ^ 0xD1B5_4A32_D192_ED03);
        for _ in 0..4 {
            r.next();
        }
        r
    }
    pub fn next(&mut self) -> u64 {
        // xorshift64*
        let mut x = self.0;
        if x == 0 {
            x = 0x1234_5678_9ABC_DEF1;
        }
        x ^= x >> 12;
        x ^= x << 25;
        x ^= x >> 27;
        self.0 = x;
        x.wrapping_mul(0x2545_F491_4F6C_DD1D)
    }
    pub fn below(&mut self, n: u64) -> u64 {
        if n == 0 {
            0
        } else {
            (self.next() >> 11) % n
        }
    }
    pub fn range(&mut self, lo: u64, hi_incl: u64) -> u64 {
        lo + self.below(hi_incl - lo + 1)
    }
    pub fn chance(&mut self, num: u64, den: u64) -> bool {
        self.below(den) < num
    }
    pub fn pick<'a, T>(&mut self, xs: &'a [T]) -> &'a T {
        &xs[self.below(xs.len() as u64) as usize]
    }
}

// ---------------------------------------------------------------- hex

pub fn hex(bs: &[u8]) -> String {
    let mut s = String::with_capacity(bs.len() * 2);
    for b in bs {
        let _ = write!(s, "{b:02x}");
    }
    s
}

pub fn unhex(s: &str) -> Option<Vec<u8>> {
    if s.len() % 2 != 0 {
        return None;
    }
    (0..s.len() / 2)
        .map(|i| u8::from_str_radix(&s[2 * i..2 * i + 2], 16).ok())
        .collect()
}

// ---------------------------------------------------------------- callbacks

#[derive(Default, Clone)]
pub struct Rec {
    pub events: Vec<String>,
    pub resize_policy: bool,
    /// the callbacks look at the screen they are handed and leave a trace of what they saw (model: `cbProbe`)
    pub probe: bool,
}

impl Rec {
    fn look(&self, screen: &mut vt100::Screen) {
        if self.probe {
            let (r, c) = screen.size();
            let (cr, cc) = screen.cursor_position();
            let w = 1 + (u32::from(cr) + u32::from(cc) + u32::from(c)) % 9;
            screen.set_size(r, w as u16);
        }
    }
}

fn opt(b: Option<u8>) -> String {
    match b {
        Some(b) => b.to_string(),
        None => "-".to_string(),
    }
}

impl vt100::Callbacks for Rec {
    fn audible_bell(&mut self, s: &mut vt100::Screen) {
        self.events.push("bell".into());
        self.look(s);
    }
    fn visual_bell(&mut self, s: &mut vt100::Screen) {
        self.events.push("vbell".into());
        self.look(s);
    }
    fn resize(&mut self, screen: &mut vt100::Screen, request: (u16, u16)) {
        self.events.push(format!("resize:{}:{}", request.0, request.1));
        if self.resize_policy && request.0 >= 1 && request.1 >= 1 {
            screen.set_size(request.0, request.1);
        }
    }
    fn set_window_icon_name(&mut self, s: &mut vt100::Screen, icon_name: &[u8]) {
        self.events.push(format!("icon:{}", hex(icon_name)));
        self.look(s);
    }
    fn set_window_title(&mut self, s: &mut vt100::Screen, title: &[u8]) {
        self.events.push(format!("title:{}", hex(title)));
        self.look(s);
    }
    fn unhandled_char(&mut self, s: &mut vt100::Screen, c: char) {
        self.events.push(format!("uchar:{}", u32::from(c)));
        self.look(s);
    }
    fn unhandled_control(&mut self, s: &mut vt100::Screen, b: u8) {
        self.events.push(format!("uctl:{b}"));
        self.look(s);
    }
    fn unhandled_escape(&mut self, s: &mut vt100::Screen, i1: Option<u8>, i2: Option<u8>, b: u8) {
        self.events.push(format!("uesc:{}:{}:{}", opt(i1), opt(i2), b));
        self.look(s);
    }
    fn unhandled_csi(
        &mut self,
        s: &mut vt100::Screen,
        i1: Option<u8>,
        i2: Option<u8>,
        params: &[&[u16]],
        c: char,
    ) {
        let ps: Vec<String> = params
            .iter()
            .map(|g| g.iter().map(|x| x.to_string()).collect::<Vec<_>>().join(":"))
            .collect();
        self.events
            .push(format!("ucsi:{}:{}:{}:{}", opt(i1), opt(i2), ps.join(";"), u32::from(c)));
        self.look(s);
    }
    fn unhandled_osc(&mut self, s: &mut vt100::Screen, params: &[&[u8]]) {
        let ps: Vec<String> = params.iter().map(|p| hex(p)).collect();
        self.events.push(format!("uosc:{}", ps.join("|")));
        self.look(s);
    }
}

// ---------------------------------------------------------------- panic capture

thread_local! {
    static LAST_PANIC: RefCell<String> = const { RefCell::new(String::new()) };
}

pub fn install_panic_hook() {
    std::panic::set_hook(Box::new(|info| {
        let loc = info
            .location()
            .map(|l| {
                let f = l.file();
                let f = f.rsplit('/').next().unwrap_or(f);
                format!("{}:{}", f, l.line())
            })
            .unwrap_or_default();
        LAST_PANIC.with(|p| *p.borrow_mut() = loc);
    }));
}

pub fn catch<T>(f: impl FnOnce() -> T) -> Result<T, String> {
    match std::panic::catch_unwind(std::panic::AssertUnwindSafe(f)) {
        Ok(v) => Ok(v),
        Err(_) => Err(LAST_PANIC.with(|p| p.borrow().clone())),
    }
}

// ---------------------------------------------------------------- vte recorder (for `A`)

#[derive(Default)]
pub struct ActRec {
    pub acts: Vec<String>,
}

fn params_str(params: &vte::Params) -> String {
    params
        .iter()
        .map(|g| g.iter().map(|x| x.to_string()).collect::<Vec<_>>().join(":"))
        .collect::<Vec<_>>()
        .join(";")
}

impl vte::Perform for ActRec {
    fn print(&mut self, c: char) {
        self.acts.push(format!("print:{}", u32::from(c)));
    }
    fn execute(&mut self, b: u8) {
        self.acts.push(format!("exec:{b}"));
    }
    fn hook(&mut self, params: &vte::Params, ints: &[u8], ignore: bool, c: char) {
        self.acts.push(format!(
            "hook:{}:{}:{}:{}",
            params_str(params),
            hex(ints),
            u8::from(ignore),
            u32::from(c)
        ));
    }
    fn put(&mut self, b: u8) {
        self.acts.push(format!("put:{b}"));
    }
    fn unhook(&mut self) {
        self.acts.push("unhook".into());
    }
    fn osc_dispatch(&mut self, params: &[&[u8]], bell: bool) {
        let ps: Vec<String> = params.iter().map(|p| hex(p)).collect();
        self.acts.push(format!("osc:{}:{}", ps.join("|"), u8::from(bell)));
    }
    fn csi_dispatch(&mut self, params: &vte::Params, ints: &[u8], ignore: bool, c: char) {
        self.acts.push(format!(
            "csi:{}:{}:{}:{}",
            params_str(params),
            hex(ints),
            u8::from(ignore),
            u32::from(c)
        ));
    }
    fn esc_dispatch(&mut self, ints: &[u8], ignore: bool, b: u8) {
        self.acts.push(format!("esc:{}:{}:{}", hex(ints), u8::from(ignore), b));
    }
}

// ---------------------------------------------------------------- runner

pub const NSLOTS: usize = 16;

/// `Parser<Rec>` records callbacks; `Parser<()>` (`N … plain`) is the only one
/// that implements `io::Write`.
pub enum AnyParser {
    Rec(vt100::Parser<Rec>),
    Plain(vt100::Parser),
}

impl AnyParser {
    pub fn screen(&self) -> &vt100::Screen {
        match self {
            AnyParser::Rec(p) => p.screen(),
            AnyParser::Plain(p) => p.screen(),
        }
    }
    pub fn screen_mut(&mut self) -> &mut vt100::Screen {
        match self {
            AnyParser::Rec(p) => p.screen_mut(),
            AnyParser::Plain(p) => p.screen_mut(),
        }
    }
    pub fn process(&mut self, bs: &[u8]) {
        match self {
            AnyParser::Rec(p) => p.process(bs),
            AnyParser::Plain(p) => p.process(bs),
        }
    }
}

pub struct Runner {
    pub parser: Option<AnyParser>,
    pub slots: Vec<Option<vt100::Screen>>,
    pub ev_mark: usize,
    pub scratch: vte::Parser,
    /// location of the last panic, if any
    pub last_panic: Option<String>,
    /// slowest single op so far (seconds, line)
    pub slowest: (f64, String),
    /// `set_size` has changed the number of columns since the parser was created: rows already in
    /// the scrollback keep their old width (known finding F12)
    pub cols_changed: bool,
    /// every op is written here BEFORE it is executed, so that an abort inside the crate (which
    /// `catch_unwind` cannot contain) still leaves the input that caused it
    pub journal: Option<std::fs::File>,
    /// per snapshot slot: `cols_changed` at the time the snapshot was taken (F12 taint of the slot)
    pub slot_f12: Vec<bool>,
}

impl Default for Runner {
    fn default() -> Self {
        Self::new()
    }
}

fn fmt_list(l: &[Vec<u8>]) -> String {
    let hs: Vec<String> = l.iter().map(|b| hex(b)).collect();
    format!("l {} {}", l.len(), hs.join("|"))
}

pub fn attrs_str_cell(c: &vt100::Cell) -> String {
    let mode = u8::from(c.bold())
        + 2 * u8::from(c.dim())
        + 4 * u8::from(c.italic())
        + 8 * u8::from(c.underline())
        + 16 * u8::from(c.inverse());
    format!("{},{},{}", color_str(c.fgcolor()), color_str(c.bgcolor()), mode)
}

pub fn color_str(c: vt100::Color) -> String {
    match c {
        vt100::Color::Default => "d".into(),
        vt100::Color::Idx(i) => format!("i{i}"),
        vt100::Color::Rgb(r, g, b) => format!("r{r}.{g}.{b}"),
    }
}

impl Runner {
    pub fn new() -> Self {
        Runner {
            parser: None,
            slots: vec![None; NSLOTS],
            ev_mark: 0,
            scratch: vte::Parser::new(),
            last_panic: None,
            slowest: (0.0, String::new()),
            cols_changed: false,
            journal: None,
            slot_f12: vec![false; NSLOTS],
        }
    }

    pub fn screen(&self) -> Option<&vt100::Screen> {
        self.parser.as_ref().map(|p| p.screen())
    }

    pub fn dump(&self) -> String {
        match self.screen() {
            Some(s) => s.verif_dump(),
            None => "NOPARSER".into(),
        }
    }

    fn guarded(&mut self, f: impl FnOnce(&mut Self) -> String) -> String {
        match catch(|| f(self)) {
            Ok(s) => s,
            Err(loc) => {
                self.last_panic = Some(loc.clone());
                format!("PANIC {loc}")
            }
        }
    }

    /// Execute one protocol line against the real crate; returns the output line.
    pub fn exec(&mut self, line: &str) -> String {
        if let Some(j) = self.journal.as_mut() {
            use std::io::Write as _;
            let _ = writeln!(j, "{line}");
        }
        let t0 = std::time::Instant::now();
        // F12 taint: the width changed during this op (set_size through the API, or from inside a
        // callback) while the parser lives on — rows already in the scrollback keep the old width
        let cols_before = if line.starts_with("N ") { None } else { self.screen().map(|s| s.size().1) };
        let out = self.exec_inner(line);
        if let (Some(a), Some(b)) = (cols_before, self.screen().map(|s| s.size().1)) {
            if a != b {
                self.cols_changed = true;
            }
        }
        let dt = t0.elapsed().as_secs_f64();
        if dt > self.slowest.0 {
            self.slowest = (dt, line.chars().take(120).collect());
        }
        out
    }

    fn exec_inner(&mut self, line: &str) -> String {
        let toks: Vec<&str> = line.trim().split(' ').collect();
        let num = |s: &str| s.parse::<u64>().ok();
        match toks.as_slice() {
            ["N", r, c, sb, cb] | ["N", r, c, sb, cb, "keep"] => {
                let (Some(r), Some(c), Some(sb)) = (num(r), num(c), num(sb)) else {
                    return "BADOP".into();
                };
                if toks.len() == 5 {
                    // a new case: the snapshot slots are emptied (cases are self-contained)
                    self.slots = vec![None; NSLOTS];
                    self.slot_f12 = vec![false; NSLOTS];
                }
                let rec = Rec { events: vec![], resize_policy: *cb == "resize" || *cb == "probe", probe: *cb == "probe" };
                self.ev_mark = 0;
                self.cols_changed = false;
                let plain = *cb == "plain";
                match catch(|| {
                    if plain {
                        AnyParser::Plain(vt100::Parser::new(r as u16, c as u16, sb as usize))
                    } else {
                        AnyParser::Rec(vt100::Parser::new_with_callbacks(r as u16, c as u16, sb as usize, rec))
                    }
                }) {
                    Ok(p) => {
                        self.parser = Some(p);
                        "ok".into()
                    }
                    Err(loc) => {
                        self.parser = None;
                        self.last_panic = Some(loc.clone());
                        format!("PANIC {loc}")
                    }
                }
            }
            ["P"] => "ok".into(),
            ["W"] => "ok 0".into(),
            ["WA", h] | ["WV", h, _] => {
                let Some(bs) = unhex(h) else { return "BADOP".into() };
                if self.parser.is_none() {
                    return "BADOP".into();
                }
                let cuts: Vec<usize> = if toks[0] == "WV" {
                    toks[2].split(',').filter_map(|x| x.parse::<usize>().ok()).filter(|c| *c <= bs.len()).collect()
                } else {
                    vec![]
                };
                let vectored = toks[0] == "WV";
                self.guarded(|me| {
                    use std::io::Write as _;
                    match me.parser.as_mut().unwrap() {
                        AnyParser::Plain(p) => {
                            if vectored {
                                // slices at the given cut points; write_vectored may take only part of
                                // what it is offered: offer the rest again until everything is taken
                                let mut bounds = vec![0usize];
                                bounds.extend(cuts.iter().copied());
                                bounds.push(bs.len());
                                bounds.sort_unstable();
                                let mut done = 0usize;
                                let mut guard = 0;
                                while done < bs.len() && guard < 100_000 {
                                    guard += 1;
                                    let mut slices: Vec<std::io::IoSlice> = vec![];
                                    for w in bounds.windows(2) {
                                        let (a, b) = (w[0].max(done), w[1]);
                                        if a < b {
                                            slices.push(std::io::IoSlice::new(&bs[a..b]));
                                        }
                                    }
                                    let n = p.write_vectored(&slices).unwrap();
                                    if n == 0 {
                                        return format!("ok {done} (write_vectored took nothing)");
                                    }
                                    done += n;
                                }
                                p.flush().unwrap();
                                format!("ok {done}")
                            } else {
                                p.write_all(&bs).unwrap();
                                p.flush().unwrap();
                                format!("ok {}", bs.len())
                            }
                        }
                        AnyParser::Rec(_) => "BADOP".into(),
                    }
                })
            }
            ["P", h] | ["W", h] => {
                let Some(bs) = unhex(h) else { return "BADOP".into() };
                let is_w = toks[0] == "W";
                if self.parser.is_none() {
                    return "BADOP".into();
                }
                self.guarded(|me| {
                    let p = me.parser.as_mut().unwrap();
                    if is_w {
                        use std::io::Write as _;
                        match p {
                            AnyParser::Plain(p) => {
                                let n = p.write(&bs).unwrap();
                                p.flush().unwrap();
                                format!("ok {n}")
                            }
                            AnyParser::Rec(_) => "BADOP".into(),
                        }
                    } else {
                        p.process(&bs);
                        "ok".into()
                    }
                })
            }
            ["Z", r, c] => {
                let (Some(r), Some(c)) = (num(r), num(c)) else { return "BADOP".into() };
                if self.parser.is_none() {
                    return "BADOP".into();
                }
                if self.screen().is_some_and(|s| u64::from(s.size().1) != c) {
                    self.cols_changed = true;
                }
                self.guarded(|me| {
                    me.parser.as_mut().unwrap().screen_mut().set_size(r as u16, c as u16);
                    "ok".into()
                })
            }
            ["B", k] => {
                let Some(k) = num(k) else { return "BADOP".into() };
                if self.parser.is_none() {
                    return "BADOP".into();
                }
                self.guarded(|me| {
                    me.parser.as_mut().unwrap().screen_mut().set_scrollback(k as usize);
                    "ok".into()
                })
            }
            ["U", k] => {
                let Some(k) = num(k) else { return "BADOP".into() };
                let Some(Some(snap)) = self.slots.get(k as usize).cloned() else { return "NOSLOT".into() };
                if self.parser.is_none() {
                    return "NOPARSER".into();
                }
                if self.slot_f12.get(k as usize).copied().unwrap_or(false) {
                    self.cols_changed = true;
                }
                self.guarded(|me| {
                    *me.parser.as_mut().unwrap().screen_mut() = snap.clone();
                    "ok".into()
                })
            }
            ["S", k] => {
                let Some(k) = num(k) else { return "BADOP".into() };
                let old_slot = if (k as usize) < NSLOTS { self.slots[k as usize].take() } else { None };
                match self.screen() {
                    Some(s) if (k as usize) < NSLOTS => {
                        // both ways of copying a screen the public API offers: a fresh `clone()`, or — when the
                        // slot already holds a snapshot — `clone_from()` into it
                        let s = match old_slot {
                            Some(mut old) => {
                                old.clone_from(s);
                                old
                            }
                            None => s.clone(),
                        };
                        self.slots[k as usize] = Some(s);
                        self.slot_f12[k as usize] = self.cols_changed;
                        "ok".into()
                    }
                    _ => "BADOP".into(),
                }
            }
            // the hook dump, followed by what the PUBLIC accessors report for the same state (the model
            // prints both from its own state: an accessor that reads the wrong field shows up here)
            ["D"] => match self.screen() {
                Some(s) => format!("d {} pub {}", self.dump(), pub_str(s)),
                None => format!("d {}", self.dump()),
            },
            ["E"] => match &self.parser {
                Some(AnyParser::Plain(_)) => "*".into(),
                Some(AnyParser::Rec(p)) => {
                    let evs = &p.callbacks().events;
                    let new: Vec<String> = evs[self.ev_mark..].to_vec();
                    self.ev_mark = evs.len();
                    let mut s = String::from("ev");
                    for e in new {
                        s.push(' ');
                        s.push_str(&e);
                    }
                    s
                }
                None => "NOPARSER".into(),
            },
            ["I"] => "*".into(),
            // the property's oracle on the current screen (replay / shrinking aid; the model has no such op)
            ["O", prop] | ["O", prop, ..] => {
                let Some(s) = self.screen().cloned() else { return "NOPARSER".into() };
                let args: Vec<u16> = toks[2..].iter().filter_map(|t| t.parse::<u16>().ok()).collect();
                let slot0 = self.slots.first().cloned().flatten();
                let prop = prop.to_string();
                let res = catch(|| -> Option<oracle::Failure> {
                    match prop.as_str() {
                        "C01" => oracle::c01(&s, None),
                        "C13" | "C16" => oracle::c13(&s),
                        "C15" => {
                            if args.len() >= 2 {
                                oracle::c15_window(&s, args[0], args[1])
                            } else {
                                oracle::c15_full(&s)
                            }
                        }
                        "C19" => {
                            let mut recv = oracle::fresh_like(&s);
                            recv.process(&s.state_formatted());
                            let mut res = oracle::c19(&s, recv.screen()).or_else(|| oracle::c19(&s, &s.clone()));
                            for k in 0..2 {
                                if let Some(Some(p)) = self.slots.get(k) {
                                    res = res.or_else(|| oracle::c19_concat(&s, p));
                                }
                            }
                            res
                        }
                        "C02" => {
                            let _ = &slot0;
                            let mut res = None;
                            for k in 0..2 {
                                if let Some(Some(p)) = self.slots.get(k) {
                                    res = res.or_else(|| oracle::c02(p, &s)).or_else(|| oracle::c02(&s, p));
                                }
                            }
                            res
                        }
                        "C14" | "C12" => {
                            if args.len() >= 2 {
                                oracle::c14(&s, args[0], args[1])
                            } else {
                                let (_, cols) = s.size();
                                oracle::c14(&s, 0, cols)
                            }
                        }
                        _ => None,
                    }
                });
                let res = res.map(|f| f.map(|f| oracle::rekey(f, s.scrollback() > 0 || slot0.as_ref().is_some_and(|p| p.scrollback() > 0), self.cols_changed)));
                match res {
                    Ok(None) => "ok".into(),
                    Ok(Some(f)) => format!("FAIL {} {}", f.key, f.desc),
                    Err(loc) => format!("FAIL panic@{loc}"),
                }
            }
            ["F", name] => {
                let name = name.to_string();
                if self.parser.is_none() {
                    return "NOPARSER".into();
                }
                self.guarded(|me| {
                    let s = me.screen().unwrap();
                    let bs = match name.as_str() {
                        "state" => s.state_formatted(),
                        "contents" => s.contents_formatted(),
                        "input" => s.input_mode_formatted(),
                        "attrs" => s.attributes_formatted(),
                        "cursor" => s.cursor_state_formatted(),
                        _ => return "BADOP".into(),
                    };
                    format!("b {}", hex(&bs))
                })
            }
            ["X", name, k] => {
                let name = name.to_string();
                let Some(k) = num(k) else { return "BADOP".into() };
                if self.parser.is_none() {
                    return "NOPARSER".into();
                }
                let Some(Some(prev)) = self.slots.get(k as usize).cloned() else {
                    return "NOSLOT".into();
                };
                self.guarded(|me| {
                    let s = me.screen().unwrap();
                    let bs = match name.as_str() {
                        "state" => s.state_diff(&prev),
                        "contents" => s.contents_diff(&prev),
                        "input" => s.input_mode_diff(&prev),
                        _ => return "BADOP".into(),
                    };
                    format!("b {}", hex(&bs))
                })
            }
            ["K", k] => {
                // the side conditions of the C02 theorems on (previous = slot k, current): the harness's
                // own evaluation (through the public API), compared with the model's `linesOkWB`
                let Some(k) = num(k) else { return "BADOP".into() };
                if self.parser.is_none() {
                    return "NOPARSER".into();
                }
                let Some(Some(prev)) = self.slots.get(k as usize).cloned() else {
                    return "NOSLOT".into();
                };
                self.guarded(|me| {
                    let s = me.screen().unwrap();
                    let sized = s.size() == prev.size();
                    let off0 = s.scrollback() == 0 && prev.scrollback() == 0;
                    let (a, b) = if sized && off0 {
                        let (os, op) = (obs(s), obs(&prev));
                        (lines_ok_w(&os, &op), lines_ok_w(&op, &os))
                    } else {
                        (false, false)
                    };
                    format!("k {} {} {} {}", u8::from(sized), u8::from(off0), u8::from(a), u8::from(b))
                })
            }
            ["T"] => {
                if self.parser.is_none() {
                    return "NOPARSER".into();
                }
                self.guarded(|me| format!("b {}", hex(me.screen().unwrap().contents().as_bytes())))
            }
            ["R", a, b] => {
                let (Some(a), Some(b)) = (num(a), num(b)) else { return "BADOP".into() };
                if self.parser.is_none() {
                    return "NOPARSER".into();
                }
                self.guarded(|me| {
                    let l: Vec<Vec<u8>> = me
                        .screen()
                        .unwrap()
                        .rows(a as u16, b as u16)
                        .map(|s| s.into_bytes())
                        .collect();
                    fmt_list(&l)
                })
            }
            ["RF", a, b] => {
                let (Some(a), Some(b)) = (num(a), num(b)) else { return "BADOP".into() };
                if self.parser.is_none() {
                    return "NOPARSER".into();
                }
                self.guarded(|me| {
                    let l: Vec<Vec<u8>> =
                        me.screen().unwrap().rows_formatted(a as u16, b as u16).collect();
                    fmt_list(&l)
                })
            }
            ["RD", k, a, b] => {
                let (Some(k), Some(a), Some(b)) = (num(k), num(a), num(b)) else {
                    return "BADOP".into();
                };
                if self.parser.is_none() {
                    return "NOPARSER".into();
                }
                let Some(Some(prev)) = self.slots.get(k as usize).cloned() else {
                    return "BADOP".into();
                };
                self.guarded(|me| {
                    let l: Vec<Vec<u8>> =
                        me.screen().unwrap().rows_diff(&prev, a as u16, b as u16).collect();
                    fmt_list(&l)
                })
            }
            ["C", a, b, c, d] => {
                let (Some(a), Some(b), Some(c), Some(d)) = (num(a), num(b), num(c), num(d)) else {
                    return "BADOP".into();
                };
                if self.parser.is_none() {
                    return "NOPARSER".into();
                }
                self.guarded(|me| {
                    let s = me
                        .screen()
                        .unwrap()
                        .contents_between(a as u16, b as u16, c as u16, d as u16);
                    format!("b {}", hex(s.as_bytes()))
                })
            }
            ["Q", r, c] => {
                let (Some(r), Some(c)) = (num(r), num(c)) else { return "BADOP".into() };
                if self.parser.is_none() {
                    return "NOPARSER".into();
                }
                self.guarded(|me| {
                    let s = me.screen().unwrap();
                    let cs = match s.cell(r as u16, c as u16) {
                        Some(cell) => format!(
                            "{}/{}/{}/{}",
                            hex(cell.contents().as_bytes()),
                            u8::from(cell.is_wide()),
                            u8::from(cell.is_wide_continuation()),
                            attrs_str_cell(cell)
                        ),
                        None => "none".into(),
                    };
                    format!("q {} {}", cs, u8::from(s.row_wrapped(r as u16)))
                })
            }
            ["A", "reset"] => {
                self.scratch = vte::Parser::new();
                "ok".into()
            }
            ["A"] => "a".into(),
            ["A", h] => {
                let Some(bs) = unhex(h) else { return "BADOP".into() };
                let mut rec = ActRec::default();
                let scratch = &mut self.scratch;
                match catch(|| scratch.advance(&mut rec, &bs)) {
                    Ok(()) => {
                        let mut s = String::from("a");
                        for a in rec.acts {
                            s.push(' ');
                            s.push_str(&a);
                        }
                        s
                    }
                    Err(loc) => format!("PANIC {loc}"),
                }
            }
            _ => {
                if toks.first() == Some(&"L") || toks.first() == Some(&"LS") {
                    "ok".into()
                } else {
                    "BADOP".into()
                }
            }
        }
    }
}

// ---------------------------------------------------------------- observable state (public API only)

/// Observable visible state per DESIGN §5.1, through the public API only.
#[derive(Clone, PartialEq, Eq, Debug)]
pub struct Obs {
    pub size: (u16, u16),
    pub cells: Vec<Vec<String>>,
    pub wrapped: Vec<bool>,
    pub cursor: (u16, u16),
    pub hide: bool,
    pub pen: String,
    pub modes: String,
}

pub fn pen_str(s: &vt100::Screen) -> String {
    let mode = u8::from(s.bold())
        + 2 * u8::from(s.dim())
        + 4 * u8::from(s.italic())
        + 8 * u8::from(s.underline())
        + 16 * u8::from(s.inverse());
    format!("{},{},{}", color_str(s.fgcolor()), color_str(s.bgcolor()), mode)
}

/// the public accessors that are not cell queries, in one line
pub fn pub_str(s: &vt100::Screen) -> String {
    let (r, c) = s.size();
    let (cr, cc) = s.cursor_position();
    format!(
        "{}{} {} {},{} {},{} {} {}",
        u8::from(s.alternate_screen()),
        u8::from(s.hide_cursor()),
        modes_str(s),
        r,
        c,
        cr,
        cc,
        s.scrollback(),
        pen_str(s)
    )
}

pub fn modes_str(s: &vt100::Screen) -> String {
    format!(
        "{}{}{}:{:?}:{:?}",
        u8::from(s.application_keypad()),
        u8::from(s.application_cursor()),
        u8::from(s.bracketed_paste()),
        s.mouse_protocol_mode(),
        s.mouse_protocol_encoding()
    )
}

pub fn obs(s: &vt100::Screen) -> Obs {
    let (rows, cols) = s.size();
    let mut cells = vec![];
    let mut wrapped = vec![];
    for r in 0..rows {
        let mut row = vec![];
        for c in 0..cols {
            row.push(match s.cell(r, c) {
                Some(cell) => format!(
                    "{}/{}/{}/{}",
                    hex(cell.contents().as_bytes()),
                    u8::from(cell.is_wide()),
                    u8::from(cell.is_wide_continuation()),
                    attrs_str_cell(cell)
                ),
                None => "none".into(),
            });
        }
        cells.push(row);
        wrapped.push(s.row_wrapped(r));
    }
    Obs {
        size: (rows, cols),
        cells,
        wrapped,
        cursor: s.cursor_position(),
        hide: s.hide_cursor(),
        pen: pen_str(s),
        modes: modes_str(s),
    }
}

/// `LineOkW` of every line (lean/Vt/Props/DiffWrap.lean: `linesOkWB`), on observable states: the side
/// conditions under which `state_diff_wrapped` / `chain_wrapped` PROVE that the diff of `s` against `p`
/// reproduces `s` — `noF8b` where the line is wrapped in both (a wide character of `p` in column cols-2
/// faces text in `s`), `NoPad` where the line above is wrapped in both (the first changed cell of the
/// line, if it is not in column 0, holds text).  Both screens must be at scrollback offset 0.
pub fn lines_ok_w(s: &Obs, p: &Obs) -> bool {
    let has = |c: &str| !c.starts_with('/');
    let wide = |c: &str| c.split('/').nth(1) == Some("1");
    for i in 0..s.cells.len().min(p.cells.len()) {
        let (r, pr) = (&s.cells[i], &p.cells[i]);
        if s.wrapped[i] && p.wrapped[i] && r.len() >= 2 {
            let n = r.len() - 2;
            if pr.get(n).is_some_and(|c| wide(c)) && !has(&r[n]) {
                return false;
            }
        }
        if i > 0 && s.wrapped[i - 1] && p.wrapped[i - 1] {
            if let Some(k) = (0..r.len().min(pr.len())).find(|&k| r[k] != pr[k]) {
                if k > 0 && !has(&r[k]) {
                    return false;
                }
            }
        }
    }
    true
}

/// first difference between two observable states, honouring the C01 exemption
/// (wrap flag of the bottom visible row while `offset != 0`)
pub fn obs_diff(a: &Obs, b: &Obs, offset_nonzero: bool, with_modes: bool) -> Option<String> {
    if a.size != b.size {
        return Some(format!("size {:?} vs {:?}", a.size, b.size));
    }
    for r in 0..a.cells.len() {
        for c in 0..a.cells[r].len() {
            if a.cells[r][c] != b.cells[r][c] {
                return Some(format!("cell({r},{c}) {} vs {}", a.cells[r][c], b.cells[r][c]));
            }
        }
        let last = r + 1 == a.cells.len();
        if a.wrapped[r] != b.wrapped[r] && !(last && offset_nonzero) {
            return Some(format!("wrapped({r}) {} vs {}", a.wrapped[r], b.wrapped[r]));
        }
    }
    if a.cursor != b.cursor {
        return Some(format!("cursor {:?} vs {:?}", a.cursor, b.cursor));
    }
    if a.hide != b.hide {
        return Some(format!("hide {} vs {}", a.hide, b.hide));
    }
    if a.pen != b.pen {
        return Some(format!("pen {} vs {}", a.pen, b.pen));
    }
    if with_modes && a.modes != b.modes {
        return Some(format!("modes {} vs {}", a.modes, b.modes));
    }
    None
}
