//! Generators of byte chunks and of protocol sessions (DESIGN §3.3).
//! Every random choice comes from one `Rng`, so a (seed, property, tier)
//! triple replays exactly.

use crate::{hex, Rng, Runner};
use std::collections::BTreeMap;

#[derive(Clone, Copy, PartialEq, Eq, Debug, PartialOrd, Ord)]
pub enum Kind {
    Text,
    TextMargin,
    Zero,
    Ctl,
    Move,
    Erase,
    Shift,
    Sgr,
    Mode,
    Alt,
    SaveRestore,
    Region,
    Ris,
    Osc,
    Dcs,
    EscOther,
    CsiOther,
    Garbage,
    Utf8Bad,
    Xtwinops,
    WideEdit,
}

pub struct Gen {
    pub rng: Rng,
    pub rows: u64,
    pub cols: u64,
    /// (row, col) of some wide cells currently on the implementation's screen (0-based)
    pub wide_at: Vec<(u64, u64)>,
}

// U+17D8 is the one character unicode-width 0.2 reports as 3 columns wide
const WIDE: &[u32] = &[0x4E00, 0x3042, 0xFF21, 0x1F600, 0xAC00, 0x4E8C, 0x17D8];
const ZERO: &[u32] = &[0x0301, 0x0308, 0x20DD, 0x200B, 0x200D, 0xFE0F, 0x0483, 0xE0100, 0xFEFF, 0x2060];
const ODD: &[u32] = &[0x2E3B, 0x2E3B, 0x00AD, 0x0378, 0xE000, 0x10FFFF, 0x00A0, 0x00FF, 0x0100, 0x2028, 0x1160, 0xFFFC];

fn push_char(out: &mut Vec<u8>, cp: u32) {
    if let Some(c) = char::from_u32(cp) {
        let mut b = [0u8; 4];
        out.extend_from_slice(c.encode_utf8(&mut b).as_bytes());
    }
}

impl Gen {
    pub fn new(rng: Rng, rows: u64, cols: u64) -> Self {
        Gen { rng, rows, cols, wide_at: vec![] }
    }

    pub fn ascii(&mut self) -> u8 {
        self.rng.range(0x21, 0x7e) as u8
    }

    /// one printable character of a random class
    pub fn one_char(&mut self, out: &mut Vec<u8>) {
        match self.rng.below(20) {
            0..=9 => out.push(self.ascii()),
            10 => out.push(b' '),
            11 | 12 => push_char(out, self.rng.range(0xA0, 0xFF) as u32),
            13..=15 => push_char(out, *self.rng.pick(WIDE)),
            16 | 17 => push_char(out, *self.rng.pick(ZERO)),
            18 => push_char(out, *self.rng.pick(ODD)),
            _ => push_char(out, self.rng.range(0x100, 0x2FFF) as u32),
        }
    }

    pub fn text(&mut self) -> Vec<u8> {
        let n = match self.rng.below(4) {
            0 => 1,
            1 => self.rng.range(1, 4),
            2 => self.rng.range(1, self.cols + 2),
            _ => self.rng.range(1, 2 * self.cols + 3),
        };
        let mut out = vec![];
        for _ in 0..n {
            self.one_char(&mut out);
        }
        out
    }

    /// move near the right margin, then print a few characters there
    pub fn text_margin(&mut self) -> Vec<u8> {
        let mut out = vec![];
        let back = self.rng.below(4);
        let col = (self.cols + 1).saturating_sub(back).max(1);
        if self.rng.chance(1, 2) {
            out.extend_from_slice(format!("\x1b[{}G", col).as_bytes());
        } else {
            // fill the row up to there
            out.push(b'\r');
            for _ in 0..col.saturating_sub(1) {
                out.push(self.ascii());
            }
        }
        let n = self.rng.range(1, 4);
        for _ in 0..n {
            match self.rng.below(6) {
                0 | 1 => push_char(&mut out, *self.rng.pick(WIDE)),
                2 => push_char(&mut out, *self.rng.pick(ZERO)),
                _ => out.push(self.ascii()),
            }
        }
        out
    }

    pub fn zero(&mut self) -> Vec<u8> {
        let mut out = vec![];
        if self.rng.chance(1, 2) {
            self.one_char(&mut out);
        }
        // now and then saturate the cell (Cell::append stops at 18 live bytes)
        let n = if self.rng.chance(1, 6) { self.rng.range(8, 14) } else { self.rng.range(1, 8) };
        for _ in 0..n {
            push_char(&mut out, *self.rng.pick(ZERO));
        }
        out
    }

    pub fn ctl(&mut self) -> Vec<u8> {
        let b = match self.rng.below(12) {
            0 => 7,
            1 | 2 => 8,
            3 | 4 => 9,
            5 | 6 => 10,
            7 => 11,
            8 => 12,
            9 | 10 => 13,
            _ => *self.rng.pick(&[0u8, 1, 5, 14, 15, 0x18, 0x1a, 0x1c, 0x1f, 0x7f]),
        };
        vec![b]
    }

    /// a parameter value class, biased to the screen dimensions
    pub fn param(&mut self) -> Option<u64> {
        let r = self.rows;
        let c = self.cols;
        Some(match self.rng.below(18) {
            0 | 1 => return None,
            2 => 0,
            3 | 4 => 1,
            5 => 2,
            6 => r.saturating_sub(1),
            7 => r,
            8 => r + 1,
            9 => c.saturating_sub(1),
            10 => c,
            11 => c + 1,
            12 => 255,
            13 => 256,
            14 => *self.rng.pick(&[65535u64, 65535, 65534, 65533, 32768, 32767]),
            15 => 65536,
            16 => self.rng.range(0, 9),
            _ => self.rng.range(0, r.max(c) + 3),
        })
    }

    pub fn params_str(&mut self, n: u64) -> String {
        let mut s = String::new();
        for i in 0..n {
            if i > 0 {
                s.push(if self.rng.chance(1, 12) { ':' } else { ';' });
            }
            if let Some(p) = self.param() {
                s.push_str(&p.to_string());
            }
        }
        s
    }

    pub fn csi_final(&mut self, finals: &[u8], nparams_max: u64) -> Vec<u8> {
        let f = *self.rng.pick(finals);
        let n = self.rng.range(0, nparams_max);
        let ps = self.params_str(n);
        let mut out = b"\x1b[".to_vec();
        out.extend_from_slice(ps.as_bytes());
        out.push(f);
        out
    }

    pub fn mv(&mut self) -> Vec<u8> {
        match self.rng.below(10) {
            0 => self.ctl_of(&[8, 9, 13]),
            1..=6 => self.csi_final(b"ABCDEFGd", 2),
            _ => self.csi_final(b"H", 3),
        }
    }

    fn ctl_of(&mut self, bs: &[u8]) -> Vec<u8> {
        vec![*self.rng.pick(bs)]
    }

    pub fn erase(&mut self) -> Vec<u8> {
        let mut out = b"\x1b[".to_vec();
        if self.rng.chance(1, 5) {
            out.push(b'?');
        }
        match self.rng.below(3) {
            0 => {
                if self.rng.chance(4, 5) {
                    out.extend_from_slice(self.rng.range(0, 3).to_string().as_bytes());
                } else if let Some(p) = self.param() {
                    out.extend_from_slice(p.to_string().as_bytes());
                }
                out.push(b'J');
            }
            1 => {
                if self.rng.chance(4, 5) {
                    out.extend_from_slice(self.rng.range(0, 3).to_string().as_bytes());
                } else if let Some(p) = self.param() {
                    out.extend_from_slice(p.to_string().as_bytes());
                }
                out.push(b'K');
            }
            _ => {
                if out.len() > 2 {
                    out.pop();
                }
                if let Some(p) = self.param() {
                    out.extend_from_slice(p.to_string().as_bytes());
                }
                out.push(b'X');
            }
        }
        out
    }

    pub fn shift(&mut self) -> Vec<u8> {
        match self.rng.below(8) {
            0 => self.ctl_of(&[10, 11, 12]),
            1 => b"\x1bM".to_vec(),
            _ => self.csi_final(b"@PLMST", 2),
        }
    }

    pub fn sgr(&mut self) -> Vec<u8> {
        let mut s = String::from("\x1b[");
        let n = self.rng.range(0, 5);
        for i in 0..n {
            if i > 0 {
                s.push(';');
            }
            match self.rng.below(16) {
                0 => {}
                1 => s.push('0'),
                2..=5 => s.push_str(
                    &self.rng.pick(&[1u64, 2, 3, 4, 7, 22, 23, 24, 27, 39, 49]).to_string(),
                ),
                6 => s.push_str(&self.rng.range(30, 37).to_string()),
                7 => s.push_str(&self.rng.range(40, 47).to_string()),
                8 => s.push_str(&self.rng.range(90, 97).to_string()),
                9 => s.push_str(&self.rng.range(100, 107).to_string()),
                10 => {
                    let base = if self.rng.chance(1, 2) { 38 } else { 48 };
                    let sep = if self.rng.chance(1, 4) { ':' } else { ';' };
                    let i = self.color_comp();
                    s.push_str(&format!("{base}{sep}5{sep}{i}"));
                }
                11 => {
                    let base = if self.rng.chance(1, 2) { 38 } else { 48 };
                    let sep = if self.rng.chance(1, 4) { ':' } else { ';' };
                    let (r, g, b) = (self.color_comp(), self.color_comp(), self.color_comp());
                    s.push_str(&format!("{base}{sep}2{sep}{r}{sep}{g}{sep}{b}"));
                }
                12 => {
                    // truncated / malformed 38/48
                    let base = if self.rng.chance(1, 2) { 38 } else { 48 };
                    let tail = *self.rng.pick(&["", ";2", ";5", ";2;1", ";2;1;2", ";3;4", ":2:1", ":5", ";5;300", ";2;1;2;999"]);
                    s.push_str(&format!("{base}{tail}"));
                }
                13 => {
                    // any number — implemented or not — followed by what looks like the tail of an
                    // extended colour: only 38 and 48 take such a tail, after every other number the
                    // next parameters are parameters of their own
                    let base = match self.rng.below(4) {
                        0 => *self.rng.pick(&[58u64, 59, 28, 37, 39, 47, 49, 0, 1, 4, 98, 108, 5, 2]),
                        _ => self.rng.range(0, 120),
                    };
                    let tail = *self.rng.pick(&["", "", ";5;1", ";2;3;4;7", ":5:1", ":2:3:4:7", ";2", ";5", ";5;31;1", ";2;1;3;4;31"]);
                    s.push_str(&format!("{base}{tail}"));
                }
                14 => s.push_str(&self.rng.range(0, 255).to_string()),
                _ => s.push_str(&self.param().unwrap_or(5).to_string()),
            }
        }
        s.push('m');
        s.into_bytes()
    }

    fn color_comp(&mut self) -> u64 {
        match self.rng.below(10) {
            0 => 0,
            1 => 7,
            2 => 8,
            3 => 15,
            4 => 16,
            5 => 255,
            6 => 256,
            7 => 65535,
            _ => self.rng.range(0, 255),
        }
    }

    pub fn mode(&mut self) -> Vec<u8> {
        if self.rng.chance(1, 6) {
            return if self.rng.chance(1, 2) { b"\x1b=".to_vec() } else { b"\x1b>".to_vec() };
        }
        let mut s = String::from("\x1b[?");
        // several modes in one sequence apply in order: every implemented private mode (the
        // alternate screen and origin mode included) can stand before or after any other one
        let n = if self.rng.chance(1, 4) { self.rng.range(3, 6) } else { self.rng.range(1, 3) };
        for i in 0..n {
            if i > 0 {
                s.push(';');
            }
            let mut m = *self.rng.pick(&[
                1u64, 25, 2004, 9, 1000, 1002, 1003, 1005, 1006, 1, 25, 7, 12, 1004, 47, 1049, 6, 47, 2004, 1006, 1002,
            ]);
            // the numbers next to the implemented ones, and any other number, are NOT implemented
            match self.rng.below(14) {
                0 => m += 1,
                1 => m = m.saturating_sub(1),
                2 => m = self.rng.range(0, 2100),
                3 => m = *self.rng.pick(&[1001u64, 1004, 1007, 1015, 1016, 1047, 1048, 1050, 2, 3, 4, 5, 8, 10, 24, 26, 46, 48, 2003, 2005, 2026, 65535]),
                _ => {}
            }
            s.push_str(&m.to_string());
        }
        s.push(if self.rng.chance(1, 2) { 'h' } else { 'l' });
        s.into_bytes()
    }

    pub fn alt(&mut self) -> Vec<u8> {
        let m = if self.rng.chance(1, 2) { 47 } else { 1049 };
        let f = if self.rng.chance(1, 2) { 'h' } else { 'l' };
        format!("\x1b[?{m}{f}").into_bytes()
    }

    pub fn save_restore(&mut self) -> Vec<u8> {
        if self.rng.chance(1, 2) {
            b"\x1b7".to_vec()
        } else {
            b"\x1b8".to_vec()
        }
    }

    pub fn region(&mut self) -> Vec<u8> {
        match self.rng.below(8) {
            0 => b"\x1b[?6h".to_vec(),
            1 => b"\x1b[?6l".to_vec(),
            2 => b"\x1b[r".to_vec(),
            3..=5 => {
                let t = self.rng.range(1, self.rows);
                let b = self.rng.range(t, self.rows + 1);
                format!("\x1b[{t};{b}r").into_bytes()
            }
            _ => self.csi_final(b"r", 3),
        }
    }

    pub fn osc(&mut self) -> Vec<u8> {
        let mut out = b"\x1b]".to_vec();
        let nf = match self.rng.below(10) {
            0 => 0,
            1 => 1,
            2..=6 => 2,
            7 => 3,
            8 => 17,
            _ => self.rng.range(0, 18),
        };
        for i in 0..nf {
            if i > 0 {
                out.push(b';');
            }
            if i == 0 && self.rng.chance(4, 5) {
                out.extend_from_slice(self.rng.pick(&["0", "1", "2", "0", "1", "2", "4", "52", "00", "", "3", "10", "02", "+1", "01", "1 ", " 2", "22", "l", "0x1", "２"]).as_bytes());
            } else {
                let n = self.rng.range(0, 6);
                for _ in 0..n {
                    match self.rng.below(12) {
                        0 => push_char(&mut out, *self.rng.pick(WIDE)),
                        1 => out.push(self.rng.range(0x80, 0xff) as u8),
                        2 => out.push(*self.rng.pick(&[1u8, 2, 3, 4, 5, 6, 8, 9, 10, 10, 13, 11, 12, 14, 0x7f])),
                        _ => out.push(self.ascii()),
                    }
                }
            }
        }
        if self.rng.chance(1, 30) {
            // overlong payload
            for _ in 0..1100 {
                out.push(b'x');
            }
        }
        match self.rng.below(8) {
            0..=3 => out.push(7),
            4..=6 => out.extend_from_slice(b"\x1b\\"),
            _ => out.push(*self.rng.pick(&[0x18u8, 0x1a])),
        }
        out
    }

    pub fn dcs(&mut self) -> Vec<u8> {
        let mut out = vec![0x1b, *self.rng.pick(&[b'P', b'X', b'^', b'_'])];
        if out[1] == b'P' {
            let n = self.rng.range(0, 3);
            out.extend_from_slice(self.params_str(n).as_bytes());
            if self.rng.chance(1, 3) {
                out.push(self.rng.range(0x20, 0x2f) as u8);
            }
            out.push(self.rng.range(0x40, 0x7e) as u8);
        }
        let n = self.rng.range(0, 8);
        for _ in 0..n {
            match self.rng.below(10) {
                0 => out.push(self.rng.range(0, 0x17) as u8),
                1 => out.push(self.rng.range(0x80, 0xff) as u8),
                _ => out.push(self.ascii()),
            }
        }
        match self.rng.below(6) {
            0 => out.push(0x18),
            1 => out.push(0x9c),
            _ => out.extend_from_slice(b"\x1b\\"),
        }
        out
    }

    pub fn esc_other(&mut self) -> Vec<u8> {
        let mut out = vec![0x1b];
        let ni = self.rng.below(4).min(self.rng.below(4));
        for _ in 0..ni {
            out.push(self.rng.range(0x20, 0x2f) as u8);
        }
        loop {
            let f = self.rng.range(0x30, 0x7e) as u8;
            // keep string introducers out of this kind when there is no intermediate
            if ni == 0 && matches!(f, b'P' | b'X' | b'[' | b']' | b'^' | b'_') {
                continue;
            }
            out.push(f);
            break;
        }
        out
    }

    pub fn csi_other(&mut self) -> Vec<u8> {
        let mut out = b"\x1b[".to_vec();
        if self.rng.chance(1, 3) {
            out.push(*self.rng.pick(b"?><="));
        }
        let np = match self.rng.below(10) {
            0 => 33,
            1 => 40,
            _ => self.rng.range(0, 4),
        };
        out.extend_from_slice(self.params_str(np).as_bytes());
        let ni = self.rng.below(4).min(self.rng.below(4));
        for _ in 0..ni {
            out.push(self.rng.range(0x20, 0x2f) as u8);
        }
        if self.rng.chance(1, 12) {
            out.push(*self.rng.pick(&[0x07u8, 0x0a, 0x18, 0x7f, 0x80, 0x3c]));
        }
        out.push(self.rng.range(0x40, 0x7e) as u8);
        out
    }

    pub fn xtwinops(&mut self) -> Vec<u8> {
        match self.rng.below(5) {
            0 => b"\x1b[8t".to_vec(),
            1 => format!("\x1b[8;{}t", self.rng.range(0, self.rows + 3)).into_bytes(),
            2 => format!("\x1b[8;;{}t", self.rng.range(0, self.cols + 3)).into_bytes(),
            3 => format!(
                "\x1b[8;{};{}t",
                self.rng.range(1, self.rows + 3),
                self.rng.range(1, self.cols + 3)
            )
            .into_bytes(),
            _ => self.csi_final(b"t", 4),
        }
    }

    pub fn garbage(&mut self) -> Vec<u8> {
        let n = self.rng.range(1, 12);
        (0..n).map(|_| self.rng.below(256) as u8).collect()
    }

    pub fn utf8_bad(&mut self) -> Vec<u8> {
        let mut out = vec![];
        let n = self.rng.range(1, 4);
        for _ in 0..n {
            match self.rng.below(10) {
                0 => {
                    // a C1 control character as UTF-8 (C2 80 .. C2 9F)
                    out.push(0xC2);
                    out.push(self.rng.range(0x80, 0x9F) as u8);
                }
                1 => out.extend_from_slice(&[0xE4, 0xB8]),
                2 => out.extend_from_slice(&[0xF0, 0x9F, 0x98]),
                3 => out.extend_from_slice(&[0xC0, 0x80]),
                4 => out.extend_from_slice(&[0xED, 0xA0, 0x80]),
                5 => out.extend_from_slice(&[0xF4, 0x90, 0x80, 0x80]),
                6 => out.push(self.rng.range(0x80, 0xBF) as u8),
                7 => out.extend_from_slice(&[0xEF, 0xBF, 0xBD]),
                8 => out.push(self.rng.range(0xF5, 0xFF) as u8),
                _ => self.one_char(&mut out),
            }
            if self.rng.chance(1, 3) {
                out.push(self.ascii());
            }
        }
        out
    }

    /// scenario template: fill some lines, set a scroll region, put the cursor above / on the
    /// margins of / inside / below the region (optionally in the pending-wrap column, optionally with
    /// origin mode on), so that the next focus operation starts from a margin situation
    pub fn placement(&mut self) -> Vec<u8> {
        let mut out = vec![];
        let (rows, cols) = (self.rows, self.cols);
        out.extend_from_slice(b"\x1b[?6l\x1b[r");
        if self.wide_at.is_empty() && self.rng.chance(2, 3) || !self.wide_at.is_empty() && self.rng.chance(1, 3) {
            self.wide_at.clear();
            // fill
            out.extend_from_slice(b"\x1b[H");
            for r in 0..rows {
                let n = match self.rng.below(4) {
                    0 => 0,
                    1 => cols,
                    _ => self.rng.range(1, cols),
                };
                let mut used = 0;
                while used < n {
                    if used + 2 <= n && self.rng.chance(1, 5) {
                        push_char(&mut out, *self.rng.pick(WIDE));
                        if self.wide_at.len() < 12 {
                            self.wide_at.push((r, used));
                        }
                        used += 2;
                    } else {
                        out.push(self.ascii());
                        used += 1;
                    }
                }
                if r + 1 < rows && !(n == cols && self.rng.chance(1, 2)) {
                    out.extend_from_slice(b"\r\n");
                }
            }
        }
        let (mut t, mut b) = (1, rows);
        if rows >= 2 && self.rng.chance(3, 4) {
            t = self.rng.range(1, rows - 1);
            b = self.rng.range(t + 1, rows);
            out.extend_from_slice(format!("\x1b[{t};{b}r").as_bytes());
        }
        if self.rng.chance(1, 6) {
            out.extend_from_slice(b"\x1b[2;36;41m");
        }
        // 1-based target row
        let cands = [1, t.saturating_sub(1).max(1), t, (t + b) / 2, b, (b + 1).min(rows), rows];
        let mut row = *self.rng.pick(&cands);
        let ccands = [1, 2.min(cols), (cols + 1) / 2, cols.saturating_sub(1).max(1), cols];
        let mut col = *self.rng.pick(&ccands);
        if !self.wide_at.is_empty() && self.rng.chance(1, 3) {
            // onto / next to a wide character that is on the screen right now
            let (wr, wc) = *self.rng.pick(&self.wide_at.clone());
            row = wr + 1;
            col = (wc + self.rng.below(4)).max(1).min(cols); // wc-1+1 .. wc+2+1 in 1-based terms
        }
        out.extend_from_slice(format!("\x1b[{row};{col}H").as_bytes());
        if self.rng.chance(1, 5) {
            // pending wrap on that row
            out.extend_from_slice(format!("\x1b[{cols}G").as_bytes());
            if cols >= 2 && self.rng.chance(1, 3) {
                out.extend_from_slice(format!("\x1b[{}G", cols - 1).as_bytes());
                push_char(&mut out, *self.rng.pick(WIDE));
            } else {
                out.push(self.ascii());
            }
            // … and then a vertical move, which keeps the cursor past the end of the line: now on a line
            // whose last column may be empty (LF, VT, CUD, CUU, VPA; RI)
            if self.rng.chance(1, 2) {
                match self.rng.below(6) {
                    0 => out.push(10),
                    1 => out.extend_from_slice(format!("\x1b[{}B", self.rng.range(1, rows)).as_bytes()),
                    2 => out.extend_from_slice(format!("\x1b[{}A", self.rng.range(1, rows)).as_bytes()),
                    3 => out.extend_from_slice(format!("\x1b[{}d", self.rng.range(1, rows)).as_bytes()),
                    4 => out.extend_from_slice(b"\x1bM"),
                    _ => out.extend_from_slice(b"\n\n"),
                }
            }
        }
        if self.rng.chance(1, 6) {
            // origin mode homes the cursor: set it, then move relatively inside
            out.extend_from_slice(b"\x1b[?6h");
            match self.rng.below(6) {
                0 | 1 => {
                    // (a row far beyond the region now and then: the offset is added before the clamp)
                    let r = if self.rng.chance(1, 4) { *self.rng.pick(&[65535u64, 65534, 65533, 65532, 32768, 999]) } else { self.rng.range(1, rows) };
                    out.extend_from_slice(format!("\x1b[{};{}H", r, self.rng.range(1, cols)).as_bytes());
                }
                2 | 3 => {
                    // VPA is absolute even in origin mode: the one movement that leaves the region
                    // with origin mode on
                    let r = *self.rng.pick(&cands);
                    out.extend_from_slice(format!("\x1b[{r}d").as_bytes());
                    if self.rng.chance(1, 2) {
                        out.extend_from_slice(format!("\x1b[{col}G").as_bytes());
                    }
                }
                4 => {
                    // a cursor saved in origin mode, the region changed, the cursor restored: origin
                    // mode on and the cursor possibly outside the new region
                    out.extend_from_slice(b"\x1b7");
                    if rows >= 3 {
                        let t2 = self.rng.range(1, rows - 1);
                        let b2 = self.rng.range(t2 + 1, rows);
                        out.extend_from_slice(format!("\x1b[{t2};{b2}r").as_bytes());
                    }
                    out.extend_from_slice(b"\x1b8");
                }
                _ => {}
            }
        }
        out
    }

    /// a parameter aimed at the distance to a margin
    pub fn margin_param(&mut self) -> u64 {
        let m = self.rows.max(self.cols);
        match self.rng.below(6) {
            0 => 1,
            1 => 2,
            2 => self.rng.range(1, m),
            3 => m,
            4 => m + 1,
            _ => 999,
        }
    }

    /// self-contained scenario: a line with a wide character at a chosen column, the cursor put on
    /// its first / second half (or next to it), then one editing operation with a small count
    pub fn wide_edit(&mut self) -> Vec<u8> {
        let cols = self.cols;
        let mut out = vec![b'\r'];
        if cols < 2 {
            out.push(self.ascii());
            return out;
        }
        if self.rng.chance(1, 3) {
            out.extend_from_slice(b"\x1b[2K");
        }
        let wc = self.rng.range(0, cols - 2); // 0-based column of the wide character
        for _ in 0..wc {
            out.push(self.ascii());
        }
        push_char(&mut out, *self.rng.pick(WIDE));
        let after = self.rng.range(0, cols - wc - 2);
        // half of the time a SECOND wide character follows closely (0..2 narrow cells between): an edit that starts
        // on a half of the first one can then end on a half of the second one
        let mut span: Option<u64> = None;
        let mut used = 0;
        if after >= 2 && self.rng.chance(1, 2) {
            let k = self.rng.range(0, 2.min(after - 2));
            for _ in 0..k {
                out.push(self.ascii());
            }
            push_char(&mut out, *self.rng.pick(WIDE));
            used = k + 2;
            span = Some(k + 2);
        }
        for _ in used..after {
            if self.rng.chance(1, 6) && after >= 2 {
                push_char(&mut out, *self.rng.pick(WIDE));
            } else {
                out.push(self.ascii());
            }
        }
        // cursor: on the first half, the second half, just before, just after
        let target = (wc + self.rng.below(4)).max(1).min(cols); // 1-based: wc, wc+1, wc+2, wc+3
        out.extend_from_slice(format!("\x1b[{target}G").as_bytes());
        if self.rng.chance(1, 4) {
            out.extend_from_slice(b"\x1b[45m");
        }
        let mut n = *self.rng.pick(&[1u64, 1, 2, 2, 3, cols, cols + 1]);
        if let Some(sp) = span {
            // from the second half of the first wide character to the first half of the second one, give or take
            if self.rng.chance(1, 2) {
                n = *self.rng.pick(&[sp, sp, sp + 1, sp.saturating_sub(1).max(1)]);
            }
        }
        match self.rng.below(12) {
            0 | 1 => out.extend_from_slice(format!("\x1b[{n}@").as_bytes()),
            2 | 3 => out.extend_from_slice(format!("\x1b[{n}P").as_bytes()),
            4 | 5 => out.extend_from_slice(format!("\x1b[{n}X").as_bytes()),
            6 => out.extend_from_slice(b"\x1b[K"),
            7 => out.extend_from_slice(b"\x1b[1K"),
            8 => out.push(self.ascii()),
            9 => push_char(&mut out, *self.rng.pick(WIDE)),
            10 => push_char(&mut out, *self.rng.pick(ZERO)),
            _ => {
                out.push(8);
                out.push(self.ascii());
            }
        }
        out
    }

    /// syntactic stress on the LAST CSI sequence of `out` (if any): legal input that a terminal must
    /// take in its stride — parameter lists around vte's 32-slot limit, colon sub-parameters, more
    /// than two intermediates, leading zeros and over-long digit strings, C0 controls and DEL in the
    /// middle of the sequence.  The sequence keeps its final byte and its own parameters in front.
    pub fn mangle_csi(&mut self, out: &mut Vec<u8>) {
        // locate `ESC [ … final`
        let Some(st) = (0..out.len().saturating_sub(1)).rev().find(|&i| out[i] == 0x1b && out[i + 1] == b'[') else { return };
        let mut j = st + 2;
        while j < out.len() && !(0x40..=0x7e).contains(&out[j]) {
            if out[j] < 0x20 || out[j] >= 0x7f {
                return; // already irregular
            }
            j += 1;
        }
        if j >= out.len() {
            return;
        }
        let fin = out[j];
        if fin == b't' {
            // a resize request: extra parameters would ask for screens of tens of thousands of lines,
            // which the huge-screen template covers on purpose and the random histories cannot afford
            return;
        }
        let tail: Vec<u8> = out[j + 1..].to_vec();
        let mut body: Vec<u8> = out[st + 2..j].to_vec(); // private marker, params, intermediates
        let ni = body.iter().rev().take_while(|b| (0x20..=0x2f).contains(*b)).count();
        let ints: Vec<u8> = body.split_off(body.len() - ni);
        let pool: &[u64] = match fin {
            b'm' => &[1, 3, 4, 7, 22, 23, 24, 27, 31, 42, 39, 49, 0, 95, 104],
            b'h' | b'l' => &[1, 25, 2004, 9, 1000, 1002, 1003, 1005, 1006, 6, 7, 12],
            _ => &[0, 1, 2, 3],
        };
        let mut ints = ints;
        match self.rng.below(10) {
            9 => {
                // a private marker in front (`CSI > 4 ; 2 m` is not SGR, `CSI ? 2 J` is selective erase …)
                if !body.first().is_some_and(|b| (0x3c..=0x3f).contains(b)) {
                    body.insert(0, *self.rng.pick(b"?><="));
                } else {
                    body.remove(0);
                }
            }
            0 | 1 => {
                // pad to around the 32-slot limit
                let have = body.iter().filter(|b| **b == b';' || **b == b':').count() as u64 + 1;
                let want = *self.rng.pick(&[30u64, 31, 32, 33, 34, 40]);
                for _ in have..want {
                    body.push(if self.rng.chance(1, 10) { b':' } else { b';' });
                    body.extend_from_slice(self.rng.pick(pool).to_string().as_bytes());
                }
            }
            2 => {
                // a colon sub-parameter glued to one of the parameters (or to an empty list)
                let extra = format!(":{}", self.rng.pick(pool));
                let cut = (0..body.len()).filter(|&i| body[i] == b';').collect::<Vec<_>>();
                let at = if cut.is_empty() || self.rng.chance(1, 2) { body.len() } else { *self.rng.pick(&cut) };
                for (k, b) in extra.bytes().enumerate() {
                    body.insert(at + k, b);
                }
            }
            3 => {
                // one ';' becomes ':'
                let cut = (0..body.len()).filter(|&i| body[i] == b';').collect::<Vec<_>>();
                if !cut.is_empty() {
                    let at = *self.rng.pick(&cut);
                    body[at] = b':';
                }
            }
            4 => {
                // more intermediates (three make vte flag the sequence)
                let n = self.rng.range(1, 3);
                for _ in 0..n {
                    ints.push(self.rng.range(0x20, 0x2f) as u8);
                }
            }
            5 => {
                // leading zeros / an over-long digit string in front of the first digit run
                if let Some(at) = body.iter().position(u8::is_ascii_digit) {
                    let z = if self.rng.chance(1, 2) { "00" } else { "0000000000000000000" };
                    for (k, b) in z.bytes().enumerate() {
                        body.insert(at + k, b);
                    }
                }
            }
            6 => {
                // a C0 control or DEL in the middle of the sequence
                let c = *self.rng.pick(&[0x0au8, 0x0d, 0x08, 0x07, 0x09, 0x7f, 0x0b, 0x00]);
                let at = self.rng.range(0, body.len() as u64) as usize;
                body.insert(at, c);
            }
            7 => {
                // a leading empty parameter / a trailing empty parameter
                if self.rng.chance(1, 2) {
                    let at = usize::from(body.first().is_some_and(|b| (0x3c..=0x3f).contains(b)));
                    body.insert(at, b';');
                } else {
                    body.push(b';');
                }
            }
            _ => {
                // a parameter beyond u16
                body.push(b';');
                body.extend_from_slice(self.rng.pick(&["65535", "65536", "99999", "4294967296"]).as_bytes());
            }
        }
        out.truncate(st + 2);
        out.extend_from_slice(&body);
        out.extend_from_slice(&ints);
        out.push(fin);
        out.extend_from_slice(&tail);
    }

    pub fn chunk(&mut self, k: Kind) -> Vec<u8> {
        let mut out = self.chunk_plain(k);
        if self.rng.chance(1, 9) {
            self.mangle_csi(&mut out);
        }
        tame_resize(&mut out);
        out
    }

    pub fn chunk_plain(&mut self, k: Kind) -> Vec<u8> {
        match k {
            Kind::Text => self.text(),
            Kind::TextMargin => self.text_margin(),
            Kind::Zero => self.zero(),
            Kind::Ctl => self.ctl(),
            Kind::Move => self.mv(),
            Kind::Erase => self.erase(),
            Kind::Shift => self.shift(),
            Kind::Sgr => self.sgr(),
            Kind::Mode => self.mode(),
            Kind::Alt => self.alt(),
            Kind::SaveRestore => self.save_restore(),
            Kind::Region => self.region(),
            Kind::Ris => b"\x1bc".to_vec(),
            Kind::Osc => self.osc(),
            Kind::Dcs => self.dcs(),
            Kind::EscOther => self.esc_other(),
            Kind::CsiOther => self.csi_other(),
            Kind::Garbage => self.garbage(),
            Kind::Utf8Bad => self.utf8_bad(),
            Kind::Xtwinops => self.xtwinops(),
            Kind::WideEdit => self.wide_edit(),
        }
    }

    pub fn pick_kind(&mut self, table: &[(Kind, u64)]) -> Kind {
        let total: u64 = table.iter().map(|x| x.1).sum();
        let mut r = self.rng.below(total);
        for (k, w) in table {
            if r < *w {
                return *k;
            }
            r -= *w;
        }
        table[0].0
    }
}

/// A resize request `CSI 8 ; r ; c t` asking for more than 300 lines or columns is cut down to 300: with
/// a resizing callback it would make a screen of tens of thousands of cells per line inside a random
/// history, which the huge-screen template covers on purpose and the model cannot afford there.
pub fn tame_resize(out: &mut Vec<u8>) {
    let mut i = 0;
    while i + 3 < out.len() {
        if out[i] == 0x1b && out[i + 1] == b'[' && out[i + 2] == b'8' && (out[i + 3] == b';' || out[i + 3] == b':') {
            // rewrite every digit run up to the final byte
            let mut j = i + 3;
            let mut res: Vec<u8> = out[..j].to_vec();
            while j < out.len() && !(0x40..=0x7e).contains(&out[j]) {
                if out[j].is_ascii_digit() {
                    let st = j;
                    while j < out.len() && out[j].is_ascii_digit() {
                        j += 1;
                    }
                    let digits = &out[st..j];
                    let big = digits.len() > 3 || std::str::from_utf8(digits).ok().and_then(|d| d.parse::<u64>().ok()).is_none_or(|v| v > 300);
                    if big {
                        res.extend_from_slice(b"300");
                    } else {
                        res.extend_from_slice(digits);
                    }
                } else {
                    res.push(out[j]);
                    j += 1;
                }
            }
            if j < out.len() && out[j] == b't' {
                res.extend_from_slice(&out[j..]);
                let resume = res.len() - (out.len() - j) + 1;
                *out = res;
                i = resume;
                continue;
            }
        }
        i += 1;
    }
}

pub const ALL_KINDS: &[(Kind, u64)] = &[
    (Kind::Text, 30),
    (Kind::TextMargin, 12),
    (Kind::Zero, 5),
    (Kind::Ctl, 10),
    (Kind::Move, 12),
    (Kind::Erase, 8),
    (Kind::Shift, 10),
    (Kind::Sgr, 10),
    (Kind::Mode, 4),
    (Kind::Alt, 3),
    (Kind::SaveRestore, 3),
    (Kind::Region, 5),
    (Kind::Ris, 1),
    (Kind::Osc, 2),
    (Kind::Dcs, 1),
    (Kind::EscOther, 2),
    (Kind::CsiOther, 2),
    (Kind::Garbage, 2),
    (Kind::Utf8Bad, 2),
    (Kind::Xtwinops, 1),
    (Kind::WideEdit, 8),
];

// ---------------------------------------------------------------- sessions

/// One generated run: the ops for the model, the implementation's outputs,
/// a tag per line (which component / what kind of step), measured statistics.
pub struct Session {
    pub runner: Runner,
    pub ops: Vec<String>,
    pub expect: Vec<String>,
    pub tags: Vec<String>,
    pub dead: bool,
    pub cases: u64,
    pub kind_counts: BTreeMap<String, u64>,
    pub size_counts: BTreeMap<String, u64>,
    pub panics: Vec<(usize, String, String)>,
    /// distinct (pre-state hash, op) pairs whose op changed the state or produced output
    pub nontrivial: std::collections::HashSet<u64>,
    pub checked_steps: u64,
    pub samples: Vec<String>,
}

fn hash_str(s: &str) -> u64 {
    let mut h: u64 = 0xcbf2_9ce4_8422_2325;
    for b in s.as_bytes() {
        h ^= u64::from(*b);
        h = h.wrapping_mul(0x1000_0000_01b3);
    }
    h
}

impl Default for Session {
    fn default() -> Self {
        Self::new()
    }
}

impl Session {
    pub fn new() -> Self {
        Session {
            runner: Runner::new(),
            ops: vec![],
            expect: vec![],
            tags: vec![],
            dead: false,
            cases: 0,
            kind_counts: BTreeMap::new(),
            size_counts: BTreeMap::new(),
            panics: vec![],
            nontrivial: Default::default(),
            checked_steps: 0,
            samples: vec![],
        }
    }

    fn push(&mut self, line: String, expect: String, tag: &str) {
        if self.samples.len() < 12 && !line.starts_with('L') && line.len() < 200 {
            self.samples.push(line.clone());
        }
        self.ops.push(line);
        self.expect.push(expect);
        self.tags.push(tag.to_string());
    }

    pub fn new_case(&mut self, rows: u64, cols: u64, sb: u64, cb: &str, tag: &str) {
        self.cases += 1;
        self.dead = false;
        *self.size_counts.entry(format!("{rows}x{cols}")).or_default() += 1;
        let line = format!("N {rows} {cols} {sb} {cb}");
        let out = self.runner.exec(&line);
        if out.starts_with("PANIC") {
            self.dead = true;
            self.panics.push((self.ops.len(), line.clone(), out.clone()));
        }
        self.push(line, out, &format!("case {tag}"));
    }

    /// a new parser inside the current case: the snapshot slots stay
    pub fn restart_keep(&mut self, rows: u64, cols: u64, sb: u64, cb: &str) {
        self.dead = false;
        let line = format!("N {rows} {cols} {sb} {cb} keep");
        let out = self.runner.exec(&line);
        if out.starts_with("PANIC") {
            self.dead = true;
            self.panics.push((self.ops.len(), line.clone(), out.clone()));
        }
        self.push(line, out, "case restart");
    }

    /// compared step
    pub fn checked(&mut self, line: &str, tag: &str) -> String {
        if self.dead {
            return "DEAD".into();
        }
        let mutating = matches!(line.as_bytes().first(), Some(b'P' | b'W' | b'Z' | b'B'));
        let pre = if mutating { hash_str(&self.runner.dump()) } else { 0 };
        let out = self.runner.exec(line);
        if out.starts_with("PANIC") {
            self.panics.push((self.ops.len(), line.to_string(), out.clone()));
            if mutating {
                self.dead = true;
            }
        }
        self.checked_steps += 1;
        *self.kind_counts.entry(tag.to_string()).or_default() += 1;
        if mutating {
            let post = hash_str(&self.runner.dump());
            if post != pre {
                self.nontrivial.insert(pre ^ hash_str(line).rotate_left(17));
            }
        } else if out.len() > 4 {
            self.nontrivial.insert(hash_str(&out) ^ hash_str(line).rotate_left(17));
        }
        self.push(line.to_string(), out.clone(), tag);
        out
    }

    /// uncompared step (setup); a panic kills the case
    pub fn setup(&mut self, line: &str) {
        if self.dead {
            return;
        }
        let out = self.runner.exec(line);
        if out.starts_with("PANIC") {
            self.panics.push((self.ops.len(), line.to_string(), out.clone()));
            self.dead = true;
            // the model may or may not panic here: not compared
        }
        self.push(line.to_string(), "*".into(), "setup");
    }

    /// load the implementation's state into the model
    pub fn sync(&mut self) {
        if self.dead {
            return;
        }
        let d = self.runner.dump();
        self.push(format!("L {d}"), "ok".into(), "sync");
    }

    /// snapshot slot k on both sides, and make sure the model's slot holds the
    /// implementation's state
    pub fn snapshot(&mut self, k: u64) {
        if self.dead {
            return;
        }
        let _ = self.runner.exec(&format!("S {k}"));
        let d = self.runner.dump();
        self.push(format!("LS {k} {d}"), "ok".into(), "snapshot");
    }

    pub fn process_checked(&mut self, bytes: &[u8], tag: &str) -> String {
        self.checked(&format!("P {}", hex(bytes)), tag)
    }

    pub fn process_setup(&mut self, bytes: &[u8]) {
        self.setup(&format!("P {}", hex(bytes)));
    }

    pub fn screen(&self) -> Option<&vt100::Screen> {
        self.runner.screen()
    }
}

/// sizes explored: all of 1x1..6x8 in rotation, plus the large ones in the thorough tier
pub fn pick_size(rng: &mut Rng, thorough: bool, case_no: u64) -> (u64, u64) {
    if thorough && case_no % 40 == 39 {
        return if rng.chance(1, 2) { (24, 80) } else { (50, 132) };
    }
    match rng.below(10) {
        0 => (1 + case_no % 6, 1 + (case_no / 6) % 8),
        1 => (rng.range(1, 2), rng.range(1, 3)),
        2..=6 => (rng.range(2, 6), rng.range(2, 8)),
        7 => (rng.range(1, 6), rng.range(1, 8)),
        8 => (rng.range(3, 6), rng.range(5, 8)),
        _ => (rng.range(2, 4), rng.range(3, 5)),
    }
}

pub fn pick_sb(rng: &mut Rng, rows: u64) -> u64 {
    // "every scrollback capacity": the unlimited one and the powers of two an allocation sized by
    // the capacity would trip over
    if rng.chance(1, 12) {
        return *rng.pick(&[u64::MAX, 1 << 58, 1 << 62, (1 << 32) + 1, u64::from(u32::MAX), 65_536, u64::MAX - 1]);
    }
    match rng.below(8) {
        0 | 1 => 0,
        2 => 1,
        3 => rows.saturating_sub(1),
        4 => rows + 1,
        5 => rows,
        6 => 1000,
        _ => rng.range(0, rows + 2),
    }
}
