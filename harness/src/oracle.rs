//! Direct executable oracles of the properties on the implementation
//! (DESIGN §4 (d)): they search for a failing input and recognise known
//! findings.  They use the public API only.

use crate::{obs, obs_diff, Obs};

#[derive(Clone, Debug)]
pub struct Failure {
    pub property: String,
    /// classification key, matched against /verif/known_findings.txt
    pub key: String,
    pub desc: String,
}

/// F12 (known finding): rows already in the scrollback keep their old width when `set_size` changes
/// the number of columns, so a view scrolled back over them is drawn with the wrong width. Failures
/// of the redraw oracles in exactly that situation are classified under that key.
pub fn rekey(mut f: Failure, scrolled: bool, cols_changed: bool) -> Failure {
    if cols_changed && scrolled && matches!(f.property.as_str(), "C01" | "C02" | "C15") && !f.key.starts_with("F9-") {
        f.key = "F12-stale-width-scrollback".to_string();
    }
    f
}

fn fail(property: &str, key: &str, desc: String) -> Option<Failure> {
    Some(Failure { property: property.into(), key: key.into(), desc })
}

pub fn fresh_like(s: &vt100::Screen) -> vt100::Parser {
    let (r, c) = s.size();
    vt100::Parser::new(r, c, 0)
}

/// C01 on one screen.  `dirty`: bytes of an earlier full redraw fed to the
/// receiver first (the "previously fed other full redraws" clause).
pub fn c01(s: &vt100::Screen, dirty: Option<&[u8]>) -> Option<Failure> {
    let offset = s.scrollback() > 0;
    let want = obs(s);
    let (_, cols) = s.size();
    let pending = s.cursor_position().1 >= cols;
    let key = |what: &str| {
        if offset && pending {
            "F9-offset-pending-wrap".to_string()
        } else {
            what.to_string()
        }
    };
    // state_formatted on a fresh parser
    let bytes = s.state_formatted();
    let mut recv = fresh_like(s);
    recv.process(&bytes);
    if let Some(d) = obs_diff(&want, &obs(recv.screen()), offset, true) {
        return fail("C01", &key("state_formatted-fresh"), format!("state_formatted on fresh receiver: {d}"));
    }
    if !offset {
        let again = recv.screen().state_formatted();
        if again != bytes {
            return fail(
                "C01",
                "reemit-differs",
                format!("re-emitted state_formatted differs: {} vs {}", crate::hex(&again), crate::hex(&bytes)),
            );
        }
    }
    // contents_formatted on a receiver that was fed another full redraw before
    if let Some(d0) = dirty {
        let mut recv = fresh_like(s);
        recv.process(d0);
        recv.process(&s.contents_formatted());
        if let Some(d) = obs_diff(&want, &obs(recv.screen()), offset, false) {
            return fail("C01", &key("contents_formatted-dirty"), format!("contents_formatted on dirty receiver: {d}"));
        }
    }
    None
}

/// classify a C02 failure (known findings F8a / F8b are recognised by symptom)
fn c02_key(p: &vt100::Screen, s: &vt100::Screen, got: &Obs, want: &Obs) -> String {
    let rows = want.cells.len();
    // F8b: both P and S wrapped in row r, receiver lost the flag, cells all equal
    let cells_equal = want.cells == got.cells;
    if cells_equal {
        for r in 0..rows {
            if want.wrapped[r] != got.wrapped[r] {
                if want.wrapped[r] && !got.wrapped[r] && p.row_wrapped(r as u16) && s.row_wrapped(r as u16) {
                    return "F8b-wrap-flag-lost".into();
                }
                return "wrap-flag".into();
            }
        }
    }
    // F8a: first differing cell is a space in the receiver where S == P (unchanged cell),
    // on a row following a row that is wrapped in S
    for r in 0..rows {
        for c in 0..want.cells[r].len() {
            if want.cells[r][c] != got.cells[r][c] {
                let unchanged = p
                    .cell(r as u16, c as u16)
                    .zip(s.cell(r as u16, c as u16))
                    .is_some_and(|(a, b)| a == b);
                let space = got.cells[r][c].starts_with("20/");
                if r > 0 && want.wrapped[r - 1] && unchanged && space {
                    return "F8a-padding-after-wrapped-row".into();
                }
                return "cells".into();
            }
        }
    }
    "other".into()
}

/// C02 for the ordered pair (P, S): receiver reproduces P, is fed S.state_diff(P)
pub fn c02(p: &vt100::Screen, s: &vt100::Screen) -> Option<Failure> {
    if p.size() != s.size() {
        return None;
    }
    let mut recv = fresh_like(p);
    recv.process(&p.state_formatted());
    c02_step(&mut recv, p, s)
}

/// one link of a diff chain on an existing receiver
pub fn c02_step(recv: &mut vt100::Parser, p: &vt100::Screen, s: &vt100::Screen) -> Option<Failure> {
    let offset = s.scrollback() > 0;
    let (_, cols) = s.size();
    let diff = s.state_diff(p);
    recv.process(&diff);
    let want = obs(s);
    let got = obs(recv.screen());
    if let Some(d) = obs_diff(&want, &got, offset, true) {
        let mut key = c02_key(p, s, &got, &want);
        // inside the region where the diff is PROVED to reproduce (both screens at offset 0, every line
        // satisfies the side conditions of DiffWrap.state_diff_wrapped) no failure is a listed finding
        if !offset && p.scrollback() == 0 && (key.starts_with("F8a-") || key.starts_with("F8b-")) && crate::lines_ok_w(&want, &obs(p)) {
            key = format!("inside-proved-region-{key}");
        }
        if (offset && s.cursor_position().1 >= cols) || (p.scrollback() > 0 && p.cursor_position().1 >= cols) {
            key = "F9-offset-pending-wrap".into();
        }
        return fail("C02", &key, format!("after state_diff {}: {d}", crate::hex(&diff)));
    }
    None
}

/// C13 through the public API
pub fn c13(s: &vt100::Screen) -> Option<Failure> {
    use unicode_width::UnicodeWidthChar as _;
    let (rows, cols) = s.size();
    let offset0 = s.scrollback() == 0;
    let (cr, cc) = s.cursor_position();
    if cr >= rows || cc > cols {
        return fail("C13", "cursor-out-of-bounds", format!("cursor ({cr},{cc}) size ({rows},{cols})"));
    }
    if offset0 {
        for r in 0..=rows {
            for c in 0..=cols {
                let some = s.cell(r, c).is_some();
                if some != (r < rows && c < cols) {
                    return fail("C13", "cell-some", format!("cell({r},{c}).is_some() = {some} at size ({rows},{cols})"));
                }
            }
        }
    }
    for r in 0..rows {
        let mut prev_wide = false;
        let mut c = 0;
        while let Some(cell) = s.cell(r, c) {
            if cell.is_wide_continuation() != prev_wide {
                return fail("C13", "wide-pairing", format!("cell({r},{c}) continuation={} but previous wide={prev_wide}", cell.is_wide_continuation()));
            }
            if cell.is_wide_continuation() && cell.has_contents() {
                return fail("C13", "continuation-nonempty", format!("cell({r},{c})"));
            }
            let txt = cell.contents();
            if txt.len() > 22 {
                return fail("C13", "cell-too-long", format!("cell({r},{c}) {} bytes", txt.len()));
            }
            if cell.has_contents() != !txt.is_empty() {
                return fail("C13", "has-contents", format!("cell({r},{c})"));
            }
            let mut chars = txt.chars();
            if let Some(f) = chars.next() {
                let w = f.width().unwrap_or(1);
                if f != ' ' && (w == 0 || (f.width().is_none() && (f as u32) < 256)) {
                    return fail("C13", "first-char-width", format!("cell({r},{c}) first char U+{:04X}", f as u32));
                }
                if cell.is_wide() != (w > 1) {
                    return fail("C13", "is-wide", format!("cell({r},{c}) is_wide={} first char width {w}", cell.is_wide()));
                }
                for z in chars {
                    if z.width() != Some(0) {
                        return fail("C13", "tail-char-width", format!("cell({r},{c}) later char U+{:04X}", z as u32));
                    }
                }
            } else if cell.is_wide() {
                return fail("C13", "empty-wide", format!("cell({r},{c})"));
            }
            prev_wide = cell.is_wide();
            c += 1;
        }
        if prev_wide {
            return fail("C13", "wide-in-last-column", format!("row {r}"));
        }
    }
    None
}

/// independent projection for C14
pub fn row_text(s: &vt100::Screen, r: u16, start: u16, width: u16) -> Option<String> {
    s.cell(r, 0)?;
    let mut out = String::new();
    let mut pending = 0usize; // blank columns since the last emitted cell
    let mut c = u32::from(start);
    let end = u32::from(start) + u32::from(width);
    let mut skip = false;
    while c < end {
        let Some(cell) = s.cell(r, c as u16) else { break };
        if skip {
            skip = false;
            c += 1;
            continue;
        }
        if cell.has_contents() {
            for _ in 0..pending {
                out.push(' ');
            }
            pending = 0;
            out.push_str(cell.contents());
            if cell.is_wide() {
                skip = true;
            }
        } else {
            pending += 1;
        }
        c += 1;
    }
    Some(out)
}

pub fn c14(s: &vt100::Screen, start: u16, width: u16) -> Option<Failure> {
    let (rows, cols) = s.size();
    // rows(start,width)
    let got: Vec<String> = match crate::catch(|| s.rows(start, width).collect::<Vec<_>>()) {
        Ok(g) => g,
        Err(_) => return None, // a panic is C03's business
    };
    for r in 0..rows {
        let Some(want) = row_text(s, r, start, width) else { continue };
        if got.get(r as usize) != Some(&want) {
            return fail("C14", "rows", format!("rows({start},{width})[{r}] = {:?}, projection {:?}", got.get(r as usize), want));
        }
    }
    // contents()
    let mut want = String::new();
    for r in 0..rows {
        let t = row_text(s, r, 0, cols).unwrap_or_default();
        want.push_str(&t);
        let next_empty = if r + 1 < rows { row_text(s, r + 1, 0, cols).unwrap_or_default().is_empty() } else { true };
        if !(s.row_wrapped(r) && !next_empty) {
            want.push('\n');
        }
    }
    while want.ends_with('\n') {
        want.pop();
    }
    let got = s.contents();
    if got != want {
        return fail("C14", "contents", format!("contents() = {got:?}, projection {want:?}"));
    }
    None
}

pub fn c14_between(s: &vt100::Screen, r1: u16, c1: u16, r2: u16, c2: u16) -> Option<Failure> {
    let (rows, cols) = s.size();
    if c1 > cols || c2 > cols {
        return None;
    }
    let got = match crate::catch(|| s.contents_between(r1, c1, r2, c2)) {
        Ok(g) => g,
        Err(_) => return None,
    };
    let mut want = String::new();
    if r1 < r2 {
        for r in r1..=r2 {
            if r >= rows {
                break;
            }
            if r == r1 {
                want.push_str(&row_text(s, r, c1, cols - c1).unwrap_or_default());
                if !s.row_wrapped(r) {
                    want.push('\n');
                }
            } else if r == r2 {
                want.push_str(&row_text(s, r, 0, c2).unwrap_or_default());
            } else {
                want.push_str(&row_text(s, r, 0, cols).unwrap_or_default());
                if !s.row_wrapped(r) {
                    want.push('\n');
                }
            }
        }
    } else if r1 == r2 && c1 < c2 {
        want = row_text(s, r1, c1, c2 - c1).unwrap_or_default();
    }
    if got != want {
        return fail("C14", "contents_between", format!("contents_between({r1},{c1},{r2},{c2}) = {got:?}, projection {want:?}"));
    }
    None
}

/// C15 full-width protocol (tests/helpers): ESC[m, ESC[{i+1}H unless the previous row wrapped
pub fn c15_full(s: &vt100::Screen) -> Option<Failure> {
    let (rows, cols) = s.size();
    let offset = s.scrollback() > 0;
    let mut recv = fresh_like(s);
    let mut wrapped = false;
    for (i, row) in s.rows_formatted(0, cols).enumerate() {
        if i >= usize::from(rows) {
            break;
        }
        recv.process(b"\x1b[m");
        if !wrapped {
            recv.process(format!("\x1b[{}H", i + 1).as_bytes());
        }
        recv.process(&row);
        wrapped = s.row_wrapped(i as u16);
    }
    // the repository's own protocol (tests/helpers/mod.rs): default pen before the cursor state
    recv.process(b"\x1b[m");
    recv.process(&s.cursor_state_formatted());
    recv.process(&s.attributes_formatted());
    let want = obs(s);
    let got = obs(recv.screen());
    if let Some(d) = obs_diff(&want, &got, offset, false) {
        let (_, c) = s.cursor_position();
        let key = if offset && c >= cols { "F9-offset-pending-wrap" } else { "rows-full" };
        return fail("C15", key, format!("rows_formatted(0,{cols}) + cursor_state + attributes: {d}"));
    }
    None
}

fn window_aligned(s: &vt100::Screen, start: u16, width: u16) -> bool {
    let (rows, _) = s.size();
    for r in 0..rows {
        if let Some(c) = s.cell(r, start) {
            if c.is_wide_continuation() {
                return false;
            }
        }
        if let Some(c) = s.cell(r, start + width - 1) {
            if c.is_wide() {
                return false;
            }
        }
    }
    true
}

/// C15 sub-window: rows_formatted(start,width) on a blank screen
pub fn c15_window(s: &vt100::Screen, start: u16, width: u16) -> Option<Failure> {
    let (rows, cols) = s.size();
    if start >= cols || width == 0 || width > cols - start || !window_aligned(s, start, width) {
        return None;
    }
    let mut recv = fresh_like(s);
    for (i, row) in s.rows_formatted(start, width).enumerate() {
        if i >= usize::from(rows) {
            break;
        }
        recv.process(b"\x1b[m");
        recv.process(format!("\x1b[{};{}H", i + 1, start + 1).as_bytes());
        recv.process(&row);
    }
    let want = obs(s);
    let got = obs(recv.screen());
    for r in 0..usize::from(rows) {
        for c in usize::from(start)..usize::from(start + width) {
            if want.cells[r][c] != got.cells[r][c] {
                return fail("C15", "rows-window", format!("rows_formatted({start},{width}) cell({r},{c}) {} vs {}", want.cells[r][c], got.cells[r][c]));
            }
        }
    }
    None
}

/// C15 sub-window diff: rows_diff(prev,start,width) on a screen showing prev
pub fn c15_diff_window(p: &vt100::Screen, s: &vt100::Screen, start: u16, width: u16) -> Option<Failure> {
    let (rows, cols) = s.size();
    if p.size() != s.size() || start >= cols || width == 0 || width > cols - start {
        return None;
    }
    if !window_aligned(s, start, width) || !window_aligned(p, start, width) {
        return None;
    }
    if s.scrollback() > 0 || p.scrollback() > 0 {
        return None;
    }
    let mut recv = fresh_like(p);
    recv.process(&p.contents_formatted());
    for (i, row) in s.rows_diff(p, start, width).enumerate() {
        if i >= usize::from(rows) {
            break;
        }
        recv.process(b"\x1b[m");
        recv.process(format!("\x1b[{};{}H", i + 1, start + 1).as_bytes());
        recv.process(&row);
    }
    let want = obs(s);
    let got = obs(recv.screen());
    for r in 0..usize::from(rows) {
        for c in usize::from(start)..usize::from(start + width) {
            if want.cells[r][c] != got.cells[r][c] {
                return fail("C15", "rows-diff-window", format!("rows_diff({start},{width}) cell({r},{c}) {} vs {}", want.cells[r][c], got.cells[r][c]));
            }
        }
    }
    None
}

/// C19: two screens with equal observable state (offset 0) emit identical bytes and diff to nothing
/// C19, last sentence: `state_formatted` / `state_diff` are exactly the concatenation of their
/// contents and input-mode parts — for ANY pair of same-size screens, not only look-alikes
pub fn c19_concat(a: &vt100::Screen, b: &vt100::Screen) -> Option<Failure> {
    let mut sf = a.contents_formatted();
    sf.extend(a.input_mode_formatted());
    if a.state_formatted() != sf {
        return fail("C19", "state_formatted-concat", "state_formatted is not contents_formatted ++ input_mode_formatted".into());
    }
    if a.size() != b.size() {
        return None;
    }
    for (x, y) in [(a, b), (b, a)] {
        let mut sd = x.contents_diff(y);
        sd.extend(x.input_mode_diff(y));
        let got = x.state_diff(y);
        if got != sd {
            return fail(
                "C19",
                "state_diff-concat",
                format!("state_diff = {} but contents_diff ++ input_mode_diff = {}", crate::hex(&got), crate::hex(&sd)),
            );
        }
    }
    None
}

pub fn c19(a: &vt100::Screen, b: &vt100::Screen) -> Option<Failure> {
    if a.scrollback() != 0 || b.scrollback() != 0 {
        return None;
    }
    if obs_diff(&obs(a), &obs(b), false, true).is_some() {
        return None;
    }
    let (_, cols) = a.size();
    macro_rules! same {
        ($name:expr, $x:expr, $y:expr) => {
            if $x != $y {
                return fail("C19", $name, format!("{}: bytes differ on observably equal screens", $name));
            }
        };
    }
    same!("contents_formatted", a.contents_formatted(), b.contents_formatted());
    same!("input_mode_formatted", a.input_mode_formatted(), b.input_mode_formatted());
    same!("attributes_formatted", a.attributes_formatted(), b.attributes_formatted());
    same!("cursor_state_formatted", a.cursor_state_formatted(), b.cursor_state_formatted());
    same!(
        "rows_formatted",
        a.rows_formatted(0, cols).collect::<Vec<_>>(),
        b.rows_formatted(0, cols).collect::<Vec<_>>()
    );
    let mut sf = a.contents_formatted();
    sf.extend(a.input_mode_formatted());
    same!("state_formatted-concat", a.state_formatted(), sf);
    let mut sd = a.contents_diff(b);
    sd.extend(a.input_mode_diff(b));
    same!("state_diff-concat", a.state_diff(b), sd);
    if !a.contents_diff(b).is_empty() {
        return fail("C19", "contents_diff-nonempty", format!("contents_diff = {}", crate::hex(&a.contents_diff(b))));
    }
    if !a.input_mode_diff(b).is_empty() || !a.state_diff(b).is_empty() {
        return fail("C19", "state_diff-nonempty", "state/input diff non-empty".into());
    }
    if a.rows_diff(b, 0, cols).any(|r| !r.is_empty()) {
        return fail("C19", "rows_diff-nonempty", "rows_diff non-empty".into());
    }
    // every column window, aligned to wide characters or not: equal screens differ nowhere
    for start in 0..cols.min(12) {
        for width in [1u16, 2, cols.saturating_sub(start).max(1), cols] {
            if a.rows_diff(b, start, width).any(|r| !r.is_empty()) {
                return fail("C19", "rows_diff-window-nonempty", format!("rows_diff(_, {start}, {width}) non-empty on observably equal screens"));
            }
            let (x, y): (Vec<_>, Vec<_>) = (a.rows_formatted(start, width).collect(), b.rows_formatted(start, width).collect());
            if x != y {
                return fail("C19", "rows_formatted-window", format!("rows_formatted({start}, {width}): bytes differ on observably equal screens"));
            }
        }
    }
    None
}

/// C17: after ESC c the parser is indistinguishable from a new one
pub fn c17(p: &crate::AnyParser, rows: u16, cols: u16, sb: usize) -> Option<Failure> {
    let fresh = vt100::Parser::new(rows, cols, sb);
    let a = p.screen().verif_dump();
    let b = fresh.screen().verif_dump();
    if a != b {
        return fail("C17", "dump-differs", format!("after RIS: {a} vs fresh {b}"));
    }
    None
}

/// bytes that put a fresh parser into exactly the input modes of `p` using only sequences the
/// property names (independent of the emitters under test)
fn mode_setup(p: &vt100::Screen) -> Vec<u8> {
    let mut v = vec![];
    v.extend_from_slice(if p.application_keypad() { b"\x1b=" } else { b"\x1b>" });
    v.extend_from_slice(if p.application_cursor() { b"\x1b[?1h" } else { b"\x1b[?1l" });
    v.extend_from_slice(if p.bracketed_paste() { b"\x1b[?2004h" } else { b"\x1b[?2004l" });
    v.extend_from_slice(if p.hide_cursor() { b"\x1b[?25l" } else { b"\x1b[?25h" });
    match p.mouse_protocol_mode() {
        vt100::MouseProtocolMode::None => {}
        vt100::MouseProtocolMode::Press => v.extend_from_slice(b"\x1b[?9h"),
        vt100::MouseProtocolMode::PressRelease => v.extend_from_slice(b"\x1b[?1000h"),
        vt100::MouseProtocolMode::ButtonMotion => v.extend_from_slice(b"\x1b[?1002h"),
        vt100::MouseProtocolMode::AnyMotion => v.extend_from_slice(b"\x1b[?1003h"),
    }
    match p.mouse_protocol_encoding() {
        vt100::MouseProtocolEncoding::Default => {}
        vt100::MouseProtocolEncoding::Utf8 => v.extend_from_slice(b"\x1b[?1005h"),
        vt100::MouseProtocolEncoding::Sgr => v.extend_from_slice(b"\x1b[?1006h"),
    }
    v
}

/// C10: input_mode_formatted on a fresh parser reproduces the five input modes
pub fn c10_formatted(s: &vt100::Screen) -> Option<Failure> {
    let mut recv = fresh_like(s);
    recv.process(&s.input_mode_formatted());
    if crate::modes_str(recv.screen()) != crate::modes_str(s) {
        return fail("C10", "input_mode_formatted", format!("input_mode_formatted {}: got {} want {}", crate::hex(&s.input_mode_formatted()), crate::modes_str(recv.screen()), crate::modes_str(s)));
    }
    None
}

/// C10, "so state_formatted / state_diff reproduce all six": cursor visibility travels with
/// contents_formatted / contents_diff — at any scrollback offset, on either screen
pub fn c10_state(s: &vt100::Screen, p: Option<&vt100::Screen>) -> Option<Failure> {
    let six = |x: &vt100::Screen| format!("{}{}", u8::from(x.hide_cursor()), crate::modes_str(x));
    let mut recv = fresh_like(s);
    recv.process(&s.state_formatted());
    if six(recv.screen()) != six(s) {
        return fail("C10", "state_formatted-modes", format!("state_formatted: got {} want {}", six(recv.screen()), six(s)));
    }
    let mut recv = fresh_like(s);
    recv.process(&s.contents_formatted());
    if recv.screen().hide_cursor() != s.hide_cursor() {
        return fail("C10", "contents_formatted-visibility", format!("contents_formatted: cursor hidden {} want {}", recv.screen().hide_cursor(), s.hide_cursor()));
    }
    if let Some(p) = p {
        if p.size() == s.size() {
            let mut recv = fresh_like(p);
            recv.process(&p.state_formatted());
            if six(recv.screen()) != six(p) {
                return None; // reported for p itself
            }
            recv.process(&s.state_diff(p));
            if six(recv.screen()) != six(s) {
                return fail("C10", "state_diff-modes", format!("state_diff from {}: got {} want {}", six(p), six(recv.screen()), six(s)));
            }
        }
    }
    None
}

/// C10: input_mode_diff(prev) on a parser whose modes equal prev's reproduces the current ones;
/// empty iff no mode differs
pub fn c10_diff(p: &vt100::Screen, s: &vt100::Screen) -> Option<Failure> {
    let mut recv = fresh_like(p);
    recv.process(&mode_setup(p));
    if crate::modes_str(recv.screen()) != crate::modes_str(p) {
        return None; // the set/reset semantics themselves are broken: that is the step correspondence's finding
    }
    let d = s.input_mode_diff(p);
    recv.process(&d);
    if crate::modes_str(recv.screen()) != crate::modes_str(s) {
        return fail("C10", "input_mode_diff", format!("input_mode_diff {} from {}: got {} want {}", crate::hex(&d), crate::modes_str(p), crate::modes_str(recv.screen()), crate::modes_str(s)));
    }
    if d.is_empty() != (crate::modes_str(p) == crate::modes_str(s)) {
        return fail("C10", "input_mode_diff-empty", format!("input_mode_diff empty={} but modes {} vs {}", d.is_empty(), crate::modes_str(p), crate::modes_str(s)));
    }
    None
}

/// C09: attributes_formatted sets exactly the pen on a receiver with an arbitrary pen
pub fn c09_attrs(s: &vt100::Screen, rng: &mut crate::Rng) -> Option<Failure> {
    let mut recv = fresh_like(s);
    let junk: &[&[u8]] = &[b"", b"\x1b[1;3;4;7;31;42m", b"\x1b[2;38;5;200;48;2;1;2;3m", b"\x1b[91;107;4m", b"\x1b[7;2m"];
    recv.process(junk[rng.below(junk.len() as u64) as usize]);
    recv.process(&s.attributes_formatted());
    if crate::pen_str(recv.screen()) != crate::pen_str(s) {
        return fail("C09", "attributes_formatted", format!("attributes_formatted {}: got pen {} want {}", crate::hex(&s.attributes_formatted()), crate::pen_str(recv.screen()), crate::pen_str(s)));
    }
    None
}

/// C09: the pen-to-pen change emitted inside contents_diff turns prev's pen into the current one
pub fn c09_pen_diff(p: &vt100::Screen, s: &vt100::Screen) -> Option<Failure> {
    if p.size() != s.size() {
        return None;
    }
    // isolate the pen: two blank screens carrying the two pens
    let mut a = fresh_like(p);
    a.process(&p.attributes_formatted());
    let mut b = fresh_like(s);
    b.process(&s.attributes_formatted());
    if crate::pen_str(a.screen()) != crate::pen_str(p) || crate::pen_str(b.screen()) != crate::pen_str(s) {
        return None;
    }
    let d = b.screen().contents_diff(a.screen());
    a.process(&d);
    if crate::pen_str(a.screen()) != crate::pen_str(s) {
        return fail("C09", "pen-diff", format!("pen change {} -> {} emitted as {}: receiver pen {}", crate::pen_str(p), crate::pen_str(s), crate::hex(&d), crate::pen_str(a.screen())));
    }
    None
}
