//! vtharness gen <prop> <seed> <tier> <outdir>   — generate sessions for a property, run them on the
//!                                                 real crate, run the property's oracle
//! vtharness replay <ops-file> <outdir>          — re-run an ops file on the real crate (L/LS lines
//!                                                 are refreshed from the implementation's state)
//! vtharness timing <outdir>                     — C03 cost clause: every CSI final with big parameters

use std::fmt::Write as _;
use vtharness::gen::{self, Gen, Kind, Session, ALL_KINDS};
use vtharness::oracle::{self, Failure};
use vtharness::{hex, Rng, Runner};

fn jstr(s: &str) -> String {
    let mut o = String::from("\"");
    for ch in s.chars() {
        match ch {
            '"' => o.push_str("\\\""),
            '\\' => o.push_str("\\\\"),
            '\n' => o.push_str("\\n"),
            '\r' => o.push_str("\\r"),
            '\t' => o.push_str("\\t"),
            c if (c as u32) < 0x20 => {
                let _ = write!(o, "\\u{:04x}", c as u32);
            }
            c => o.push(c),
        }
    }
    o.push('"');
    o
}

struct Ctx {
    sess: Session,
    rng: Rng,
    thorough: bool,
    failures: Vec<(Failure, Vec<String>)>,
    case_start: usize,
    oracle_cases: u64,
    prop: String,
    /// the C02 chain receiver was started from, or stepped through, a state affected by F12
    chain_tainted: bool,
    force_f12: bool,
    /// a snapshot was installed as the parser's screen (`U k`): its scrollback capacity is not the case's
    foreign_screen: bool,
}

impl Ctx {
    fn record(&mut self, f: Option<Failure>) {
        self.oracle_cases += 1;
        if let Some(f) = f {
            let scrolled = self.sess.screen().is_some_and(|s| s.scrollback() > 0)
                || self.sess.runner.slots.iter().flatten().any(|p| p.scrollback() > 0)
                || self.force_f12;
            let slot_taint = self
                .sess
                .runner
                .slots
                .iter()
                .zip(self.sess.runner.slot_f12.iter())
                .any(|(p, t)| *t && p.as_ref().is_some_and(|p| p.scrollback() > 0));
            let f = oracle::rekey(f, scrolled, self.sess.runner.cols_changed || slot_taint);
            if self.failures.len() < 200 {
                let ops = self.sess.ops[self.case_start..].to_vec();
                self.failures.push((f, ops));
            }
        }
    }

    fn new_case(&mut self, cb: &str, sb_mode: u8) -> (u64, u64, u64) {
        let (rows, cols) = gen::pick_size(&mut self.rng, self.thorough, self.sess.cases);
        let sb = match sb_mode {
            0 => 0,
            _ => gen::pick_sb(&mut self.rng, rows),
        };
        self.case_start = self.sess.ops.len();
        self.sess.new_case(rows, cols, sb, cb, &self.prop.clone());
        (rows, cols, sb)
    }

    fn gen(&mut self) -> Gen {
        let (r, c) = self.sess.screen().map_or((1, 1), |s| s.size());
        let seed = self.rng.next();
        let mut g = Gen::new(Rng(seed | 1), u64::from(r), u64::from(c));
        if let Some(s) = self.sess.screen() {
            if s.scrollback() == 0 {
                'outer: for row in 0..r.min(12) {
                    for col in 0..c.min(40) {
                        if s.cell(row, col).is_some_and(vt100::Cell::is_wide) {
                            g.wide_at.push((u64::from(row), u64::from(col)));
                            if g.wide_at.len() >= 12 {
                                break 'outer;
                            }
                        }
                    }
                }
            }
        }
        g
    }
}

// ------------------------------------------------------------------ recipes

struct Recipe {
    setup: &'static [(Kind, u64)],
    focus: &'static [(Kind, u64)],
    cb: &'static str,
    sb: bool,
    api_resize: bool,
    api_scrollback: bool,
    sync_each: bool,
    steps: u64,
    placement: bool,
}

const MOVE_SETUP: &[(Kind, u64)] = &[
    (Kind::Text, 20),
    (Kind::TextMargin, 10),
    (Kind::Move, 10),
    (Kind::Region, 10),
    (Kind::Sgr, 3),
    (Kind::Shift, 4),
    (Kind::Alt, 1),
    (Kind::SaveRestore, 1),
];

fn recipe_for(prop: &str) -> Recipe {
    let base = Recipe {
        setup: ALL_KINDS,
        focus: ALL_KINDS,
        cb: "none",
        sb: true,
        // every property speaks of every reachable state: resized and scrolled-back ones included
        api_resize: true,
        api_scrollback: true,
        sync_each: true,
        steps: 12,
        placement: true,
    };
    match prop {
        "C05" => Recipe {
            setup: MOVE_SETUP,
            focus: &[(Kind::Text, 10), (Kind::TextMargin, 10), (Kind::Zero, 5), (Kind::WideEdit, 5), (Kind::Alt, 1), (Kind::Mode, 1), (Kind::Region, 1), (Kind::SaveRestore, 1)],
            api_scrollback: true,
            ..base
        },
        // (the operations a property is about act on state that OTHER operations leave behind — screen switches,
        // mode lists, saved cursors, resets: in step mode a setup operation is never compared, so each of the
        // per-operation recipes also takes those as focus steps now and then)
        "C06" => Recipe { setup: MOVE_SETUP, focus: &[(Kind::Move, 10), (Kind::Region, 4), (Kind::Mode, 3), (Kind::Alt, 1), (Kind::SaveRestore, 1), (Kind::Ris, 1)], api_scrollback: true, ..base },
        "C07" => Recipe { setup: MOVE_SETUP, focus: &[(Kind::Erase, 16), (Kind::WideEdit, 4), (Kind::Alt, 1), (Kind::Mode, 1), (Kind::Region, 1), (Kind::SaveRestore, 1)], api_scrollback: true, ..base },
        "C08" => Recipe { setup: MOVE_SETUP, focus: &[(Kind::Shift, 16), (Kind::WideEdit, 4), (Kind::Alt, 2), (Kind::Mode, 1), (Kind::Region, 2), (Kind::SaveRestore, 1), (Kind::Ris, 1)], api_scrollback: true, ..base },
        "C09" => Recipe {
            // every pen-to-pen change the crate emits: the contents emitters change pens between cells,
            // around erase runs and around the cursor fix-up
            setup: &[(Kind::Sgr, 8), (Kind::Text, 3), (Kind::TextMargin, 3), (Kind::Erase, 2), (Kind::Move, 2), (Kind::Ctl, 1), (Kind::SaveRestore, 1)],
            focus: &[(Kind::Sgr, 6), (Kind::TextMargin, 1), (Kind::Erase, 1)],
            ..base
        },
        "C10" => Recipe {
            // cursor visibility travels with the contents emitters: the screens they run on matter too
            setup: &[(Kind::Mode, 8), (Kind::Text, 3), (Kind::TextMargin, 4), (Kind::Erase, 3), (Kind::Move, 2), (Kind::Shift, 1), (Kind::Alt, 1), (Kind::Ctl, 1)],
            focus: &[(Kind::Mode, 6), (Kind::Erase, 1), (Kind::TextMargin, 1)],
            api_scrollback: true,
            ..base
        },
        "C11" => Recipe {
            setup: ALL_KINDS,
            focus: &[(Kind::Alt, 6), (Kind::SaveRestore, 6), (Kind::Text, 2), (Kind::TextMargin, 2), (Kind::WideEdit, 2), (Kind::Erase, 1), (Kind::Move, 2), (Kind::Sgr, 1), (Kind::Region, 1), (Kind::Shift, 2)],
            api_scrollback: true,
            ..base
        },
        "C12" => Recipe {
            setup: MOVE_SETUP,
            focus: &[(Kind::Shift, 6), (Kind::Text, 4), (Kind::TextMargin, 2), (Kind::Region, 1), (Kind::Alt, 1), (Kind::Ris, 1)],
            api_scrollback: true,
            ..base
        },
        "C16" => Recipe { api_resize: true, api_scrollback: true, cb: "resize", ..base },
        "C17" => Recipe { focus: &[(Kind::Ris, 1)], api_resize: true, api_scrollback: true, ..base },
        "C18" => Recipe {
            focus: &[(Kind::Osc, 5), (Kind::Dcs, 3), (Kind::EscOther, 5), (Kind::CsiOther, 6), (Kind::Ctl, 4), (Kind::Xtwinops, 3), (Kind::Garbage, 2), (Kind::Utf8Bad, 2), (Kind::Sgr, 2), (Kind::Mode, 2), (Kind::Erase, 1)],
            ..base
        },
        "C03" | "C13" => Recipe { api_resize: true, api_scrollback: true, sync_each: false, steps: 30, ..base },
        // the redraw properties speak of every reachable screen: resized ones too
        "C01" | "C15" | "C19" | "C02" | "C14" => Recipe { api_resize: true, api_scrollback: true, ..base },
        _ => Recipe { api_scrollback: true, ..base },
    }
}

fn api_noise(ctx: &mut Ctx, rec: &Recipe, as_setup: bool) {
    // in step mode an API call made during the setup burst is not seen by the model (the state is
    // loaded afterwards): every other one is made a checked step of its own, from the
    // implementation's state
    let as_setup = if as_setup && !ctx.sess.dead && ctx.rng.chance(1, 2) {
        ctx.sess.sync();
        false
    } else {
        as_setup
    };
    let (rows, cols) = ctx.sess.screen().map_or((1, 1), |s| s.size());
    let (rows, cols) = (u64::from(rows), u64::from(cols));
    if rec.api_resize && ctx.rng.chance(1, 6) {
        let (r, c) = if ctx.rng.chance(1, 12) {
            (24, 80)
        } else {
            (ctx.rng.range(1, (rows + 3).min(60)), ctx.rng.range(1, (cols + 3).min(140)))
        };
        let line = format!("Z {r} {c}");
        if as_setup {
            ctx.sess.setup(&line);
        } else {
            ctx.sess.checked(&line, "Z");
            ctx.sess.checked("D", "D:Z");
        }
    }
    if ctx.rng.chance(1, 25) {
        // `*parser.screen_mut() = snapshot.clone()`: the public API lets a caller install another screen — from an
        // earlier moment of this history or (slot 1) from a different parser of another capacity
        let k = ctx.rng.below(2);
        if ctx.sess.runner.slots.get(k as usize).is_some_and(Option::is_some) {
            let line = format!("U {k}");
            ctx.foreign_screen = true;
            if as_setup {
                ctx.sess.setup(&line);
            } else {
                ctx.sess.checked(&line, "U");
                ctx.sess.checked("D", "D:U");
            }
        }
    }
    if rec.api_scrollback && ctx.rng.chance(1, 5) {
        let k = match ctx.rng.below(6) {
            0 => 0,
            1 => 1,
            2 => rows,
            3 => rows + 1,
            4 => 18_446_744_073_709_551_615,
            _ => ctx.rng.range(0, rows + 2),
        };
        let line = format!("B {k}");
        if as_setup {
            ctx.sess.setup(&line);
        } else {
            ctx.sess.checked(&line, "B");
            ctx.sess.checked("D", "D:B");
        }
    }
}

fn kind_tag(k: Kind) -> String {
    format!("{k:?}")
}

/// queries compared with the model after a focus step, by property
fn queries(ctx: &mut Ctx) {
    let Some(s) = ctx.sess.screen() else { return };
    let (rows, cols) = s.size();
    let (rows, cols) = (u64::from(rows), u64::from(cols));
    let prop = ctx.prop.clone();
    let r = &mut ctx.rng;
    match prop.as_str() {
        "C13" | "C03" | "C16" => {
            ctx.sess.checked("I", "I");
            let (a, b) = (r.range(0, rows + 1), r.range(0, cols + 1));
            ctx.sess.checked(&format!("Q {a} {b}"), "Q");
            if prop == "C03" {
                // accessors with wild arguments
                let wild = |r: &mut Rng| -> u64 {
                    match r.below(8) {
                        0 => 0,
                        1 => 1,
                        2 => cols,
                        3 => cols + 1,
                        4 => rows,
                        5 => 65535,
                        6 => cols.saturating_sub(1),
                        _ => r.range(0, 12),
                    }
                };
                match r.below(8) {
                    0 => {
                        let (a, b) = (wild(r), wild(r));
                        ctx.sess.checked(&format!("R {a} {b}"), "R");
                    }
                    1 => {
                        let (a, b) = (wild(r), wild(r));
                        ctx.sess.checked(&format!("RF {a} {b}"), "RF");
                    }
                    2 => {
                        let (a, b, c, d) = (wild(r), wild(r), wild(r), wild(r));
                        ctx.sess.checked(&format!("C {a} {b} {c} {d}"), "C");
                    }
                    3 => {
                        ctx.sess.checked("F state", "F");
                    }
                    4 => {
                        ctx.sess.checked("T", "T");
                    }
                    5 => {
                        ctx.sess.snapshot(0);
                    }
                    6 => {
                        let (a, b) = (wild(r), wild(r));
                        ctx.sess.checked(&format!("RD 0 {a} {b}"), "RD");
                        ctx.sess.checked("X state 0", "X");
                    }
                    _ => {
                        ctx.sess.checked("F cursor", "F");
                    }
                }
            }
        }
        "C14" | "C12" => {
            ctx.sess.checked("T", "T");
            let (a, b) = (r.range(0, cols + 2), r.range(0, cols + 2));
            ctx.sess.checked(&format!("R {a} {b}"), "R");
            let (r1, r2) = (r.range(0, rows), r.range(0, rows));
            let (c1, c2) = (r.range(0, cols), r.range(0, cols));
            ctx.sess.checked(&format!("C {r1} {c1} {r2} {c2}"), "C");
            let (a, b) = (r.range(0, rows), r.range(0, cols));
            ctx.sess.checked(&format!("Q {a} {b}"), "Q");
        }
        "C01" | "C19" => {
            ctx.sess.checked("I", "I");
            ctx.sess.checked("F state", "F");
            ctx.sess.checked("F contents", "F");
            if ctx.prop == "C19" {
                ctx.sess.checked("X state 0", "X");
                ctx.sess.checked("X state 1", "X");
                let (a, b) = (r.range(0, cols), r.range(0, cols + 1));
                ctx.sess.checked(&format!("RD 0 {a} {b}"), "RD");
                ctx.sess.checked(&format!("RF {a} {b}"), "RF");
            }
        }
        "C15" => {
            ctx.sess.checked("I", "I");
            ctx.sess.checked(&format!("RF 0 {cols}"), "RF");
            let a = r.range(0, cols.saturating_sub(1));
            let b = r.range(1, cols - a);
            ctx.sess.checked(&format!("RF {a} {b}"), "RF");
            ctx.sess.checked("F cursor", "F");
            ctx.sess.checked("F attrs", "F");
            ctx.sess.checked(&format!("RD 0 {a} {b}"), "RD");
            // any window at all (not aligned, past the edge, widths up to the u16 limit): the accessors
            // are total and the model says what they return
            if r.chance(1, 3) {
                let ws = *r.pick(&[0u64, 1, a, cols - 1, cols, cols + 1]);
                let ww = *r.pick(&[0u64, 1, b, cols, 65535, 65535 - ws, 65536 - ws.max(1), 65534]);
                ctx.sess.checked(&format!("RF {ws} {ww}"), "RF");
                ctx.sess.checked(&format!("RD 0 {ws} {ww}"), "RD");
                ctx.sess.checked(&format!("R {ws} {ww}"), "R");
            }
        }
        "C02" => {
            ctx.sess.checked("X state 0", "X");
            ctx.sess.checked("X contents 1", "X");
            ctx.sess.checked("K 0", "K");
            ctx.sess.checked("K 1", "K");
        }
        "C09" => {
            ctx.sess.checked("F attrs", "F");
            ctx.sess.checked("X contents 0", "X");
            ctx.sess.checked("F contents", "F");
        }
        "C10" => {
            ctx.sess.checked("F state", "F");
            ctx.sess.checked("F input", "F");
            ctx.sess.checked("X input 0", "X");
            ctx.sess.checked("X state 1", "X");
        }
        _ => {}
    }
}

/// the property's oracle on the current implementation state
fn run_oracle(ctx: &mut Ctx, dirty: &mut Option<Vec<u8>>, chain: &mut Option<(vt100::Parser, vt100::Screen)>) {
    let Some(s) = ctx.sess.screen().cloned() else { return };
    if ctx.sess.dead {
        return;
    }
    let (_, cols) = s.size();
    match ctx.prop.as_str() {
        "C01" => {
            let f = vtharness::catch(|| oracle::c01(&s, dirty.as_deref())).unwrap_or(None);
            ctx.record(f);
            if ctx.rng.chance(1, 3) {
                *dirty = Some(s.state_formatted());
            }
        }
        "C02" => {
            for k in 0..2 {
                if let Some(Some(p)) = ctx.sess.runner.slots.get(k).cloned() {
                    let f = vtharness::catch(|| oracle::c02(&p, &s)).unwrap_or(None);
                    ctx.record(f);
                    let f = vtharness::catch(|| oracle::c02(&s, &p)).unwrap_or(None);
                    ctx.record(f);
                }
            }
            // chain on one receiver
            let f12_now = ctx.sess.runner.cols_changed && s.scrollback() > 0;
            match chain.take() {
                Some((mut recv, prev)) if prev.size() == s.size() => {
                    let f = vtharness::catch(|| oracle::c02_step(&mut recv, &prev, &s)).unwrap_or(None);
                    let bad = f.is_some();
                    ctx.chain_tainted |= f12_now;
                    ctx.force_f12 = ctx.chain_tainted;
                    ctx.record(f);
                    ctx.force_f12 = false;
                    if !bad {
                        *chain = Some((recv, s.clone()));
                    }
                }
                _ => {
                    let mut recv = oracle::fresh_like(&s);
                    recv.process(&s.state_formatted());
                    ctx.chain_tainted = f12_now;
                    *chain = Some((recv, s.clone()));
                }
            }
        }
        "C13" | "C16" => {
            let f = vtharness::catch(|| oracle::c13(&s)).unwrap_or(None);
            ctx.record(f);
        }
        "C14" | "C12" => {
            let (a, b) = (ctx.rng.range(0, u64::from(cols) + 2) as u16, ctx.rng.range(0, u64::from(cols) + 2) as u16);
            let f = vtharness::catch(|| oracle::c14(&s, a, b)).unwrap_or(None);
            ctx.record(f);
            let (rows, _) = s.size();
            let (r1, r2) = (ctx.rng.range(0, u64::from(rows)) as u16, ctx.rng.range(0, u64::from(rows)) as u16);
            let (c1, c2) = (ctx.rng.range(0, u64::from(cols)) as u16, ctx.rng.range(0, u64::from(cols)) as u16);
            let f = vtharness::catch(|| oracle::c14_between(&s, r1, c1, r2, c2)).unwrap_or(None);
            ctx.record(f);
        }
        "C15" => {
            let f = vtharness::catch(|| oracle::c15_full(&s)).unwrap_or(None);
            ctx.record(f);
            let a = ctx.rng.range(0, u64::from(cols).saturating_sub(1)) as u16;
            let b = ctx.rng.range(1, u64::from(cols - a)) as u16;
            let f = vtharness::catch(|| oracle::c15_window(&s, a, b)).unwrap_or(None);
            ctx.record(f);
            if let Some(Some(p)) = ctx.sess.runner.slots.first().cloned() {
                let f = vtharness::catch(|| oracle::c15_diff_window(&p, &s, a, b)).unwrap_or(None);
                ctx.record(f);
            }
        }
        "C10" => {
            let f = vtharness::catch(|| oracle::c10_formatted(&s)).unwrap_or(None);
            ctx.record(f);
            let f = vtharness::catch(|| oracle::c10_state(&s, None)).unwrap_or(None);
            ctx.record(f);
            for k in 0..2 {
                if let Some(Some(p)) = ctx.sess.runner.slots.get(k).cloned() {
                    let f = vtharness::catch(|| oracle::c10_state(&s, Some(&p))).unwrap_or(None);
                    ctx.record(f);
                    let f = vtharness::catch(|| oracle::c10_diff(&p, &s)).unwrap_or(None);
                    ctx.record(f);
                    let f = vtharness::catch(|| oracle::c10_diff(&s, &p)).unwrap_or(None);
                    ctx.record(f);
                }
            }
        }
        "C09" => {
            let f = vtharness::catch(|| oracle::c09_attrs(&s, &mut ctx.rng)).unwrap_or(None);
            ctx.record(f);
            for k in 0..2 {
                if let Some(Some(p)) = ctx.sess.runner.slots.get(k).cloned() {
                    let f = vtharness::catch(|| oracle::c09_pen_diff(&p, &s)).unwrap_or(None);
                    ctx.record(f);
                }
            }
        }
        "C19" => {
            // original vs its reproduction via C01
            if s.scrollback() == 0 {
                let mut recv = oracle::fresh_like(&s);
                recv.process(&s.state_formatted());
                let f = vtharness::catch(|| oracle::c19(&s, recv.screen())).unwrap_or(None);
                ctx.record(f);
                let f = vtharness::catch(|| oracle::c19(&s, &s.clone())).unwrap_or(None);
                ctx.record(f);
            }
            // the concatenation clause, against every snapshot of the case (earlier states of this
            // history, and the end state of an independent one)
            let f = vtharness::catch(|| oracle::c19_concat(&s, &s)).unwrap_or(None);
            ctx.record(f);
            for k in 0..2 {
                if let Some(Some(p)) = ctx.sess.runner.slots.get(k).cloned() {
                    let f = vtharness::catch(|| oracle::c19_concat(&s, &p)).unwrap_or(None);
                    ctx.record(f);
                }
            }
        }
        _ => {}
    }
}

/// the parts of the public API that the line protocol cannot reach (they take or return Rust
/// values, not screen state): `Parser::default`, `callbacks` / `callbacks_mut`, `screen_mut`
fn api_sanity(ctx: &mut Ctx) {
    let mut bad: Vec<String> = vec![];
    let r = vtharness::catch(|| {
        let mut bad: Vec<String> = vec![];
        let d = vt100::Parser::default();
        let fresh = vt100::Parser::new(24, 80, 0);
        if d.screen().size() != (24, 80) {
            bad.push(format!("Parser::default() has size {:?}, documented 80x24", d.screen().size()));
        }
        if d.screen().state_formatted() != fresh.screen().state_formatted() || d.screen().contents() != "" {
            bad.push("Parser::default() is not a blank 24x80 parser".into());
        }
        let mut d2 = vt100::Parser::default();
        d2.process(b"1\r\n".repeat(30).as_slice());
        d2.screen_mut().set_scrollback(5);
        if d2.screen().scrollback() != 0 {
            bad.push("Parser::default() keeps scrollback, documented: none".into());
        }
        let rec = vtharness::Rec { events: vec![], resize_policy: false, probe: false };
        let mut p = vt100::Parser::new_with_callbacks(2, 4, 0, rec);
        p.callbacks_mut().events.push("mark".into());
        p.process(b"\x07");
        if p.callbacks().events != vec!["mark".to_string(), "bell".to_string()] {
            bad.push(format!("callbacks()/callbacks_mut() do not address the object process() reports to: {:?}", p.callbacks().events));
        }
        bad
    });
    match r {
        Ok(b) => bad.extend(b),
        Err(loc) => bad.push(format!("panic at {loc}")),
    }
    ctx.oracle_cases += 1;
    for b in bad {
        ctx.failures.push((Failure { property: ctx.prop.clone(), key: "api-sanity".into(), desc: b }, vec!["# public API outside the line protocol (Parser::default, callbacks_mut)".into()]));
    }
}

/// very large screens (tens of thousands of columns or lines, up to the u16 limit): a short fixed
/// script at the far edge, where 16-bit arithmetic, fixed-size digit buffers and `usize` / `u16`
/// conversions would show.  Operations whose cost in the MODEL is quadratic in the dimension (a
/// backward erase from the far right, ICH / SU / SD with a count of the order of the dimension) are kept
/// small; everything else takes parameters up to 65535.
fn huge_screens(ctx: &mut Ctx) {
    let wide = "\u{4e00}";
    let col_sizes: &[(u64, u64)] = if ctx.thorough { &[(2, 40000), (1, 65535), (2, 10001), (1, 32769), (3, 12000)] } else { &[(2, 40000), (1, 65535)] };
    for &(rows, cols) in col_sizes {
        ctx.case_start = ctx.sess.ops.len();
        ctx.sess.new_case(rows, cols, 1, "none", "huge");
        let h = cols;
        let steps: Vec<String> = vec![
            format!("\x1b[1;{}Hab{wide}", h - 3),
            format!("\x1b[{}G\x1b[41m\x1b[65535X", h - 200),
            format!("\x1b[1;{}Hx\x1b[1;5H", h - 1000),
            format!("\x1b[m\x1b[{}Gq{wide}r\x1b[{}G\x1b[65535P", h - 30, h - 28),
            format!("\x1b[{}G\x1b[5@", h - 20),
            format!("\x1b[{}G\t", h - 300),
            format!("\x1b[{}G\t\t", h - 9),
            format!("\x1b[{}G\t", h - 2),
            format!("\x1b[65535C"),
            format!("\x1b[65535D\x1b[{}C", h - 2),
            format!("\x1b[{}G\x1b[K", h - 2),
            format!("\x1b[4G\x1b[1K"),
            format!("\x1b[{};{}H{wide}{wide}", rows, h - 2),
            format!("\x1b[1;65535Hz\x1b[32my"),
            format!("\x1b[{}G\x1b[31mw\x1b[1;2H", h.saturating_sub(11000).max(2)),
        ];
        for (k, st) in steps.iter().enumerate() {
            ctx.sess.checked(&format!("P {}", hex(st.as_bytes())), "Huge");
            ctx.sess.checked("D", "D:Huge");
            if k % 4 == 3 {
                ctx.sess.checked("I", "I");
            }
        }
        ctx.sess.checked("F state", "F");
        ctx.sess.checked("T", "T");
        ctx.sess.checked(&format!("R {} 40", h - 20), "R");
        ctx.sess.checked(&format!("RF {} 12", h - 12), "RF");
        ctx.sess.checked(&format!("C 0 {} {} 3", h - 5, rows - 1), "C");
        ctx.sess.checked("F cursor", "F");
        ctx.sess.snapshot(0);
        ctx.sess.checked(&format!("P {}", hex(format!("\x1b[1;{}HQ\x1b[1;3H", h.saturating_sub(10500).max(3)).as_bytes())), "Huge");
        ctx.sess.checked("X state 0", "X");
        let mut dirty = None;
        let mut chain = None;
        run_oracle(ctx, &mut dirty, &mut chain);
    }
    let row_sizes: &[(u64, u64)] = if ctx.thorough { &[(40000, 2), (65535, 1), (10001, 3)] } else { &[(40000, 2)] };
    for &(rows, cols) in row_sizes {
        ctx.case_start = ctx.sess.ops.len();
        ctx.sess.new_case(rows, cols, 2, "none", "huge");
        let r = rows;
        let steps: Vec<String> = vec![
            format!("\x1b[{};1Hx\r\n\ny", r - 1),
            format!("\x1b[65535;1Hz\x1b[65535A"),
            format!("a\x1b[65535B"),
            format!("\x1b[{};{}r\x1b[{};1Hb\n\n", r - 5, r, r),
            format!("\x1b[{};1H\x1bM\x1b[3L\x1b[2M", r - 5),
            format!("\x1b[r\x1b[5S\x1b[3T"),
            format!("\x1b[{}d\x1b[41m\x1b[J", r - 2),
            format!("\x1b[{};1Hcd\x1b[12000;1He", r),
        ];
        for st in &steps {
            ctx.sess.checked(&format!("P {}", hex(st.as_bytes())), "Huge");
            ctx.sess.checked("D", "D:Huge");
        }
        ctx.sess.checked("I", "I");
        ctx.sess.checked("F state", "F");
        ctx.sess.checked("T", "T");
        ctx.sess.checked("B 1", "B");
        ctx.sess.checked("D", "D:B");
        let mut dirty = None;
        let mut chain = None;
        run_oracle(ctx, &mut dirty, &mut chain);
    }
}

/// deterministic templates run before the random cases
fn templates(ctx: &mut Ctx) {
    if matches!(ctx.prop.as_str(), "C01" | "C03" | "C05" | "C06" | "C07" | "C08" | "C13" | "C14" | "C15" | "C02") {
        huge_screens(ctx);
    }
    if matches!(ctx.prop.as_str(), "C03" | "C18") {
        api_sanity(ctx);
    }
    match ctx.prop.as_str() {
        "C18" | "C03" | "C13" => {
            // every C1 control character as UTF-8: unsplit, and split between its two bytes
            for x in 0x80u8..=0x9f {
                ctx.case_start = ctx.sess.ops.len();
                ctx.sess.new_case(2, 4, 0, "none", "template");
                ctx.sess.checked(&format!("P 61c2{x:02x}62"), "C1");
                ctx.sess.checked("D", "D:C1");
                ctx.sess.checked("E", "E:C1");
                ctx.case_start = ctx.sess.ops.len();
                ctx.sess.new_case(2, 4, 0, "none", "template");
                ctx.sess.checked("P 61c2", "C1");
                ctx.sess.checked(&format!("P {x:02x}62"), "C1");
                ctx.sess.checked("D", "D:C1");
                ctx.sess.checked("E", "E:C1");
            }
        }
        "C12" | "C17" | "C11" => {
            // a full reset while the alternate screen shows must keep the scrollback capacity of
            // the primary screen: lines scrolled off afterwards are recorded and can be viewed
            for alt in ["1b5b3f3130343968", "1b5b3f343768", ""] {
                for (rows, cols, sb) in [(3u64, 10u64, 5u64), (2, 4, 1), (4, 6, 3)] {
                    ctx.case_start = ctx.sess.ops.len();
                    ctx.sess.new_case(rows, cols, sb, "none", "template");
                    ctx.sess.checked("P 310d0a320d0a330d0a34", "Text");
                    if !alt.is_empty() {
                        ctx.sess.checked(&format!("P {alt}"), "Alt");
                        ctx.sess.checked("P 7669", "Text");
                    }
                    ctx.sess.checked("P 1b63", "Ris");
                    ctx.sess.checked("D", "D:Ris");
                    ctx.sess.checked("P 310d0a320d0a330d0a340d0a350d0a36", "Text");
                    ctx.sess.checked("D", "D:Text");
                    for k in [1u64, 2, 9] {
                        ctx.sess.checked(&format!("B {k}"), "B");
                        ctx.sess.checked("D", "D:B");
                        ctx.sess.checked("T", "T");
                    }
                }
            }
        }
        _ => {}
    }
    if matches!(ctx.prop.as_str(), "C05" | "C06" | "C08" | "C12" | "C16" | "C13" | "C03" | "C01") {
        // a scroll region squeezed by set_size: DECSTBM never accepts a one-line region, a resize to exactly
        // top+1 lines makes one ([t,t], t >= 1), a resize to fewer lines drops the region, to more keeps two
        // lines — then every operation that looks at the margins, from the (new) last line and the one above
        let ops: [&str; 14] = [
            "\x1b[A", "\x1b[2F", "\x1b[B", "\x1b[E", "\n", "\x1bM", "\x1b[L", "\x1b[M", "\x1b[S", "\x1b[T", "0123456789X", "\x1b[9;1H\x1b[A",
            "\x1b[?6h\x1b[1;1Hq", "\x1b[H\x1b[J",
        ];
        for (rows, cols, sb) in [(6u64, 10u64, 0u64), (5, 4, 3)] {
            for t in 1..rows - 1 {
                for new_rows in [t, t + 1, t + 2] {
                    if new_rows == 0 || (!ctx.thorough && (t + new_rows + rows) % 2 == 1) {
                        continue;
                    }
                    ctx.case_start = ctx.sess.ops.len();
                    ctx.sess.new_case(rows, cols, sb, "none", "template");
                    let setup = format!("ab\r\ncd\r\nef\r\ngh\r\nij\x1b[{};{}r", t + 1, rows);
                    ctx.sess.checked(&format!("P {}", hex(setup.as_bytes())), "Squeeze");
                    ctx.sess.checked(&format!("Z {new_rows} {cols}"), "Z");
                    ctx.sess.checked("D", "D:Z");
                    for op in ops {
                        let place = format!("\x1b[{};2H", new_rows);
                        ctx.sess.checked(&format!("P {}", hex(format!("{place}{op}").as_bytes())), "Squeeze");
                        ctx.sess.checked("D", "D:Squeeze");
                    }
                    ctx.sess.checked("I", "I");
                    ctx.sess.checked("T", "T");
                    ctx.sess.checked("F state", "F");
                    ctx.sess.checked("B 2", "B");
                    ctx.sess.checked("D", "D:B");
                    let mut dirty = None;
                    let mut chain = None;
                    run_oracle(ctx, &mut dirty, &mut chain);
                }
            }
        }
    }
    if matches!(ctx.prop.as_str(), "C11" | "C13" | "C03" | "C05" | "C07") {
        // both grids hold wide characters; an operation runs on ONE grid; then, on the OTHER grid, each half
        // of a wide character is overwritten / erased / shifted — whatever the crate remembers about wide
        // characters, pens or positions per screen rather than per grid shows here
        let wide = "\u{ff21}";
        let ops: [&str; 12] = [
            "\x1b[2J", "\x1b[H\x1b[J", "\x1b[9;9H\x1b[1J", "\x1b[2K", "\x1b[H\x1b[9X", "\x1b[H\x1b[9P", "\x1b[H\x1b[2@",
            "\x1b[H\x1b[9L", "\x1b[H\x1b[9M", "\x1b[9S", "\x1b[9T", "\x1b[H\x1b[41m\x1b[K\x1b[m",
        ];
        for (oi, op) in ops.iter().enumerate() {
            for (enter, exit) in [("\x1b[?47h", "\x1b[?47l"), ("\x1b[?1049h", "\x1b[?1049l")] {
                if (oi % 2 == 0) != (enter.len() == 6) && !ctx.thorough {
                    continue;
                }
                let (rows, cols) = (3u64, 6u64);
                ctx.case_start = ctx.sess.ops.len();
                ctx.sess.new_case(rows, cols, 2, "none", "template");
                let paint = format!("\x1b[H{wide}a{wide}\r\nb{wide}{wide}");
                let pokes = ["\x1b[1;1Hx", "\x1b[1;2Hy", "\x1b[2;3Hz", "\x1b[2;2H\x1b[X", "\x1b[1;5H\x1b[P", "\x1b[2;5H\u{301}"];
                let run = |ctx: &mut Ctx, bytes: &str, tag: &str| {
                    ctx.sess.checked(&format!("P {}", hex(bytes.as_bytes())), tag);
                    ctx.sess.checked("D", &format!("D:{tag}"));
                };
                // wide characters on the primary grid; the operation on the alternate grid; pokes on the primary
                run(ctx, &paint, "TwoGrids");
                run(ctx, enter, "TwoGrids");
                run(ctx, op, "TwoGrids");
                run(ctx, exit, "TwoGrids");
                for pk in pokes {
                    run(ctx, pk, "TwoGrids");
                }
                ctx.sess.checked("I", "I");
                // the mirror image: wide characters on the alternate grid, the operation on the primary one
                run(ctx, "\x1b[?47h", "TwoGrids");
                run(ctx, &paint, "TwoGrids");
                run(ctx, "\x1b[?47l", "TwoGrids");
                run(ctx, op, "TwoGrids");
                run(ctx, "\x1b[?47h", "TwoGrids");
                for pk in pokes {
                    run(ctx, pk, "TwoGrids");
                }
                ctx.sess.checked("I", "I");
                ctx.sess.checked("T", "T");
            }
        }
    }
    match ctx.prop.as_str() {
        "C11" => {
            // isolation under edge operations: both grids are filled so that every line but the
            // last is soft-wrapped, then every line of the screen that shows is edited with the
            // operations that touch wrap flags and wide pairs (the full dump holds both grids, so
            // an edit that reaches the hidden grid is seen at once)
            let wide = "efbc8a"; // U+FF0A, double width
            for alt in ["1b5b3f3130343968", "1b5b3f343768"] {
                let exit = if alt.ends_with("3130343968") { "1b5b3f313034396c" } else { "1b5b3f34376c" };
                for (rows, cols) in [(3u64, 6u64), (2, 5), (4, 8)] {
                    let fill = |ctx: &mut Ctx, first: u8| {
                        let n = rows * cols + 2;
                        let bytes: Vec<u8> = (0..n).map(|i| first + (i % 20) as u8).collect();
                        ctx.sess.checked(&format!("P 1b5b48{}", vtharness::hex(&bytes)), "Text");
                    };
                    let edits = |ctx: &mut Ctx| {
                        for r in 1..=rows {
                            let cup = |c: u64| vtharness::hex(format!("\x1b[{r};{c}H").as_bytes());
                            let list = [
                                format!("{}{wide}{}{wide}", cup(cols - 1), cup(cols - 2)),
                                format!("{}{wide}{}1b5b58", cup(cols - 1), cup(cols - 1)),
                                format!("{}7879", cup(cols)),
                                format!("{}{wide}{}1b5b50", cup(cols - 1), cup(cols - 2)),
                                format!("{}1b5b3240", cup(1)),
                                format!("{}1b5b4b", cup(cols - 1)),
                                format!("{}1b5b314b", cup(cols)),
                                format!("{}1b5b4c", cup(1)),
                                format!("{}1b5b4d", cup(1)),
                            ];
                            for e in list {
                                ctx.sess.checked(&format!("P {e}"), "Edge");
                                ctx.sess.checked("D", "D:Edge");
                            }
                        }
                    };
                    ctx.case_start = ctx.sess.ops.len();
                    ctx.sess.new_case(rows, cols, 2, "none", "template");
                    fill(ctx, b'a');
                    ctx.sess.checked(&format!("P {alt}"), "Alt");
                    ctx.sess.checked("D", "D:Alt");
                    edits(ctx);
                    fill(ctx, b'A');
                    ctx.sess.checked(&format!("P {exit}"), "Alt");
                    ctx.sess.checked("D", "D:Alt");
                    edits(ctx);
                    ctx.sess.checked("P 1b5b3f343768", "Alt");
                    ctx.sess.checked("D", "D:Alt");
                    ctx.sess.checked("T", "T");
                }
            }
        }
        "C09" => {
            // a covering set of pens (every kind of colour on both sides x intensity x the three
            // switches), each reached from its COMPLEMENT (every field different, so the emitted pen
            // change is the longest one there is) and from the default pen: attributes_formatted,
            // the pen diff through contents_diff, the model's bytes for both
            let fgs = ["39", "31", "91", "38;5;200", "38;2;10;20;30"];
            let bgs = ["49", "42", "102", "48;5;17", "48;2;40;50;60"];
            let ints = ["22", "1", "2"];
            ctx.case_start = ctx.sess.ops.len();
            ctx.sess.new_case(2, 6, 0, "none", "template");
            let mut n = 0u64;
            for (fi, fg) in fgs.iter().enumerate() {
                for (bi, bg) in bgs.iter().enumerate() {
                    for (ii, it) in ints.iter().enumerate() {
                        for sw in 0..8u32 {
                            n += 1;
                            if n % 40 == 0 {
                                ctx.case_start = ctx.sess.ops.len();
                                ctx.sess.new_case(2, 6, 0, "none", "template");
                            }
                            let pen = |fg: &str, bg: &str, it: &str, sw: u32| {
                                format!(
                                    "\x1b[{fg};{bg};{it};{};{};{}m",
                                    if sw & 1 != 0 { "3" } else { "23" },
                                    if sw & 2 != 0 { "4" } else { "24" },
                                    if sw & 4 != 0 { "7" } else { "27" }
                                )
                            };
                            let comp = pen(fgs[(fi + 1 + (sw as usize % 3)) % 5], bgs[(bi + 2 + (sw as usize % 2)) % 5], ints[(ii + 1) % 3], !sw & 7);
                            let this = pen(fg, bg, it, sw);
                            ctx.sess.checked(&format!("P {}", hex(comp.as_bytes())), "PenCover");
                            ctx.sess.snapshot(0);
                            ctx.sess.checked(&format!("P {}", hex(this.as_bytes())), "PenCover");
                            ctx.sess.checked("D", "D:PenCover");
                            ctx.sess.checked("F attrs", "F");
                            ctx.sess.checked("X contents 0", "X");
                            if sw == 5 {
                                ctx.sess.checked("P 78", "Text");
                                ctx.sess.checked("F contents", "F");
                            }
                            let mut dirty = None;
                            let mut chain = None;
                            run_oracle(ctx, &mut dirty, &mut chain);
                        }
                    }
                }
            }
        }
        "C19" | "C01" | "C02" | "C15" => {
            // a cell saturated with combining characters (>= 18 live bytes, where `append` stops),
            // overwritten by a shorter saturated cluster: stale bytes stay behind the live prefix.
            // Snapshot 0 holds the same visible text written on a clean cell.
            let e0100 = "f3a08480"; // U+E0100, zero width, 4 bytes
            let c301 = "cc81"; // U+0301, zero width, 2 bytes
            let bases = ["61", "e4b880"]; // 'a', wide U+4E00
            for base in bases {
                let blen = base.len() / 2;
                for long_n in [4usize, 5] {
                    for short_n in [7usize, 8, 9] {
                        let long = format!("{base}{}", e0100.repeat(long_n));
                        let short = format!("{base}{}", c301.repeat(short_n));
                        if blen + 4 * long_n > 22 || blen + 2 * short_n >= blen + 4 * long_n {
                            continue;
                        }
                        ctx.case_start = ctx.sess.ops.len();
                        ctx.sess.new_case(2, 4, 0, "none", "template");
                        ctx.sess.checked(&format!("P {short}"), "Saturated");
                        ctx.sess.snapshot(0);
                        ctx.sess.checked(&format!("P 0d{long}"), "Saturated");
                        ctx.sess.checked("D", "D:Saturated");
                        ctx.sess.checked(&format!("P 0d{short}"), "Saturated");
                        ctx.sess.checked("D", "D:Saturated");
                        ctx.sess.checked("X contents 0", "X");
                        ctx.sess.checked("X state 0", "X");
                        ctx.sess.checked("RD 0 0 4", "RD");
                        ctx.sess.checked("F state", "F");
                        ctx.sess.checked("RF 0 4", "RF");
                        let mut dirty = None;
                        let mut chain = None;
                        run_oracle(ctx, &mut dirty, &mut chain);
                    }
                }
            }
        }
        _ => {}
    }
}

fn run_generic(ctx: &mut Ctx, n_cases: u64) {
    let rec = recipe_for(&ctx.prop.clone());
    templates(ctx);
    for _ in 0..n_cases {
        // the callback object: one that ignores everything, or (one case in four, always for C16) one
        // whose resize() calls set_size — so that CSI 8;r;c t changes the size in mid-stream
        let cb: &'static str = if rec.cb == "none" && (ctx.rng.chance(1, 4) || (ctx.prop == "C17" || ctx.prop == "C18") && ctx.rng.chance(1, 3)) {
            // … or one that looks at the screen it is handed (a callback made at the wrong moment shows)
            if ctx.rng.chance(1, 3) { "probe" } else { "resize" }
        } else {
            rec.cb
        };
        let rec = Recipe { cb, ..rec };
        let (rows, cols, mut sb) = ctx.new_case(rec.cb, u8::from(rec.sb));
        ctx.foreign_screen = false;
        if matches!(ctx.prop.as_str(), "C02" | "C19" | "C09" | "C10") && ctx.rng.chance(1, 2)
            || matches!(ctx.prop.as_str(), "C17" | "C12" | "C03" | "C13" | "C11" | "C16") && ctx.rng.chance(1, 4)
        {
            // pairs from independent histories: a prologue on the same size whose end state is kept
            // in slot 1, then a new parser for the history proper (the case stays self-contained)
            let n = ctx.rng.range(1, 6);
            for _ in 0..n {
                let mut g = ctx.gen();
                let k = g.pick_kind(rec.setup);
                let bytes = g.chunk(k);
                ctx.sess.process_setup(&bytes);
                if ctx.sess.dead {
                    break;
                }
            }
            api_noise(ctx, &rec, true);
            if !ctx.sess.dead {
                ctx.sess.snapshot(1);
            }
            // set_size in the prologue may have changed the size: the history proper uses the
            // size the snapshot has, so that the pair is comparable
            let (r2, c2) = ctx.sess.screen().map_or((rows, cols), |s| (u64::from(s.size().0), u64::from(s.size().1)));
            // (the second parser has another scrollback capacity half of the time)
            sb = if ctx.rng.chance(1, 2) { gen::pick_sb(&mut ctx.rng, r2) } else { sb };
            ctx.sess.restart_keep(r2, c2, sb, rec.cb);
        }
        let mut dirty: Option<Vec<u8>> = None;
        let mut chain = None;
        let mut last_focus: Option<(Kind, Vec<u8>)> = None;
        for step in 0..rec.steps {
            if ctx.sess.dead {
                break;
            }
            // setup burst
            let mut did_setup = false;
            if rec.sync_each && (step == 0 || ctx.rng.chance(1, 2)) {
                let n = ctx.rng.range(1, 5);
                let mut g = ctx.gen();
                for _ in 0..n {
                    let k = g.pick_kind(rec.setup);
                    let bytes = g.chunk(k);
                    ctx.sess.process_setup(&bytes);
                }
                if rec.placement && g.rng.chance(1, 2) {
                    let bytes = g.placement();
                    ctx.sess.process_setup(&bytes);
                }
                api_noise(ctx, &rec, true);
                did_setup = true;
            }
            if ctx.sess.dead {
                break;
            }
            if matches!(ctx.prop.as_str(), "C02" | "C09" | "C10" | "C15" | "C03" | "C19") && ctx.rng.chance(1, 2) {
                let k = ctx.rng.below(2);
                ctx.sess.snapshot(k);
            }
            if rec.sync_each && (did_setup || true) {
                ctx.sess.sync();
            }
            // the read accessors are asked BEFORE the focus step as well, one time in two: an accessor that
            // remembers its last answer must notice every operation that comes between two calls
            if matches!(ctx.prop.as_str(), "C14" | "C15" | "C19" | "C01" | "C12" | "C02" | "C10" | "C09") && ctx.rng.chance(1, 2) {
                queries(ctx);
            }
            // focus step
            let mut g = ctx.gen();
            if !rec.sync_each && rec.placement && g.rng.chance(1, 4) {
                let bytes = g.placement();
                ctx.sess.process_checked(&bytes, "Placement");
            }
            let mut k = g.pick_kind(rec.focus);
            let mut bytes = g.chunk(k);
            // the same input once more, one time in ten: nothing the crate remembers about the previous
            // sequence (a last-reported title, a cached answer) may change what the second one does
            if let Some((k0, b0)) = &last_focus {
                if g.rng.chance(1, 10) {
                    k = *k0;
                    bytes = b0.clone();
                }
            }
            last_focus = Some((k, bytes.clone()));
            let tag = kind_tag(k);
            let mut ris_plus_more = false;
            if ctx.prop == "C17" && g.rng.chance(1, 3) {
                // input BEFORE the reset in the same process() call (a resize request, a screen switch,
                // a mode change, text): the reset must see the state they leave behind
                let k0 = *g.rng.pick(&[Kind::Xtwinops, Kind::Xtwinops, Kind::Alt, Kind::Mode, Kind::Text, Kind::Region]);
                let mut pre = g.chunk(k0);
                pre.extend_from_slice(&bytes);
                bytes = pre;
            }
            if ctx.prop == "C17" && g.rng.chance(1, 2) {
                // "every later input behaves as on a fresh parser": more input follows the reset in the
                // SAME process() call and is cut inside a sequence that began after it
                // (one time in two: input that makes a callback, which then sees the screen right after the reset)
                let k2 = if g.rng.chance(1, 2) { *g.rng.pick(&[Kind::Osc, Kind::Osc, Kind::Ctl, Kind::CsiOther, Kind::EscOther, Kind::Xtwinops, Kind::Utf8Bad]) } else { g.pick_kind(ALL_KINDS) };
                let more = g.chunk(k2);
                if more.len() >= 2 {
                    let cut = bytes.len() + g.rng.range(1, more.len() as u64 - 1) as usize;
                    bytes.extend(more);
                    if g.rng.chance(1, 2) {
                        // … or not cut at all: everything in the one call that carries the reset
                        ctx.sess.process_checked(&bytes, &tag);
                    } else {
                        ctx.sess.process_checked(&bytes[..cut], &tag);
                        ctx.sess.process_checked(&bytes[cut..], &tag);
                    }
                    bytes.clear();
                    ris_plus_more = true;
                }
            }
            if bytes.is_empty() {
                // already processed above
            } else if bytes.len() >= 2 && g.rng.chance(1, 4) {
                // the same bytes in two or more process() calls
                if g.rng.chance(1, 3) {
                    for b in &bytes {
                        ctx.sess.process_checked(&[*b], &tag);
                    }
                } else {
                    let cut = g.rng.range(1, bytes.len() as u64 - 1) as usize;
                    ctx.sess.process_checked(&bytes[..cut], &tag);
                    ctx.sess.process_checked(&bytes[cut..], &tag);
                }
            } else {
                ctx.sess.process_checked(&bytes, &tag);
            }
            ctx.sess.checked("D", &format!("D:{tag}"));
            ctx.sess.checked("E", &format!("E:{tag}"));
            if !rec.sync_each {
                api_noise(ctx, &rec, false);
            }
            // (the fresh-parser oracle applies to the state right after the reset: not when more
            // input followed it in the same step — that case is decided by the step correspondence)
            if ctx.prop == "C17" && !ctx.sess.dead && !ris_plus_more && !ctx.foreign_screen {
                let size = ctx.sess.screen().map(|s| s.size());
                if let (Some(p), Some((r, c))) = (ctx.sess.runner.parser.as_ref(), size) {
                    let f = oracle::c17(p, r, c, sb as usize);
                    ctx.record(f);
                }
            }
            queries(ctx);
            run_oracle(ctx, &mut dirty, &mut chain);
        }
    }
}

/// a chunk through `impl io::Write`: write, write_all, or write_vectored (a short slice in front of the
/// rest, or three slices) — chosen from the chunk itself so that a replay is exact.  Returns the op
/// line and the pieces the crate receives in separate calls (the default write_vectored takes one
/// slice per call).
fn write_plan(ch: &[u8], ci: usize) -> (String, Vec<Vec<u8>>) {
    let cuts: Vec<usize> = match (ch.len() + ci) % 4 {
        1 if ch.len() >= 2 => vec![2.min(ch.len() - 1)],
        2 if ch.len() >= 3 => vec![1, ch.len() / 2 + 1],
        0 => return (format!("WA {}", hex(ch)), vec![ch.to_vec()]),
        _ => return (format!("W {}", hex(ch)), vec![ch.to_vec()]),
    };
    let mut pieces = vec![];
    let mut i = 0;
    for &c in &cuts {
        pieces.push(ch[i..c].to_vec());
        i = c;
    }
    pieces.push(ch[i..].to_vec());
    let cs: Vec<String> = cuts.iter().map(ToString::to_string).collect();
    (format!("WV {} {}", hex(ch), cs.join(",")), pieces)
}

/// C04: the same byte string whole, at every single cut, byte-at-a-time, random multi-cuts, via Write
fn run_c04(ctx: &mut Ctx, n_cases: u64) {
    // deterministic templates first: every C1 control character as UTF-8, every boundary character
    // class of the UTF-8 decoder, between two ASCII characters — cut everywhere
    let mut templates: Vec<Vec<u8>> = vec![];
    for x in 0x80u8..=0x9f {
        templates.push(vec![b'a', 0xC2, x, b'b']);
    }
    for cp in [0xA0u32, 0xFF, 0x7FF, 0x800, 0xFFFD, 0xD7FF, 0xE000, 0xFFFF, 0x10000, 0x10FFFF, 0x4E00, 0x301, 0xFEFF, 0x200B, 0xFFFE, 0x2028] {
        let mut v = vec![b'a'];
        let mut b = [0u8; 4];
        v.extend_from_slice(char::from_u32(cp).unwrap().encode_utf8(&mut b).as_bytes());
        v.push(b'b');
        templates.push(v);
    }
    // an unfinished control string / sequence with a C0 control in it, then plain text, then the end:
    // cut right after the control and before the terminator (three calls), through process and write
    let mut cut_templates: Vec<(Vec<u8>, Vec<usize>)> = vec![];
    for intro in [&b"\x1b]2;"[..], b"\x1b]0;", b"\x1bP1$r", b"\x1b_", b"\x1b[3", b"\x1b[?25", b"\x1b(", b"\x1b]52;c;"] {
        for c0 in [0x0au8, 0x0d, 0x08, 0x09, 0x0b, 0x00, 0x7f] {
            for end in [&b"\x07"[..], b"\x1b\\", b"m", b"h"] {
                let mut v = b"ab".to_vec();
                v.extend_from_slice(intro);
                v.extend_from_slice(b"one");
                v.push(c0);
                let c1 = v.len();
                v.extend_from_slice(b"two");
                let c2 = v.len();
                v.extend_from_slice(end);
                v.extend_from_slice(b"cd");
                cut_templates.push((v, vec![c1, c2]));
            }
        }
    }
    // scenario strings of the other properties (two screens painted and revisited, saved cursor across a
    // region change and a reset, modes, wide / combining characters edited): cut at every byte
    for sc in [
        &b"\x1b[?47h\x1b[44m\x1b[2J\x1b[m\x1b[?47l$ ls\r\n\x1b[?47h\x1b[2;2Hq"[..],
        b"\x1b[?1049h\x1b[31mab\x1b[?1049l\x1b7\x1b[5;5H\x1b8x\x1b[?47h\x1b[?47l",
        b"ab\x1b7\x1b[2;3r\x1b[?6h\n\n\x1b8\x1bcxy\x1b[?6h\x1b8z",
        b"\x1b[?25l\x1b[?2004h\x1b=\x1b[?1000;1006h\x1b[?47h\x1bc\x1b[?1h",
        b"a\xe4\xb8\x80\xcc\x81\x1b[2D\x1b[1P\xe4\xb8\x80\x1b[2@\x1b[X",
        b"\x1b[41m\x1b[K\x1b[?47h\x1b[42m\x1b[2;1H\x1b[K\x1b[?47l\x1b[m\x1b[?1049h\x1b[?1049l\x1b[?47h",
        // the same report twice (titles, icon names, bells, an unknown sequence): every report is made, wherever the calls are cut
        b"\x1b]2;sh\x07$ ls\r\n\x1b]0;sh\x07\x1b]1;sh\x07\x07\x07\x1b[5z\x1b[5z$ ",
    ] {
        // twice: one of the two copies starts from a scrolled-back view with history (see `prelude` below)
        cut_templates.push((sc.to_vec(), (1..sc.len()).collect()));
        cut_templates.push((sc.to_vec(), (1..sc.len()).collect()));
    }
    // a C1 control character as UTF-8 (C2 80..9F) where the automaton is NOT in its ground state — inside an OSC / DCS /
    // APC string, right after ESC, inside a CSI, right after a truncated lead byte — cut between its two bytes and around
    for intro in [&b"\x1b]2;a"[..], b"\x1bP1$ra", b"\x1b_a", b"\x1b", b"\x1b[3", b"\xf0", b"\xe4\xb8", b"\x1b]0;"] {
        for x in [0x85u8, 0x9c, 0x80, 0x9f, 0x9b] {
            for end in [&b"b\x07x"[..], b"b\x1b\\x", b"m"] {
                let mut v = b"q".to_vec();
                v.extend_from_slice(intro);
                let c = v.len();
                v.extend_from_slice(&[0xC2, x]);
                v.extend_from_slice(end);
                cut_templates.push((v, vec![c, c + 1, c + 2]));
            }
        }
    }
    // one very long call: a multi-byte character straddling a power-of-two offset of the buffer
    // (block-wise processing inside process() must not lose or split it)
    for (k, filler) in [(4096usize, b'\r'), (8192, b'a'), (65536, b'\r'), (65536, b' '), (131072, b'\n')] {
        for (ch, back) in [("\u{e9}", 1usize), ("\u{4e00}", 1), ("\u{4e00}", 2), ("\u{1f600}", 3), ("\u{1f600}", 1)] {
            if k >= 65536 && !(back == 1 && ch != "\u{4e00}") && !ctx.thorough {
                continue;
            }
            let mut v = vec![filler; k - back];
            v.extend_from_slice(ch.as_bytes());
            v.extend_from_slice(b"!\x1b[31mz");
            cut_templates.push((v, vec![k / 2, k]));
        }
    }
    // very long control strings (a DCS / APC / OSC payload of thousands of bytes), cut inside the payload
    for (intro, end) in [(&b"\x1bP0;1q"[..], &b"\x1b\\"[..]), (b"\x1b_", b"\x1b\\"), (b"\x1b]2;", b"\x07"), (b"\x1bP1$r", b"\x18")] {
        for n in [1030usize, 4200, 5000] {
            let mut v = b"ab".to_vec();
            v.extend_from_slice(intro);
            let st = v.len();
            v.extend(std::iter::repeat(b'~').take(n));
            v.extend_from_slice(end);
            v.extend_from_slice(b"cd\x1b[31mz");
            let mut cuts = vec![st + n / 2, st + n - 20, st + n.min(4097)];
            cuts.sort_unstable();
            cuts.dedup();
            cut_templates.push((v, cuts));
        }
    }
    let n_templates = (templates.len() + cut_templates.len()) as u64;
    for case_i in 0..(n_cases + n_templates) {
        let (rows, cols) = gen::pick_size(&mut ctx.rng, ctx.thorough, ctx.sess.cases);
        let sb = gen::pick_sb(&mut ctx.rng, rows);
        // the byte string
        let mut g = Gen::new(Rng(ctx.rng.next() | 1), rows, cols);
        let n = g.rng.range(1, 6);
        let mut bytes = vec![];
        let mut fixed_cuts: Option<Vec<usize>> = None;
        if (case_i as usize) < templates.len() {
            bytes = templates[case_i as usize].clone();
        } else if (case_i as usize) < templates.len() + cut_templates.len() {
            let (b, c) = cut_templates[case_i as usize - templates.len()].clone();
            bytes = b;
            fixed_cuts = Some(c);
        } else {
            for _ in 0..n {
                let k = if g.rng.chance(1, 3) {
                    *g.rng.pick(&[Kind::Utf8Bad, Kind::Osc, Kind::CsiOther, Kind::Dcs, Kind::Garbage, Kind::Text])
                } else {
                    g.pick_kind(ALL_KINDS)
                };
                bytes.extend(g.chunk(k));
            }
        }
        if bytes.len() > 60 && fixed_cuts.is_none() {
            bytes.truncate(60);
        }
        // the very long calls scroll tens of thousands of lines: with a large capacity every one of them is
        // kept, and the model's history is a list (quadratic) — a small capacity exercises the same code
        let sb = if bytes.len() > 1000 { sb.min(5) } else { sb };
        // one case in three starts from a screen with history and a scrolled-back view (set through the API before
        // the bytes arrive): what the bytes do to the view must not depend on where the calls are cut either
        let scenario = fixed_cuts.is_some() && bytes.len() <= 200;
        let sb = if scenario && case_i % 2 == 0 { sb.clamp(3, 1000) } else { sb };
        let prelude: Option<u64> = if sb > 0 && (ctx.rng.chance(1, 3) || scenario && case_i % 2 == 0) { Some(*ctx.rng.pick(&[1u64, 2, rows, 9])) } else { None };
        // reference: whole
        let reference = |ctx: &mut Ctx, chunks: &[&[u8]], via_write: bool, tag: &str| -> (String, String) {
            ctx.case_start = ctx.sess.ops.len();
            ctx.sess.new_case(rows, cols, sb, if via_write { "plain" } else { "none" }, "C04");
            if let Some(k) = prelude {
                ctx.sess.checked("P 310d0a320d0a330d0a340d0a350d0a360d0a37", "prelude");
                ctx.sess.checked(&format!("B {k}"), "prelude");
            }
            for (ci, ch) in chunks.iter().enumerate() {
                let line = if via_write { write_plan(ch, ci).0 } else { format!("P {}", hex(ch)) };
                ctx.sess.checked(&line, tag);
            }
            let d = ctx.sess.checked("D", "D:chunk");
            let e = ctx.sess.checked("E", "E:chunk");
            (d, e)
        };
        let whole = reference(ctx, &[&bytes], false, "whole");
        if ctx.sess.dead {
            continue;
        }
        let mut variants: Vec<(Vec<Vec<u8>>, bool)> = vec![];
        if let Some(fc) = &fixed_cuts {
            // the template's own cut points: all of them at once, and each alone; process and write
            let mut parts = vec![];
            let mut i = 0;
            for &c in fc {
                parts.push(bytes[i..c].to_vec());
                i = c;
            }
            parts.push(bytes[i..].to_vec());
            variants.push((parts.clone(), false));
            variants.push((parts, true));
            for &c in fc {
                variants.push((vec![bytes[..c].to_vec(), bytes[c..].to_vec()], c % 2 == 0));
            }
        }
        let cuts: Vec<usize> = if fixed_cuts.is_some() && bytes.len() > 200 {
            vec![]
        } else if ctx.thorough || bytes.len() <= 12 {
            (1..bytes.len()).collect()
        } else {
            (0..6).map(|_| ctx.rng.range(1, bytes.len() as u64 - 1) as usize).collect()
        };
        for c in cuts {
            let w = ctx.rng.chance(1, 3);
            variants.push((vec![bytes[..c].to_vec(), bytes[c..].to_vec()], w));
        }
        if bytes.len() <= 200 {
            variants.push((bytes.iter().map(|b| vec![*b]).collect(), false));
        }
        for _ in 0..(if bytes.len() <= 200 { 2 } else { 0 }) {
            let mut parts = vec![];
            let mut i = 0;
            while i < bytes.len() {
                let n = ctx.rng.range(1, 4) as usize;
                let j = (i + n).min(bytes.len());
                parts.push(bytes[i..j].to_vec());
                i = j;
            }
            variants.push((parts, ctx.rng.chance(1, 2)));
        }
        variants.push((vec![bytes.clone()], true));
        for (parts, via_write) in variants {
            let refs: Vec<&[u8]> = parts.iter().map(|p| p.as_slice()).collect();
            let got = reference(ctx, &refs, via_write, "split");
            ctx.oracle_cases += 1;
            if (got.0 != whole.0 || (!via_write && got.1 != whole.1)) && !ctx.sess.dead {
                let split_desc: Vec<String> = parts.iter().map(|p| hex(p)).collect();
                // classification of the known findings: by the pieces the crate really received
                let eff: Vec<Vec<u8>> = if via_write {
                    parts.iter().enumerate().flat_map(|(ci, ch)| write_plan(ch, ci).1).filter(|p| !p.is_empty()).collect()
                } else {
                    parts.clone()
                };
                let key = c04_key(&bytes, &eff, &whole, &got);
                let ops = ctx.sess.ops[ctx.case_start..].to_vec();
                let mut all = vec![format!("N {rows} {cols} {sb} none")];
                if let Some(k) = prelude {
                    all.push("P 310d0a320d0a330d0a340d0a350d0a360d0a37".into());
                    all.push(format!("B {k}"));
                }
                all.extend([format!("P {}", hex(&bytes)), "D".into(), "E".into()]);
                all.extend(ops);
                if ctx.failures.len() < 200 {
                    ctx.failures.push((
                        Failure {
                            property: "C04".into(),
                            key,
                            desc: format!(
                                "whole {} vs chunks {}: {}",
                                hex(&bytes),
                                split_desc.join("|"),
                                if got.0 != whole.0 { "screen state differs" } else { "callback events differ" }
                            ),
                        },
                        all,
                    ));
                }
            }
        }
    }
}

/// F7: only the events differ, and only by uctl:N (whole) vs uchar:N (split) for a C1 character
/// F10: a chunk boundary inside a UTF-8 sequence that is followed by another character and then an
/// invalid byte within 4 bytes (vte's advance_partial_utf8 drops the characters after the first)
fn c04_key(bytes: &[u8], parts: &[Vec<u8>], whole: &(String, String), got: &(String, String)) -> String {
    if whole.0 == got.0 {
        let a: Vec<&str> = whole.1.split(' ').collect();
        let b: Vec<&str> = got.1.split(' ').collect();
        if a.len() == b.len()
            && a.iter().zip(b.iter()).all(|(x, y)| {
                x == y
                    || (x.starts_with("uctl:")
                        && y.starts_with("uchar:")
                        && x[5..] == y[6..]
                        && x[5..].parse::<u32>().is_ok_and(|n| (0x80..0xa0).contains(&n)))
            })
        {
            return "F7-split-C1".into();
        }
    }
    // F10 recognition: some cut falls inside a multi-byte sequence whose carry buffer (4 bytes) then
    // holds: the completed char, at least one more complete char, and an invalid/incomplete tail
    let mut pos = 0usize;
    for p in parts.iter().take(parts.len().saturating_sub(1)) {
        pos += p.len();
        // find start of the UTF-8 sequence containing the cut
        for back in 1..=3usize {
            if pos < back {
                break;
            }
            let st = pos - back;
            let lead = bytes[st];
            let need = if (0xC2..=0xDF).contains(&lead) {
                2
            } else if (0xE0..=0xEF).contains(&lead) {
                3
            } else if (0xF0..=0xF4).contains(&lead) {
                4
            } else {
                0
            };
            if need > back {
                let end = (st + 4).min(bytes.len());
                let buf = &bytes[st..end];
                if let Err(e) = std::str::from_utf8(buf) {
                    let v = e.valid_up_to();
                    if v > 0 && std::str::from_utf8(&buf[..v]).is_ok_and(|s| s.chars().count() >= 2) {
                        return "F10-partial-utf8-drops-chars".into();
                    }
                }
                break;
            }
        }
    }
    "chunking".into()
}

fn write_out(ctx: &Ctx, outdir: &str, extra: &str) {
    std::fs::create_dir_all(outdir).unwrap();
    std::fs::write(format!("{outdir}/ops.txt"), ctx.sess.ops.join("\n") + "\n").unwrap();
    std::fs::write(format!("{outdir}/impl.txt"), ctx.sess.expect.join("\n") + "\n").unwrap();
    std::fs::write(format!("{outdir}/tags.txt"), ctx.sess.tags.join("\n") + "\n").unwrap();
    let mut o = String::new();
    for (f, ops) in &ctx.failures {
        let ops_j: Vec<String> = ops.iter().map(|l| jstr(l)).collect();
        let _ = writeln!(
            o,
            "{{\"property\":{},\"key\":{},\"desc\":{},\"ops\":[{}]}}",
            jstr(&f.property),
            jstr(&f.key),
            jstr(&f.desc),
            ops_j.join(",")
        );
    }
    std::fs::write(format!("{outdir}/oracle.jsonl"), o).unwrap();
    let kinds: Vec<String> = ctx.sess.kind_counts.iter().map(|(k, v)| format!("{}:{}", jstr(k), v)).collect();
    let sizes: Vec<String> = ctx.sess.size_counts.iter().map(|(k, v)| format!("{}:{}", jstr(k), v)).collect();
    let panics: Vec<String> = ctx
        .sess
        .panics
        .iter()
        .take(50)
        .map(|(i, l, o)| format!("{{\"line\":{},\"op\":{},\"out\":{}}}", i, jstr(&l.chars().take(200).collect::<String>()), jstr(o)))
        .collect();
    let samples: Vec<String> = ctx.sess.samples.iter().map(|s| jstr(s)).collect();
    let stats = format!(
        "{{\"cases\":{},\"lines\":{},\"checked_steps\":{},\"distinct_nontrivial\":{},\"oracle_cases\":{},\"oracle_failures\":{},\"panic_count\":{},\"kinds\":{{{}}},\"sizes\":{{{}}},\"panics\":[{}],\"samples\":[{}],\"slowest_op_s\":{},\"slowest_op\":{}{}}}\n",
        ctx.sess.cases,
        ctx.sess.ops.len(),
        ctx.sess.checked_steps,
        ctx.sess.nontrivial.len(),
        ctx.oracle_cases,
        ctx.failures.len(),
        ctx.sess.panics.len(),
        kinds.join(","),
        sizes.join(","),
        panics.join(","),
        samples.join(","),
        ctx.sess.runner.slowest.0,
        jstr(&ctx.sess.runner.slowest.1),
        extra
    );
    std::fs::write(format!("{outdir}/stats.json"), stats).unwrap();
}

fn cmd_gen(prop: &str, seed: u64, tier: &str, outdir: &str) {
    let thorough = tier == "thorough";
    let mut ctx = Ctx {
        sess: Session::new(),
        rng: Rng::new(seed ^ vtharness_hash(prop)),
        thorough,
        failures: vec![],
        case_start: 0,
        oracle_cases: 0,
        chain_tainted: false,
        force_f12: false,
        foreign_screen: false,
        prop: prop.to_string(),
    };
    let _ = std::fs::create_dir_all(outdir);
    ctx.sess.runner.journal = std::fs::File::create(format!("{outdir}/journal.txt")).ok();
    let n_cases: u64 = std::env::var("VERIF_CASES").ok().and_then(|s| s.parse().ok()).unwrap_or(if thorough { 8000 } else { 800 });
    // corpus first
    let corpus_dir = format!("{}/../corpus/{}", env!("CARGO_MANIFEST_DIR"), prop);
    if let Ok(rd) = std::fs::read_dir(&corpus_dir) {
        let mut files: Vec<_> = rd.filter_map(Result::ok).map(|e| e.path()).collect();
        files.sort();
        for f in files {
            if let Ok(txt) = std::fs::read_to_string(&f) {
                ctx.case_start = ctx.sess.ops.len();
                for line in txt.lines() {
                    let line = line.trim();
                    if line.is_empty() || line.starts_with('#') {
                        continue;
                    }
                    if line.starts_with("N ") {
                        let t: Vec<&str> = line.split(' ').collect();
                        let n = |i: usize| t.get(i).and_then(|x| x.parse::<u64>().ok()).unwrap_or(1);
                        if t.get(5) == Some(&"keep") {
                            ctx.sess.restart_keep(n(1), n(2), n(3), t.get(4).copied().unwrap_or("none"));
                        } else {
                            ctx.sess.new_case(n(1), n(2), n(3), t.get(4).copied().unwrap_or("none"), "corpus");
                        }
                    } else if line == "L" {
                        ctx.sess.sync();
                    } else if line.starts_with("LS ") || line.starts_with("S ") {
                        let k = line.split(' ').nth(1).and_then(|x| x.parse::<u64>().ok()).unwrap_or(0);
                        ctx.sess.snapshot(k);
                    } else if line.starts_with("O ") {
                        // the property's oracle on the state reached (minimized past failures run first)
                        let mut dirty = None;
                        let mut chain = None;
                        run_oracle(&mut ctx, &mut dirty, &mut chain);
                    } else {
                        ctx.sess.checked(line, "corpus");
                    }
                }
            }
        }
    }
    match prop {
        "C04" => run_c04(&mut ctx, n_cases / 4),
        _ => run_generic(&mut ctx, n_cases),
    }
    write_out(&ctx, outdir, "");
}

fn vtharness_hash(s: &str) -> u64 {
    let mut h: u64 = 0xcbf2_9ce4_8422_2325;
    for b in s.as_bytes() {
        h ^= u64::from(*b);
        h = h.wrapping_mul(0x1000_0000_01b3);
    }
    h
}

fn cmd_replay(path: &str, outdir: &str) {
    let txt = std::fs::read_to_string(path).unwrap();
    let mut r = Runner::new();
    let mut ops = vec![];
    let mut outs = vec![];
    for line in txt.lines() {
        let line = line.trim_end();
        if line.is_empty() || line.starts_with('#') {
            continue;
        }
        if line == "L" || line.starts_with("L ") {
            ops.push(format!("L {}", r.dump()));
            outs.push("ok".to_string());
        } else if line.starts_with("LS ") {
            let k = line.split(' ').nth(1).unwrap_or("0");
            let _ = r.exec(&format!("S {k}"));
            ops.push(format!("LS {k} {}", r.dump()));
            outs.push("ok".to_string());
        } else {
            let o = r.exec(line);
            ops.push(line.to_string());
            outs.push(o);
        }
    }
    std::fs::create_dir_all(outdir).unwrap();
    std::fs::write(format!("{outdir}/ops.txt"), ops.join("\n") + "\n").unwrap();
    std::fs::write(format!("{outdir}/impl.txt"), outs.join("\n") + "\n").unwrap();
}

/// C03 cost clause (a measurement, not the theorem): every CSI final byte with parameters up to
/// 65535 on 50x132, each timed.
fn cmd_timing(outdir: &str) {
    let mut worst = (0.0f64, String::new());
    let mut over = vec![];
    let mut n = 0u64;
    for (rows, cols) in [(50u16, 132u16), (24, 80), (3, 4)] {
        for fin in 0x40u8..=0x7e {
            for params in ["65535", "65535;65535", "9999", "512;512"] {
                for prefix in ["", "?"] {
                    let mut p = vt100::Parser::new(rows, cols, 10);
                    // some content and a scroll region so that shifting has work to do
                    p.process(b"hello\r\nworld\x1b[2;10r\x1b[5;5H");
                    let seq = format!("\x1b[{prefix}{params}{}", fin as char);
                    let t0 = std::time::Instant::now();
                    let r = vtharness::catch(|| p.process(seq.as_bytes()));
                    let dt = t0.elapsed().as_secs_f64();
                    n += 1;
                    if r.is_err() {
                        continue;
                    }
                    if dt > worst.0 {
                        worst = (dt, format!("{rows}x{cols} {}", hex(seq.as_bytes())));
                    }
                    if dt > 0.1 {
                        over.push(format!("{{\"size\":\"{rows}x{cols}\",\"seq\":{},\"final\":{},\"s\":{dt}}}", jstr(&hex(seq.as_bytes())), jstr(&(fin as char).to_string())));
                    }
                }
            }
        }
    }
    std::fs::create_dir_all(outdir).unwrap();
    std::fs::write(
        format!("{outdir}/timing.json"),
        format!("{{\"sequences\":{n},\"worst_s\":{},\"worst\":{},\"over_budget\":[{}]}}\n", worst.0, jstr(&worst.1), over.join(",")),
    )
    .unwrap();
}

fn main() {
    vtharness::install_panic_hook();
    let args: Vec<String> = std::env::args().collect();
    match args.get(1).map(String::as_str) {
        Some("gen") if args.len() == 6 => {
            cmd_gen(&args[2], args[3].parse().unwrap_or(1), &args[4], &args[5]);
        }
        Some("replay") if args.len() == 4 => cmd_replay(&args[2], &args[3]),
        Some("timing") if args.len() == 3 => cmd_timing(&args[2]),
        _ => {
            eprintln!("usage: vtharness gen <prop> <seed> <tier> <outdir> | replay <ops> <outdir> | timing <outdir>");
            std::process::exit(2);
        }
    }
}
