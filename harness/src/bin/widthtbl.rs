// Dumps unicode-width's `char::width()` for every scalar value, run-length
// encoded: `lo hi w` with w in {n,0,1,2}. Surrogates are skipped.
use unicode_width::UnicodeWidthChar as _;
fn main() {
    let mut out = String::new();
    let mut cur: Option<(u32, u32, Option<usize>)> = None;
    for cp in 0u32..0x11_0000 {
        let Some(c) = char::from_u32(cp) else { continue };
        let w = c.width();
        match cur {
            Some((lo, hi, cw)) if cw == w && hi + 1 == cp => cur = Some((lo, cp, cw)),
            Some((lo, hi, cw)) => {
                push(&mut out, lo, hi, cw);
                cur = Some((cp, cp, w));
            }
            None => cur = Some((cp, cp, w)),
        }
    }
    if let Some((lo, hi, cw)) = cur {
        push(&mut out, lo, hi, cw);
    }
    print!("{out}");
}
fn push(out: &mut String, lo: u32, hi: u32, w: Option<usize>) {
    use std::fmt::Write as _;
    match w {
        None => { let _ = writeln!(out, "{lo} {hi} n"); }
        Some(w) => { let _ = writeln!(out, "{lo} {hi} {w}"); }
    }
}
