import Vt.Props.C12
import Vt.Props.InvPerform
namespace Vt.C12
open Vt
set_option linter.unusedSimpArgs false

def MRel {α β} (R : α → β → Prop) : M α → M β → Prop
  | .ok a, .ok b => R a b
  | .error e, .error e' => e = e'
  | _, _ => False

theorem MRel.pure {α β} {R : α → β → Prop} {a : α} {b : β} (h : R a b) :
    MRel R (pure a : M α) (pure b : M β) := h

theorem MRel.bind {α β γ δ} {R : α → β → Prop} {S : γ → δ → Prop} {m1 : M α} {m2 : M β}
    {f1 : α → M γ} {f2 : β → M δ} (h : MRel R m1 m2) (hf : ∀ a b, R a b → MRel S (f1 a) (f2 b)) :
    MRel S (m1 >>= f1) (m2 >>= f2) := by
  cases m1 <;> cases m2 <;> simp_all [MRel]
  · exact h
  · exact hf _ _ h

theorem MRel.bind_same {α γ δ} {S : γ → δ → Prop} (m : M α)
    {f1 : α → M γ} {f2 : α → M δ} (hf : ∀ a, MRel S (f1 a) (f2 a)) :
    MRel S (m >>= f1) (m >>= f2) := by
  cases m with
  | error e => rfl
  | ok a => exact hf a

def Grid.forgetOff (g : Grid) : Grid := { g with scrollbackOffset := 0 }
def GEq (g1 g2 : Grid) : Prop := Grid.forgetOff g1 = Grid.forgetOff g2

theorem GEq.elim {g1 g2 : Grid} (h : GEq g1 g2) : ∃ k, g1 = { g2 with scrollbackOffset := k } := by
  refine ⟨g1.scrollbackOffset, ?_⟩
  cases g1; cases g2
  simp only [GEq, Grid.forgetOff, Grid.mk.injEq] at h ⊢
  simp [h]

theorem colClamp_rel {g1 g2 : Grid} (h : GEq g1 g2) : MRel GEq g1.colClamp g2.colClamp := by
  obtain ⟨k, rfl⟩ := h.elim
  simp only [Grid.colClamp]
  trace_state
  apply MRel.bind_same; intro b
  apply MRel.pure
  trace_state
  split <;> rfl
end Vt.C12
