import Vt.Props.C12
import Vt.Props.InvPerform
namespace Vt.C12
open Vt
set_option linter.unusedSimpArgs false
set_option linter.unusedVariables false

/-! ## 0. relating two runs of the `M` monad -/

/-- both runs panic at the same site, or both succeed with related results -/
def MRel {α β} (R : α → β → Prop) : M α → M β → Prop
  | .ok a, .ok b => R a b
  | .error e, .error e' => e = e'
  | _, _ => False

theorem MRel.pure {α β} {R : α → β → Prop} {a : α} {b : β} (h : R a b) :
    MRel R (pure a : M α) (pure b : M β) := h

theorem MRel.ok {α β} {R : α → β → Prop} {a : α} {b : β} (h : R a b) :
    MRel R (.ok a : M α) (.ok b : M β) := h

theorem MRel.bind {α β γ δ} {R : α → β → Prop} {S : γ → δ → Prop} {m1 : M α} {m2 : M β}
    {f1 : α → M γ} {f2 : β → M δ} (h : MRel R m1 m2) (hf : ∀ a b, R a b → MRel S (f1 a) (f2 b)) :
    MRel S (m1 >>= f1) (m2 >>= f2) := by
  cases m1 with
  | error e1 =>
    cases m2 with
    | error e2 => exact h
    | ok b => exact h.elim
  | ok a =>
    cases m2 with
    | error e2 => exact h.elim
    | ok b => exact hf a b h

theorem MRel.bind_same {α γ δ} {S : γ → δ → Prop} (m : M α)
    {f1 : α → M γ} {f2 : α → M δ} (hf : ∀ a, MRel S (f1 a) (f2 a)) :
    MRel S (m >>= f1) (m >>= f2) := by
  cases m with
  | error e => exact (rfl : e = e)
  | ok a => exact hf a

theorem MRel.refl {α} {R : α → α → Prop} (hR : ∀ a, R a a) (m : M α) : MRel R m m := by
  cases m with
  | error e => exact (rfl : e = e)
  | ok a => exact hR a

theorem MRel.ite {α β} {R : α → β → Prop} {c : Prop} [Decidable c] {a1 b1 : M α} {a2 b2 : M β}
    (h1 : c → MRel R a1 a2) (h2 : ¬c → MRel R b1 b2) :
    MRel R (if c then a1 else b1) (if c then a2 else b2) := by
  by_cases h : c
  · simp only [h, ↓reduceIte]; exact h1 h
  · simp only [h, ↓reduceIte]; exact h2 h

theorem MRel.mono {α β} {R S : α → β → Prop} (hRS : ∀ a b, R a b → S a b) {m1 : M α} {m2 : M β}
    (h : MRel R m1 m2) : MRel S m1 m2 := by
  cases m1 with
  | error e1 => cases m2 with
    | error e2 => exact h
    | ok b => exact h.elim
  | ok a => cases m2 with
    | error e2 => exact h.elim
    | ok b => exact hRS a b h

/-- for a relation "equal after applying `fo`", `MRel` is equality of the mapped results -/
theorem MRel.iff_map {α γ} (fo : α → γ) (m1 m2 : M α) :
    MRel (fun a b => fo a = fo b) m1 m2 ↔ m1.map fo = m2.map fo := by
  cases m1 with
  | error e1 => cases m2 with
    | error e2 => simp [MRel, Except.map]
    | ok b => simp [MRel, Except.map]
  | ok a => cases m2 with
    | error e2 => simp [MRel, Except.map]
    | ok b => simp [MRel, Except.map]

theorem MRel.eq_iff {α} (m1 m2 : M α) : MRel (fun a b => a = b) m1 m2 ↔ m1 = m2 := by
  cases m1 with
  | error e1 => cases m2 with
    | error e2 => simp [MRel]
    | ok b => simp [MRel]
  | ok a => cases m2 with
    | error e2 => simp [MRel]
    | ok b => simp [MRel]

theorem iterateM_rel {α β} {R : α → β → Prop} {f1 : α → M α} {f2 : β → M β}
    (hf : ∀ a b, R a b → MRel R (f1 a) (f2 b)) :
    ∀ (n : Nat) (a : α) (b : β), R a b → MRel R (iterateM n f1 a) (iterateM n f2 b) := by
  intro n
  induction n with
  | zero => intro a b h; exact h
  | succ n ih =>
    intro a b h
    simp only [iterateM]
    exact MRel.bind (hf a b h) (fun a' b' h' => ih a' b' h')

theorem foldlM_rel {α β ι} {R : α → β → Prop} {f1 : α → ι → M α} {f2 : β → ι → M β}
    (hf : ∀ i a b, R a b → MRel R (f1 a i) (f2 b i)) :
    ∀ (l : List ι) (a : α) (b : β), R a b → MRel R (l.foldlM f1 a) (l.foldlM f2 b) := by
  intro l
  induction l with
  | nil => intro a b h; exact h
  | cons i l ih =>
    intro a b h
    simp only [List.foldlM]
    exact MRel.bind (hf i a b h) (fun a' b' h' => ih a' b' h')

/-! ## 1. equality up to the scrollback offset: grids -/

/-- "equal after forgetting": the relations of this file all have this shape -/
abbrev Sim {α γ} (fo : α → γ) (a b : α) : Prop := fo a = fo b

theorem MRel.sim_iff {α γ} (fo : α → γ) (m1 m2 : M α) :
    MRel (Sim fo) m1 m2 ↔ m1.map fo = m2.map fo := MRel.iff_map fo m1 m2

def Grid.forgetOff (g : Grid) : Grid := { g with scrollbackOffset := 0 }

/-- equal up to the scrollback offset -/
abbrev GEq : Grid → Grid → Prop := Sim Grid.forgetOff

/-- `(grid, count)` results -/
abbrev PEq : Grid × Nat → Grid × Nat → Prop := Sim (fun p => (Grid.forgetOff p.1, p.2))

theorem GEq.elim {g1 g2 : Grid} (h : GEq g1 g2) : ∃ k, g1 = { g2 with scrollbackOffset := k } := by
  refine ⟨g1.scrollbackOffset, ?_⟩
  cases g1; cases g2
  simp only [GEq, Sim, Grid.forgetOff, Grid.mk.injEq] at h ⊢
  simp [h]

theorem PEq.elim {p q : Grid × Nat} (h : PEq p q) : GEq p.1 q.1 ∧ p.2 = q.2 := by
  simp only [PEq, Sim, Prod.mk.injEq] at h
  exact h

/-- the structural steps of a relational proof about two runs that are syntactically the same
program on grids differing in the offset only -/
syntax "mrel" : tactic
macro_rules
  | `(tactic| mrel) => `(tactic| repeat' (first
      | exact MRel.refl (fun _ => rfl) _
      | exact MRel.pure rfl
      | exact MRel.ok rfl
      | (apply MRel.bind_same; intro _)
      | (apply MRel.ite <;> intro _)
      | (apply MRel.pure; (split <;> rfl))))

section grid
variable {g1 g2 : Grid}

theorem colClamp_rel (h : GEq g1 g2) : MRel GEq g1.colClamp g2.colClamp := by
  obtain ⟨k, rfl⟩ := h.elim
  simp only [Grid.colClamp]
  mrel

theorem rowClamp_rel (h : GEq g1 g2) : MRel GEq g1.rowClamp g2.rowClamp := by
  obtain ⟨k, rfl⟩ := h.elim
  simp only [Grid.rowClamp]
  mrel

theorem rowClampTop_rel (h : GEq g1 g2) (l : Bool) : PEq (g1.rowClampTop l) (g2.rowClampTop l) := by
  obtain ⟨k, rfl⟩ := h.elim
  simp only [Grid.rowClampTop]
  split <;> rfl

theorem rowClampBottom_rel (h : GEq g1 g2) (l : Bool) :
    MRel PEq (g1.rowClampBottom l) (g2.rowClampBottom l) := by
  obtain ⟨k, rfl⟩ := h.elim
  simp only [Grid.rowClampBottom]
  mrel

@[simp] theorem rowClampTop_originMode (g : Grid) (l : Bool) :
    (g.rowClampTop l).1.originMode = g.originMode := by
  simp only [Grid.rowClampTop]; split <;> rfl

theorem setPos_rel (h : GEq g1 g2) (pos : Pos) : MRel GEq (g1.setPos pos) (g2.setPos pos) := by
  obtain ⟨k, rfl⟩ := h.elim
  simp only [Grid.setPos, rowClampTop_originMode]
  refine MRel.bind (rowClampBottom_rel (rowClampTop_rel (by rfl) _).elim.1 _) ?_
  intro a b hab
  exact colClamp_rel hab.elim.1

theorem insertLines_rel (h : GEq g1 g2) (n : Nat) : MRel GEq (g1.insertLines n) (g2.insertLines n) := by
  obtain ⟨k, rfl⟩ := h.elim
  simp only [Grid.insertLines]
  refine iterateM_rel ?_ _ _ _ rfl
  intro a b hab
  obtain ⟨k, rfl⟩ := hab.elim
  simp only [Grid.newRow]
  mrel

theorem deleteLines_rel (h : GEq g1 g2) (n : Nat) : MRel GEq (g1.deleteLines n) (g2.deleteLines n) := by
  obtain ⟨k, rfl⟩ := h.elim
  simp only [Grid.deleteLines]
  apply MRel.bind_same; intro d
  refine iterateM_rel ?_ _ _ _ rfl
  intro a b hab
  obtain ⟨k, rfl⟩ := hab.elim
  simp only [Grid.newRow]
  mrel

theorem scrollDown_rel (h : GEq g1 g2) (n : Nat) : MRel GEq (g1.scrollDown n) (g2.scrollDown n) := by
  obtain ⟨k, rfl⟩ := h.elim
  simp only [Grid.scrollDown]
  refine iterateM_rel ?_ _ _ _ rfl
  intro a b hab
  obtain ⟨k, rfl⟩ := hab.elim
  simp only [Grid.newRow]
  mrel

/-- one step of `scroll_up`: the only place where the offset is both read and written -/
theorem scrollUpStep_rel (h : GEq g1 g2) : MRel GEq (scrollUpStep g1) (scrollUpStep g2) := by
  obtain ⟨k, rfl⟩ := h.elim
  simp only [scrollUpStep, Grid.newRow, Grid.scrollRegionActive]
  mrel

theorem scrollUp_rel (h : GEq g1 g2) (n : Nat) : MRel GEq (g1.scrollUp n) (g2.scrollUp n) := by
  rw [scrollUp_eq_iterate, scrollUp_eq_iterate]
  obtain ⟨k, rfl⟩ := h.elim
  simp only
  apply MRel.bind_same; intro d
  exact iterateM_rel (fun a b hab => scrollUpStep_rel hab) _ _ _ rfl

theorem allocateRows_rel (h : GEq g1 g2) : GEq g1.allocateRows g2.allocateRows := by
  obtain ⟨k, rfl⟩ := h.elim
  simp only [Grid.allocateRows]
  split <;> rfl

theorem clear_rel (h : GEq g1 g2) : MRel GEq g1.clear g2.clear := by
  obtain ⟨k, rfl⟩ := h.elim
  simp only [Grid.clear]
  mrel

theorem saveCursor_rel (h : GEq g1 g2) : GEq g1.saveCursor g2.saveCursor := by
  obtain ⟨k, rfl⟩ := h.elim; rfl

theorem restoreCursor_rel (h : GEq g1 g2) : GEq g1.restoreCursor g2.restoreCursor := by
  obtain ⟨k, rfl⟩ := h.elim; rfl

/-- `set_scrollback` only writes the offset: whatever the two arguments are -/
theorem setScrollback_rel (h : GEq g1 g2) (r r' : Nat) : GEq (g1.setScrollback r) (g2.setScrollback r') := by
  obtain ⟨k, rfl⟩ := h.elim; rfl

theorem eraseAll_rel (h : GEq g1 g2) (a : Attrs) : GEq (g1.eraseAll a) (g2.eraseAll a) := by
  obtain ⟨k, rfl⟩ := h.elim; rfl

theorem modifyCurrentRow_rel (h : GEq g1 g2) (f : Row → M Row) :
    MRel GEq (g1.modifyCurrentRow f) (g2.modifyCurrentRow f) := by
  obtain ⟨k, rfl⟩ := h.elim
  simp only [Grid.modifyCurrentRow]
  mrel

theorem modifyCellM_rel (h : GEq g1 g2) (site : Nat) (pos : Pos) (f : Cell → M Cell) :
    MRel GEq (g1.modifyCellM site pos f) (g2.modifyCellM site pos f) := by
  obtain ⟨k, rfl⟩ := h.elim
  simp only [Grid.modifyCellM]
  mrel

theorem eraseRowForward_rel (h : GEq g1 g2) (a : Attrs) :
    MRel GEq (g1.eraseRowForward a) (g2.eraseRowForward a) := by
  obtain ⟨k, rfl⟩ := h.elim
  simp only [Grid.eraseRowForward, Grid.modifyCurrentRow]
  mrel

theorem eraseRowBackward_rel (h : GEq g1 g2) (a : Attrs) :
    MRel GEq (g1.eraseRowBackward a) (g2.eraseRowBackward a) := by
  obtain ⟨k, rfl⟩ := h.elim
  simp only [Grid.eraseRowBackward, Grid.modifyCurrentRow]
  mrel

theorem eraseAllForward_rel (h : GEq g1 g2) (a : Attrs) :
    MRel GEq (g1.eraseAllForward a) (g2.eraseAllForward a) := by
  obtain ⟨k, rfl⟩ := h.elim
  simp only [Grid.eraseAllForward, Grid.eraseRowForward, Grid.modifyCurrentRow]
  mrel

theorem eraseAllBackward_rel (h : GEq g1 g2) (a : Attrs) :
    MRel GEq (g1.eraseAllBackward a) (g2.eraseAllBackward a) := by
  obtain ⟨k, rfl⟩ := h.elim
  simp only [Grid.eraseAllBackward, Grid.eraseRowBackward, Grid.modifyCurrentRow]
  mrel

theorem eraseRow_rel (h : GEq g1 g2) (a : Attrs) : MRel GEq (g1.eraseRow a) (g2.eraseRow a) := by
  obtain ⟨k, rfl⟩ := h.elim
  simp only [Grid.eraseRow, Grid.modifyCurrentRow]
  mrel

theorem insertCells_rel (h : GEq g1 g2) (n : Nat) : MRel GEq (g1.insertCells n) (g2.insertCells n) := by
  obtain ⟨k, rfl⟩ := h.elim
  simp only [Grid.insertCells, Grid.modifyCurrentRow, Grid.drawingCellM, Grid.drawingCell, Grid.drawingRow]
  mrel

theorem deleteCells_rel (h : GEq g1 g2) (n : Nat) : MRel GEq (g1.deleteCells n) (g2.deleteCells n) := by
  obtain ⟨k, rfl⟩ := h.elim
  simp only [Grid.deleteCells, Grid.modifyCurrentRow]
  mrel

theorem eraseCells_rel (h : GEq g1 g2) (n : Nat) (a : Attrs) :
    MRel GEq (g1.eraseCells n a) (g2.eraseCells n a) := by
  obtain ⟨k, rfl⟩ := h.elim
  simp only [Grid.eraseCells, Grid.modifyCurrentRow]
  mrel

theorem setScrollRegion_rel (h : GEq g1 g2) (t b : Nat) :
    MRel GEq (g1.setScrollRegion t b) (g2.setScrollRegion t b) := by
  obtain ⟨k, rfl⟩ := h.elim
  simp only [Grid.setScrollRegion]
  mrel

theorem setOriginMode_rel (h : GEq g1 g2) (m : Bool) :
    MRel GEq (g1.setOriginMode m) (g2.setOriginMode m) := by
  obtain ⟨k, rfl⟩ := h.elim
  simp only [Grid.setOriginMode]
  exact setPos_rel (by rfl) _

theorem rowIncClamp_rel (h : GEq g1 g2) (n : Nat) : MRel GEq (g1.rowIncClamp n) (g2.rowIncClamp n) := by
  obtain ⟨k, rfl⟩ := h.elim
  simp only [Grid.rowIncClamp, Grid.inScrollRegion]
  refine MRel.bind (rowClampBottom_rel (by rfl) _) ?_
  intro a b hab
  exact MRel.pure hab.elim.1

theorem rowIncScroll_rel (h : GEq g1 g2) (n : Nat) : MRel PEq (g1.rowIncScroll n) (g2.rowIncScroll n) := by
  obtain ⟨k, rfl⟩ := h.elim
  simp only [Grid.rowIncScroll, Grid.inScrollRegion]
  refine MRel.bind (rowClampBottom_rel (by rfl) _) ?_
  intro a b hab
  obtain ⟨h1, h2⟩ := hab.elim
  rw [h2]
  apply MRel.ite <;> intro _
  · refine MRel.bind (scrollUp_rel h1 _) ?_
    intro a' b' hab'
    exact MRel.pure (congrArg (fun x => (x, b.2)) hab')
  · exact MRel.pure (congrArg (fun x => (x, 0)) h1)

theorem rowDecClamp_rel (h : GEq g1 g2) (n : Nat) : GEq (g1.rowDecClamp n) (g2.rowDecClamp n) := by
  obtain ⟨k, rfl⟩ := h.elim
  simp only [Grid.rowDecClamp, Grid.inScrollRegion]
  exact (rowClampTop_rel (by rfl) _).elim.1

theorem rowDecScroll_rel (h : GEq g1 g2) (n : Nat) : MRel GEq (g1.rowDecScroll n) (g2.rowDecScroll n) := by
  obtain ⟨k, rfl⟩ := h.elim
  simp only [Grid.rowDecScroll, Grid.inScrollRegion]
  refine (fun p q hpq => ?_ : ∀ p q : Grid × Nat, PEq p q →
    MRel GEq (p.1.scrollDown (p.2 + _)) (q.1.scrollDown (q.2 + _))) _ _ (rowClampTop_rel (by rfl) _)
  obtain ⟨h1, h2⟩ := hpq.elim
  rw [h2]
  exact scrollDown_rel h1 _

theorem rowSet_rel (h : GEq g1 g2) (i : Nat) : MRel GEq (g1.rowSet i) (g2.rowSet i) := by
  obtain ⟨k, rfl⟩ := h.elim
  simp only [Grid.rowSet, Grid.rowClamp]
  mrel

theorem colInc_rel (h : GEq g1 g2) (n : Nat) : GEq (g1.colInc n) (g2.colInc n) := by
  obtain ⟨k, rfl⟩ := h.elim; rfl

theorem colDec_rel (h : GEq g1 g2) (n : Nat) : GEq (g1.colDec n) (g2.colDec n) := by
  obtain ⟨k, rfl⟩ := h.elim; rfl

theorem colIncClamp_rel (h : GEq g1 g2) (n : Nat) : MRel GEq (g1.colIncClamp n) (g2.colIncClamp n) :=
  colClamp_rel (colInc_rel h n)

theorem colTab_rel (h : GEq g1 g2) : MRel GEq g1.colTab g2.colTab := by
  obtain ⟨k, rfl⟩ := h.elim
  simp only [Grid.colTab, Grid.colClamp]
  mrel

theorem colSet_rel (h : GEq g1 g2) (i : Nat) : MRel GEq (g1.colSet i) (g2.colSet i) := by
  obtain ⟨k, rfl⟩ := h.elim
  simp only [Grid.colSet, Grid.colClamp]
  mrel

theorem cnl_rel (h : GEq g1 g2) (n : Nat) : MRel GEq (g1.cnl n) (g2.cnl n) :=
  MRel.bind (colSet_rel h 0) (fun a b hab => rowIncClamp_rel hab n)

theorem cpl_rel (h : GEq g1 g2) (n : Nat) : MRel GEq (g1.cpl n) (g2.cpl n) :=
  MRel.bind (colSet_rel h 0) (fun a b hab => MRel.pure (rowDecClamp_rel hab n))

theorem colWrap_rel (h : GEq g1 g2) (w : Nat) (wr : Bool) : MRel GEq (g1.colWrap w wr) (g2.colWrap w wr) := by
  obtain ⟨k, rfl⟩ := h.elim
  simp only [Grid.colWrap]
  apply MRel.bind_same; intro lim
  apply MRel.ite <;> intro _
  · refine MRel.bind (rowIncScroll_rel (by rfl) 1) ?_
    intro a b hab
    obtain ⟨h1, h2⟩ := hab.elim
    obtain ⟨a1, a2⟩ := a
    obtain ⟨b1, b2⟩ := b
    simp only at h1 h2
    subst h2
    obtain ⟨k', rfl⟩ := h1.elim
    simp only
    mrel
  · mrel

theorem wrapDecision_eq (h : GEq g1 g2) (w : Nat) : g1.wrapDecision w = g2.wrapDecision w := by
  obtain ⟨k, rfl⟩ := h.elim
  rfl

theorem appendToPrev_rel (h : GEq g1 g2) (row col c : Nat) :
    MRel GEq (g1.appendToPrev row col c) (g2.appendToPrev row col c) := by
  obtain ⟨k, rfl⟩ := h.elim
  simp only [Grid.appendToPrev, Grid.modifyCellM, Grid.drawingCellM, Grid.drawingCell, Grid.drawingRow]
  mrel

theorem textZero_rel (h : GEq g1 g2) (c : Nat) : MRel GEq (g1.textZero c) (g2.textZero c) := by
  obtain ⟨k, rfl⟩ := h.elim
  simp only [Grid.textZero, Grid.drawingRow]
  apply MRel.ite <;> intro _
  · exact appendToPrev_rel (by rfl) _ _ _
  · apply MRel.ite <;> intro _
    · cases g2.rows[g2.pos.row - 1]? with
      | none => exact (rfl : Panic.at 523 = Panic.at 523)
      | some r =>
        simp only [pure_bind']
        apply MRel.ite <;> intro _
        · apply MRel.bind_same; intro c1
          exact appendToPrev_rel (by rfl) _ _ _
        · mrel
    · mrel

theorem textWide_rel (W : Nat → Option Nat) (h : GEq g1 g2) (a : Attrs) (c w : Nat) :
    MRel GEq (g1.textWide W a c w) (g2.textWide W a c w) := by
  obtain ⟨k, rfl⟩ := h.elim
  simp only [Grid.textWide]
  refine MRel.bind (modifyCurrentRow_rel (by rfl) _) ?_
  intro a' b' hab
  apply MRel.pure
  split
  · exact colInc_rel (colInc_rel hab 1) 1
  · exact colInc_rel hab 1

theorem text_rel (W : Nat → Option Nat) (h : GEq g1 g2) (a : Attrs) (c : Nat) :
    MRel GEq (g1.text W a c) (g2.text W a c) := by
  have hs : g1.size = g2.size := by obtain ⟨k, rfl⟩ := h.elim; rfl
  simp only [Grid.text, wrapDecision_eq h, hs]
  apply MRel.ite <;> intro _
  · exact MRel.pure h
  · apply MRel.ite <;> intro _
    · exact MRel.pure h
    · apply MRel.bind_same; intro wr
      refine MRel.bind (colWrap_rel h _ _) ?_
      intro a' b' hab
      apply MRel.ite <;> intro _
      · exact textZero_rel hab _
      · exact textWide_rel W hab _ _ _

theorem setSize_rel (h : GEq g1 g2) (sz : Size) : MRel GEq (g1.setSize sz) (g2.setSize sz) := by
  obtain ⟨k, rfl⟩ := h.elim
  simp only [Grid.setSize]
  trace_state
  sorry

end grid
end Vt.C12
