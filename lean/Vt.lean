-- Root of the `Vt` library: the executable model of vt100-rust.
import Vt.Model.Prim
import Vt.Model.Utf8
import Vt.Model.Term
import Vt.Model.Cell
import Vt.Model.Row
import Vt.Model.Grid
import Vt.Model.Screen
import Vt.Model.Vte
import Vt.Model.Perform
import Vt.Model.Dump
import Vt.Spec.Inv
