/-
  Vt.Gen.Tie — the hand-written model (`Vt/Model/*.lean`) agrees with the tables that
  `gentables.py` regenerates from the Rust source (`Vt/Gen/Tables.lean`).

  What is here
  * an INTERPRETATION of the tables: small functions that turn an action token of the
    table (`"screen.bs"`, `"callbacks.audible_bell"`, `"set_mode(MODE_BRACKETED_PASTE)"`, …)
    into the model operation that token denotes, and table-driven dispatchers
    (`interpExec`, `interpEsc`, `interpCsi`, `interpOsc`, `interpMode`, `sgrStep`) that do what a
    Rust `match` does: take the FIRST arm whose pattern matches, else the `_` arm;
  * TIE THEOREMS: the model's function = the dispatcher run on the generated table, for all
    arguments.  A literal, a byte, a default, a method or the order of two arms changing in the
    Rust source changes the table and one of these proofs stops compiling.

  Conventions
  * A token the interpretation does not know evaluates to `unknownAction`, an error value no
    model function returns on the states used in the proofs, so an unknown token can never be
    "tied by accident"; `*_interpreted` theorems state that every token of the current tables is
    known.
  * What stays hand-modelled (not read from the source): the bodies of the `Screen` methods
    themselves, of `canonicalize_params_*`, of the `[38]` / `[48]` and `[38, 2, r, g, b]`-style
    arms of `sgr`, the empty-parameter case of `sgr`, `MoveFromTo` (it only calls other writers), and
    `extend_itoa`.  The body of the CSI `t` arm is hand-modelled too: the table says on which final
    byte the one `special` arm sits, and `xtwinops_text_tie` (a tripwire, not a statement about the
    model) pins its normalised text to the text the model was written from.
  * Long strings are expensive for the kernel (string equality is quadratic in the length), which is
    why the generator cuts the one long text into pieces and why the long callback tokens of
    `csi_dispatch` are resolved once (`csiUnhandled_tie`) instead of in every case of `csi_tie`.
  * What the tables hold but no theorem reads, and what the translator does not look at at all, is listed in DESIGN.md 10.7 (audit); `Tie2.lean` adds tripwires for the extended-colour arms of `sgr`.
-/
import Vt.Model.Perform
import Vt.Gen.Tables
namespace Vt.Gen
open Vt

/-- what an action token the interpretation does not know evaluates to -/
def unknownAction {α} : M α := .error (.at 4000000)

/-- turn the hypotheses `x = 7 → False` that `split` leaves for the `_` arm of a match on
number literals into rewrite rules `(x == 7) = false` -/
macro "miss_hyps" : tactic =>
  `(tactic| simp only [imp_false, ← ne_eq, ← beq_eq_false_iff_ne] at *)

/-! ## A. `src/term.rs`: byte-string literals -/

/-- the literals of `impl BufWrite for name`, with their contexts, in source order -/
def lits (name : String) : List (List String × List Nat) := (termLits.lookup name).getD []

/-- the `i`-th `b".."` literal (source order) of `impl BufWrite for name` -/
def lit (name : String) (i : Nat) : List Nat := ((lits name)[i]?.map (·.2)).getD []

/-- the literal of `impl BufWrite for name` that sits under exactly the conditions `ctx` -/
def litAt (name : String) (ctx : List String) : List Nat := ((lits name).lookup ctx).getD []

def pushes (name : String) : List (List String × Nat) := (termPushes.lookup name).getD []

/-- the `i`-th `buf.push(b'.')` byte (source order) of `impl BufWrite for name` -/
def push (name : String) (i : Nat) : Nat := ((pushes name)[i]?.map (·.2)).getD 0

/-- the pushed byte of `impl BufWrite for name` that sits under exactly the conditions `ctx` -/
def pushAt (name : String) (ctx : List String) : Nat := ((pushes name).lookup ctx).getD 0

/-- the `i`-th `extend_itoa(buf, place + addend)` of `impl BufWrite for name` -/
def itoaArg (name : String) (i : Nat) : String × Nat :=
  ((((termItoa.lookup name).getD [])[i]?).map (·.2)).getD ("?", 0)

/-- the context of a literal under `if self.state { .. } else { .. }` -/
def stateCtx (st : Bool) : List String := [if st then "if self.state" else "else"]

/-- no writer type, literal, pushed byte or `extend_itoa` call appears or disappears unnoticed:
the writer types and how many of each kind they contain -/
theorem term_census :
    termLits.map (fun p => (p.1, p.2.length)) =
      [("ClearScreen", 1), ("ClearRowForward", 1), ("Crlf", 1), ("Backspace", 1), ("SaveCursor", 1),
       ("RestoreCursor", 1), ("MoveTo", 2), ("ClearAttrs", 1), ("Attrs", 1), ("MoveRight", 2),
       ("EraseChar", 2), ("HideCursor", 2), ("MoveFromTo", 0), ("ApplicationKeypad", 2),
       ("ApplicationCursor", 2), ("BracketedPaste", 2), ("MouseProtocolMode", 8),
       ("MouseProtocolEncoding", 4)] ∧
    (termPushes.filter (fun p => !p.2.isEmpty)).map (fun p => (p.1, p.2.length)) =
      [("MoveTo", 2), ("Attrs", 2), ("MoveRight", 1), ("EraseChar", 1)] ∧
    (termItoa.filter (fun p => !p.2.isEmpty)).map (fun p => (p.1, p.2.map (·.2))) =
      [("MoveTo", [("self.row", 1), ("self.col", 1)]), ("Attrs", [("$i", 0)]),
       ("MoveRight", [("n", 0)]), ("EraseChar", [("n", 0)])] := by decide

theorem clearScreen_tie : Term.clearScreen = lit "ClearScreen" 0 := by decide
theorem clearRowForward_tie : Term.clearRowForward = lit "ClearRowForward" 0 := by decide
theorem crlf_tie : Term.crlf = lit "Crlf" 0 := by decide
theorem backspace_tie : Term.backspace = lit "Backspace" 0 := by decide
theorem saveCursor_tie : Term.saveCursor = lit "SaveCursor" 0 := by decide
theorem restoreCursor_tie : Term.restoreCursor = lit "RestoreCursor" 0 := by decide
theorem clearAttrs_tie : Term.clearAttrs = lit "ClearAttrs" 0 := by decide

/-- `MoveTo`: the `ESC[H` case, the `ESC[` prefix, the `+ 1`s, the `;` and the final `H` -/
theorem moveTo_tie : ∀ p : Pos, Term.moveTo p =
    if p.row == 0 && p.col == 0 then litAt "MoveTo" ["if self.row == 0 && self.col == 0"]
    else litAt "MoveTo" ["else"] ++ Term.itoa (p.row + (itoaArg "MoveTo" 0).2) ++ [push "MoveTo" 0]
      ++ Term.itoa (p.col + (itoaArg "MoveTo" 1).2) ++ [push "MoveTo" 1] := by
  intro p; rfl

theorem moveTo_lits : lit "MoveTo" 0 = litAt "MoveTo" ["if self.row == 0 && self.col == 0"] ∧
    lit "MoveTo" 1 = litAt "MoveTo" ["else"] := by decide

/-- `MoveRight`: nothing for 0, the literal of the `1` arm, else prefix, digits, final byte -/
theorem moveRight_tie : ∀ n, Term.moveRight n =
    match n with
    | 0 => []
    | 1 => litAt "MoveRight" ["match self.count", "1"]
    | n => litAt "MoveRight" ["match self.count", "n"] ++ Term.itoa n ++ [push "MoveRight" 0] := by
  intro n
  match n with
  | 0 => rfl
  | 1 => rfl
  | _ + 2 => rfl

theorem moveRight_lits : lit "MoveRight" 0 = litAt "MoveRight" ["match self.count", "1"] ∧
    lit "MoveRight" 1 = litAt "MoveRight" ["match self.count", "n"] := by decide

theorem eraseChar_tie : ∀ n, Term.eraseChar n =
    match n with
    | 0 => []
    | 1 => litAt "EraseChar" ["match self.count", "1"]
    | n => litAt "EraseChar" ["match self.count", "n"] ++ Term.itoa n ++ [push "EraseChar" 0] := by
  intro n
  match n with
  | 0 => rfl
  | 1 => rfl
  | _ + 2 => rfl

theorem eraseChar_lits : lit "EraseChar" 0 = litAt "EraseChar" ["match self.count", "1"] ∧
    lit "EraseChar" 1 = litAt "EraseChar" ["match self.count", "n"] := by decide

/-- positional form -/
theorem hideCursor_tie :
    Term.hideCursor true = lit "HideCursor" 0 ∧ Term.hideCursor false = lit "HideCursor" 1 := by decide
theorem applicationKeypad_tie : Term.applicationKeypad true = lit "ApplicationKeypad" 0 ∧
    Term.applicationKeypad false = lit "ApplicationKeypad" 1 := by decide
theorem applicationCursor_tie : Term.applicationCursor true = lit "ApplicationCursor" 0 ∧
    Term.applicationCursor false = lit "ApplicationCursor" 1 := by decide
theorem bracketedPaste_tie : Term.bracketedPaste true = lit "BracketedPaste" 0 ∧
    Term.bracketedPaste false = lit "BracketedPaste" 1 := by decide

/-- by condition: the literal under `if self.state` for `true`, the one under `else` for `false`
(swapping the two branches in the source together with their literals keeps this true, swapping only
the literals does not) -/
theorem hideCursor_ctx : ∀ st, Term.hideCursor st = litAt "HideCursor" (stateCtx st) := by decide
theorem applicationKeypad_ctx :
    ∀ st, Term.applicationKeypad st = litAt "ApplicationKeypad" (stateCtx st) := by decide
theorem applicationCursor_ctx :
    ∀ st, Term.applicationCursor st = litAt "ApplicationCursor" (stateCtx st) := by decide
theorem bracketedPaste_ctx :
    ∀ st, Term.bracketedPaste st = litAt "BracketedPaste" (stateCtx st) := by decide

/-- the Rust path of a mouse protocol mode, as it is written in the patterns of term.rs -/
def mmName : MouseMode → String
  | .none => "crate::MouseProtocolMode::None"
  | .press => "crate::MouseProtocolMode::Press"
  | .pressRelease => "crate::MouseProtocolMode::PressRelease"
  | .buttonMotion => "crate::MouseProtocolMode::ButtonMotion"
  | .anyMotion => "crate::MouseProtocolMode::AnyMotion"

/-- `MouseProtocolMode`: nothing when unchanged; to leave a mode, the literal of the arm
`None => match self.prev { prev => .. }`; to enter one, the literal of the arm `mode => ..` -/
theorem mouseProtocolMode_tie : ∀ mode prev, Term.mouseProtocolMode mode prev =
    if mode = prev then []
    else if mode = .none then
      litAt "MouseProtocolMode" ["match self.mode", mmName .none, "match self.prev", mmName prev]
    else litAt "MouseProtocolMode" ["match self.mode", mmName mode] := by
  intro mode prev; cases mode <;> cases prev <;> decide

def meName : MouseEnc → String
  | .default => "crate::MouseProtocolEncoding::Default"
  | .utf8 => "crate::MouseProtocolEncoding::Utf8"
  | .sgr => "crate::MouseProtocolEncoding::Sgr"

theorem mouseProtocolEncoding_tie : ∀ enc prev, Term.mouseProtocolEncoding enc prev =
    if enc = prev then []
    else if enc = .default then
      litAt "MouseProtocolEncoding" ["match self.encoding", meName .default, "match self.prev", meName prev]
    else litAt "MouseProtocolEncoding" ["match self.encoding", meName enc] := by
  intro enc prev; cases enc <;> cases prev <;> decide

/-! ### the SGR parameter numbers of `impl BufWrite for Attrs` -/

/-- the `write_param!(e)` calls of the `Attrs` writer: context, place, addend -/
def attrsWP : List (List String × String × Nat) := (termWriteParams.lookup "Attrs").getD []

/-- the `write_param!` arguments that sit under exactly the conditions `ctx`, in source order -/
def wpAt (ctx : List String) : List (String × Nat) := (attrsWP.filter (·.1 == ctx)).map (·.2)

/-- the value of `place + addend` (`""` = no place, a constant) when the variables are `env` -/
def evalWP (env : String → Option Nat) (e : String × Nat) : Option Nat :=
  if e.1 = "" then some e.2 else (env e.1).map (· + e.2)

/-- the numbers written under exactly the conditions `ctx` -/
def evalAt (ctx : List String) (env : String → Option Nat) : Option (List Nat) :=
  (wpAt ctx).mapM (evalWP env)

def envNone : String → Option Nat := fun _ => none
def envI (i : Nat) : String → Option Nat := fun s => if s = "i" then some i else none
def envRgb (r g b : Nat) : String → Option Nat := fun s =>
  if s = "r" then some r else if s = "g" then some g else if s = "b" then some b else none

/-- what the writer emits for a colour: `which` is `"fgcolor"` or `"bgcolor"` -/
def colorGen (which : String) (c : Color) : Option (List Nat) :=
  let pre := [if which = "fgcolor" then "if let Some(fgcolor) = self.fgcolor"
              else "if let Some(bgcolor) = self.bgcolor", "match " ++ which]
  match c with
  | .default => evalAt (pre ++ ["crate::Color::Default"]) envNone
  | .idx i =>
    if i < 8 then evalAt (pre ++ ["crate::Color::Idx(i)", "if i<8"]) (envI i)
    else if i < 16 then evalAt (pre ++ ["crate::Color::Idx(i)", "else if i<16"]) (envI i)
    else evalAt (pre ++ ["crate::Color::Idx(i)", "else"]) (envI i)
  | .rgb r g b => evalAt (pre ++ ["crate::Color::Rgb(r, g, b)"]) (envRgb r g b)

theorem fgParams_tie : ∀ c, colorGen "fgcolor" c = some (Term.fgParams c) := by
  intro c
  cases c with
  | default => decide
  | idx i =>
    unfold colorGen Term.fgParams
    by_cases h1 : i < 8
    · simp only [h1, if_true]; rfl
    · by_cases h2 : i < 16
      · simp only [h1, h2, if_true, if_false]; rfl
      · simp only [h1, h2, if_false]; rfl
  | rgb r g b => rfl

theorem bgParams_tie : ∀ c, colorGen "bgcolor" c = some (Term.bgParams c) := by
  intro c
  cases c with
  | default => decide
  | idx i =>
    unfold colorGen Term.bgParams
    by_cases h1 : i < 8
    · simp only [h1, if_true]; rfl
    · by_cases h2 : i < 16
      · simp only [h1, h2, if_true, if_false]; rfl
      · simp only [h1, h2, if_false]; rfl
  | rgb r g b => rfl

def intensityGen (i : Intensity) : Option (List Nat) :=
  evalAt ["if let Some(intensity) = self.intensity", "match intensity",
    match i with | .normal => "Intensity::Normal" | .bold => "Intensity::Bold" | .dim => "Intensity::Dim"]
    envNone

/-- `field` is `"italic"`, `"underline"` or `"inverse"` -/
def flagGen (field : String) (b : Bool) : Option (List Nat) :=
  evalAt ["if let Some(" ++ field ++ ") = self." ++ field, if b then "if " ++ field else "else"] envNone

/-- `None` fields write nothing -/
def optGen {α} (f : α → Option (List Nat)) : Option α → Option (List Nat)
  | none => some []
  | some a => f a

/-- all parameter numbers of the `Attrs` writer, in the order of the source -/
def attrsGen (a : Term.SgrAttrs) : Option (List Nat) := do
  let l1 ← optGen (colorGen "fgcolor") a.fg
  let l2 ← optGen (colorGen "bgcolor") a.bg
  let l3 ← optGen intensityGen a.intensity
  let l4 ← optGen (flagGen "italic") a.italic
  let l5 ← optGen (flagGen "underline") a.underline
  let l6 ← optGen (flagGen "inverse") a.inverse
  pure (l1 ++ l2 ++ l3 ++ l4 ++ l5 ++ l6)

theorem intensityGen_tie : ∀ i, intensityGen i =
    some (match i with | .normal => [22] | .bold => [1] | .dim => [2]) := by
  intro i; cases i <;> decide

theorem flagGen_tie : flagGen "italic" true = some [3] ∧ flagGen "italic" false = some [23] ∧
    flagGen "underline" true = some [4] ∧ flagGen "underline" false = some [24] ∧
    flagGen "inverse" true = some [7] ∧ flagGen "inverse" false = some [27] := by decide

/-- `SgrAttrs.params` = the numbers the generated table says the writer emits, for every `Attrs` -/
theorem sgrParams_tie : ∀ a : Term.SgrAttrs, attrsGen a = some a.params := by
  intro ⟨fg, bg, int, it, un, inv⟩
  have hfg : optGen (colorGen "fgcolor") fg = some (match fg with | some c => Term.fgParams c | none => []) := by
    cases fg <;> simp [optGen, fgParams_tie]
  have hbg : optGen (colorGen "bgcolor") bg = some (match bg with | some c => Term.bgParams c | none => []) := by
    cases bg <;> simp [optGen, bgParams_tie]
  have hint : optGen intensityGen int = some (match int with
      | some .normal => [22] | some .bold => [1] | some .dim => [2] | none => []) := by
    cases int with
    | none => rfl
    | some i => cases i <;> decide
  have hit : optGen (flagGen "italic") it =
      some (match it with | some true => [3] | some false => [23] | none => []) := by
    cases it with
    | none => rfl
    | some b => cases b <;> decide
  have hun : optGen (flagGen "underline") un =
      some (match un with | some true => [4] | some false => [24] | none => []) := by
    cases un with
    | none => rfl
    | some b => cases b <;> decide
  have hinv : optGen (flagGen "inverse") inv =
      some (match inv with | some true => [7] | some false => [27] | none => []) := by
    cases inv with
    | none => rfl
    | some b => cases b <;> decide
  simp only [attrsGen, hfg, hbg, hint, hit, hun, hinv, Term.SgrAttrs.params]
  rfl

/-- every `write_param!` of the source is under one of the conditions used above (none elsewhere) -/
theorem attrsWP_census :
    let pre (w : String) := ["if let Some(" ++ w ++ ") = self." ++ w, "match " ++ w]
    let flag (w : String) := [["if let Some(" ++ w ++ ") = self." ++ w, "if " ++ w],
                              ["if let Some(" ++ w ++ ") = self." ++ w, "else"]]
    let used : List (List String) :=
      (["fgcolor", "bgcolor"].flatMap fun w =>
        [pre w ++ ["crate::Color::Default"], pre w ++ ["crate::Color::Idx(i)", "if i<8"],
         pre w ++ ["crate::Color::Idx(i)", "else if i<16"], pre w ++ ["crate::Color::Idx(i)", "else"],
         pre w ++ ["crate::Color::Rgb(r, g, b)"]])
      ++ [pre "intensity" ++ ["Intensity::Normal"], pre "intensity" ++ ["Intensity::Bold"],
          pre "intensity" ++ ["Intensity::Dim"]]
      ++ flag "italic" ++ flag "underline" ++ flag "inverse"
    attrsWP.all (fun e => used.contains e.1) = true ∧ attrsWP.length = 31 := by decide

/-- `;`-joined decimal parameters with the separator as a parameter -/
def joinWith (sep : Nat) : List Nat → List Nat
  | [] => []
  | [p] => Term.itoa p
  | p :: ps => Term.itoa p ++ [sep] ++ joinWith sep ps

theorem joinParams_tie : ∀ ps, Term.joinParams ps =
    joinWith (pushAt "Attrs" ["macro write_param", "else"]) ps := by
  have h : pushAt "Attrs" ["macro write_param", "else"] = 59 := by decide
  rw [h]
  intro ps
  fun_induction Term.joinParams ps with
  | case1 => rfl
  | case2 p => rfl
  | case3 p ps hne ih =>
    cases ps with
    | nil => exact absurd rfl hne
    | cons q qs => rw [ih]; rfl

/-- the whole `Attrs` writer: nothing when every field is `None`; else the `ESC[` literal, the
numbers joined by the byte the macro pushes between them, and the final pushed byte -/
theorem sgrWrite_tie : ∀ a : Term.SgrAttrs, a.write =
    if a.isEmpty then []
    else litAt "Attrs" [] ++ joinWith (pushAt "Attrs" ["macro write_param", "else"]) a.params
      ++ [pushAt "Attrs" []] := by
  intro a
  rw [← joinParams_tie]
  rfl

/-! ## B. `src/perform.rs`: the dispatch tables -/

/-- what the generated tables match on (the interpretations below read `b`, `c`,
`intermediates`, `params` in the action tokens accordingly) -/
theorem scrutinee_tie : execScrutinee = "b" ∧ escScrutinee = "b" ∧
    escGuard.1 = "let Some(i) = intermediates.first()" ∧
    csiScrutinee = "intermediates.first()" ∧ oscScrutinee = "params" ∧
    decsetHead = "param in params / match param" ∧ decrstHead = "param in params / match param" ∧
    sgrScrutinee = "next_param!()" := by decide

/-- follow `screenDelegations`: a method whose Rust body only calls another method -/
def resolve (tok : String) : String :=
  match screenDelegations.lookup tok with
  | some t => t
  | none => tok

/-- `Screen` methods without argument that `execute` / `esc_dispatch` call -/
def screenOp : String → Option (Screen → M Screen)
  | "screen.bs" => some Screen.bs
  | "screen.tab" => some Screen.tab
  | "screen.lf" => some Screen.lf
  | "screen.cr" => some Screen.cr
  | "screen.decsc" => some Screen.decsc
  | "screen.decrc" => some Screen.decrc
  | "screen.deckpam" => some (fun s => pure s.deckpam)
  | "screen.deckpnm" => some (fun s => pure s.deckpnm)
  | "screen.ri" => some Screen.ri
  | "screen.ris" => some Screen.ris
  | _ => none

/-- the first arm whose byte list contains `b` (`[]` is the `_` arm) -/
def findArm (arms : List (List Nat × String)) (b : Nat) : Option String :=
  (arms.find? (fun a => a.1.isEmpty || a.1.any (b == ·))).map (·.2)

/-! ### `execute` -/

/-- the action tokens of `fn execute` -/
def execOf (tok : String) : Option (CbPolicy → WS → Nat → M WS) :=
  match tok with
  | "nop" => some fun _ ws _ => pure ws
  | "callbacks.audible_bell" => some fun cb ws _ => emit cb .audibleBell ws
  | "callbacks.unhandled_control(b)" => some fun cb ws b => emit cb (.unhandledControl b) ws
  | t => (screenOp (resolve t)).map fun f _ ws _ => ws.onScreen f

def interpExec (arms : List (List Nat × String)) (cb : CbPolicy) (ws : WS) (b : Nat) : M WS :=
  match (findArm arms b).bind execOf with
  | some f => f cb ws b
  | none => unknownAction

theorem execArms_interpreted : ∀ a ∈ execArms, (execOf a.2).isSome := by decide

/-- `performExecute` is the generated table of `fn execute`, for every byte -/
theorem execute_tie : ∀ cb ws b, performExecute cb ws b = interpExec execArms cb ws b := by
  intro cb ws b
  unfold performExecute
  split
  case h_10 =>
    miss_hyps
    simp [interpExec, findArm, execArms, List.find?, *]
    rfl
  all_goals rfl

/-! ### `esc_dispatch` -/

def escEvent : String → Option (List Nat → Nat → Event)
  | "callbacks.visual_bell" => some fun _ _ => .visualBell
  | "callbacks.unhandled_escape(None, None, b)" => some fun _ b => .unhandledEscape none none b
  | "callbacks.unhandled_escape(Some(*i), intermediates.get(1).copied(), b)" =>
      some fun ints b => .unhandledEscape ints.head? ints.tail.head? b
  | _ => none

def escOf (tok : String) : Option (CbPolicy → WS → List Nat → Nat → M WS) :=
  match escEvent tok with
  | some e => some fun cb ws ints b => emit cb (e ints b) ws
  | none => (screenOp (resolve tok)).map fun f _ ws _ _ => ws.onScreen f

/-- `if let Some(i) = intermediates.first() { guard.2 } else { match b { arms } }` -/
def interpEsc (guard : String × String) (arms : List (List Nat × String))
    (cb : CbPolicy) (ws : WS) (ints : List Nat) (b : Nat) : M WS :=
  if guard.1 = "let Some(i) = intermediates.first()" then
    match ints with
    | _ :: _ =>
      match escOf guard.2 with
      | some f => f cb ws ints b
      | none => unknownAction
    | [] =>
      match (findArm arms b).bind escOf with
      | some f => f cb ws ints b
      | none => unknownAction
  else unknownAction

theorem escArms_interpreted : (escOf escGuard.2).isSome ∧ ∀ a ∈ escArms, (escOf a.2).isSome := by decide

/-- `performEsc` is the generated table of `fn esc_dispatch`, for every byte and intermediates -/
theorem esc_tie : ∀ cb ws ints b, performEsc cb ws ints b = interpEsc escGuard escArms cb ws ints b := by
  intro cb ws ints b
  unfold performEsc
  split
  · rfl
  · split
    case h_8 =>
      miss_hyps
      simp [interpEsc, escGuard, findArm, escArms, List.find?, *]
      rfl
    all_goals rfl

/-! ### `csi_dispatch` -/

abbrev CsiArm := Nat × String × String × List Nat × Bool × List String
abbrev CsiOuterArm := (String × List Nat) × String × List CsiArm × String

/-- `Screen` methods taking one number -/
def screenOp1 : String → Option (Screen → Nat → M Screen)
  | "screen.ich" => some Screen.ich
  | "screen.cuu" => some Screen.cuu
  | "screen.cud" => some Screen.cud
  | "screen.cuf" => some Screen.cuf
  | "screen.cub" => some Screen.cub
  | "screen.cnl" => some Screen.cnl
  | "screen.cpl" => some Screen.cpl
  | "screen.cha" => some Screen.cha
  | "screen.il" => some Screen.il
  | "screen.dl" => some Screen.dl
  | "screen.dch" => some Screen.dch
  | "screen.su" => some Screen.su
  | "screen.sd" => some Screen.sd
  | "screen.ech" => some Screen.ech
  | "screen.vpa" => some Screen.vpa
  | _ => none

/-- the callback calls of `csi_dispatch`, given `params`, `intermediates`, `c`.  `Some(b'?')` and
`Some(*i)` are only written in arms where `intermediates.first()` is that value. -/
def csiEvent : String → Option (List (List Nat) → List Nat → Nat → Event)
  | "callbacks.unhandled_csi(intermediates.first().copied(), intermediates.get(1).copied(), &params.iter().collect::<Vec<_>>(), c)" =>
      some fun params ints c => .unhandledCsi ints.head? ints.tail.head? params c
  | "callbacks.unhandled_csi(None, None, &params.iter().collect::<Vec<_>>(), c)" =>
      some fun params _ c => .unhandledCsi none none params c
  | "callbacks.unhandled_csi(Some(b'?'), intermediates.get(1).copied(), &params.iter().collect::<Vec<_>>(), c)" =>
      some fun params ints c => .unhandledCsi (some 63) ints.tail.head? params c
  | "callbacks.unhandled_csi(Some(*i), intermediates.get(1).copied(), &params.iter().collect::<Vec<_>>(), c)" =>
      some fun params ints c => .unhandledCsi ints.head? ints.tail.head? params c
  | _ => none

/-- the normalised text of the `'t'` arm (XTWINOPS) that the hand-written model of that arm
(`xtOp`, `xtArg`) was transliterated from (cut at spaces into short pieces, as in the table) -/
def xtwinopsBody : List String :=
  [
   "let mut params_iter = params.iter(); let op =",
   "params_iter.next().and_then( | x |",
   "x.first().copied()); if op == Some(8) {",
   "let(screen_rows, screen_cols) =",
   "self.screen.size(); let rows =",
   "params_iter.next().map_or(screen_rows, | x | {",
   "*x.first().unwrap_or(&screen_rows) }); let cols",
   "= params_iter.next().map_or(screen_cols, | x | {",
   "*x.first().unwrap_or(&screen_cols) });",
   "self.callbacks.resize(&mut self.screen, (rows,",
   "cols)); } else {",
   "self.callbacks.unhandled_csi(&mut self.screen,",
   "None, None, &params.iter().collect::<Vec<_>>(),",
   "c); }"]

/-- one inner arm `(final byte, method, canonicaliser, defaults, passes unhandled, text)`:
* `M(canonicalize_params_1(params, d))` for the one-number methods: read entirely off the table;
* `cup` / `ed` / `el` / `sgr` / `decset` / `decrst` / `decstbm` / the `'t'` arm: which method, which
  canonicaliser and which defaults come from the table, the bodies are the model's -/
def csiArmOf (cb : CbPolicy) (unh : WS → M WS) (a : CsiArm) :
    Option (WS → List (List Nat) → Nat → M WS) :=
  match resolve a.2.1, a.2.2.1, a.2.2.2.1, a.2.2.2.2.1, a.2.2.2.2.2 with
  | "screen.cup", "canon2", [d1, d2], false, [] =>
      some fun ws params _ => ws.onScreen (fun s =>
        let (r, c) := canon2 params d1 d2
        s.cup r c)
  | "screen.ed", "canon1", [d], true, [] => some fun ws params _ => ed unh (canon1 params d) ws
  | "screen.el", "canon1", [d], true, [] => some fun ws params _ => el unh (canon1 params d) ws
  | "screen.sgr", "params", [], true, [] => some fun ws params _ => sgr unh params ws
  | "screen.decset", "params", [], true, [] => some fun ws params _ => decset unh params ws
  | "screen.decrst", "params", [], true, [] => some fun ws params _ => decrst unh params ws
  | "screen.decstbm", "decstbm", [], false, ["self.screen.grid().size()"] =>
      some fun ws params _ => ws.onScreen (fun s =>
        let (t, b) := canon2 params 1 s.cur.size.rows
        s.decstbm t b)
  | "", "special", [], false, _ =>
      -- the text of the arm is compared once, in `xtwinops_text_tie`
      some fun ws params c =>
        if xtOp params == some 8 then
          let sz := ws.screen.size
          emit cb (.resize (xtArg params.tail sz.rows) (xtArg params.tail.tail sz.cols)) ws
        else emit cb (.unhandledCsi none none params c) ws
  | m, "canon1", [d], false, [] =>
      (screenOp1 m).map fun f ws params _ => ws.onScreen (fun s => f s (canon1 params d))
  | _, _, _, _, _ => none

/-- does the pattern of an outer arm match `intermediates.first()` -/
def outerMatches (p : String × List Nat) (h : Option Nat) : Bool :=
  match p.1, p.2, h with
  | "none", [], none => true
  | "some", [b], some x => x == b
  | "some-any", [], some _ => true
  | "any", [], _ => true
  | _, _, _ => false

/-- `csi_dispatch` once the closure `unhandled` is known to report the event `ue` -/
def interpCsiWith (outer : List CsiOuterArm) (ue : List (List Nat) → List Nat → Nat → Event)
    (cb : CbPolicy) (ws : WS) (params : List (List Nat)) (ints : List Nat) (c : Nat) : M WS :=
  let unh : WS → M WS := emit cb (ue params ints c)
  match outer.find? (fun o => outerMatches o.1 ints.head?) with
  | none => unknownAction
  | some (_, scrut, inner, dflt) =>
    let dfltAct : M WS :=
      match csiEvent dflt with
      | some e => emit cb (e params ints c) ws
      | none => unknownAction
    if scrut = "" then dfltAct
    else if scrut = "c" then
      match inner.find? (fun a => c == a.1) with
      | some a =>
        match csiArmOf cb unh a with
        | some f => f ws params c
        | none => unknownAction
      | none => dfltAct
    else unknownAction

def interpCsi (outer : List CsiOuterArm) (unhTok : String) (cb : CbPolicy) (ws : WS)
    (params : List (List Nat)) (ints : List Nat) (c : Nat) : M WS :=
  match csiEvent unhTok with
  | none => unknownAction
  | some ue => interpCsiWith outer ue cb ws params ints c

set_option maxRecDepth 8192 in
/-- the event the closure `unhandled` of `csi_dispatch` reports -/
theorem csiUnhandled_tie : csiEvent csiUnhandled =
    some (fun params ints c => Event.unhandledCsi ints.head? ints.tail.head? params c) := rfl

/-- the `_` arms / the catch-all arm of `csi_dispatch` -/
theorem csiDefaults_tie : csiOuter.map (fun o => (o.1, (csiEvent o.2.2.2).isSome)) =
    [(("none", []), true), (("some", [63]), true), (("some-any", []), true)] := by decide

theorem csiArms_interpreted :
    ∀ o ∈ csiOuter, ∀ a ∈ o.2.2.1, (csiArmOf cbNone pure a).isSome := by decide

set_option maxRecDepth 8192 in
/-- the text of the one `special` arm is the text the model of the `'t'` arm was written from
(a tripwire on the source, not a statement about the model) -/
theorem xtwinops_text_tie :
    (csiOuter.flatMap (·.2.2.1)).filterMap
        (fun a => if a.2.2.1 = "special" then some (a.1, a.2.2.2.2.2) else none)
      = [(116, xtwinopsBody)] := by decide

/-- the inner arms under `None` / under `Some(b'?')` -/
def csiInner (h : Option Nat) : List CsiArm :=
  match csiOuter.find? (fun o => outerMatches o.1 h) with
  | some o => o.2.2.1
  | none => []

set_option maxRecDepth 8192 in
/-- `performCsi` is the generated table of `fn csi_dispatch`: for every final byte, parameter
list and intermediates -/
theorem csi_tie : ∀ cb ws params ints c,
    performCsi cb ws params ints c = interpCsi csiOuter csiUnhandled cb ws params ints c := by
  intro cb ws params ints c
  have hI : interpCsi csiOuter csiUnhandled cb ws params ints c =
      interpCsiWith csiOuter (fun params ints c => Event.unhandledCsi ints.head? ints.tail.head? params c)
        cb ws params ints c := by
    unfold interpCsi
    rw [csiUnhandled_tie]
  rw [hI]
  unfold performCsi
  split
  · -- no intermediate
    split
    case h_22 =>
      miss_hyps
      have hf : (csiInner none).find? (fun a => c == a.1) = none := by
        simp [csiInner, csiOuter, outerMatches, List.find?, *]
      have : interpCsiWith csiOuter (fun params ints c => Event.unhandledCsi ints.head? ints.tail.head? params c)
            cb ws params [] c =
          match (csiInner none).find? (fun a => c == a.1) with
          | some a =>
            match csiArmOf cb (emit cb (.unhandledCsi none none params c)) a with
            | some f => f ws params c
            | none => unknownAction
          | none => emit cb (.unhandledCsi none none params c) ws := rfl
      rw [this, hf]
    all_goals rfl
  · -- `?`
    rename_i rest
    split
    case h_5 =>
      miss_hyps
      have hf : (csiInner (some 63)).find? (fun a => c == a.1) = none := by
        simp [csiInner, csiOuter, outerMatches, List.find?, *]
      have : interpCsiWith csiOuter (fun params ints c => Event.unhandledCsi ints.head? ints.tail.head? params c)
            cb ws params (63 :: rest) c =
          match (csiInner (some 63)).find? (fun a => c == a.1) with
          | some a =>
            match csiArmOf cb (emit cb (.unhandledCsi (some 63) rest.head? params c)) a with
            | some f => f ws params c
            | none => unknownAction
          | none => emit cb (.unhandledCsi (some 63) rest.head? params c) ws := rfl
      rw [this, hf]
    all_goals rfl
  · -- any other intermediate
    rename_i i rest hne
    have h63 : (i == 63) = false := by
      apply beq_eq_false_iff_ne.mpr
      intro h; subst h
      first | exact hne rfl | exact hne rest rfl
    have a1 : outerMatches ("none", []) (some i) = false := rfl
    have a2 : outerMatches ("some", [63]) (some i) = (i == 63) := rfl
    have a3 : outerMatches ("some-any", []) (some i) = true := rfl
    have hfind : csiOuter.find? (fun o => outerMatches o.1 (some i)) = csiOuter[2]? := by
      simp only [csiOuter, List.find?, a1, a2, a3, h63]; rfl
    unfold interpCsiWith
    simp only [List.head?, hfind]
    rfl

/-! ### `osc_dispatch` -/

def oscEvent : String → Option (List Nat → Event)
  | "callbacks.set_window_icon_name(s)" => some .setWindowIconName
  | "callbacks.set_window_title(s)" => some .setWindowTitle
  | _ => none

/-- run the calls of an arm in order -/
def runCalls (f : WS → String → M WS) : List String → WS → M WS
  | [], ws => pure ws
  | [t], ws => f ws t
  | t :: ts, ws => f ws t >>= runCalls f ts

/-- `match params { [b"..", s] => { calls }, .., _ => dflt }` -/
def interpOsc (arms : List (List Nat × String × List String)) (dflt : String)
    (cb : CbPolicy) (ws : WS) (params : List (List Nat)) : M WS :=
  let dfltAct : M WS :=
    if dflt = "callbacks.unhandled_osc(params)" then emit cb (.unhandledOsc params) ws
    else unknownAction
  match params with
  | [sel, s] =>
    match arms.find? (fun a => sel == a.1) with
    | some a =>
      if a.2.1 = "s" then
        runCalls (fun ws tok =>
          match oscEvent tok with
          | some e => emit cb (e s) ws
          | none => unknownAction) a.2.2 ws
      else unknownAction
    | none => dfltAct
  | _ => dfltAct

theorem oscArms_interpreted : oscDefault = "callbacks.unhandled_osc(params)" ∧
    ∀ a ∈ oscArms, a.2.1 = "s" ∧ ∀ t ∈ a.2.2, (oscEvent t).isSome := by decide

/-- `performOsc` is the generated table of `fn osc_dispatch`, for every parameter list -/
theorem osc_tie : ∀ cb ws params, performOsc cb ws params = interpOsc oscArms oscDefault cb ws params := by
  intro cb ws params
  unfold performOsc
  split
  · rfl
  · rfl
  · rfl
  · rename_i h0 h1 h2
    match params with
    | [] => rfl
    | [_] => rfl
    | _ :: _ :: _ :: _ => rfl
    | [sel, s] =>
      have e0 : (sel == [48]) = false := beq_eq_false_iff_ne.mpr (fun h => h0 s (by rw [h]))
      have e1 : (sel == [49]) = false := beq_eq_false_iff_ne.mpr (fun h => h1 s (by rw [h]))
      have e2 : (sel == [50]) = false := beq_eq_false_iff_ne.mpr (fun h => h2 s (by rw [h]))
      have hf : oscArms.find? (fun a => sel == a.1) = none := by
        simp only [oscArms, List.find?, e0, e1, e2]
      simp only [interpOsc, hf]
      rfl

/-! ## C. `src/screen.rs`: the mode tables and the SGR numbers -/

/-- the action tokens of the arms of `decset` / `decrst` -/
def modeOp : String → Option (Screen → M (Option Screen))
  | "set_mode(MODE_APPLICATION_CURSOR)" => some fun s => pure (some { s with appCursor := true })
  | "clear_mode(MODE_APPLICATION_CURSOR)" => some fun s => pure (some { s with appCursor := false })
  | "grid_mut().set_origin_mode(true)" => some fun s => do
      let s ← s.modifyGrid (fun g => g.setOriginMode true); pure (some s)
  | "grid_mut().set_origin_mode(false)" => some fun s => do
      let s ← s.modifyGrid (fun g => g.setOriginMode false); pure (some s)
  | "set_mouse_mode(MouseProtocolMode::Press)" => some fun s => pure (some { s with mouseMode := .press })
  | "set_mouse_mode(MouseProtocolMode::PressRelease)" =>
      some fun s => pure (some { s with mouseMode := .pressRelease })
  | "set_mouse_mode(MouseProtocolMode::ButtonMotion)" =>
      some fun s => pure (some { s with mouseMode := .buttonMotion })
  | "set_mouse_mode(MouseProtocolMode::AnyMotion)" =>
      some fun s => pure (some { s with mouseMode := .anyMotion })
  | "clear_mouse_mode(MouseProtocolMode::Press)" => some fun s => pure (some (s.clearMouseMode .press))
  | "clear_mouse_mode(MouseProtocolMode::PressRelease)" =>
      some fun s => pure (some (s.clearMouseMode .pressRelease))
  | "clear_mouse_mode(MouseProtocolMode::ButtonMotion)" =>
      some fun s => pure (some (s.clearMouseMode .buttonMotion))
  | "clear_mouse_mode(MouseProtocolMode::AnyMotion)" =>
      some fun s => pure (some (s.clearMouseMode .anyMotion))
  | "set_mouse_encoding(MouseProtocolEncoding::Utf8)" => some fun s => pure (some { s with mouseEnc := .utf8 })
  | "set_mouse_encoding(MouseProtocolEncoding::Sgr)" => some fun s => pure (some { s with mouseEnc := .sgr })
  | "clear_mouse_encoding(MouseProtocolEncoding::Utf8)" => some fun s => pure (some (s.clearMouseEnc .utf8))
  | "clear_mouse_encoding(MouseProtocolEncoding::Sgr)" => some fun s => pure (some (s.clearMouseEnc .sgr))
  | "clear_mode(MODE_HIDE_CURSOR)" => some fun s => pure (some { s with hideCursor := false })
  | "set_mode(MODE_HIDE_CURSOR)" => some fun s => pure (some { s with hideCursor := true })
  | "set_mode(MODE_BRACKETED_PASTE)" => some fun s => pure (some { s with bracketedPaste := true })
  | "clear_mode(MODE_BRACKETED_PASTE)" => some fun s => pure (some { s with bracketedPaste := false })
  | "enter_alternate_grid" => some fun s => do let s ← s.enterAlternateGrid; pure (some s)
  | "exit_alternate_grid" => some fun s => pure (some s.exitAlternateGrid)
  | "decsc; alternate_grid.clear; enter_alternate_grid" => some fun s => do
      let s ← s.decsc
      let ag ← s.altGrid.clear
      let s ← ({ s with altGrid := ag }).enterAlternateGrid
      pure (some s)
  | "exit_alternate_grid; decrc" => some fun s => do
      let s ← s.exitAlternateGrid.decrc
      pure (some s)
  | _ => none

/-- one parameter of `decset` / `decrst`: the first arm whose pattern is the parameter, else the
`_` arm (`[]`); `none` = the closure `unhandled` is called -/
def interpMode (arms : List (List Nat × String)) (s : Screen) (p : List Nat) : M (Option Screen) :=
  match (arms.find? (fun a => a.1.isEmpty || p == a.1)).map (·.2) with
  | some "unhandled(self)" => pure none
  | some tok =>
    match modeOp tok with
    | some f => f s
    | none => unknownAction
  | none => unknownAction

theorem modeArms_interpreted : ∀ a ∈ decsetArms ++ decrstArms,
    a.2 = "unhandled(self)" ∨ (modeOp a.2).isSome := by decide

/-- `Screen.decsetOne` is the generated table of `fn decset`, for every parameter: the implemented
numbers are exactly the table's, each does what its arm says, every other parameter is unhandled -/
theorem decset_tie : ∀ s p, Screen.decsetOne s p = interpMode decsetArms s p := by
  intro s p
  unfold Screen.decsetOne
  split
  case h_13 =>
    miss_hyps
    simp [interpMode, decsetArms, List.find?, *]
  all_goals rfl

theorem decrst_tie : ∀ s p, Screen.decrstOne s p = interpMode decrstArms s p := by
  intro s p
  unfold Screen.decrstOne
  split
  case h_13 =>
    miss_hyps
    simp [interpMode, decrstArms, List.find?, *]
  all_goals rfl

theorem bind_ne_ok_none {α} (x : M α) (f : α → M (Option Screen)) (hf : ∀ a, f a ≠ .ok none) :
    (x >>= f) ≠ .ok none := by
  cases x with
  | error e => intro h; cases h
  | ok a => exact hf a

/-- the set of implemented mode numbers is exactly the generated list: a parameter is handed to
`unhandled` iff it is not in the table -/
theorem decset_implemented : ∀ s n,
    Screen.decsetOne s [n] = .ok none ↔ [n] ∉ decsetArms.map (·.1) := by
  intro s n
  have hmem : [n] ∈ decsetArms.map (·.1) ↔
      n = 1 ∨ n = 6 ∨ n = 9 ∨ n = 25 ∨ n = 47 ∨ n = 1000 ∨ n = 1002 ∨ n = 1003 ∨ n = 1005 ∨
      n = 1006 ∨ n = 1049 ∨ n = 2004 := by
    simp [decsetArms]
  rw [hmem]
  have hs : ∀ r : Screen, (pure (some r) : M (Option Screen)) ≠ .ok none := by
    intro r h; cases h
  constructor
  · intro h hn
    rcases hn with h' | h' | h' | h' | h' | h' | h' | h' | h' | h' | h' | h' <;> subst h' <;>
      simp only [Screen.decsetOne] at h <;> revert h <;>
      first
        | exact hs _
        | exact bind_ne_ok_none _ _ (fun _ => hs _)
        | exact bind_ne_ok_none _ _ (fun _ => bind_ne_ok_none _ _ (fun _ => bind_ne_ok_none _ _ (fun _ => hs _)))
  · intro h
    unfold Screen.decsetOne
    split
    case h_13 => rfl
    all_goals (rename_i heq; simp at heq; simp [heq] at h)

theorem decrst_implemented : ∀ s n,
    Screen.decrstOne s [n] = .ok none ↔ [n] ∉ decrstArms.map (·.1) := by
  intro s n
  have hmem : [n] ∈ decrstArms.map (·.1) ↔
      n = 1 ∨ n = 6 ∨ n = 9 ∨ n = 25 ∨ n = 47 ∨ n = 1000 ∨ n = 1002 ∨ n = 1003 ∨ n = 1005 ∨
      n = 1006 ∨ n = 1049 ∨ n = 2004 := by
    simp [decrstArms]
  rw [hmem]
  have hs : ∀ r : Screen, (pure (some r) : M (Option Screen)) ≠ .ok none := by
    intro r h; cases h
  constructor
  · intro h hn
    rcases hn with h' | h' | h' | h' | h' | h' | h' | h' | h' | h' | h' | h' <;> subst h' <;>
      simp only [Screen.decrstOne] at h <;> revert h <;>
      first
        | exact hs _
        | exact bind_ne_ok_none _ _ (fun _ => hs _)
  · intro h
    unfold Screen.decrstOne
    split
    case h_13 => rfl
    all_goals (rename_i heq; simp at heq; simp [heq] at h)

/-! ### `sgr`: the one-number arms -/

/-- the arms that set or clear an attribute -/
def attrOp : String → Option (Attrs → Attrs)
  | "attrs = crate::attrs::Attrs::default()" => some fun _ => Attrs.default
  | "attrs.set_bold" => some fun a => { a with intensity := .bold }
  | "attrs.set_dim" => some fun a => { a with intensity := .dim }
  | "attrs.set_italic(true)" => some fun a => { a with italic := true }
  | "attrs.set_underline(true)" => some fun a => { a with underline := true }
  | "attrs.set_inverse(true)" => some fun a => { a with inverse := true }
  | "attrs.set_normal_intensity" => some fun a => { a with intensity := .normal }
  | "attrs.set_italic(false)" => some fun a => { a with italic := false }
  | "attrs.set_underline(false)" => some fun a => { a with underline := false }
  | "attrs.set_inverse(false)" => some fun a => { a with inverse := false }
  | _ => none

/-- the arms that set a colour from the number `n` itself -/
def colorOp : String → Option (Nat → WS → WS)
  | "attrs.fgcolor = crate::Color::Idx(to_u8!(*n) - 30)" => some fun n ws => ws.setFg (.idx (n - 30))
  | "attrs.bgcolor = crate::Color::Idx(to_u8!(*n) - 40)" => some fun n ws => ws.setBg (.idx (n - 40))
  | "attrs.fgcolor = crate::Color::Idx(to_u8!(*n) - 82)" => some fun n ws => ws.setFg (.idx (n - 82))
  | "attrs.bgcolor = crate::Color::Idx(to_u8!(*n) - 92)" => some fun n ws => ws.setBg (.idx (n - 92))
  | "attrs.fgcolor = crate::Color::Default" => some fun _ ws => ws.setFg .default
  | "attrs.bgcolor = crate::Color::Default" => some fun _ ws => ws.setBg .default
  | _ => none

/-- does an arm of `sgr` match the one-number parameter `[n]` (`pat ..` arms have ≥ 3 elements) -/
def sgrArmMatches (a : String × List Nat × String) (n : Nat) : Bool :=
  match a.1, a.2.1 with
  | "nums", [k] => n == k
  | "range", [lo, hi] => decide (lo ≤ n) && decide (n ≤ hi)
  | "default", [] => true
  | _, _ => false

/-- what one pass of the `loop` of `sgr` does with a one-number parameter `[n]`, `n ∉ {38, 48}` -/
def sgrStep (arms : List (String × List Nat × String)) (unh : WS → M WS) (n : Nat) (ws : WS) : M WS :=
  match arms.find? (sgrArmMatches · n) with
  | some (kind, _, tok) =>
    if kind = "default" then (if tok = "unhandled(self)" then unh ws else unknownAction)
    else
      match attrOp tok with
      | some f => pure (ws.modAttrs f)
      | none =>
        match colorOp tok with
        | some g => pure (g n ws)
        | none => unknownAction
  | none => unknownAction

/-- the arms `sgrStep` covers are all interpreted; the other arms are exactly the `[38]` / `[48]`
arms (which read further parameters) and the several-number patterns -/
theorem sgrArms_interpreted :
    (∀ a ∈ sgrArms, a.1 = "nums" ∧ a.2.1.length = 1 ∧ a.2.1 ≠ [38] ∧ a.2.1 ≠ [48] ∨ a.1 = "range" →
      (attrOp a.2.2).isSome ∨ (colorOp a.2.2).isSome) ∧
    (sgrArms.filter (fun a => !(a.1 == "nums" && a.2.1.length == 1) && a.1 != "range")).map (·.1) =
      ["pat [38, 2, r, g, b]", "pat [38, 5, i]", "pat [48, 2, r, g, b]", "pat [48, 5, i]", "default"] := by
  decide

/-- `sgrStep` on a number that no one-number arm names: the ranges, else `unhandled` -/
theorem sgrStep_other (unh : WS → M WS) (n : Nat) (ws : WS)
    (h0 : n ≠ 0) (h1 : n ≠ 1) (h2 : n ≠ 2) (h3 : n ≠ 3) (h4 : n ≠ 4) (h7 : n ≠ 7) (h22 : n ≠ 22)
    (h23 : n ≠ 23) (h24 : n ≠ 24) (h27 : n ≠ 27) (h38 : n ≠ 38) (h39 : n ≠ 39) (h48 : n ≠ 48) (h49 : n ≠ 49) :
    sgrStep sgrArms unh n ws =
      if 30 ≤ n && n ≤ 37 then pure (ws.setFg (.idx (n - 30)))
      else if 40 ≤ n && n ≤ 47 then pure (ws.setBg (.idx (n - 40)))
      else if 90 ≤ n && n ≤ 97 then pure (ws.setFg (.idx (n - 82)))
      else if 100 ≤ n && n ≤ 107 then pure (ws.setBg (.idx (n - 92)))
      else unh ws := by
  simp only [← beq_eq_false_iff_ne] at *
  have m (k : Nat) (t : String) : sgrArmMatches ("nums", [k], t) n = (n == k) := rfl
  have r (a b : Nat) (t : String) :
      sgrArmMatches ("range", [a, b], t) n = (decide (a ≤ n) && decide (n ≤ b)) := rfl
  have p1 (t : String) : sgrArmMatches ("pat [38, 2, r, g, b]", [38, 2], t) n = false := rfl
  have p2 (t : String) : sgrArmMatches ("pat [38, 5, i]", [38, 5], t) n = false := rfl
  have p3 (t : String) : sgrArmMatches ("pat [48, 2, r, g, b]", [48, 2], t) n = false := rfl
  have p4 (t : String) : sgrArmMatches ("pat [48, 5, i]", [48, 5], t) n = false := rfl
  have d (t : String) : sgrArmMatches ("default", [], t) n = true := rfl
  unfold sgrStep
  simp only [sgrArms, List.find?, *]
  cases (decide (30 ≤ n) && decide (n ≤ 37))
  · cases (decide (40 ≤ n) && decide (n ≤ 47))
    · cases (decide (90 ≤ n) && decide (n ≤ 97))
      · cases (decide (100 ≤ n) && decide (n ≤ 107))
        · rfl
        · rfl
      · rfl
    · rfl
  · rfl

/-- one pass of the `loop` of `Screen::sgr` on a one-number parameter is the generated table:
the numbers that set or clear an attribute, the four colour ranges with their offsets, `39` / `49`,
and `unhandled` for every other number -- for ALL `n` except `38` and `48` (whose arms read further
parameters and stay hand-modelled) -/
theorem sgr_single_tie : ∀ (unh : WS → M WS) (n : Nat) (rest : List (List Nat)) (ws : WS),
    n ≠ 38 → n ≠ 48 →
    sgrLoop unh ([n] :: rest) ws = sgrStep sgrArms unh n ws >>= sgrLoop unh rest := by
  intro unh n rest ws h38 h48
  by_cases h0 : n = 0
  · subst h0; rw [sgrLoop]; rfl
  by_cases h1 : n = 1
  · subst h1; rw [sgrLoop]; rfl
  by_cases h2 : n = 2
  · subst h2; rw [sgrLoop]; rfl
  by_cases h3 : n = 3
  · subst h3; rw [sgrLoop]; rfl
  by_cases h4 : n = 4
  · subst h4; rw [sgrLoop]; rfl
  by_cases h7 : n = 7
  · subst h7; rw [sgrLoop]; rfl
  by_cases h22 : n = 22
  · subst h22; rw [sgrLoop]; rfl
  by_cases h23 : n = 23
  · subst h23; rw [sgrLoop]; rfl
  by_cases h24 : n = 24
  · subst h24; rw [sgrLoop]; rfl
  by_cases h27 : n = 27
  · subst h27; rw [sgrLoop]; rfl
  by_cases h39 : n = 39
  · subst h39; rw [sgrLoop]; rfl
  by_cases h49 : n = 49
  · subst h49; rw [sgrLoop]; rfl
  rw [sgrStep_other unh n ws h0 h1 h2 h3 h4 h7 h22 h23 h24 h27 h38 h39 h48 h49]
  rw [sgrLoop]
  · by_cases c1 : (decide (30 ≤ n) && decide (n ≤ 37)) = true
    · simp only [c1, ↓reduceIte]; rfl
    by_cases c2 : (decide (40 ≤ n) && decide (n ≤ 47)) = true
    · simp only [c1, c2, ↓reduceIte]; rfl
    by_cases c3 : (decide (90 ≤ n) && decide (n ≤ 97)) = true
    · simp only [c1, c2, c3, ↓reduceIte]; rfl
    by_cases c4 : (decide (100 ≤ n) && decide (n ≤ 107)) = true
    · simp only [c1, c2, c3, c4, ↓reduceIte]; rfl
    simp only [c1, c2, c3, c4]; rfl
  all_goals assumption

/-! ## The interpretation is not vacuous: a few evaluations of the table-driven dispatchers on a
concrete 2×3 screen (kernel-evaluated) -/

/-- run `f` on the fresh 2×3 screen and test the result -/
def onFresh (f : WS → M WS) (test : WS → Bool) : Bool :=
  match Screen.new ⟨2, 3⟩ 0 with
  | .ok s => (match f ⟨s, []⟩ with | .ok ws => test ws | .error _ => false)
  | .error _ => false

example : onFresh (fun ws => interpExec execArms cbNone ws 7) (·.events == [.audibleBell]) = true := by
  decide +kernel
example : onFresh (fun ws => interpExec execArms cbNone ws 200) (·.events == [.unhandledControl 200]) = true := by
  decide +kernel
example : onFresh (fun ws => interpEsc escGuard escArms cbNone ws [] 61) (·.screen.appKeypad) = true := by
  decide +kernel
example : onFresh (fun ws => interpCsi csiOuter csiUnhandled cbNone ws [[2], [3]] [] 72)
    (fun ws => ws.screen.cursorPosition == ⟨1, 2⟩) = true := by decide +kernel
example : onFresh (fun ws => interpCsi csiOuter csiUnhandled cbNone ws [[5]] [63, 36] 122)
    (·.events == [.unhandledCsi (some 63) (some 36) [[5]] 122]) = true := by decide +kernel
example : onFresh (fun ws => interpOsc oscArms oscDefault cbNone ws [[48], [104, 105]])
    (·.events == [.setWindowIconName [104, 105], .setWindowTitle [104, 105]]) = true := by decide +kernel
example : onFresh (fun ws => do
      let s ← interpMode decsetArms ws.screen [2004]
      pure { ws with screen := s.getD ws.screen }) (·.screen.bracketedPaste) = true := by decide +kernel
example : onFresh (sgrStep sgrArms pure 94) (fun ws => ws.screen.attrs.fg == .idx 12) = true := by
  decide +kernel

end Vt.Gen
