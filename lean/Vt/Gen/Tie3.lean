/-
  Vt.Gen.Tie3 — tripwires and one tie for the parts of the source the translator (gentables.py) used to SKIP
  (audit, DESIGN 10.8): statements of the `write_buf` bodies that are not one of the four recognised calls, empty arms
  and early `return`s (`termOther`), the order between calls of different kinds (`termOrder`), the list of methods of
  `impl vte::Perform for WrappedScreen` (`performMethods`), the whole text of `fn print` (`printBody`) and of the part of
  `Screen::sgr` before its `loop` (`sgrPrelude`, `sgrSignature`).

  * `*_pin` theorems: the regenerated table IS the constant written here (the text the model was written from).  They are
    tripwires on the SOURCE: an edit there changes `Tables.lean` and this file stops building; they say nothing about the
    model.  All by `rfl` (two closed list literals; no string is compared character by character).
  * `termOther_<Type>`: the same per writer type (so that the failing type is named), via `List.lookup`, by `decide +kernel`.
  * `print_tie` is a real tie: `performPrint` (Vt/Model/Perform.lean) is, for every code point, the interpretation of the
    generated `printConsts` (both bounds of the C1 range, U+FFFD) and `printActions` (the three branch bodies as action
    tokens).  The first action `if let Ok(b) = u8::try_from(u32::from(c)) { self.execute(b); }` is interpreted with its
    conversion: it does nothing for `c ≥ 256`; the proof uses that the generated upper bound is ≤ 256.
  What is NOT tied: the interpretation `printOf` of the three tokens is hand-written (as `execOf` in Tie.lean); the
  texts of `termOther` / `sgrPrelude` are pinned, not interpreted.
-/
import Vt.Gen.Tie2
namespace Vt.Gen
open Vt

/-! ## tripwires: the new tables are the constants the model was written from -/

theorem termOther_pin : termOther = [
  ("ClearScreen", []),
  ("ClearRowForward", []),
  ("Crlf", []),
  ("Backspace", []),
  ("SaveCursor", []),
  ("RestoreCursor", []),
  ("MoveTo", []),
  ("ClearAttrs", []),
  ("Attrs", [
    ("stmt", ["if self.fgcolor.is_none() && self.bgcolor.is_none() && self.intensity.is_none() && self.italic.is_none() && self.underline.is_none() && self.inverse.is_none()"], "return"),
    ("stmt", [], "let mut first = true"),
    ("macro", [], "write_param($i:expr)"),
    ("stmt", ["macro write_param", "if first"], "first = false")]),
  ("MoveRight", [
    ("nop", ["match self.count", "0"], "")]),
  ("EraseChar", [
    ("nop", ["match self.count", "0"], "")]),
  ("HideCursor", []),
  ("MoveFromTo", [
    ("stmt", ["if self.to.row == self.from.row + 1 && self.to.col == 0"], "crate::term::Crlf.write_buf(buf)"),
    ("stmt", ["else if self.from.row == self.to.row && self.from.col<self.to.col"], "crate::term::MoveRight::new(self.to.col - self.from.col).write_buf(buf)"),
    ("stmt", ["else if self.to != self.from"], "crate::term::MoveTo::new(self.to).write_buf(buf)")]),
  ("ApplicationKeypad", []),
  ("ApplicationCursor", []),
  ("BracketedPaste", []),
  ("MouseProtocolMode", [
    ("stmt", ["if self.mode == self.prev"], "return"),
    ("nop", ["match self.mode", "crate::MouseProtocolMode::None", "match self.prev", "crate::MouseProtocolMode::None"], "")]),
  ("MouseProtocolEncoding", [
    ("stmt", ["if self.encoding == self.prev"], "return"),
    ("nop", ["match self.encoding", "crate::MouseProtocolEncoding::Default", "match self.prev", "crate::MouseProtocolEncoding::Default"], "")])] := rfl

theorem termOrder_pin : termOrder = [
  ("ClearScreen", ["lit"]),
  ("ClearRowForward", ["lit"]),
  ("Crlf", ["lit"]),
  ("Backspace", ["lit"]),
  ("SaveCursor", ["lit"]),
  ("RestoreCursor", ["lit"]),
  ("MoveTo", ["lit", "lit", "itoa", "push", "itoa", "push"]),
  ("ClearAttrs", ["lit"]),
  ("Attrs", ["stmt", "lit", "stmt", "macro", "stmt", "push", "itoa", "wparam", "wparam", "wparam", "wparam", "wparam", "wparam", "wparam", "wparam", "wparam", "wparam", "wparam", "wparam", "wparam", "wparam", "wparam", "wparam", "wparam", "wparam", "wparam", "wparam", "wparam", "wparam", "wparam", "wparam", "wparam", "wparam", "wparam", "wparam", "wparam", "wparam", "wparam", "push"]),
  ("MoveRight", ["nop", "lit", "lit", "itoa", "push"]),
  ("EraseChar", ["nop", "lit", "lit", "itoa", "push"]),
  ("HideCursor", ["lit", "lit"]),
  ("MoveFromTo", ["stmt", "stmt", "stmt"]),
  ("ApplicationKeypad", ["lit", "lit"]),
  ("ApplicationCursor", ["lit", "lit"]),
  ("BracketedPaste", ["lit", "lit"]),
  ("MouseProtocolMode", ["stmt", "nop", "lit", "lit", "lit", "lit", "lit", "lit", "lit", "lit"]),
  ("MouseProtocolEncoding", ["stmt", "nop", "lit", "lit", "lit", "lit"])] := rfl

theorem performMethods_pin : performMethods = ["print", "execute", "esc_dispatch", "csi_dispatch", "osc_dispatch"] := rfl

theorem printBody_pin : printBody = [
  "if('\\u{80}'..'\\u{a0}').contains(&c) { if let",
  "Ok(b) = u8::try_from(u32::from(c)) {",
  "self.execute(b); } } else if c == '\\u{fffd}' {",
  "self.callbacks.unhandled_char(&mut self.screen,",
  "c); } else { self.screen.text(c); }"] := rfl

theorem printConsts_pin : printConsts = [128, 160, 65533] := rfl

theorem printActions_pin : printActions = ["if let Ok(b) = u8::try_from(u32::from(c)) { self.execute(b); }", "callbacks.unhandled_char(c)", "screen.text(c)"] := rfl

theorem sgrSignature_pin : sgrSignature = "(&mut self, params:&vte::Params, mut unhandled:impl FnMut(&mut Self))" := rfl

theorem sgrPrelude_pin : sgrPrelude = [
  "if params.is_empty() { self.attrs =",
  "crate::attrs::Attrs::default(); return; } let",
  "mut iter = params.iter(); macro_rules!next_param",
  "{ () => { match iter.next() { Some(n) => n, _ =>",
  "return} }; } macro_rules!to_u8 { ($n:expr) => {",
  "if let Some(n) = u16_to_u8($n) { n } else {",
  "return; } }; } macro_rules!next_param_u8 { () =>",
  "{ if let&[n] = next_param!() { to_u8!(n) } else",
  "{ return; } }; }"] := rfl

/-! ## `termOther`, per writer type (names the type whose body changed) -/

/-- `termOther` of one writer type -/
def other (name : String) : List (String × List String × String) := (termOther.lookup name).getD []

theorem termOther_Attrs : other "Attrs" = [
    ("stmt", ["if self.fgcolor.is_none() && self.bgcolor.is_none() && self.intensity.is_none() && self.italic.is_none() && self.underline.is_none() && self.inverse.is_none()"], "return"),
    ("stmt", [], "let mut first = true"),
    ("macro", [], "write_param($i:expr)"),
    ("stmt", ["macro write_param", "if first"], "first = false")] := by decide +kernel

theorem termOther_MoveRight : other "MoveRight" = [
    ("nop", ["match self.count", "0"], "")] := by decide +kernel

theorem termOther_EraseChar : other "EraseChar" = [
    ("nop", ["match self.count", "0"], "")] := by decide +kernel

theorem termOther_MoveFromTo : other "MoveFromTo" = [
    ("stmt", ["if self.to.row == self.from.row + 1 && self.to.col == 0"], "crate::term::Crlf.write_buf(buf)"),
    ("stmt", ["else if self.from.row == self.to.row && self.from.col<self.to.col"], "crate::term::MoveRight::new(self.to.col - self.from.col).write_buf(buf)"),
    ("stmt", ["else if self.to != self.from"], "crate::term::MoveTo::new(self.to).write_buf(buf)")] := by decide +kernel

theorem termOther_MouseProtocolMode : other "MouseProtocolMode" = [
    ("stmt", ["if self.mode == self.prev"], "return"),
    ("nop", ["match self.mode", "crate::MouseProtocolMode::None", "match self.prev", "crate::MouseProtocolMode::None"], "")] := by decide +kernel

theorem termOther_MouseProtocolEncoding : other "MouseProtocolEncoding" = [
    ("stmt", ["if self.encoding == self.prev"], "return"),
    ("nop", ["match self.encoding", "crate::MouseProtocolEncoding::Default", "match self.prev", "crate::MouseProtocolEncoding::Default"], "")] := by decide +kernel

/-- the writer bodies that consist of recognised calls only -/
theorem termOther_none : ∀ n ∈ ["ClearScreen", "ClearRowForward", "Crlf", "Backspace", "SaveCursor", "RestoreCursor", "MoveTo", "ClearAttrs", "HideCursor", "ApplicationKeypad", "ApplicationCursor", "BracketedPaste"],
    other n = [] := by decide +kernel

/-! ## `fn print`: a tie -/

/-- the three action tokens of `fn print`.  `u8::try_from(u32::from(c))` succeeds exactly for `c < 256` -/
def printOf (W : Nat → Option Nat) : String → Option (CbPolicy → WS → Nat → M WS)
  | "if let Ok(b) = u8::try_from(u32::from(c)) { self.execute(b); }" =>
      some fun cb ws c => if c < 256 then performExecute cb ws c else pure ws
  | "callbacks.unhandled_char(c)" => some fun cb ws c => emit cb (.unhandledChar c) ws
  | "screen.text(c)" => some fun _ ws c => ws.onScreen (fun s => s.text W c)
  | _ => none

/-- `if ('lo'..'hi').contains(&c) { A } else if c == 'r' { B } else { C }` with `consts = [lo, hi, r]`,
`acts = [A, B, C]` -/
def interpPrint (consts : List Nat) (acts : List String) (W : Nat → Option Nat) (cb : CbPolicy) (ws : WS)
    (c : Nat) : M WS :=
  match consts, acts with
  | [lo, hi, r], [a, b, t] =>
    match printOf W (if lo ≤ c ∧ c < hi then a else if c = r then b else t) with
    | some f => f cb ws c
    | none => unknownAction
  | _, _ => unknownAction

theorem printActions_interpreted : ∀ W, ∀ a ∈ printActions, (printOf W a).isSome := by
  intro W a ha
  simp only [printActions, List.mem_cons, List.not_mem_nil, or_false] at ha
  rcases ha with rfl | rfl | rfl <;> rfl

/-- `performPrint` is the generated reading of `fn print`, for every code point -/
theorem print_tie : ∀ W cb ws c, performPrint W cb ws c = interpPrint printConsts printActions W cb ws c := by
  intro W cb ws c
  unfold performPrint
  by_cases h1 : 128 ≤ c ∧ c < 160
  · have h2 : c < 256 := by omega
    simp [interpPrint, printConsts, printActions, printOf, h1, h2]
  · by_cases h3 : c = 65533
    · subst h3
      simp [interpPrint, printConsts, printActions, printOf]
    · simp [interpPrint, printConsts, printActions, printOf, h1, h3]

/-- non-vacuity: the three branches are taken (a C1 control, U+FFFD, a letter) -/
example : (if 128 ≤ 133 ∧ 133 < 160 then 0 else if 133 = 65533 then 1 else 2) = 0 ∧
    (if 128 ≤ 65533 ∧ 65533 < 160 then 0 else if 65533 = 65533 then 1 else 2) = 1 ∧
    (if 128 ≤ 97 ∧ 97 < 160 then 0 else if 97 = 65533 then 1 else 2) = 2 := by decide

end Vt.Gen
