/-
  Vt.Gen.Tie2 — tripwires added after the audit of the translator tie (DESIGN 10.7): parts of the regenerated tables
  that `Tie.lean` interprets only in part are pinned to the text the model was written from.

  * `sgr_ext_text_tie`: the four `[38|48, 2|5, …]` pattern arms of `Screen::sgr` and the `[38]` / `[48]` arms (which read
    further parameters) — kind, numbers and the whole normalised text — are the constants below.  The model of these arms
    (`sgrLoop`, Vt/Model/Perform.lean) is hand-written; a change to them in the source changes the table and breaks this
    theorem (a tripwire on the source, like `xtwinops_text_tie`, not a statement about the model).
  * `sgr_arm_count`: the number of arms of the `loop { match next_param!() … }`.
-/
import Vt.Gen.Tie
namespace Vt.Gen

theorem sgr_arm_count : sgrArms.length = 23 := by decide

theorem sgr_ext_text_tie_0 : sgrArms[11]? = some ("pat [38, 2, r, g, b]", [38, 2], "attrs.fgcolor = crate::Color::Rgb(to_u8!(*r), to_u8!(*g), to_u8!(*b))") := by decide +kernel

theorem sgr_ext_text_tie_1 : sgrArms[12]? = some ("pat [38, 5, i]", [38, 5], "attrs.fgcolor = crate::Color::Idx(to_u8!(*i))") := by decide +kernel

theorem sgr_ext_text_tie_2 : sgrArms[13]? = some ("nums", [38], "match next_param!() { [2] => { let r = next_param_u8!(); let g = next_param_u8!(); let b = next_param_u8!(); self.attrs.fgcolor = crate::Color::Rgb(r, g, b); } [5] => { self.attrs.fgcolor = crate::Color::Idx(next_param_u8!()); } _ => { unhandled(self); return; } }") := by decide +kernel

theorem sgr_ext_text_tie_3 : sgrArms[16]? = some ("pat [48, 2, r, g, b]", [48, 2], "attrs.bgcolor = crate::Color::Rgb(to_u8!(*r), to_u8!(*g), to_u8!(*b))") := by decide +kernel

theorem sgr_ext_text_tie_4 : sgrArms[17]? = some ("pat [48, 5, i]", [48, 5], "attrs.bgcolor = crate::Color::Idx(to_u8!(*i))") := by decide +kernel

theorem sgr_ext_text_tie_5 : sgrArms[18]? = some ("nums", [48], "match next_param!() { [2] => { let r = next_param_u8!(); let g = next_param_u8!(); let b = next_param_u8!(); self.attrs.bgcolor = crate::Color::Rgb(r, g, b); } [5] => { self.attrs.bgcolor = crate::Color::Idx(next_param_u8!()); } _ => { unhandled(self); return; } }") := by decide +kernel

end Vt.Gen
