/-
  Vt.Model.Term — src/term.rs: the byte strings of every escape sequence the
  crate emits, plus the basic value types (Color, Pos, Size).
  `itoa` = decimal digits.  u16 `+ 1` overflow (positions ≥ 65535) is not modelled.
-/
import Vt.Model.Prim
namespace Vt

inductive Color where
  | default
  | idx (i : Nat)
  | rgb (r g b : Nat)
  deriving Repr, DecidableEq, Inhabited

structure Pos where
  row : Nat
  col : Nat
  deriving Repr, DecidableEq, Inhabited

structure Size where
  rows : Nat
  cols : Nat
  deriving Repr, DecidableEq, Inhabited

inductive MouseMode where
  | none | press | pressRelease | buttonMotion | anyMotion
  deriving Repr, DecidableEq, Inhabited

inductive MouseEnc where
  | default | utf8 | sgr
  deriving Repr, DecidableEq, Inhabited

inductive Intensity where
  | normal | bold | dim
  deriving Repr, DecidableEq, Inhabited

namespace Term

def ESC : Nat := 0x1b

/-- decimal digits, most significant first (`itoa`) -/
def digitsAux : Nat → Nat → List Nat → List Nat
  | 0, _, acc => acc
  | fuel + 1, n, acc =>
    if n < 10 then (48 + n) :: acc else digitsAux fuel (n / 10) ((48 + n % 10) :: acc)

def itoa (n : Nat) : List Nat := digitsAux (n + 1) n []

/-- bytes of an ASCII string literal -/
def lit (s : String) : List Nat := s.toList.map Char.toNat

def clearScreen : List Nat := [ESC, 91, 72, ESC, 91, 74]         -- ESC[H ESC[J
def clearRowForward : List Nat := [ESC, 91, 75]                  -- ESC[K
def crlf : List Nat := [13, 10]
def backspace : List Nat := [8]
def saveCursor : List Nat := [ESC, 55]                           -- ESC 7
def restoreCursor : List Nat := [ESC, 56]                        -- ESC 8
def clearAttrs : List Nat := [ESC, 91, 109]                      -- ESC[m

def moveTo (p : Pos) : List Nat :=
  if p.row == 0 && p.col == 0 then [ESC, 91, 72]
  else [ESC, 91] ++ itoa (p.row + 1) ++ [59] ++ itoa (p.col + 1) ++ [72]

def moveRight (count : Nat) : List Nat :=
  match count with
  | 0 => []
  | 1 => [ESC, 91, 67]
  | n => [ESC, 91] ++ itoa n ++ [67]

def eraseChar (count : Nat) : List Nat :=
  match count with
  | 0 => []
  | 1 => [ESC, 91, 88]
  | n => [ESC, 91] ++ itoa n ++ [88]

def hideCursor (state : Bool) : List Nat :=
  if state then [ESC, 91, 63, 50, 53, 108] else [ESC, 91, 63, 50, 53, 104]   -- ESC[?25l / h

def moveFromTo (frm to : Pos) : List Nat :=
  if to.row == frm.row + 1 && to.col == 0 then crlf
  else if frm.row == to.row && frm.col < to.col then moveRight (to.col - frm.col)
  else if to != frm then moveTo to
  else []

def applicationKeypad (state : Bool) : List Nat := if state then [ESC, 61] else [ESC, 62]
def applicationCursor (state : Bool) : List Nat :=
  if state then [ESC, 91, 63, 49, 104] else [ESC, 91, 63, 49, 108]
def bracketedPaste (state : Bool) : List Nat :=
  if state then [ESC, 91, 63, 50, 48, 48, 52, 104] else [ESC, 91, 63, 50, 48, 48, 52, 108]

def mouseModeNum : MouseMode → List Nat
  | .none => []
  | .press => [57]
  | .pressRelease => [49, 48, 48, 48]
  | .buttonMotion => [49, 48, 48, 50]
  | .anyMotion => [49, 48, 48, 51]

def mouseProtocolMode (mode prev : MouseMode) : List Nat :=
  if mode == prev then []
  else match mode with
    | .none => (match prev with
        | .none => []
        | p => [ESC, 91, 63] ++ mouseModeNum p ++ [108])
    | m => [ESC, 91, 63] ++ mouseModeNum m ++ [104]

def mouseEncNum : MouseEnc → List Nat
  | .default => []
  | .utf8 => [49, 48, 48, 53]
  | .sgr => [49, 48, 48, 54]

def mouseProtocolEncoding (enc prev : MouseEnc) : List Nat :=
  if enc == prev then []
  else match enc with
    | .default => (match prev with
        | .default => []
        | p => [ESC, 91, 63] ++ mouseEncNum p ++ [108])
    | e => [ESC, 91, 63] ++ mouseEncNum e ++ [104]

/-- `term::Attrs` builder -/
structure SgrAttrs where
  fg : Option Color := none
  bg : Option Color := none
  intensity : Option Intensity := none
  italic : Option Bool := none
  underline : Option Bool := none
  inverse : Option Bool := none
  deriving Repr, DecidableEq

def fgParams : Color → List Nat
  | .default => [39]
  | .idx i => if i < 8 then [i + 30] else if i < 16 then [i + 82] else [38, 5, i]
  | .rgb r g b => [38, 2, r, g, b]

def bgParams : Color → List Nat
  | .default => [49]
  | .idx i => if i < 8 then [i + 40] else if i < 16 then [i + 92] else [48, 5, i]
  | .rgb r g b => [48, 2, r, g, b]

/-- the parameter numbers `term::Attrs::write_buf` writes, in order -/
def SgrAttrs.params (a : SgrAttrs) : List Nat :=
  (match a.fg with | some c => fgParams c | none => []) ++
  (match a.bg with | some c => bgParams c | none => []) ++
  (match a.intensity with
    | some .normal => [22] | some .bold => [1] | some .dim => [2] | none => []) ++
  (match a.italic with | some true => [3] | some false => [23] | none => []) ++
  (match a.underline with | some true => [4] | some false => [24] | none => []) ++
  (match a.inverse with | some true => [7] | some false => [27] | none => [])

/-- `;`-joined decimal parameters -/
def joinParams : List Nat → List Nat
  | [] => []
  | [p] => itoa p
  | p :: ps => itoa p ++ [59] ++ joinParams ps

def SgrAttrs.isEmpty (a : SgrAttrs) : Bool :=
  a.fg.isNone && a.bg.isNone && a.intensity.isNone && a.italic.isNone &&
  a.underline.isNone && a.inverse.isNone

def SgrAttrs.write (a : SgrAttrs) : List Nat :=
  if a.isEmpty then [] else [ESC, 91] ++ joinParams a.params ++ [109]

end Term
end Vt
