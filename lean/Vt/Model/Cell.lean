/-
  Vt.Model.Cell — src/attrs.rs and src/cell.rs.

  Abstractions (recorded in the trusted base):
  * `Attrs.mode`'s two intensity bits are the 3-valued `Intensity`; the other
    three bits are Bools.  (`set_bold`/`set_dim` clear both bits first, so the
    fourth combination is unreachable; the dump loader rejects it.)
  * `Cell.len`'s packing (5 length bits + 2 flag bits in one u8) is three
    fields.  The 22 content bytes are kept, stale bytes included.
  * `W : Nat → Option Nat` is `unicode_width::UnicodeWidthChar::width`.
-/
import Vt.Model.Term
import Vt.Model.Utf8
namespace Vt

structure Attrs where
  fg : Color := .default
  bg : Color := .default
  intensity : Intensity := .normal
  italic : Bool := false
  underline : Bool := false
  inverse : Bool := false
  deriving Repr, DecidableEq, Inhabited

namespace Attrs

def default : Attrs := {}

def bold (a : Attrs) : Bool := a.intensity == .bold
def dim (a : Attrs) : Bool := a.intensity == .dim

/-- the `term::Attrs` builder `write_escape_code_diff` fills in: one field per differing component -/
def diffBuilder (self other : Attrs) : Term.SgrAttrs :=
  let a : Term.SgrAttrs := {}
  let a := if self.fg == other.fg then a else { a with fg := some self.fg }
  let a := if self.bg == other.bg then a else { a with bg := some self.bg }
  let a := if self.intensity == other.intensity then a else { a with intensity := some self.intensity }
  let a := if self.italic == other.italic then a else { a with italic := some self.italic }
  let a := if self.underline == other.underline then a else { a with underline := some self.underline }
  let a := if self.inverse == other.inverse then a else { a with inverse := some self.inverse }
  a

/-- `Attrs::write_escape_code_diff(self, contents, other)`: the bytes appended. -/
def writeEscapeCodeDiff (self other : Attrs) : List Nat :=
  if self != other && self == Attrs.default then Term.clearAttrs
  else (diffBuilder self other).write

end Attrs

def CONTENT_BYTES : Nat := 22

structure Cell where
  contents : List Nat      -- 22 bytes, stale bytes included
  len : Nat                -- `len & LEN_BITS`
  wide : Bool              -- `len & IS_WIDE`
  cont : Bool              -- `len & IS_WIDE_CONTINUATION`
  attrs : Attrs
  deriving Repr, DecidableEq, Inhabited

namespace Cell

def new : Cell :=
  { contents := List.replicate 22 0, len := 0, wide := false, cont := false, attrs := Attrs.default }

/-- hand-written `PartialEq`: packed len byte, attrs, live prefix -/
def eq (a b : Cell) : Bool :=
  a.len == b.len && a.wide == b.wide && a.cont == b.cont && a.attrs == b.attrs &&
  a.contents.take a.len == b.contents.take a.len

def hasContents (c : Cell) : Bool := c.len > 0
def isWide (c : Cell) : Bool := c.wide
def isWideContinuation (c : Cell) : Bool := c.cont

/-- the bytes of `contents()`; `from_utf8(..).unwrap()` panics on invalid UTF-8 -/
def contentsBytes (c : Cell) : M (List Nat) :=
  let bs := c.contents.take c.len
  if Utf8.valid bs then pure bs else panic 201

/-- `append_char(start, c)`: `encode_utf8` into `contents[start..]` panics when it does not fit;
`self.len += n` on the packed byte -/
def appendChar (cell : Cell) (start : Nat) (c : Nat) : M Cell :=
  let bs := Utf8.encode c
  if start ≤ CONTENT_BYTES && start + bs.length ≤ CONTENT_BYTES then
    pure { cell with
      contents := cell.contents.take start ++ bs ++ cell.contents.drop (start + bs.length),
      len := cell.len + bs.length }
  else panic 202

/-- `Cell::set(c, a)` -/
def set (W : Nat → Option Nat) (cell : Cell) (c : Nat) (a : Attrs) : M Cell := do
  let cell := { cell with len := 0, wide := false, cont := false }
  let cell ← cell.appendChar 0 c
  pure { cell with wide := decide ((W c).getD 1 > 1), attrs := a }

/-- `Cell::append(c)` -/
def append (cell : Cell) (c : Nat) : M Cell :=
  if cell.len ≥ CONTENT_BYTES - 4 then pure cell
  else
    let cell := if cell.len == 0 then
        { cell with contents := cell.contents.set 0 32, len := cell.len + 1 }
      else cell
    cell.appendChar cell.len c

/-- `Cell::clear(attrs)` (`len = 0` also clears both flags) -/
def clear (cell : Cell) (attrs : Attrs) : Cell :=
  { cell with len := 0, wide := false, cont := false, attrs := attrs }

def setWideContinuation (cell : Cell) (v : Bool) : Cell := { cell with cont := v }

end Cell
end Vt
