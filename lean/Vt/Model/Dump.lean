/-
  Vt.Model.Dump — canonical text form of the complete screen state, shared with
  the Rust hook (`Screen::verif_dump`, src/verif.rs under cfg(vt100_verif)):
  printer and parser.  See DESIGN.md §3.1 for the grammar.
-/
import Vt.Model.Perform
namespace Vt.Dump

def hexDigit (n : Nat) : Char :=
  if n < 10 then Char.ofNat (48 + n) else Char.ofNat (87 + n)

def hexByte (b : Nat) : String := String.ofList [hexDigit (b / 16 % 16), hexDigit (b % 16)]

def hex (bs : List Nat) : String := String.join (bs.map hexByte)

def unhexDigit (c : Char) : Option Nat :=
  let n := c.toNat
  if 48 ≤ n && n ≤ 57 then some (n - 48)
  else if 97 ≤ n && n ≤ 102 then some (n - 87)
  else if 65 ≤ n && n ≤ 70 then some (n - 55)
  else none

def unhexList : List Char → Option (List Nat)
  | [] => some []
  | [_] => none
  | a :: b :: rest => do
    let x ← unhexDigit a
    let y ← unhexDigit b
    let r ← unhexList rest
    pure ((x * 16 + y) :: r)

def unhex (s : String) : Option (List Nat) := unhexList s.toList

/-! printing -/

def colorStr : Color → String
  | .default => "d"
  | .idx i => s!"i{i}"
  | .rgb r g b => s!"r{r}.{g}.{b}"

def attrsMode (a : Attrs) : Nat :=
  (match a.intensity with | .normal => 0 | .bold => 1 | .dim => 2)
  + (if a.italic then 4 else 0) + (if a.underline then 8 else 0) + (if a.inverse then 16 else 0)

def attrsStr (a : Attrs) : String := s!"{colorStr a.fg},{colorStr a.bg},{attrsMode a}"

def stripTrailingZeros (l : List Nat) : List Nat := (l.reverse.dropWhile (· == 0)).reverse

def cellStr (c : Cell) : String :=
  if c == Cell.new then "-"
  else
    let flags := (if c.wide then 1 else 0) + (if c.cont then 2 else 0)
    s!"{hex (stripTrailingZeros c.contents)}/{c.len}/{flags}/{attrsStr c.attrs}"

/-- run-length encode consecutive equal tokens as `tok*N` -/
def rle : List String → List String
  | [] => []
  | t :: rest =>
    let n := (rest.takeWhile (· == t)).length
    let rest' := rest.drop n
    (if n == 0 then t else s!"{t}*{n + 1}") :: rle rest'
termination_by l => l.length
decreasing_by simp_wf; omega

def rowStr (r : Row) : String :=
  let toks := rle (r.cells.map cellStr)
  String.intercalate " " ([if r.wrapped then "w1" else "w0"] ++ toks ++ [";"])

def b01 (b : Bool) : String := if b then "1" else "0"

def gridStr (g : Grid) : String :=
  String.intercalate " "
    ([s!"g {g.size.rows} {g.size.cols} {g.pos.row} {g.pos.col} {g.savedPos.row} {g.savedPos.col} {g.scrollTop} {g.scrollBottom} {b01 g.originMode} {b01 g.savedOriginMode} {g.scrollbackLen} {g.scrollbackOffset} {g.rows.length} {g.scrollback.length}"]
     ++ g.rows.map rowStr ++ g.scrollback.map rowStr)

def mouseModeNum : MouseMode → Nat
  | .none => 0 | .press => 1 | .pressRelease => 2 | .buttonMotion => 3 | .anyMotion => 4

def mouseEncNum : MouseEnc → Nat
  | .default => 0 | .utf8 => 1 | .sgr => 2

def screenStr (s : Screen) : String :=
  String.intercalate " "
    [s!"scr {b01 s.appKeypad}{b01 s.appCursor}{b01 s.hideCursor}{b01 s.altScreen}{b01 s.bracketedPaste} {mouseModeNum s.mouseMode} {mouseEncNum s.mouseEnc} {attrsStr s.attrs} {attrsStr s.savedAttrs}",
     gridStr s.grid, gridStr s.altGrid]

/-! parsing -/

abbrev P := StateT (List String) Option

def tok : P String := do
  match ← get with
  | [] => failure
  | t :: rest => set rest; pure t

def natTok : P Nat := do
  let t ← tok
  match t.toNat? with
  | some n => pure n
  | none => failure

def expect (s : String) : P Unit := do
  let t ← tok
  if t == s then pure () else failure

def parseColor (s : String) : Option Color :=
  match s.toList with
  | ['d'] => some .default
  | 'i' :: rest => (String.ofList rest).toNat?.map Color.idx
  | 'r' :: rest =>
    match (String.ofList rest).splitOn "." with
    | [r, g, b] => do
      let r ← r.toNat?
      let g ← g.toNat?
      let b ← b.toNat?
      pure (.rgb r g b)
    | _ => none
  | _ => none

def parseAttrs (s : String) : Option Attrs :=
  match s.splitOn "," with
  | [fg, bg, mode] => do
    let fg ← parseColor fg
    let bg ← parseColor bg
    let m ← mode.toNat?
    let inten ← match m % 4 with
      | 0 => some Intensity.normal | 1 => some .bold | 2 => some .dim | _ => none
    if m ≥ 32 then none
    else pure { fg := fg, bg := bg, intensity := inten, italic := m / 4 % 2 == 1,
                underline := m / 8 % 2 == 1, inverse := m / 16 % 2 == 1 }
  | _ => none

def parseCell (s : String) : Option Cell :=
  if s == "-" then some Cell.new
  else
    match s.splitOn "/" with
    | [h, len, flags, attrs] => do
      let bs ← unhex h
      let len ← len.toNat?
      let flags ← flags.toNat?
      let attrs ← parseAttrs attrs
      if bs.length > 22 || flags > 3 then none
      else pure { contents := bs ++ List.replicate (22 - bs.length) 0, len := len,
                  wide := flags % 2 == 1, cont := flags / 2 == 1, attrs := attrs }
    | _ => none

/-- cell tokens up to `;` -/
partial def parseCells (acc : List Cell) : P (List Cell) := do
  let t ← tok
  if t == ";" then pure acc.reverse
  else
    match t.splitOn "*" with
    | [c] =>
      match parseCell c with
      | some cell => parseCells (cell :: acc)
      | none => failure
    | [c, n] =>
      match parseCell c, n.toNat? with
      | some cell, some n => parseCells (List.replicate n cell ++ acc)
      | _, _ => failure
    | _ => failure

def parseRow : P Row := do
  let w ← tok
  let wrapped ← if w == "w1" then pure true else if w == "w0" then pure false else failure
  let cells ← parseCells []
  pure { cells := cells, wrapped := wrapped }

def parseRows : Nat → P (List Row)
  | 0 => pure []
  | n + 1 => do
    let r ← parseRow
    let rs ← parseRows n
    pure (r :: rs)

def parseBool : P Bool := do
  let t ← tok
  if t == "1" then pure true else if t == "0" then pure false else failure

def parseGrid : P Grid := do
  expect "g"
  let rows ← natTok; let cols ← natTok
  let pr ← natTok; let pc ← natTok; let sr ← natTok; let sc ← natTok
  let top ← natTok; let bot ← natTok
  let om ← parseBool; let som ← parseBool
  let sblen ← natTok; let sboff ← natTok
  let nrows ← natTok; let nsb ← natTok
  let rs ← parseRows nrows
  let sb ← parseRows nsb
  pure { size := ⟨rows, cols⟩, pos := ⟨pr, pc⟩, savedPos := ⟨sr, sc⟩, rows := rs,
         scrollTop := top, scrollBottom := bot, originMode := om, savedOriginMode := som,
         scrollback := sb, scrollbackLen := sblen, scrollbackOffset := sboff }

def parseScreen : P Screen := do
  expect "scr"
  let modes ← tok
  let ms ← match modes.toList with
    | [a, b, c, d, e] => pure (a == '1', b == '1', c == '1', d == '1', e == '1')
    | _ => failure
  let mm ← natTok
  let me ← natTok
  let mouseMode ← match mm with
    | 0 => pure MouseMode.none | 1 => pure .press | 2 => pure .pressRelease
    | 3 => pure .buttonMotion | 4 => pure .anyMotion | _ => failure
  let mouseEnc ← match me with
    | 0 => pure MouseEnc.default | 1 => pure .utf8 | 2 => pure .sgr | _ => failure
  let a ← tok
  let sa ← tok
  let attrs ← match parseAttrs a with | some x => pure x | none => failure
  let savedAttrs ← match parseAttrs sa with | some x => pure x | none => failure
  let g ← parseGrid
  let ag ← parseGrid
  pure { grid := g, altGrid := ag, attrs := attrs, savedAttrs := savedAttrs,
         appKeypad := ms.1, appCursor := ms.2.1, hideCursor := ms.2.2.1, altScreen := ms.2.2.2.1,
         bracketedPaste := ms.2.2.2.2, mouseMode := mouseMode, mouseEnc := mouseEnc }

def parseScreenToks (toks : List String) : Option Screen :=
  match parseScreen.run toks with
  | some (s, []) => some s
  | _ => none

/-! events -/

def optNum : Option Nat → String
  | none => "-"
  | some n => toString n

def paramsStr (ps : List (List Nat)) : String :=
  String.intercalate ";" (ps.map (fun g => String.intercalate ":" (g.map toString)))

def eventStr : Event → String
  | .audibleBell => "bell"
  | .visualBell => "vbell"
  | .resize r c => s!"resize:{r}:{c}"
  | .setWindowIconName s => s!"icon:{hex s}"
  | .setWindowTitle s => s!"title:{hex s}"
  | .unhandledChar c => s!"uchar:{c}"
  | .unhandledControl b => s!"uctl:{b}"
  | .unhandledEscape i1 i2 b => s!"uesc:{optNum i1}:{optNum i2}:{b}"
  | .unhandledCsi i1 i2 ps c => s!"ucsi:{optNum i1}:{optNum i2}:{paramsStr ps}:{c}"
  | .unhandledOsc ps => s!"uosc:{String.intercalate "|" (ps.map hex)}"

def actionStr : Action → String
  | .print c => s!"print:{c}"
  | .execute b => s!"exec:{b}"
  | .hook ps ints ig c => s!"hook:{paramsStr ps}:{hex ints}:{b01 ig}:{c}"
  | .put b => s!"put:{b}"
  | .unhook => "unhook"
  | .oscDispatch ps bell => s!"osc:{String.intercalate "|" (ps.map hex)}:{b01 bell}"
  | .csiDispatch ps ints ig c => s!"csi:{paramsStr ps}:{hex ints}:{b01 ig}:{c}"
  | .escDispatch ints ig b => s!"esc:{hex ints}:{b01 ig}:{b}"

end Vt.Dump
