/-
  Vt.Model.Prim — primitives shared by the whole model.

  * `M = Except Panic`: every Rust site that can panic (index out of range,
    `unwrap()` on `None`, overflow-checked `+`/`-`, `try_into().unwrap()`) is an
    explicit `M` operation carrying a site number.  Site numbers are listed in
    /verif/DESIGN.md (appendix C) and printed by the driver as `PANIC`.
  * numbers are `Nat`; the u16/usize range checks are written where Rust has them.

  This file (and everything under Vt/Model) imports nothing outside core Lean,
  so the driver links as a `lean_exe`.
-/
namespace Vt

/-- A Rust panic, identified by a site number. -/
inductive Panic where
  | at (site : Nat)
  deriving Repr, DecidableEq, Inhabited

abbrev M := Except Panic

@[inline] def panic {α} (site : Nat) : M α := .error (.at site)

def U16_MAX : Nat := 65535

/-- overflow-checked `a - b` -/
@[inline] def subM (site : Nat) (a b : Nat) : M Nat :=
  if b ≤ a then pure (a - b) else panic site

/-- overflow-checked u16 `a + b` -/
@[inline] def addU16 (site : Nat) (a b : Nat) : M Nat :=
  if a + b ≤ U16_MAX then pure (a + b) else panic site

/-- `u16::saturating_add` -/
@[inline] def satAddU16 (a b : Nat) : Nat := min (a + b) U16_MAX

/-- `l[i]` (panics when out of range) -/
@[inline] def getM {α} (site : Nat) (l : List α) (i : Nat) : M α :=
  match l[i]? with
  | some x => pure x
  | none => panic site

/-- `l[i] = f(l[i])` through `IndexMut` (panics when out of range) -/
@[inline] def modifyM {α} (site : Nat) (l : List α) (i : Nat) (f : α → M α) : M (List α) :=
  match l[i]? with
  | some x => do
      let y ← f x
      pure (l.set i y)
  | none => panic site

/-- `Vec::insert(i, x)`: panics when `i > len` -/
@[inline] def insertM {α} (site : Nat) (l : List α) (i : Nat) (x : α) : M (List α) :=
  if i ≤ l.length then pure (l.take i ++ x :: l.drop i) else panic site

/-- `Vec::remove(i)`: panics when `i ≥ len`; returns the removed element too -/
@[inline] def removeM {α} (site : Nat) (l : List α) (i : Nat) : M (α × List α) :=
  match l[i]? with
  | some x => pure (x, l.eraseIdx i)
  | none => panic site

/-- `Vec::resize(n, x)` -/
def resizeList {α} (l : List α) (n : Nat) (x : α) : List α :=
  l.take n ++ List.replicate (n - l.length) x

/-- `for i in a..b { s = f i s }` -/
def forRange {σ} (a b : Nat) (f : Nat → σ → M σ) (s : σ) : M σ :=
  (List.range' a (b - a)).foldlM (fun s i => f i s) s

/-- `for _ in 0..n { s = f s }` -/
def iterateM {σ} : Nat → (σ → M σ) → σ → M σ
  | 0, _, s => pure s
  | n + 1, f, s => do
      let s' ← f s
      iterateM n f s'

/-- is `c` a Unicode scalar value -/
def isScalar (c : Nat) : Bool := c < 0xD800 || (0xE000 ≤ c && c < 0x110000)

end Vt
