/-
  Vt.Model.Row — src/row.rs, function by function.
  Emitters return the bytes they append to `contents`.
-/
import Vt.Model.Cell
namespace Vt

structure Row where
  cells : List Cell
  wrapped : Bool
  deriving Repr, DecidableEq, Inhabited

namespace Row

def new (cols : Nat) : Row := { cells := List.replicate cols Cell.new, wrapped := false }

def cols (r : Row) : Nat := r.cells.length

def clear (r : Row) (attrs : Attrs) : Row :=
  { cells := r.cells.map (fun c => c.clear attrs), wrapped := false }

def get (r : Row) (col : Nat) : Option Cell := r.cells[col]?

def insert (r : Row) (i : Nat) (cell : Cell) : M Row := do
  let cs ← insertM 310 r.cells i cell
  pure { cells := cs, wrapped := false }

def clearWide (r : Row) (col : Nat) : M Row := do
  let cell ← getM 311 r.cells col
  if cell.isWide then do
    let cs ← modifyM 312 r.cells (col + 1) (fun o => pure (o.clear o.attrs))
    pure { r with cells := cs }
  else if cell.isWideContinuation then do
    let c1 ← subM 313 col 1
    let cs ← modifyM 314 r.cells c1 (fun o => pure (o.clear o.attrs))
    pure { r with cells := cs }
  else pure r

def remove (r : Row) (i : Nat) : M Row := do
  let r ← r.clearWide i
  let (_, cs) ← removeM 315 r.cells i
  pure { cells := cs, wrapped := false }

def erase (r : Row) (i : Nat) (attrs : Attrs) : M Row := do
  let cell ← getM 316 r.cells i
  let wide := cell.isWide
  let r ← r.clearWide i
  let cs ← modifyM 317 r.cells i (fun c => pure (c.clear attrs))
  let lim ← subM 318 cs.length (if wide then 2 else 1)
  pure { cells := cs, wrapped := if i == lim then false else r.wrapped }

def truncate (r : Row) (len : Nat) : M Row := do
  let cs := r.cells.take len
  let i ← subM 319 len 1
  let cs ← modifyM 320 cs i (fun c => pure (if c.isWide then c.clear c.attrs else c))
  pure { cells := cs, wrapped := false }

def resize (r : Row) (len : Nat) (cell : Cell) : Row :=
  let cs := resizeList r.cells len cell
  let cs := match cs.getLast? with
    | some last => if last.isWide then cs.set (cs.length - 1) (last.clear last.attrs) else cs
    | none => cs
  { cells := cs, wrapped := false }

def wrap (r : Row) (w : Bool) : Row := { r with wrapped := w }

/-- the `(col, cell)` pairs visited by `.enumerate().skip(start).take(width)` -/
def window {α} (l : List α) (start width : Nat) : List (Nat × α) :=
  ((l.zipIdx.map (fun p => (p.2, p.1))).drop start).take width

/-! ### `write_contents` -/

structure WcSt where
  prevWasWide : Bool
  prevCol : Nat
  out : List Nat
  deriving Repr, DecidableEq

def writeContentsStep (st : WcSt) (p : Nat × Cell) : M WcSt :=
  let (col, cell) := p
  if st.prevWasWide then pure { st with prevWasWide := false }
  else do
    let st := { st with prevWasWide := cell.isWide }
    if cell.hasContents then do
      let d ← subM 321 col st.prevCol
      let bs ← cell.contentsBytes
      pure { st with
        out := st.out ++ List.replicate d 32 ++ bs,
        prevCol := st.prevCol + d + (if cell.isWide then 2 else 1) }
    else pure st

def writeContents (r : Row) (start width : Nat) (wrapping : Bool) : M (List Nat) := do
  let st ← (window r.cells start width).foldlM writeContentsStep
    { prevWasWide := false, prevCol := start, out := [] }
  pure (if st.prevCol == start && wrapping then st.out ++ [10] else st.out)

/-! ### `write_contents_formatted` / `write_contents_diff` -/

structure FmtSt where
  prevWasWide : Bool
  prevPos : Pos
  prevAttrs : Attrs
  erase : Option (Nat × Attrs)
  out : List Nat
  deriving Repr, DecidableEq

/-- the cursor move + pen change that precede flushing a pending erase run
(identical text at four places in row.rs) -/
def eraseMove (selfCols row : Nat) (wrapping : Bool) (st : FmtSt) (prevCol : Nat) (attrs : Attrs) : FmtSt :=
  let newPos : Pos := { row := row, col := prevCol }
  let mv :=
    if wrapping && st.prevPos.row + 1 == newPos.row && st.prevPos.col ≥ selfCols then
      if newPos.col > 0 then List.replicate newPos.col 32 else [32] ++ Term.backspace
    else Term.moveFromTo st.prevPos newPos
  let (sg, pa) :=
    if st.prevAttrs != attrs then (attrs.writeEscapeCodeDiff st.prevAttrs, attrs) else ([], st.prevAttrs)
  { st with prevPos := newPos, prevAttrs := pa, out := st.out ++ mv ++ sg }

/-- the part of the per-cell loop body after the `prev_was_wide` bookkeeping;
`differs` is `cell != &default_cell` resp. `cell != prev_cell`. -/
def fmtCellStep (selfCols row : Nat) (wrapping : Bool) (st : FmtSt) (col : Nat) (cell : Cell)
    (differs : Bool) : M FmtSt := do
  let pos : Pos := { row := row, col := col }
  let st ←
    match st.erase with
    | some (prevCol, attrs) =>
      if cell.hasContents || cell.attrs != attrs then do
        let st := eraseMove selfCols row wrapping st prevCol attrs
        let n ← subM 331 pos.col prevCol
        pure { st with out := st.out ++ Term.eraseChar n, erase := none }
      else pure st
    | none => pure st
  if differs then
    let attrs := cell.attrs
    if cell.hasContents then do
      let st :=
        if pos != st.prevPos then
          let mv :=
            if !wrapping || st.prevPos.row + 1 != pos.row
                || st.prevPos.col < selfCols - (if cell.isWide then 1 else 0)
                || pos.col != 0 then
              Term.moveFromTo st.prevPos pos
            else []
          { st with out := st.out ++ mv, prevPos := pos }
        else st
      let st :=
        if st.prevAttrs != attrs then
          { st with out := st.out ++ attrs.writeEscapeCodeDiff st.prevAttrs, prevAttrs := attrs }
        else st
      let bs ← cell.contentsBytes
      pure { st with
        prevPos := { st.prevPos with col := st.prevPos.col + (if cell.isWide then 2 else 1) },
        out := st.out ++ bs }
    else if st.erase.isNone then pure { st with erase := some (pos.col, attrs) }
    else pure st
  else pure st

/-- flush of a pending erase run at the end of the row -/
def fmtFinish (selfCols row : Nat) (wrapping : Bool) (st : FmtSt) : FmtSt :=
  match st.erase with
  | some (prevCol, attrs) =>
    let st := eraseMove selfCols row wrapping st prevCol attrs
    { st with out := st.out ++ Term.clearRowForward }
  | none => st

def fmtStep (selfCols row : Nat) (wrapping : Bool) (st : FmtSt) (p : Nat × Cell) : M FmtSt :=
  let (col, cell) := p
  if st.prevWasWide then pure { st with prevWasWide := false }
  else
    fmtCellStep selfCols row wrapping { st with prevWasWide := cell.isWide } col cell
      (!(cell.eq Cell.new))

/-- `self.cells.get(start) == Some(&default_cell)` -/
def firstIsDefault (r : Row) (start : Nat) : Bool :=
  match r.cells[start]? with
  | some firstCell => firstCell.eq Cell.new
  | none => false

/-- returns `(bytes, (prev_pos, prev_attrs))` -/
def writeContentsFormatted (r : Row) (start width row : Nat) (wrapping : Bool)
    (prevPos : Option Pos) (prevAttrs : Option Attrs) : M (List Nat × Pos × Attrs) := do
  let defaultCell := Cell.new
  let prevPos ←
    match prevPos with
    | some p => pure p
    | none =>
      if wrapping then do
        let r1 ← subM 332 row 1
        pure ({ row := r1, col := r.cols } : Pos)
      else pure ({ row := row, col := start } : Pos)
  let prevAttrs := prevAttrs.getD Attrs.default
  let st0 : FmtSt :=
    if wrapping && r.firstIsDefault start then
      let da := defaultCell.attrs
      let (sg, pa) :=
        if prevAttrs != da then (da.writeEscapeCodeDiff prevAttrs, da) else ([], prevAttrs)
      { prevWasWide := false, prevPos := { row := row, col := 0 }, prevAttrs := pa, erase := none,
        out := sg ++ [32] ++ Term.backspace ++ Term.eraseChar 1 }
    else
      { prevWasWide := false, prevPos := prevPos, prevAttrs := prevAttrs, erase := none, out := [] }
  let st ← (window r.cells start width).foldlM (fmtStep r.cols row wrapping) st0
  let st := fmtFinish r.cols row wrapping st
  pure (st.out, st.prevPos, st.prevAttrs)

def diffStep (selfCols row : Nat) (wrapping : Bool) (st : FmtSt) (p : Nat × (Cell × Cell)) : M FmtSt :=
  let (col, (cell, prevCell)) := p
  if st.prevWasWide then pure { st with prevWasWide := false }
  else
    fmtCellStep selfCols row wrapping { st with prevWasWide := cell.isWide } col cell
      (!(cell.eq prevCell))

/-- the part of `write_contents_diff` before the cell loop: when the previous row has just become
wrapped, re-type this row's first cell so that the terminal wraps onto this row -/
def diffStart (r prev : Row) (start row : Nat) (wrapping prevWrapping : Bool) (prevPos : Pos)
    (prevAttrs : Attrs) : M FmtSt :=
  match r.cells[start]?, prev.cells[start]? with
  | some firstCell, some prevFirstCell =>
    if wrapping && !prevWrapping && firstCell.eq prevFirstCell && prevPos.row + 1 == row
        && prevPos.col ≥ r.cols - (if prevFirstCell.isWide then 1 else 0) then do
      let fa := firstCell.attrs
      let (sg, pa) :=
        if prevAttrs != fa then (fa.writeEscapeCodeDiff prevAttrs, fa) else ([], prevAttrs)
      let cc ← prevFirstCell.contentsBytes
      let (cc, needErase) := if cc.isEmpty then ([32], true) else (cc, false)
      let out := sg ++ cc ++ Term.backspace
        ++ (if prevFirstCell.isWide then Term.backspace else [])
        ++ (if needErase then Term.eraseChar 1 else [])
      pure ({ prevWasWide := false, prevPos := { row := row, col := 0 }, prevAttrs := pa,
              erase := none, out := out } : FmtSt)
    else
      pure ({ prevWasWide := false, prevPos := prevPos, prevAttrs := prevAttrs, erase := none,
              out := [] } : FmtSt)
  | _, _ =>
    pure ({ prevWasWide := false, prevPos := prevPos, prevAttrs := prevAttrs, erase := none,
            out := [] } : FmtSt)

/-- the part of `write_contents_diff` after the cell loop: when the row's wrap flag changed, re-type
(and, when it became unwrapped, first erase) the last character of the row -/
def diffEnd (r prev : Row) (row : Nat) (st : FmtSt) : M (List Nat × Pos × Attrs) :=
  if (!r.wrapped && prev.wrapped) || (!prev.wrapped && r.wrapped) then do
    let c1 ← subM 343 r.cols 1
    let lastCell ← getM 344 r.cells c1
    let endPos : Pos ←
      if lastCell.isWideContinuation then do
        let c2 ← subM 345 r.cols 2
        pure ({ row := row, col := c2 } : Pos)
      else pure ({ row := row, col := c1 } : Pos)
    let out := st.out ++ Term.moveFromTo st.prevPos endPos
    let out := if !r.wrapped then out ++ Term.eraseChar 1 else out
    let endCell ← getM 346 r.cells endPos.col
    if endCell.hasContents then do
      let attrs := endCell.attrs
      let (sg, pa) :=
        if st.prevAttrs != attrs then (attrs.writeEscapeCodeDiff st.prevAttrs, attrs)
        else ([], st.prevAttrs)
      let bs ← endCell.contentsBytes
      pure (out ++ sg ++ bs,
            { row := endPos.row, col := endPos.col + (if endCell.isWide then 2 else 1) }, pa)
    else pure (out, endPos, st.prevAttrs)
  else pure (st.out, st.prevPos, st.prevAttrs)

/-- returns `(bytes, (prev_pos, prev_attrs))` -/
def writeContentsDiff (r prev : Row) (start width row : Nat) (wrapping prevWrapping : Bool)
    (prevPos : Pos) (prevAttrs : Attrs) : M (List Nat × Pos × Attrs) := do
  let st0 ← diffStart r prev start row wrapping prevWrapping prevPos prevAttrs
  let st ← (window (r.cells.zip prev.cells) start width).foldlM (diffStep r.cols row wrapping) st0
  diffEnd r prev row (fmtFinish r.cols row wrapping st)

end Row
end Vt
