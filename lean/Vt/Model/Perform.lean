/-
  Vt.Model.Perform — src/perform.rs (`impl vte::Perform for WrappedScreen`),
  src/callbacks.rs, src/parser.rs, and the callback-taking halves of
  `Screen::{sgr, decset, decrst, ed, el}`.

  A `Callbacks` object is modelled by (a) the log of calls it received
  (`WS.events`) and (b) a policy `cb : Event → Screen → M Screen` for what the
  callback does to the `&mut Screen` it is handed.
-/
import Vt.Model.Screen
import Vt.Model.Vte
namespace Vt

inductive Event where
  | audibleBell
  | visualBell
  | resize (rows cols : Nat)
  | setWindowIconName (s : List Nat)
  | setWindowTitle (s : List Nat)
  | unhandledChar (c : Nat)
  | unhandledControl (b : Nat)
  | unhandledEscape (i1 i2 : Option Nat) (b : Nat)
  | unhandledCsi (i1 i2 : Option Nat) (params : List (List Nat)) (c : Nat)
  | unhandledOsc (params : List (List Nat))
  deriving Repr, DecidableEq, Inhabited

abbrev CbPolicy := Event → Screen → M Screen

/-- `impl Callbacks for ()` and every callback that leaves the screen alone -/
def cbNone : CbPolicy := fun _ s => pure s

/-- a `Callbacks` whose `resize` calls `screen.set_size(rows, cols)` -/
def cbResize : CbPolicy := fun e s =>
  match e with
  | .resize r c => if r ≥ 1 && c ≥ 1 then s.setSize r c else pure s
  | _ => pure s

/-- a `Callbacks` that LOOKS at the `&mut Screen` it is handed: `resize` as `cbResize`; every other
callback sets the width to a value computed from the cursor position and width it sees (the rows are
kept).  Used by the correspondence check: a callback invoked at the wrong moment relative to the state
changes around it leaves a different size behind. -/
def cbProbe : CbPolicy := fun e s =>
  match e with
  | .resize r c => if r ≥ 1 && c ≥ 1 then s.setSize r c else pure s
  | _ => s.setSize s.size.rows (1 + (s.cur.pos.row + s.cur.pos.col + s.size.cols) % 9)

/-- `WrappedScreen` -/
structure WS where
  screen : Screen
  events : List Event
  deriving Repr, DecidableEq, Inhabited

def emit (cb : CbPolicy) (e : Event) (ws : WS) : M WS := do
  let s ← cb e ws.screen
  pure { screen := s, events := ws.events ++ [e] }

@[inline] def WS.onScreen (ws : WS) (f : Screen → M Screen) : M WS := do
  let s ← f ws.screen
  pure { ws with screen := s }

/-! ### `sgr` -/

def u16ToU8 (n : Nat) : Option Nat := if n > 255 then none else some n

@[inline] def WS.setFg (ws : WS) (c : Color) : WS :=
  { ws with screen := { ws.screen with attrs := { ws.screen.attrs with fg := c } } }
@[inline] def WS.setBg (ws : WS) (c : Color) : WS :=
  { ws with screen := { ws.screen with attrs := { ws.screen.attrs with bg := c } } }
@[inline] def WS.modAttrs (ws : WS) (f : Attrs → Attrs) : WS :=
  { ws with screen := { ws.screen with attrs := f ws.screen.attrs } }

/-- the `loop { match next_param!() { … } }` of `Screen::sgr`; `return` = stop. -/
def sgrLoop (unh : WS → M WS) : List (List Nat) → WS → M WS
  | [], ws => pure ws
  | p :: rest, ws =>
    match p with
    | [0] => sgrLoop unh rest (ws.modAttrs (fun _ => Attrs.default))
    | [1] => sgrLoop unh rest (ws.modAttrs (fun a => { a with intensity := .bold }))
    | [2] => sgrLoop unh rest (ws.modAttrs (fun a => { a with intensity := .dim }))
    | [3] => sgrLoop unh rest (ws.modAttrs (fun a => { a with italic := true }))
    | [4] => sgrLoop unh rest (ws.modAttrs (fun a => { a with underline := true }))
    | [7] => sgrLoop unh rest (ws.modAttrs (fun a => { a with inverse := true }))
    | [22] => sgrLoop unh rest (ws.modAttrs (fun a => { a with intensity := .normal }))
    | [23] => sgrLoop unh rest (ws.modAttrs (fun a => { a with italic := false }))
    | [24] => sgrLoop unh rest (ws.modAttrs (fun a => { a with underline := false }))
    | [27] => sgrLoop unh rest (ws.modAttrs (fun a => { a with inverse := false }))
    | [38, 2, r, g, b] =>
      if r ≤ 255 && g ≤ 255 && b ≤ 255 then sgrLoop unh rest (ws.setFg (.rgb r g b)) else pure ws
    | [38, 5, i] => if i ≤ 255 then sgrLoop unh rest (ws.setFg (.idx i)) else pure ws
    | [38] =>
      (match rest with
      | [] => pure ws
      | [2] :: rest2 =>
        (match rest2 with
        | [r] :: [g] :: [b] :: rest3 =>
          if r ≤ 255 && g ≤ 255 && b ≤ 255 then sgrLoop unh rest3 (ws.setFg (.rgb r g b)) else pure ws
        | _ => pure ws)
      | [5] :: rest2 =>
        (match rest2 with
        | [i] :: rest3 => if i ≤ 255 then sgrLoop unh rest3 (ws.setFg (.idx i)) else pure ws
        | _ => pure ws)
      | _ :: _ => unh ws)
    | [39] => sgrLoop unh rest (ws.setFg .default)
    | [48, 2, r, g, b] =>
      if r ≤ 255 && g ≤ 255 && b ≤ 255 then sgrLoop unh rest (ws.setBg (.rgb r g b)) else pure ws
    | [48, 5, i] => if i ≤ 255 then sgrLoop unh rest (ws.setBg (.idx i)) else pure ws
    | [48] =>
      (match rest with
      | [] => pure ws
      | [2] :: rest2 =>
        (match rest2 with
        | [r] :: [g] :: [b] :: rest3 =>
          if r ≤ 255 && g ≤ 255 && b ≤ 255 then sgrLoop unh rest3 (ws.setBg (.rgb r g b)) else pure ws
        | _ => pure ws)
      | [5] :: rest2 =>
        (match rest2 with
        | [i] :: rest3 => if i ≤ 255 then sgrLoop unh rest3 (ws.setBg (.idx i)) else pure ws
        | _ => pure ws)
      | _ :: _ => unh ws)
    | [49] => sgrLoop unh rest (ws.setBg .default)
    | [n] =>
      if 30 ≤ n && n ≤ 37 then sgrLoop unh rest (ws.setFg (.idx (n - 30)))
      else if 40 ≤ n && n ≤ 47 then sgrLoop unh rest (ws.setBg (.idx (n - 40)))
      else if 90 ≤ n && n ≤ 97 then sgrLoop unh rest (ws.setFg (.idx (n - 82)))
      else if 100 ≤ n && n ≤ 107 then sgrLoop unh rest (ws.setBg (.idx (n - 92)))
      else do
        let ws ← unh ws
        sgrLoop unh rest ws
    | _ => do
      let ws ← unh ws
      sgrLoop unh rest ws
termination_by ps => ps.length

def sgr (unh : WS → M WS) (params : List (List Nat)) (ws : WS) : M WS :=
  if params.isEmpty then pure (ws.modAttrs (fun _ => Attrs.default)) else sgrLoop unh params ws

/-! ### `decset` / `decrst` / `ed` / `el` -/

def decset (unh : WS → M WS) (params : List (List Nat)) (ws : WS) : M WS :=
  params.foldlM (fun ws p => do
    match ← ws.screen.decsetOne p with
    | some s => pure { ws with screen := s }
    | none => unh ws) ws

def decrst (unh : WS → M WS) (params : List (List Nat)) (ws : WS) : M WS :=
  params.foldlM (fun ws p => do
    match ← ws.screen.decrstOne p with
    | some s => pure { ws with screen := s }
    | none => unh ws) ws

def ed (unh : WS → M WS) (mode : Nat) (ws : WS) : M WS := do
  match ← ws.screen.edMode mode with
  | some s => pure { ws with screen := s }
  | none => unh ws

def el (unh : WS → M WS) (mode : Nat) (ws : WS) : M WS := do
  match ← ws.screen.elMode mode with
  | some s => pure { ws with screen := s }
  | none => unh ws

/-! ### canonicalize_params_* -/

/-- `params.iter().next().map_or(0, |x| *x.first().unwrap_or(&0))` on what is left -/
def firstOr0 (params : List (List Nat)) : Nat :=
  match params with
  | [] => 0
  | p :: _ => p.headD 0

def canon1 (params : List (List Nat)) (dflt : Nat) : Nat :=
  let f := firstOr0 params
  if f == 0 then dflt else f

def canon2 (params : List (List Nat)) (d1 d2 : Nat) : Nat × Nat :=
  let f := firstOr0 params
  let s := firstOr0 params.tail
  (if f == 0 then d1 else f, if s == 0 then d2 else s)

/-- `params_iter.next().and_then(|x| x.first().copied())` -/
def xtOp (params : List (List Nat)) : Option Nat :=
  match params with
  | [] => none
  | p :: _ => p.head?

/-- `params_iter.next().map_or(dflt, |x| *x.first().unwrap_or(&dflt))` on what is left -/
def xtArg (params : List (List Nat)) (dflt : Nat) : Nat :=
  match params with
  | [] => dflt
  | p :: _ => p.headD dflt

/-! ### the `Perform` methods -/

def performExecute (cb : CbPolicy) (ws : WS) (b : Nat) : M WS :=
  match b with
  | 7 => emit cb .audibleBell ws
  | 8 => ws.onScreen Screen.bs
  | 9 => ws.onScreen Screen.tab
  | 10 => ws.onScreen Screen.lf
  | 11 => ws.onScreen Screen.lf
  | 12 => ws.onScreen Screen.lf
  | 13 => ws.onScreen Screen.cr
  | 14 => pure ws
  | 15 => pure ws
  | _ => emit cb (.unhandledControl b) ws

def performPrint (W : Nat → Option Nat) (cb : CbPolicy) (ws : WS) (c : Nat) : M WS :=
  if 0x80 ≤ c && c < 0xA0 then performExecute cb ws c
  else if c == 0xFFFD then emit cb (.unhandledChar c) ws
  else ws.onScreen (fun s => s.text W c)

def performEsc (cb : CbPolicy) (ws : WS) (ints : List Nat) (b : Nat) : M WS :=
  match ints with
  | i :: rest => emit cb (.unhandledEscape (some i) rest.head? b) ws
  | [] =>
    match b with
    | 55 => ws.onScreen Screen.decsc           -- '7'
    | 56 => ws.onScreen Screen.decrc           -- '8'
    | 61 => pure { ws with screen := ws.screen.deckpam }   -- '='
    | 62 => pure { ws with screen := ws.screen.deckpnm }   -- '>'
    | 77 => ws.onScreen Screen.ri              -- 'M'
    | 99 => ws.onScreen Screen.ris             -- 'c'
    | 103 => emit cb .visualBell ws            -- 'g'
    | _ => emit cb (.unhandledEscape none none b) ws

def performCsi (cb : CbPolicy) (ws : WS) (params : List (List Nat)) (ints : List Nat) (c : Nat) :
    M WS :=
  let unhandled : WS → M WS := emit cb (.unhandledCsi ints.head? ints.tail.head? params c)
  match ints with
  | [] =>
    match c with
    | 64 => ws.onScreen (fun s => s.ich (canon1 params 1))     -- '@'
    | 65 => ws.onScreen (fun s => s.cuu (canon1 params 1))     -- 'A'
    | 66 => ws.onScreen (fun s => s.cud (canon1 params 1))     -- 'B'
    | 67 => ws.onScreen (fun s => s.cuf (canon1 params 1))     -- 'C'
    | 68 => ws.onScreen (fun s => s.cub (canon1 params 1))     -- 'D'
    | 69 => ws.onScreen (fun s => s.cnl (canon1 params 1))     -- 'E'
    | 70 => ws.onScreen (fun s => s.cpl (canon1 params 1))     -- 'F'
    | 71 => ws.onScreen (fun s => s.cha (canon1 params 1))     -- 'G'
    | 72 => ws.onScreen (fun s =>                              -- 'H'
        let (r, c) := canon2 params 1 1
        s.cup r c)
    | 74 => ed unhandled (canon1 params 0) ws                  -- 'J'
    | 75 => el unhandled (canon1 params 0) ws                  -- 'K'
    | 76 => ws.onScreen (fun s => s.il (canon1 params 1))      -- 'L'
    | 77 => ws.onScreen (fun s => s.dl (canon1 params 1))      -- 'M'
    | 80 => ws.onScreen (fun s => s.dch (canon1 params 1))     -- 'P'
    | 83 => ws.onScreen (fun s => s.su (canon1 params 1))      -- 'S'
    | 84 => ws.onScreen (fun s => s.sd (canon1 params 1))      -- 'T'
    | 88 => ws.onScreen (fun s => s.ech (canon1 params 1))     -- 'X'
    | 100 => ws.onScreen (fun s => s.vpa (canon1 params 1))    -- 'd'
    | 109 => sgr unhandled params ws                           -- 'm'
    | 114 => ws.onScreen (fun s =>                             -- 'r'
        let (t, b) := canon2 params 1 s.cur.size.rows
        s.decstbm t b)
    | 116 =>                                                   -- 't'
      if xtOp params == some 8 then
        let sz := ws.screen.size
        emit cb (.resize (xtArg params.tail sz.rows) (xtArg params.tail.tail sz.cols)) ws
      else emit cb (.unhandledCsi none none params c) ws
    | _ => emit cb (.unhandledCsi none none params c) ws
  | 63 :: rest =>                                              -- '?'
    match c with
    | 74 => ed unhandled (canon1 params 0) ws
    | 75 => el unhandled (canon1 params 0) ws
    | 104 => decset unhandled params ws                        -- 'h'
    | 108 => decrst unhandled params ws                        -- 'l'
    | _ => emit cb (.unhandledCsi (some 63) rest.head? params c) ws
  | i :: rest => emit cb (.unhandledCsi (some i) rest.head? params c) ws

def performOsc (cb : CbPolicy) (ws : WS) (params : List (List Nat)) : M WS :=
  match params with
  | [[48], s] => do
    let ws ← emit cb (.setWindowIconName s) ws
    emit cb (.setWindowTitle s) ws
  | [[49], s] => emit cb (.setWindowIconName s) ws
  | [[50], s] => emit cb (.setWindowTitle s) ws
  | _ => emit cb (.unhandledOsc params) ws

def perform (W : Nat → Option Nat) (cb : CbPolicy) (ws : WS) (a : Action) : M WS :=
  match a with
  | .print c => performPrint W cb ws c
  | .execute b => performExecute cb ws b
  | .hook _ _ _ _ => pure ws
  | .put _ => pure ws
  | .unhook => pure ws
  | .oscDispatch params _ => performOsc cb ws params
  | .csiDispatch params ints _ c => performCsi cb ws params ints c
  | .escDispatch ints _ b => performEsc cb ws ints b

/-! ### `Parser` -/

structure Parser where
  vte : Vte
  ws : WS
  deriving Repr, DecidableEq, Inhabited

namespace Parser

def new (rows cols scrollbackLen : Nat) : M Parser := do
  let s ← Screen.new ⟨rows, cols⟩ scrollbackLen
  pure { vte := Vte.new, ws := { screen := s, events := [] } }

/-- `Parser::process` = `vte::Parser::advance(&mut self.screen, bytes)`.
vt100 never overrides `Perform::terminated`, so the actions of a chunk do not
depend on the screen: `process = foldM perform ∘ Vte.advance`. -/
def process (W : Nat → Option Nat) (cb : CbPolicy) (p : Parser) (bytes : List Nat) : M Parser := do
  let (v, acts) := p.vte.advance bytes
  let ws ← acts.foldlM (perform W cb) p.ws
  pure { vte := v, ws := ws }

/-- `impl io::Write`: `write` = `process`, returns `buf.len()`; `flush` = no-op -/
def write (W : Nat → Option Nat) (cb : CbPolicy) (p : Parser) (bytes : List Nat) : M (Parser × Nat) := do
  let p ← p.process W cb bytes
  pure (p, bytes.length)

def flush (p : Parser) : M Parser := pure p

/-- `io::Write::write_all` — a PROVIDED method of the trait, which the crate does not override:
`while !buf.is_empty() { match self.write(buf) { Ok(0) => return Err(WriteZero), Ok(n) => buf = &buf[n..], … } }`.
The loop is modelled as it is written (fuel = length + 1; `Ok(0)` ends it — an `io::Error`, not a panic); that it makes
exactly one call is a THEOREM (`C04.writeAll_eq_process`), from the fact that `write` reports the whole buffer. -/
def writeAllLoop (W : Nat → Option Nat) (cb : CbPolicy) : Nat → Parser → List Nat → M Parser
  | 0, p, _ => pure p
  | fuel + 1, p, buf =>
    if buf.isEmpty then pure p else do
      let (p', n) ← p.write W cb buf
      if n == 0 then pure p' else writeAllLoop W cb fuel p' (buf.drop n)

def writeAll (W : Nat → Option Nat) (cb : CbPolicy) (p : Parser) (bytes : List Nat) : M Parser :=
  writeAllLoop W cb (bytes.length + 1) p bytes

/-- `io::Write::write_vectored` — also provided, not overridden: `write` of the first non-empty slice
(of an empty buffer when all are empty); returns how many bytes were taken -/
def writeVectored (W : Nat → Option Nat) (cb : CbPolicy) (p : Parser) (slices : List (List Nat)) :
    M (Parser × Nat) :=
  p.write W cb ((slices.find? (fun s => !s.isEmpty)).getD [])

/-- drop `n` bytes from the front of a list of slices (what `IoSlice::advance_slices` does) -/
def advanceSlices : List (List Nat) → Nat → List (List Nat)
  | [], _ => []
  | s :: rest, n => if n < s.length then (s.drop n) :: rest else advanceSlices rest (n - s.length)

/-- a caller that offers what has not been taken yet to `write_vectored` until everything is taken (the
harness's `WV` op; `write_all_vectored` in std): fuel = total length + 1; a call that takes nothing ends it -/
def writeVectoredAllLoop (W : Nat → Option Nat) (cb : CbPolicy) : Nat → Parser → List (List Nat) → M Parser
  | 0, p, _ => pure p
  | fuel + 1, p, slices =>
    if slices.all (fun s => s.isEmpty) then pure p else do
      let (p', n) ← p.writeVectored W cb slices
      if n == 0 then pure p' else writeVectoredAllLoop W cb fuel p' (advanceSlices slices n)

def writeVectoredAll (W : Nat → Option Nat) (cb : CbPolicy) (p : Parser) (slices : List (List Nat)) : M Parser :=
  writeVectoredAllLoop W cb ((slices.map List.length).sum + 1) p slices

def screen (p : Parser) : Screen := p.ws.screen

end Parser
end Vt
