/-
  Vt.Model.Utf8 — `char::encode_utf8` and the contract of `core::str::from_utf8`
  (`valid_up_to`, `error_len`) as list functions over bytes (`Nat < 256`).
  Follows `core::str::validations::run_utf8_validation` branch by branch.
-/
import Vt.Model.Prim
namespace Vt.Utf8

/-- `char::encode_utf8` (for scalar values) -/
def encode (c : Nat) : List Nat :=
  if c < 0x80 then [c]
  else if c < 0x800 then [0xC0 + c / 64, 0x80 + c % 64]
  else if c < 0x10000 then [0xE0 + c / 4096, 0x80 + (c / 64) % 64, 0x80 + c % 64]
  else [0xF0 + c / 262144, 0x80 + (c / 4096) % 64, 0x80 + (c / 64) % 64, 0x80 + c % 64]

/-- `char::len_utf8` -/
def lenUtf8 (c : Nat) : Nat :=
  if c < 0x80 then 1 else if c < 0x800 then 2 else if c < 0x10000 then 3 else 4

@[inline] def isCont (b : Nat) : Bool := 0x80 ≤ b && b ≤ 0xBF

/-- second byte admissible after lead `b0` of a 3-byte sequence -/
def ok3 (b0 b1 : Nat) : Bool :=
  (b0 == 0xE0 && 0xA0 ≤ b1 && b1 ≤ 0xBF) ||
  (0xE1 ≤ b0 && b0 ≤ 0xEC && 0x80 ≤ b1 && b1 ≤ 0xBF) ||
  (b0 == 0xED && 0x80 ≤ b1 && b1 ≤ 0x9F) ||
  (0xEE ≤ b0 && b0 ≤ 0xEF && 0x80 ≤ b1 && b1 ≤ 0xBF)

/-- second byte admissible after lead `b0` of a 4-byte sequence -/
def ok4 (b0 b1 : Nat) : Bool :=
  (b0 == 0xF0 && 0x90 ≤ b1 && b1 ≤ 0xBF) ||
  (0xF1 ≤ b0 && b0 ≤ 0xF3 && 0x80 ≤ b1 && b1 ≤ 0xBF) ||
  (b0 == 0xF4 && 0x80 ≤ b1 && b1 ≤ 0x8F)

/-- result of `str::from_utf8`: the characters of the valid prefix, its byte
length, and the error (`none` = Ok; `some none` = unexpected end of input,
i.e. `error_len() == None`; `some (some n)` = invalid sequence of `n` bytes). -/
structure Res where
  chars : List Nat
  validUpTo : Nat
  err : Option (Option Nat)
  deriving Repr, DecidableEq

@[inline] def Res.cons (c n : Nat) (r : Res) : Res :=
  { chars := c :: r.chars, validUpTo := n + r.validUpTo, err := r.err }

@[inline] def Res.stop (e : Option Nat) : Res := { chars := [], validUpTo := 0, err := some e }

def fromUtf8 : List Nat → Res
  | [] => { chars := [], validUpTo := 0, err := none }
  | b0 :: rest =>
    if b0 < 0x80 then (fromUtf8 rest).cons b0 1
    else if 0xC2 ≤ b0 && b0 ≤ 0xDF then
      match rest with
      | [] => Res.stop none
      | b1 :: rest1 =>
        if isCont b1 then (fromUtf8 rest1).cons ((b0 - 0xC0) * 64 + (b1 - 0x80)) 2
        else Res.stop (some 1)
    else if 0xE0 ≤ b0 && b0 ≤ 0xEF then
      match rest with
      | [] => Res.stop none
      | b1 :: rest1 =>
        if ok3 b0 b1 then
          match rest1 with
          | [] => Res.stop none
          | b2 :: rest2 =>
            if isCont b2 then
              (fromUtf8 rest2).cons ((b0 - 0xE0) * 4096 + (b1 - 0x80) * 64 + (b2 - 0x80)) 3
            else Res.stop (some 2)
        else Res.stop (some 1)
    else if 0xF0 ≤ b0 && b0 ≤ 0xF4 then
      match rest with
      | [] => Res.stop none
      | b1 :: rest1 =>
        if ok4 b0 b1 then
          match rest1 with
          | [] => Res.stop none
          | b2 :: rest2 =>
            if isCont b2 then
              match rest2 with
              | [] => Res.stop none
              | b3 :: rest3 =>
                if isCont b3 then
                  (fromUtf8 rest3).cons
                    ((b0 - 0xF0) * 262144 + (b1 - 0x80) * 4096 + (b2 - 0x80) * 64 + (b3 - 0x80)) 4
                else Res.stop (some 3)
            else Res.stop (some 2)
        else Res.stop (some 1)
    else Res.stop (some 1)

/-- `str::from_utf8(bs).is_ok()` -/
def valid (bs : List Nat) : Bool := (fromUtf8 bs).err.isNone

end Vt.Utf8
