/-
  Vt.Model.Grid — src/grid.rs, function by function.
-/
import Vt.Model.Row
namespace Vt

structure Grid where
  size : Size
  pos : Pos
  savedPos : Pos
  rows : List Row
  scrollTop : Nat
  scrollBottom : Nat
  originMode : Bool
  savedOriginMode : Bool
  scrollback : List Row        -- front = oldest (VecDeque front)
  scrollbackLen : Nat
  scrollbackOffset : Nat
  deriving Repr, DecidableEq, Inhabited

namespace Grid

def new (size : Size) (scrollbackLen : Nat) : M Grid := do
  let b ← subM 401 size.rows 1
  pure { size := size, pos := ⟨0, 0⟩, savedPos := ⟨0, 0⟩, rows := [], scrollTop := 0,
         scrollBottom := b, originMode := false, savedOriginMode := false,
         scrollback := [], scrollbackLen := scrollbackLen, scrollbackOffset := 0 }

def allocateRows (g : Grid) : Grid :=
  if g.rows.isEmpty then { g with rows := List.replicate g.size.rows (Row.new g.size.cols) } else g

def newRow (g : Grid) : Row := Row.new g.size.cols

def clear (g : Grid) : M Grid := do
  let b ← subM 402 g.size.rows 1
  pure { g with pos := ⟨0, 0⟩, savedPos := ⟨0, 0⟩,
                rows := g.rows.map (fun r => r.clear Attrs.default),
                scrollTop := 0, scrollBottom := b, originMode := false, savedOriginMode := false }

/-! clamps -/

def rowClampTop (g : Grid) (limit : Bool) : Grid × Nat :=
  if limit && g.pos.row < g.scrollTop then
    ({ g with pos := { g.pos with row := g.scrollTop } }, g.scrollTop - g.pos.row)
  else (g, 0)

def rowClampBottom (g : Grid) (limit : Bool) : M (Grid × Nat) := do
  let bottom ← if limit then pure g.scrollBottom else subM 403 g.size.rows 1
  if g.pos.row > bottom then
    pure ({ g with pos := { g.pos with row := bottom } }, g.pos.row - bottom)
  else pure (g, 0)

def rowClamp (g : Grid) : M Grid := do
  let b ← subM 404 g.size.rows 1
  pure (if g.pos.row > b then { g with pos := { g.pos with row := b } } else g)

def colClamp (g : Grid) : M Grid := do
  let b ← subM 405 g.size.cols 1
  pure (if g.pos.col > b then { g with pos := { g.pos with col := b } } else g)

def setSize (g : Grid) (size : Size) : M Grid := do
  let rows0 := if size.cols != g.size.cols then g.rows.map (fun r => r.wrap false) else g.rows
  let oldB ← subM 406 g.size.rows 1
  let sb1 ← if g.scrollBottom == oldB then subM 407 size.rows 1 else pure g.scrollBottom
  let rows1 := rows0.map (fun (r : Row) => r.resize size.cols Cell.new)
  let rows2 := resizeList rows1 size.rows (Row.new size.cols)
  let sb2 ← if sb1 ≥ size.rows then subM 408 size.rows 1 else pure sb1
  let top := if sb2 < g.scrollTop then 0 else g.scrollTop
  let g := { g with size := size, rows := rows2, scrollBottom := sb2, scrollTop := top }
  let (g, _) := g.rowClampTop false
  let (g, _) ← g.rowClampBottom false
  let g ← g.colClamp
  let r1 ← subM 4091 size.rows 1
  let c1 ← subM 4092 size.cols 1
  pure { g with savedPos := ⟨min g.savedPos.row r1, min g.savedPos.col c1⟩ }

def setPos (g : Grid) (pos : Pos) : M Grid := do
  let pos := if g.originMode then { pos with row := satAddU16 pos.row g.scrollTop } else pos
  let g := { g with pos := pos }
  let (g, _) := g.rowClampTop g.originMode
  let (g, _) ← g.rowClampBottom g.originMode
  g.colClamp

def saveCursor (g : Grid) : Grid := { g with savedPos := g.pos, savedOriginMode := g.originMode }
def restoreCursor (g : Grid) : Grid := { g with pos := g.savedPos, originMode := g.savedOriginMode }

def visibleRows (g : Grid) : M (List Row) := do
  let sbLen := g.scrollback.length
  let rowsLen := g.rows.length
  let sk ← subM 409 sbLen g.scrollbackOffset
  pure (((g.scrollback.drop sk).take rowsLen) ++ g.rows.take (rowsLen - g.scrollbackOffset))

def visibleRow (g : Grid) (row : Nat) : M (Option Row) := do
  let rs ← g.visibleRows
  pure rs[row]?

def drawingRow (g : Grid) (row : Nat) : Option Row := g.rows[row]?

def visibleCell (g : Grid) (pos : Pos) : M (Option Cell) := do
  let r ← g.visibleRow pos.row
  pure (r.bind (fun r => r.get pos.col))

def drawingCell (g : Grid) (pos : Pos) : Option Cell :=
  (g.drawingRow pos.row).bind (fun r => r.get pos.col)

/-- `drawing_cell(pos).unwrap()` -/
def drawingCellM (site : Nat) (g : Grid) (pos : Pos) : M Cell :=
  match g.drawingCell pos with
  | some c => pure c
  | none => panic site

/-- `*drawing_cell_mut(pos).unwrap() = f(..)` -/
def modifyCellM (site : Nat) (g : Grid) (pos : Pos) (f : Cell → M Cell) : M Grid := do
  let rows ← modifyM site g.rows pos.row (fun r => do
    let cs ← modifyM site r.cells pos.col f
    pure { r with cells := cs })
  pure { g with rows := rows }

/-- `f(current_row_mut())` -/
def modifyCurrentRow (g : Grid) (f : Row → M Row) : M Grid := do
  let rows ← modifyM 410 g.rows g.pos.row f
  pure { g with rows := rows }

def setScrollback (g : Grid) (rows : Nat) : Grid :=
  { g with scrollbackOffset := min rows g.scrollback.length }

/-! plain text -/

def stripTrailingNewlines (l : List Nat) : List Nat :=
  (l.reverse.dropWhile (· == 10)).reverse

def writeContentsLoop (cols : Nat) : List Row → Bool → List Nat → M (List Nat)
  | [], _, out => pure out
  | r :: rs, wrapping, out => do
    let bs ← r.writeContents 0 cols wrapping
    let out := out ++ bs ++ (if !r.wrapped then [10] else [])
    writeContentsLoop cols rs r.wrapped out

def writeContents (g : Grid) : M (List Nat) := do
  let rs ← g.visibleRows
  let out ← writeContentsLoop g.size.cols rs false []
  pure (stripTrailingNewlines out)

/-! cursor position emitter -/

/-- last-column cell position of `row`, stepping left over a continuation cell -/
def endOfRowPos (g : Grid) (row : Nat) : M Pos := do
  let c1 ← subM 411 g.size.cols 1
  let c ← g.drawingCellM 412 ⟨row, c1⟩
  if c.isWideContinuation then do
    let c2 ← subM 413 g.size.cols 2
    pure ⟨row, c2⟩
  else pure ⟨row, c1⟩

def moveOpt (prevPos : Option Pos) (pos : Pos) : List Nat :=
  match prevPos with
  | some p => Term.moveFromTo p pos
  | none => Term.moveTo pos

/-- the search `for i in (0..self.pos.row).rev()` of write_cursor_position_formatted;
`is` is the list of candidate rows in visiting order. Returns the bytes when found. -/
def cursorSearch (g : Grid) (prevPos : Option Pos) (prevAttrs : Attrs) :
    List Nat → M (Option (List Nat))
  | [] => pure none
  | i :: is => do
    let pos ← g.endOfRowPos i
    let cell ← g.drawingCellM 414 pos
    if cell.hasContents then do
      let redraw : M (List Nat) := do
        let bs ← cell.contentsBytes
        pure (cell.attrs.writeEscapeCodeDiff prevAttrs ++ bs ++ prevAttrs.writeEscapeCodeDiff cell.attrs)
      let out ←
        match prevPos with
        | some pp =>
          if pp.row != i || pp.col < g.size.cols then do
            let rd ← redraw
            pure (Term.moveFromTo pp pos ++ rd)
          else pure []
        | none => do
          let rd ← redraw
          pure (Term.moveTo pos ++ rd)
      pure (some (out ++ List.replicate (g.pos.row - i) 10))
    else cursorSearch g prevPos prevAttrs is

def writeCursorPositionFormatted (g : Grid) (prevPos : Option Pos) (prevAttrs : Option Attrs) :
    M (List Nat) := do
  let prevAttrs := prevAttrs.getD Attrs.default
  if prevPos != some g.pos && g.pos.col ≥ g.size.cols then do
    let pos ← g.endOfRowPos g.pos.row
    let cell ← g.drawingCellM 415 pos
    if cell.hasContents then do
      let bs ← cell.contentsBytes
      pure (moveOpt prevPos pos ++ cell.attrs.writeEscapeCodeDiff prevAttrs ++ bs
            ++ prevAttrs.writeEscapeCodeDiff cell.attrs)
    else do
      let found ← g.cursorSearch prevPos prevAttrs (List.range g.pos.row).reverse
      match found with
      | some out => pure out
      | none => do
        let c1 ← subM 416 g.size.cols 1
        let pos : Pos := ⟨g.pos.row, c1⟩
        let endCell ← g.drawingCellM 417 pos
        pure (moveOpt prevPos pos ++ [32] ++ endCell.attrs.writeEscapeCodeDiff prevAttrs
              ++ Term.saveCursor ++ Term.backspace ++ Term.eraseChar 1 ++ Term.restoreCursor
              ++ prevAttrs.writeEscapeCodeDiff endCell.attrs)
  else pure (moveOpt prevPos g.pos)

/-! formatted / diff emitters -/

def fmtRowsLoop (cols : Nat) : List Row → Nat → Bool → Pos → Attrs → List Nat →
    M (List Nat × Pos × Attrs)
  | [], _, _, pp, pa, out => pure (out, pp, pa)
  | r :: rs, i, wrapping, pp, pa, out => do
    let (bs, np, na) ← r.writeContentsFormatted 0 cols i wrapping (some pp) (some pa)
    fmtRowsLoop cols rs (i + 1) r.wrapped np na (out ++ bs)

/-- returns `(bytes, prev_attrs)` -/
def writeContentsFormatted (g : Grid) : M (List Nat × Attrs) := do
  let rs ← g.visibleRows
  let (out, pp, pa) ← fmtRowsLoop g.size.cols rs 0 false ⟨0, 0⟩ Attrs.default
    (Term.clearAttrs ++ Term.clearScreen)
  let cur ← g.writeCursorPositionFormatted (some pp) (some pa)
  pure (out ++ cur, pa)

def diffRowsLoop (cols : Nat) : List (Row × Row) → Nat → Bool → Bool → Pos → Attrs → List Nat →
    M (List Nat × Pos × Attrs)
  | [], _, _, _, pp, pa, out => pure (out, pp, pa)
  | (r, pr) :: rs, i, wrapping, prevWrapping, pp, pa, out => do
    let (bs, np, na) ← r.writeContentsDiff pr 0 cols i wrapping prevWrapping pp pa
    diffRowsLoop cols rs (i + 1) r.wrapped pr.wrapped np na (out ++ bs)

def writeContentsDiff (g prev : Grid) (prevAttrs : Attrs) : M (List Nat × Attrs) := do
  let rs ← g.visibleRows
  let prs ← prev.visibleRows
  let (out, pp, pa) ← diffRowsLoop g.size.cols (rs.zip prs) 0 false false prev.pos prevAttrs []
  let cur ← g.writeCursorPositionFormatted (some pp) (some pa)
  pure (out ++ cur, pa)

/-! erase -/

def eraseAll (g : Grid) (attrs : Attrs) : Grid :=
  { g with rows := g.rows.map (fun r => r.clear attrs) }

def eraseRowForward (g : Grid) (attrs : Attrs) : M Grid :=
  g.modifyCurrentRow (fun row => forRange g.pos.col g.size.cols (fun col r => r.erase col attrs) row)

def eraseRowBackward (g : Grid) (attrs : Attrs) : M Grid := do
  let c1 ← subM 420 g.size.cols 1
  g.modifyCurrentRow (fun row =>
    forRange 0 (min g.pos.col c1 + 1) (fun col r => r.erase col attrs) row)

def eraseAllForward (g : Grid) (attrs : Attrs) : M Grid := do
  let n := g.pos.row + 1
  let g := { g with rows := g.rows.take n ++ (g.rows.drop n).map (fun (r : Row) => r.clear attrs) }
  g.eraseRowForward attrs

def eraseAllBackward (g : Grid) (attrs : Attrs) : M Grid := do
  let n := g.pos.row
  let g := { g with rows := (g.rows.take n).map (fun (r : Row) => r.clear attrs) ++ g.rows.drop n }
  g.eraseRowBackward attrs

def eraseRow (g : Grid) (attrs : Attrs) : M Grid :=
  g.modifyCurrentRow (fun r => pure (r.clear attrs))

/-- one iteration of the loop of `insert_cells`: `wide` = the cursor is on a continuation cell,
whose flag is handed over to the inserted blank -/
def insertStep (wide : Bool) (col : Nat) (row : Row) : M Row := do
  let row ← if wide then do
      let cs ← modifyM 422 row.cells col (fun c => pure (c.setWideContinuation false))
      pure { row with cells := cs }
    else pure row
  let row ← row.insert col Cell.new
  if wide then do
    let cs ← modifyM 423 row.cells col (fun c => pure (c.setWideContinuation true))
    pure { row with cells := cs }
  else pure row

def insertCells (g : Grid) (count : Nat) : M Grid := do
  let size := g.size
  let pos := g.pos
  let wide ← if pos.col < size.cols then do
      let c ← g.drawingCellM 421 pos
      pure c.isWideContinuation
    else pure false
  g.modifyCurrentRow (fun row => do
    let row ← iterateM (min count size.cols) (insertStep wide pos.col) row
    row.truncate size.cols)

def deleteCells (g : Grid) (count : Nat) : M Grid := do
  let size := g.size
  let pos := g.pos
  g.modifyCurrentRow (fun row => do
    let d ← subM 424 size.cols pos.col
    let row ← iterateM (min count d) (fun row => row.remove pos.col) row
    pure (row.resize size.cols Cell.new))

def eraseCells (g : Grid) (count : Nat) (attrs : Attrs) : M Grid :=
  g.modifyCurrentRow (fun row =>
    forRange g.pos.col (min (satAddU16 g.pos.col count) g.size.cols)
      (fun col r => r.erase col attrs) row)

def insertLines (g : Grid) (count : Nat) : M Grid :=
  iterateM (min count g.size.rows) (fun g => do
    let (_, rows) ← removeM 430 g.rows g.scrollBottom
    let rows ← insertM 431 rows g.pos.row g.newRow
    let rows ← modifyM 432 rows g.scrollBottom (fun r => pure (r.wrap false))
    pure { g with rows := rows }) g

def deleteLines (g : Grid) (count : Nat) : M Grid := do
  let d ← subM 433 g.size.rows g.pos.row
  iterateM (min count d) (fun g => do
    let rows ← insertM 434 g.rows (g.scrollBottom + 1) g.newRow
    let (_, rows) ← removeM 435 rows g.pos.row
    pure { g with rows := rows }) g

def scrollRegionActive (g : Grid) : M Bool := do
  let b ← subM 436 g.size.rows 1
  pure (g.scrollTop != 0 || g.scrollBottom != b)

def scrollUp (g : Grid) (count : Nat) : M Grid := do
  let d ← subM 437 g.size.rows g.scrollTop
  iterateM (min count d) (fun g => do
    let rows ← insertM 438 g.rows (g.scrollBottom + 1) g.newRow
    let (removed, rows) ← removeM 439 rows g.scrollTop
    let g := { g with rows := rows }
    if g.scrollbackLen > 0 then do
      let active ← g.scrollRegionActive
      if !active then
        let sb := g.scrollback ++ [removed]
        let sb := sb.drop (sb.length - g.scrollbackLen)
        let off := if g.scrollbackOffset > 0 then min sb.length (g.scrollbackOffset + 1)
                   else g.scrollbackOffset
        pure { g with scrollback := sb, scrollbackOffset := off }
      else pure g
    else pure g) g

def scrollDown (g : Grid) (count : Nat) : M Grid :=
  iterateM (min count g.size.rows) (fun g => do
    let (_, rows) ← removeM 440 g.rows g.scrollBottom
    let rows ← insertM 441 rows g.scrollTop g.newRow
    let rows ← modifyM 442 rows g.scrollBottom (fun r => pure (r.wrap false))
    pure { g with rows := rows }) g

def setScrollRegion (g : Grid) (top bottom : Nat) : M Grid := do
  let b ← subM 443 g.size.rows 1
  let bottom := min bottom b
  let g := if top < bottom then { g with scrollTop := top, scrollBottom := bottom }
           else { g with scrollTop := 0, scrollBottom := b }
  pure { g with pos := ⟨g.scrollTop, 0⟩ }

def inScrollRegion (g : Grid) : Bool := g.pos.row ≥ g.scrollTop && g.pos.row ≤ g.scrollBottom

def setOriginMode (g : Grid) (mode : Bool) : M Grid :=
  ({ g with originMode := mode }).setPos ⟨0, 0⟩

def rowIncClamp (g : Grid) (count : Nat) : M Grid := do
  let inr := g.inScrollRegion
  let g := { g with pos := { g.pos with row := satAddU16 g.pos.row count } }
  let (g, _) ← g.rowClampBottom inr
  pure g

/-- returns the grid and the number of lines scrolled -/
def rowIncScroll (g : Grid) (count : Nat) : M (Grid × Nat) := do
  let inr := g.inScrollRegion
  let g := { g with pos := { g.pos with row := satAddU16 g.pos.row count } }
  let (g, lines) ← g.rowClampBottom inr
  if inr then do
    let g ← g.scrollUp lines
    pure (g, lines)
  else pure (g, 0)

def rowDecClamp (g : Grid) (count : Nat) : Grid :=
  let inr := g.inScrollRegion
  let g := { g with pos := { g.pos with row := g.pos.row - count } }
  (g.rowClampTop inr).1

def rowDecScroll (g : Grid) (count : Nat) : M Grid := do
  let inr := g.inScrollRegion
  let extra := if count > g.pos.row then count - g.pos.row else 0
  let g := { g with pos := { g.pos with row := g.pos.row - count } }
  let (g, lines) := g.rowClampTop inr
  g.scrollDown (lines + extra)

def rowSet (g : Grid) (i : Nat) : M Grid := ({ g with pos := { g.pos with row := i } }).rowClamp

def colInc (g : Grid) (count : Nat) : Grid :=
  { g with pos := { g.pos with col := satAddU16 g.pos.col count } }

def colIncClamp (g : Grid) (count : Nat) : M Grid := (g.colInc count).colClamp

def colDec (g : Grid) (count : Nat) : Grid := { g with pos := { g.pos with col := g.pos.col - count } }

def colTab (g : Grid) : M Grid :=
  ({ g with pos := { g.pos with col := g.pos.col - g.pos.col % 8 + 8 } }).colClamp

def colSet (g : Grid) (i : Nat) : M Grid := ({ g with pos := { g.pos with col := i } }).colClamp

def colWrap (g : Grid) (width : Nat) (wrap : Bool) : M Grid := do
  let lim ← subM 450 g.size.cols width
  if g.pos.col > lim then do
    let prevPos := g.pos
    let g := { g with pos := { g.pos with col := 0 } }
    let (g, scrolled) ← g.rowIncScroll 1
    if scrolled > 0 && g.scrollTop == g.scrollBottom then pure g
    else do
      let prevRow ← subM 451 prevPos.row scrolled
      let newPos := g.pos
      let rows ← modifyM 452 g.rows prevRow (fun r => pure (r.wrap (wrap && prevRow + 1 == newPos.row)))
      pure { g with rows := rows }
  else pure g

end Grid
end Vt
