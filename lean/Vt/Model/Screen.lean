/-
  Vt.Model.Screen — src/screen.rs: the state, the public read accessors and
  emitters, and every mutating operation that does not involve a callback
  (`sgr`, `decset`, `decrst`, `ed`, `el` take an `unhandled` closure and live in
  Perform.lean next to the callback plumbing).
-/
import Vt.Model.Grid
namespace Vt

structure Screen where
  grid : Grid
  altGrid : Grid
  attrs : Attrs
  savedAttrs : Attrs
  -- `modes: u8`
  appKeypad : Bool
  appCursor : Bool
  hideCursor : Bool
  altScreen : Bool
  bracketedPaste : Bool
  mouseMode : MouseMode
  mouseEnc : MouseEnc
  deriving Repr, DecidableEq, Inhabited

namespace Screen

def new (size : Size) (scrollbackLen : Nat) : M Screen := do
  let g ← Grid.new size scrollbackLen
  let ag ← Grid.new size 0
  pure { grid := g.allocateRows, altGrid := ag, attrs := Attrs.default, savedAttrs := Attrs.default,
         appKeypad := false, appCursor := false, hideCursor := false, altScreen := false,
         bracketedPaste := false, mouseMode := .none, mouseEnc := .default }

def setSize (s : Screen) (rows cols : Nat) : M Screen := do
  let g ← s.grid.setSize ⟨rows, cols⟩
  let ag ← s.altGrid.setSize ⟨rows, cols⟩
  pure { s with grid := g, altGrid := ag }

/-- `grid()` -/
def cur (s : Screen) : Grid := if s.altScreen then s.altGrid else s.grid

/-- `*grid_mut() = f(grid_mut())` -/
def modifyGrid (s : Screen) (f : Grid → M Grid) : M Screen :=
  if s.altScreen then do
    let g ← f s.altGrid
    pure { s with altGrid := g }
  else do
    let g ← f s.grid
    pure { s with grid := g }

def size (s : Screen) : Size := s.cur.size

def setScrollback (s : Screen) (rows : Nat) : M Screen :=
  s.modifyGrid (fun g => pure (g.setScrollback rows))

def scrollback (s : Screen) : Nat := s.cur.scrollbackOffset

/-! ### plain text -/

def contents (s : Screen) : M (List Nat) := s.cur.writeContents

def rows (s : Screen) (start width : Nat) : M (List (List Nat)) := do
  let rs ← s.cur.visibleRows
  rs.mapM (fun r => r.writeContents start width false)

def contentsBetweenLoop (cols startRow startCol endRow endCol : Nat) :
    List (Nat × Row) → List Nat → M (List Nat)
  | [], out => pure out
  | (i, row) :: rest, out => do
    let out ←
      if i == startRow then do
        let bs ← row.writeContents startCol (cols - startCol) false
        pure (out ++ bs ++ (if !row.wrapped then [10] else []))
      else if i == endRow then do
        let bs ← row.writeContents 0 endCol false
        pure (out ++ bs)
      else do
        let bs ← row.writeContents 0 cols false
        pure (out ++ bs ++ (if !row.wrapped then [10] else []))
    contentsBetweenLoop cols startRow startCol endRow endCol rest out

def contentsBetween (s : Screen) (startRow startCol endRow endCol : Nat) : M (List Nat) :=
  if startRow < endRow then do
    let cols := s.size.cols
    let rs ← s.cur.visibleRows
    contentsBetweenLoop cols startRow startCol endRow endCol
      (Row.window rs startRow (endRow - startRow + 1)) []
  else if startRow == endRow then
    if startCol < endCol then do
      let rs ← s.rows startCol (endCol - startCol)
      pure (rs[startRow]?.getD [])
    else pure []
  else pure []

/-! ### formatted / diff emitters -/

def writeContentsFormatted (s : Screen) : M (List Nat) := do
  let (bs, prevAttrs) ← s.cur.writeContentsFormatted
  pure (Term.hideCursor s.hideCursor ++ bs ++ s.attrs.writeEscapeCodeDiff prevAttrs)

def contentsFormatted (s : Screen) : M (List Nat) := s.writeContentsFormatted

def writeInputModeFormatted (s : Screen) : List Nat :=
  Term.applicationKeypad s.appKeypad ++ Term.applicationCursor s.appCursor
  ++ Term.bracketedPaste s.bracketedPaste
  ++ Term.mouseProtocolMode s.mouseMode .none
  ++ Term.mouseProtocolEncoding s.mouseEnc .default

def inputModeFormatted (s : Screen) : List Nat := s.writeInputModeFormatted

def stateFormatted (s : Screen) : M (List Nat) := do
  let c ← s.writeContentsFormatted
  pure (c ++ s.writeInputModeFormatted)

def rowsFormattedLoop (fullWidth : Bool) (start width : Nat) :
    List Row → Nat → Bool → M (List (List Nat))
  | [], _, _ => pure []
  | r :: rs, i, wrapping => do
    let (bs, _, _) ← r.writeContentsFormatted start width i wrapping none none
    let rest ← rowsFormattedLoop fullWidth start width rs (i + 1) (if fullWidth then r.wrapped else wrapping)
    pure (bs :: rest)

def rowsFormatted (s : Screen) (start width : Nat) : M (List (List Nat)) := do
  let rs ← s.cur.visibleRows
  rowsFormattedLoop (start == 0 && width == s.grid.size.cols) start width rs 0 false

def writeContentsDiff (s prev : Screen) : M (List Nat) := do
  let hc := if s.hideCursor != prev.hideCursor then Term.hideCursor s.hideCursor else []
  let (bs, prevAttrs) ← s.cur.writeContentsDiff prev.cur prev.attrs
  pure (hc ++ bs ++ s.attrs.writeEscapeCodeDiff prevAttrs)

def contentsDiff (s prev : Screen) : M (List Nat) := s.writeContentsDiff prev

def writeInputModeDiff (s prev : Screen) : List Nat :=
  (if s.appKeypad != prev.appKeypad then Term.applicationKeypad s.appKeypad else [])
  ++ (if s.appCursor != prev.appCursor then Term.applicationCursor s.appCursor else [])
  ++ (if s.bracketedPaste != prev.bracketedPaste then Term.bracketedPaste s.bracketedPaste else [])
  ++ Term.mouseProtocolMode s.mouseMode prev.mouseMode
  ++ Term.mouseProtocolEncoding s.mouseEnc prev.mouseEnc

def inputModeDiff (s prev : Screen) : List Nat := s.writeInputModeDiff prev

def stateDiff (s prev : Screen) : M (List Nat) := do
  let c ← s.writeContentsDiff prev
  pure (c ++ s.writeInputModeDiff prev)

def rowsDiffLoop (start width : Nat) : List (Row × Row) → Nat → M (List (List Nat))
  | [], _ => pure []
  | (r, pr) :: rs, i => do
    let (bs, _, _) ← r.writeContentsDiff pr start width i false false ⟨i, start⟩ Attrs.default
    let rest ← rowsDiffLoop start width rs (i + 1)
    pure (bs :: rest)

def rowsDiff (s prev : Screen) (start width : Nat) : M (List (List Nat)) := do
  let rs ← s.cur.visibleRows
  let prs ← prev.cur.visibleRows
  rowsDiffLoop start width (rs.zip prs) 0

def attributesFormatted (s : Screen) : List Nat :=
  Term.clearAttrs ++ s.attrs.writeEscapeCodeDiff Attrs.default

def cursorPosition (s : Screen) : Pos := s.cur.pos

def cursorStateFormatted (s : Screen) : M (List Nat) := do
  let bs ← s.cur.writeCursorPositionFormatted none none
  pure (Term.hideCursor s.hideCursor ++ bs)

def cell (s : Screen) (row col : Nat) : M (Option Cell) := s.cur.visibleCell ⟨row, col⟩

def rowWrapped (s : Screen) (row : Nat) : M Bool := do
  let r ← s.cur.visibleRow row
  pure (match r with | some r => r.wrapped | none => false)

/-! ### alternate screen, save/restore -/

def enterAlternateGrid (s : Screen) : M Screen := do
  let s ← s.modifyGrid (fun g => pure (g.setScrollback 0))
  pure { s with altScreen := true, altGrid := s.altGrid.allocateRows }

def exitAlternateGrid (s : Screen) : Screen := { s with altScreen := false }

def saveCursor (s : Screen) : M Screen := do
  let s ← s.modifyGrid (fun g => pure g.saveCursor)
  pure { s with savedAttrs := s.attrs }

def restoreCursor (s : Screen) : M Screen := do
  let s ← s.modifyGrid (fun g => pure g.restoreCursor)
  pure { s with attrs := s.savedAttrs }

def clearMouseMode (s : Screen) (m : MouseMode) : Screen :=
  if s.mouseMode == m then { s with mouseMode := .none } else s

def clearMouseEnc (s : Screen) (e : MouseEnc) : Screen :=
  if s.mouseEnc == e then { s with mouseEnc := .default } else s

/-! ### `text`

`Screen::text` reads `self.attrs` and otherwise works on `self.grid_mut()`
throughout (the active grid cannot change in between), so it is modelled as one
grid-level function applied through `modifyGrid`. -/

end Screen

namespace Grid

/-- append `c` to the cell at `(row, col)`, or to the one before it when that cell is a
wide continuation (`prev_cell` dance of the zero-width branch) -/
def appendToPrev (g : Grid) (row col : Nat) (c : Nat) : M Grid := do
  let prevCell ← g.drawingCellM 510 ⟨row, col⟩
  if prevCell.isWideContinuation then do
    let c2 ← subM 511 col 1
    g.modifyCellM 512 ⟨row, c2⟩ (fun cell => cell.append c)
  else
    g.modifyCellM 513 ⟨row, col⟩ (fun cell => cell.append c)

/-- the zero-width branch of `text`, after `col_wrap` -/
def textZero (g : Grid) (c : Nat) : M Grid :=
  let pos := g.pos
  let size := g.size
  if pos.col > 0 then
    g.appendToPrev pos.row (pos.col - 1) c
  else if pos.row > 0 then do
    let prevRow ← match g.drawingRow (pos.row - 1) with
      | some r => pure r
      | none => panic 523
    if prevRow.wrapped then do
      let c1 ← subM 524 size.cols 1
      g.appendToPrev (pos.row - 1) c1 c
    else pure g
  else pure g

/-- the cell writes of the branch of `text` for a character of width 1 or 2 (after `col_wrap`); they
all happen on the cursor's row: `col` = cursor column, `cols` = screen width -/
def textWideRow (W : Nat → Option Nat) (row : Row) (col cols : Nat) (attrs : Attrs) (c width : Nat) : M Row := do
  let cell0 ← getM 530 row.cells col
  let row ←
    if cell0.isWideContinuation then do
      let c1 ← subM 531 col 1
      let cs ← modifyM 532 row.cells c1 (fun cell => pure (cell.clear attrs))
      pure { row with cells := cs }
    else pure row
  let cell1 ← getM 533 row.cells col
  let row ←
    if cell1.isWide then do
      let cs ← modifyM 534 row.cells (col + 1) (fun cell => cell.set W 32 attrs)
      pure { row with cells := cs }
    else pure row
  let cs ← modifyM 535 row.cells col (fun cell => cell.set W c attrs)
  let row := { row with cells := cs }
  if width > 1 then do
    let cell2 ← getM 536 row.cells (col + 1)
    let row ←
      if cell2.isWide then do
        let cs ← modifyM 537 row.cells (col + 2) (fun cell => pure (cell.clear attrs))
        let row := { row with cells := cs }
        if col + 2 + 1 == cols then pure (row.wrap false) else pure row
      else pure row
    let cs ← modifyM 539 row.cells (col + 1)
      (fun cell => pure ((cell.clear Attrs.default).setWideContinuation true))
    pure { row with cells := cs }
  else pure row

/-- the branch of `text` for a character of width 1 or 2, after `col_wrap` -/
def textWide (W : Nat → Option Nat) (g : Grid) (attrs : Attrs) (c width : Nat) : M Grid := do
  let g ← g.modifyCurrentRow (fun row => textWideRow W row g.pos.col g.size.cols attrs c width)
  pure (if width > 1 then (g.colInc 1).colInc 1 else g.colInc 1)

/-- should the line the cursor leaves be flagged wrapped: only if its last column is occupied -/
def wrapDecision (g : Grid) (width : Nat) : M Bool := do
  let lim ← subM 520 g.size.cols width
  if g.pos.col > lim then do
    let c1 ← subM 521 g.size.cols 1
    let lastCell ← g.drawingCellM 522 ⟨g.pos.row, c1⟩
    pure (lastCell.hasContents || lastCell.isWideContinuation)
  else pure false

def text (W : Nat → Option Nat) (g : Grid) (attrs : Attrs) (c : Nat) : M Grid := do
  let width := W c
  if width.isNone && c < 256 then pure g
  else do
    let width := min (width.getD 1) 2   -- `.min(2)`: a cell holds at most a double-width character
    if width > g.size.cols then pure g else
    let wrap ← g.wrapDecision width
    let g ← g.colWrap width wrap
    if width == 0 then g.textZero c else g.textWide W attrs c width

def cnl (g : Grid) (n : Nat) : M Grid := do
  let g ← g.colSet 0
  g.rowIncClamp n

def cpl (g : Grid) (n : Nat) : M Grid := do
  let g ← g.colSet 0
  pure (g.rowDecClamp n)

end Grid

namespace Screen

def text (W : Nat → Option Nat) (s : Screen) (c : Nat) : M Screen :=
  s.modifyGrid (fun g => g.text W s.attrs c)

/-! ### control codes, escape codes, CSI without callbacks -/

def bs (s : Screen) : M Screen := s.modifyGrid (fun g => pure (g.colDec 1))
def tab (s : Screen) : M Screen := s.modifyGrid (fun g => g.colTab)
def lf (s : Screen) : M Screen := s.modifyGrid (fun g => do let (g, _) ← g.rowIncScroll 1; pure g)
def cr (s : Screen) : M Screen := s.modifyGrid (fun g => g.colSet 0)
def decsc (s : Screen) : M Screen := s.saveCursor
def decrc (s : Screen) : M Screen := s.restoreCursor
def deckpam (s : Screen) : Screen := { s with appKeypad := true }
def deckpnm (s : Screen) : Screen := { s with appKeypad := false }
def ri (s : Screen) : M Screen := s.modifyGrid (fun g => g.rowDecScroll 1)
def ris (s : Screen) : M Screen := Screen.new s.grid.size s.grid.scrollbackLen

def ich (s : Screen) (n : Nat) : M Screen := s.modifyGrid (fun g => g.insertCells n)
def cuu (s : Screen) (n : Nat) : M Screen := s.modifyGrid (fun g => pure (g.rowDecClamp n))
def cud (s : Screen) (n : Nat) : M Screen := s.modifyGrid (fun g => g.rowIncClamp n)
def cuf (s : Screen) (n : Nat) : M Screen := s.modifyGrid (fun g => g.colIncClamp n)
def cub (s : Screen) (n : Nat) : M Screen := s.modifyGrid (fun g => pure (g.colDec n))
def cnl (s : Screen) (n : Nat) : M Screen := s.modifyGrid (fun g => g.cnl n)
def cpl (s : Screen) (n : Nat) : M Screen := s.modifyGrid (fun g => g.cpl n)
def cha (s : Screen) (col : Nat) : M Screen := do
  let c ← subM 540 col 1
  s.modifyGrid (fun g => g.colSet c)
def cup (s : Screen) (row col : Nat) : M Screen := do
  let r ← subM 541 row 1
  let c ← subM 542 col 1
  s.modifyGrid (fun g => g.setPos ⟨r, c⟩)
def il (s : Screen) (n : Nat) : M Screen := s.modifyGrid (fun g => g.insertLines n)
def dl (s : Screen) (n : Nat) : M Screen := s.modifyGrid (fun g => g.deleteLines n)
def dch (s : Screen) (n : Nat) : M Screen := s.modifyGrid (fun g => g.deleteCells n)
def su (s : Screen) (n : Nat) : M Screen := s.modifyGrid (fun g => g.scrollUp n)
def sd (s : Screen) (n : Nat) : M Screen := s.modifyGrid (fun g => g.scrollDown n)
def ech (s : Screen) (n : Nat) : M Screen := s.modifyGrid (fun g => g.eraseCells n s.attrs)
def vpa (s : Screen) (row : Nat) : M Screen := do
  let r ← subM 543 row 1
  s.modifyGrid (fun g => g.rowSet r)
def decstbm (s : Screen) (top bottom : Nat) : M Screen := do
  let t ← subM 544 top 1
  let b ← subM 545 bottom 1
  s.modifyGrid (fun g => g.setScrollRegion t b)

/-- one arm of `ed`'s match; `none` = `unhandled` -/
def edMode (s : Screen) (mode : Nat) : M (Option Screen) :=
  match mode with
  | 0 => do let s ← s.modifyGrid (fun g => g.eraseAllForward s.attrs); pure (some s)
  | 1 => do let s ← s.modifyGrid (fun g => g.eraseAllBackward s.attrs); pure (some s)
  | 2 => do let s ← s.modifyGrid (fun g => pure (g.eraseAll s.attrs)); pure (some s)
  | _ => pure none

def elMode (s : Screen) (mode : Nat) : M (Option Screen) :=
  match mode with
  | 0 => do let s ← s.modifyGrid (fun g => g.eraseRowForward s.attrs); pure (some s)
  | 1 => do let s ← s.modifyGrid (fun g => g.eraseRowBackward s.attrs); pure (some s)
  | 2 => do let s ← s.modifyGrid (fun g => g.eraseRow s.attrs); pure (some s)
  | _ => pure none

/-- one arm of `decset`'s match; `none` = `unhandled` -/
def decsetOne (s : Screen) (p : List Nat) : M (Option Screen) :=
  match p with
  | [1] => pure (some { s with appCursor := true })
  | [6] => do let s ← s.modifyGrid (fun g => g.setOriginMode true); pure (some s)
  | [9] => pure (some { s with mouseMode := .press })
  | [25] => pure (some { s with hideCursor := false })
  | [47] => do let s ← s.enterAlternateGrid; pure (some s)
  | [1000] => pure (some { s with mouseMode := .pressRelease })
  | [1002] => pure (some { s with mouseMode := .buttonMotion })
  | [1003] => pure (some { s with mouseMode := .anyMotion })
  | [1005] => pure (some { s with mouseEnc := .utf8 })
  | [1006] => pure (some { s with mouseEnc := .sgr })
  | [1049] => do
      let s ← s.decsc
      let ag ← s.altGrid.clear
      let s ← ({ s with altGrid := ag }).enterAlternateGrid
      pure (some s)
  | [2004] => pure (some { s with bracketedPaste := true })
  | _ => pure none

def decrstOne (s : Screen) (p : List Nat) : M (Option Screen) :=
  match p with
  | [1] => pure (some { s with appCursor := false })
  | [6] => do let s ← s.modifyGrid (fun g => g.setOriginMode false); pure (some s)
  | [9] => pure (some (s.clearMouseMode .press))
  | [25] => pure (some { s with hideCursor := true })
  | [47] => pure (some s.exitAlternateGrid)
  | [1000] => pure (some (s.clearMouseMode .pressRelease))
  | [1002] => pure (some (s.clearMouseMode .buttonMotion))
  | [1003] => pure (some (s.clearMouseMode .anyMotion))
  | [1005] => pure (some (s.clearMouseEnc .utf8))
  | [1006] => pure (some (s.clearMouseEnc .sgr))
  | [1049] => do
      let s ← s.exitAlternateGrid.decrc
      pure (some s)
  | [2004] => pure (some { s with bracketedPaste := false })
  | _ => pure none

end Screen
end Vt
