/-
  Vt.Model.Vte — the part of vte 0.14.1 (`src/lib.rs`, `src/params.rs`, default
  `no_std` build: OSC buffer 1024 bytes) that `vt100::Parser::process` runs:
  `Parser::advance`.  It turns a chunk of bytes into a list of `Action`s (the
  `Perform` calls) without looking at the screen.

  `Params` is modelled as closed groups + the open group of sub-parameters.
-/
import Vt.Model.Utf8
namespace Vt

inductive Action where
  | print (c : Nat)
  | execute (b : Nat)
  | hook (params : List (List Nat)) (ints : List Nat) (ignore : Bool) (c : Nat)
  | put (b : Nat)
  | unhook
  | oscDispatch (params : List (List Nat)) (bell : Bool)
  | csiDispatch (params : List (List Nat)) (ints : List Nat) (ignore : Bool) (c : Nat)
  | escDispatch (ints : List Nat) (ignore : Bool) (b : Nat)
  deriving Repr, DecidableEq, Inhabited

inductive VState where
  | csiEntry | csiIgnore | csiIntermediate | csiParam
  | dcsEntry | dcsIgnore | dcsIntermediate | dcsParam | dcsPassthrough
  | escape | escapeIntermediate | oscString | sosPmApcString | ground
  deriving Repr, DecidableEq, Inhabited

structure Vte where
  state : VState := .ground
  ints : List Nat := []
  ignoring : Bool := false
  params : List (List Nat) := []     -- closed groups
  cur : List Nat := []               -- sub-parameters of the open group
  param : Nat := 0
  oscRaw : List Nat := []
  oscParams : List (Nat × Nat) := []
  carry : List Nat := []             -- partial_utf8[..partial_utf8_len]
  deriving Repr, DecidableEq, Inhabited

namespace Vte

def MAX_PARAMS : Nat := 32
def MAX_INTERMEDIATES : Nat := 2
def MAX_OSC_PARAMS : Nat := 16
def MAX_OSC_RAW : Nat := 1024

def new : Vte := {}

def paramsLen (v : Vte) : Nat := (v.params.map List.length).sum + v.cur.length
def paramsFull (v : Vte) : Bool := v.paramsLen == MAX_PARAMS

/-- what `Params::iter()` yields -/
def paramsIter (v : Vte) : List (List Nat) := v.params ++ (if v.cur.isEmpty then [] else [v.cur])

/-- `Params::push` -/
def pushParam (v : Vte) (item : Nat) : Vte := { v with params := v.params ++ [v.cur ++ [item]], cur := [] }
/-- `Params::extend` -/
def extendParam (v : Vte) (item : Nat) : Vte := { v with cur := v.cur ++ [item] }

def resetParams (v : Vte) : Vte :=
  { v with ints := [], ignoring := false, param := 0, params := [], cur := [] }

def actionCollect (v : Vte) (b : Nat) : Vte :=
  if v.ints.length == MAX_INTERMEDIATES then { v with ignoring := true }
  else { v with ints := v.ints ++ [b] }

def actionSubparam (v : Vte) : Vte :=
  if v.paramsFull then { v with ignoring := true }
  else { (v.extendParam v.param) with param := 0 }

def actionParam (v : Vte) : Vte :=
  if v.paramsFull then { v with ignoring := true }
  else { (v.pushParam v.param) with param := 0 }

def actionParamnext (v : Vte) (b : Nat) : Vte :=
  if v.paramsFull then { v with ignoring := true }
  else { v with param := min (min (v.param * 10) 65535 + (b - 48)) 65535 }

def finishParams (v : Vte) : Vte :=
  if v.paramsFull then { v with ignoring := true } else v.pushParam v.param

def actionCsiDispatch (v : Vte) (b : Nat) : Vte × List Action :=
  let v := v.finishParams
  ({ v with state := .ground }, [.csiDispatch v.paramsIter v.ints v.ignoring b])

def actionHook (v : Vte) (b : Nat) : Vte × List Action :=
  let v := v.finishParams
  ({ v with state := .dcsPassthrough }, [.hook v.paramsIter v.ints v.ignoring b])

def escDispatch (v : Vte) (b : Nat) : Vte × List Action :=
  ({ v with state := .ground }, [.escDispatch v.ints v.ignoring b])

def actionOscPutParam (v : Vte) : Vte :=
  let idx := v.oscRaw.length
  match v.oscParams.length with
  | 0 => { v with oscParams := [(0, idx)] }
  | n + 1 =>
    if n + 1 == MAX_OSC_PARAMS then v
    else
      let begin := (v.oscParams.getD n (0, 0)).2
      { v with oscParams := v.oscParams ++ [(begin, idx)] }

def actionOscPut (v : Vte) (b : Nat) : Vte :=
  if v.oscRaw.length ≥ MAX_OSC_RAW then v else { v with oscRaw := v.oscRaw ++ [b] }

def oscEnd (v : Vte) (b : Nat) : Vte × List Action :=
  let v := v.actionOscPutParam
  let slices := v.oscParams.map (fun p => (v.oscRaw.drop p.1).take (p.2 - p.1))
  ({ v with oscRaw := [], oscParams := [] }, [.oscDispatch slices (b == 0x07)])

def isC0Exec (b : Nat) : Bool := b ≤ 0x17 || b == 0x19 || (0x1C ≤ b && b ≤ 0x1F)

def anywhere (v : Vte) (b : Nat) : Vte × List Action :=
  if b == 0x18 || b == 0x1A then ({ v with state := .ground }, [.execute b])
  else if b == 0x1B then ({ v.resetParams with state := .escape }, [])
  else (v, [])

def advanceCsiEntry (v : Vte) (b : Nat) : Vte × List Action :=
  if isC0Exec b then (v, [.execute b])
  else if 0x20 ≤ b && b ≤ 0x2F then ({ v.actionCollect b with state := .csiIntermediate }, [])
  else if 0x30 ≤ b && b ≤ 0x39 then ({ v.actionParamnext b with state := .csiParam }, [])
  else if b == 0x3A then ({ v.actionSubparam with state := .csiParam }, [])
  else if b == 0x3B then ({ v.actionParam with state := .csiParam }, [])
  else if 0x3C ≤ b && b ≤ 0x3F then ({ v.actionCollect b with state := .csiParam }, [])
  else if 0x40 ≤ b && b ≤ 0x7E then v.actionCsiDispatch b
  else v.anywhere b

def advanceCsiIgnore (v : Vte) (b : Nat) : Vte × List Action :=
  if isC0Exec b then (v, [.execute b])
  else if 0x20 ≤ b && b ≤ 0x3F then (v, [])
  else if 0x40 ≤ b && b ≤ 0x7E then ({ v with state := .ground }, [])
  else if b == 0x7F then (v, [])
  else v.anywhere b

def advanceCsiIntermediate (v : Vte) (b : Nat) : Vte × List Action :=
  if isC0Exec b then (v, [.execute b])
  else if 0x20 ≤ b && b ≤ 0x2F then (v.actionCollect b, [])
  else if 0x30 ≤ b && b ≤ 0x3F then ({ v with state := .csiIgnore }, [])
  else if 0x40 ≤ b && b ≤ 0x7E then v.actionCsiDispatch b
  else v.anywhere b

def advanceCsiParam (v : Vte) (b : Nat) : Vte × List Action :=
  if isC0Exec b then (v, [.execute b])
  else if 0x20 ≤ b && b ≤ 0x2F then ({ v.actionCollect b with state := .csiIntermediate }, [])
  else if 0x30 ≤ b && b ≤ 0x39 then (v.actionParamnext b, [])
  else if b == 0x3A then (v.actionSubparam, [])
  else if b == 0x3B then (v.actionParam, [])
  else if 0x3C ≤ b && b ≤ 0x3F then ({ v with state := .csiIgnore }, [])
  else if 0x40 ≤ b && b ≤ 0x7E then v.actionCsiDispatch b
  else if b == 0x7F then (v, [])
  else v.anywhere b

def advanceDcsEntry (v : Vte) (b : Nat) : Vte × List Action :=
  if isC0Exec b then (v, [])
  else if 0x20 ≤ b && b ≤ 0x2F then ({ v.actionCollect b with state := .dcsIntermediate }, [])
  else if 0x30 ≤ b && b ≤ 0x39 then ({ v.actionParamnext b with state := .dcsParam }, [])
  else if b == 0x3A then ({ v.actionSubparam with state := .dcsParam }, [])
  else if b == 0x3B then ({ v.actionParam with state := .dcsParam }, [])
  else if 0x3C ≤ b && b ≤ 0x3F then ({ v.actionCollect b with state := .dcsParam }, [])
  else if 0x40 ≤ b && b ≤ 0x7E then v.actionHook b
  else if b == 0x7F then (v, [])
  else v.anywhere b

def advanceDcsIntermediate (v : Vte) (b : Nat) : Vte × List Action :=
  if isC0Exec b then (v, [])
  else if 0x20 ≤ b && b ≤ 0x2F then (v.actionCollect b, [])
  else if 0x30 ≤ b && b ≤ 0x3F then ({ v with state := .dcsIgnore }, [])
  else if 0x40 ≤ b && b ≤ 0x7E then v.actionHook b
  else if b == 0x7F then (v, [])
  else v.anywhere b

def advanceDcsParam (v : Vte) (b : Nat) : Vte × List Action :=
  if isC0Exec b then (v, [])
  else if 0x20 ≤ b && b ≤ 0x2F then ({ v.actionCollect b with state := .dcsIntermediate }, [])
  else if 0x30 ≤ b && b ≤ 0x39 then (v.actionParamnext b, [])
  else if b == 0x3A then (v.actionSubparam, [])
  else if b == 0x3B then (v.actionParam, [])
  else if 0x3C ≤ b && b ≤ 0x3F then ({ v with state := .dcsIgnore }, [])
  else if 0x40 ≤ b && b ≤ 0x7E then v.actionHook b
  else if b == 0x7F then (v, [])
  else v.anywhere b

def advanceDcsPassthrough (v : Vte) (b : Nat) : Vte × List Action :=
  if isC0Exec b || (0x1C ≤ b && b ≤ 0x7E) then (v, [.put b])
  else if b == 0x18 || b == 0x1A then ({ v with state := .ground }, [.unhook, .execute b])
  else if b == 0x1B then ({ v.resetParams with state := .escape }, [.unhook])
  else if b == 0x7F then (v, [])
  else if b == 0x9C then ({ v with state := .ground }, [.unhook])
  else (v, [])

def advanceEsc (v : Vte) (b : Nat) : Vte × List Action :=
  if isC0Exec b then (v, [.execute b])
  else if 0x20 ≤ b && b ≤ 0x2F then ({ v.actionCollect b with state := .escapeIntermediate }, [])
  else if 0x30 ≤ b && b ≤ 0x4F then v.escDispatch b
  else if b == 0x50 then ({ v.resetParams with state := .dcsEntry }, [])
  else if 0x51 ≤ b && b ≤ 0x57 then v.escDispatch b
  else if b == 0x58 then ({ v with state := .sosPmApcString }, [])
  else if 0x59 ≤ b && b ≤ 0x5A then v.escDispatch b
  else if b == 0x5B then ({ v.resetParams with state := .csiEntry }, [])
  else if b == 0x5C then v.escDispatch b
  else if b == 0x5D then ({ v with oscRaw := [], oscParams := [], state := .oscString }, [])
  else if 0x5E ≤ b && b ≤ 0x5F then ({ v with state := .sosPmApcString }, [])
  else if 0x60 ≤ b && b ≤ 0x7E then v.escDispatch b
  else if b == 0x18 || b == 0x1A then ({ v with state := .ground }, [.execute b])
  else (v, [])

def advanceEscIntermediate (v : Vte) (b : Nat) : Vte × List Action :=
  if isC0Exec b then (v, [.execute b])
  else if 0x20 ≤ b && b ≤ 0x2F then (v.actionCollect b, [])
  else if 0x30 ≤ b && b ≤ 0x7E then v.escDispatch b
  else if b == 0x7F then (v, [])
  else v.anywhere b

def advanceOscString (v : Vte) (b : Nat) : Vte × List Action :=
  if b ≤ 0x06 || (0x08 ≤ b && b ≤ 0x17) || b == 0x19 || (0x1C ≤ b && b ≤ 0x1F) then (v, [])
  else if b == 0x07 then
    let (v, a) := v.oscEnd b
    ({ v with state := .ground }, a)
  else if b == 0x18 || b == 0x1A then
    let (v, a) := v.oscEnd b
    ({ v with state := .ground }, a ++ [.execute b])
  else if b == 0x1B then
    let (v, a) := v.oscEnd b
    ({ v.resetParams with state := .escape }, a)
  else if b == 0x3B then
    if v.oscRaw.length ≥ MAX_OSC_RAW then (v, []) else (v.actionOscPutParam, [])
  else (v.actionOscPut b, [])

/-- `change_state`: one byte in a non-ground state -/
def changeState (v : Vte) (b : Nat) : Vte × List Action :=
  match v.state with
  | .csiEntry => v.advanceCsiEntry b
  | .csiIgnore => v.advanceCsiIgnore b
  | .csiIntermediate => v.advanceCsiIntermediate b
  | .csiParam => v.advanceCsiParam b
  | .dcsEntry => v.advanceDcsEntry b
  | .dcsIgnore => v.anywhere b
  | .dcsIntermediate => v.advanceDcsIntermediate b
  | .dcsParam => v.advanceDcsParam b
  | .dcsPassthrough => v.advanceDcsPassthrough b
  | .escape => v.advanceEsc b
  | .escapeIntermediate => v.advanceEscIntermediate b
  | .oscString => v.advanceOscString b
  | .sosPmApcString => v.anywhere b
  | .ground => (v, [])     -- unreachable!()

def groundDispatch (chars : List Nat) : List Action :=
  chars.map (fun c => if c ≤ 0x1f || (0x80 ≤ c && c ≤ 0x9f) then .execute c else .print c)

def REPLACEMENT : Nat := 0xFFFD

/-- `advance_ground`: returns the new parser, the actions, the bytes consumed -/
def advanceGround (v : Vte) (bytes : List Nat) : Vte × List Action × Nat :=
  let numBytes := bytes.length
  let plain := bytes.findIdx (· == 0x1B)
  if plain == 0 then ({ v.resetParams with state := .escape }, [], 1)
  else
    let r := Utf8.fromUtf8 (bytes.take plain)
    let acts := groundDispatch r.chars
    match r.err with
    | none =>
      if plain < numBytes then ({ v.resetParams with state := .escape }, acts, plain + 1)
      else (v, acts, plain)
    | some (some len) =>
      let b := bytes.getD r.validUpTo 0
      let a := if len == 1 && b ≤ 0x9F then Action.execute b else Action.print REPLACEMENT
      (v, acts ++ [a], r.validUpTo + len)
    | some none =>
      if plain < numBytes then
        ({ v.resetParams with state := .escape }, acts ++ [.print REPLACEMENT], plain + 1)
      else
        ({ v with carry := v.carry ++ bytes.drop r.validUpTo }, acts, numBytes)

/-- `advance_partial_utf8` -/
def advancePartialUtf8 (v : Vte) (bytes : List Nat) : Vte × List Action × Nat :=
  let old := v.carry.length
  let toCopy := min bytes.length (4 - old)
  let buf := v.carry ++ bytes.take toCopy
  let r := Utf8.fromUtf8 buf
  match r.err with
  | none =>
    let c := r.chars.headD 0
    ({ v with carry := [] }, [.print c], Utf8.lenUtf8 c - old)
  | some e =>
    if r.validUpTo > 0 then
      -- prints only the first character of the valid prefix but consumes all of it
      let c := r.chars.headD 0
      ({ v with carry := [] }, [.print c], r.validUpTo - old)
    else
      match e with
      | some invalidLen => ({ v with carry := [] }, [.print REPLACEMENT], invalidLen - old)
      | none => ({ v with carry := buf }, [], toCopy)

/-- the `while i != bytes.len()` loop; every iteration consumes at least one
byte, `fuel` = number of bytes left + 1 -/
def advanceLoop : Nat → Vte → List Nat → Vte × List Action
  | 0, v, _ => (v, [])
  | fuel + 1, v, bytes =>
    match bytes with
    | [] => (v, [])
    | b :: rest =>
      match v.state with
      | .ground =>
        let (v', acts, n) := v.advanceGround bytes
        let (v'', acts') := advanceLoop fuel v' (bytes.drop n)
        (v'', acts ++ acts')
      | _ =>
        let (v', acts) := v.changeState b
        let (v'', acts') := advanceLoop fuel v' rest
        (v'', acts ++ acts')

/-- `Parser::advance` -/
def advance (v : Vte) (bytes : List Nat) : Vte × List Action :=
  if v.carry.isEmpty then advanceLoop (bytes.length + 1) v bytes
  else
    let (v', acts, n) := v.advancePartialUtf8 bytes
    let (v'', acts') := advanceLoop (bytes.length + 1) v' (bytes.drop n)
    (v'', acts ++ acts')

end Vte
end Vt
