/-
  Vt.Lemmas.RowOps — closed forms of the row.rs mutators under the row invariant, and
  preservation of the invariant.
-/
import Vt.Lemmas.RowInv
namespace Vt
set_option linter.unusedSimpArgs false

variable (W : Nat → Option Nat)

/-- closed form of the cells after `Row::erase(i, attrs)` -/
def eraseCells (cs : List Cell) (i : Nat) (a : Attrs) : List Cell :=
  match cs[i]? with
  | none => cs
  | some c =>
    if c.wide then
      match cs[i + 1]? with
      | some d => (cs.set (i + 1) (d.clear d.attrs)).set i (c.clear a)
      | none => cs
    else if c.cont then
      match cs[i - 1]? with
      | some p => (cs.set (i - 1) (p.clear p.attrs)).set i (c.clear a)
      | none => cs
    else cs.set i (c.clear a)

theorem eraseCells_length (cs : List Cell) (i : Nat) (a : Attrs) :
    (eraseCells cs i a).length = cs.length := by
  unfold eraseCells
  split
  · rfl
  · split
    · split <;> simp
    · split
      · split <;> simp
      · simp

/-- `Row::erase(i)` never fails on a well-formed row and equals the closed form; the wrap flag is
cleared exactly when the last column is blanked (cell `i` is the last cell, or a wide character
whose second half is the last cell) -/
theorem erase_eq {r : Row} {i : Nat} {a : Attrs} {c : Cell} (hinv : CellsInv W r.cells)
    (hc : r.cells[i]? = some c) :
    r.erase i a = .ok { cells := eraseCells r.cells i a,
                        wrapped := if i = r.cells.length - (if c.wide then 2 else 1) then false else r.wrapped } := by
  have hi := getElem?_lt hc
  by_cases hw : c.wide = true
  · obtain ⟨d, hd, hdc⟩ := paired_wide_next hc hinv.paired hw
    have hi1 := getElem?_lt hd
    have hlen2 : 2 ≤ r.cells.length := by omega
    simp only [Row.erase, getM, hc, ok_bind, pure_bind', Row.clearWide, Cell.isWide, hw, ↓reduceIte,
      modifyM, hd, pure_eq_ok, List.getElem?_set, hi1, hi, show ¬ (i + 1 = i) by omega,
      List.length_set, subM_ok hlen2, eraseCells]
    simp [beq_iff_eq]
  · have hw' : c.wide = false := by simpa using hw
    by_cases hcc : c.cont = true
    · obtain ⟨j, p, rfl, hp, hpw⟩ := paired_cont_prev hc hinv.paired hcc
      have hj := getElem?_lt hp
      have hlen1 : 1 ≤ r.cells.length := by omega
      simp only [Row.erase, getM, hc, ok_bind, pure_bind', Row.clearWide, Cell.isWide, hw',
        Bool.false_eq_true, ↓reduceIte, Cell.isWideContinuation, hcc, subM_ok (show 1 ≤ j + 1 by omega),
        Nat.add_sub_cancel, modifyM, hp, pure_eq_ok, List.getElem?_set, hj, hi,
        show ¬ (j = j + 1) by omega, List.length_set, subM_ok hlen1, eraseCells]
      simp [beq_iff_eq]
    · have hcc' : c.cont = false := by simpa using hcc
      have hlen1 : 1 ≤ r.cells.length := by omega
      simp only [Row.erase, getM, hc, ok_bind, pure_bind', Row.clearWide, Cell.isWide, hw',
        Bool.false_eq_true, ↓reduceIte, Cell.isWideContinuation, hcc', modifyM, pure_eq_ok,
        List.length_set, subM_ok hlen1, eraseCells]
      simp [beq_iff_eq]

theorem mem_set_cases {α} {l : List α} {i : Nat} {x y : α} (h : y ∈ l.set i x) : y = x ∨ y ∈ l := by
  rcases List.mem_or_eq_of_mem_set h with h | h
  · exact Or.inr h
  · exact Or.inl h

/-- the closed form keeps the row invariant -/
theorem eraseCells_inv {cs : List Cell} (i : Nat) (a : Attrs) (hinv : CellsInv W cs) :
    CellsInv W (eraseCells cs i a) := by
  unfold eraseCells
  cases hc : cs[i]? with
  | none => exact hinv
  | some c =>
    have hcok := hinv.cells_ok c (List.mem_of_getElem? hc)
    simp only
    by_cases hw : c.wide = true
    · simp only [hw, ↓reduceIte]
      obtain ⟨d, hd, hdc⟩ := paired_wide_next hc hinv.paired hw
      have hdok := hinv.cells_ok d (List.mem_of_getElem? hd)
      simp only [hd]
      constructor
      · intro x hx
        rcases mem_set_cases hx with rfl | hx
        · exact cellOk_clear W c a hcok
        · rcases mem_set_cases hx with rfl | hx
          · exact cellOk_clear W d d.attrs hdok
          · exact hinv.cells_ok x hx
      · have hcc : c.cont = false := by
          by_cases h : c.cont = true
          · have := (cellOk_cont W c hcok h).1; simp [hw] at this
          · simpa using h
        have hdw : d.wide = false := (cellOk_cont W d hdok hdc).1
        have hswap : (cs.set (i + 1) (d.clear d.attrs)).set i (c.clear a)
            = (cs.set i (c.clear a)).set (i + 1) (d.clear d.attrs) := by
          rw [List.set_comm _ _ (by omega)]
        rw [hswap]
        exact pairThrough_set2 hc hd hinv.paired (by simp [Cell.clear, hcc]) (by simp [Cell.clear])
          (by simp [Cell.clear, hdw])
    · have hw' : c.wide = false := by simpa using hw
      simp only [hw', Bool.false_eq_true, ↓reduceIte]
      by_cases hcc : c.cont = true
      · simp only [hcc, ↓reduceIte]
        obtain ⟨j, p, rfl, hp, hpw⟩ := paired_cont_prev hc hinv.paired hcc
        have hpok := hinv.cells_ok p (List.mem_of_getElem? hp)
        simp only [Nat.add_sub_cancel, hp]
        constructor
        · intro x hx
          rcases mem_set_cases hx with rfl | hx
          · exact cellOk_clear W c a hcok
          · rcases mem_set_cases hx with rfl | hx
            · exact cellOk_clear W p p.attrs hpok
            · exact hinv.cells_ok x hx
        · have hpc : p.cont = false := by
            by_cases h : p.cont = true
            · have := (cellOk_cont W p hpok h).1; simp [hpw] at this
            · simpa using h
          exact pairThrough_set2 hp hc hinv.paired (by simp [Cell.clear, hpc]) (by simp [Cell.clear])
            (by simp [Cell.clear, hw'])
      · have hcc' : c.cont = false := by simpa using hcc
        simp only [hcc', Bool.false_eq_true, ↓reduceIte]
        constructor
        · intro x hx
          rcases mem_set_cases hx with rfl | hx
          · exact cellOk_clear W c a hcok
          · exact hinv.cells_ok x hx
        · exact pairThrough_set hc hinv.paired (by simp [Cell.clear, hcc']) (by simp [Cell.clear, hw'])

end Vt

namespace Vt
set_option linter.unusedSimpArgs false
variable (W : Nat → Option Nat)

theorem decomp1 {α} {cs : List α} {i : Nat} {c : α} (hc : cs[i]? = some c) :
    ∃ a b, cs = a ++ c :: b ∧ a.length = i :=
  ⟨cs.take i, cs.drop (i + 1), list_split' hc, by simp [List.length_take, Nat.min_eq_left (Nat.le_of_lt (getElem?_lt hc))]⟩

theorem decomp2 {α} {cs : List α} {i : Nat} {c d : α} (hc : cs[i]? = some c) (hd : cs[i + 1]? = some d) :
    ∃ a b, cs = a ++ c :: d :: b ∧ a.length = i := by
  obtain ⟨a, b, h, hl⟩ := decomp1 hc
  subst h
  have : (a ++ c :: b)[i + 1]? = b[0]? := by
    rw [List.getElem?_append_right (by omega)]
    simp [hl]
  rw [this] at hd
  cases b with
  | nil => simp at hd
  | cons d' b' =>
    simp at hd; subst hd
    exact ⟨a, b', rfl, hl⟩

/-- pairing facts for a list written as `a ++ c :: b` -/
theorem paired_decomp1 {a b : List Cell} {c : Cell} (h : pairThrough false (a ++ c :: b) = some false) :
    ∃ p, pairThrough false a = some p ∧ c.cont = p ∧ pairThrough c.wide b = some false := by
  rw [pairThrough_append] at h
  cases h1 : pairThrough false a with
  | none => simp [h1] at h
  | some p =>
    simp only [h1, Option.bind_some] at h
    obtain ⟨h2, h3⟩ := pairThrough_head h
    exact ⟨p, rfl, h2, h3⟩

theorem cellsInv_of_append {a b : List Cell} (h : CellsInv W (a ++ b)) :
    (∀ c ∈ a, cellOk W c = true) ∧ (∀ c ∈ b, cellOk W c = true) :=
  ⟨fun c hc => h.cells_ok c (List.mem_append_left _ hc), fun c hc => h.cells_ok c (List.mem_append_right _ hc)⟩

/-- `Row::remove(i)` (one step of DCH): total on a well-formed row, keeps it well-formed, one cell
shorter, unwrapped -/
theorem remove_ok {r : Row} {i : Nat} (hinv : CellsInv W r.cells) (hi : i < r.cells.length) :
    ∃ r', r.remove i = .ok r' ∧ CellsInv W r'.cells ∧ r'.cells.length = r.cells.length - 1 ∧
      r'.wrapped = false := by
  obtain ⟨cs, wr⟩ := r
  simp only at hinv hi ⊢
  have hc := List.getElem?_eq_getElem hi
  generalize cs[i] = c at hc
  have hcok := hinv.cells_ok c (List.mem_of_getElem? hc)
  by_cases hw : c.wide = true
  · obtain ⟨d, hd, hdc⟩ := paired_wide_next hc hinv.paired hw
    have hdok := hinv.cells_ok d (List.mem_of_getElem? hd)
    obtain ⟨a, b, rfl, hl⟩ := decomp2 hc hd
    obtain ⟨p, e1, e2, e3⟩ := paired_decomp1 hinv.paired
    obtain ⟨e4, e5⟩ := pairThrough_head e3
    have hcc : c.cont = false := by
      by_cases h : c.cont = true
      · have := (cellOk_cont W c hcok h).1; simp [hw] at this
      · simpa using h
    have hdw : d.wide = false := (cellOk_cont W d hdok hdc).1
    subst hl
    refine ⟨⟨a ++ d.clear d.attrs :: b, false⟩, ?_, ?_, by simp, rfl⟩
    · simp [Row.remove, Row.clearWide, getM, Cell.isWide, hw, modifyM, removeM, List.getElem?_append_right,
        List.set_append_right, List.eraseIdx_append_of_length_le]
    · constructor
      · intro x hx
        rcases List.mem_append.mp hx with hx | hx
        · exact hinv.cells_ok x (by simp [hx])
        · rcases List.mem_cons.mp hx with rfl | hx
          · exact cellOk_clear W d d.attrs hdok
          · exact hinv.cells_ok x (by simp [hx])
      · have := pairThrough_splice (mid := [d.clear d.attrs]) (b := b) e1
          (by simp [pairThrough, Cell.clear, ← e2, hcc] : pairThrough p [d.clear d.attrs] = some false)
          (by simpa [hdw] using e5)
        simpa using this
  · have hw' : c.wide = false := by simpa using hw
    by_cases hcc : c.cont = true
    · obtain ⟨j, p, rfl, hp, hpw⟩ := paired_cont_prev hc hinv.paired hcc
      have hpok := hinv.cells_ok p (List.mem_of_getElem? hp)
      obtain ⟨a, b, rfl, hl⟩ := decomp2 hp hc
      obtain ⟨q, e1, e2, e3⟩ := paired_decomp1 hinv.paired
      obtain ⟨e4, e5⟩ := pairThrough_head e3
      have hpc : p.cont = false := by
        by_cases h : p.cont = true
        · have := (cellOk_cont W p hpok h).1; simp [hpw] at this
        · simpa using h
      subst hl
      refine ⟨⟨a ++ p.clear p.attrs :: b, false⟩, ?_, ?_, by simp, rfl⟩
      · simp [Row.remove, Row.clearWide, getM, Cell.isWide, hw', Cell.isWideContinuation, hcc, modifyM,
          removeM, List.getElem?_append_right, List.set_append_right, List.eraseIdx_append_of_length_le, subM]
      · constructor
        · intro x hx
          rcases List.mem_append.mp hx with hx | hx
          · exact hinv.cells_ok x (by simp [hx])
          · rcases List.mem_cons.mp hx with rfl | hx
            · exact cellOk_clear W p p.attrs hpok
            · exact hinv.cells_ok x (by simp [hx])
        · have := pairThrough_splice (mid := [p.clear p.attrs]) (b := b) e1
            (by simp [pairThrough, Cell.clear, ← e2, hpc] : pairThrough q [p.clear p.attrs] = some false)
            (by simpa [hw'] using e5)
          simpa using this
    · have hcc' : c.cont = false := by simpa using hcc
      obtain ⟨a, b, rfl, hl⟩ := decomp1 hc
      obtain ⟨q, e1, e2, e3⟩ := paired_decomp1 hinv.paired
      subst hl
      refine ⟨⟨a ++ b, false⟩, ?_, ?_, by simp, rfl⟩
      · simp [Row.remove, Row.clearWide, getM, Cell.isWide, hw', Cell.isWideContinuation, hcc', removeM,
          List.getElem?_append_right, List.eraseIdx_append_of_length_le]
      · constructor
        · intro x hx
          rcases List.mem_append.mp hx with hx | hx
          · exact hinv.cells_ok x (by simp [hx])
          · exact hinv.cells_ok x (by simp [hx])
        · rw [pairThrough_append, e1]
          simp only [Option.bind_some]
          rw [← e2, hcc']; rw [hw'] at e3; exact e3

end Vt

namespace Vt
set_option linter.unusedSimpArgs false
variable (W : Nat → Option Nat)

theorem cellOk_new' : cellOk W Cell.new = true := by simp [cellOk, Cell.new, Utf8.fromUtf8]

theorem pairThrough_replicate_new (n : Nat) : pairThrough false (List.replicate n Cell.new) = some false := by
  induction n with
  | zero => rfl
  | succ n ih => simp [List.replicate_succ, pairThrough, Cell.new] at ih ⊢; exact ih

/-- appending blank cells keeps a row well-formed -/
theorem cellsInv_append_blank {cs : List Cell} (n : Nat) (h : CellsInv W cs) :
    CellsInv W (cs ++ List.replicate n Cell.new) := by
  constructor
  · intro x hx
    rcases List.mem_append.mp hx with hx | hx
    · exact h.cells_ok x hx
    · rw [(List.mem_replicate.mp hx).2]; exact cellOk_new' W
  · rw [pairThrough_append, h.paired]
    exact pairThrough_replicate_new n

/-- cutting a well-formed row after `n ≥ 1` cells and blanking a wide character left in the last
column keeps it well-formed (`Row::truncate`, and `Row::resize` after the fix 15f47d5) -/
theorem cellsInv_cut {cs : List Cell} {n : Nat} {c : Cell} (h : CellsInv W cs) (hc : cs[n]? = some c) :
    CellsInv W (cs.take n ++ [if c.wide then c.clear c.attrs else c]) := by
  obtain ⟨a, b, rfl, hl⟩ := decomp1 hc
  obtain ⟨p, e1, e2, e3⟩ := paired_decomp1 h.paired
  have hcok := h.cells_ok c (by simp)
  subst hl
  simp only [List.take_left']
  constructor
  · intro x hx
    rcases List.mem_append.mp hx with hx | hx
    · exact h.cells_ok x (by simp [hx])
    · simp only [List.mem_singleton] at hx
      rw [hx]; split
      · exact cellOk_clear W c c.attrs hcok
      · exact hcok
  · rw [pairThrough_append, e1]
    simp only [Option.bind_some, pairThrough]
    by_cases hw : c.wide = true
    · have hcc : c.cont = false := by
        by_cases h' : c.cont = true
        · have := (cellOk_cont W c hcok h').1; simp [hw] at this
        · simpa using h'
      simp [hw, Cell.clear, ← e2, hcc]
    · have hw' : c.wide = false := by simpa using hw
      simp [hw', e2]

theorem take_succ_of_getElem? {α} {cs : List α} {m : Nat} {c : α} (hc : cs[m]? = some c) :
    cs.take (m + 1) = cs.take m ++ [c] := by
  rw [List.take_add_one, hc]; rfl

theorem set_last_of_take {α} {cs : List α} {m : Nat} (hm : m ≤ cs.length) (c c' : α) :
    (cs.take m ++ [c]).set m c' = cs.take m ++ [c'] := by
  rw [List.set_append_right _ _ (by simp [List.length_take, Nat.min_eq_left hm])]
  simp [List.length_take, Nat.min_eq_left hm]

/-- `Row::truncate(len)` for `1 ≤ len ≤ length` -/
theorem truncate_ok {r : Row} {len : Nat} (hinv : CellsInv W r.cells) (h1 : 1 ≤ len) (h2 : len ≤ r.cells.length) :
    ∃ r', r.truncate len = .ok r' ∧ CellsInv W r'.cells ∧ r'.cells.length = len ∧ r'.wrapped = false := by
  obtain ⟨m, rfl⟩ : ∃ m, len = m + 1 := ⟨len - 1, by omega⟩
  have hi : m < r.cells.length := by omega
  have hc := List.getElem?_eq_getElem hi
  generalize r.cells[m] = c at hc
  refine ⟨⟨r.cells.take m ++ [if c.wide then c.clear c.attrs else c], false⟩, ?_,
    cellsInv_cut W hinv hc, by simp [List.length_take]; omega, rfl⟩
  have hget : (r.cells.take m ++ [c])[m]? = some c := by
    rw [List.getElem?_append_right (by simp [List.length_take]; omega)]
    simp [List.length_take, Nat.min_eq_left (Nat.le_of_lt hi)]
  simp only [Row.truncate, subM_ok h1, ok_bind, Nat.add_sub_cancel, take_succ_of_getElem? hc, modifyM,
    hget, pure_eq_ok, Cell.isWide, set_last_of_take (Nat.le_of_lt hi)]
  rfl

/-- `Row::resize(len, Cell::new())` for `len ≥ 1` (the fixed version: a cut wide character is blanked) -/
theorem resize_inv {r : Row} {len : Nat} (hinv : CellsInv W r.cells) (h1 : 1 ≤ len) :
    CellsInv W (r.resize len Cell.new).cells ∧ (r.resize len Cell.new).cells.length = len ∧
      (r.resize len Cell.new).wrapped = false := by
  have hlen : (resizeList r.cells len Cell.new).length = len := by
    simp [resizeList, List.length_take]; omega
  refine ⟨?_, ?_, by simp [Row.resize]⟩
  · simp only [Row.resize]
    by_cases hle : len ≤ r.cells.length
    · -- shrink (or keep): take len, then blank a wide last cell
      obtain ⟨m, rfl⟩ : ∃ m, len = m + 1 := ⟨len - 1, by omega⟩
      have hi : m < r.cells.length := by omega
      have e : resizeList r.cells (m + 1) Cell.new = r.cells.take (m + 1) := by
        simp [resizeList, Nat.sub_eq_zero_of_le hle]
      have hc := List.getElem?_eq_getElem hi
      generalize r.cells[m] = c at hc
      rw [e, take_succ_of_getElem? hc]
      have hcut := cellsInv_cut W hinv hc
      simp only [List.getLast?_append, List.getLast?_singleton, Option.some_or, Cell.isWide,
        List.length_append, List.length_take, Nat.min_eq_left (Nat.le_of_lt hi), List.length_cons,
        List.length_nil, Nat.zero_add, Nat.add_sub_cancel]
      split
      · rename_i hw
        simp only [hw, ↓reduceIte] at hcut
        rw [set_last_of_take (Nat.le_of_lt hi)]; exact hcut
      · rename_i hw
        have hw' : c.wide = false := by simpa using hw
        simpa only [hw', Bool.false_eq_true, ↓reduceIte] using hcut
    · -- grow: the old cells followed by blanks; the last cell is blank, not wide
      have hgt : r.cells.length < len := by omega
      have e : resizeList r.cells len Cell.new = r.cells ++ List.replicate (len - r.cells.length) Cell.new := by
        simp [resizeList, List.take_of_length_le (Nat.le_of_lt hgt)]
      rw [e]
      have hlast : (r.cells ++ List.replicate (len - r.cells.length) Cell.new).getLast? = some Cell.new := by
        rw [List.getLast?_append]
        have : (List.replicate (len - r.cells.length) Cell.new).getLast? = some Cell.new := by
          rw [List.getLast?_replicate]; simp; omega
        simp [this]
      rw [hlast]
      have hnw : Cell.new.isWide = false := rfl
      simp only [hnw, Bool.false_eq_true, ↓reduceIte]
      exact cellsInv_append_blank W _ hinv
  · simp only [Row.resize]
    split
    · split <;> simp [hlen]
    · exact hlen

end Vt
