/-
  Vt.Lemmas.RowOps — closed forms of the row.rs mutators under the row invariant, and
  preservation of the invariant.
-/
import Vt.Lemmas.RowInv
namespace Vt
set_option linter.unusedSimpArgs false

variable (W : Nat → Option Nat)

/-- closed form of the cells after `Row::erase(i, attrs)` -/
def eraseCells (cs : List Cell) (i : Nat) (a : Attrs) : List Cell :=
  match cs[i]? with
  | none => cs
  | some c =>
    if c.wide then
      match cs[i + 1]? with
      | some d => (cs.set (i + 1) (d.clear d.attrs)).set i (c.clear a)
      | none => cs
    else if c.cont then
      match cs[i - 1]? with
      | some p => (cs.set (i - 1) (p.clear p.attrs)).set i (c.clear a)
      | none => cs
    else cs.set i (c.clear a)

theorem eraseCells_length (cs : List Cell) (i : Nat) (a : Attrs) :
    (eraseCells cs i a).length = cs.length := by
  unfold eraseCells
  split
  · rfl
  · split
    · split <;> simp
    · split
      · split <;> simp
      · simp

/-- `Row::erase(i)` never fails on a well-formed row and equals the closed form; the wrap flag is
cleared exactly when the last column is blanked (cell `i` is the last cell, or a wide character
whose second half is the last cell) -/
theorem erase_eq {r : Row} {i : Nat} {a : Attrs} {c : Cell} (hinv : CellsInv W r.cells)
    (hc : r.cells[i]? = some c) :
    r.erase i a = .ok { cells := eraseCells r.cells i a,
                        wrapped := if i = r.cells.length - (if c.wide then 2 else 1) then false else r.wrapped } := by
  have hi := getElem?_lt hc
  by_cases hw : c.wide = true
  · obtain ⟨d, hd, hdc⟩ := paired_wide_next hc hinv.paired hw
    have hi1 := getElem?_lt hd
    have hlen2 : 2 ≤ r.cells.length := by omega
    simp only [Row.erase, getM, hc, ok_bind, pure_bind', Row.clearWide, Cell.isWide, hw, ↓reduceIte,
      modifyM, hd, pure_eq_ok, List.getElem?_set, hi1, hi, show ¬ (i + 1 = i) by omega,
      List.length_set, subM_ok hlen2, eraseCells]
    simp [beq_iff_eq]
  · have hw' : c.wide = false := by simpa using hw
    by_cases hcc : c.cont = true
    · obtain ⟨j, p, rfl, hp, hpw⟩ := paired_cont_prev hc hinv.paired hcc
      have hj := getElem?_lt hp
      have hlen1 : 1 ≤ r.cells.length := by omega
      simp only [Row.erase, getM, hc, ok_bind, pure_bind', Row.clearWide, Cell.isWide, hw',
        Bool.false_eq_true, ↓reduceIte, Cell.isWideContinuation, hcc, subM_ok (show 1 ≤ j + 1 by omega),
        Nat.add_sub_cancel, modifyM, hp, pure_eq_ok, List.getElem?_set, hj, hi,
        show ¬ (j = j + 1) by omega, List.length_set, subM_ok hlen1, eraseCells]
      simp [beq_iff_eq]
    · have hcc' : c.cont = false := by simpa using hcc
      have hlen1 : 1 ≤ r.cells.length := by omega
      simp only [Row.erase, getM, hc, ok_bind, pure_bind', Row.clearWide, Cell.isWide, hw',
        Bool.false_eq_true, ↓reduceIte, Cell.isWideContinuation, hcc', modifyM, pure_eq_ok,
        List.length_set, subM_ok hlen1, eraseCells]
      simp [beq_iff_eq]

theorem mem_set_cases {α} {l : List α} {i : Nat} {x y : α} (h : y ∈ l.set i x) : y = x ∨ y ∈ l := by
  rcases List.mem_or_eq_of_mem_set h with h | h
  · exact Or.inr h
  · exact Or.inl h

/-- the closed form keeps the row invariant -/
theorem eraseCells_inv {cs : List Cell} (i : Nat) (a : Attrs) (hinv : CellsInv W cs) :
    CellsInv W (eraseCells cs i a) := by
  unfold eraseCells
  cases hc : cs[i]? with
  | none => exact hinv
  | some c =>
    have hcok := hinv.cells_ok c (List.mem_of_getElem? hc)
    simp only
    by_cases hw : c.wide = true
    · simp only [hw, ↓reduceIte]
      obtain ⟨d, hd, hdc⟩ := paired_wide_next hc hinv.paired hw
      have hdok := hinv.cells_ok d (List.mem_of_getElem? hd)
      simp only [hd]
      constructor
      · intro x hx
        rcases mem_set_cases hx with rfl | hx
        · exact cellOk_clear W c a hcok
        · rcases mem_set_cases hx with rfl | hx
          · exact cellOk_clear W d d.attrs hdok
          · exact hinv.cells_ok x hx
      · have hcc : c.cont = false := by
          by_cases h : c.cont = true
          · have := (cellOk_cont W c hcok h).1; simp [hw] at this
          · simpa using h
        have hdw : d.wide = false := (cellOk_cont W d hdok hdc).1
        have hswap : (cs.set (i + 1) (d.clear d.attrs)).set i (c.clear a)
            = (cs.set i (c.clear a)).set (i + 1) (d.clear d.attrs) := by
          rw [List.set_comm _ _ (by omega)]
        rw [hswap]
        exact pairThrough_set2 hc hd hinv.paired (by simp [Cell.clear, hcc]) (by simp [Cell.clear])
          (by simp [Cell.clear, hdw])
    · have hw' : c.wide = false := by simpa using hw
      simp only [hw', Bool.false_eq_true, ↓reduceIte]
      by_cases hcc : c.cont = true
      · simp only [hcc, ↓reduceIte]
        obtain ⟨j, p, rfl, hp, hpw⟩ := paired_cont_prev hc hinv.paired hcc
        have hpok := hinv.cells_ok p (List.mem_of_getElem? hp)
        simp only [Nat.add_sub_cancel, hp]
        constructor
        · intro x hx
          rcases mem_set_cases hx with rfl | hx
          · exact cellOk_clear W c a hcok
          · rcases mem_set_cases hx with rfl | hx
            · exact cellOk_clear W p p.attrs hpok
            · exact hinv.cells_ok x hx
        · have hpc : p.cont = false := by
            by_cases h : p.cont = true
            · have := (cellOk_cont W p hpok h).1; simp [hpw] at this
            · simpa using h
          exact pairThrough_set2 hp hc hinv.paired (by simp [Cell.clear, hpc]) (by simp [Cell.clear])
            (by simp [Cell.clear, hw'])
      · have hcc' : c.cont = false := by simpa using hcc
        simp only [hcc', Bool.false_eq_true, ↓reduceIte]
        constructor
        · intro x hx
          rcases mem_set_cases hx with rfl | hx
          · exact cellOk_clear W c a hcok
          · exact hinv.cells_ok x hx
        · exact pairThrough_set hc hinv.paired (by simp [Cell.clear, hcc']) (by simp [Cell.clear, hw'])

end Vt
