/-
  Vt.Lemmas.Canvas — the receiving grid during a redraw, and what each emitted piece does to it.

  `Canvas g`: a live grid with the full screen as scroll region and origin mode off — what a new parser
  is, and what every full redraw leaves behind.
  * `goto_eq` / `step_goto` : `move_from_to(from, to)` processed with the cursor at `from` puts the
    cursor at `to` and changes nothing else (CRLF, CUF n and CUP variants alike).
-/
import Vt.Lemmas.Recv
import Vt.Props.C08
import Vt.Props.C05
import Vt.Lemmas.RowInv
namespace Vt.Recv
open Vt Vt.Tok Vt.C09
set_option linter.unusedSimpArgs false

variable (W : Nat → Option Nat) (cb : CbPolicy)

structure Canvas (g : Grid) : Prop where
  rows_pos : 1 ≤ g.size.rows
  cols_pos : 1 ≤ g.size.cols
  rows_u16 : g.size.rows ≤ 65535
  cols_u16 : g.size.cols ≤ 65535
  top : g.scrollTop = 0
  bottom : g.scrollBottom = g.size.rows - 1
  origin : g.originMode = false
  alloc : g.rows.length = g.size.rows
  width : ∀ r ∈ g.rows, r.cells.length = g.size.cols

def withPos (g : Grid) (p : Pos) : Grid := { g with pos := p }

theorem canvas_withPos {g : Grid} (h : Canvas g) (p : Pos) : Canvas (withPos g p) :=
  ⟨h.rows_pos, h.cols_pos, h.rows_u16, h.cols_u16, h.top, h.bottom, h.origin, h.alloc, h.width⟩

/-- CUP to a position on the screen -/
theorem setPos_eq {g : Grid} (h : Canvas g) (p : Pos) (hr : p.row < g.size.rows) (hc : p.col < g.size.cols) :
    g.setPos p = .ok (withPos g p) := by
  rw [C06.cup_spec g ⟨h.rows_pos, h.cols_pos⟩]
  simp only [C06.cupPos, h.origin, Bool.false_eq_true, ↓reduceIte, Bool.false_and, withPos]
  have e1 : min p.row (g.size.rows - 1) = p.row := by omega
  have e2 : min p.col (g.size.cols - 1) = p.col := by omega
  rw [e1, e2]

/-- CR LF with a line below -/
theorem crlf_eq {g : Grid} (h : Canvas g) (hrow : g.pos.row + 1 < g.size.rows) :
    (g.colSet 0 >>= fun g => g.rowIncScroll 1 >>= fun q => pure q.1) = .ok (withPos g ⟨g.pos.row + 1, 0⟩) := by
  rw [C06.cr_spec g ⟨h.rows_pos, h.cols_pos⟩]
  simp only [ok_bind]
  have hin : ({ g with pos := ⟨g.pos.row, 0⟩ } : Grid).inScrollRegion = true := by
    simp [Grid.inScrollRegion, h.top, h.bottom]; omega
  have := C08.lf_inside ({ g with pos := ⟨g.pos.row, 0⟩ } : Grid) h.rows_pos
    (by rw [hin]; simp only [↓reduceIte, h.bottom]; omega) (by have := h.rows_u16; simp only; omega)
    (by simp [h.top])
  rw [this]
  rfl

/-- CUF n staying on the line -/
theorem cuf_eq {g : Grid} (h : Canvas g) (n : Nat) (hn : g.pos.col + n < g.size.cols) :
    g.colIncClamp n = .ok (withPos g ⟨g.pos.row, g.pos.col + n⟩) := by
  rw [C06.cuf_spec g ⟨h.rows_pos, h.cols_pos⟩]
  have := h.cols_u16
  have e : min (min (g.pos.col + n) 65535) (g.size.cols - 1) = g.pos.col + n := by omega
  rw [e]; rfl

/-- what `move_from_to(frm, to)` does to the receiver: the function the bytes stand for -/
def gotoF (frm to : Pos) (r : RS) : M RS :=
  if to.row == frm.row + 1 && to.col == 0 then
    (r.g.colSet 0 >>= fun g => g.rowIncScroll 1 >>= fun q => pure q.1) >>= fun g' => pure { r with g := g' }
  else if frm.row == to.row && frm.col < to.col then
    (if to.col - frm.col = 0 then pure r.g else r.g.colIncClamp (to.col - frm.col)) >>= fun g' => pure { r with g := g' }
  else if to != frm then r.g.setPos to >>= fun g' => pure { r with g := g' }
  else pure r

theorem step_moveFromTo (frm to : Pos) (hr : to.row + 1 ≤ 65535) (hc : to.col + 1 ≤ 65535) :
    Step W cb (Term.moveFromTo frm to) (gotoF frm to) := by
  unfold Term.moveFromTo gotoF
  split
  · exact step_crlf W cb
  · split
    · exact step_moveRight W cb _ (by omega)
    · split
      · exact step_moveTo W cb to hr hc
      · exact step_nil W cb

/-- **goto**: with the cursor at `frm` (any column up to the pending-wrap one) and `to` on the screen,
`move_from_to` leaves the cursor at `to`; nothing else changes -/
theorem goto_eq {r : RS} (h : Canvas r.g) (frm to : Pos) (hfrm : r.g.pos = frm)
    (hto_r : to.row < r.g.size.rows) (hto_c : to.col < r.g.size.cols) :
    gotoF frm to r = .ok { r with g := withPos r.g to } := by
  unfold gotoF
  by_cases h1 : (to.row == frm.row + 1 && to.col == 0) = true
  · simp only [h1, ↓reduceIte]
    simp only [Bool.and_eq_true, beq_iff_eq] at h1
    rw [crlf_eq h (by rw [hfrm]; omega)]
    simp only [ok_bind, pure_eq_ok, Except.ok.injEq, hfrm]
    obtain ⟨tr, tc⟩ := to
    simp only at h1
    simp [h1.1, h1.2]
  · simp only [h1, Bool.false_eq_true, ↓reduceIte]
    by_cases h2 : (frm.row == to.row && decide (frm.col < to.col)) = true
    · simp only [h2, ↓reduceIte]
      simp only [Bool.and_eq_true, beq_iff_eq, decide_eq_true_eq] at h2
      have hne : ¬ to.col - frm.col = 0 := by omega
      simp only [hne, ↓reduceIte]
      rw [cuf_eq h _ (by rw [hfrm]; omega)]
      simp only [ok_bind, pure_eq_ok, Except.ok.injEq, hfrm]
      obtain ⟨tr, tc⟩ := to
      simp only at h2
      have : frm.col + (tc - frm.col) = tc := by omega
      simp [h2.1, this]
    · simp only [h2, Bool.false_eq_true, ↓reduceIte]
      by_cases h3 : (to != frm) = true
      · simp only [h3, ↓reduceIte]
        rw [setPos_eq h to hto_r hto_c]
        rfl
      · simp only [h3, Bool.false_eq_true, ↓reduceIte, pure_eq_ok, Except.ok.injEq]
        have : to = frm := by simpa using h3
        rw [this, ← hfrm]
        rfl

end Vt.Recv

/-! ### typing one character -/
namespace Vt.Recv
open Vt
set_option linter.unusedSimpArgs false

variable (W : Nat → Option Nat)

/-- the grid after the cells of the cursor line have been replaced and the cursor has moved to column `c'` -/
def typed (g : Grid) (row : Row) (cells : List Cell) (c' : Nat) : Grid :=
  { g with rows := g.rows.set g.pos.row { row with cells := cells }, pos := ⟨g.pos.row, c'⟩ }

/-- the second half written after a wide character -/
def contCell (c : Cell) : Cell := (c.clear Attrs.default).setWideContinuation true

/-- a width-1 character with room on the line, on a plain cell -/
theorem type_narrow {g : Grid} (hu : g.size.cols ≤ 65535) (a : Attrs) (c : Nat) (row : Row) (cell : Cell)
    (hw : (W c).getD 1 = 1) (hnc : ¬ (W c = none ∧ c < 256))
    (hcol : g.pos.col + 1 ≤ g.size.cols) (hrow : g.rows[g.pos.row]? = some row)
    (hcell : row.cells[g.pos.col]? = some cell) (hcw : cell.wide = false) (hcc : cell.cont = false) :
    ∃ cell', cell.set W c a = .ok cell' ∧
      g.text W a c = .ok (typed g row (row.cells.set g.pos.col cell') (g.pos.col + 1)) := by
  obtain ⟨cell', e1, e2⟩ := C05.text_narrow_fits W g a c row cell hw hnc hcol hrow hcell hcw hcc
  refine ⟨cell', e1, ?_⟩
  rw [e2]
  have : min (g.pos.col + 1) 65535 = g.pos.col + 1 := by omega
  simp [typed, this]

/-- a character of width ≥ 2 with room on the line, on two plain cells -/
theorem type_wide {g : Grid} (hu : g.size.cols ≤ 65535) (a : Attrs) (c w : Nat) (row : Row) (cell0 cell1 : Cell)
    (hw : min ((W c).getD 1) 2 = w) (hw2 : 2 ≤ w) (hnc : ¬ (W c = none ∧ c < 256))
    (hcol : g.pos.col + w ≤ g.size.cols) (hrow : g.rows[g.pos.row]? = some row)
    (hcell0 : row.cells[g.pos.col]? = some cell0) (h0w : cell0.wide = false) (h0c : cell0.cont = false)
    (hcell1 : row.cells[g.pos.col + 1]? = some cell1) (h1w : cell1.wide = false) :
    ∃ cell', cell0.set W c a = .ok cell' ∧
      g.text W a c = .ok (typed g row ((row.cells.set g.pos.col cell').set (g.pos.col + 1) (contCell cell1))
        (g.pos.col + 2)) := by
  have hl : (Utf8.encode c).length ≤ 22 := by have := C05.encode_length_le c; omega
  refine ⟨_, C05.cell_set_spec W cell0 c a hl, ?_⟩
  have h1' : ((W c).isNone && decide (c < 256)) = false := by
    cases hn : (W c).isNone <;> simp_all
  have hcw : w ≤ g.size.cols := by omega
  have hlim : ¬ g.pos.col > g.size.cols - w := by omega
  have hw0 : (w == 0) = false := by rw [beq_eq_false_iff_ne]; omega
  have hgt : w > 1 := by omega
  have hi0 := getElem?_lt hcell0
  have hi1 := getElem?_lt hcell1
  simp only [Grid.text, h1', Bool.false_eq_true, ↓reduceIte, hw, show ¬ (w > g.size.cols) by omega,
    Grid.wrapDecision, subM_ok hcw, ok_bind, hlim, pure_bind', pure_eq_ok, Grid.colWrap, hw0, Grid.textWide,
    Grid.modifyCurrentRow, modifyM, hrow, Grid.textWideRow, getM, hcell0, Cell.isWideContinuation, h0c,
    Cell.isWide, h0w, C05.cell_set_spec W cell0 c a hl, hgt, List.getElem?_set, hi0, hi1, hcell1,
    show ¬ (g.pos.col = g.pos.col + 1) by omega, h1w, List.length_set]
  have e1 : satAddU16 (satAddU16 g.pos.col 1) 1 = g.pos.col + 2 := by
    simp only [satAddU16, U16_MAX]; omega
  simp [typed, contCell, Grid.colInc, e1]

end Vt.Recv

namespace Vt.Recv
open Vt
set_option linter.unusedSimpArgs false

variable (W : Nat → Option Nat)

/-- a zero-width character with the cursor past column 0: appended to the cell before the cursor (to the
first half when that cell is the second half of a wide character); the cursor does not move -/
theorem type_zero {g : Grid} (a : Attrs) (z : Nat) (row : Row) (prev tc tc' : Cell) (t : Nat)
    (hw : W z = some 0) (hcol0 : 0 < g.pos.col) (hcol : g.pos.col ≤ g.size.cols)
    (hrow : g.rows[g.pos.row]? = some row) (hprev : row.cells[g.pos.col - 1]? = some prev)
    (ht : t = if prev.cont then g.pos.col - 2 else g.pos.col - 1) (h2 : prev.cont = true → 2 ≤ g.pos.col)
    (htc : row.cells[t]? = some tc) (happ : tc.append z = .ok tc') :
    g.text W a z = .ok { g with rows := g.rows.set g.pos.row { row with cells := row.cells.set t tc' } } := by
  have h1' : ((W z).isNone && decide (z < 256)) = false := by simp [hw]
  have hlim : ¬ g.pos.col > g.size.cols := by omega
  simp only [Grid.text, h1', Bool.false_eq_true, ↓reduceIte, hw, Option.getD_some, show min 0 2 = 0 by rfl, Nat.not_lt_zero, gt_iff_lt,
    Grid.wrapDecision, subM_ok (Nat.zero_le _), Nat.sub_zero, ok_bind, hlim, pure_bind', pure_eq_ok, Grid.colWrap,
    beq_self_eq_true, Grid.textZero, hcol0, Grid.appendToPrev, Grid.drawingCellM, Grid.drawingCell,
    Grid.drawingRow, hrow, Option.bind_some, Row.get, hprev, Cell.isWideContinuation]
  by_cases hc : prev.cont = true
  · have h2' := h2 hc
    simp only [hc, ↓reduceIte] at ht ⊢
    subst ht
    have e : g.pos.col - 1 - 1 = g.pos.col - 2 := by omega
    simp only [subM_ok (show 1 ≤ g.pos.col - 1 by omega), ok_bind, Grid.modifyCellM, modifyM, hrow, e, htc, happ,
      pure_bind', pure_eq_ok]
    simp
  · have hc' : prev.cont = false := by simpa using hc
    simp only [hc', Bool.false_eq_true, ↓reduceIte] at ht ⊢
    subst ht
    simp only [Grid.modifyCellM, modifyM, hrow, htc, happ, ok_bind, pure_bind', pure_eq_ok]
    simp

end Vt.Recv

/-! ### typing at the pending-wrap position -/
namespace Vt.Recv
open Vt
set_option linter.unusedSimpArgs false

variable (W : Nat → Option Nat)

/-- the grid after the deferred wrap has happened: the line is flagged, the cursor is at the start of the next -/
def wrapNext (g : Grid) (row : Row) : Grid :=
  { g with rows := g.rows.set g.pos.row (row.wrap true), pos := ⟨g.pos.row + 1, 0⟩ }

/-- a character of width ≥ 1 typed at the pending-wrap position, with a line below and the last column
occupied: the wrap happens first (flagging the line), then the character is typed at the start of the next line -/
theorem text_wraps {g : Grid} (h : Canvas g) (a : Attrs) (c w : Nat) (row : Row) (last : Cell)
    (hw : min ((W c).getD 1) 2 = w) (hw1 : 1 ≤ w) (hwc : w ≤ g.size.cols) (hnc : ¬ (W c = none ∧ c < 256))
    (hcol : g.pos.col = g.size.cols) (hrow : g.rows[g.pos.row]? = some row) (hnext : g.pos.row + 1 < g.size.rows)
    (hlast : row.cells[g.size.cols - 1]? = some last) (hocc : (last.hasContents || last.cont) = true) :
    g.text W a c = (wrapNext g row).text W a c := by
  have h1' : ((W c).isNone && decide (c < 256)) = false := by
    cases hn : (W c).isNone <;> simp_all
  have hlim : g.pos.col > g.size.cols - w := by omega
  have hw0 : (w == 0) = false := by rw [beq_eq_false_iff_ne]; omega
  have hc1 := h.cols_pos
  -- the wrap decision and col_wrap on g
  have hdec : g.wrapDecision w = .ok true := by
    simp only [Grid.wrapDecision, subM_ok hwc, ok_bind, hlim, ↓reduceIte, subM_ok hc1, Grid.drawingCellM,
      Grid.drawingCell, Grid.drawingRow, hrow, Option.bind_some, Row.get, hlast, pure_bind', Cell.isWideContinuation,
      pure_eq_ok, Except.ok.injEq]
    exact hocc
  have hin : ({ g with pos := ⟨g.pos.row, 0⟩ } : Grid).inScrollRegion = true := by
    simp [Grid.inScrollRegion, h.top, h.bottom]; omega
  have hlf := C08.lf_inside ({ g with pos := ⟨g.pos.row, 0⟩ } : Grid) h.rows_pos
    (by rw [hin]; simp only [↓reduceIte, h.bottom]; omega) (by have := h.rows_u16; simp only; omega)
    (by simp [h.top])
  have hcw : g.colWrap w true = .ok (wrapNext g row) := by
    simp only [Grid.colWrap, subM_ok hwc, ok_bind, hlim, ↓reduceIte]
    have : ({ g with pos := { g.pos with col := 0 } } : Grid) = { g with pos := ⟨g.pos.row, 0⟩ } := rfl
    rw [this, hlf]
    simp only [ok_bind, Nat.lt_irrefl, gt_iff_lt, decide_false, Bool.false_and, Bool.false_eq_true, ↓reduceIte,
      subM_ok (Nat.zero_le _), Nat.sub_zero, modifyM, hrow, pure_bind', pure_eq_ok, beq_self_eq_true, Bool.and_self]
    rfl
  -- on the wrapped grid nothing wraps
  have hdec' : (wrapNext g row).wrapDecision w = .ok false := by
    have : ¬ (wrapNext g row).pos.col > (wrapNext g row).size.cols - w := by simp [wrapNext]
    simp only [Grid.wrapDecision, show (wrapNext g row).size = g.size from rfl, subM_ok hwc, ok_bind]
    simp only [show (wrapNext g row).size = g.size from rfl] at this
    simp [this]
  have hcw' : (wrapNext g row).colWrap w false = .ok (wrapNext g row) := by
    have : ¬ (wrapNext g row).pos.col > (wrapNext g row).size.cols - w := by simp [wrapNext]
    simp only [Grid.colWrap, show (wrapNext g row).size = g.size from rfl, subM_ok hwc, ok_bind]
    simp only [show (wrapNext g row).size = g.size from rfl] at this
    simp [this]
  simp only [Grid.text, h1', Bool.false_eq_true, ↓reduceIte, hw, show ¬ (w > g.size.cols) by omega, hdec, ok_bind,
    hcw, hw0, show (wrapNext g row).size = g.size from rfl, hdec', hcw']

end Vt.Recv
