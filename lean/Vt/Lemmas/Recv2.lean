/-
  Vt.Lemmas.Recv2 — more pieces of the receiving side: LF, DECSC (`ESC 7`), DECRC (`ESC 8`).
  These are the sequences the cursor fix-up of `write_cursor_position_formatted` uses when the source
  cursor sits in the pending-wrap column of a line whose last column is empty.
-/
import Vt.Lemmas.Canvas
namespace Vt.Recv
open Vt Vt.Tok Vt.C09
set_option linter.unusedSimpArgs false

variable (W : Nat → Option Nat) (cb : CbPolicy)

/-- LF -/
theorem step_lf :
    Step W cb [10] (fun r => (r.g.rowIncScroll 1 >>= fun q => pure q.1) >>= fun g' => pure { r with g := g' }) := by
  have ht : Tok [10] [.execute 10] := by
    have := tok_text [10] (by decide) (by decide)
    simpa [Vte.groundDispatch, Utf8.fromUtf8, Utf8.Res.cons] using this
  refine step_grid W cb ht (fun _ g => g.rowIncScroll 1 >>= fun q => pure q.1) ?_
  intro ws
  simp only [foldlM_single, perform, performExecute, Screen.lf]
  rfl

/-- LF with a line below: only the cursor row changes, whatever the column (the pending-wrap column too) -/
theorem lf_eq {g : Grid} (h : Canvas g) (hrow : g.pos.row + 1 < g.size.rows) :
    (g.rowIncScroll 1 >>= fun q => pure q.1) = .ok (withPos g ⟨g.pos.row + 1, g.pos.col⟩) := by
  have hin : g.inScrollRegion = true := by
    simp [Grid.inScrollRegion, h.top, h.bottom]; omega
  have := C08.lf_inside g h.rows_pos
    (by rw [hin]; simp only [↓reduceIte, h.bottom]; omega) (by have := h.rows_u16; omega)
    (by simp [h.top])
  rw [this]
  rfl

/-- `ESC 7`: the cursor and the pen are saved -/
theorem step_saveCursor :
    Step W cb Term.saveCursor (fun r => pure { g := r.g.saveCursor, pen := r.pen, saved := r.pen }) := by
  intro p hr r' hf
  simp only [pure_eq_ok, Except.ok.injEq] at hf
  subst hf
  obtain ⟨e, g, c⟩ := tok_esc 55 (Or.inl (by omega)) p.vte hr.1 hr.2
  have hm : p.ws.screen.modifyGrid (fun g => Except.ok g.saveCursor) = .ok (p.ws.screen.setCur p.ws.screen.cur.saveCursor) :=
    modifyGrid_ok_of rfl
  have hp : p.process W cb Term.saveCursor = .ok ⟨(p.vte.advance [0x1B, 55]).1,
      { p.ws with screen := { (p.ws.screen.setCur p.ws.screen.cur.saveCursor) with
          savedAttrs := (p.ws.screen.setCur p.ws.screen.cur.saveCursor).attrs } }⟩ := by
    simp only [Parser.process, Term.saveCursor, Term.ESC, e, foldlM_single, perform, performEsc, WS.onScreen,
      Screen.decsc, Screen.saveCursor, hm, ok_bind, pure_bind', pure_eq_ok]
  refine ⟨_, hp, ?_, g, c⟩
  simp only [withRS, rsOf, setCur_attrs]

/-- `ESC 8`: the cursor and the pen come back -/
theorem step_restoreCursor :
    Step W cb Term.restoreCursor (fun r => pure { g := r.g.restoreCursor, pen := r.saved, saved := r.saved }) := by
  intro p hr r' hf
  simp only [pure_eq_ok, Except.ok.injEq] at hf
  subst hf
  obtain ⟨e, g, c⟩ := tok_esc 56 (Or.inl (by omega)) p.vte hr.1 hr.2
  have hm : p.ws.screen.modifyGrid (fun g => Except.ok g.restoreCursor) = .ok (p.ws.screen.setCur p.ws.screen.cur.restoreCursor) :=
    modifyGrid_ok_of rfl
  have hp : p.process W cb Term.restoreCursor = .ok ⟨(p.vte.advance [0x1B, 56]).1,
      { p.ws with screen := { (p.ws.screen.setCur p.ws.screen.cur.restoreCursor) with
          attrs := (p.ws.screen.setCur p.ws.screen.cur.restoreCursor).savedAttrs } }⟩ := by
    simp only [Parser.process, Term.restoreCursor, Term.ESC, e, foldlM_single, perform, performEsc, WS.onScreen,
      Screen.decrc, Screen.restoreCursor, hm, ok_bind, pure_bind', pure_eq_ok]
  refine ⟨_, hp, ?_, g, c⟩
  simp only [withRS, rsOf]
  congr 1
  unfold Screen.setCur
  cases h : p.ws.screen.altScreen <;> simp [h]

end Vt.Recv
