/-
  Vt.Lemmas.VteOk — everything `Vte.advance` hands to `perform` is admissible: printed
  characters are Unicode scalar values and CSI parameters are within `u16`.
-/
import Vt.Model.Vte
import Vt.Lemmas.Utf8
namespace Vt
set_option linter.unusedSimpArgs false

/-- admissible actions (same predicate as `Vt.C13.ActionOk`, stated here for the vte side) -/
def ActOk : Action → Prop
  | .print c => isScalar c = true
  | .csiDispatch params _ _ _ => ∀ p ∈ params, ∀ x ∈ p, x ≤ 65535
  | _ => True

structure VteOk (v : Vte) : Prop where
  carry : ∀ b ∈ v.carry, b < 256
  param : v.param ≤ 65535
  params : ∀ p ∈ v.params, ∀ x ∈ p, x ≤ 65535
  cur : ∀ x ∈ v.cur, x ≤ 65535

theorem vteOk_new : VteOk Vte.new := ⟨by simp [Vte.new], by simp [Vte.new], by simp [Vte.new], by simp [Vte.new]⟩

theorem vteOk_state {v : Vte} (h : VteOk v) (s : VState) : VteOk { v with state := s } := ⟨h.1, h.2, h.3, h.4⟩
theorem vteOk_reset {v : Vte} (h : VteOk v) : VteOk v.resetParams :=
  ⟨h.1, by simp [Vte.resetParams], by simp [Vte.resetParams], by simp [Vte.resetParams]⟩
theorem vteOk_collect {v : Vte} (h : VteOk v) (b : Nat) : VteOk (v.actionCollect b) := by
  unfold Vte.actionCollect; split <;> exact ⟨h.1, h.2, h.3, h.4⟩
theorem vteOk_push {v : Vte} (h : VteOk v) : VteOk (v.pushParam v.param) := by
  refine ⟨h.1, h.2, ?_, by simp [Vte.pushParam]⟩
  intro p hp x hx
  simp only [Vte.pushParam, List.mem_append, List.mem_singleton] at hp
  rcases hp with hp | rfl
  · exact h.3 p hp x hx
  · simp only [List.mem_append, List.mem_singleton] at hx
    rcases hx with hx | rfl
    · exact h.4 x hx
    · exact h.2
theorem vteOk_param {v : Vte} (h : VteOk v) : VteOk v.actionParam := by
  unfold Vte.actionParam; split
  · exact ⟨h.1, h.2, h.3, h.4⟩
  · have := vteOk_push h; exact ⟨this.1, by simp, this.3, this.4⟩
theorem vteOk_subparam {v : Vte} (h : VteOk v) : VteOk v.actionSubparam := by
  unfold Vte.actionSubparam; split
  · exact ⟨h.1, h.2, h.3, h.4⟩
  · refine ⟨h.1, by simp, h.3, ?_⟩
    intro x hx
    simp only [Vte.extendParam, List.mem_append, List.mem_singleton] at hx
    rcases hx with hx | rfl
    · exact h.4 x hx
    · exact h.2
theorem vteOk_paramnext {v : Vte} (h : VteOk v) (b : Nat) : VteOk (v.actionParamnext b) := by
  unfold Vte.actionParamnext; split
  · exact ⟨h.1, h.2, h.3, h.4⟩
  · exact ⟨h.1, by simp; omega, h.3, h.4⟩
theorem vteOk_finish {v : Vte} (h : VteOk v) : VteOk v.finishParams := by
  unfold Vte.finishParams; split
  · exact ⟨h.1, h.2, h.3, h.4⟩
  · exact vteOk_push h

theorem paramsIter_ok {v : Vte} (h : VteOk v) : ∀ p ∈ v.paramsIter, ∀ x ∈ p, x ≤ 65535 := by
  intro p hp x hx
  simp only [Vte.paramsIter, List.mem_append] at hp
  rcases hp with hp | hp
  · exact h.3 p hp x hx
  · split at hp
    · simp at hp
    · simp only [List.mem_singleton] at hp; subst hp; exact h.4 x hx

/-- the result of one non-ground step: admissible actions, well-formed automaton -/
def StepGood (r : Vte × List Action) : Prop := VteOk r.1 ∧ ∀ a ∈ r.2, ActOk a

theorem good_noact {v : Vte} (h : VteOk v) : StepGood (v, []) := ⟨h, by simp⟩
theorem good_exec {v : Vte} (h : VteOk v) (b : Nat) : StepGood (v, [.execute b]) := ⟨h, by simp [ActOk]⟩

theorem good_csiDispatch {v : Vte} (h : VteOk v) (b : Nat) : StepGood (v.actionCsiDispatch b) := by
  have hf := vteOk_finish h
  refine ⟨vteOk_state hf _, ?_⟩
  intro a ha
  simp only [Vte.actionCsiDispatch, List.mem_singleton] at ha
  subst ha
  exact paramsIter_ok hf

theorem good_hook {v : Vte} (h : VteOk v) (b : Nat) : StepGood (v.actionHook b) := by
  have hf := vteOk_finish h
  refine ⟨vteOk_state hf _, ?_⟩
  intro a ha
  simp only [Vte.actionHook, List.mem_singleton] at ha
  subst ha; trivial

theorem good_escDispatch {v : Vte} (h : VteOk v) (b : Nat) : StepGood (v.escDispatch b) :=
  ⟨vteOk_state h _, by intro a ha; simp only [Vte.escDispatch, List.mem_singleton] at ha; subst ha; trivial⟩

theorem good_anywhere {v : Vte} (h : VteOk v) (b : Nat) : StepGood (v.anywhere b) := by
  unfold Vte.anywhere
  split
  · exact ⟨vteOk_state h _, by simp [ActOk]⟩
  · split
    · exact ⟨vteOk_state (vteOk_reset h) _, by simp⟩
    · exact good_noact h

theorem vteOk_oscEnd {v : Vte} (h : VteOk v) (b : Nat) : StepGood (v.oscEnd b) := by
  refine ⟨?_, by intro a ha; simp only [Vte.oscEnd, List.mem_singleton] at ha; subst ha; trivial⟩
  have : VteOk v.actionOscPutParam := by
    unfold Vte.actionOscPutParam
    split
    · exact ⟨h.1, h.2, h.3, h.4⟩
    · split <;> exact ⟨h.1, h.2, h.3, h.4⟩
  exact ⟨this.1, this.2, this.3, this.4⟩

theorem good_ite {c : Prop} [Decidable c] {x y : Vte × List Action} (hx : StepGood x) (hy : StepGood y) :
    StepGood (if c then x else y) := by
  split <;> assumption

theorem vteOk_oscPutParam {v : Vte} (h : VteOk v) : VteOk v.actionOscPutParam := by
  unfold Vte.actionOscPutParam
  split
  · exact ⟨h.1, h.2, h.3, h.4⟩
  · split <;> exact ⟨h.1, h.2, h.3, h.4⟩

theorem vteOk_oscPut {v : Vte} (h : VteOk v) (b : Nat) : VteOk (v.actionOscPut b) := by
  unfold Vte.actionOscPut
  split <;> exact ⟨h.1, h.2, h.3, h.4⟩

theorem good_esc {v : Vte} (h : VteOk v) (b : Nat) : StepGood (v.advanceEsc b) := by
  unfold Vte.advanceEsc
  repeat' apply good_ite
  all_goals first
    | exact good_exec h _
    | exact ⟨vteOk_state (vteOk_collect h _) _, by simp⟩
    | exact good_escDispatch h _
    | exact ⟨vteOk_state (vteOk_reset h) _, by simp⟩
    | exact ⟨vteOk_state h _, by simp [ActOk]⟩
    | exact ⟨⟨h.1, h.2, h.3, h.4⟩, by simp⟩
    | exact good_noact h

theorem good_osc {v : Vte} (h : VteOk v) (b : Nat) : StepGood (v.advanceOscString b) := by
  unfold Vte.advanceOscString
  have ho := vteOk_oscEnd h b
  cases hoe : v.oscEnd b with
  | mk v1 a1 =>
    rw [hoe] at ho
    simp only
    repeat' apply good_ite
    · exact good_noact h
    · exact ⟨vteOk_state ho.1 _, ho.2⟩
    · refine ⟨vteOk_state ho.1 _, ?_⟩
      intro a ha
      simp only [List.mem_append, List.mem_singleton] at ha
      rcases ha with ha | rfl
      · exact ho.2 a ha
      · trivial
    · exact ⟨vteOk_state (vteOk_reset ho.1) _, ho.2⟩
    · exact good_noact h
    · exact ⟨vteOk_oscPutParam h, by simp⟩
    · exact ⟨vteOk_oscPut h b, by simp⟩

theorem good_changeState {v : Vte} (h : VteOk v) (b : Nat) : StepGood (v.changeState b) := by
  unfold Vte.changeState
  split
  · -- csiEntry
    unfold Vte.advanceCsiEntry
    repeat' split
    all_goals first
      | exact good_exec h _
      | exact ⟨vteOk_state (vteOk_collect h _) _, by simp⟩
      | exact ⟨vteOk_state (vteOk_paramnext h _) _, by simp⟩
      | exact ⟨vteOk_state (vteOk_subparam h) _, by simp⟩
      | exact ⟨vteOk_state (vteOk_param h) _, by simp⟩
      | exact good_csiDispatch h _
      | exact good_anywhere h _
  · unfold Vte.advanceCsiIgnore
    repeat' split
    all_goals first
      | exact good_exec h _
      | exact good_noact h
      | exact ⟨vteOk_state h _, by simp⟩
      | exact good_anywhere h _
  · unfold Vte.advanceCsiIntermediate
    repeat' split
    all_goals first
      | exact good_exec h _
      | exact ⟨vteOk_collect h _, by simp⟩
      | exact ⟨vteOk_state h _, by simp⟩
      | exact good_csiDispatch h _
      | exact good_anywhere h _
  · unfold Vte.advanceCsiParam
    repeat' split
    all_goals first
      | exact good_exec h _
      | exact ⟨vteOk_state (vteOk_collect h _) _, by simp⟩
      | exact ⟨vteOk_paramnext h _, by simp⟩
      | exact ⟨vteOk_subparam h, by simp⟩
      | exact ⟨vteOk_param h, by simp⟩
      | exact ⟨vteOk_state h _, by simp⟩
      | exact good_csiDispatch h _
      | exact good_noact h
      | exact good_anywhere h _
  · unfold Vte.advanceDcsEntry
    repeat' split
    all_goals first
      | exact good_noact h
      | exact ⟨vteOk_state (vteOk_collect h _) _, by simp⟩
      | exact ⟨vteOk_state (vteOk_paramnext h _) _, by simp⟩
      | exact ⟨vteOk_state (vteOk_subparam h) _, by simp⟩
      | exact ⟨vteOk_state (vteOk_param h) _, by simp⟩
      | exact good_hook h _
      | exact good_anywhere h _
  · exact good_anywhere h _
  · unfold Vte.advanceDcsIntermediate
    repeat' split
    all_goals first
      | exact good_noact h
      | exact ⟨vteOk_collect h _, by simp⟩
      | exact ⟨vteOk_state h _, by simp⟩
      | exact good_hook h _
      | exact good_anywhere h _
  · unfold Vte.advanceDcsParam
    repeat' split
    all_goals first
      | exact good_noact h
      | exact ⟨vteOk_state (vteOk_collect h _) _, by simp⟩
      | exact ⟨vteOk_paramnext h _, by simp⟩
      | exact ⟨vteOk_subparam h, by simp⟩
      | exact ⟨vteOk_param h, by simp⟩
      | exact ⟨vteOk_state h _, by simp⟩
      | exact good_hook h _
      | exact good_anywhere h _
  · unfold Vte.advanceDcsPassthrough
    repeat' split
    all_goals first
      | exact ⟨h, by simp [ActOk]⟩
      | exact ⟨vteOk_state h _, by simp [ActOk]⟩
      | exact ⟨vteOk_state (vteOk_reset h) _, by simp [ActOk]⟩
      | exact good_noact h
  · exact good_esc h b
  · unfold Vte.advanceEscIntermediate
    repeat' split
    all_goals first
      | exact good_exec h _
      | exact ⟨vteOk_collect h _, by simp⟩
      | exact good_escDispatch h _
      | exact good_noact h
      | exact good_anywhere h _
  · exact good_osc h b
  · exact good_anywhere h _
  · exact good_noact h

end Vt

namespace Vt
set_option linter.unusedSimpArgs false

theorem groundDispatch_ok (chars : List Nat) (h : ∀ c ∈ chars, isScalar c = true) :
    ∀ a ∈ Vte.groundDispatch chars, ActOk a := by
  intro a ha
  simp only [Vte.groundDispatch, List.mem_map] at ha
  obtain ⟨c, hc, rfl⟩ := ha
  split
  · trivial
  · exact h c hc

theorem actOk_replacement : ActOk (.print Vte.REPLACEMENT) := by
  show isScalar Vte.REPLACEMENT = true
  decide

theorem mem_take_lt {bytes : List Nat} (hb : ∀ b ∈ bytes, b < 256) (n : Nat) : ∀ b ∈ bytes.take n, b < 256 :=
  fun b h => hb b (List.mem_of_mem_take h)

theorem mem_drop_lt {bytes : List Nat} (hb : ∀ b ∈ bytes, b < 256) (n : Nat) : ∀ b ∈ bytes.drop n, b < 256 :=
  fun b h => hb b (List.mem_of_mem_drop h)

/-- `advance_ground` -/
theorem good_advanceGround {v : Vte} (h : VteOk v) (bytes : List Nat) (hb : ∀ b ∈ bytes, b < 256) :
    VteOk (v.advanceGround bytes).1 ∧ ∀ a ∈ (v.advanceGround bytes).2.1, ActOk a := by
  unfold Vte.advanceGround
  simp only
  have hchars := groundDispatch_ok _ (Utf8.fromUtf8_chars_scalar _ (mem_take_lt hb (bytes.findIdx (· == 0x1B))))
  split
  · exact ⟨vteOk_state (vteOk_reset h) _, by simp⟩
  · split
    · split
      · exact ⟨vteOk_state (vteOk_reset h) _, hchars⟩
      · exact ⟨h, hchars⟩
    · refine ⟨h, ?_⟩
      intro a ha
      simp only [List.mem_append, List.mem_singleton] at ha
      rcases ha with ha | rfl
      · exact hchars a ha
      · split
        · trivial
        · exact actOk_replacement
    · split
      · refine ⟨vteOk_state (vteOk_reset h) _, ?_⟩
        intro a ha
        simp only [List.mem_append, List.mem_singleton] at ha
        rcases ha with ha | rfl
        · exact hchars a ha
        · exact actOk_replacement
      · refine ⟨⟨?_, h.2, h.3, h.4⟩, hchars⟩
        intro b hb'
        simp only [List.mem_append] at hb'
        rcases hb' with hb' | hb'
        · exact h.1 b hb'
        · exact mem_drop_lt hb _ b hb'

/-- `advance_partial_utf8` -/
theorem good_advancePartial {v : Vte} (h : VteOk v) (bytes : List Nat) (hb : ∀ b ∈ bytes, b < 256) :
    VteOk (v.advancePartialUtf8 bytes).1 ∧ ∀ a ∈ (v.advancePartialUtf8 bytes).2.1, ActOk a := by
  unfold Vte.advancePartialUtf8
  simp only
  have hbuf : ∀ b ∈ v.carry ++ bytes.take (min bytes.length (4 - v.carry.length)), b < 256 := by
    intro b hb'
    rcases List.mem_append.mp hb' with hb' | hb'
    · exact h.1 b hb'
    · exact mem_take_lt hb _ b hb'
  have hsc := Utf8.fromUtf8_chars_scalar _ hbuf
  have hhead : ActOk (.print ((Utf8.fromUtf8 (v.carry ++ bytes.take (min bytes.length (4 - v.carry.length)))).chars.headD 0)) := by
    cases hc : (Utf8.fromUtf8 (v.carry ++ bytes.take (min bytes.length (4 - v.carry.length)))).chars with
    | nil => show isScalar 0 = true; decide
    | cons x xs => exact hsc x (by rw [hc]; simp)
  split
  · exact ⟨⟨by simp, h.2, h.3, h.4⟩, by intro a ha; simp only [List.mem_singleton] at ha; subst ha; exact hhead⟩
  · split
    · exact ⟨⟨by simp, h.2, h.3, h.4⟩, by intro a ha; simp only [List.mem_singleton] at ha; subst ha; exact hhead⟩
    · split
      · exact ⟨⟨by simp, h.2, h.3, h.4⟩, by
          intro a ha; simp only [List.mem_singleton] at ha; subst ha; exact actOk_replacement⟩
      · exact ⟨⟨hbuf, h.2, h.3, h.4⟩, by simp⟩

/-- the main loop -/
theorem good_advanceLoop : ∀ (fuel : Nat) (v : Vte) (bytes : List Nat), VteOk v → (∀ b ∈ bytes, b < 256) →
    VteOk (Vte.advanceLoop fuel v bytes).1 ∧ ∀ a ∈ (Vte.advanceLoop fuel v bytes).2, ActOk a := by
  intro fuel
  induction fuel with
  | zero => intro v bytes h _; exact ⟨h, by simp [Vte.advanceLoop]⟩
  | succ fuel ih =>
    intro v bytes h hb
    cases bytes with
    | nil => exact ⟨h, by simp [Vte.advanceLoop]⟩
    | cons b rest =>
      by_cases hg : v.state = .ground
      · have e : Vte.advanceLoop (fuel + 1) v (b :: rest) =
            ((Vte.advanceLoop fuel (v.advanceGround (b :: rest)).1
                ((b :: rest).drop (v.advanceGround (b :: rest)).2.2)).1,
             (v.advanceGround (b :: rest)).2.1 ++
               (Vte.advanceLoop fuel (v.advanceGround (b :: rest)).1
                ((b :: rest).drop (v.advanceGround (b :: rest)).2.2)).2) := by
          simp only [Vte.advanceLoop, hg]
        rw [e]
        obtain ⟨g1, g2⟩ := good_advanceGround h (b :: rest) hb
        obtain ⟨r1, r2⟩ := ih _ _ g1 (mem_drop_lt hb _)
        refine ⟨r1, ?_⟩
        intro a ha
        rcases List.mem_append.mp ha with ha | ha
        · exact g2 a ha
        · exact r2 a ha
      · have e : Vte.advanceLoop (fuel + 1) v (b :: rest) =
            ((Vte.advanceLoop fuel (v.changeState b).1 rest).1,
             (v.changeState b).2 ++ (Vte.advanceLoop fuel (v.changeState b).1 rest).2) := by
          obtain ⟨st, ints, ign, ps, cur, pa, raw, ops, carry⟩ := v
          cases st <;> simp_all [Vte.advanceLoop]
        rw [e]
        obtain ⟨g1, g2⟩ := good_changeState h b
        obtain ⟨r1, r2⟩ := ih _ _ g1 (fun x hx => hb x (List.mem_cons_of_mem _ hx))
        refine ⟨r1, ?_⟩
        intro a ha
        rcases List.mem_append.mp ha with ha | ha
        · exact g2 a ha
        · exact r2 a ha

/-- **everything `Parser::advance` hands to `perform` is admissible**, for every byte string and
every automaton state -/
theorem good_advance (v : Vte) (bytes : List Nat) (h : VteOk v) (hb : ∀ b ∈ bytes, b < 256) :
    VteOk (v.advance bytes).1 ∧ ∀ a ∈ (v.advance bytes).2, ActOk a := by
  unfold Vte.advance
  split
  · exact good_advanceLoop _ _ _ h hb
  · obtain ⟨g1, g2⟩ := good_advancePartial h bytes hb
    obtain ⟨r1, r2⟩ := good_advanceLoop (bytes.length + 1) (v.advancePartialUtf8 bytes).1
      (bytes.drop (v.advancePartialUtf8 bytes).2.2) g1 (mem_drop_lt hb _)
    refine ⟨r1, ?_⟩
    intro a ha
    rcases List.mem_append.mp ha with ha | ha
    · exact g2 a ha
    · exact r2 a ha

end Vt
