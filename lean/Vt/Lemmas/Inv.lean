/-
  Vt.Lemmas.Inv — `Inv` unfolded into named clauses (for proofs), equivalent to the
  Boolean `invB` the driver evaluates.
-/
import Vt.Spec.Inv
import Vt.Lemmas.Grid
namespace Vt
set_option linter.unusedSimpArgs false

structure GridInv (W : Nat → Option Nat) (g : Grid) (un : Bool) : Prop where
  rows_pos : 1 ≤ g.size.rows
  cols_pos : 1 ≤ g.size.cols
  rows_u16 : g.size.rows ≤ 65535
  cols_u16 : g.size.cols ≤ 65535
  rows_len : (un = true ∧ g.rows = []) ∨ g.rows.length = g.size.rows
  row_ok : ∀ r ∈ g.rows, r.cells.length = g.size.cols ∧ rowOk W r = true
  pos_row : g.pos.row < g.size.rows
  pos_col : g.pos.col ≤ g.size.cols
  spos_row : g.savedPos.row < g.size.rows
  spos_col : g.savedPos.col ≤ g.size.cols
  region_le : g.scrollTop ≤ g.scrollBottom
  region_lt : g.scrollBottom < g.size.rows
  sb_len : g.scrollback.length ≤ g.scrollbackLen
  sb_off : g.scrollbackOffset ≤ g.scrollback.length
  sb_ok : ∀ r ∈ g.scrollback, rowOk W r = true

theorem gridOk_iff (W : Nat → Option Nat) (g : Grid) (un : Bool) :
    gridOk W g un = true ↔ GridInv W g un := by
  simp only [gridOk, posOk, Bool.and_eq_true, decide_eq_true_eq, Bool.or_eq_true, List.all_eq_true,
    beq_iff_eq, List.isEmpty_iff, ge_iff_le]
  constructor
  · rintro ⟨⟨⟨⟨⟨⟨⟨⟨⟨⟨⟨⟨h1, h2⟩, u1⟩, u2⟩, h3⟩, h4⟩, h5, h6⟩, h7, h8⟩, h9⟩, h10⟩, h11⟩, h12⟩, h13⟩
    exact ⟨h1, h2, u1, u2, h3, h4, h5, h6, h7, h8, h9, h10, h11, h12, h13⟩
  · rintro ⟨h1, h2, u1, u2, h3, h4, h5, h6, h7, h8, h9, h10, h11, h12, h13⟩
    exact ⟨⟨⟨⟨⟨⟨⟨⟨⟨⟨⟨⟨h1, h2⟩, u1⟩, u2⟩, h3⟩, h4⟩, h5, h6⟩, h7, h8⟩, h9⟩, h10⟩, h11⟩, h12⟩, h13⟩

structure ScreenInv (W : Nat → Option Nat) (s : Screen) : Prop where
  grid : GridInv W s.grid false
  alt : GridInv W s.altGrid true
  alt_cap : s.altGrid.scrollbackLen = 0
  same_size : s.grid.size = s.altGrid.size
  alt_alloc : s.altScreen = true → s.altGrid.rows ≠ []

theorem inv_iff (W : Nat → Option Nat) (s : Screen) : Inv W s ↔ ScreenInv W s := by
  unfold Inv invB
  simp only [Bool.and_eq_true, gridOk_iff, beq_iff_eq, Bool.or_eq_true, Bool.not_eq_true',
    List.isEmpty_eq_false_iff, decide_eq_true_eq]
  constructor
  · rintro ⟨⟨⟨⟨h1, h2⟩, h3⟩, h4⟩, h5⟩
    refine ⟨h1, h2, h3, h4, ?_⟩
    intro ha
    rcases h5 with h5 | h5
    · simp [ha] at h5
    · simpa using h5
  · rintro ⟨h1, h2, h3, h4, h5⟩
    refine ⟨⟨⟨⟨h1, h2⟩, h3⟩, h4⟩, ?_⟩
    cases ha : s.altScreen
    · left; rfl
    · right; simpa using h5 ha

/-- the active grid of a screen satisfying `Inv` is allocated and well-formed -/
theorem ScreenInv.cur {W : Nat → Option Nat} {s : Screen} (h : ScreenInv W s) :
    GridInv W s.cur true ∧ s.cur.rows.length = s.cur.size.rows := by
  unfold Screen.cur
  cases ha : s.altScreen
  · simp only [Bool.false_eq_true, ↓reduceIte]
    have := h.grid
    refine ⟨{ this with rows_len := ?_ }, ?_⟩
    · rcases this.rows_len with ⟨hf, _⟩ | hl
      · simp at hf
      · exact Or.inr hl
    · rcases this.rows_len with ⟨hf, _⟩ | hl
      · simp at hf
      · exact hl
  · simp only [↓reduceIte]
    refine ⟨h.alt, ?_⟩
    rcases h.alt.rows_len with ⟨_, he⟩ | hl
    · exact absurd he (h.alt_alloc ha)
    · exact hl

theorem GridInv.mono {W : Nat → Option Nat} {g : Grid} (h : GridInv W g false) : GridInv W g true :=
  { h with rows_len := by rcases h.rows_len with ⟨hf, _⟩ | hl; simp at hf; exact Or.inr hl }

end Vt
