/-
  Vt.Lemmas.RowInv — the row-level invariant (`rowOk`) in a form suited to proofs:
  `pairThrough` threads the "previous cell is wide" flag through a segment of cells, so that
  list surgery (set / insert / remove at an index) can be reasoned about by segments.
-/
import Vt.Lemmas.Inv
import Vt.Lemmas.Utf8
namespace Vt
set_option linter.unusedSimpArgs false

theorem list_split {α} (cs : List α) (i : Nat) (hi : i < cs.length) :
    cs = cs.take i ++ cs[i] :: cs.drop (i + 1) := by
  induction cs generalizing i with
  | nil => simp at hi
  | cons x xs ih =>
    cases i with
    | zero => simp
    | succ n =>
      simp only [List.take_succ_cons, List.getElem_cons_succ, List.drop_succ_cons, List.cons_append,
        List.cons.injEq, true_and]
      exact ih n (by simpa using hi)

theorem getElem?_lt {α} {cs : List α} {i : Nat} {c : α} (hc : cs[i]? = some c) : i < cs.length := by
  rcases Nat.lt_or_ge i cs.length with h | h
  · exact h
  · simp [List.getElem?_eq_none h] at hc

theorem list_split' {α} {cs : List α} {i : Nat} {c : α} (hc : cs[i]? = some c) :
    cs = cs.take i ++ c :: cs.drop (i + 1) := by
  have hi := getElem?_lt hc
  have hget : cs[i] = c := by
    rw [List.getElem?_eq_getElem hi] at hc; exact Option.some.inj hc
  rw [← hget]; exact list_split cs i hi

/-- thread the "previous cell is wide" flag through a segment; `none` on a pairing violation -/
def pairThrough : Bool → List Cell → Option Bool
  | pw, [] => some pw
  | pw, c :: rest => if c.cont == pw then pairThrough c.wide rest else none

theorem pairingOk_iff (pw : Bool) (cs : List Cell) :
    pairingOk pw cs = true ↔ pairThrough pw cs = some false := by
  induction cs generalizing pw with
  | nil => cases pw <;> simp [pairingOk, pairThrough]
  | cons c rest ih =>
    simp only [pairingOk, pairThrough, Bool.and_eq_true, beq_iff_eq]
    by_cases h : c.cont = pw
    · simp [h, ih]
    · simp [h]

theorem pairThrough_append (pw : Bool) (a b : List Cell) :
    pairThrough pw (a ++ b) = (pairThrough pw a).bind (fun p => pairThrough p b) := by
  induction a generalizing pw with
  | nil => simp [pairThrough]
  | cons c rest ih =>
    simp only [List.cons_append, pairThrough]
    split
    · exact ih _
    · rfl

/-- the invariant of a row's cells -/
structure CellsInv (W : Nat → Option Nat) (cs : List Cell) : Prop where
  cells_ok : ∀ c ∈ cs, cellOk W c = true
  paired : pairThrough false cs = some false

theorem rowOk_iff (W : Nat → Option Nat) (r : Row) :
    rowOk W r = true ↔ 1 ≤ r.cells.length ∧ CellsInv W r.cells := by
  simp only [rowOk, Bool.and_eq_true, decide_eq_true_eq, List.all_eq_true, pairingOk_iff, ge_iff_le]
  constructor
  · rintro ⟨⟨h1, h2⟩, h3⟩; exact ⟨h1, h2, h3⟩
  · rintro ⟨h1, h2, h3⟩; exact ⟨⟨h1, h2⟩, h3⟩

/-- facts `cellOk` gives about the flags -/
theorem cellOk_cont (W : Nat → Option Nat) (c : Cell) (h : cellOk W c = true) (hc : c.cont = true) :
    c.wide = false ∧ c.len = 0 := by
  simp only [cellOk, Bool.and_eq_true, Bool.or_eq_true, Bool.not_eq_true', beq_iff_eq, decide_eq_true_eq] at h
  obtain ⟨⟨⟨⟨_, _⟩, _⟩, h4⟩, _⟩ := h
  rcases h4 with h4 | h4
  · simp [hc] at h4
  · exact ⟨h4.2, h4.1⟩

theorem cellOk_clear (W : Nat → Option Nat) (c : Cell) (a : Attrs) (h : cellOk W c = true) :
    cellOk W (c.clear a) = true := by
  simp only [cellOk, Bool.and_eq_true, decide_eq_true_eq, beq_iff_eq, List.all_eq_true] at h
  obtain ⟨⟨⟨⟨h1, _⟩, h3⟩, _⟩, _⟩ := h
  simp [cellOk, Cell.clear, h1, Utf8.fromUtf8]
  exact h3

theorem cellOk_clear_flags (c : Cell) (a : Attrs) :
    (c.clear a).wide = false ∧ (c.clear a).cont = false := by simp [Cell.clear]

/-- split a paired list at index `i` -/
theorem pairThrough_split {cs : List Cell} {i : Nat} {c : Cell} (hc : cs[i]? = some c)
    (hp : pairThrough false cs = some false) :
    ∃ p, pairThrough false (cs.take i) = some p ∧ c.cont = p ∧
      pairThrough c.wide (cs.drop (i + 1)) = some false := by
  have hcs := list_split' hc
  rw [hcs, pairThrough_append] at hp
  cases h1 : pairThrough false (cs.take i) with
  | none => simp [h1] at hp
  | some p =>
    simp only [h1, Option.bind_some, pairThrough] at hp
    by_cases h2 : c.cont = p
    · simp only [h2, beq_self_eq_true, ↓reduceIte] at hp
      exact ⟨p, rfl, h2, hp⟩
    · have : (c.cont == p) = false := by simpa using h2
      simp [this] at hp

/-- replace cell `i` by a cell with the same flags: pairing is kept -/
theorem pairThrough_set {cs : List Cell} {i : Nat} {c c' : Cell} (hc : cs[i]? = some c)
    (hp : pairThrough false cs = some false) (hcont : c'.cont = c.cont) (hwide : c'.wide = c.wide) :
    pairThrough false (cs.set i c') = some false := by
  obtain ⟨p, h1, h2, h3⟩ := pairThrough_split hc hp
  have hi := getElem?_lt hc
  rw [List.set_eq_take_append_cons_drop, if_pos hi, pairThrough_append, h1]
  simp only [Option.bind_some, pairThrough, hcont, h2, beq_self_eq_true, ↓reduceIte, hwide, h3]

end Vt

namespace Vt
set_option linter.unusedSimpArgs false

theorem drop_cons_of_getElem? {α} {cs : List α} {i : Nat} {d : α} (hd : cs[i]? = some d) :
    cs.drop i = d :: cs.drop (i + 1) := by
  have h := list_split' hd
  have hi := getElem?_lt hd
  conv => lhs; rw [h]
  rw [List.drop_append_of_le_length (by simp [List.length_take]; omega)]
  simp [List.length_take, Nat.min_eq_left (Nat.le_of_lt hi)]

/-- replace the adjacent cells `i`, `i+1` keeping the flags that the neighbours see -/
theorem pairThrough_set2 {cs : List Cell} {i : Nat} {c d c' d' : Cell}
    (hc : cs[i]? = some c) (hd : cs[i + 1]? = some d)
    (hp : pairThrough false cs = some false)
    (h1 : c'.cont = c.cont) (h2 : d'.cont = c'.wide) (h3 : d'.wide = d.wide) :
    pairThrough false ((cs.set i c').set (i + 1) d') = some false := by
  obtain ⟨p, e1, e2, e3⟩ := pairThrough_split hc hp
  have hi := getElem?_lt hc
  have hi1 := getElem?_lt hd
  rw [drop_cons_of_getElem? hd] at e3
  simp only [pairThrough] at e3
  by_cases hdc : d.cont = c.wide
  · simp only [hdc, beq_self_eq_true, ↓reduceIte] at e3
    have hs : (cs.set i c').set (i + 1) d' = cs.take i ++ c' :: d' :: cs.drop (i + 2) := by
      apply List.ext_getElem?
      intro k
      simp only [List.getElem?_set, List.length_set]
      by_cases hk : k < i
      · rw [List.getElem?_append_left (by simp [List.length_take]; omega)]
        have : ¬ i + 1 = k := by omega
        have : ¬ i = k := by omega
        simp [*, List.getElem?_take]
      · rw [List.getElem?_append_right (by simp [List.length_take]; omega)]
        simp only [List.length_take, Nat.min_eq_left (Nat.le_of_lt hi)]
        by_cases hk0 : k = i
        · subst hk0; simp [hi]
        · by_cases hk1 : k = i + 1
          · subst hk1; simp [hi1]
          · have hk2 : i + 2 ≤ k := by omega
            obtain ⟨m, rfl⟩ : ∃ m, k = i + 2 + m := ⟨k - (i + 2), by omega⟩
            have e : i + 2 + m - i = m + 2 := by omega
            have n1 : ¬ i + 1 = i + 2 + m := by omega
            have n2 : ¬ i = i + 2 + m := by omega
            rw [e]
            simp only [n1, n2, ↓reduceIte, List.getElem?_cons_succ, List.getElem?_drop]
    rw [hs, pairThrough_append, e1]
    simp only [Option.bind_some, pairThrough, h1, e2, beq_self_eq_true, ↓reduceIte, h2, h3, e3]
  · have : (d.cont == c.wide) = false := by simpa using hdc
    simp [this] at e3

/-- in a paired list a wide cell is followed by a continuation cell -/
theorem paired_wide_next {cs : List Cell} {i : Nat} {c : Cell} (hc : cs[i]? = some c)
    (hp : pairThrough false cs = some false) (hw : c.wide = true) :
    ∃ d, cs[i + 1]? = some d ∧ d.cont = true := by
  obtain ⟨p, e1, e2, e3⟩ := pairThrough_split hc hp
  cases hd : cs.drop (i + 1) with
  | nil => simp [hd, pairThrough, hw] at e3
  | cons d rest =>
    simp only [hd, pairThrough, hw] at e3
    refine ⟨d, ?_, ?_⟩
    · have := congrArg (fun l => l[0]?) hd
      simpa [List.getElem?_drop] using this
    · by_cases h : d.cont = true
      · exact h
      · have : (d.cont == true) = false := by simpa using h
        simp [this] at e3

/-- in a paired list a continuation cell is preceded by a wide cell -/
theorem paired_cont_prev {cs : List Cell} {i : Nat} {c : Cell} (hc : cs[i]? = some c)
    (hp : pairThrough false cs = some false) (hcont : c.cont = true) :
    ∃ j d, i = j + 1 ∧ cs[j]? = some d ∧ d.wide = true := by
  cases i with
  | zero =>
    obtain ⟨p, e1, e2, _⟩ := pairThrough_split hc hp
    simp [pairThrough] at e1
    rw [e1, hcont] at e2
    simp at e2
  | succ j =>
    have hj : j < cs.length := by have := getElem?_lt hc; omega
    refine ⟨j, cs[j], rfl, List.getElem?_eq_getElem hj, ?_⟩
    obtain ⟨p, e1, e2, e3⟩ := pairThrough_split (List.getElem?_eq_getElem hj) hp
    rw [drop_cons_of_getElem? hc] at e3
    simp only [pairThrough] at e3
    by_cases h : c.cont = cs[j].wide
    · rw [← h, hcont]
    · have : (c.cont == cs[j].wide) = false := by simpa using h
      simp [this] at e3

end Vt

namespace Vt
set_option linter.unusedSimpArgs false

/-- cut a paired list anywhere: the flag threads through -/
theorem pairThrough_cut {cs : List Cell} (i : Nat) (hp : pairThrough false cs = some false) :
    ∃ p, pairThrough false (cs.take i) = some p ∧ pairThrough p (cs.drop i) = some false := by
  have h := hp
  rw [← List.take_append_drop i cs, pairThrough_append] at h
  cases h1 : pairThrough false (cs.take i) with
  | none => simp [h1] at h
  | some p => exact ⟨p, rfl, by simpa [h1] using h⟩

theorem pairThrough_splice {a b mid : List Cell} {p q : Bool}
    (h1 : pairThrough false a = some p) (h3 : pairThrough p mid = some q)
    (h2 : pairThrough q b = some false) :
    pairThrough false (a ++ mid ++ b) = some false := by
  rw [List.append_assoc, pairThrough_append, h1]
  simp only [Option.bind_some]
  rw [pairThrough_append, h3]
  simpa using h2

/-- the flag arriving at a cell equals its continuation flag -/
theorem pairThrough_head {p : Bool} {c : Cell} {rest : List Cell}
    (h : pairThrough p (c :: rest) = some false) : c.cont = p ∧ pairThrough c.wide rest = some false := by
  simp only [pairThrough] at h
  by_cases hc : c.cont = p
  · simp only [hc, beq_self_eq_true, ↓reduceIte] at h; exact ⟨hc, h⟩
  · have : (c.cont == p) = false := by simpa using hc
    simp [this] at h

theorem pairThrough_nil_out {p : Bool} (h : pairThrough p [] = some false) : p = false := by
  simpa [pairThrough] using h

end Vt
