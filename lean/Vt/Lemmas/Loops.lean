/-
  Vt.Lemmas.Loops — invariant rules for the two loop combinators of the model.
-/
import Vt.Lemmas.Except
namespace Vt

theorem foldlM_range'_inv {σ} (P : σ → Prop) (f : Nat → σ → M σ) :
    ∀ (n a : Nat) (s : σ), P s →
      (∀ i s, a ≤ i → i < a + n → P s → ∃ s', f i s = .ok s' ∧ P s') →
      ∃ s', (List.range' a n).foldlM (fun s i => f i s) s = .ok s' ∧ P s' := by
  intro n
  induction n with
  | zero => intro a s h0 _; exact ⟨s, rfl, h0⟩
  | succ n ih =>
    intro a s h0 hstep
    obtain ⟨s1, h1, hp1⟩ := hstep a s (Nat.le_refl _) (by omega) h0
    obtain ⟨s2, h2, hp2⟩ := ih (a + 1) s1 hp1 (fun i s hi hi' hp => hstep i s (by omega) (by omega) hp)
    refine ⟨s2, ?_, hp2⟩
    simp only [List.range'_succ, List.foldlM_cons, h1, ok_bind, h2]

/-- `for i in a..b` with an invariant -/
theorem forRange_inv {σ} (P : σ → Prop) (f : Nat → σ → M σ) (a b : Nat) (s : σ) (h0 : P s)
    (hstep : ∀ i s, a ≤ i → i < b → P s → ∃ s', f i s = .ok s' ∧ P s') :
    ∃ s', forRange a b f s = .ok s' ∧ P s' := by
  unfold forRange
  exact foldlM_range'_inv P f (b - a) a s h0 (fun i s hi hi' hp => hstep i s hi (by omega) hp)

/-- `for _ in 0..n` with an invariant -/
theorem iterateM_inv {σ} (P : σ → Prop) (f : σ → M σ) (n : Nat) (s : σ) (h0 : P s)
    (hstep : ∀ s, P s → ∃ s', f s = .ok s' ∧ P s') :
    ∃ s', iterateM n f s = .ok s' ∧ P s' := by
  induction n generalizing s with
  | zero => exact ⟨s, rfl, h0⟩
  | succ n ih =>
    obtain ⟨s1, h1, hp1⟩ := hstep s h0
    obtain ⟨s2, h2, hp2⟩ := ih s1 hp1
    exact ⟨s2, by simp [iterateM, h1, h2], hp2⟩

/-- `for _ in 0..n` with an invariant indexed by the number of iterations done -/
theorem iterateM_inv_idx {σ} (P : Nat → σ → Prop) (f : σ → M σ) (n : Nat) (s : σ) (h0 : P 0 s)
    (hstep : ∀ k s, k < n → P k s → ∃ s', f s = .ok s' ∧ P (k + 1) s') :
    ∃ s', iterateM n f s = .ok s' ∧ P n s' := by
  suffices h : ∀ m k s, k + m = n → P k s → ∃ s', iterateM m f s = .ok s' ∧ P n s' from
    h n 0 s (by omega) h0
  intro m
  induction m with
  | zero => intro k s hk hp; have : k = n := by omega
            subst this; exact ⟨s, rfl, hp⟩
  | succ m ih =>
    intro k s hk hp
    obtain ⟨s1, h1, hp1⟩ := hstep k s (by omega) hp
    obtain ⟨s2, h2, hp2⟩ := ih (k + 1) s1 (by omega) hp1
    exact ⟨s2, by simp [iterateM, h1, h2], hp2⟩

end Vt
