/-
  Vt.Lemmas.Screen — facts about `Screen.modifyGrid` (the model of `grid_mut()`):
  an operation on the active grid never touches the other grid or anything else.
-/
import Vt.Model.Perform
import Vt.Lemmas.Except
namespace Vt

theorem modifyGrid_eq_ok {s s' : Screen} {f : Grid → M Grid} :
    s.modifyGrid f = .ok s' ↔
      (s.altScreen = true ∧ ∃ g, f s.altGrid = .ok g ∧ s' = { s with altGrid := g }) ∨
      (s.altScreen = false ∧ ∃ g, f s.grid = .ok g ∧ s' = { s with grid := g }) := by
  unfold Screen.modifyGrid
  cases h : s.altScreen
  · simp only [Bool.false_eq_true, ↓reduceIte, false_and, false_or, true_and]
    constructor
    · intro h2
      obtain ⟨g, hg, hs⟩ := bind_eq_ok.mp h2
      exact ⟨g, hg, by simpa using hs.symm⟩
    · rintro ⟨g, hg, rfl⟩
      simp [hg]
  · simp only [↓reduceIte, true_and, Bool.true_eq_false, false_and, or_false]
    constructor
    · intro h2
      obtain ⟨g, hg, hs⟩ := bind_eq_ok.mp h2
      exact ⟨g, hg, by simpa using hs.symm⟩
    · rintro ⟨g, hg, rfl⟩
      simp [hg]

/-- while the alternate screen is active, `modifyGrid` leaves the primary grid (and every
other component but the alternate grid) alone -/
theorem modifyGrid_alt {s s' : Screen} {f : Grid → M Grid} (ha : s.altScreen = true)
    (h : s.modifyGrid f = .ok s') : ∃ g, f s.altGrid = .ok g ∧ s' = { s with altGrid := g } := by
  rcases modifyGrid_eq_ok.mp h with ⟨_, g, hg, rfl⟩ | ⟨hb, _⟩
  · exact ⟨g, hg, rfl⟩
  · simp [ha] at hb

theorem modifyGrid_primary {s s' : Screen} {f : Grid → M Grid} (ha : s.altScreen = false)
    (h : s.modifyGrid f = .ok s') : ∃ g, f s.grid = .ok g ∧ s' = { s with grid := g } := by
  rcases modifyGrid_eq_ok.mp h with ⟨hb, _⟩ | ⟨_, g, hg, rfl⟩
  · simp [ha] at hb
  · exact ⟨g, hg, rfl⟩

/-- `modifyGrid` in terms of the active grid `cur` -/
theorem modifyGrid_cur {s s' : Screen} {f : Grid → M Grid} (h : s.modifyGrid f = .ok s') :
    ∃ g, f s.cur = .ok g ∧ s'.cur = g ∧ s'.altScreen = s.altScreen ∧ s'.attrs = s.attrs ∧
      s'.savedAttrs = s.savedAttrs ∧ s'.appKeypad = s.appKeypad ∧ s'.appCursor = s.appCursor ∧
      s'.hideCursor = s.hideCursor ∧ s'.bracketedPaste = s.bracketedPaste ∧
      s'.mouseMode = s.mouseMode ∧ s'.mouseEnc = s.mouseEnc := by
  rcases modifyGrid_eq_ok.mp h with ⟨ha, g, hg, rfl⟩ | ⟨ha, g, hg, rfl⟩
  · exact ⟨g, by simpa [Screen.cur, ha] using hg, by simp [Screen.cur, ha], by simp⟩
  · exact ⟨g, by simpa [Screen.cur, ha] using hg, by simp [Screen.cur, ha], by simp⟩

end Vt

namespace Vt

/-- replace the active grid -/
def Screen.setCur (s : Screen) (g : Grid) : Screen :=
  if s.altScreen then { s with altGrid := g } else { s with grid := g }

theorem modifyGrid_ok_of {s : Screen} {f : Grid → M Grid} {g : Grid} (h : f s.cur = .ok g) :
    s.modifyGrid f = .ok (s.setCur g) := by
  unfold Screen.modifyGrid Screen.setCur
  cases ha : s.altScreen <;> simp [Screen.cur, ha] at h ⊢ <;> simp [h]

theorem modifyGrid_eq_ok_iff {s s' : Screen} {f : Grid → M Grid} :
    s.modifyGrid f = .ok s' ↔ ∃ g, f s.cur = .ok g ∧ s' = s.setCur g := by
  constructor
  · intro h
    rcases modifyGrid_eq_ok.mp h with ⟨ha, g, hg, rfl⟩ | ⟨ha, g, hg, rfl⟩
    · exact ⟨g, by simpa [Screen.cur, ha] using hg, by simp [Screen.setCur, ha]⟩
    · exact ⟨g, by simpa [Screen.cur, ha] using hg, by simp [Screen.setCur, ha]⟩
  · rintro ⟨g, hg, rfl⟩
    exact modifyGrid_ok_of hg

@[simp] theorem setCur_cur (s : Screen) (g : Grid) : (s.setCur g).cur = g := by
  unfold Screen.setCur Screen.cur
  cases ha : s.altScreen <;> simp [ha]

end Vt
