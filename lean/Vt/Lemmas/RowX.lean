/-
  Vt.Lemmas.RowX — every operation on a line keeps `cx` of all its cells (partial-correctness form: whenever
  the operation returns, the cells of the result are cells of the argument or built the admissible ways).
-/
import Vt.Lemmas.CellX
import Vt.Lemmas.Loops
namespace Vt
set_option linter.unusedSimpArgs false

def AllX (cs : List Cell) : Prop := ∀ c ∈ cs, cx c = true

theorem allX_nil : AllX [] := fun _ h => by simp at h

theorem allX_replicate_new (n : Nat) : AllX (List.replicate n Cell.new) := by
  intro c hc
  rw [(List.mem_replicate.mp hc).2]; exact cx_new

theorem allX_set {cs : List Cell} (h : AllX cs) (i : Nat) {c : Cell} (hc : cx c = true) : AllX (cs.set i c) := by
  intro x hx
  rcases List.mem_or_eq_of_mem_set hx with hx | rfl
  · exact h x hx
  · exact hc

theorem allX_take {cs : List Cell} (h : AllX cs) (n : Nat) : AllX (cs.take n) :=
  fun c hc => h c (List.mem_of_mem_take hc)

theorem allX_drop {cs : List Cell} (h : AllX cs) (n : Nat) : AllX (cs.drop n) :=
  fun c hc => h c (List.mem_of_mem_drop hc)

theorem allX_append {a b : List Cell} (ha : AllX a) (hb : AllX b) : AllX (a ++ b) := by
  intro c hc
  rcases List.mem_append.mp hc with hc | hc
  · exact ha c hc
  · exact hb c hc

theorem allX_cons {c : Cell} {b : List Cell} (hc : cx c = true) (hb : AllX b) : AllX (c :: b) := by
  intro x hx
  rcases List.mem_cons.mp hx with rfl | hx
  · exact hc
  · exact hb x hx

theorem allX_eraseIdx {cs : List Cell} (h : AllX cs) (i : Nat) : AllX (cs.eraseIdx i) :=
  fun c hc => h c (List.mem_of_mem_eraseIdx hc)

/-- `modifyM` with a function that keeps `cx` on the cells of the list -/
theorem allX_modifyM {cs cs' : List Cell} (h : AllX cs) (site i : Nat) (f : Cell → M Cell)
    (hf : ∀ c c', c ∈ cs → f c = .ok c' → cx c' = true) (e : modifyM site cs i f = .ok cs') : AllX cs' := by
  unfold modifyM at e
  cases hc : cs[i]? with
  | none => rw [hc] at e; simp [panic] at e
  | some x =>
    rw [hc] at e
    simp only at e
    cases hy : f x with
    | error err => rw [hy] at e; simp at e
    | ok y =>
      rw [hy] at e
      simp only [ok_bind, pure_eq_ok, Except.ok.injEq] at e
      rw [← e]
      exact allX_set h i (hf x y (List.mem_of_getElem? hc) hy)

theorem allX_modifyM_pure {cs cs' : List Cell} (h : AllX cs) (site i : Nat) (f : Cell → Cell)
    (hf : ∀ c, c ∈ cs → cx c = true → cx (f c) = true) (e : modifyM site cs i (fun c => pure (f c)) = .ok cs') :
    AllX cs' :=
  allX_modifyM h site i _ (fun c c' hc hcc => by
    simp only [pure_eq_ok, Except.ok.injEq] at hcc
    rw [← hcc]; exact hf c hc (h c hc)) e

theorem allX_resizeList {cs : List Cell} (h : AllX cs) (n : Nat) : AllX (resizeList cs n Cell.new) :=
  allX_append (allX_take h n) (allX_replicate_new _)

/-! ### the operations of `row.rs` -/

theorem allX_new (cols : Nat) : AllX (Row.new cols).cells := allX_replicate_new cols

theorem allX_clear {r : Row} {a : Attrs} (ha : attrsOk a = true) : AllX (r.clear a).cells := by
  intro c hc
  simp only [Row.clear, List.mem_map] at hc
  obtain ⟨c0, _, rfl⟩ := hc
  exact cx_clear c0 ha

theorem allX_wrap {r : Row} (h : AllX r.cells) (b : Bool) : AllX (r.wrap b).cells := h

theorem allX_insert {r r' : Row} (h : AllX r.cells) {i : Nat} {c : Cell} (hc : cx c = true)
    (e : r.insert i c = .ok r') : AllX r'.cells := by
  unfold Row.insert insertM at e
  split at e
  · simp only [pure_bind', ok_bind, pure_eq_ok, Except.ok.injEq] at e
    rw [← e]
    exact allX_append (allX_take h i) (allX_cons hc (allX_drop h i))
  · simp [panic] at e

theorem allX_clearWide {r r' : Row} (h : AllX r.cells) {col : Nat} (e : r.clearWide col = .ok r') : AllX r'.cells := by
  unfold Row.clearWide getM at e
  cases hc : r.cells[col]? with
  | none => rw [hc] at e; simp [panic] at e
  | some cell =>
    rw [hc] at e
    simp only [pure_bind'] at e
    split at e
    · cases hm : modifyM 312 r.cells (col + 1) (fun o => pure (o.clear o.attrs)) with
      | error err => rw [hm] at e; simp at e
      | ok cs =>
        rw [hm] at e
        simp only [ok_bind, pure_eq_ok, Except.ok.injEq] at e
        rw [← e]
        exact allX_modifyM_pure h 312 (col + 1) _ (fun c _ hx => cx_clear_self hx) hm
    · split at e
      · cases hs : subM 313 col 1 with
        | error err => rw [hs] at e; simp at e
        | ok c1 =>
          rw [hs] at e
          simp only [ok_bind] at e
          cases hm : modifyM 314 r.cells c1 (fun o => pure (o.clear o.attrs)) with
          | error err => rw [hm] at e; simp at e
          | ok cs =>
            rw [hm] at e
            simp only [ok_bind, pure_eq_ok, Except.ok.injEq] at e
            rw [← e]
            exact allX_modifyM_pure h 314 c1 _ (fun c _ hx => cx_clear_self hx) hm
      · simp only [pure_eq_ok, Except.ok.injEq] at e
        rw [← e]; exact h

theorem allX_remove {r r' : Row} (h : AllX r.cells) {i : Nat} (e : r.remove i = .ok r') : AllX r'.cells := by
  unfold Row.remove at e
  cases hc : r.clearWide i with
  | error err => rw [hc] at e; simp [panic] at e
  | ok r1 =>
    rw [hc] at e
    simp only [ok_bind] at e
    have h1 := allX_clearWide h hc
    unfold removeM at e
    cases hg : r1.cells[i]? with
    | none => rw [hg] at e; simp [panic] at e
    | some x =>
      rw [hg] at e
      simp only [pure_bind', ok_bind, pure_eq_ok, Except.ok.injEq] at e
      rw [← e]
      exact allX_eraseIdx h1 i

theorem allX_erase {r r' : Row} (h : AllX r.cells) {i : Nat} {a : Attrs} (ha : attrsOk a = true)
    (e : r.erase i a = .ok r') : AllX r'.cells := by
  unfold Row.erase getM at e
  cases hc : r.cells[i]? with
  | none => rw [hc] at e; simp [panic] at e
  | some cell =>
    rw [hc] at e
    simp only [pure_bind'] at e
    cases hw : r.clearWide i with
    | error err => rw [hw] at e; simp at e
    | ok r1 =>
      rw [hw] at e
      simp only [ok_bind] at e
      have h1 := allX_clearWide h hw
      cases hm : modifyM 317 r1.cells i (fun c => pure (c.clear a)) with
      | error err => rw [hm] at e; simp at e
      | ok cs =>
        rw [hm] at e
        simp only [ok_bind] at e
        have h2 := allX_modifyM_pure h1 317 i _ (fun c _ _ => cx_clear c ha) hm
        cases hs : subM 318 cs.length (if cell.isWide then 2 else 1) with
        | error err => rw [hs] at e; simp at e
        | ok lim =>
          rw [hs] at e
          simp only [ok_bind, pure_eq_ok, Except.ok.injEq] at e
          rw [← e]; exact h2

theorem allX_truncate {r r' : Row} (h : AllX r.cells) {len : Nat} (e : r.truncate len = .ok r') : AllX r'.cells := by
  unfold Row.truncate at e
  simp only [pure_bind'] at e
  cases hs : subM 319 len 1 with
  | error err => rw [hs] at e; simp at e
  | ok i =>
    rw [hs] at e
    simp only [ok_bind] at e
    cases hm : modifyM 320 (r.cells.take len) i (fun c => pure (if c.isWide then c.clear c.attrs else c)) with
    | error err => rw [hm] at e; simp at e
    | ok cs =>
      rw [hm] at e
      simp only [ok_bind, pure_eq_ok, Except.ok.injEq] at e
      rw [← e]
      refine allX_modifyM_pure (allX_take h len) 320 i _ (fun c _ hx => ?_) hm
      split
      · exact cx_clear_self hx
      · exact hx

theorem allX_resize {r : Row} (h : AllX r.cells) (len : Nat) : AllX (r.resize len Cell.new).cells := by
  unfold Row.resize
  simp only
  have h1 := allX_resizeList h len
  split
  · rename_i last hl
    split
    · exact allX_set h1 _ (cx_clear_self (h1 last (List.mem_of_getLast? hl)))
    · exact h1
  · exact h1

/-- iterating an operation that keeps `AllX` -/
theorem allX_iterateM {f : Row → M Row} (hf : ∀ r r', AllX r.cells → f r = .ok r' → AllX r'.cells) :
    ∀ (n : Nat) (r r' : Row), AllX r.cells → iterateM n f r = .ok r' → AllX r'.cells
  | 0, r, r', h, e => by
    simp only [iterateM, pure_eq_ok, Except.ok.injEq] at e
    rw [← e]; exact h
  | n + 1, r, r', h, e => by
    simp only [iterateM] at e
    cases h1 : f r with
    | error err => rw [h1] at e; simp at e
    | ok r1 =>
      rw [h1] at e
      simp only [ok_bind] at e
      exact allX_iterateM hf n r1 r' (hf r r1 h h1) e

theorem allX_forRange {f : Nat → Row → M Row} (hf : ∀ i r r', AllX r.cells → f i r = .ok r' → AllX r'.cells)
    (a b : Nat) (r r' : Row) (h : AllX r.cells) (e : forRange a b f r = .ok r') : AllX r'.cells := by
  unfold forRange at e
  generalize List.range' a (b - a) = l at e
  induction l generalizing r with
  | nil =>
    simp only [List.foldlM_nil, pure_eq_ok, Except.ok.injEq] at e
    rw [← e]; exact h
  | cons i is ih =>
    rw [List.foldlM_cons] at e
    cases h1 : f i r with
    | error err => rw [h1] at e; simp at e
    | ok r1 =>
      rw [h1] at e
      simp only [ok_bind] at e
      exact ih r1 (hf i r r1 h h1) e

end Vt
