/-
  Vt.Lemmas.Recv — the receiving side of a redraw, one emitted piece at a time.

  `Step X f`: on any parser that is ready for a new sequence, processing the bytes `X` acts on the pair
  (active grid, pen) as the pure function `f` does, changes nothing else of the screen, reports no
  event, and leaves the parser ready again.  Steps compose (`step_append`).
-/
import Vt.Props.C09b
import Vt.Props.C06
namespace Vt.Recv
open Vt Vt.Tok Vt.C09
set_option linter.unusedSimpArgs false

variable (W : Nat → Option Nat) (cb : CbPolicy)

/-- the part of the receiver a redraw acts on: the active grid, the pen, the saved pen -/
structure RS where
  g : Grid
  pen : Attrs
  saved : Attrs

def rsOf (ws : WS) : RS := ⟨ws.screen.cur, ws.screen.attrs, ws.screen.savedAttrs⟩

/-- replace the active grid, the pen and the saved pen -/
def withRS (ws : WS) (r : RS) : WS :=
  { ws with screen := { (ws.screen.setCur r.g) with attrs := r.pen, savedAttrs := r.saved } }

theorem setCur_cur (s : Screen) (g : Grid) : (s.setCur g).cur = g := by
  unfold Screen.setCur Screen.cur
  cases h : s.altScreen <;> simp [h]

theorem setCur_alt (s : Screen) (g : Grid) : (s.setCur g).altScreen = s.altScreen := by
  unfold Screen.setCur
  cases h : s.altScreen <;> simp [h]

theorem setCur_attrs (s : Screen) (g : Grid) : (s.setCur g).attrs = s.attrs := by
  unfold Screen.setCur
  cases h : s.altScreen <;> simp [h]

theorem setCur_setCur (s : Screen) (g1 g2 : Grid) : (s.setCur g1).setCur g2 = s.setCur g2 := by
  unfold Screen.setCur
  cases h : s.altScreen <;> simp [h]

theorem setCur_self (s : Screen) : s.setCur s.cur = s := by
  obtain ⟨g, ag, a, sa, k, c, hc, alt, bp, mm, me⟩ := s
  cases alt <;> rfl

@[simp] theorem rsOf_withRS (ws : WS) (r : RS) : rsOf (withRS ws r) = r := by
  obtain ⟨g, a, sa⟩ := r
  simp only [rsOf, withRS, RS.mk.injEq, and_true]
  exact setCur_cur ws.screen g

theorem withRS_withRS (ws : WS) (r1 r2 : RS) : withRS (withRS ws r1) r2 = withRS ws r2 := by
  simp only [withRS]
  congr 1
  unfold Screen.setCur
  cases h : ws.screen.altScreen <;> simp [h]

theorem withRS_self (ws : WS) : withRS ws (rsOf ws) = ws := by
  simp only [withRS, rsOf, setCur_self]

/-- the semantics of a byte string on the receiver state -/
def Step (X : List Nat) (f : RS → M RS) : Prop :=
  ∀ p : Parser, Ready p → ∀ r', f (rsOf p.ws) = .ok r' →
    ∃ p', p.process W cb X = .ok p' ∧ p'.ws = withRS p.ws r' ∧ Ready p'

theorem process_vte {p p' : Parser} {X : List Nat} (h : p.process W cb X = .ok p') :
    p'.vte = (p.vte.advance X).1 := by
  simp only [Parser.process] at h
  cases hh : (p.vte.advance X).2.foldlM (perform W cb) p.ws with
  | error e => rw [hh] at h; simp at h
  | ok ws => rw [hh] at h; simp only [ok_bind, pure_eq_ok, Except.ok.injEq] at h; rw [← h]

theorem step_nil : Step W cb [] (fun r => pure r) := by
  intro p hr r' h
  simp only [pure_eq_ok, Except.ok.injEq] at h
  subst h
  exact ⟨p, C04.process_nil W cb p hr.2, (withRS_self _).symm, hr⟩

theorem step_append {X Y : List Nat} {f h : RS → M RS} (hX : Step W cb X f)
    (hY : Step W cb Y h) : Step W cb (X ++ Y) (fun r => f r >>= h) := by
  intro p hr r' hfg
  simp only at hfg
  cases h1 : f (rsOf p.ws) with
  | error e => rw [h1] at hfg; simp at hfg
  | ok r1 =>
    rw [h1] at hfg
    simp only [ok_bind] at hfg
    obtain ⟨p1, e1, w1, r1'⟩ := hX p hr r1 h1
    have hh : h (rsOf p1.ws) = .ok r' := by rw [w1, rsOf_withRS]; exact hfg
    obtain ⟨p2, e2, w2, r2⟩ := hY p1 r1' r' hh
    have hcar : (p.vte.advance X).1.carry = [] := by rw [← process_vte W cb e1]; exact r1'.2
    refine ⟨p2, ?_, ?_, r2⟩
    · rw [C04.process_append W cb p X Y hr.2 hcar, e1]; exact e2
    · rw [w2, w1, withRS_withRS]

/-- weaken the description: any function that agrees wherever the stronger one succeeds -/
theorem step_mono {X : List Nat} {f h : RS → M RS} (hX : Step W cb X f)
    (hfh : ∀ r r', h r = .ok r' → f r = .ok r') : Step W cb X h :=
  fun p hr r' hh => hX p hr r' (hfh _ _ hh)

theorem withRS_grid (ws : WS) (g' : Grid) :
    withRS ws { rsOf ws with g := g' } = { ws with screen := ws.screen.setCur g' } := by
  simp only [withRS, rsOf]
  congr 1
  unfold Screen.setCur
  cases h : ws.screen.altScreen <;> simp [h]

/-- a token whose actions amount to one function on the active grid (which may read the pen) -/
theorem step_grid {X : List Nat} {acts : List Action} (ht : Tok X acts) (F : Attrs → Grid → M Grid)
    (hp : ∀ ws : WS, acts.foldlM (perform W cb) ws = ws.onScreen (fun s => s.modifyGrid (F s.attrs))) :
    Step W cb X (fun r => F r.pen r.g >>= fun g' => pure { r with g := g' }) := by
  intro p hr r' hf
  obtain ⟨e, g, c⟩ := ht p.vte hr.1 hr.2
  simp only [rsOf] at hf
  cases hF : F p.ws.screen.attrs p.ws.screen.cur with
  | error e' => rw [hF] at hf; simp at hf
  | ok g' =>
    rw [hF] at hf
    simp only [ok_bind, pure_eq_ok, Except.ok.injEq] at hf
    subst hf
    simp only [Parser.process, e, hp, WS.onScreen, modifyGrid_ok_of hF, ok_bind, pure_bind']
    exact ⟨_, rfl, (withRS_grid p.ws g').symm, g, c⟩

/-- `modifyGrid` twice is `modifyGrid` of the composition; the pen is not touched in between -/
theorem modifyGrid_bind (s : Screen) (f h : Grid → M Grid) :
    (s.modifyGrid f >>= fun s' => s'.modifyGrid h) = s.modifyGrid (fun g => f g >>= h) := by
  unfold Screen.modifyGrid
  cases ha : s.altScreen
  · simp only [Bool.false_eq_true, ↓reduceIte]
    cases f s.grid with
    | error e => rfl
    | ok g => simp [ha]
  · simp only [↓reduceIte]
    cases f s.altGrid with
    | error e => rfl
    | ok g => simp [ha]

theorem modifyGrid_attrs {s s' : Screen} {f : Grid → M Grid} (h : s.modifyGrid f = .ok s') : s'.attrs = s.attrs :=
  by obtain ⟨_, _, _, _, ha, _⟩ := modifyGrid_cur h; exact ha

/-- two grid functions in a row on the work state -/
theorem onScreen_bind (ws : WS) (F H : Attrs → Grid → M Grid) :
    (ws.onScreen (fun s => s.modifyGrid (F s.attrs)) >>= fun ws' => ws'.onScreen (fun s => s.modifyGrid (H s.attrs))) =
      ws.onScreen (fun s => s.modifyGrid (fun g => F s.attrs g >>= H s.attrs)) := by
  simp only [WS.onScreen]
  cases h1 : ws.screen.modifyGrid (F ws.screen.attrs) with
  | error e =>
    have : ws.screen.modifyGrid (fun g => F ws.screen.attrs g >>= H ws.screen.attrs) = .error e := by
      rw [← modifyGrid_bind, h1]; rfl
    simp [this]
  | ok s1 =>
    have ha := modifyGrid_attrs h1
    have : ws.screen.modifyGrid (fun g => F ws.screen.attrs g >>= H ws.screen.attrs) =
        s1.modifyGrid (H ws.screen.attrs) := by
      rw [← modifyGrid_bind, h1]; rfl
    simp only [ok_bind, pure_bind', ha, this]

/-! ### the primitive pieces -/

@[simp] theorem bind_ok_right {α} (x : M α) : (x >>= fun s => (Except.ok s : M α)) = x := by
  cases x <;> rfl

theorem foldlM_single {α σ} (f : σ → α → M σ) (s : σ) (a : α) : [a].foldlM f s = f s a := by
  simp [List.foldlM]

/-- CUP: `ESC [ H` / `ESC [ r ; c H` -/
theorem step_moveTo (pos : Pos) (hr : pos.row + 1 ≤ 65535) (hc : pos.col + 1 ≤ 65535) :
    Step W cb (Term.moveTo pos) (fun r => r.g.setPos pos >>= fun g' => pure { r with g := g' }) := by
  unfold Term.moveTo
  by_cases h0 : (pos.row == 0 && pos.col == 0) = true
  · simp only [h0, ↓reduceIte]
    have hp : pos = ⟨0, 0⟩ := by
      obtain ⟨r, c⟩ := pos
      simp only [Bool.and_eq_true, beq_iff_eq] at h0
      simp [h0.1, h0.2]
    subst hp
    have ht := tok_csi [] 72 (by simp) (by simp) (by omega)
    simp only [paramBytes, List.append_nil, Tok.groups] at ht
    refine step_grid W cb (X := [Term.ESC, 91, 72]) ht (fun _ g => g.setPos ⟨0, 0⟩) ?_
    intro ws
    simp [foldlM_single, perform, performCsi, canon2, firstOr0, Screen.cup, subM]
  · simp only [h0, Bool.false_eq_true, ↓reduceIte]
    have ht := tok_csi [pos.row + 1, pos.col + 1] 72 (by simp; omega) (by simp) (by omega)
    have hg : Tok.groups [pos.row + 1, pos.col + 1] = [[pos.row + 1], [pos.col + 1]] := by simp [Tok.groups]
    rw [hg] at ht
    have hb : [Term.ESC, 91] ++ Term.itoa (pos.row + 1) ++ [59] ++ Term.itoa (pos.col + 1) ++ [72] =
        [0x1B, 0x5B] ++ paramBytes [pos.row + 1, pos.col + 1] ++ [72] := by
      simp [paramBytes, Term.ESC]
    rw [hb]
    refine step_grid W cb ht (fun _ g => g.setPos pos) ?_
    intro ws
    simp [foldlM_single, perform, performCsi, canon2, firstOr0, Screen.cup, subM]

/-- CR LF -/
theorem step_crlf :
    Step W cb Term.crlf (fun r => (r.g.colSet 0 >>= fun g => g.rowIncScroll 1 >>= fun q => pure q.1) >>=
      fun g' => pure { r with g := g' }) := by
  have ht : Tok Term.crlf [.execute 13, .execute 10] := by
    have := tok_text [13, 10] (by decide) (by decide)
    simpa [Term.crlf, Vte.groundDispatch, Utf8.fromUtf8, Utf8.Res.cons] using this
  refine step_grid W cb ht (fun _ g => g.colSet 0 >>= fun g => g.rowIncScroll 1 >>= fun q => pure q.1) ?_
  intro ws
  simp only [List.foldlM_cons, List.foldlM_nil, perform, performExecute, Screen.cr, Screen.lf]
  have := onScreen_bind ws (fun _ g => g.colSet 0) (fun _ g => do let (g, _) ← g.rowIncScroll 1; pure g)
  simp only [bind_pure] at this ⊢
  exact this

/-- BS -/
theorem step_backspace :
    Step W cb Term.backspace (fun r => pure { r with g := r.g.colDec 1 }) := by
  have ht : Tok Term.backspace [.execute 8] := by
    have := tok_text [8] (by decide) (by decide)
    simpa [Term.backspace, Vte.groundDispatch, Utf8.fromUtf8, Utf8.Res.cons] using this
  have := step_grid W cb ht (fun _ g => pure (g.colDec 1)) (by
    intro ws
    simp only [foldlM_single, perform, performExecute]
    rfl)
  simpa using this

/-- a CSI with at most one numeric parameter, written the way `term.rs` does (`ESC [ f` for 1) -/
theorem tok_csi_count (n f : Nat) (hn : 1 ≤ n ∧ n ≤ 65535) (hf : 0x40 ≤ f ∧ f ≤ 0x7E) :
    ∃ ps, Tok (if n = 1 then [Term.ESC, 91, f] else [Term.ESC, 91] ++ Term.itoa n ++ [f])
      [.csiDispatch ps [] false f] ∧ canon1 ps 1 = n := by
  by_cases h1 : n = 1
  · subst h1
    have ht := tok_csi [] f (by simp) (by simp) hf
    refine ⟨[[0]], ?_, by simp [canon1, firstOr0]⟩
    simpa [paramBytes, Tok.groups, Term.ESC] using ht
  · have ht := tok_csi [n] f (by simpa using hn.2) (by simp) hf
    refine ⟨[[n]], ?_, ?_⟩
    · simpa [paramBytes, Tok.groups, Term.ESC, h1] using ht
    · have : n ≠ 0 := by omega
      simp [canon1, firstOr0, this]

/-- CUF n as `term.rs` writes it (nothing for 0) -/
theorem step_moveRight (n : Nat) (hn : n ≤ 65535) :
    Step W cb (Term.moveRight n)
      (fun r => (if n = 0 then pure r.g else r.g.colIncClamp n) >>= fun g' => pure { r with g := g' }) := by
  by_cases h0 : n = 0
  · subst h0
    have := step_nil W cb
    simpa [Term.moveRight] using this
  · obtain ⟨ps, ht, hc⟩ := tok_csi_count n 67 ⟨by omega, hn⟩ (by omega)
    have hb : Term.moveRight n = if n = 1 then [Term.ESC, 91, 67] else [Term.ESC, 91] ++ Term.itoa n ++ [67] := by
      unfold Term.moveRight
      split
      · omega
      · simp
      · rename_i h1 h2; simp [show n ≠ 1 from fun h => h2 h]
    rw [hb]
    have := step_grid W cb ht (fun _ g => g.colIncClamp n) (by
      intro ws
      simp only [foldlM_single, perform, performCsi, hc]
      rfl)
    simpa [h0] using this

/-- ECH n as `term.rs` writes it (nothing for 0) -/
theorem step_eraseChar (n : Nat) (hn : n ≤ 65535) :
    Step W cb (Term.eraseChar n)
      (fun r => (if n = 0 then pure r.g else r.g.eraseCells n r.pen) >>= fun g' => pure { r with g := g' }) := by
  by_cases h0 : n = 0
  · subst h0
    have := step_nil W cb
    simpa [Term.eraseChar] using this
  · obtain ⟨ps, ht, hc⟩ := tok_csi_count n 88 ⟨by omega, hn⟩ (by omega)
    have hb : Term.eraseChar n = if n = 1 then [Term.ESC, 91, 88] else [Term.ESC, 91] ++ Term.itoa n ++ [88] := by
      unfold Term.eraseChar
      split
      · omega
      · simp
      · rename_i h1 h2; simp [show n ≠ 1 from fun h => h2 h]
    rw [hb]
    have := step_grid W cb ht (fun a g => g.eraseCells n a) (by
      intro ws
      simp only [foldlM_single, perform, performCsi, hc]
      rfl)
    simpa [h0] using this

/-- EL 0: `ESC [ K` -/
theorem step_clearRowForward :
    Step W cb Term.clearRowForward (fun r => r.g.eraseRowForward r.pen >>= fun g' => pure { r with g := g' }) := by
  have ht := tok_csi [] 75 (by simp) (by simp) (by omega)
  simp only [paramBytes, List.append_nil, Tok.groups] at ht
  refine step_grid W cb (X := Term.clearRowForward) (by simpa [Term.clearRowForward, Term.ESC] using ht)
    (fun a g => g.eraseRowForward a) ?_
  intro ws
  simp only [foldlM_single, perform, performCsi, canon1, firstOr0, el, Screen.elMode]
  simp [WS.onScreen]

/-- a character `Screen::text` is handed as such: not a C0 / C1 control, not U+FFFD -/
def Plain (c : Nat) : Prop := 0x20 ≤ c ∧ ¬ (0x80 ≤ c ∧ c ≤ 0x9F) ∧ c ≠ 0xFFFD

/-- the grid function of a run of characters typed with pen `a` -/
def typeChars (a : Attrs) (chars : List Nat) (g : Grid) : M Grid := chars.foldlM (fun g c => g.text W a c) g

theorem perform_prints (chars : List Nat) (hp : ∀ c ∈ chars, Plain c) : ∀ ws : WS,
    (Vte.groundDispatch chars).foldlM (perform W cb) ws =
      ws.onScreen (fun s => s.modifyGrid (typeChars W s.attrs chars)) := by
  induction chars with
  | nil =>
    intro ws
    simp only [Vte.groundDispatch, List.map_nil, List.foldlM_nil, typeChars, WS.onScreen]
    have : ws.screen.modifyGrid (typeChars W ws.screen.attrs []) = .ok ws.screen := by
      unfold Screen.modifyGrid typeChars; split <;> rfl
    simp [this]
  | cons c cs ih =>
    intro ws
    obtain ⟨h1, h2, h3⟩ := hp c (List.mem_cons_self ..)
    have hd : Vte.groundDispatch (c :: cs) = .print c :: Vte.groundDispatch cs := by
      have : ¬ (c ≤ 0x1f ∨ (0x80 ≤ c ∧ c ≤ 0x9f)) := by omega
      simp [Vte.groundDispatch, this]
    have hpr : perform W cb ws (.print c) = ws.onScreen (fun s => s.modifyGrid (fun g => g.text W s.attrs c)) := by
      have e1 : (decide (0x80 ≤ c) && decide (c < 0xA0)) = false := by
        simp only [Bool.and_eq_false_iff, decide_eq_false_iff_not]; omega
      have e2 : (c == 0xFFFD) = false := by simpa using h3
      simp only [perform, performPrint, e1, e2, Bool.false_eq_true, ↓reduceIte]
      rfl
    rw [hd, List.foldlM_cons, hpr]
    have ih' := fun ws' => ih (fun x hx => hp x (List.mem_cons_of_mem _ hx)) ws'
    simp only [ih']
    rw [onScreen_bind ws (fun a g => g.text W a c) (fun a g => typeChars W a cs g)]
    rfl

/-- a run of text: complete valid UTF-8 whose characters are plain -/
theorem step_text (bytes : List Nat) (hv : (Utf8.fromUtf8 bytes).err = none)
    (hp : ∀ c ∈ (Utf8.fromUtf8 bytes).chars, Plain c) (hesc : ∀ b ∈ bytes, b ≠ 0x1B) :
    Step W cb bytes
      (fun r => typeChars W r.pen (Utf8.fromUtf8 bytes).chars r.g >>= fun g' => pure { r with g := g' }) :=
  step_grid W cb (tok_text bytes hv hesc) (fun a g => typeChars W a (Utf8.fromUtf8 bytes).chars g)
    (perform_prints W cb _ hp)

/-- a pen change: `a.write_escape_code_diff(b)` on a receiver whose pen is `b` -/
theorem step_pen (a b : Attrs) (hwf : Attrs.wf a) :
    Step W cb (a.writeEscapeCodeDiff b) (fun r => if r.pen = b then pure { r with pen := a } else panic 0) := by
  intro p hr r' hf
  by_cases hb : (rsOf p.ws).pen = b
  · simp only [hb, ↓reduceIte, pure_eq_ok, Except.ok.injEq] at hf
    subst hf
    obtain ⟨p', e, w, r⟩ := process_attrs_diff W cb p a b hwf hr hb
    refine ⟨p', e, ?_, r⟩
    rw [w]
    simp only [WS.modAttrs, withRS, rsOf, setCur_self]
  · simp [hb, panic] at hf

/-- ED 0 from home: `ESC [ H ESC [ J` -/
theorem step_clearScreen :
    Step W cb Term.clearScreen
      (fun r => (r.g.setPos ⟨0, 0⟩ >>= fun g => g.eraseAllForward r.pen) >>= fun g' => pure { r with g := g' }) := by
  have h1 := step_moveTo W cb ⟨0, 0⟩ (by simp) (by simp)
  have ht := tok_csi [] 74 (by simp) (by simp) (by omega)
  simp only [paramBytes, List.append_nil, Tok.groups] at ht
  have h2 := step_grid W cb (X := [Term.ESC, 91, 74]) (by simpa [Term.ESC] using ht)
    (fun a g => g.eraseAllForward a) (by
      intro ws
      simp only [foldlM_single, perform, performCsi, canon1, firstOr0, ed, Screen.edMode]
      simp [WS.onScreen])
  have := step_append W cb h1 h2
  have hb : Term.moveTo ⟨0, 0⟩ ++ [Term.ESC, 91, 74] = Term.clearScreen := by
    simp [Term.moveTo, Term.clearScreen]
  rw [hb] at this
  refine step_mono W cb this ?_
  intro r r' h
  cases hs : r.g.setPos ⟨0, 0⟩ with
  | error e => simp [hs] at h
  | ok g1 =>
    simp only [hs, ok_bind] at h ⊢
    exact h

end Vt.Recv
