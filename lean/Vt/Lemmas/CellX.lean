/-
  Vt.Lemmas.CellX — the per-cell part of `Inv⁺` / `emitInv`, and the ways the crate builds cells.

  `cx c`: the colours of the cell's attributes are bytes; a continuation cell has default attributes; a
  non-empty cell starts with a character other than U+FFFD and every combining character was appended
  while the cell held fewer than 18 bytes.  It does not depend on the column, so moving a cell keeps it.
-/
import Vt.Lemmas.CellInv
import Vt.Lemmas.EmitOk
namespace Vt
set_option linter.unusedSimpArgs false

def cx (c : Cell) : Bool :=
  attrsOk c.attrs && (!c.cont || c.attrs == Attrs.default) &&
  (c.len == 0 ||
   match (Utf8.fromUtf8 (c.contents.take c.len)).chars with
   | [] => false
   | f :: zs => f != 0xFFFD && prefixOkB (Utf8.encode f).length zs)

theorem attrsOk_default : attrsOk Attrs.default = true := by decide

theorem cx_attrs {c : Cell} (h : cx c = true) : attrsOk c.attrs = true := by
  simp only [cx, Bool.and_eq_true] at h; exact h.1.1

theorem cx_new : cx Cell.new = true := by decide

theorem cx_clear (c : Cell) {a : Attrs} (ha : attrsOk a = true) : cx (c.clear a) = true := by
  simp [cx, Cell.clear, ha]

theorem cx_clear_self {c : Cell} (h : cx c = true) : cx (c.clear c.attrs) = true := cx_clear c (cx_attrs h)

theorem cx_contCell (c : Cell) : cx ((c.clear Attrs.default).setWideContinuation true) = true := by
  simp [cx, Cell.clear, Cell.setWideContinuation, attrsOk_default]

theorem cx_uncont {c : Cell} (h : cx c = true) : cx (c.setWideContinuation false) = true := by
  simp only [cx, Cell.setWideContinuation, Bool.and_eq_true, Bool.not_false, Bool.true_or, and_true] at h ⊢
  exact ⟨h.1.1, h.2⟩

/-- the inserted blank that takes over a continuation flag (ICH on the second half of a wide character) -/
theorem cx_new_cont (b : Bool) : cx (Cell.new.setWideContinuation b) = true := by
  cases b <;> decide

theorem cx_set {W : Nat → Option Nat} {cell cell' : Cell} {c : Nat} {a : Attrs} (ha : attrsOk a = true)
    (hs : isScalar c = true) (hc : c ≠ 0xFFFD) (hl : cell.contents.length = 22) (e : cell.set W c a = .ok cell') :
    cx cell' = true := by
  have hn := Utf8.encode_length_le c
  have e' : cell.set W c a = .ok (setResult W cell c a) := by
    simp [Cell.set, Cell.appendChar, CONTENT_BYTES, setResult, show (Utf8.encode c).length ≤ 22 by omega]
  rw [e'] at e
  have := Except.ok.inj e
  subst this
  unfold setResult
  simp only [cx, ha, Bool.not_false, Bool.true_or, Bool.and_self, List.take_left', Utf8.fromUtf8_encode_single c hs,
    Bool.true_and, Bool.or_eq_true, beq_iff_eq, Bool.and_eq_true, bne_iff_ne, ne_eq]
  right
  exact ⟨hc, rfl⟩

/-- total bytes of a decoded string -/
theorem chars_bytes_length (bs : List Nat) (h : (Utf8.fromUtf8 bs).err = none) :
    bs.length = ((Utf8.fromUtf8 bs).chars.map (fun c => (Utf8.encode c).length)).sum := by
  have := Recv.decode_encode bs h
  have hl := congrArg List.length this
  rw [← hl]
  generalize (Utf8.fromUtf8 bs).chars = cs
  induction cs with
  | nil => rfl
  | cons c cs ih => simp [List.flatMap_cons, ih]

theorem prefixOkB_append (n : Nat) (zs : List Nat) (z : Nat) :
    prefixOkB n (zs ++ [z]) = (prefixOkB n zs && decide (n + (zs.map (fun c => (Utf8.encode c).length)).sum < 18)) := by
  induction zs generalizing n with
  | nil => simp [prefixOkB]
  | cons y ys ih =>
    simp only [List.cons_append, prefixOkB, ih, List.map_cons, List.sum_cons]
    rw [show n + (Utf8.encode y).length + (ys.map (fun c => (Utf8.encode c).length)).sum =
      n + ((Utf8.encode y).length + (ys.map (fun c => (Utf8.encode c).length)).sum) by omega]
    cases decide (n < 18) <;> simp

/-- `Cell::append` keeps `cx` -/
theorem cx_append {W : Nat → Option Nat} {cell cell' : Cell} {z : Nat} (h : cellOk W cell = true) (hx : cx cell = true)
    (hs : isScalar z = true) (e : cell.append z = .ok cell') : cx cell' = true := by
  obtain ⟨hl, hlen, hb⟩ := cellOk_fields W h
  have hn := Utf8.encode_length_le z
  unfold Cell.append at e
  by_cases hfull : cell.len ≥ CONTENT_BYTES - 4
  · simp only [hfull, ↓reduceIte, pure_eq_ok, Except.ok.injEq] at e
    rw [← e]; exact hx
  · simp only [hfull, ↓reduceIte] at e
    simp only [CONTENT_BYTES] at hfull
    have hk := h
    simp only [cellOk, Bool.and_eq_true, decide_eq_true_eq, beq_iff_eq, List.all_eq_true] at hk
    obtain ⟨⟨⟨⟨_, _⟩, _⟩, _⟩, hk5⟩ := hk
    simp only [Option.isNone_iff_eq_none] at hk5
    obtain ⟨hvalid, _⟩ := hk5
    have hxa := hx
    simp only [cx, Bool.and_eq_true] at hxa
    obtain ⟨⟨ha1, ha2⟩, ha3⟩ := hxa
    by_cases hz0 : cell.len = 0
    · simp only [hz0, beq_self_eq_true, ↓reduceIte, Nat.zero_add] at e
      have h1 : List.take 1 (cell.contents.set 0 32) = [32] := by
        cases hc : cell.contents with
        | nil => simp [hc] at hl
        | cons x xs => simp
      have e' : Cell.appendChar { cell with contents := cell.contents.set 0 32, len := 0 + 1 } 1 z
          = .ok (appendEmptyResult cell z) := by
        simp [Cell.appendChar, CONTENT_BYTES, show 1 + (Utf8.encode z).length ≤ 22 by omega, h1,
          appendEmptyResult]
      have e2 : cell' = appendEmptyResult cell z := by
        have : Cell.appendChar { cell with contents := cell.contents.set 0 32, len := 1 } 1 z = .ok cell' := by
          simpa using e
        have e3 : Cell.appendChar { cell with contents := cell.contents.set 0 32, len := 1 } 1 z
            = .ok (appendEmptyResult cell z) := by simpa using e'
        rw [e3] at this
        exact (Except.ok.inj this).symm
      subst e2
      unfold appendEmptyResult
      have htake : List.take (1 + (Utf8.encode z).length)
          (32 :: (Utf8.encode z ++ List.drop (1 + (Utf8.encode z).length) (cell.contents.set 0 32)))
          = 32 :: Utf8.encode z := by
        rw [show 1 + (Utf8.encode z).length = (Utf8.encode z).length + 1 by omega, List.take_succ_cons]
        rw [List.take_append_of_le_length (Nat.le_refl _), List.take_length]
      have hdec : Utf8.fromUtf8 (32 :: Utf8.encode z) =
          { chars := [32, z], validUpTo := 1 + (Utf8.encode z).length, err := none } := by
        rw [Utf8.fromUtf8.eq_def]
        simp [Utf8.fromUtf8_encode_single z hs, Utf8.Res.cons]
      simp only [cx, ha1, ha2, Bool.and_self, htake, hdec, Bool.true_and, Bool.or_eq_true, beq_iff_eq,
        Bool.and_eq_true, bne_iff_ne, ne_eq]
      right
      refine ⟨by decide, ?_⟩
      simp [prefixOkB, Utf8.encode]
    · have hz0' : (cell.len == 0) = false := by simpa using hz0
      simp only [hz0', Bool.false_eq_true, ↓reduceIte] at e
      have e' : Cell.appendChar cell cell.len z = .ok (appendResult cell z) := by
        simp [Cell.appendChar, CONTENT_BYTES, show cell.len ≤ 22 by omega,
          show cell.len + (Utf8.encode z).length ≤ 22 by omega, appendResult]
      rw [e'] at e
      have e2 := (Except.ok.inj e).symm
      subst e2
      unfold appendResult
      have htake : List.take (cell.len + (Utf8.encode z).length)
          (List.take cell.len cell.contents ++ Utf8.encode z ++
            List.drop (cell.len + (Utf8.encode z).length) cell.contents)
          = List.take cell.len cell.contents ++ Utf8.encode z := by
        rw [List.take_append_of_le_length (by simp [List.length_take]; omega)]
        rw [List.take_of_length_le (by simp [List.length_take]; omega)]
      have hdec := Utf8.fromUtf8_append_ok (List.take cell.len cell.contents) (Utf8.encode z) hvalid
      rw [Utf8.fromUtf8_encode_single z hs] at hdec
      have hbl := chars_bytes_length (List.take cell.len cell.contents) hvalid
      rw [List.length_take, hl, Nat.min_eq_left hlen] at hbl
      simp only [hz0', Bool.false_or] at ha3
      cases hcs : (Utf8.fromUtf8 (List.take cell.len cell.contents)).chars with
      | nil => rw [hcs] at ha3; simp at ha3
      | cons f rest =>
        rw [hcs] at ha3 hbl
        simp only [Bool.and_eq_true, bne_iff_ne, ne_eq] at ha3
        simp only [List.map_cons, List.sum_cons] at hbl
        simp only [cx, ha1, ha2, Bool.and_self, htake, hdec, Utf8.Res.append, hcs, List.cons_append, Bool.true_and,
          Bool.or_eq_true, beq_iff_eq, Bool.and_eq_true, bne_iff_ne, ne_eq]
        right
        refine ⟨ha3.1, ?_⟩
        rw [prefixOkB_append, ha3.2]
        simp only [Bool.true_and, decide_eq_true_eq]
        omega

/-- the column clause of `cellEmitOk` follows from the pairing of wide characters -/
theorem cellEmitOk_of_cx {W : Nat → Option Nat} {cols col : Nat} {c : Cell} (hx : cx c = true)
    (hfit : c.len ≠ 0 → col + (if c.wide then 2 else 1) ≤ cols)
    (hw : ∀ f zs, (Utf8.fromUtf8 (c.contents.take c.len)).chars = f :: zs → c.wide = decide ((W f).getD 1 > 1)) :
    cellEmitOk W cols col c = true := by
  simp only [cx, Bool.and_eq_true] at hx
  obtain ⟨⟨ha1, _⟩, ha3⟩ := hx
  simp only [cellEmitOk, ha1, Bool.true_and]
  by_cases h0 : (c.len == 0) = true
  · simp [h0]
  · simp only [h0, Bool.false_eq_true, ↓reduceIte]
    simp only [h0, Bool.false_or] at ha3
    have h0' : c.len ≠ 0 := by simpa using h0
    cases hcs : (Utf8.fromUtf8 (c.contents.take c.len)).chars with
    | nil => rw [hcs] at ha3; simp at ha3
    | cons f zs =>
      rw [hcs] at ha3
      simp only [Bool.and_eq_true, bne_iff_ne, ne_eq, decide_eq_true_eq] at ha3 ⊢
      refine ⟨⟨ha3.1, ?_⟩, ha3.2⟩
      have hfw := hfit h0'
      rw [hw f zs hcs] at hfw
      by_cases hgt : (W f).getD 1 > 1
      · simp only [hgt, decide_true, ↓reduceIte] at hfw
        have : min ((W f).getD 1) 2 = 2 := by omega
        omega
      · simp only [hgt, decide_false, Bool.false_eq_true, ↓reduceIte] at hfw
        have : min ((W f).getD 1) 2 ≤ 1 := by omega
        omega

end Vt
