/-
  Vt.Lemmas.Grid — closed forms of the clamp helpers of grid.rs.
-/
import Vt.Lemmas.Screen
namespace Vt
set_option linter.unusedSimpArgs false

theorem colClamp_spec (g : Grid) (hc : 1 ≤ g.size.cols) :
    g.colClamp = .ok { g with pos := ⟨g.pos.row, min g.pos.col (g.size.cols - 1)⟩ } := by
  unfold Grid.colClamp
  simp only [subM, hc, ↓reduceIte, pure_bind', pure_eq_ok, ok_bind, Except.ok.injEq]
  split
  · simp only [Grid.mk.injEq, Pos.mk.injEq, and_true, true_and]; omega
  · have : min g.pos.col (g.size.cols - 1) = g.pos.col := by omega
    rw [this]

theorem rowClampBottom_spec (g : Grid) (l : Bool) (hr : 1 ≤ g.size.rows) :
    g.rowClampBottom l = .ok
      ({ g with pos := ⟨min g.pos.row (if l then g.scrollBottom else g.size.rows - 1), g.pos.col⟩ },
       g.pos.row - (if l then g.scrollBottom else g.size.rows - 1)) := by
  unfold Grid.rowClampBottom
  cases l
  · simp only [Bool.false_eq_true, ↓reduceIte, subM, hr, pure_bind', pure_eq_ok, ok_bind, Except.ok.injEq]
    split
    · simp only [Except.ok.injEq, Prod.mk.injEq, Grid.mk.injEq, Pos.mk.injEq, and_true, true_and]; omega
    · have : min g.pos.row (g.size.rows - 1) = g.pos.row := by omega
      rw [this]; simp; omega
  · simp only [↓reduceIte, pure_bind', pure_eq_ok, ok_bind, Except.ok.injEq]
    split
    · simp only [Except.ok.injEq, Prod.mk.injEq, Grid.mk.injEq, Pos.mk.injEq, and_true, true_and]; omega
    · have : min g.pos.row g.scrollBottom = g.pos.row := by omega
      rw [this]; simp; omega

theorem rowClampTop_spec (g : Grid) (l : Bool) :
    (g.rowClampTop l).1 =
      { g with pos := ⟨if l && g.pos.row < g.scrollTop then g.scrollTop else g.pos.row, g.pos.col⟩ } := by
  simp only [Grid.rowClampTop]
  split <;> simp_all


end Vt
