/-
  Vt.Lemmas.CellInv — `Cell::set` and `Cell::append` keep a cell well-formed.

  Assumptions on the width function `W` (facts about `unicode_width` recorded in the trusted
  base and checked on the real table by the driver): a space has width 1.
-/
import Vt.Lemmas.RowInv
namespace Vt
set_option linter.unusedSimpArgs false
set_option maxRecDepth 4096

variable (W : Nat → Option Nat)

theorem cellOk_fields {c : Cell} (h : cellOk W c = true) :
    c.contents.length = 22 ∧ c.len ≤ 22 ∧ (∀ b ∈ c.contents, b < 256) := by
  simp only [cellOk, Bool.and_eq_true, decide_eq_true_eq, beq_iff_eq, List.all_eq_true] at h
  obtain ⟨⟨⟨⟨h1, h2⟩, h3⟩, _⟩, _⟩ := h
  exact ⟨h1, h2, h3⟩

/-- a character that `Screen::text` hands to `Cell::set`: a scalar value of non-zero width that is
not an unassigned-width control character -/
def Printable (c : Nat) : Prop :=
  isScalar c = true ∧ W c ≠ some 0 ∧ ¬ (W c = none ∧ c < 256)

/-- the cell `Cell::set(c, a)` produces -/
def setResult (cell : Cell) (c : Nat) (a : Attrs) : Cell :=
  { contents := Utf8.encode c ++ cell.contents.drop (Utf8.encode c).length,
    len := (Utf8.encode c).length, wide := decide ((W c).getD 1 > 1), cont := false, attrs := a }

/-- `Cell::set(c, a)` on a well-formed cell gives a well-formed, non-continuation cell -/
theorem set_ok {cell : Cell} {c : Nat} (a : Attrs) (h : cellOk W cell = true) (hp : Printable W c) :
    ∃ cell', cell.set W c a = .ok cell' ∧ cellOk W cell' = true ∧ cell'.cont = false ∧
      cell'.wide = decide ((W c).getD 1 > 1) ∧ cell'.attrs = a := by
  obtain ⟨hl, _, hb⟩ := cellOk_fields W h
  obtain ⟨hs, hw0, hctl⟩ := hp
  have hn := Utf8.encode_length_le c
  have hn1 := Utf8.encode_length_pos c
  have hsc : c < 0x110000 := by
    simp only [isScalar, Bool.or_eq_true, decide_eq_true_eq, Bool.and_eq_true] at hs; omega
  have e : cell.set W c a = .ok (setResult W cell c a) := by
    simp [Cell.set, Cell.appendChar, CONTENT_BYTES, setResult, show (Utf8.encode c).length ≤ 22 by omega]
  refine ⟨_, e, ?_, rfl, rfl, rfl⟩
  unfold setResult
  simp only [cellOk, List.length_append, List.length_drop, hl, List.take_left', Utf8.fromUtf8_encode_single c hs,
    Bool.and_eq_true, decide_eq_true_eq, beq_iff_eq, List.all_eq_true, List.mem_append, Bool.not_false,
    Bool.true_or, Option.isNone_none, List.all_nil, Bool.and_true, bne_iff_ne, ne_eq, Bool.or_eq_true,
    decide_eq_true_eq, and_true]
  refine ⟨⟨⟨by omega, by omega⟩, ?_⟩, ?_⟩
  · intro b hb'
    rcases hb' with hb' | hb'
    · exact Utf8.encode_bytes c hsc b hb'
    · exact hb b (List.mem_of_mem_drop hb')
  · refine ⟨trivial, Or.inr ⟨hw0, ?_⟩⟩
    by_cases hn' : W c = none
    · right; have := hctl; simp [hn'] at this; omega
    · left; exact hn'

theorem fromUtf8_nonempty {bs : List Nat} (hne : bs ≠ []) (h : (Utf8.fromUtf8 bs).err = none) :
    (Utf8.fromUtf8 bs).chars ≠ [] := by
  fun_induction Utf8.fromUtf8 bs
  all_goals first
    | (simp [Utf8.Res.stop] at h; done)
    | (exact absurd rfl hne)
    | simp [Utf8.Res.cons]

/-- `Cell::append(z)` on an empty cell: a space placeholder, then the bytes of `z` -/
def appendEmptyResult (cell : Cell) (z : Nat) : Cell :=
  { cell with
    contents := 32 :: (Utf8.encode z ++ List.drop (1 + (Utf8.encode z).length) (cell.contents.set 0 32)),
    len := 1 + (Utf8.encode z).length }

/-- `Cell::append(z)` on a non-empty, non-full cell -/
def appendResult (cell : Cell) (z : Nat) : Cell :=
  { cell with
    contents := List.take cell.len cell.contents ++ Utf8.encode z ++
      List.drop (cell.len + (Utf8.encode z).length) cell.contents,
    len := cell.len + (Utf8.encode z).length }

/-- `Cell::append(z)` of a zero-width scalar keeps the cell well-formed and its flags -/
theorem append_ok {cell : Cell} {z : Nat} (hW32 : W 32 = some 1) (h : cellOk W cell = true)
    (hcont : cell.cont = false) (hz : W z = some 0) (hs : isScalar z = true) :
    ∃ cell', cell.append z = .ok cell' ∧ cellOk W cell' = true ∧ cell'.cont = cell.cont ∧
      cell'.wide = cell.wide ∧ cell'.attrs = cell.attrs := by
  obtain ⟨hl, hlen, hb⟩ := cellOk_fields W h
  have hn := Utf8.encode_length_le z
  have hsc : z < 0x110000 := by
    simp only [isScalar, Bool.or_eq_true, decide_eq_true_eq, Bool.and_eq_true] at hs; omega
  have hbz := Utf8.encode_bytes z hsc
  unfold Cell.append
  by_cases hfull : cell.len ≥ CONTENT_BYTES - 4
  · simp only [hfull, ↓reduceIte]
    exact ⟨cell, rfl, h, rfl, rfl, rfl⟩
  · simp only [hfull, ↓reduceIte]
    simp only [CONTENT_BYTES] at hfull
    -- what cellOk says about the live bytes
    have hk := h
    simp only [cellOk, Bool.and_eq_true, decide_eq_true_eq, beq_iff_eq, List.all_eq_true] at hk
    obtain ⟨⟨⟨⟨_, _⟩, _⟩, hk4⟩, hk5⟩ := hk
    simp only [Option.isNone_iff_eq_none] at hk5
    obtain ⟨hvalid, hchars⟩ := hk5
    by_cases hz0 : cell.len = 0
    · -- empty cell: a space placeholder first
      simp only [hz0, beq_self_eq_true, ↓reduceIte, Nat.zero_add]
      have hnw : cell.wide = false := by
        simp only [hz0, List.take_zero] at hchars
        simpa [Utf8.fromUtf8] using hchars
      have h1 : List.take 1 (cell.contents.set 0 32) = [32] := by
        cases hc : cell.contents with
        | nil => simp [hc] at hl
        | cons x xs => simp
      have e : Cell.appendChar { cell with contents := cell.contents.set 0 32, len := 0 + 1 } 1 z
          = .ok (appendEmptyResult cell z) := by
        simp [Cell.appendChar, CONTENT_BYTES, show 1 + (Utf8.encode z).length ≤ 22 by omega, h1,
          appendEmptyResult]
      refine ⟨appendEmptyResult cell z, by simpa using e, ?_, rfl, rfl, rfl⟩
      unfold appendEmptyResult
      have htake : List.take (1 + (Utf8.encode z).length)
          (32 :: (Utf8.encode z ++ List.drop (1 + (Utf8.encode z).length) (cell.contents.set 0 32)))
          = 32 :: Utf8.encode z := by
        rw [show 1 + (Utf8.encode z).length = (Utf8.encode z).length + 1 by omega, List.take_succ_cons]
        rw [List.take_append_of_le_length (Nat.le_refl _), List.take_length]
      have hdec : Utf8.fromUtf8 (32 :: Utf8.encode z) =
          { chars := [32, z], validUpTo := 1 + (Utf8.encode z).length, err := none } := by
        rw [Utf8.fromUtf8.eq_def]
        simp [Utf8.fromUtf8_encode_single z hs, Utf8.Res.cons]
      simp only [cellOk, htake, hdec, hcont, hnw, hW32, hz, Bool.and_eq_true, decide_eq_true_eq,
        beq_iff_eq, List.all_eq_true, List.length_append, List.length_cons, List.length_set, hl,
        List.length_drop, List.mem_append, List.mem_cons]
      refine ⟨⟨⟨⟨by omega, by omega⟩, ?_⟩, by simp⟩, by simp [hz]⟩
      intro b hb'
      rcases hb' with rfl | hb' | hb'
      · omega
      · exact hbz b hb'
      · have := List.mem_of_mem_drop hb'
        rcases List.mem_or_eq_of_mem_set this with h' | rfl
        · exact hb b h'
        · omega
    · -- non-empty cell: the bytes of z follow the live prefix
      have hz0' : (cell.len == 0) = false := by simpa using hz0
      simp only [hz0', Bool.false_eq_true, ↓reduceIte]
      have e : Cell.appendChar cell cell.len z = .ok (appendResult cell z) := by
        simp [Cell.appendChar, CONTENT_BYTES, show cell.len ≤ 22 by omega,
          show cell.len + (Utf8.encode z).length ≤ 22 by omega, appendResult]
      refine ⟨appendResult cell z, e, ?_, rfl, rfl, rfl⟩
      unfold appendResult
      have htake : List.take (cell.len + (Utf8.encode z).length)
          (List.take cell.len cell.contents ++ Utf8.encode z ++
            List.drop (cell.len + (Utf8.encode z).length) cell.contents)
          = List.take cell.len cell.contents ++ Utf8.encode z := by
        rw [List.take_append_of_le_length (by simp [List.length_take]; omega)]
        rw [List.take_of_length_le (by simp [List.length_take]; omega)]
      have hdec := Utf8.fromUtf8_append_ok (List.take cell.len cell.contents) (Utf8.encode z) hvalid
      rw [Utf8.fromUtf8_encode_single z hs] at hdec
      have hne : (Utf8.fromUtf8 (List.take cell.len cell.contents)).chars ≠ [] :=
        fromUtf8_nonempty (by
          intro he
          have := congrArg List.length he
          rw [List.length_take, hl] at this
          simp only [List.length_nil] at this
          omega) hvalid
      cases hcs : (Utf8.fromUtf8 (List.take cell.len cell.contents)).chars with
      | nil => exact absurd hcs hne
      | cons f rest =>
        rw [hcs] at hchars
        simp only [cellOk, htake, hdec, Utf8.Res.append, hcs, hcont, Bool.and_eq_true, decide_eq_true_eq,
          beq_iff_eq, List.all_eq_true, List.length_append, List.length_take, hl, List.length_drop,
          List.mem_append, List.cons_append]
        simp only [Bool.and_eq_true, List.all_eq_true, beq_iff_eq] at hchars
        obtain ⟨⟨hf, hwd⟩, hrest⟩ := hchars
        refine ⟨⟨⟨⟨by omega, by omega⟩, ?_⟩, by simp⟩, by simp, ⟨hf, hwd⟩, ?_⟩
        · intro b hb'
          rcases hb' with (hb' | hb') | hb'
          · exact hb b (List.mem_of_mem_take hb')
          · exact hbz b hb'
          · exact hb b (List.mem_of_mem_drop hb')
        · intro x hx
          rcases hx with hx | hx
          · exact hrest x hx
          · simp only [List.mem_singleton] at hx; rw [hx, hz]

end Vt
