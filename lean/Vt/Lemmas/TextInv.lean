/-
  Vt.Lemmas.TextInv — `Screen::text` (printing a character) is total on a grid satisfying the
  invariant and keeps it: the inductive step of C13 for the operation that writes cells, and the
  totality of C03 for it.  Covers auto-wrap (with scrolling), zero-width characters, and the
  destruction of wide-character halves.

  Assumption on `W` (trusted base): `W 32 = some 1`.
-/
import Vt.Lemmas.GridTotal
import Vt.Lemmas.CellInv
namespace Vt
set_option linter.unusedSimpArgs false
variable {W : Nat → Option Nat}

/-- `col_wrap(width, wrap)` for `width ≤ cols`: afterwards the character fits on the line -/
theorem colWrap_ok {g : Grid} (h : GridInv W g true) (hl : g.rows.length = g.size.rows) (width : Nat)
    (wrap : Bool) (hw : width ≤ g.size.cols) :
    ∃ g', g.colWrap width wrap = .ok g' ∧ StepOk W g g' ∧ g'.pos.col + width ≤ g'.size.cols := by
  simp only [Grid.colWrap, subM_ok hw, ok_bind]
  by_cases hgt : g.pos.col > g.size.cols - width
  · simp only [hgt, ↓reduceIte]
    have hg0 : GridInv W { g with pos := { g.pos with col := 0 } } true :=
      (stepOk_pos W h hl ⟨g.pos.row, 0⟩ h.pos_row (Nat.zero_le _)).inv
    obtain ⟨g1, n, e1, s1, hcol, htop, hbot, hn⟩ := rowIncScroll_ok hg0 hl
    simp only at hcol htop hbot hn
    rw [e1]
    simp only [ok_bind]
    by_cases hone : (decide (n > 0) && g1.scrollTop == g1.scrollBottom) = true
    · simp only [hone, ↓reduceIte, pure_eq_ok]
      exact ⟨g1, rfl, ⟨s1.inv, s1.len, s1.size, s1.cap⟩, by rw [hcol, s1.size]; simpa using hw⟩
    · simp only [hone, Bool.false_eq_true, ↓reduceIte]
      have hprev : n ≤ g.pos.row ∧ g.pos.row - n < g1.rows.length := by
        have hpr := h.pos_row
        have hrle := h.region_le
        rw [s1.len, s1.size]
        rcases hn with rfl | ⟨rfl, hb, _⟩
        · exact ⟨Nat.zero_le _, by simpa using hpr⟩
        · simp only [gt_iff_lt, Nat.lt_one_iff, Nat.pos_of_ne_zero, decide_true, Bool.true_and,
            beq_iff_eq, htop, hbot] at hone
          constructor
          · have : g.scrollTop < g.scrollBottom := by omega
            omega
          · simp; omega
      rw [subM_ok hprev.1]
      simp only [ok_bind]
      rw [modifyM_pure_ok _ _ _ hprev.2]
      simp only [ok_bind, pure_eq_ok]
      refine ⟨_, rfl, ⟨gridInv_setRow W s1.inv _ _ (rowGood_wrap W _ (s1.inv.row_ok _ (List.getElem_mem hprev.2))),
        by simpa using s1.len, s1.size, s1.cap⟩, ?_⟩
      simp only [hcol, s1.size]; simpa using hw
  · simp only [hgt, ↓reduceIte, pure_eq_ok]
    exact ⟨g, rfl, stepOk_refl W h hl, by omega⟩

end Vt

namespace Vt
set_option linter.unusedSimpArgs false
variable {W : Nat → Option Nat}

theorem paired_seg {a mid b : List Cell} (h : pairThrough false (a ++ mid ++ b) = some false) :
    ∃ p q, pairThrough false a = some p ∧ pairThrough p mid = some q ∧ pairThrough q b = some false := by
  rw [List.append_assoc, pairThrough_append] at h
  cases h1 : pairThrough false a with
  | none => simp [h1] at h
  | some p =>
    simp only [h1, Option.bind_some, pairThrough_append] at h
    cases h2 : pairThrough p mid with
    | none => simp [h2] at h
    | some q => exact ⟨p, q, rfl, h2, by simpa [h2] using h⟩

/-- replace a segment of a well-formed row by cells that thread the wide flag the same way -/
theorem cellsInv_seg {a mid mid' b : List Cell} {p q : Bool} (h : CellsInv W (a ++ mid ++ b))
    (h1 : pairThrough false a = some p) (h2 : pairThrough p mid = some q)
    (h3 : pairThrough p mid' = some q) (hok : ∀ x ∈ mid', cellOk W x = true) :
    CellsInv W (a ++ mid' ++ b) := by
  obtain ⟨p', q', e1, e2, e3⟩ := paired_seg h.paired
  rw [h1] at e1; cases e1
  rw [h2] at e2; cases e2
  constructor
  · intro x hx
    rcases List.mem_append.mp hx with hx | hx
    · rcases List.mem_append.mp hx with hx | hx
      · exact h.cells_ok x (by simp [hx])
      · exact hok x hx
    · exact h.cells_ok x (by simp [hx])
  · exact pairThrough_splice h1 h3 e3

theorem printable_space (hW32 : W 32 = some 1) : Printable W 32 :=
  ⟨by decide, by simp [hW32], by simp [hW32]⟩

theorem cellOk_mem {cs : List Cell} (h : CellsInv W cs) {x : Cell} (hx : x ∈ cs) : cellOk W x = true :=
  h.cells_ok x hx

theorem cellOk_blankcont {d : Cell} (h : cellOk W d = true) :
    cellOk W ((d.clear Attrs.default).setWideContinuation true) = true := by
  have := cellOk_clear W d Attrs.default h
  obtain ⟨h1, _, h3⟩ := cellOk_fields W this
  simp [cellOk, Cell.clear, Cell.setWideContinuation, Utf8.fromUtf8] at h1 h3 ⊢
  exact ⟨h1, h3⟩

/-- not continuation ⇒ ... helper: a wide cell is not a continuation -/
theorem wide_not_cont {c : Cell} (h : cellOk W c = true) (hw : c.wide = true) : c.cont = false := by
  by_cases hc : c.cont = true
  · have := (cellOk_cont W c h hc).1; simp [hw] at this
  · simpa using hc

end Vt

namespace Vt
set_option linter.unusedSimpArgs false
set_option maxRecDepth 2048
variable {W : Nat → Option Nat}

theorem get_app0 {α} (a b : List α) (x : α) (n : Nat) (h : n = a.length) : (a ++ x :: b)[n]? = some x := by
  subst h; simp
theorem get_app1 {α} (a b : List α) (x y : α) (n : Nat) (h : n = a.length + 1) :
    (a ++ x :: y :: b)[n]? = some y := by
  subst h; rw [List.getElem?_append_right (by omega)]; simp
theorem get_app2 {α} (a b : List α) (x y z : α) (n : Nat) (h : n = a.length + 2) :
    (a ++ x :: y :: z :: b)[n]? = some z := by
  subst h; rw [List.getElem?_append_right (by omega)]; simp
theorem get_app3 {α} (a b : List α) (x y z w : α) (n : Nat) (h : n = a.length + 3) :
    (a ++ x :: y :: z :: w :: b)[n]? = some w := by
  subst h; rw [List.getElem?_append_right (by omega)]; simp
theorem set_app0 {α} (a b : List α) (x v : α) (n : Nat) (h : n = a.length) :
    (a ++ x :: b).set n v = a ++ v :: b := by
  subst h; simp
theorem set_app1 {α} (a b : List α) (x y v : α) (n : Nat) (h : n = a.length + 1) :
    (a ++ x :: y :: b).set n v = a ++ x :: v :: b := by
  subst h; rw [List.set_append_right _ _ (by omega)]; simp
theorem set_app2 {α} (a b : List α) (x y z v : α) (n : Nat) (h : n = a.length + 2) :
    (a ++ x :: y :: z :: b).set n v = a ++ x :: y :: v :: b := by
  subst h; rw [List.set_append_right _ _ (by omega)]; simp
theorem set_app3 {α} (a b : List α) (x y z w v : α) (n : Nat) (h : n = a.length + 3) :
    (a ++ x :: y :: z :: w :: b).set n v = a ++ x :: y :: z :: v :: b := by
  subst h; rw [List.set_append_right _ _ (by omega)]; simp

/-- the cell writes of printing a character of width 1 or 2 that fits on the line keep the row
well-formed -/
theorem textWideRow_ok {row : Row} {col cols : Nat} (attrs : Attrs) {c width : Nat}
    (hW32 : W 32 = some 1) (hgood : RowGood W cols row) (hp : Printable W c)
    (hwidth : decide ((W c).getD 1 > 1) = decide (width > 1)) (hw12 : width = 1 ∨ 2 ≤ width) (hfit : col + width ≤ cols) :
    ∃ row', Grid.textWideRow W row col cols attrs c width = .ok row' ∧ RowGood W cols row' := by
  obtain ⟨cs, wr⟩ := row
  have hinv := rowGood_cells W hgood
  have hlen : cs.length = cols := hgood.1
  have hcols : 1 ≤ cols := by omega
  simp only at hinv hlen
  have hcol : col < cs.length := by omega
  have hc0 := List.getElem?_eq_getElem hcol
  generalize cs[col] = c0 at hc0
  have hc0ok := hinv.cells_ok c0 (List.mem_of_getElem? hc0)
  -- the new cell and the space that replaces an orphaned second half
  have hwide_new : decide ((W c).getD 1 > 1) = decide (width > 1) := hwidth
  by_cases hcont : c0.cont = true
  · -- cursor on the second half of a wide character: its first half is blanked with the pen
    obtain ⟨j, pv, rfl, hpv, hpvw⟩ := paired_cont_prev hc0 hinv.paired hcont
    have hpvok := hinv.cells_ok pv (List.mem_of_getElem? hpv)
    have hpvc := wide_not_cont hpvok hpvw
    obtain ⟨hc0w, _⟩ := cellOk_cont W c0 hc0ok hcont
    obtain ⟨new, hnew, hnewok, hnewc, hneww, _⟩ := set_ok W attrs hc0ok hp
    obtain ⟨a, b, rfl, hl⟩ := decomp2 hpv hc0
    subst hl
    rcases hw12 with rfl | hgt2
    · have hgt : ¬ (1 < 1) := by omega
      have hdw : decide (1 > 1) = false := by decide
      -- width 1
      refine ⟨⟨a ++ [pv.clear attrs, new] ++ b, wr⟩, ?_, ?_⟩
      · simp (disch := omega) only [get_app0, get_app1, get_app2, get_app3, set_app0, set_app1, set_app2, set_app3,
            Grid.textWideRow, getM, modifyM, Cell.isWideContinuation, hcont, subM, Cell.isWide, hc0w, hnew,
            pure_bind', ok_bind, pure_eq_ok, ↓reduceIte, Bool.false_eq_true, Nat.le_add_left, gt_iff_lt,
            hgt, Nat.lt_irrefl, List.cons_append, List.nil_append, Row.wrap, beq_iff_eq]
        simp
      · refine rowGood_of W (by simpa using hlen) hcols ?_
        obtain ⟨p, q, e1, e2, e3⟩ := paired_seg (a := a) (mid := [pv, c0]) (b := b) (by simpa using hinv.paired)
        refine cellsInv_seg (mid := [pv, c0]) (by simpa using hinv) e1 e2 ?_ ?_
        · simp only [pairThrough, hcont, hpvw, beq_self_eq_true, ↓reduceIte, hc0w] at e2 ⊢
          split at e2
          · rename_i hpp
            simp only [beq_iff_eq] at hpp
            simp [Cell.clear, ← hpp, hpvc, hnewc, hneww, hwide_new, hdw, ← e2]
          · simp at e2
        · intro x hx
          simp only [List.mem_cons, List.mem_singleton, List.not_mem_nil, or_false] at hx
          rcases hx with rfl | rfl
          · exact cellOk_clear W pv attrs hpvok
          · exact hnewok
    · have hgt : 1 < width := by omega
      have hdw : decide (width > 1) = true := by simp; omega
      -- width 2: the cell after the cursor becomes the continuation
      have hb1 : 1 ≤ b.length := by simp at hlen; omega
      obtain ⟨c1, b1, rfl⟩ : ∃ c1 b1, b = c1 :: b1 := by
        cases b with
        | nil => simp at hb1
        | cons x xs => exact ⟨x, xs, rfl⟩
      have hc1ok := hinv.cells_ok c1 (by simp)
      obtain ⟨p, q, e1, e2, e3⟩ := paired_seg (a := a) (mid := [pv, c0]) (b := c1 :: b1) (by simpa using hinv.paired)
      have hpp : pv.cont = p := by
        simp only [pairThrough] at e2
        split at e2
        · rename_i h; simpa using h
        · simp at e2
      have hq : q = false := by
        simp only [pairThrough, hpp, beq_self_eq_true, ↓reduceIte, hpvw, hcont, hc0w] at e2
        exact (Option.some.inj e2).symm
      subst hq
      obtain ⟨hc1c, e4⟩ := pairThrough_head e3
      by_cases hc1w : c1.wide = true
      · -- the next cell is itself wide: its second half is blanked too
        obtain ⟨c2, b2, rfl⟩ : ∃ c2 b2, b1 = c2 :: b2 := by
          cases b1 with
          | nil => simp [pairThrough, hc1w] at e4
          | cons x xs => exact ⟨x, xs, rfl⟩
        have hc2ok := hinv.cells_ok c2 (by simp)
        obtain ⟨hc2c, e5⟩ := pairThrough_head e4
        have hc2w : c2.wide = false := (cellOk_cont W c2 hc2ok (by rw [hc2c, hc1w])).1
        refine ⟨⟨a ++ [pv.clear attrs, new, (c1.clear Attrs.default).setWideContinuation true, c2.clear attrs] ++ b2,
          if a.length + 1 + 2 + 1 == cols then false else wr⟩, ?_, ?_⟩
        · simp (disch := omega) only [get_app0, get_app1, get_app2, get_app3, set_app0, set_app1, set_app2, set_app3,
            Grid.textWideRow, getM, modifyM, Cell.isWideContinuation, hcont, subM, Cell.isWide, hc0w, hnew,
            pure_bind', ok_bind, pure_eq_ok, ↓reduceIte, Bool.false_eq_true, Nat.le_add_left, gt_iff_lt,
            hgt, Nat.lt_irrefl, List.cons_append, List.nil_append, Row.wrap, beq_iff_eq, hc1w, Row.wrap]
          split <;> simp
        · refine rowGood_of W (by simpa using hlen) hcols ?_
          refine cellsInv_seg (p := p) (q := false) (mid := [pv, c0, c1, c2]) (by simpa using hinv) e1 ?_ ?_ ?_
          · simp [pairThrough, hpp, hpvw, hcont, hc0w, hc1c, hc1w, hc2c, hc2w]
          · simp [pairThrough, Cell.clear, Cell.setWideContinuation, ← hpp, hpvc, hnewc, hneww, hwide_new, hdw]
          · intro x hx
            simp only [List.mem_cons, List.not_mem_nil, or_false] at hx
            rcases hx with rfl | rfl | rfl | rfl
            · exact cellOk_clear W pv attrs hpvok
            · exact hnewok
            · exact cellOk_blankcont hc1ok
            · exact cellOk_clear W c2 attrs hc2ok
      · have hc1w' : c1.wide = false := by simpa using hc1w
        refine ⟨⟨a ++ [pv.clear attrs, new, (c1.clear Attrs.default).setWideContinuation true] ++ b1, wr⟩, ?_, ?_⟩
        · simp (disch := omega) only [get_app0, get_app1, get_app2, get_app3, set_app0, set_app1, set_app2, set_app3,
            Grid.textWideRow, getM, modifyM, Cell.isWideContinuation, hcont, subM, Cell.isWide, hc0w, hnew,
            pure_bind', ok_bind, pure_eq_ok, ↓reduceIte, Bool.false_eq_true, Nat.le_add_left, gt_iff_lt,
            hgt, Nat.lt_irrefl, List.cons_append, List.nil_append, Row.wrap, beq_iff_eq, hc1w']
          simp
        · refine rowGood_of W (by simpa using hlen) hcols ?_
          refine cellsInv_seg (p := p) (q := false) (mid := [pv, c0, c1]) (by simpa using hinv) e1 ?_ ?_ ?_
          · simp [pairThrough, hpp, hpvw, hcont, hc0w, hc1c, hc1w']
          · simp [pairThrough, Cell.clear, Cell.setWideContinuation, ← hpp, hpvc, hnewc, hneww, hwide_new, hdw]
          · intro x hx
            simp only [List.mem_cons, List.not_mem_nil, or_false] at hx
            rcases hx with rfl | rfl | rfl
            · exact cellOk_clear W pv attrs hpvok
            · exact hnewok
            · exact cellOk_blankcont hc1ok
  · have hcont' : c0.cont = false := by simpa using hcont
    obtain ⟨new, hnew, hnewok, hnewc, hneww, _⟩ := set_ok W attrs hc0ok hp
    by_cases hc0w : c0.wide = true
    · -- cursor on the first half of a wide character: its second half becomes a space (or the new
      -- character's own continuation)
      obtain ⟨d, hd, hdc⟩ := paired_wide_next hc0 hinv.paired hc0w
      have hdok := hinv.cells_ok d (List.mem_of_getElem? hd)
      obtain ⟨hdw, _⟩ := cellOk_cont W d hdok hdc
      obtain ⟨sp, hsp, hspok, hspc, hspw, _⟩ := set_ok W attrs hdok (printable_space hW32)
      have hspw' : sp.wide = false := by simp [hspw, hW32]
      obtain ⟨a, b, rfl, hl⟩ := decomp2 hc0 hd
      subst hl
      obtain ⟨p, q, e1, e2, e3⟩ := paired_seg (a := a) (mid := [c0, d]) (b := b) (by simpa using hinv.paired)
      have hpp : c0.cont = p := by
        simp only [pairThrough] at e2
        split at e2
        · rename_i h; simpa using h
        · simp at e2
      have hq : q = false := by
        simp only [pairThrough, hpp, beq_self_eq_true, ↓reduceIte, hc0w, hdc, hdw] at e2
        exact (Option.some.inj e2).symm
      subst hq
      rcases hw12 with rfl | hgt2
      · have hgt : ¬ (1 < 1) := by omega
        have hdw : decide (1 > 1) = false := by decide
        refine ⟨⟨a ++ [new, sp] ++ b, wr⟩, ?_, ?_⟩
        · simp (disch := omega) only [get_app0, get_app1, get_app2, get_app3, set_app0, set_app1, set_app2, set_app3,
            Grid.textWideRow, getM, modifyM, Cell.isWideContinuation, hcont', subM, Cell.isWide, hnew,
            pure_bind', ok_bind, pure_eq_ok, ↓reduceIte, Bool.false_eq_true, Nat.le_add_left, gt_iff_lt,
            hgt, Nat.lt_irrefl, List.cons_append, List.nil_append, Row.wrap, beq_iff_eq, hc0w, hsp]
          simp
        · refine rowGood_of W (by simpa using hlen) hcols ?_
          refine cellsInv_seg (p := p) (q := false) (mid := [c0, d]) (by simpa using hinv) e1 e2 ?_ ?_
          · simp [pairThrough, ← hpp, hcont', hnewc, hneww, hwide_new, hdw, hspc, hspw']
          · intro x hx
            simp only [List.mem_cons, List.not_mem_nil, or_false] at hx
            rcases hx with rfl | rfl
            · exact hnewok
            · exact hspok
      · have hgt : 1 < width := by omega
        have hdw : decide (width > 1) = true := by simp; omega
        refine ⟨⟨a ++ [new, (sp.clear Attrs.default).setWideContinuation true] ++ b, wr⟩, ?_, ?_⟩
        · simp (disch := omega) only [get_app0, get_app1, get_app2, get_app3, set_app0, set_app1, set_app2, set_app3,
            Grid.textWideRow, getM, modifyM, Cell.isWideContinuation, hcont', subM, Cell.isWide, hnew,
            pure_bind', ok_bind, pure_eq_ok, ↓reduceIte, Bool.false_eq_true, Nat.le_add_left, gt_iff_lt,
            hgt, Nat.lt_irrefl, List.cons_append, List.nil_append, Row.wrap, beq_iff_eq, hc0w, hsp, hspw']
          simp
        · refine rowGood_of W (by simpa using hlen) hcols ?_
          refine cellsInv_seg (p := p) (q := false) (mid := [c0, d]) (by simpa using hinv) e1 e2 ?_ ?_
          · simp [pairThrough, ← hpp, hcont', hnewc, hneww, hwide_new, hdw, Cell.clear, Cell.setWideContinuation]
          · intro x hx
            simp only [List.mem_cons, List.not_mem_nil, or_false] at hx
            rcases hx with rfl | rfl
            · exact hnewok
            · exact cellOk_blankcont hspok
    · -- cursor on an ordinary cell
      have hc0w' : c0.wide = false := by simpa using hc0w
      obtain ⟨a, b, rfl, hl⟩ := decomp1 hc0
      subst hl
      rcases hw12 with rfl | hgt2
      · have hgt : ¬ (1 < 1) := by omega
        have hdw : decide (1 > 1) = false := by decide
        obtain ⟨p, q, e1, e2, e3⟩ := paired_seg (a := a) (mid := [c0]) (b := b) (by simpa using hinv.paired)
        refine ⟨⟨a ++ [new] ++ b, wr⟩, ?_, ?_⟩
        · simp (disch := omega) only [get_app0, get_app1, get_app2, get_app3, set_app0, set_app1, set_app2, set_app3,
            Grid.textWideRow, getM, modifyM, Cell.isWideContinuation, hcont', subM, Cell.isWide, hnew,
            pure_bind', ok_bind, pure_eq_ok, ↓reduceIte, Bool.false_eq_true, Nat.le_add_left, gt_iff_lt,
            hgt, Nat.lt_irrefl, List.cons_append, List.nil_append, Row.wrap, beq_iff_eq, hc0w']
          simp
        · refine rowGood_of W (by simpa using hlen) hcols ?_
          refine cellsInv_seg (mid := [c0]) (by simpa using hinv) e1 e2 ?_ ?_
          · simp only [pairThrough, hcont', hc0w'] at e2 ⊢
            simpa [hnewc, hneww, hwide_new, hdw] using e2
          · intro x hx
            simp only [List.mem_singleton] at hx
            rw [hx]; exact hnewok
      · have hgt : 1 < width := by omega
        have hdw : decide (width > 1) = true := by simp; omega
        have hb1 : 1 ≤ b.length := by simp at hlen; omega
        obtain ⟨c1, b1, rfl⟩ : ∃ c1 b1, b = c1 :: b1 := by
          cases b with
          | nil => simp at hb1
          | cons x xs => exact ⟨x, xs, rfl⟩
        have hc1ok := hinv.cells_ok c1 (by simp)
        obtain ⟨p, q, e1, e2, e3⟩ := paired_seg (a := a) (mid := [c0]) (b := c1 :: b1) (by simpa using hinv.paired)
        have hpp : c0.cont = p := by
          simp only [pairThrough] at e2
          split at e2
          · rename_i h; simpa using h
          · simp at e2
        have hq : q = false := by
          simp only [pairThrough, hpp, beq_self_eq_true, ↓reduceIte, hc0w'] at e2
          exact (Option.some.inj e2).symm
        subst hq
        obtain ⟨hc1c, e4⟩ := pairThrough_head e3
        by_cases hc1w : c1.wide = true
        · obtain ⟨c2, b2, rfl⟩ : ∃ c2 b2, b1 = c2 :: b2 := by
            cases b1 with
            | nil => simp [pairThrough, hc1w] at e4
            | cons x xs => exact ⟨x, xs, rfl⟩
          have hc2ok := hinv.cells_ok c2 (by simp)
          obtain ⟨hc2c, e5⟩ := pairThrough_head e4
          have hc2w : c2.wide = false := (cellOk_cont W c2 hc2ok (by rw [hc2c, hc1w])).1
          refine ⟨⟨a ++ [new, (c1.clear Attrs.default).setWideContinuation true, c2.clear attrs] ++ b2,
            if a.length + 2 + 1 == cols then false else wr⟩, ?_, ?_⟩
          · simp (disch := omega) only [get_app0, get_app1, get_app2, get_app3, set_app0, set_app1, set_app2, set_app3,
            Grid.textWideRow, getM, modifyM, Cell.isWideContinuation, hcont', subM, Cell.isWide, hnew,
            pure_bind', ok_bind, pure_eq_ok, ↓reduceIte, Bool.false_eq_true, Nat.le_add_left, gt_iff_lt,
            hgt, Nat.lt_irrefl, List.cons_append, List.nil_append, Row.wrap, beq_iff_eq, hc0w', hc1w]
            split <;> simp
          · refine rowGood_of W (by simpa using hlen) hcols ?_
            refine cellsInv_seg (p := p) (q := false) (mid := [c0, c1, c2]) (by simpa using hinv) e1 ?_ ?_ ?_
            · simp [pairThrough, hpp, hc0w', hc1c, hc1w, hc2c, hc2w]
            · simp [pairThrough, Cell.clear, Cell.setWideContinuation, ← hpp, hcont', hnewc, hneww, hwide_new, hdw]
            · intro x hx
              simp only [List.mem_cons, List.not_mem_nil, or_false] at hx
              rcases hx with rfl | rfl | rfl
              · exact hnewok
              · exact cellOk_blankcont hc1ok
              · exact cellOk_clear W c2 attrs hc2ok
        · have hc1w' : c1.wide = false := by simpa using hc1w
          refine ⟨⟨a ++ [new, (c1.clear Attrs.default).setWideContinuation true] ++ b1, wr⟩, ?_, ?_⟩
          · simp (disch := omega) only [get_app0, get_app1, get_app2, get_app3, set_app0, set_app1, set_app2, set_app3,
            Grid.textWideRow, getM, modifyM, Cell.isWideContinuation, hcont', subM, Cell.isWide, hnew,
            pure_bind', ok_bind, pure_eq_ok, ↓reduceIte, Bool.false_eq_true, Nat.le_add_left, gt_iff_lt,
            hgt, Nat.lt_irrefl, List.cons_append, List.nil_append, Row.wrap, beq_iff_eq, hc0w', hc1w']
            simp
          · refine rowGood_of W (by simpa using hlen) hcols ?_
            refine cellsInv_seg (p := p) (q := false) (mid := [c0, c1]) (by simpa using hinv) e1 ?_ ?_ ?_
            · simp [pairThrough, hpp, hc0w', hc1c, hc1w']
            · simp [pairThrough, Cell.clear, Cell.setWideContinuation, ← hpp, hcont', hnewc, hneww, hwide_new, hdw]
            · intro x hx
              simp only [List.mem_cons, List.not_mem_nil, or_false] at hx
              rcases hx with rfl | rfl
              · exact hnewok
              · exact cellOk_blankcont hc1ok

end Vt

namespace Vt
set_option linter.unusedSimpArgs false
variable {W : Nat → Option Nat}

/-- replacing one cell by a well-formed cell with the same flags keeps the grid invariant -/
theorem modifyCell_ok {g : Grid} (h : GridInv W g true) (hl : g.rows.length = g.size.rows) (site : Nat)
    {r c : Nat} (hr : r < g.size.rows) (hc : c < g.size.cols) (f : Cell → M Cell)
    (hf : ∀ cell, cellOk W cell = true → cell.cont = false →
      ∃ cell', f cell = .ok cell' ∧ cellOk W cell' = true ∧ cell'.cont = cell.cont ∧ cell'.wide = cell.wide)
    (hnc : ∀ row cell, g.rows[r]? = some row → row.cells[c]? = some cell → cell.cont = false) :
    ∃ g', g.modifyCellM site ⟨r, c⟩ f = .ok g' ∧ StepOk W g g' ∧ g'.pos = g.pos := by
  have hrl : r < g.rows.length := by omega
  have hrow := List.getElem?_eq_getElem hrl
  generalize g.rows[r] = row at hrow
  have hgood := h.row_ok row (List.mem_of_getElem? hrow)
  have hcl : c < row.cells.length := by rw [hgood.1]; exact hc
  have hcell := List.getElem?_eq_getElem hcl
  generalize row.cells[c] = cell at hcell
  have hci := rowGood_cells W hgood
  obtain ⟨cell', e, hok, hcc, hww⟩ := hf cell (hci.cells_ok cell (List.mem_of_getElem? hcell))
    (hnc row cell hrow hcell)
  refine ⟨{ g with rows := g.rows.set r { row with cells := row.cells.set c cell' } },
    by simp [Grid.modifyCellM, modifyM, hrow, hcell, e], ⟨?_, by simpa using hl, rfl, rfl⟩, rfl⟩
  refine gridInv_setRow W h _ _ (rowGood_of W (by simp [hgood.1]) h.cols_pos ?_)
  constructor
  · intro x hx
    rcases mem_set_cases hx with rfl | hx
    · exact hok
    · exact hci.cells_ok x hx
  · exact pairThrough_set hcell hci.paired hcc hww

/-- the `prev_cell` dance of the zero-width branch: append to the cell, or to the first half when
the cell is a continuation -/
theorem appendToPrev_ok {g : Grid} (h : GridInv W g true) (hl : g.rows.length = g.size.rows)
    (hW32 : W 32 = some 1) {r c z : Nat} (hr : r < g.size.rows) (hc : c < g.size.cols)
    (hz : W z = some 0) (hs : isScalar z = true) :
    ∃ g', g.appendToPrev r c z = .ok g' ∧ StepOk W g g' ∧ g'.pos = g.pos := by
  have hrl : r < g.rows.length := by omega
  have hrow := List.getElem?_eq_getElem hrl
  generalize g.rows[r] = row at hrow
  have hgood := h.row_ok row (List.mem_of_getElem? hrow)
  have hcl : c < row.cells.length := by rw [hgood.1]; exact hc
  have hcell := List.getElem?_eq_getElem hcl
  generalize row.cells[c] = cell at hcell
  have hci := rowGood_cells W hgood
  have hfz : ∀ cell, cellOk W cell = true → cell.cont = false →
      ∃ cell', cell.append z = .ok cell' ∧ cellOk W cell' = true ∧ cell'.cont = cell.cont ∧
        cell'.wide = cell.wide := by
    intro cell hok hnc
    obtain ⟨cell', e, h1, h2, h3, _⟩ := append_ok W hW32 hok hnc hz hs
    exact ⟨cell', e, h1, h2, h3⟩
  simp only [Grid.appendToPrev, Grid.drawingCellM, Grid.drawingCell, Grid.drawingRow, hrow, Option.bind_some,
    Row.get, hcell, ok_bind, pure_bind']
  by_cases hcc : cell.cont = true
  · obtain ⟨j, pv, rfl, hpv, hpvw⟩ := paired_cont_prev hcell hci.paired hcc
    have hic : cell.isWideContinuation = true := hcc
    simp only [hic, ↓reduceIte, subM_ok (show 1 ≤ j + 1 by omega), ok_bind, Nat.add_sub_cancel]
    refine modifyCell_ok h hl 512 hr (by omega) _ hfz ?_
    intro row' cell' hrow' hcell'
    rw [hrow] at hrow'; cases hrow'
    rw [hpv] at hcell'; cases hcell'
    exact wide_not_cont (hci.cells_ok _ (List.mem_of_getElem? hpv)) hpvw
  · have hcc' : cell.cont = false := by simpa using hcc
    have hic : cell.isWideContinuation = false := hcc'
    simp only [hic, Bool.false_eq_true, ↓reduceIte]
    refine modifyCell_ok h hl 513 hr hc _ hfz ?_
    intro row' cell' hrow' hcell'
    rw [hrow] at hrow'; cases hrow'
    rw [hcell] at hcell'; cases hcell'
    exact hcc'

/-- the zero-width branch of `text` -/
theorem textZero_ok {g : Grid} (h : GridInv W g true) (hl : g.rows.length = g.size.rows)
    (hW32 : W 32 = some 1) {z : Nat} (hz : W z = some 0) (hs : isScalar z = true)
    (hcol : g.pos.col ≤ g.size.cols) :
    ∃ g', g.textZero z = .ok g' ∧ StepOk W g g' := by
  unfold Grid.textZero
  by_cases h0 : g.pos.col > 0
  · simp only [h0, ↓reduceIte]
    obtain ⟨g', e, s, _⟩ := appendToPrev_ok h hl hW32 h.pos_row (show g.pos.col - 1 < g.size.cols by omega) hz hs
    exact ⟨g', e, s⟩
  · simp only [h0, ↓reduceIte]
    by_cases hr0 : g.pos.row > 0
    · simp only [hr0, ↓reduceIte, Grid.drawingRow]
      have hpr := h.pos_row
      have hrl : g.pos.row - 1 < g.rows.length := by omega
      simp only [List.getElem?_eq_getElem hrl, ok_bind, pure_eq_ok]
      split
      · simp only [subM_ok h.cols_pos, ok_bind]
        obtain ⟨g', e, s, _⟩ := appendToPrev_ok h hl hW32 (show g.pos.row - 1 < g.size.rows by omega)
          (show g.size.cols - 1 < g.size.cols by have := h.cols_pos; omega) hz hs
        exact ⟨g', e, s⟩
      · exact ⟨g, rfl, stepOk_refl W h hl⟩
    · simp only [hr0, ↓reduceIte, pure_eq_ok]
      exact ⟨g, rfl, stepOk_refl W h hl⟩

/-- **printing is total and keeps the invariant**: for every grid satisfying the invariant, every
pen and every scalar value `c` -/
theorem text_total {g : Grid} (h : GridInv W g true) (hl : g.rows.length = g.size.rows)
    (hW32 : W 32 = some 1) (attrs : Attrs) {c : Nat} (hs : isScalar c = true) :
    Total W (fun g => g.text W attrs c) g := by
  show ∃ g', g.text W attrs c = .ok g' ∧ StepOk W g g'
  unfold Grid.text
  by_cases hctl : ((W c).isNone && decide (c < 256)) = true
  · simp only [hctl, ↓reduceIte, pure_eq_ok]
    exact ⟨g, rfl, stepOk_refl W h hl⟩
  · simp only [hctl, Bool.false_eq_true, ↓reduceIte]
    generalize hwv : min ((W c).getD 1) 2 = w
    have hw2 : w ≤ 2 := by rw [← hwv]; exact Nat.min_le_right _ _
    have hwgt : decide ((W c).getD 1 > 1) = decide (w > 1) := by
      rw [← hwv]
      by_cases h1 : (W c).getD 1 > 1
      · have : min ((W c).getD 1) 2 > 1 := by omega
        simp [h1, this]
      · have : ¬ min ((W c).getD 1) 2 > 1 := by omega
        simp [h1, this]
    by_cases hwide : w > g.size.cols
    · simp only [hwide, ↓reduceIte, pure_eq_ok]
      exact ⟨g, rfl, stepOk_refl W h hl⟩
    · simp only [hwide, ↓reduceIte]
      have hw : w ≤ g.size.cols := by omega
      -- the wrap decision never fails
      have hwrap : ∃ wrap, g.wrapDecision w = .ok wrap := by
        simp only [Grid.wrapDecision, subM_ok hw, ok_bind]
        split
        · have hrl : g.pos.row < g.rows.length := by rw [hl]; exact h.pos_row
          have hgood := h.row_ok _ (List.getElem_mem hrl)
          have hcl : g.size.cols - 1 < (g.rows[g.pos.row]).cells.length := by
            rw [hgood.1]; have := h.cols_pos; omega
          simp [subM_ok h.cols_pos, Grid.drawingCellM, Grid.drawingCell, Grid.drawingRow,
            List.getElem?_eq_getElem hrl, Row.get, List.getElem?_eq_getElem hcl]
        · exact ⟨false, rfl⟩
      obtain ⟨wrap, ewrap⟩ := hwrap
      rw [ewrap]
      simp only [ok_bind]
      obtain ⟨g1, e1, s1, hfit⟩ := colWrap_ok h hl w wrap hw
      rw [e1]
      simp only [ok_bind]
      by_cases hzero : (w == 0) = true
      · simp only [hzero, ↓reduceIte]
        have hz : W c = some 0 := by
          simp only [beq_iff_eq] at hzero
          rw [← hwv] at hzero
          cases hwc : W c with
          | none => simp [hwc] at hzero
          | some n =>
            simp only [hwc, Option.getD_some] at hzero
            have : n = 0 := by omega
            rw [this]
        obtain ⟨g2, e2, s2⟩ := textZero_ok s1.inv s1.len hW32 hz hs s1.inv.pos_col
        exact ⟨g2, e2, stepOk_trans W s1 s2⟩
      · simp only [hzero, Bool.false_eq_true, ↓reduceIte]
        have hw12 : w = 1 ∨ 2 ≤ w := by
          simp only [beq_iff_eq] at hzero
          omega
        have hprint : Printable W c := by
          refine ⟨hs, ?_, ?_⟩
          · intro h0
            simp only [beq_iff_eq] at hzero
            rw [← hwv, h0] at hzero
            simp at hzero
          · intro ⟨hn, hlt⟩
            simp [hn, hlt] at hctl
        -- the row-level writes, then the cursor advance
        simp only [Grid.textWide]
        obtain ⟨g2, e2, i2, l2, sz2, p2, c2, _⟩ := modifyCurrentRow_ok W s1.inv s1.len
          (fun row => Grid.textWideRow W row g1.pos.col g1.size.cols attrs c w)
          (fun r hr => textWideRow_ok attrs hW32 hr hprint hwgt hw12 hfit)
        rw [e2]
        simp only [ok_bind, pure_eq_ok]
        have hcu := s1.inv.cols_u16
        refine ⟨_, rfl, ?_⟩
        have hbase : StepOk W g g2 := stepOk_trans W s1 ⟨i2, l2, sz2, c2⟩
        rcases hw12 with h1 | h2
        · have : ¬ (w > 1) := by omega
          simp only [this, ↓reduceIte]
          have hle : min (g2.pos.col + 1) 65535 ≤ g2.size.cols :=
            Nat.le_trans (Nat.min_le_left _ _) (by rw [p2, sz2]; omega)
          have hs2 := stepOk_pos W i2 l2 ⟨g2.pos.row, min (g2.pos.col + 1) 65535⟩ i2.pos_row hle
          exact stepOk_trans W hbase (by simpa [Grid.colInc, satAddU16, U16_MAX] using hs2)
        · have : w > 1 := by omega
          simp only [this, ↓reduceIte]
          have hle1 : min (g2.pos.col + 1) 65535 ≤ g2.pos.col + 1 := Nat.min_le_left _ _
          have hle : min (min (g2.pos.col + 1) 65535 + 1) 65535 ≤ g2.size.cols := by
            generalize min (g2.pos.col + 1) 65535 = m at hle1 ⊢
            refine Nat.le_trans (Nat.min_le_left _ _) ?_
            rw [p2] at hle1; rw [sz2]; omega
          have hs2 := stepOk_pos W i2 l2 ⟨g2.pos.row, min (min (g2.pos.col + 1) 65535 + 1) 65535⟩ i2.pos_row hle
          exact stepOk_trans W hbase (by simpa [Grid.colInc, satAddU16, U16_MAX] using hs2)

end Vt
