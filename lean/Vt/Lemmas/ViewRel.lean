/-
  Vt.Lemmas.ViewRel — pointwise relations on lists and the fact that the emitters of row.rs /
  grid.rs read cells only through their views (C19).
-/
import Vt.Props.C19
namespace Vt
set_option linter.unusedSimpArgs false

/-- pointwise relation on two lists of equal length -/
def ListRel {α} (R : α → α → Prop) : List α → List α → Prop
  | [], [] => True
  | x :: xs, y :: ys => R x y ∧ ListRel R xs ys
  | _, _ => False

theorem listRel_length {α} {R : α → α → Prop} : ∀ {l1 l2 : List α}, ListRel R l1 l2 → l1.length = l2.length
  | [], [], _ => rfl
  | _ :: xs, _ :: ys, h => by simp [listRel_length h.2]
  | [], _ :: _, h => absurd h (by simp [ListRel])
  | _ :: _, [], h => absurd h (by simp [ListRel])

theorem listRel_refl {α} {R : α → α → Prop} (hR : ∀ x, R x x) : ∀ l : List α, ListRel R l l
  | [] => trivial
  | x :: xs => ⟨hR x, listRel_refl hR xs⟩

theorem listRel_of_map_eq {α β} (f : α → β) : ∀ {l1 l2 : List α}, l1.map f = l2.map f →
    ListRel (fun x y => f x = f y) l1 l2
  | [], [], _ => trivial
  | x :: xs, y :: ys, h => by
    simp only [List.map_cons, List.cons.injEq] at h
    exact ⟨h.1, listRel_of_map_eq f h.2⟩
  | [], _ :: _, h => by simp at h
  | _ :: _, [], h => by simp at h

theorem listRel_mono {α} {R S : α → α → Prop} (h : ∀ x y, R x y → S x y) :
    ∀ {l1 l2 : List α}, ListRel R l1 l2 → ListRel S l1 l2
  | [], [], _ => trivial
  | _ :: _, _ :: _, hr => ⟨h _ _ hr.1, listRel_mono h hr.2⟩
  | [], _ :: _, hr => absurd hr (by simp [ListRel])
  | _ :: _, [], hr => absurd hr (by simp [ListRel])

theorem listRel_drop {α} {R : α → α → Prop} : ∀ (n : Nat) {l1 l2 : List α}, ListRel R l1 l2 →
    ListRel R (l1.drop n) (l2.drop n)
  | 0, _, _, h => h
  | _ + 1, [], [], _ => trivial
  | n + 1, _ :: _, _ :: _, h => listRel_drop n h.2
  | _ + 1, [], _ :: _, h => absurd h (by simp [ListRel])
  | _ + 1, _ :: _, [], h => absurd h (by simp [ListRel])

theorem listRel_take {α} {R : α → α → Prop} : ∀ (n : Nat) {l1 l2 : List α}, ListRel R l1 l2 →
    ListRel R (l1.take n) (l2.take n)
  | 0, _, _, _ => by simp [ListRel]
  | _ + 1, [], [], _ => trivial
  | n + 1, _ :: _, _ :: _, h => ⟨h.1, listRel_take n h.2⟩
  | _ + 1, [], _ :: _, h => absurd h (by simp [ListRel])
  | _ + 1, _ :: _, [], h => absurd h (by simp [ListRel])

theorem listRel_map {α β} {R : α → α → Prop} {S : β → β → Prop} (f : α → β) (hf : ∀ x y, R x y → S (f x) (f y)) :
    ∀ {l1 l2 : List α}, ListRel R l1 l2 → ListRel S (l1.map f) (l2.map f)
  | [], [], _ => trivial
  | _ :: _, _ :: _, h => ⟨hf _ _ h.1, listRel_map f hf h.2⟩
  | [], _ :: _, h => absurd h (by simp [ListRel])
  | _ :: _, [], h => absurd h (by simp [ListRel])

theorem listRel_zipIdx {α} {R : α → α → Prop} : ∀ {l1 l2 : List α} (k : Nat), ListRel R l1 l2 →
    ListRel (fun p q => p.2 = q.2 ∧ R p.1 q.1) (l1.zipIdx k) (l2.zipIdx k)
  | [], [], _, _ => trivial
  | _ :: _, _ :: _, k, h => ⟨⟨rfl, h.1⟩, listRel_zipIdx (k + 1) h.2⟩
  | [], _ :: _, _, h => absurd h (by simp [ListRel])
  | _ :: _, [], _, h => absurd h (by simp [ListRel])

theorem listRel_zip {α} {R : α → α → Prop} : ∀ {a1 a2 b1 b2 : List α}, ListRel R a1 a2 → ListRel R b1 b2 →
    ListRel (fun p q => R p.1 q.1 ∧ R p.2 q.2) (a1.zip b1) (a2.zip b2)
  | [], [], _, _, _, _ => by simp [ListRel]
  | _ :: _, _ :: _, [], [], _, _ => by simp [ListRel]
  | _ :: _, _ :: _, _ :: _, _ :: _, h1, h2 => ⟨⟨h1.1, h2.1⟩, listRel_zip h1.2 h2.2⟩
  | [], _ :: _, _, _, h, _ => absurd h (by simp [ListRel])
  | _ :: _, [], _, _, h, _ => absurd h (by simp [ListRel])
  | _ :: _, _ :: _, [], _ :: _, _, h => absurd h (by simp [ListRel])
  | _ :: _, _ :: _, _ :: _, [], _, h => absurd h (by simp [ListRel])

theorem listRel_getElem? {α} {R : α → α → Prop} : ∀ {l1 l2 : List α} (i : Nat), ListRel R l1 l2 →
    (l1[i]? = none ∧ l2[i]? = none) ∨ ∃ x y, l1[i]? = some x ∧ l2[i]? = some y ∧ R x y
  | [], [], _, _ => Or.inl ⟨by simp, by simp⟩
  | x :: _, y :: _, 0, h => Or.inr ⟨x, y, by simp, by simp, h.1⟩
  | _ :: xs, _ :: ys, i + 1, h => by simpa using listRel_getElem? i h.2
  | [], _ :: _, _, h => absurd h (by simp [ListRel])
  | _ :: _, [], _, h => absurd h (by simp [ListRel])

/-- a monadic left fold whose step respects the relation gives equal results on related lists -/
theorem foldlM_rel {σ β} {R : β → β → Prop} (f : σ → β → M σ) (hf : ∀ s x y, R x y → f s x = f s y) :
    ∀ {l1 l2 : List β} (s : σ), ListRel R l1 l2 → l1.foldlM f s = l2.foldlM f s
  | [], [], _, _ => rfl
  | x :: xs, y :: ys, s, h => by
    simp only [List.foldlM_cons, hf s x y h.1]
    cases f s y with
    | error e => rfl
    | ok s' => exact foldlM_rel f hf s' h.2
  | [], _ :: _, _, h => absurd h (by simp [ListRel])
  | _ :: _, [], _, h => absurd h (by simp [ListRel])

/-- two cells with the same view -/
def SameView (a b : Cell) : Prop := C19.view a = C19.view b

/-- the window of a row, pointwise -/
theorem listRel_window {α} {R : α → α → Prop} {l1 l2 : List α} (h : ListRel R l1 l2) (start width : Nat) :
    ListRel (fun p q => p.1 = q.1 ∧ R p.2 q.2) (Row.window l1 start width) (Row.window l2 start width) := by
  unfold Row.window
  apply listRel_take
  apply listRel_drop
  exact listRel_map _ (fun x y hxy => ⟨hxy.1, hxy.2⟩) (listRel_zipIdx 0 h)

end Vt
