/-
  Vt.Lemmas.Except — basic facts about `M = Except Panic` used by all proofs.
-/
import Vt.Model.Prim
namespace Vt

theorem bind_eq_ok {α β} {x : M α} {f : α → M β} {b : β} :
    (x >>= f) = .ok b ↔ ∃ a, x = .ok a ∧ f a = .ok b := by
  cases x with
  | error e => simp [bind, Except.bind]
  | ok a => simp [bind, Except.bind]

@[simp] theorem ok_bind {α β} (a : α) (f : α → M β) : ((Except.ok a : M α) >>= f) = f a := rfl
@[simp] theorem pure_bind' {α β} (a : α) (f : α → M β) : ((pure a : M α) >>= f) = f a := rfl
@[simp] theorem error_bind {α β} (e : Panic) (f : α → M β) : ((Except.error e : M α) >>= f) = .error e := rfl
@[simp] theorem pure_eq_ok {α} (a : α) : (pure a : M α) = .ok a := rfl
@[simp] theorem panic_ne_ok {α} (n : Nat) (a : α) : (panic n : M α) ≠ .ok a := by simp [panic]

@[simp] theorem ite_ok {α} (c : Prop) [Decidable c] (a b : α) :
    (if c then (Except.ok a : M α) else Except.ok b) = Except.ok (if c then a else b) := by
  split <;> rfl

theorem map_eq_ok {α β} {x : M α} {f : α → β} {b : β} :
    (f <$> x) = .ok b ↔ ∃ a, x = .ok a ∧ f a = b := by
  cases x with
  | error e => simp [Functor.map, Except.map]
  | ok a => simp [Functor.map, Except.map]

@[simp] theorem subM_ok {site a b : Nat} (h : b ≤ a) : subM site a b = .ok (a - b) := by
  simp [subM, h]

theorem subM_eq_ok {site a b c : Nat} : subM site a b = .ok c ↔ b ≤ a ∧ c = a - b := by
  unfold subM
  split <;> simp_all [panic] <;> omega

theorem getM_eq_ok {α} {site : Nat} {l : List α} {i : Nat} {x : α} :
    getM site l i = .ok x ↔ l[i]? = some x := by
  unfold getM
  split <;> simp_all [panic]

@[simp] theorem getM_ok {α} {site : Nat} {l : List α} {i : Nat} (h : i < l.length) :
    getM site l i = .ok l[i] := by
  simp [getM, h]

end Vt

namespace Vt
/-- `Except` has no `DecidableEq`; concrete runs are checked through this projection -/
def isOkTrue : M Bool → Bool
  | .ok b => b
  | .error _ => false
end Vt
