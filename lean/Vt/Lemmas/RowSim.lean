/-
  Vt.Lemmas.RowSim — helpers for the row-emitter simulation: what erasing and typing do to the VIEWS of
  the receiving line, and how emitted pieces extend a processed prefix.
-/
import Vt.Lemmas.EmitOk
import Vt.Props.C07
import Vt.Props.C07b
import Vt.Props.C19b
namespace Vt.Recv
open Vt Vt.C19 Vt.C09
set_option linter.unusedSimpArgs false

variable (W : Nat → Option Nat) (cb : CbPolicy)

/-! ### a processed prefix -/

/-- processing `out` on the ready parser `p0` succeeds, leaves the parser ready, and turns the receiver
state into `r` without touching anything else -/
def Emitted (p0 : Parser) (out : List Nat) (r : RS) : Prop :=
  ∃ p', p0.process W cb out = .ok p' ∧ p'.ws = withRS p0.ws r ∧ Ready p'

theorem emitted_nil (p0 : Parser) (h : Ready p0) : Emitted W cb p0 [] (rsOf p0.ws) :=
  ⟨p0, C04.process_nil W cb p0 h.2, (withRS_self _).symm, h⟩

/-- one more piece -/
theorem emitted_step {p0 : Parser} (h0 : Ready p0) {out : List Nat} {r r' : RS} (h : Emitted W cb p0 out r)
    {X : List Nat} {f : RS → M RS} (hX : Step W cb X f) (hf : f r = .ok r') : Emitted W cb p0 (out ++ X) r' := by
  obtain ⟨p1, e1, w1, r1⟩ := h
  have hh : f (rsOf p1.ws) = .ok r' := by rw [w1, rsOf_withRS]; exact hf
  obtain ⟨p2, e2, w2, r2⟩ := hX p1 r1 r' hh
  have hcar : (p0.vte.advance out).1.carry = [] := by rw [← process_vte W cb e1]; exact r1.2
  refine ⟨p2, ?_, ?_, r2⟩
  · rw [C04.process_append W cb p0 out X h0.2 hcar, e1]; exact e2
  · rw [w2, w1, withRS_withRS]

/-! ### views -/

def blankA (a : Attrs) : View := ⟨0, false, false, a, []⟩
def blankV : View := blankA Attrs.default
def contV : View := ⟨0, false, true, Attrs.default, []⟩

theorem view_clear (c : Cell) (a : Attrs) : view (c.clear a) = blankA a := by
  simp [view, Cell.clear, blankA]

theorem view_contCell (c : Cell) : view (contCell c) = contV := by
  simp [view, contCell, Cell.clear, Cell.setWideContinuation, contV]

theorem view_new : view Cell.new = blankV := by
  simp [view, Cell.new, blankV, blankA]

/-- `cell == default_cell` is "the view is the blank default view" -/
theorem eq_new_iff (c : Cell) : c.eq Cell.new = true ↔ view c = blankV := by
  rw [eq_iff_view, view_new]

/-! ### erasing a range of plain cells -/

/-- cells `[lo, hi)` blanked with `a`, nothing else -/
def clearRange (cs : List Cell) (lo hi : Nat) (a : Attrs) : List Cell :=
  cs.mapIdx (fun j c => if lo ≤ j ∧ j < hi then c.clear a else c)

theorem clearRange_length (cs : List Cell) (lo hi : Nat) (a : Attrs) : (clearRange cs lo hi a).length = cs.length := by
  simp [clearRange]

theorem clearRange_empty (cs : List Cell) (lo : Nat) (a : Attrs) : clearRange cs lo lo a = cs := by
  unfold clearRange
  apply List.ext_getElem?
  intro j
  simp only [List.getElem?_mapIdx]
  cases cs[j]? with
  | none => rfl
  | some c => simp only [Option.map_some]; rw [if_neg (by omega)]

theorem clearRange_succ (cs : List Cell) (lo k : Nat) (a : Attrs) (hlo : lo ≤ k) (hk : k < cs.length) :
    (clearRange cs lo k a).set k (cs[k].clear a) = clearRange cs lo (k + 1) a := by
  unfold clearRange
  apply List.ext_getElem?
  intro j
  simp only [List.getElem?_set, List.getElem?_mapIdx, List.length_mapIdx]
  by_cases hj : k = j
  · subst hj
    simp [hk, List.getElem?_eq_getElem hk, show lo ≤ k ∧ k < k + 1 by omega]
  · simp only [hj, ↓reduceIte]
    cases cs[j]? with
    | none => rfl
    | some c =>
      simp only [Option.map_some, Option.some.injEq]
      by_cases h1 : lo ≤ j ∧ j < k
      · rw [if_pos h1, if_pos (by omega)]
      · rw [if_neg h1, if_neg (by omega)]

/-- the erase loop over plain cells (neither wide nor continuation): exactly those cells are blanked; a row
that was not wrapped stays so -/
theorem erase_plain_range (cs : List Cell) (lo : Nat) (a : Attrs) :
    ∀ (n : Nat), lo + n ≤ cs.length → (∀ k, lo ≤ k → k < lo + n → cs[k]?.all (fun c => !c.wide && !c.cont) = true) →
      forRange lo (lo + n) (fun col (r : Row) => r.erase col a) { cells := cs, wrapped := false } =
        .ok { cells := clearRange cs lo (lo + n) a, wrapped := false }
  | 0, _, _ => by simp [forRange, clearRange_empty]
  | n + 1, h, hp => by
    have ih := erase_plain_range cs lo a n (by omega) (fun k h1 h2 => hp k h1 (by omega))
    have hk : lo + n < cs.length := by omega
    unfold forRange at ih ⊢
    rw [show lo + (n + 1) - lo = n + 1 by omega, List.range'_concat, List.foldlM_append]
    rw [show lo + n - lo = n by omega] at ih
    rw [ih]
    simp only [ok_bind, List.foldlM_cons, List.foldlM_nil, Nat.one_mul]
    have hplain := hp (lo + n) (by omega) (by omega)
    rw [List.getElem?_eq_getElem hk] at hplain
    simp only [Option.all_some, Bool.and_eq_true, Bool.not_eq_true'] at hplain
    have hcell : ({ cells := clearRange cs lo (lo + n) a, wrapped := false } : Row).cells[lo + n]? = some cs[lo + n] := by
      simp only [clearRange, List.getElem?_mapIdx, List.getElem?_eq_getElem hk, Option.map_some]
      rw [if_neg (by omega)]
    rw [C07.row_erase_plain _ (lo + n) a cs[lo + n] hcell hplain.1 hplain.2]
    simp only [ok_bind, pure_eq_ok, Except.ok.injEq, Row.mk.injEq, ite_self, and_true]
    rw [show lo + (n + 1) = lo + n + 1 by omega]
    exact clearRange_succ cs lo (lo + n) a (by omega) hk

/-- the views after blanking `[lo, hi)` -/
theorem clearRange_views (cs : List Cell) (lo hi : Nat) (a : Attrs) :
    (clearRange cs lo hi a).map view = (cs.map view).mapIdx (fun j v => if lo ≤ j ∧ j < hi then blankA a else v) := by
  unfold clearRange
  apply List.ext_getElem?
  intro j
  simp only [List.getElem?_map, List.getElem?_mapIdx]
  cases cs[j]? with
  | none => rfl
  | some c =>
    simp only [Option.map_some, Option.some.injEq]
    split
    · exact view_clear c a
    · rfl

theorem clearRange_len22 (cs : List Cell) (lo hi : Nat) (a : Attrs) (h : ∀ c ∈ cs, c.contents.length = 22) :
    ∀ c ∈ clearRange cs lo hi a, c.contents.length = 22 := by
  intro c hc
  simp only [clearRange, List.mem_mapIdx] at hc
  obtain ⟨j, hj, rfl⟩ := hc
  split
  · exact h cs[j] (List.getElem_mem hj)
  · exact h _ (List.getElem_mem hj)

/-! ### the receiver while line `i` is being drawn -/

/-- the receiver state: the state `r0` at the start of the line, with line `i` replaced by `Ri`, the
cursor at `pos`, the pen `pen` -/
def shape (r0 : RS) (i : Nat) (Ri : Row) (pos : Pos) (pen : Attrs) : RS :=
  { g := { r0.g with rows := r0.g.rows.set i Ri, pos := pos }, pen := pen, saved := r0.saved }

/-- the receiving line agrees with the source cells `src` on columns `< es` and is blank from `es` on -/
structure Line (src : List Cell) (es : Nat) (Ri : Row) : Prop where
  unwrapped : Ri.wrapped = false
  views : Ri.cells.map view = (src.take es).map view ++ List.replicate (src.length - es) blankV
  len22 : ∀ c ∈ Ri.cells, c.contents.length = 22

theorem Line.length {src : List Cell} {es : Nat} {Ri : Row} (h : Line src es Ri) (hes : es ≤ src.length) :
    Ri.cells.length = src.length := by
  have := congrArg List.length h.views
  simp only [List.length_map, List.length_append, List.length_take, List.length_replicate] at this
  omega

theorem Line.blank_at {src : List Cell} {es : Nat} {Ri : Row} (h : Line src es Ri) (hes : es ≤ src.length)
    (k : Nat) (hk : es ≤ k) (hk' : k < src.length) :
    ∃ c, Ri.cells[k]? = some c ∧ view c = blankV ∧ c.contents.length = 22 := by
  have hl := h.length hes
  have hkl : k < Ri.cells.length := by omega
  refine ⟨Ri.cells[k], List.getElem?_eq_getElem hkl, ?_, h.len22 _ (List.getElem_mem hkl)⟩
  have := congrArg (fun l => l[k]?) h.views
  simp only [List.getElem?_map, List.getElem?_eq_getElem hkl, Option.map_some] at this
  rw [List.getElem?_append_right (by simp [List.length_take]; omega)] at this
  simp only [List.length_map, List.length_take, Nat.min_eq_left hes, List.getElem?_replicate] at this
  rw [if_pos (by omega)] at this
  exact Option.some.inj this

theorem view_plain {c : Cell} (h : view c = blankV) : c.wide = false ∧ c.cont = false := by
  simp only [view, blankV, blankA, View.mk.injEq] at h
  exact ⟨h.2.1, h.2.2.1⟩

/-- a source cell that is the blank default cell needs no drawing -/
theorem Line.skip {src : List Cell} {es : Nat} {Ri : Row} (h : Line src es Ri) (hes : es < src.length)
    (hv : view src[es] = blankV) : Line src (es + 1) Ri := by
  refine ⟨h.unwrapped, ?_, h.len22⟩
  rw [h.views, List.take_succ_eq_append_getElem hes, List.map_append, List.append_assoc]
  congr 1
  simp only [List.map_cons, List.map_nil, hv]
  rw [show src.length - es = (src.length - (es + 1)) + 1 by omega, List.replicate_succ]
  rfl

theorem shape_canvas {r0 : RS} (h : Canvas r0.g) {i : Nat} {Ri : Row} (hl : Ri.cells.length = r0.g.size.cols)
    (pos : Pos) (pen : Attrs) : Canvas (shape r0 i Ri pos pen).g := by
  refine ⟨h.rows_pos, h.cols_pos, h.rows_u16, h.cols_u16, h.top, h.bottom, h.origin, ?_, ?_⟩
  · simp [shape, h.alloc]
  · intro r hr
    simp only [shape] at hr ⊢
    rcases List.mem_or_eq_of_mem_set hr with hr | rfl
    · exact h.width r hr
    · exact hl

theorem shape_row {r0 : RS} (h : Canvas r0.g) {i : Nat} (hi : i < r0.g.size.rows) (Ri : Row) (pos : Pos) (pen : Attrs) :
    (shape r0 i Ri pos pen).g.rows[i]? = some Ri := by
  simp [shape, h.alloc, hi]

/-- (O1) goto -/
theorem shape_goto {r0 : RS} (h : Canvas r0.g) {i : Nat} {Ri : Row} (hl : Ri.cells.length = r0.g.size.cols)
    (frm to : Pos) (pen : Attrs) (hr : to.row < r0.g.size.rows) (hc : to.col < r0.g.size.cols) :
    gotoF frm to (shape r0 i Ri frm pen) = .ok (shape r0 i Ri to pen) := by
  rw [goto_eq (shape_canvas h hl frm pen) frm to rfl hr hc]
  rfl

/-- one more drawn cell -/
theorem Line.set1 {src : List Cell} {j : Nat} {Ri : Row} (h : Line src j Ri) (hj : j < src.length) (c' : Cell)
    (hv : view c' = view src[j]) (h22 : c'.contents.length = 22) :
    Line src (j + 1) { Ri with cells := Ri.cells.set j c' } := by
  refine ⟨h.unwrapped, ?_, ?_⟩
  · simp only [List.map_set, h.views]
    rw [List.set_append_right _ _ (by simp [List.length_take]; omega)]
    simp only [List.length_map, List.length_take, Nat.min_eq_left (Nat.le_of_lt hj), Nat.sub_self]
    rw [List.take_succ_eq_append_getElem hj, List.map_append, List.append_assoc]
    congr 1
    rw [show src.length - j = (src.length - (j + 1)) + 1 by omega, List.replicate_succ]
    simp [hv]
  · intro c hc
    rcases List.mem_or_eq_of_mem_set hc with hc | rfl
    · exact h.len22 c hc
    · exact h22

/-- (O3) typing a narrow cell at the drawing position -/
theorem shape_type_narrow {r0 : RS} (hcv : Canvas r0.g) {i : Nat} (hi : i < r0.g.size.rows) {src : List Cell}
    (hsrc : src.length = r0.g.size.cols) {j : Nat} {Ri : Row} (hline : Line src j Ri) (hj : j < src.length)
    {f : Nat} {zs : List Nat} (ht : TextCell W src.length j src[j] f zs) (hw : (W f).getD 1 = 1) :
    ∃ Ri', typeChars W src[j].attrs (f :: zs) (shape r0 i Ri ⟨i, j⟩ src[j].attrs).g =
        .ok (shape r0 i Ri' ⟨i, j + 1⟩ src[j].attrs).g ∧ Line src (j + 1) Ri' := by
  obtain ⟨c0, hc0, hv0, h220⟩ := hline.blank_at (Nat.le_of_lt hj) j (Nat.le_refl _) hj
  obtain ⟨hw0, hk0⟩ := view_plain hv0
  have hl := hline.length (Nat.le_of_lt hj)
  have hrow := shape_row hcv hi Ri ⟨i, j⟩ src[j].attrs
  obtain ⟨cellF, e, v, k⟩ := type_cell_narrow W (g := (shape r0 i Ri ⟨i, j⟩ src[j].attrs).g)
    (by simp only [shape]; exact hcv.cols_u16) src[j].attrs f zs Ri c0 hw ht.first ht.zero
    (by simp only [shape]; omega) hrow (by simpa [shape] using hc0) hw0 hk0 h220 ht.pre
  refine ⟨{ Ri with cells := Ri.cells.set j cellF }, ?_, hline.set1 hj cellF (by rw [v, ht.view]) k⟩
  rw [e]
  simp [typed, shape, List.set_set]

/-- two more drawn cells -/
theorem Line.set2 {src : List Cell} {j : Nat} {Ri : Row} (h : Line src j Ri) (hj : j + 1 < src.length) (c0 c1 : Cell)
    (hv0 : view c0 = view src[j]) (h220 : c0.contents.length = 22)
    (hv1 : view c1 = view src[j + 1]) (h221 : c1.contents.length = 22) :
    Line src (j + 2) { Ri with cells := (Ri.cells.set j c0).set (j + 1) c1 } := by
  have h1 := h.set1 (by omega) c0 hv0 h220
  have h2 := h1.set1 hj c1 hv1 h221
  exact h2

/-- (O3w) typing a wide cell at the drawing position -/
theorem shape_type_wide {r0 : RS} (hcv : Canvas r0.g) {i : Nat} (hi : i < r0.g.size.rows) {src : List Cell}
    (hsrc : src.length = r0.g.size.cols) {j : Nat} {Ri : Row} (hline : Line src j Ri) (hj : j + 1 < src.length)
    {f : Nat} {zs : List Nat} (ht : TextCell W src.length j src[j] f zs) (hw : 2 ≤ (W f).getD 1)
    (hcont : view src[j + 1] = contV) :
    ∃ Ri', typeChars W src[j].attrs (f :: zs) (shape r0 i Ri ⟨i, j⟩ src[j].attrs).g =
        .ok (shape r0 i Ri' ⟨i, j + 2⟩ src[j].attrs).g ∧ Line src (j + 2) Ri' := by
  obtain ⟨c0, hc0, hv0, h220⟩ := hline.blank_at (by omega) j (Nat.le_refl _) (by omega)
  obtain ⟨c1, hc1, hv1, h221⟩ := hline.blank_at (by omega) (j + 1) (by omega) hj
  obtain ⟨hw0, hk0⟩ := view_plain hv0
  obtain ⟨hw1, _⟩ := view_plain hv1
  have hrow := shape_row hcv hi Ri ⟨i, j⟩ src[j].attrs
  obtain ⟨cellF, e, v, k⟩ := type_cell_wide W (g := (shape r0 i Ri ⟨i, j⟩ src[j].attrs).g)
    (by simp only [shape]; exact hcv.cols_u16) src[j].attrs f _ zs Ri c0 c1 rfl (by omega) ht.first ht.zero
    (by simp only [shape]; have := ht.fits; omega) hrow (by simpa [shape] using hc0) hw0 hk0 h220
    (by simpa [shape] using hc1) hw1 ht.pre
  refine ⟨{ Ri with cells := (Ri.cells.set j cellF).set (j + 1) (contCell c1) }, ?_,
    hline.set2 hj cellF (contCell c1) (by rw [v, ht.view]) k (by rw [view_contCell, hcont]) ?_⟩
  · rw [e]
    simp [typed, shape, List.set_set]
  · simp [contCell, Cell.clear, Cell.setWideContinuation, h221]

/-- the expected views, pointwise -/
def expect (src : List Cell) (es : Nat) : List View :=
  (src.take es).map view ++ List.replicate (src.length - es) blankV

theorem expect_get (src : List Cell) (es : Nat) (hes : es ≤ src.length) (k : Nat) (hk : k < src.length) :
    (expect src es)[k]? = some (if k < es then view src[k] else blankV) := by
  unfold expect
  by_cases h : k < es
  · rw [List.getElem?_append_left (by simp [List.length_take]; omega)]
    simp [h, List.getElem?_take, List.getElem?_eq_getElem hk]
  · rw [List.getElem?_append_right (by simp [List.length_take]; omega)]
    simp only [List.length_map, List.length_take, Nat.min_eq_left hes, List.getElem?_replicate, h, ↓reduceIte]
    rw [if_pos (by omega)]

theorem expect_length (src : List Cell) (es : Nat) (hes : es ≤ src.length) : (expect src es).length = src.length := by
  simp [expect, List.length_take]; omega

/-- (O4/O5) blanking `[e, hi)` with the attributes the source cells there have -/
theorem Line.clear {src : List Cell} {e : Nat} {Ri : Row} (h : Line src e Ri) (hi : Nat) (a : Attrs)
    (he : e ≤ hi) (hhi : hi ≤ src.length) (hsrc : ∀ k (hk : k < src.length), e ≤ k → k < hi → view src[k] = blankA a) :
    Line src hi { cells := clearRange Ri.cells e hi a, wrapped := false } := by
  have hl := h.length (by omega)
  refine ⟨rfl, ?_, clearRange_len22 _ _ _ _ h.len22⟩
  show (clearRange Ri.cells e hi a).map view = expect src hi
  rw [clearRange_views, h.views]
  show (expect src e).mapIdx _ = expect src hi
  apply List.ext_getElem?
  intro k
  by_cases hk : k < src.length
  · rw [List.getElem?_mapIdx, expect_get src e (by omega) k hk, expect_get src hi hhi k hk]
    simp only [Option.map_some, Option.some.injEq]
    by_cases h1 : e ≤ k ∧ k < hi
    · rw [if_pos h1, if_pos h1.2, hsrc k hk h1.1 h1.2]
    · rw [if_neg h1]
      by_cases h2 : k < e
      · rw [if_pos h2, if_pos (by omega)]
      · rw [if_neg h2, if_neg (by omega)]
  · rw [List.getElem?_eq_none (by simp [expect_length src e (by omega)]; omega),
      List.getElem?_eq_none (by simp [expect_length src hi hhi]; omega)]

/-- the cells the erase loop visits are plain -/
theorem Line.plain_from {src : List Cell} {e : Nat} {Ri : Row} (h : Line src e Ri) (he : e ≤ src.length) (k : Nat)
    (hk : e ≤ k) : Ri.cells[k]?.all (fun c => !c.wide && !c.cont) = true := by
  by_cases hkl : k < src.length
  · obtain ⟨c, hc, hv, _⟩ := h.blank_at he k hk hkl
    obtain ⟨h1, h2⟩ := view_plain hv
    simp [hc, h1, h2]
  · rw [List.getElem?_eq_none (by have := h.length he; omega)]
    rfl

/-- (O4) ECH n at the drawing position -/
theorem shape_ech {r0 : RS} (hcv : Canvas r0.g) {i : Nat} (hi : i < r0.g.size.rows) {src : List Cell}
    (hsrc : src.length = r0.g.size.cols) {e : Nat} {Ri : Row} (hline : Line src e Ri) (n : Nat) (a : Attrs)
    (hn : e + n ≤ src.length) (hv : ∀ k (hk : k < src.length), e ≤ k → k < e + n → view src[k] = blankA a) :
    ∃ Ri', (shape r0 i Ri ⟨i, e⟩ a).g.eraseCells n a = .ok (shape r0 i Ri' ⟨i, e⟩ a).g ∧ Line src (e + n) Ri' := by
  have hrow := shape_row hcv hi Ri ⟨i, e⟩ a
  have hu := hcv.cols_u16
  have hmin : min (satAddU16 e n) r0.g.size.cols = e + n := by
    simp only [satAddU16, U16_MAX]; omega
  have hRi : Ri = { cells := Ri.cells, wrapped := false } := by
    obtain ⟨cs, w⟩ := Ri
    have := hline.unwrapped
    simp only at this
    rw [this]
  have hloop := erase_plain_range Ri.cells e a n (by rw [hline.length (by omega)]; exact hn)
    (fun k h1 _ => hline.plain_from (by omega) k h1)
  refine ⟨{ cells := clearRange Ri.cells e (e + n) a, wrapped := false }, ?_,
    hline.clear (e + n) a (by omega) hn hv⟩
  unfold Grid.eraseCells
  have hpos : (shape r0 i Ri ⟨i, e⟩ a).g.pos = ⟨i, e⟩ := rfl
  have hsz : (shape r0 i Ri ⟨i, e⟩ a).g.size = r0.g.size := rfl
  simp only [hpos, hsz, hmin]
  rw [C07.modifyCurrentRow_eq _ _ (r := Ri) (by rw [hpos]; exact hrow) (by rw [hRi]; exact hloop)]
  simp [shape, List.set_set]

/-- (O5) EL 0 at the drawing position -/
theorem shape_el {r0 : RS} (hcv : Canvas r0.g) {i : Nat} (hi : i < r0.g.size.rows) {src : List Cell}
    (hsrc : src.length = r0.g.size.cols) {e : Nat} {Ri : Row} (hline : Line src e Ri) (a : Attrs)
    (he : e ≤ src.length) (hv : ∀ k (hk : k < src.length), e ≤ k → view src[k] = blankA a) :
    ∃ Ri', (shape r0 i Ri ⟨i, e⟩ a).g.eraseRowForward a = .ok (shape r0 i Ri' ⟨i, e⟩ a).g ∧
      Line src src.length Ri' := by
  have hrow := shape_row hcv hi Ri ⟨i, e⟩ a
  have hRi : Ri = { cells := Ri.cells, wrapped := false } := by
    obtain ⟨cs, w⟩ := Ri
    have := hline.unwrapped
    simp only at this
    rw [this]
  have hloop := erase_plain_range Ri.cells e a (src.length - e) (by rw [hline.length he]; omega)
    (fun k h1 _ => hline.plain_from he k h1)
  rw [show e + (src.length - e) = src.length by omega] at hloop
  refine ⟨{ cells := clearRange Ri.cells e src.length a, wrapped := false }, ?_,
    hline.clear src.length a he (Nat.le_refl _) (fun k hk h1 _ => hv k hk h1)⟩
  unfold Grid.eraseRowForward
  have hpos : (shape r0 i Ri ⟨i, e⟩ a).g.pos = ⟨i, e⟩ := rfl
  have hsz : (shape r0 i Ri ⟨i, e⟩ a).g.size = r0.g.size := rfl
  simp only [hpos, hsz, ← hsrc]
  rw [C07.modifyCurrentRow_eq _ _ (r := Ri) (by rw [hpos]; exact hrow) (by rw [hRi]; exact hloop)]
  simp [shape, List.set_set]

/-! ### wrap-through: the line above is wrapped onto this one -/

/-- the start state with the line above flagged as wrapped -/
def wrapBase (r0 : RS) (i : Nat) (Rp : Row) : RS :=
  { r0 with g := { r0.g with rows := r0.g.rows.set (i - 1) (Rp.wrap true) } }

theorem wrapBase_canvas {r0 : RS} (h : Canvas r0.g) (i : Nat) {Rp : Row} (hp : r0.g.rows[i - 1]? = some Rp) :
    Canvas (wrapBase r0 i Rp).g := by
  refine ⟨h.rows_pos, h.cols_pos, h.rows_u16, h.cols_u16, h.top, h.bottom, h.origin, ?_, ?_⟩
  · simp [wrapBase, h.alloc]
  · intro r hr
    simp only [wrapBase] at hr ⊢
    rcases List.mem_or_eq_of_mem_set hr with hr | rfl
    · exact h.width r hr
    · exact h.width Rp (List.mem_of_getElem? hp)

/-- the deferred wrap, on the receiver state -/
theorem shape_wrapNext {r0 : RS} (i : Nat) (hi1 : 1 ≤ i) (Ri Rp : Row) (c : Nat) (pen : Attrs) :
    wrapNext (shape r0 i Ri ⟨i - 1, c⟩ pen).g Rp = (shape (wrapBase r0 i Rp) i Ri ⟨i, 0⟩ pen).g := by
  simp only [wrapNext, shape, wrapBase]
  have : (r0.g.rows.set i Ri).set (i - 1) (Rp.wrap true) = (r0.g.rows.set (i - 1) (Rp.wrap true)).set i Ri :=
    List.set_comm _ _ (by omega)
  rw [this, show i - 1 + 1 = i by omega]

theorem shape_prev_row {r0 : RS} (i : Nat) (hi1 : 1 ≤ i) (Ri Rp : Row) (pos : Pos) (pen : Attrs)
    (hp : r0.g.rows[i - 1]? = some Rp) : (shape r0 i Ri pos pen).g.rows[i - 1]? = some Rp := by
  simp only [shape, List.getElem?_set]
  rw [if_neg (by omega)]; exact hp

/-- typing the characters of a cell at the pending-wrap position of the line above = typing them at the
start of this line after the wrap has been recorded -/
theorem typeChars_wraps {r0 : RS} (hcv : Canvas r0.g) {i : Nat} (hi1 : 1 ≤ i) (hi : i < r0.g.size.rows)
    {Ri Rp : Row} (hl : Ri.cells.length = r0.g.size.cols) (hp : r0.g.rows[i - 1]? = some Rp)
    {last : Cell} (hlast : Rp.cells[r0.g.size.cols - 1]? = some last) (hocc : (last.hasContents || last.cont) = true)
    (pen : Attrs) (f : Nat) (zs : List Nat) (hw1 : 1 ≤ (W f).getD 1) (hwc : min ((W f).getD 1) 2 ≤ r0.g.size.cols)
    (hnc : ¬ (W f = none ∧ f < 256)) :
    typeChars W pen (f :: zs) (shape r0 i Ri ⟨i - 1, r0.g.size.cols⟩ pen).g =
      typeChars W pen (f :: zs) (shape (wrapBase r0 i Rp) i Ri ⟨i, 0⟩ pen).g := by
  rw [typeChars_cons, typeChars_cons]
  have hcv' := shape_canvas hcv hl (⟨i - 1, r0.g.size.cols⟩ : Pos) pen (i := i)
  rw [text_wraps W hcv' pen f _ Rp last rfl (by omega) hwc hnc rfl (shape_prev_row i hi1 Ri Rp _ pen hp)
    (by simp only [shape]; omega) hlast hocc]
  rw [shape_wrapNext i hi1 Ri Rp _ pen]

/-! ### a line with some plain, not yet blanked cells in `[e, hi)` (a space typed to force a wrap) -/

structure LineX (src : List Cell) (e hi : Nat) (Ri : Row) : Prop where
  unwrapped : Ri.wrapped = false
  len22 : ∀ c ∈ Ri.cells, c.contents.length = 22
  length : Ri.cells.length = src.length
  agree : ∀ k (hk : k < src.length), k < e → (Ri.cells.map view)[k]? = some (view src[k])
  plain : ∀ k, e ≤ k → k < hi → Ri.cells[k]?.all (fun c => !c.wide && !c.cont) = true
  blank : ∀ k, hi ≤ k → k < src.length → (Ri.cells.map view)[k]? = some blankV

theorem Line.toX {src : List Cell} {e : Nat} {Ri : Row} (h : Line src e Ri) (he : e ≤ src.length) : LineX src e e Ri := by
  refine ⟨h.unwrapped, h.len22, h.length he, ?_, fun k h1 h2 => by omega, ?_⟩
  · intro k hk hke
    rw [h.views]; have := expect_get src e he k hk; unfold expect at this; rw [this, if_pos hke]
  · intro k hk hkl
    rw [h.views]; have := expect_get src e he k hkl; unfold expect at this; rw [this, if_neg (by omega)]

theorem LineX.mono {src : List Cell} {e hi hi' : Nat} {Ri : Row} (h : LineX src e hi Ri) (hh : hi ≤ hi') :
    LineX src e hi' Ri := by
  refine ⟨h.unwrapped, h.len22, h.length, h.agree, ?_, fun k h1 h2 => h.blank k (by omega) h2⟩
  intro k h1 h2
  by_cases hk : k < hi
  · exact h.plain k h1 hk
  · by_cases hkl : k < src.length
    · have hb := h.blank k (by omega) hkl
      have hkl' : k < Ri.cells.length := by rw [h.length]; exact hkl
      simp only [List.getElem?_map, List.getElem?_eq_getElem hkl', Option.map_some, Option.some.injEq] at hb
      obtain ⟨p1, p2⟩ := view_plain hb
      simp [List.getElem?_eq_getElem hkl', p1, p2]
    · rw [List.getElem?_eq_none (by rw [h.length]; omega)]; rfl

/-- blanking `[e, hi)` of such a line with the attributes the source cells there have -/
theorem LineX.clear {src : List Cell} {e hi : Nat} {Ri : Row} (h : LineX src e hi Ri) (a : Attrs)
    (he : e ≤ hi) (hhi : hi ≤ src.length) (hsrc : ∀ k (hk : k < src.length), e ≤ k → k < hi → view src[k] = blankA a) :
    Line src hi { cells := clearRange Ri.cells e hi a, wrapped := false } := by
  refine ⟨rfl, ?_, clearRange_len22 _ _ _ _ h.len22⟩
  show (clearRange Ri.cells e hi a).map view = expect src hi
  rw [clearRange_views]
  apply List.ext_getElem?
  intro k
  by_cases hk : k < src.length
  · rw [List.getElem?_mapIdx, expect_get src hi hhi k hk]
    have hkl : k < (Ri.cells.map view).length := by simp [h.length]; exact hk
    rw [List.getElem?_eq_getElem hkl]
    simp only [Option.map_some, Option.some.injEq]
    by_cases h1 : e ≤ k ∧ k < hi
    · rw [if_pos h1, if_pos h1.2, hsrc k hk h1.1 h1.2]
    · rw [if_neg h1]
      by_cases h2 : k < e
      · rw [if_pos (by omega)]
        have := h.agree k hk h2
        rw [List.getElem?_eq_getElem hkl] at this
        exact Option.some.inj this
      · rw [if_neg (by omega)]
        have := h.blank k (by omega) hk
        rw [List.getElem?_eq_getElem hkl] at this
        exact Option.some.inj this
  · rw [List.getElem?_eq_none (by simp [h.length]; omega),
      List.getElem?_eq_none (by simp [expect_length src hi hhi]; omega)]

/-- ECH / EL on such a line (`hi'` = end of the erased range, which covers the plain cells) -/
theorem shape_eraseX {r0 : RS} (hcv : Canvas r0.g) {i : Nat} (hi : i < r0.g.size.rows) {src : List Cell}
    {e hx : Nat} {Ri : Row} (hline : LineX src e hx Ri) (hi' : Nat) (a : Attrs)
    (hxe : e ≤ hi') (hxh : hx ≤ hi') (hh : hi' ≤ src.length)
    (hv : ∀ k (hk : k < src.length), e ≤ k → k < hi' → view src[k] = blankA a) :
    ∃ Ri', (shape r0 i Ri ⟨i, e⟩ a).g.modifyCurrentRow
        (fun row => forRange e hi' (fun col r => r.erase col a) row) = .ok (shape r0 i Ri' ⟨i, e⟩ a).g ∧
      Line src hi' Ri' := by
  have hrow := shape_row hcv hi Ri ⟨i, e⟩ a
  have hRi : Ri = { cells := Ri.cells, wrapped := false } := by
    obtain ⟨cs, w⟩ := Ri
    have := hline.unwrapped
    simp only at this
    rw [this]
  have hl2 := hline.mono hxh
  have hloop := erase_plain_range Ri.cells e a (hi' - e) (by rw [hline.length]; omega)
    (fun k h1 h2 => hl2.plain k h1 (by omega))
  rw [show e + (hi' - e) = hi' by omega] at hloop
  refine ⟨{ cells := clearRange Ri.cells e hi' a, wrapped := false }, ?_, hl2.clear a hxe hh hv⟩
  have hpos : (shape r0 i Ri ⟨i, e⟩ a).g.pos = ⟨i, e⟩ := rfl
  rw [C07.modifyCurrentRow_eq _ _ (r := Ri) (by rw [hpos]; exact hrow) (by rw [hRi]; exact hloop)]
  simp [shape, List.set_set]

end Vt.Recv
