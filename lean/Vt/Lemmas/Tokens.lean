/-
  Vt.Lemmas.Tokens — what `vte::Parser::advance` makes of the byte strings the crate itself emits.

  `Tok t acts`: from every Ground state with nothing pending, the bytes `t` produce exactly the
  actions `acts` and leave the automaton in Ground with nothing pending.  Tokens compose
  (`tok_append`, by `advance_append`).  Proved tokens:
    * `tok_text`  : a run of valid UTF-8 without ESC — one print / execute per character;
    * `tok_csi`   : `ESC [ p1 ; … ; pk final` with decimal parameters ≤ 65535, k ≤ 32 — one
                    `csi_dispatch` with exactly those parameters (decimal print/parse round trip);
    * `tok_csi_private` : the same with a private marker (`ESC [ ? … h`);
    * `tok_esc`   : `ESC final`.
-/
import Vt.Props.C04b
namespace Vt.Tok
open Vt Vt.C04
set_option linter.unusedSimpArgs false

/-- from Ground with nothing pending, `t` yields `acts` and returns to Ground with nothing pending -/
def Tok (t : List Nat) (acts : List Action) : Prop :=
  ∀ v : Vte, v.state = .ground → v.carry = [] →
    (v.advance t).2 = acts ∧ (v.advance t).1.state = .ground ∧ (v.advance t).1.carry = []

theorem tok_nil : Tok [] [] := by
  intro v _ hc
  rw [advance_nil v hc]
  exact ⟨rfl, ‹_›, hc⟩

theorem tok_append {t1 t2 : List Nat} {a1 a2 : List Action} (h1 : Tok t1 a1) (h2 : Tok t2 a2) :
    Tok (t1 ++ t2) (a1 ++ a2) := by
  intro v hg hc
  obtain ⟨e1, g1, c1⟩ := h1 v hg hc
  obtain ⟨e2, g2, c2⟩ := h2 _ g1 c1
  rw [advance_append v t1 t2 hc c1]
  exact ⟨by rw [e1, e2], g2, c2⟩

/-! ### text -/

/-- a non-empty run of complete valid UTF-8 without ESC: one action per character, automaton untouched -/
theorem tok_text (bytes : List Nat) (hv : (Utf8.fromUtf8 bytes).err = none) (hesc : ∀ b ∈ bytes, b ≠ 0x1B) :
    Tok bytes (Vte.groundDispatch (Utf8.fromUtf8 bytes).chars) := by
  intro v hg hc
  cases bytes with
  | nil =>
    rw [advance_nil v hc]
    exact ⟨by simp [Utf8.fromUtf8, Vte.groundDispatch], hg, hc⟩
  | cons b rest =>
    have hP : (b :: rest).findIdx (· == 0x1B) = (b :: rest).length := by
      rw [List.findIdx_eq_length]
      intro x hx
      simpa using hesc x hx
    rw [advance_eq_loop v _ _ hc (Nat.lt_succ_self _), advanceLoop_ground_cons _ v b rest hg,
      ground_valid_alone v (b :: rest) (by simp) hP hv]
    simp only [List.drop_length, advanceLoop_nil, List.append_nil]
    exact ⟨trivial, hg, hc⟩

/-! ### decimal digits -/

open Term in
theorem digitsAux_acc : ∀ (fuel n : Nat) (acc : List Nat), digitsAux fuel n acc = digitsAux fuel n [] ++ acc
  | 0, _, acc => by simp [digitsAux]
  | fuel + 1, n, acc => by
    unfold digitsAux
    split
    · simp
    · rw [digitsAux_acc fuel (n / 10) ((48 + n % 10) :: acc), digitsAux_acc fuel (n / 10) [48 + n % 10]]
      simp

open Term in
theorem digitsAux_fuel : ∀ (fuel fuel' n : Nat) (acc : List Nat), n < fuel → n < fuel' →
    digitsAux fuel n acc = digitsAux fuel' n acc
  | 0, _, _, _, h, _ => absurd h (Nat.not_lt_zero _)
  | _ + 1, 0, _, _, _, h => absurd h (Nat.not_lt_zero _)
  | fuel + 1, fuel' + 1, n, acc, h, h' => by
    unfold digitsAux
    split
    · rfl
    · exact digitsAux_fuel fuel fuel' (n / 10) _ (by omega) (by omega)

open Term in
theorem itoa_small (n : Nat) (h : n < 10) : itoa n = [48 + n] := by
  simp [itoa, digitsAux, h]

open Term in
theorem itoa_rec (n : Nat) (h : 10 ≤ n) : itoa n = itoa (n / 10) ++ [48 + n % 10] := by
  unfold itoa
  rw [digitsAux]
  simp only [show ¬ n < 10 by omega, ↓reduceIte]
  rw [digitsAux_acc, digitsAux_fuel n (n / 10 + 1) (n / 10) [] (by omega) (by omega)]

/-! ### running the automaton outside Ground, byte by byte -/

/-- feed bytes while the automaton is not in Ground; returns the state, the actions, and what is left -/
def runNG : Vte → List Nat → Vte × List Action × List Nat
  | v, [] => (v, [], [])
  | v, b :: rest =>
    if v.state = .ground then (v, [], b :: rest)
    else
      let r := v.changeState b
      let r2 := runNG r.1 rest
      (r2.1, r.2 ++ r2.2.1, r2.2.2)

theorem runNG_length : ∀ (v : Vte) (bytes : List Nat), (runNG v bytes).2.2.length ≤ bytes.length
  | _, [] => by simp [runNG]
  | v, b :: rest => by
    unfold runNG
    split
    · simp
    · have := runNG_length (v.changeState b).1 rest
      simp only [List.length_cons]; omega

theorem loop_runNG : ∀ (bytes : List Nat) (v : Vte) (F : Nat), bytes.length < F →
    Vte.advanceLoop F v bytes =
      ((Vte.advanceLoop F (runNG v bytes).1 (runNG v bytes).2.2).1,
       (runNG v bytes).2.1 ++ (Vte.advanceLoop F (runNG v bytes).1 (runNG v bytes).2.2).2)
  | [], v, F, _ => by simp [runNG, advanceLoop_nil]
  | b :: rest, v, F, hF => by
    by_cases hg : v.state = .ground
    · simp [runNG, hg]
    · cases F with
      | zero => exact absurd hF (Nat.not_lt_zero _)
      | succ F' =>
        have hF' : rest.length < F' := by simp only [List.length_cons] at hF; omega
        rw [advanceLoop_nonground_cons F' v b rest hg, loop_runNG rest _ F' hF']
        simp only [runNG, hg, ↓reduceIte, List.append_assoc]
        have hle := runNG_length (v.changeState b).1 rest
        rw [advanceLoop_fuel (F' + 1) F' _ _ (by omega) (by omega)]

/-! ### CSI parameters -/

/-- inside a CSI sequence: intermediates `I` collected, parameters `ps` closed, the open one worth `p` -/
structure PS (v : Vte) (I : List Nat) (ps : List Nat) (p : Nat) : Prop where
  st : v.state = .csiEntry ∨ v.state = .csiParam
  ints : v.ints = I
  ign : v.ignoring = false
  params : v.params = ps.map (fun x => [x])
  cur : v.cur = []
  param : v.param = p
  carry : v.carry = []

theorem ps_notFull {v : Vte} {I ps p} (h : PS v I ps p) (hl : ps.length < 32) : v.paramsFull = false := by
  have hsum : ∀ l : List Nat, (List.map List.length (List.map (fun x => [x]) l)).sum = l.length := by
    intro l
    induction l with
    | nil => rfl
    | cons x xs ih => simp only [List.map_cons, List.sum_cons, List.length_cons, List.length_nil, ih]; omega
  simp only [Vte.paramsFull, Vte.paramsLen, h.params, h.cur, Vte.MAX_PARAMS, hsum, List.length_nil, Nat.add_zero]
  rw [beq_eq_false_iff_ne]; omega

theorem c0_false (b : Nat) (h : 0x20 ≤ b) : Vte.isC0Exec b = false := by
  simp [Vte.isC0Exec]; omega

/-- a decimal digit -/
theorem ps_digit {v : Vte} {I ps p} (h : PS v I ps p) (d : Nat) (hd : 48 ≤ d ∧ d ≤ 57) (hl : ps.length < 32)
    (hp : p * 10 + (d - 48) ≤ 65535) :
    (v.changeState d).2 = [] ∧ PS (v.changeState d).1 I ps (p * 10 + (d - 48)) := by
  have hnf := ps_notFull h hl
  have hc0 := c0_false d (by omega)
  have h1 : ¬ (0x20 ≤ d ∧ d ≤ 0x2F) := by omega
  have h2 : (0x30 ≤ d ∧ d ≤ 0x39) := by omega
  have hval : min (min (v.param * 10) 65535 + (d - 48)) 65535 = p * 10 + (d - 48) := by
    rw [h.param]; omega
  rcases h.st with hs | hs
  · simp only [Vte.changeState, hs, Vte.advanceCsiEntry, hc0, Bool.false_eq_true, ↓reduceIte, Bool.and_eq_true,
      decide_eq_true_eq, h1, h2, and_self, Vte.actionParamnext, hnf, hval]
    exact ⟨trivial, Or.inr rfl, h.ints, h.ign, h.params, h.cur, rfl, h.carry⟩
  · simp only [Vte.changeState, hs, Vte.advanceCsiParam, hc0, Bool.false_eq_true, ↓reduceIte, Bool.and_eq_true,
      decide_eq_true_eq, h1, h2, and_self, Vte.actionParamnext, hnf, hval]
    exact ⟨trivial, Or.inr rfl, h.ints, h.ign, h.params, h.cur, rfl, h.carry⟩

/-- the state after `;` -/
def afterSemi (v : Vte) : Vte :=
  { v with
    state := .csiParam
    params := v.params ++ [v.cur ++ [v.param]]
    cur := []
    param := 0 }

/-- `;` closes the open parameter -/
theorem ps_semi {v : Vte} {I ps p} (h : PS v I ps p) (hl : ps.length < 32) :
    (v.changeState 0x3B).2 = [] ∧ PS (v.changeState 0x3B).1 I (ps ++ [p]) 0 := by
  have hnf := ps_notFull h hl
  have hstep : v.changeState 0x3B = (afterSemi v, []) := by
    rcases h.st with hs | hs <;>
      simp [Vte.changeState, hs, Vte.advanceCsiEntry, Vte.advanceCsiParam, Vte.isC0Exec, Vte.actionParam, hnf,
        Vte.pushParam, afterSemi]
  rw [hstep]
  exact ⟨rfl, Or.inr rfl, h.ints, h.ign, by simp [afterSemi, h.params, h.cur, h.param], rfl, rfl, h.carry⟩

/-- the final byte dispatches -/
theorem ps_final {v : Vte} {I ps p} (h : PS v I ps p) (f : Nat) (hf : 0x40 ≤ f ∧ f ≤ 0x7E) (hl : ps.length < 32) :
    (v.changeState f).2 = [.csiDispatch ((ps ++ [p]).map (fun x => [x])) I false f] ∧
    (v.changeState f).1.state = .ground ∧ (v.changeState f).1.carry = [] := by
  have hnf := ps_notFull h hl
  have hc0 := c0_false f (by omega)
  have h1 : ¬ (0x20 ≤ f ∧ f ≤ 0x2F) := by omega
  have h2 : ¬ (0x30 ≤ f ∧ f ≤ 0x39) := by omega
  have h3 : ¬ f = 0x3A := by omega
  have h4 : ¬ f = 0x3B := by omega
  have h5 : ¬ (0x3C ≤ f ∧ f ≤ 0x3F) := by omega
  have hdisp : v.actionCsiDispatch f =
      ({ v.finishParams with state := .ground }, [.csiDispatch ((ps ++ [p]).map (fun x => [x])) I false f]) := by
    simp [Vte.actionCsiDispatch, Vte.finishParams, hnf, Vte.pushParam, Vte.paramsIter, h.ints, h.ign, h.params,
      h.cur, h.param]
  rcases h.st with hs | hs
  · simp only [Vte.changeState, hs, Vte.advanceCsiEntry, hc0, Bool.false_eq_true, ↓reduceIte, Bool.and_eq_true,
      decide_eq_true_eq, h1, h2, h3, h4, h5, beq_iff_eq, hf, and_self, hdisp]
    exact ⟨trivial, trivial, by simp [h.carry]⟩
  · simp only [Vte.changeState, hs, Vte.advanceCsiParam, hc0, Bool.false_eq_true, ↓reduceIte, Bool.and_eq_true,
      decide_eq_true_eq, h1, h2, h3, h4, h5, beq_iff_eq, hf, and_self, hdisp]
    exact ⟨trivial, trivial, by simp [h.carry]⟩

theorem ps_ne_ground {v : Vte} {I ps p} (h : PS v I ps p) : v.state ≠ .ground := by
  rcases h.st with hs | hs <;> simp [hs]

theorem runNG_cons {v : Vte} (hg : v.state ≠ .ground) (b : Nat) (rest : List Nat) :
    runNG v (b :: rest) =
      ((runNG (v.changeState b).1 rest).1, (v.changeState b).2 ++ (runNG (v.changeState b).1 rest).2.1,
        (runNG (v.changeState b).1 rest).2.2) := by
  simp [runNG, hg]

/-- the decimal digits of `n ≤ 65535` set the open parameter to `n` -/
theorem run_number (I : List Nat) (ps : List Nat) (hl : ps.length < 32) :
    ∀ (n : Nat), n ≤ 65535 → ∀ (v : Vte), PS v I ps 0 → ∀ rest,
      ∃ v', PS v' I ps n ∧ runNG v (Term.itoa n ++ rest) = runNG v' rest := by
  intro n
  induction n using Nat.strongRecOn with
  | _ n ih =>
    intro hn v hv rest
    by_cases h10 : n < 10
    · rw [itoa_small n h10]
      obtain ⟨e, hps⟩ := ps_digit hv (48 + n) (by omega) hl (by omega)
      refine ⟨(v.changeState (48 + n)).1, by simpa using hps, ?_⟩
      rw [List.singleton_append, runNG_cons (ps_ne_ground hv), e]
      simp
    · rw [itoa_rec n (by omega), List.append_assoc]
      obtain ⟨v1, hv1, e1⟩ := ih (n / 10) (by omega) (by omega) v hv ([48 + n % 10] ++ rest)
      rw [e1]
      obtain ⟨e, hps⟩ := ps_digit hv1 (48 + n % 10) (by omega) hl (by omega)
      refine ⟨(v1.changeState (48 + n % 10)).1, ?_, ?_⟩
      · have : n / 10 * 10 + (48 + n % 10 - 48) = n := by omega
        rw [this] at hps; exact hps
      · rw [List.singleton_append, runNG_cons (ps_ne_ground hv1), e]
        simp

/-- `p1 ; p2 ; … ; pk` (k ≥ 1) -/
def paramBytes : List Nat → List Nat
  | [] => []
  | [p] => Term.itoa p
  | p :: q :: ps => Term.itoa p ++ [0x3B] ++ paramBytes (q :: ps)

theorem run_params (I : List Nat) : ∀ (qs : List Nat) (ps : List Nat) (v : Vte), qs ≠ [] →
    (∀ q ∈ qs, q ≤ 65535) → ps.length + qs.length ≤ 32 → PS v I ps 0 → ∀ rest,
      ∃ v', PS v' I (ps ++ qs.dropLast) (qs.getLast?.getD 0) ∧ runNG v (paramBytes qs ++ rest) = runNG v' rest
  | [], _, _, h, _, _, _, _ => absurd rfl h
  | [q], ps, v, _, hq, hl, hv, rest => by
    obtain ⟨v', hv', e⟩ := run_number I ps (by simp at hl; omega) q (hq q (by simp)) v hv rest
    exact ⟨v', by simpa using hv', e⟩
  | q :: q2 :: qs, ps, v, _, hq, hl, hv, rest => by
    have hl' : ps.length < 32 := by simp at hl; omega
    obtain ⟨v1, hv1, e1⟩ := run_number I ps hl' q (hq q (by simp)) v hv ([0x3B] ++ paramBytes (q2 :: qs) ++ rest)
    obtain ⟨e2, hv2⟩ := ps_semi hv1 hl'
    obtain ⟨v3, hv3, e3⟩ := run_params I (q2 :: qs) (ps ++ [q]) (v1.changeState 0x3B).1 (by simp)
      (fun x hx => hq x (List.mem_cons_of_mem _ hx)) (by simp at hl ⊢; omega) hv2 rest
    refine ⟨v3, ?_, ?_⟩
    · simpa [List.append_assoc] using hv3
    · simp only [paramBytes, List.append_assoc] at e1 ⊢
      rw [e1, List.singleton_append, runNG_cons (ps_ne_ground hv1), e2]
      simp only [List.nil_append]
      rw [e3]

/-! ### the tokens -/

/-- the parameter groups vte reports for the decimal parameters `ps` (none written = one `0`) -/
def groups (ps : List Nat) : List (List Nat) := if ps = [] then [[0]] else ps.map (fun x => [x])

/-- from a `PS` state: the rest of the parameters, then the final byte -/
theorem run_tail (I : List Nat) (ps : List Nat) (v : Vte) (hv : PS v I [] 0) (hq : ∀ q ∈ ps, q ≤ 65535)
    (hl : ps.length ≤ 32) (f : Nat) (hf : 0x40 ≤ f ∧ f ≤ 0x7E) :
    (runNG v (paramBytes ps ++ [f])).2.1 = [.csiDispatch (groups ps) I false f] ∧
    (runNG v (paramBytes ps ++ [f])).2.2 = [] ∧
    (runNG v (paramBytes ps ++ [f])).1.state = .ground ∧ (runNG v (paramBytes ps ++ [f])).1.carry = [] := by
  have fin : ∀ (v' : Vte) (qs : List Nat) (p : Nat), PS v' I qs p → qs.length < 32 →
      (runNG v' [f]).2.1 = [.csiDispatch ((qs ++ [p]).map (fun x => [x])) I false f] ∧ (runNG v' [f]).2.2 = [] ∧
      (runNG v' [f]).1.state = .ground ∧ (runNG v' [f]).1.carry = [] := by
    intro v' qs p hv' hlq
    obtain ⟨e, g, c⟩ := ps_final hv' f hf hlq
    rw [runNG_cons (ps_ne_ground hv')]
    simp [runNG, e, g, c]
  by_cases hps : ps = []
  · subst hps
    simpa [paramBytes, groups] using fin v [] 0 hv (by simp)
  · obtain ⟨v', hv', e⟩ := run_params I ps [] v hps hq (by simpa using hl) hv [f]
    rw [e]
    have hne := List.dropLast_concat_getLast hps
    have hlast : ps.getLast?.getD 0 = ps.getLast hps := by
      rw [List.getLast?_eq_some_getLast hps]; rfl
    have := fin v' _ _ hv' (by simp at hl ⊢; have := List.length_pos_iff.mpr hps; omega)
    simp only [List.nil_append, hlast, hne] at this
    simpa [groups, hps] using this

theorem advance_esc_first (v : Vte) (hg : v.state = .ground) (hc : v.carry = []) (rest : List Nat) :
    v.advance (0x1B :: rest) =
      Vte.advanceLoop (rest.length + 1) { v.resetParams with state := .escape } rest := by
  rw [advance_eq_loop v _ (rest.length + 2) hc (by simp), advanceLoop_ground_cons _ v _ _ hg]
  have : v.advanceGround (0x1B :: rest) = ({ v.resetParams with state := .escape }, [], 1) := by
    have hfi : (0x1B :: rest).findIdx (· == 0x1B) = 0 := by simp [List.findIdx_cons]
    simp [Vte.advanceGround, hfi]
  rw [this]
  simp

/-- **`ESC [ p1 ; … ; pk final`** is one `csi_dispatch` with exactly those parameters -/
theorem tok_csi (ps : List Nat) (f : Nat) (hq : ∀ q ∈ ps, q ≤ 65535) (hl : ps.length ≤ 32)
    (hf : 0x40 ≤ f ∧ f ≤ 0x7E) :
    Tok ([0x1B, 0x5B] ++ paramBytes ps ++ [f]) [.csiDispatch (groups ps) [] false f] := by
  intro v hg hc
  have e0 : [0x1B, 0x5B] ++ paramBytes ps ++ [f] = 0x1B :: (0x5B :: (paramBytes ps ++ [f])) := by simp
  rw [e0, advance_esc_first v hg hc, loop_runNG _ _ _ (Nat.lt_succ_self _)]
  have hs1 : ({ v.resetParams with state := .escape } : Vte).state ≠ .ground := by simp
  rw [runNG_cons hs1]
  have hstep : ({ v.resetParams with state := VState.escape } : Vte).changeState 0x5B =
      ({ v.resetParams with state := .csiEntry }, []) := by
    simp [Vte.changeState, Vte.advanceEsc, Vte.isC0Exec, Vte.resetParams]
  rw [hstep]
  have hv2 : PS ({ v.resetParams with state := .csiEntry } : Vte) [] [] 0 :=
    ⟨Or.inl rfl, rfl, rfl, rfl, rfl, rfl, hc⟩
  obtain ⟨a1, a2, a3, a4⟩ := run_tail [] ps _ hv2 hq hl f hf
  simp only [a1, a2, advanceLoop_nil, List.nil_append, List.append_nil]
  exact ⟨trivial, a3, a4⟩

/-- **`ESC [ ? p1 ; … ; pk final`** (private marker): one `csi_dispatch` with intermediate `?` -/
theorem tok_csi_private (ps : List Nat) (f : Nat) (hq : ∀ q ∈ ps, q ≤ 65535) (hl : ps.length ≤ 32)
    (hf : 0x40 ≤ f ∧ f ≤ 0x7E) :
    Tok ([0x1B, 0x5B, 0x3F] ++ paramBytes ps ++ [f]) [.csiDispatch (groups ps) [0x3F] false f] := by
  intro v hg hc
  have e0 : [0x1B, 0x5B, 0x3F] ++ paramBytes ps ++ [f] = 0x1B :: (0x5B :: (0x3F :: (paramBytes ps ++ [f]))) := by simp
  rw [e0, advance_esc_first v hg hc, loop_runNG _ _ _ (Nat.lt_succ_self _)]
  have hs1 : ({ v.resetParams with state := .escape } : Vte).state ≠ .ground := by simp
  rw [runNG_cons hs1]
  have hstep : ({ v.resetParams with state := VState.escape } : Vte).changeState 0x5B =
      ({ v.resetParams with state := .csiEntry }, []) := by
    simp [Vte.changeState, Vte.advanceEsc, Vte.isC0Exec, Vte.resetParams]
  rw [hstep]
  have hs2 : ({ v.resetParams with state := .csiEntry } : Vte).state ≠ .ground := by simp
  rw [runNG_cons hs2]
  have hstep2 : ({ v.resetParams with state := VState.csiEntry } : Vte).changeState 0x3F =
      ({ v.resetParams with state := .csiParam, ints := [0x3F] }, []) := by
    simp [Vte.changeState, Vte.advanceCsiEntry, Vte.isC0Exec, Vte.resetParams, Vte.actionCollect,
      Vte.MAX_INTERMEDIATES]
  rw [hstep2]
  have hv2 : PS ({ v.resetParams with state := .csiParam, ints := [0x3F] } : Vte) [0x3F] [] 0 :=
    ⟨Or.inr rfl, rfl, rfl, rfl, rfl, rfl, hc⟩
  obtain ⟨a1, a2, a3, a4⟩ := run_tail [0x3F] ps _ hv2 hq hl f hf
  simp only [a1, a2, advanceLoop_nil, List.nil_append, List.append_nil]
  exact ⟨trivial, a3, a4⟩

/-- **`ESC final`** for the finals the crate emits (`7`, `8`, `=`, `>`): one `esc_dispatch` -/
theorem tok_esc (f : Nat) (hf : (0x30 ≤ f ∧ f ≤ 0x4F) ∨ (0x51 ≤ f ∧ f ≤ 0x57)) :
    Tok [0x1B, f] [.escDispatch [] false f] := by
  intro v hg hc
  rw [advance_esc_first v hg hc, loop_runNG _ _ _ (Nat.lt_succ_self _)]
  have hs1 : ({ v.resetParams with state := .escape } : Vte).state ≠ .ground := by simp
  rw [runNG_cons hs1]
  have hc0 := c0_false f (by omega)
  have hstep : ({ v.resetParams with state := VState.escape } : Vte).changeState f =
      ({ v.resetParams with state := .ground }, [.escDispatch [] false f]) := by
    rcases hf with hf | hf
    · have h1 : ¬ (0x20 ≤ f ∧ f ≤ 0x2F) := by omega
      simp [Vte.changeState, Vte.advanceEsc, hc0, h1, hf, Vte.escDispatch, Vte.resetParams]
    · have h1 : ¬ (0x20 ≤ f ∧ f ≤ 0x2F) := by omega
      have h2 : ¬ (0x30 ≤ f ∧ f ≤ 0x4F) := by omega
      have h3 : ¬ f = 0x50 := by omega
      simp [Vte.changeState, Vte.advanceEsc, hc0, h1, h2, h3, hf, Vte.escDispatch, Vte.resetParams]
  rw [hstep]
  simp [runNG, advanceLoop_nil, hc, Vte.resetParams]

end Vt.Tok
