/-
  Vt.Lemmas.GridTotal — every grid operation reachable from `perform` is total on a grid
  satisfying the invariant and keeps it (`Total`), for every parameter value.
-/
import Vt.Lemmas.GridInv
import Vt.Props.C06
namespace Vt
set_option linter.unusedSimpArgs false
variable {W : Nat → Option Nat}

open C06 in
theorem sized_of {g : Grid} (h : GridInv W g true) : C06.Sized g := ⟨h.rows_pos, h.cols_pos⟩

section movement
variable {g : Grid} (h : GridInv W g true) (hl : g.rows.length = g.size.rows)
include h hl

theorem total_colDec (n : Nat) : Total W (fun g => pure (g.colDec n)) g :=
  ⟨_, rfl, stepOk_pos W h hl _ h.pos_row (by simp; have := h.pos_col; omega)⟩

theorem total_colSet (n : Nat) : Total W (fun g => g.colSet n) g :=
  ⟨_, C06.cha_spec g (sized_of h) n, stepOk_pos W h hl _ h.pos_row (by simp; have := h.cols_pos; omega)⟩

theorem total_colTab : Total W Grid.colTab g :=
  ⟨_, C06.ht_spec g (sized_of h), stepOk_pos W h hl _ h.pos_row (by simp; have := h.cols_pos; omega)⟩

theorem total_colIncClamp (n : Nat) : Total W (fun g => g.colIncClamp n) g :=
  ⟨_, C06.cuf_spec g (sized_of h) n, stepOk_pos W h hl _ h.pos_row (by simp; have := h.cols_pos; omega)⟩

theorem total_rowDecClamp (n : Nat) : Total W (fun g => pure (g.rowDecClamp n)) g := by
  refine ⟨{ g with pos := ⟨C06.cuuRow g n, g.pos.col⟩ }, by simp [C06.cuu_spec],
    stepOk_pos W h hl ⟨C06.cuuRow g n, g.pos.col⟩ ?_ h.pos_col⟩
  simp only [C06.cuuRow]
  have := h.pos_row; have := h.region_lt; have := h.region_le
  split <;> omega

theorem total_rowIncClamp (n : Nat) : Total W (fun g => g.rowIncClamp n) g := by
  refine ⟨_, C06.cud_spec g (sized_of h) n, stepOk_pos W h hl _ ?_ h.pos_col⟩
  simp only [C06.cudRow]
  have := h.rows_pos; have := h.region_lt
  split <;> omega

theorem total_cnl (n : Nat) : Total W (fun g => g.cnl n) g := by
  refine ⟨_, C06.cnl_spec g (sized_of h) n, stepOk_pos W h hl _ ?_ (by simp)⟩
  simp only [C06.cudRow]
  have := h.rows_pos; have := h.region_lt
  split <;> omega

theorem total_cpl (n : Nat) : Total W (fun g => g.cpl n) g := by
  refine ⟨_, C06.cpl_spec g (sized_of h) n, stepOk_pos W h hl _ ?_ (by simp)⟩
  simp only [C06.cuuRow]
  have := h.pos_row; have := h.region_lt; have := h.region_le
  split <;> omega

theorem total_rowSet (n : Nat) : Total W (fun g => g.rowSet n) g :=
  ⟨_, C06.vpa_spec g (sized_of h) n, stepOk_pos W h hl _ (by simp; have := h.rows_pos; omega) h.pos_col⟩

theorem total_setPos (r c : Nat) : Total W (fun g => g.setPos ⟨r, c⟩) g := by
  refine ⟨_, C06.cup_spec g (sized_of h) r c, stepOk_pos W h hl _ ?_ ?_⟩
  · simp only [C06.cupPos]
    have := h.rows_pos; have := h.region_lt
    split <;> omega
  · simp only [C06.cupPos]; have := h.cols_pos; omega

theorem total_setOriginMode (v : Bool) : Total W (fun g => g.setOriginMode v) g := by
  have h' : GridInv W { g with originMode := v } true := { h with }
  obtain ⟨g', e, s⟩ := total_setPos (g := { g with originMode := v }) h' hl 0 0
  exact ⟨g', by simpa [Grid.setOriginMode] using e, ⟨s.inv, s.len, s.size, s.cap⟩⟩

theorem total_setScrollRegion (t b : Nat) : Total W (fun g => g.setScrollRegion t b) g := by
  refine ⟨_, C06.decstbm_spec g (sized_of h) t b, ?_⟩
  have := h.rows_pos
  split
  · rename_i hlt
    exact ⟨{ h with region_le := by simp; omega, region_lt := by simp; omega,
                    pos_row := by simp; omega, pos_col := by simp }, hl, rfl, rfl⟩
  · exact ⟨{ h with region_le := by simp, region_lt := by simp; omega,
                    pos_row := by simp; omega, pos_col := by simp }, hl, rfl, rfl⟩

theorem total_saveCursor : Total W (fun g => pure g.saveCursor) g :=
  ⟨_, rfl, ⟨{ h with spos_row := h.pos_row, spos_col := h.pos_col }, hl, rfl, rfl⟩⟩

theorem total_restoreCursor : Total W (fun g => pure g.restoreCursor) g :=
  ⟨_, rfl, ⟨{ h with pos_row := h.spos_row, pos_col := h.spos_col }, hl, rfl, rfl⟩⟩

theorem total_setScrollback (k : Nat) : Total W (fun g => pure (g.setScrollback k)) g :=
  ⟨_, rfl, ⟨{ h with sb_off := Nat.min_le_right _ _ }, hl, rfl, rfl⟩⟩

end movement

section erase
variable {g : Grid} (h : GridInv W g true) (hl : g.rows.length = g.size.rows)
include h hl

theorem total_eraseAll (a : Attrs) : Total W (fun g => pure (g.eraseAll a)) g :=
  ⟨_, rfl, ⟨gridInv_eraseAll W h a, by simpa [Grid.eraseAll] using hl, rfl, rfl⟩⟩

theorem total_eraseAllForward (a : Attrs) : Total W (fun g => g.eraseAllForward a) g := by
  obtain ⟨g', e, i, l, s, c⟩ := eraseAllForward_ok W h hl a; exact ⟨g', e, ⟨i, l, s, c⟩⟩
theorem total_eraseAllBackward (a : Attrs) : Total W (fun g => g.eraseAllBackward a) g := by
  obtain ⟨g', e, i, l, s, c⟩ := eraseAllBackward_ok W h hl a; exact ⟨g', e, ⟨i, l, s, c⟩⟩
theorem total_eraseRowForward (a : Attrs) : Total W (fun g => g.eraseRowForward a) g := by
  obtain ⟨g', e, i, l, s, c⟩ := eraseRowForward_ok W h hl a; exact ⟨g', e, ⟨i, l, s, c⟩⟩
theorem total_eraseRowBackward (a : Attrs) : Total W (fun g => g.eraseRowBackward a) g := by
  obtain ⟨g', e, i, l, s, c⟩ := eraseRowBackward_ok W h hl a; exact ⟨g', e, ⟨i, l, s, c⟩⟩
theorem total_eraseRow (a : Attrs) : Total W (fun g => g.eraseRow a) g := by
  obtain ⟨g', e, i, l, s, c⟩ := eraseRow_ok W h hl a; exact ⟨g', e, ⟨i, l, s, c⟩⟩
theorem total_eraseCells (n : Nat) (a : Attrs) : Total W (fun g => g.eraseCells n a) g := by
  obtain ⟨g', e, i, l, s, c⟩ := eraseCells_ok W h hl n a; exact ⟨g', e, ⟨i, l, s, c⟩⟩
theorem total_insertCells (n : Nat) : Total W (fun g => g.insertCells n) g := by
  obtain ⟨g', e, i, l, s, c⟩ := insertCells_ok W h hl n; exact ⟨g', e, ⟨i, l, s, c⟩⟩
theorem total_deleteCells (n : Nat) : Total W (fun g => g.deleteCells n) g := by
  obtain ⟨g', e, i, l, s, c⟩ := deleteCells_ok W h hl n; exact ⟨g', e, ⟨i, l, s, c⟩⟩
theorem total_insertLines (n : Nat) : Total W (fun g => g.insertLines n) g := by
  obtain ⟨g', e, s⟩ := insertLines_ok W h hl n; exact ⟨g', e, ⟨s.inv, s.len, s.size, s.cap⟩⟩
theorem total_deleteLines (n : Nat) : Total W (fun g => g.deleteLines n) g := by
  obtain ⟨g', e, s⟩ := deleteLines_ok W h hl n; exact ⟨g', e, ⟨s.inv, s.len, s.size, s.cap⟩⟩
theorem total_scrollUp (n : Nat) : Total W (fun g => g.scrollUp n) g := by
  obtain ⟨g', e, s⟩ := scrollUp_ok W h hl n; exact ⟨g', e, ⟨s.inv, s.len, s.size, s.cap⟩⟩
theorem total_scrollDown (n : Nat) : Total W (fun g => g.scrollDown n) g := by
  obtain ⟨g', e, s⟩ := scrollDown_ok W h hl n; exact ⟨g', e, ⟨s.inv, s.len, s.size, s.cap⟩⟩

end erase

end Vt

namespace Vt
set_option linter.unusedSimpArgs false
variable {W : Nat → Option Nat}

/-- LF / the line step of auto-wrap: total, keeps the invariant, the column, the region; scrolls at
most one line, and only when the cursor is on the bottom margin -/
theorem rowIncScroll_ok {g : Grid} (h : GridInv W g true) (hl : g.rows.length = g.size.rows) :
    ∃ g' n, g.rowIncScroll 1 = .ok (g', n) ∧ StepOk W g g' ∧ g'.pos.col = g.pos.col ∧
      g'.scrollTop = g.scrollTop ∧ g'.scrollBottom = g.scrollBottom ∧
      (n = 0 ∨ (n = 1 ∧ g.pos.row = g.scrollBottom ∧ g'.pos.row = g.scrollBottom)) := by
  simp only [Grid.rowIncScroll]
  rw [rowClampBottom_spec _ _ (by simpa using h.rows_pos)]
  simp only [ok_bind, satAddU16, U16_MAX]
  have hpr := h.pos_row; have hrl := h.region_lt; have hrle := h.region_le; have hrp := h.rows_pos
  have hu := h.rows_u16
  cases hin : g.inScrollRegion
  · -- outside the region: move down, stop at the last line
    simp only [Bool.false_eq_true, ↓reduceIte, pure_eq_ok]
    refine ⟨_, 0, rfl, ?_, rfl, rfl, rfl, Or.inl rfl⟩
    exact stepOk_pos W h hl ⟨min (min (g.pos.row + 1) 65535) (g.size.rows - 1), g.pos.col⟩ (by simp; omega) h.pos_col
  · simp only [↓reduceIte]
    simp only [Grid.inScrollRegion, Bool.and_eq_true, decide_eq_true_eq] at hin
    have hg2 : GridInv W { g with pos := ⟨min (min (g.pos.row + 1) 65535) g.scrollBottom, g.pos.col⟩ } true :=
      (stepOk_pos W h hl ⟨min (min (g.pos.row + 1) 65535) g.scrollBottom, g.pos.col⟩ (by simp; omega) h.pos_col).inv
    obtain ⟨g', e, s⟩ := scrollUp_ok W hg2 hl
      (min (g.pos.row + 1) 65535 - g.scrollBottom)
    rw [e]
    simp only [ok_bind, pure_eq_ok]
    refine ⟨g', _, rfl, ⟨s.inv, s.len, s.size, s.cap⟩, by rw [s.pos], s.top, s.bottom, ?_⟩
    by_cases hb : g.pos.row = g.scrollBottom
    · right
      refine ⟨by omega, hb, ?_⟩
      rw [s.pos]; simp; omega
    · left; omega

/-- RI: total, keeps the invariant -/
theorem total_rowDecScroll {g : Grid} (h : GridInv W g true) (hl : g.rows.length = g.size.rows) :
    Total W (fun g => g.rowDecScroll 1) g := by
  show ∃ g', g.rowDecScroll 1 = .ok g' ∧ StepOk W g g'
  simp only [Grid.rowDecScroll, rowClampTop_spec]
  have hpr := h.pos_row; have hrl := h.region_lt; have hrle := h.region_le
  have hnr : (if (g.inScrollRegion && decide (g.pos.row - 1 < g.scrollTop)) = true then g.scrollTop
      else g.pos.row - 1) < g.size.rows := by split <;> omega
  obtain ⟨g', e, s⟩ := total_scrollDown
    (stepOk_pos W h hl ⟨(if (g.inScrollRegion && decide (g.pos.row - 1 < g.scrollTop)) = true then g.scrollTop
      else g.pos.row - 1), g.pos.col⟩ hnr h.pos_col).inv hl
    ((({ g with pos := { row := g.pos.row - 1, col := g.pos.col } } : Grid).rowClampTop g.inScrollRegion).2 +
      if 1 > g.pos.row then 1 - g.pos.row else 0)
  exact ⟨g', e, ⟨s.inv, s.len, s.size, s.cap⟩⟩

/-- `Grid::clear` (entering ?1049) on an allocated or unallocated grid -/
theorem clear_ok {g : Grid} {un : Bool} (h : GridInv W g un) :
    ∃ g', g.clear = .ok g' ∧ GridInv W g' un ∧ g'.size = g.size ∧ g'.scrollbackLen = g.scrollbackLen ∧
      g'.rows.length = g.rows.length := by
  have hrp := h.rows_pos
  simp only [Grid.clear, subM_ok h.rows_pos, ok_bind, pure_eq_ok]
  refine ⟨_, rfl, ?_, rfl, rfl, by simp⟩
  exact {
    rows_pos := h.rows_pos
    cols_pos := h.cols_pos
    rows_u16 := h.rows_u16
    cols_u16 := h.cols_u16
    rows_len := by
      rcases h.rows_len with ⟨hu, he⟩ | hl
      · left; exact ⟨hu, by simp [he]⟩
      · right; simpa using hl
    row_ok := by
      intro r hr
      obtain ⟨r0, hr0, rfl⟩ := List.mem_map.mp hr
      exact rowGood_clear W _ (h.row_ok r0 hr0)
    pos_row := by simp; omega
    pos_col := by simp
    spos_row := by simp; omega
    spos_col := by simp
    region_le := by simp
    region_lt := by simp; omega
    sb_len := h.sb_len
    sb_off := h.sb_off
    sb_ok := h.sb_ok }

/-- `allocate_rows` -/
theorem allocateRows_inv {g : Grid} (h : GridInv W g true) :
    GridInv W g.allocateRows true ∧ g.allocateRows.rows.length = g.size.rows ∧
      g.allocateRows.size = g.size ∧ g.allocateRows.scrollbackLen = g.scrollbackLen := by
  unfold Grid.allocateRows
  split
  · rename_i he
    refine ⟨?_, by simp, rfl, rfl⟩
    exact { h with
      rows_len := Or.inr (by simp)
      row_ok := by
        intro r hr
        simp only [List.mem_replicate] at hr
        rw [hr.2]; exact rowGood_new W _ h.cols_pos }
  · rename_i hne
    refine ⟨h, ?_, rfl, rfl⟩
    rcases h.rows_len with ⟨_, he⟩ | hl
    · simp [he] at hne
    · exact hl

end Vt
