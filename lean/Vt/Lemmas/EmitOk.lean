/-
  Vt.Lemmas.EmitOk — what `cellOk` + `cellEmitOk` say about a cell that holds text, in the form the
  redraw proofs use.  `WOk W` collects the facts about `unicode_width` that are assumed (and checked on
  the real table by the driver at run time).
-/
import Vt.Spec.EmitOk
import Vt.Lemmas.TypeCell
namespace Vt.Recv
open Vt Vt.C19
set_option linter.unusedSimpArgs false
set_option maxRecDepth 8192

/-- assumed of `unicode_width::UnicodeWidthChar::width` (checked on the real table at run time):
a space has width 1, C0 / DEL / C1 controls have none, U+FFFD is not zero-width -/
structure WOk (W : Nat → Option Nat) : Prop where
  space : W 32 = some 1
  c0 : ∀ c, c < 0x20 → W c = none
  c1 : ∀ c, 0x7F ≤ c → c < 0xA0 → W c = none
  repl : W 0xFFFD ≠ some 0

theorem prefixOk_of_B : ∀ (n : Nat) (zs : List Nat), prefixOkB n zs = true → prefixOk n zs
  | _, [], _ => trivial
  | n, z :: zs, h => by
    simp only [prefixOkB, Bool.and_eq_true, decide_eq_true_eq] at h
    exact ⟨h.1, prefixOk_of_B _ zs h.2⟩

open Utf8 in
/-- in valid UTF-8 a byte below 0x80 is a character of its own -/
theorem ascii_byte_is_char (bs : List Nat) (h : (fromUtf8 bs).err = none) (b : Nat) (hb : b ∈ bs) (h7 : b < 0x80) :
    b ∈ (fromUtf8 bs).chars := by
  fun_induction fromUtf8 bs
  all_goals first
    | (simp [Res.stop] at h; done)
    | skip
  · simp at hb
  all_goals
    rename_i ih
    have h' : (fromUtf8 ‹List Nat›).err = none := by simpa [Res.cons] using h
    simp only [Res.cons, List.mem_cons] at hb ⊢
    try simp only [Bool.and_eq_true, decide_eq_true_eq, isCont, ok3, ok4, Bool.or_eq_true, beq_iff_eq] at *
    first
      | (rcases hb with rfl | hb
         · exact Or.inl rfl
         · exact Or.inr (ih h' hb))
      | (rcases hb with rfl | rfl | hb
         · omega
         · omega
         · exact Or.inr (ih h' hb))
      | (rcases hb with rfl | rfl | rfl | hb
         · omega
         · omega
         · omega
         · exact Or.inr (ih h' hb))
      | (rcases hb with rfl | rfl | rfl | rfl | hb
         · omega
         · omega
         · omega
         · omega
         · exact Or.inr (ih h' hb))

/-- everything the redraw needs to know about a cell that holds text -/
structure TextCell (W : Nat → Option Nat) (cols col : Nat) (c : Cell) (f : Nat) (zs : List Nat) : Prop where
  chars : (Utf8.fromUtf8 (c.contents.take c.len)).chars = f :: zs
  valid : (Utf8.fromUtf8 (c.contents.take c.len)).err = none
  bytes : c.contents.take c.len = Utf8.encode f ++ zs.flatMap Utf8.encode
  plain : ∀ x ∈ f :: zs, Plain x
  noesc : ∀ b ∈ c.contents.take c.len, b ≠ 0x1B
  first : ¬ (W f = none ∧ f < 256)
  width : 1 ≤ (W f).getD 1
  wide : c.wide = decide ((W f).getD 1 > 1)
  cont : c.cont = false
  fits : col + min ((W f).getD 1) 2 ≤ cols
  zero : ∀ z ∈ zs, W z = some 0
  pre : prefixOk (Utf8.encode f).length zs
  view : view c = typedView W c.attrs f zs

theorem textCell_of {W : Nat → Option Nat} (hW : WOk W) {cols col : Nat} {c : Cell} (hok : cellOk W c = true)
    (hem : cellEmitOk W cols col c = true) (hh : c.hasContents = true) :
    ∃ f zs, TextCell W cols col c f zs := by
  have hlen : c.len ≠ 0 := by simp [Cell.hasContents] at hh; omega
  simp only [cellOk, Bool.and_eq_true, decide_eq_true_eq, beq_iff_eq, List.all_eq_true, Bool.or_eq_true,
    Bool.not_eq_true', Option.isNone_iff_eq_none] at hok
  obtain ⟨⟨⟨⟨h22, hl22⟩, _⟩, hcont⟩, hvalid, hchars⟩ := hok
  have hlen' : (c.len == 0) = false := by rw [beq_eq_false_iff_ne]; exact hlen
  simp only [cellEmitOk, Bool.and_eq_true, hlen', Bool.false_eq_true, ↓reduceIte] at hem
  obtain ⟨_, hem⟩ := hem
  cases hcs : (Utf8.fromUtf8 (c.contents.take c.len)).chars with
  | nil => rw [hcs] at hem; simp at hem
  | cons f zs =>
    rw [hcs] at hem hchars
    simp only [Bool.and_eq_true, bne_iff_ne, ne_eq, decide_eq_true_eq, List.all_eq_true, beq_iff_eq,
      Bool.or_eq_true, Bool.and_eq_true] at hem hchars
    obtain ⟨⟨hffd, hfit⟩, hpre⟩ := hem
    obtain ⟨⟨hf, hwide⟩, hzs⟩ := hchars
    have hcont' : c.cont = false := by
      rcases hcont with h | h
      · exact h
      · exact absurd h.1 hlen
    have hde := decode_encode _ hvalid
    rw [hcs] at hde
    -- the first character is not a control
    have hfirst : ¬ (W f = none ∧ f < 256) := by
      rintro ⟨h1, h2⟩
      rcases hf with rfl | ⟨_, h3⟩
      · rw [hW.space] at h1; simp at h1
      · rcases h3 with h3 | h3
        · exact h3 h1
        · omega
    have hf20 : 0x20 ≤ f := by
      rcases Nat.lt_or_ge f 0x20 with h | h
      · exact absurd ⟨hW.c0 f h, by omega⟩ hfirst
      · exact h
    have hfc1 : ¬ (0x80 ≤ f ∧ f ≤ 0x9F) := by
      intro h; exact hfirst ⟨hW.c1 f (by omega) (by omega), by omega⟩
    have hzplain : ∀ z ∈ zs, Plain z := by
      intro z hz
      have hz0 := hzs z hz
      refine ⟨?_, ?_, ?_⟩
      · rcases Nat.lt_or_ge z 0x20 with h | h
        · rw [hW.c0 z h] at hz0; simp at hz0
        · exact h
      · intro h; rw [hW.c1 z (by omega) (by omega)] at hz0; simp at hz0
      · intro h; subst h; exact hW.repl hz0
    have hw1 : 1 ≤ (W f).getD 1 := by
      rcases hf with rfl | ⟨h0, _⟩
      · rw [hW.space]; simp
      · cases hWf : W f with
        | none => simp
        | some w => simp only [Option.getD_some]; rw [hWf] at h0; simp at h0; omega
    refine ⟨f, zs, hcs, hvalid, hde.symm ▸ by simp [List.flatMap_cons], ?_, ?_, hfirst, hw1,
      by simpa using hwide, hcont', hfit, hzs, prefixOk_of_B _ _ hpre, ?_⟩
    · intro x hx
      rcases List.mem_cons.mp hx with rfl | hx
      · exact ⟨hf20, hfc1, hffd⟩
      · exact hzplain x hx
    · intro b hb hb'
      subst hb'
      have := ascii_byte_is_char _ hvalid 0x1B hb (by omega)
      rw [hcs] at this
      rcases List.mem_cons.mp this with h | h
      · omega
      · have := (hzplain _ h).1; omega
    · simp only [C19.view, typedView, View.mk.injEq]
      have hb : c.contents.take c.len = Utf8.encode f ++ zs.flatMap Utf8.encode := by
        rw [← hde]; simp [List.flatMap_cons]
      refine ⟨?_, by simpa using hwide, hcont', trivial, hb⟩
      have := congrArg List.length hb
      rw [List.length_take, h22] at this
      omega

end Vt.Recv
