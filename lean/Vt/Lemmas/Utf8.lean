/-
  Vt.Lemmas.Utf8 — encode/decode round trip and facts about `fromUtf8`.
-/
import Vt.Model.Utf8
import Vt.Lemmas.Except
namespace Vt.Utf8
set_option linter.unusedSimpArgs false
set_option maxRecDepth 4096

theorem encode_length_le (c : Nat) : (encode c).length ≤ 4 := by
  unfold encode; split <;> (try split) <;> (try split) <;> simp

theorem encode_length_pos (c : Nat) : 1 ≤ (encode c).length := by
  unfold encode; split <;> (try split) <;> (try split) <;> simp

theorem encode_bytes (c : Nat) (h : c < 0x110000) : ∀ b ∈ encode c, b < 256 := by
  unfold encode
  split
  · simp; omega
  · split
    · simp; omega
    · split
      · simp; omega
      · simp; omega

/-- decoding the encoding of a scalar value gives it back and continues with the rest -/
theorem fromUtf8_encode (c : Nat) (hs : isScalar c = true) (rest : List Nat) :
    fromUtf8 (encode c ++ rest) = (fromUtf8 rest).cons c (encode c).length := by
  simp only [isScalar, Bool.or_eq_true, decide_eq_true_eq, Bool.and_eq_true] at hs
  unfold encode
  by_cases h1 : c < 0x80
  · simp only [h1, ↓reduceIte, List.cons_append, List.nil_append, List.length_cons, List.length_nil]
    rw [fromUtf8.eq_def]; simp [h1]
  · by_cases h2 : c < 0x800
    · simp only [h1, h2, ↓reduceIte, List.cons_append, List.nil_append, List.length_cons, List.length_nil]
      rw [fromUtf8.eq_def]
      have a1 : ¬ (0xC0 + c / 64 < 0x80) := by omega
      have a2 : (decide (0xC2 ≤ 0xC0 + c / 64) && decide (0xC0 + c / 64 ≤ 0xDF)) = true := by simp; omega
      have a3 : isCont (0x80 + c % 64) = true := by simp [isCont]; omega
      simp only [a1, ↓reduceIte, a2, decide_true, Bool.and_self, a3]
      congr 1; omega
    · by_cases h3 : c < 0x10000
      · simp only [h1, h2, h3, ↓reduceIte, List.cons_append, List.nil_append, List.length_cons, List.length_nil]
        rw [fromUtf8.eq_def]
        have a1 : ¬ (0xE0 + c / 4096 < 0x80) := by omega
        have a2 : (decide (0xC2 ≤ 0xE0 + c / 4096) && decide (0xE0 + c / 4096 ≤ 0xDF)) = false := by simp; omega
        have a3 : (decide (0xE0 ≤ 0xE0 + c / 4096) && decide (0xE0 + c / 4096 ≤ 0xEF)) = true := by simp; omega
        have a4 : ok3 (0xE0 + c / 4096) (0x80 + c / 64 % 64) = true := by
          simp only [ok3, Bool.or_eq_true, Bool.and_eq_true, beq_iff_eq, decide_eq_true_eq]
          by_cases q0 : c / 4096 = 0
          · left; left; left; omega
          · by_cases q13 : c / 4096 = 13
            · left; right; omega
            · by_cases q12 : c / 4096 ≤ 12
              · left; left; right; omega
              · right; omega
        have a5 : isCont (0x80 + c % 64) = true := by simp [isCont]; omega
        simp only [a1, ↓reduceIte, a2, decide_false, Bool.false_and, Bool.and_false, Bool.false_eq_true,
          a3, decide_true, Bool.and_self, a4, a5]
        congr 1; omega
      · simp only [h1, h2, h3, ↓reduceIte, List.cons_append, List.nil_append, List.length_cons, List.length_nil]
        rw [fromUtf8.eq_def]
        have a1 : ¬ (0xF0 + c / 262144 < 0x80) := by omega
        have a2 : (decide (0xC2 ≤ 0xF0 + c / 262144) && decide (0xF0 + c / 262144 ≤ 0xDF)) = false := by simp; omega
        have a3 : (decide (0xE0 ≤ 0xF0 + c / 262144) && decide (0xF0 + c / 262144 ≤ 0xEF)) = false := by simp; omega
        have a3' : (decide (0xF0 ≤ 0xF0 + c / 262144) && decide (0xF0 + c / 262144 ≤ 0xF4)) = true := by simp; omega
        have a4 : ok4 (0xF0 + c / 262144) (0x80 + c / 4096 % 64) = true := by
          simp only [ok4, Bool.or_eq_true, Bool.and_eq_true, beq_iff_eq, decide_eq_true_eq]
          by_cases q0 : c / 262144 = 0
          · left; left; omega
          · by_cases q4 : c / 262144 = 4
            · right; omega
            · left; right; omega
        have a5 : isCont (0x80 + c / 64 % 64) = true := by simp [isCont]; omega
        have a6 : isCont (0x80 + c % 64) = true := by simp [isCont]; omega
        simp only [a1, ↓reduceIte, a2, a3, decide_false, Bool.false_and, Bool.and_false, Bool.false_eq_true,
          a3', decide_true, Bool.and_self, a4, a5, a6]
        congr 1; omega

theorem fromUtf8_encode_single (c : Nat) (hs : isScalar c = true) :
    fromUtf8 (encode c) = { chars := [c], validUpTo := (encode c).length, err := none } := by
  have := fromUtf8_encode c hs []
  simpa [fromUtf8, Res.cons] using this

end Vt.Utf8

namespace Vt.Utf8
set_option linter.unusedSimpArgs false
set_option maxRecDepth 4096

/-- concatenation of results -/
def Res.append (r1 r2 : Res) : Res :=
  { chars := r1.chars ++ r2.chars, validUpTo := r1.validUpTo + r2.validUpTo, err := r2.err }

theorem Res.cons_append (c n : Nat) (r1 r2 : Res) : (r1.cons c n).append r2 = (r1.append r2).cons c n := by
  simp [Res.cons, Res.append, Nat.add_assoc]

/-- a valid prefix decodes independently of what follows -/
theorem fromUtf8_append_ok (a b : List Nat) (h : (fromUtf8 a).err = none) :
    fromUtf8 (a ++ b) = (fromUtf8 a).append (fromUtf8 b) := by
  fun_induction fromUtf8 a
  all_goals first
    | (simp [Res.stop] at h; done)
    | skip
  · simp [Res.append]
  all_goals
    rename_i ih
    have h' : (fromUtf8 ‹List Nat›).err = none := by simpa [Res.cons] using h
    rw [Res.cons_append, ← ih h']
    simp only [List.cons_append]
    conv => lhs; rw [fromUtf8.eq_def]
    simp [*]

/-- valid-prefix length = number of bytes when the whole list is valid -/
theorem fromUtf8_validUpTo_ok (a : List Nat) (h : (fromUtf8 a).err = none) :
    (fromUtf8 a).validUpTo = a.length := by
  fun_induction fromUtf8 a
  all_goals first
    | (simp [Res.stop] at h; done)
    | skip
  · rfl
  all_goals
    rename_i ih
    have h' : (fromUtf8 ‹List Nat›).err = none := by simpa [Res.cons] using h
    simp [Res.cons, ih h']; omega

/-- every decoded character is a Unicode scalar value -/
theorem fromUtf8_chars_scalar (a : List Nat) (hb : ∀ b ∈ a, b < 256) :
    ∀ c ∈ (fromUtf8 a).chars, isScalar c = true := by
  fun_induction fromUtf8 a
  all_goals first
    | (simp [Res.stop]; done)
    | skip
  all_goals
    rename_i ih
    intro c hc
    simp only [Res.cons, List.mem_cons] at hc
    rcases hc with rfl | hc
    · simp only [isScalar, Bool.or_eq_true, decide_eq_true_eq, Bool.and_eq_true]
      simp_all [ok3, ok4, isCont]
      omega
    · exact ih (fun b hb' => hb b (by simp_all)) c hc

end Vt.Utf8
