/-
  Vt.Lemmas.TypeCell — typing the characters of one cell onto blank cells reproduces the cell.

  * `decode_encode` : valid UTF-8 is the concatenation of the encodings of its characters;
  * `appendAll_eq`  : a run of `Cell::append`s that never meets the 18-byte stop adds exactly the
    encodings of the appended characters to the live bytes;
  * `type_cell`     : first character (one or two columns) then its combining characters, on plain
    cells: the cell at the cursor gets the live bytes, the width flag and the pen; a wide character gets
    its continuation cell; the cursor advances by the width; nothing else changes.
-/
import Vt.Lemmas.Canvas
import Vt.Props.C19
namespace Vt.Recv
open Vt Vt.C19
set_option linter.unusedSimpArgs false
set_option maxRecDepth 4096

/-! ### decoding then encoding -/

open Utf8 in
theorem enc1 (b0 : Nat) (h : b0 < 128) : encode b0 = [b0] := by simp [encode, h]

open Utf8 in
theorem enc2 (b0 b1 : Nat) (h0 : 194 ≤ b0 ∧ b0 ≤ 223) (h1 : 128 ≤ b1 ∧ b1 ≤ 191) :
    encode ((b0 - 192) * 64 + (b1 - 128)) = [b0, b1] := by
  have hc1 : ¬ (b0 - 192) * 64 + (b1 - 128) < 128 := by omega
  have hc2 : (b0 - 192) * 64 + (b1 - 128) < 2048 := by omega
  simp only [encode, hc1, hc2, ↓reduceIte, List.cons.injEq, and_true]
  constructor <;> omega

open Utf8 in
theorem enc3 (b0 b1 b2 : Nat) (h0 : 224 ≤ b0 ∧ b0 ≤ 239)
    (h1 : (b0 = 224 ∧ 160 ≤ b1 ∧ b1 ≤ 191) ∨ (225 ≤ b0 ∧ 128 ≤ b1 ∧ b1 ≤ 191))
    (h2 : 128 ≤ b2 ∧ b2 ≤ 191) :
    encode ((b0 - 224) * 4096 + (b1 - 128) * 64 + (b2 - 128)) = [b0, b1, b2] := by
  have hc1 : ¬ (b0 - 224) * 4096 + (b1 - 128) * 64 + (b2 - 128) < 128 := by omega
  have hc2 : ¬ (b0 - 224) * 4096 + (b1 - 128) * 64 + (b2 - 128) < 2048 := by omega
  have hc3 : (b0 - 224) * 4096 + (b1 - 128) * 64 + (b2 - 128) < 65536 := by omega
  simp only [encode, hc1, hc2, hc3, ↓reduceIte, List.cons.injEq, and_true]
  refine ⟨?_, ?_, ?_⟩ <;> omega

open Utf8 in
theorem enc4 (b0 b1 b2 b3 : Nat) (h0 : 240 ≤ b0 ∧ b0 ≤ 244)
    (h1 : (b0 = 240 ∧ 144 ≤ b1 ∧ b1 ≤ 191) ∨ (241 ≤ b0 ∧ 128 ≤ b1 ∧ b1 ≤ 191))
    (h2 : 128 ≤ b2 ∧ b2 ≤ 191) (h3 : 128 ≤ b3 ∧ b3 ≤ 191) :
    encode ((b0 - 240) * 262144 + (b1 - 128) * 4096 + (b2 - 128) * 64 + (b3 - 128)) = [b0, b1, b2, b3] := by
  have hc1 : ¬ (b0 - 240) * 262144 + (b1 - 128) * 4096 + (b2 - 128) * 64 + (b3 - 128) < 128 := by omega
  have hc2 : ¬ (b0 - 240) * 262144 + (b1 - 128) * 4096 + (b2 - 128) * 64 + (b3 - 128) < 2048 := by omega
  have hc3 : ¬ (b0 - 240) * 262144 + (b1 - 128) * 4096 + (b2 - 128) * 64 + (b3 - 128) < 65536 := by omega
  simp only [encode, hc1, hc2, hc3, ↓reduceIte, List.cons.injEq, and_true]
  refine ⟨?_, ?_, ?_, ?_⟩ <;> omega

open Utf8 in
/-- valid UTF-8 is exactly the encodings of its characters, in order -/
theorem decode_encode (bs : List Nat) (h : (fromUtf8 bs).err = none) :
    (fromUtf8 bs).chars.flatMap encode = bs := by
  fun_induction fromUtf8 bs
  all_goals first
    | (simp [Res.stop] at h; done)
    | skip
  · rfl
  all_goals
    rename_i ih
    have h' : (fromUtf8 ‹List Nat›).err = none := by simpa [Res.cons] using h
    simp only [Res.cons, List.flatMap_cons, ih h']
    try simp only [Bool.and_eq_true, decide_eq_true_eq, isCont, ok3, ok4, Bool.or_eq_true, beq_iff_eq] at *
    first
      | (rw [enc1 _ (by omega)]; rfl)
      | (rw [enc2 _ _ (by omega) (by omega)]; rfl)
      | (rw [enc3 _ _ _ (by omega) (by omega) (by omega)]; rfl)
      | (rw [enc4 _ _ _ _ (by omega) (by omega) (by omega) (by omega)]; rfl)

/-! ### `Cell::set` and `Cell::append` on the live bytes -/

def liveOf (c : Cell) : List Nat := c.contents.take c.len

theorem encode_len (c : Nat) : 1 ≤ (Utf8.encode c).length ∧ (Utf8.encode c).length ≤ 4 :=
  ⟨Utf8.encode_length_pos c, Utf8.encode_length_le c⟩

/-- `Cell::set(c, a)`: the live bytes are the encoding of `c` -/
theorem set_facts (W : Nat → Option Nat) (cell : Cell) (c : Nat) (a : Attrs) (h22 : cell.contents.length = 22) :
    ∃ cell', cell.set W c a = .ok cell' ∧ cell'.len = (Utf8.encode c).length ∧ liveOf cell' = Utf8.encode c ∧
      cell'.contents.length = 22 ∧ cell'.wide = decide ((W c).getD 1 > 1) ∧ cell'.cont = false ∧ cell'.attrs = a := by
  have hl := encode_len c
  refine ⟨_, C05.cell_set_spec W cell c a (by omega), rfl, ?_, ?_, rfl, rfl, rfl⟩
  · simp [liveOf]
  · simp only [List.length_append, List.length_drop, h22]; omega

/-- the cell after one `append` below the stop -/
def appended (tc : Cell) (z : Nat) : Cell :=
  { tc with
    contents := tc.contents.take tc.len ++ Utf8.encode z ++ tc.contents.drop (tc.len + (Utf8.encode z).length)
    len := tc.len + (Utf8.encode z).length }

/-- one `Cell::append` below the 18-byte stop -/
theorem append_facts (tc : Cell) (z : Nat) (h22 : tc.contents.length = 22) (hn : 0 < tc.len) (h18 : tc.len < 18) :
    ∃ tc', tc.append z = .ok tc' ∧ tc'.len = tc.len + (Utf8.encode z).length ∧
      liveOf tc' = liveOf tc ++ Utf8.encode z ∧ tc'.contents.length = 22 ∧
      tc'.wide = tc.wide ∧ tc'.cont = tc.cont ∧ tc'.attrs = tc.attrs := by
  have hl := encode_len z
  have h1 : ¬ tc.len ≥ CONTENT_BYTES - 4 := by
    have : CONTENT_BYTES = 22 := rfl
    omega
  have h2 : (tc.len == 0) = false := by rw [beq_eq_false_iff_ne]; omega
  have h3 : (decide (tc.len ≤ CONTENT_BYTES) && decide (tc.len + (Utf8.encode z).length ≤ CONTENT_BYTES)) = true := by
    have : CONTENT_BYTES = 22 := rfl
    simp only [Bool.and_eq_true, decide_eq_true_eq]; omega
  have e : tc.append z = .ok (appended tc z) := by
    simp only [Cell.append, h1, ↓reduceIte, h2, Bool.false_eq_true, Cell.appendChar, h3]
    rfl
  refine ⟨appended tc z, e, rfl, ?_, ?_, rfl, rfl, rfl⟩
  · simp only [liveOf, appended]
    rw [List.take_append_of_le_length (by simp [List.length_take, h22]; omega)]
    rw [List.take_of_length_le (by simp [List.length_take, h22]; omega)]
  · simp only [appended, List.length_append, List.length_take, List.length_drop, h22]; omega

/-- every append of the run happens below the stop: `n` = live length before it -/
def prefixOk : Nat → List Nat → Prop
  | _, [] => True
  | n, z :: rest => n < 18 ∧ prefixOk (n + (Utf8.encode z).length) rest

/-- a run of appends that never meets the stop adds exactly the encodings -/
theorem appendAll_facts : ∀ (zs : List Nat) (tc : Cell), tc.contents.length = 22 → 0 < tc.len → prefixOk tc.len zs →
    ∃ tc', zs.foldlM (fun c z => c.append z) tc = .ok tc' ∧
      tc'.len = tc.len + (zs.flatMap Utf8.encode).length ∧
      liveOf tc' = liveOf tc ++ zs.flatMap Utf8.encode ∧ tc'.contents.length = 22 ∧
      tc'.wide = tc.wide ∧ tc'.cont = tc.cont ∧ tc'.attrs = tc.attrs
  | [], tc, h22, _, _ => ⟨tc, rfl, by simp, by simp, h22, rfl, rfl, rfl⟩
  | z :: zs, tc, h22, hn, hp => by
    obtain ⟨t1, e1, l1, v1, c1, w1, k1, a1⟩ := append_facts tc z h22 hn hp.1
    obtain ⟨t2, e2, l2, v2, c2, w2, k2, a2⟩ := appendAll_facts zs t1 c1 (by omega) (by rw [l1]; exact hp.2)
    refine ⟨t2, by simp only [List.foldlM_cons, e1, ok_bind, e2], ?_, ?_, c2, w2.trans w1, k2.trans k1, a2.trans a1⟩
    · rw [l2, l1]; simp [List.flatMap_cons]; omega
    · rw [v2, v1]; simp [List.flatMap_cons]

/-! ### typing the combining characters of a cell -/

variable (W : Nat → Option Nat)

/-- the grid with cell `t` of the cursor line replaced -/
def withCell (g : Grid) (row : Row) (t : Nat) (c : Cell) : Grid :=
  { g with rows := g.rows.set g.pos.row { row with cells := row.cells.set t c } }

/-- zero-width characters typed after a character: they all land in the same cell `t` -/
theorem type_zeros (a : Attrs) : ∀ (zs : List Nat) (g : Grid) (row : Row) (t : Nat) (tc : Cell),
    (∀ z ∈ zs, W z = some 0) → 0 < g.pos.col → g.pos.col ≤ g.size.cols →
    g.rows[g.pos.row]? = some row →
    (∃ prev, row.cells[g.pos.col - 1]? = some prev ∧
      ((prev.cont = true ∧ t = g.pos.col - 2 ∧ 2 ≤ g.pos.col) ∨ (prev.cont = false ∧ t = g.pos.col - 1))) →
    row.cells[t]? = some tc → tc.contents.length = 22 → 0 < tc.len → prefixOk tc.len zs →
    ∃ tc', zs.foldlM (fun c z => c.append z) tc = .ok tc' ∧
      typeChars W a zs g = .ok (withCell g row t tc')
  | [], g, row, t, tc, _, _, _, hrow, _, htc, _, _, _ => by
    refine ⟨tc, rfl, ?_⟩
    simp only [typeChars, List.foldlM_nil, pure_eq_ok, withCell, Except.ok.injEq]
    have h1 : row.cells.set t tc = row.cells := by
      apply List.ext_getElem?; intro j
      by_cases hj : t = j
      · subst hj
        have hl := getElem?_lt htc
        rw [List.getElem?_set_self hl, htc]
      · simp [hj]
    have h2 : g.rows.set g.pos.row row = g.rows := by
      apply List.ext_getElem?; intro j
      by_cases hj : g.pos.row = j
      · subst hj
        have hl := getElem?_lt hrow
        rw [List.getElem?_set_self hl, hrow]
      · simp [hj]
    rw [h1]
    obtain ⟨cs, w⟩ := row
    simp only at h2 ⊢
    rw [h2]
  | z :: zs, g, row, t, tc, hz, hc0, hc, hrow, hprev, htc, h22, hn, hp => by
    obtain ⟨prev, hpv, hcase⟩ := hprev
    obtain ⟨t1, e1, l1, _, c1, _, k1, _⟩ := append_facts tc z h22 hn hp.1
    have ht : t = if prev.cont then g.pos.col - 2 else g.pos.col - 1 := by
      rcases hcase with ⟨hk, ht, _⟩ | ⟨hk, ht⟩ <;> simp [hk, ht]
    have h2 : prev.cont = true → 2 ≤ g.pos.col := by
      intro hk; rcases hcase with ⟨_, _, h⟩ | ⟨hk', _⟩
      · exact h
      · rw [hk] at hk'; simp at hk'
    have estep := type_zero W (g := g) a z row prev tc t1 t (hz z (List.mem_cons_self ..)) hc0 hc hrow hpv ht h2 htc e1
    -- the state after the first append
    have hrowlt := getElem?_lt hrow
    have htlt := getElem?_lt htc
    have hrow1 : (withCell g row t t1).rows[(withCell g row t t1).pos.row]? =
        some { row with cells := row.cells.set t t1 } := by
      simp [withCell, hrowlt]
    have hprev1 : ∃ prev1, ({ row with cells := row.cells.set t t1 } : Row).cells[(withCell g row t t1).pos.col - 1]? = some prev1 ∧
        ((prev1.cont = true ∧ t = (withCell g row t t1).pos.col - 2 ∧ 2 ≤ (withCell g row t t1).pos.col) ∨
         (prev1.cont = false ∧ t = (withCell g row t t1).pos.col - 1)) := by
      rcases hcase with ⟨hk, ht', h2'⟩ | ⟨hk, ht'⟩
      · refine ⟨prev, ?_, Or.inl ⟨hk, ht', h2'⟩⟩
        simp only [withCell, List.getElem?_set]
        rw [if_neg (by omega)]; exact hpv
      · have : tc = prev := by rw [ht'] at htc; rw [htc] at hpv; exact Option.some.inj hpv
        refine ⟨t1, ?_, Or.inr ⟨by rw [k1, this]; exact hk, ht'⟩⟩
        simp only [withCell, List.getElem?_set]
        rw [if_pos ht']
        simp [htlt]
    have htc1 : ({ row with cells := row.cells.set t t1 } : Row).cells[t]? = some t1 := by simp [htlt]
    obtain ⟨tc', e2, e3⟩ := type_zeros a zs (withCell g row t t1) _ t t1 (fun x hx => hz x (List.mem_cons_of_mem _ hx))
      hc0 hc hrow1 hprev1 htc1 c1 (by omega) (by rw [l1]; exact hp.2)
    refine ⟨tc', by simp only [List.foldlM_cons, e1, ok_bind, e2], ?_⟩
    simp only [typeChars, List.foldlM_cons] at e3 ⊢
    rw [estep]
    simp only [ok_bind]
    have : ({ g with rows := g.rows.set g.pos.row { row with cells := row.cells.set t t1 } } : Grid) = withCell g row t t1 := rfl
    rw [this, e3]
    simp [withCell, List.set_set]

/-- what the typed cell looks like -/
def typedView (W : Nat → Option Nat) (a : Attrs) (f : Nat) (zs : List Nat) : View :=
  ⟨(Utf8.encode f ++ zs.flatMap Utf8.encode).length, decide ((W f).getD 1 > 1), false, a,
    Utf8.encode f ++ zs.flatMap Utf8.encode⟩

theorem typeChars_cons (a : Attrs) (f : Nat) (zs : List Nat) (g : Grid) :
    typeChars W a (f :: zs) g = (g.text W a f >>= fun g1 => typeChars W a zs g1) := by
  simp [typeChars, List.foldlM_cons]

/-- **a narrow cell**: its character and combining characters typed on a plain cell with room -/
theorem type_cell_narrow {g : Grid} (hu : g.size.cols ≤ 65535) (a : Attrs) (f : Nat) (zs : List Nat) (row : Row)
    (cell0 : Cell) (hw : (W f).getD 1 = 1) (hnc : ¬ (W f = none ∧ f < 256)) (hz : ∀ z ∈ zs, W z = some 0)
    (hcol : g.pos.col + 1 ≤ g.size.cols) (hrow : g.rows[g.pos.row]? = some row)
    (hcell0 : row.cells[g.pos.col]? = some cell0) (h0w : cell0.wide = false) (h0c : cell0.cont = false)
    (h22 : cell0.contents.length = 22) (hp : prefixOk (Utf8.encode f).length zs) :
    ∃ cellF, typeChars W a (f :: zs) g = .ok (typed g row (row.cells.set g.pos.col cellF) (g.pos.col + 1)) ∧
      view cellF = typedView W a f zs ∧ cellF.contents.length = 22 := by
  obtain ⟨c1, es, l1, v1, k1, w1, ct1, a1⟩ := set_facts W cell0 f a h22
  obtain ⟨c1', es', e1⟩ := type_narrow W hu a f row cell0 hw hnc hcol hrow hcell0 h0w h0c
  have : c1' = c1 := by rw [es] at es'; exact (Except.ok.inj es').symm
  subst this
  have hi0 := getElem?_lt hcell0
  have hrl := getElem?_lt hrow
  have hl := encode_len f
  obtain ⟨tc', e2, e3⟩ := type_zeros W a zs (typed g row (row.cells.set g.pos.col c1') (g.pos.col + 1))
    { row with cells := row.cells.set g.pos.col c1' } g.pos.col c1' hz (by simp [typed]) (by simp [typed]; omega)
    (by simp [typed, hrl])
    ⟨c1', by simp [typed, hi0], Or.inr ⟨ct1, by simp [typed]⟩⟩
    (by simp [hi0]) k1 (by omega) (by rw [l1]; exact hp)
  obtain ⟨tF, eF, lF, vF, kF, wF, ctF, aF⟩ := appendAll_facts zs c1' k1 (by omega) (by rw [l1]; exact hp)
  have : tF = tc' := by rw [e2] at eF; exact (Except.ok.inj eF).symm
  subst this
  refine ⟨tF, ?_, ?_, kF⟩
  · rw [typeChars_cons, e1]
    simp only [ok_bind, e3]
    simp [withCell, typed, List.set_set]
  · simp only [view, typedView, View.mk.injEq]
    refine ⟨?_, by rw [wF, w1], by rw [ctF, ct1], by rw [aF, a1], ?_⟩
    · rw [lF, l1]; simp
    · have : tF.contents.take tF.len = liveOf tF := rfl
      rw [this, vF, v1]

/-- **a wide cell**: typed on two plain cells with room for its width -/
theorem type_cell_wide {g : Grid} (hu : g.size.cols ≤ 65535) (a : Attrs) (f w : Nat) (zs : List Nat) (row : Row)
    (cell0 cell1 : Cell) (hw : min ((W f).getD 1) 2 = w) (hw2 : 2 ≤ w) (hnc : ¬ (W f = none ∧ f < 256))
    (hz : ∀ z ∈ zs, W z = some 0)
    (hcol : g.pos.col + w ≤ g.size.cols) (hrow : g.rows[g.pos.row]? = some row)
    (hcell0 : row.cells[g.pos.col]? = some cell0) (h0w : cell0.wide = false) (h0c : cell0.cont = false)
    (h22 : cell0.contents.length = 22)
    (hcell1 : row.cells[g.pos.col + 1]? = some cell1) (h1w : cell1.wide = false)
    (hp : prefixOk (Utf8.encode f).length zs) :
    ∃ cellF, typeChars W a (f :: zs) g =
        .ok (typed g row ((row.cells.set g.pos.col cellF).set (g.pos.col + 1) (contCell cell1)) (g.pos.col + 2)) ∧
      view cellF = typedView W a f zs ∧ cellF.contents.length = 22 := by
  obtain ⟨c1, es, l1, v1, k1, w1, ct1, a1⟩ := set_facts W cell0 f a h22
  obtain ⟨c1', es', e1⟩ := type_wide W hu a f w row cell0 cell1 hw hw2 hnc hcol hrow hcell0 h0w h0c hcell1 h1w
  have : c1' = c1 := by rw [es] at es'; exact (Except.ok.inj es').symm
  subst this
  have hi0 := getElem?_lt hcell0
  have hi1 := getElem?_lt hcell1
  have hrl := getElem?_lt hrow
  have hl := encode_len f
  obtain ⟨tc', e2, e3⟩ := type_zeros W a zs
    (typed g row ((row.cells.set g.pos.col c1').set (g.pos.col + 1) (contCell cell1)) (g.pos.col + 2))
    { row with cells := (row.cells.set g.pos.col c1').set (g.pos.col + 1) (contCell cell1) } g.pos.col c1' hz
    (by simp [typed]) (by simp [typed]; omega) (by simp [typed, hrl])
    ⟨contCell cell1, by simp [typed, hi1], Or.inl ⟨by simp [contCell, Cell.setWideContinuation], by simp [typed], by simp [typed]⟩⟩
    (by simp [hi0, List.getElem?_set]) k1 (by omega) (by rw [l1]; exact hp)
  obtain ⟨tF, eF, lF, vF, kF, wF, ctF, aF⟩ := appendAll_facts zs c1' k1 (by omega) (by rw [l1]; exact hp)
  have : tF = tc' := by rw [e2] at eF; exact (Except.ok.inj eF).symm
  subst this
  refine ⟨tF, ?_, ?_, kF⟩
  · rw [typeChars_cons, e1]
    simp only [ok_bind, e3]
    simp only [withCell, typed, List.set_set]
    congr 2
    rw [List.set_comm _ _ (by omega : g.pos.col + 1 ≠ g.pos.col), List.set_set]
  · simp only [view, typedView, View.mk.injEq]
    refine ⟨?_, by rw [wF, w1], by rw [ctF, ct1], by rw [aF, a1], ?_⟩
    · rw [lF, l1]; simp
    · have : tF.contents.take tF.len = liveOf tF := rfl
      rw [this, vF, v1]

end Vt.Recv

/-! ### re-typing a wide character over itself (the cursor fix-up of a pending-wrap cursor) -/
namespace Vt.Recv
open Vt Vt.C19
set_option linter.unusedSimpArgs false

variable (W : Nat → Option Nat)

/-- a character of width ≥ 2 typed over the first half of a wide character: the old second half becomes a
space, then the new second half — the two cells end up as after typing on blank cells -/
theorem type_wide_over {g : Grid} (hu : g.size.cols ≤ 65535) (a : Attrs) (c w : Nat) (row : Row) (cell0 cell1 : Cell)
    (hw : min ((W c).getD 1) 2 = w) (hw2 : 2 ≤ w) (hnc : ¬ (W c = none ∧ c < 256))
    (hcol : g.pos.col + w ≤ g.size.cols) (hrow : g.rows[g.pos.row]? = some row)
    (hcell0 : row.cells[g.pos.col]? = some cell0) (h0w : cell0.wide = true) (h0c : cell0.cont = false)
    (hcell1 : row.cells[g.pos.col + 1]? = some cell1) (hW32 : W 32 = some 1) :
    ∃ cell' sp, cell0.set W c a = .ok cell' ∧ cell1.set W 32 a = .ok sp ∧
      g.text W a c = .ok (typed g row ((row.cells.set g.pos.col cell').set (g.pos.col + 1) (contCell sp))
        (g.pos.col + 2)) := by
  have hl : (Utf8.encode c).length ≤ 22 := by have := C05.encode_length_le c; omega
  have hl32 : (Utf8.encode 32).length ≤ 22 := by have := C05.encode_length_le 32; omega
  refine ⟨_, _, C05.cell_set_spec W cell0 c a hl, C05.cell_set_spec W cell1 32 a hl32, ?_⟩
  have h1' : ((W c).isNone && decide (c < 256)) = false := by
    cases hn : (W c).isNone <;> simp_all
  have hcw : w ≤ g.size.cols := by omega
  have hlim : ¬ g.pos.col > g.size.cols - w := by omega
  have hw0 : (w == 0) = false := by rw [beq_eq_false_iff_ne]; omega
  have hgt : w > 1 := by omega
  have hi0 := getElem?_lt hcell0
  have hi1 := getElem?_lt hcell1
  have hspw : (decide ((W 32).getD 1 > 1)) = false := by rw [hW32]; rfl
  simp only [Grid.text, h1', Bool.false_eq_true, ↓reduceIte, hw, show ¬ (w > g.size.cols) by omega,
    Grid.wrapDecision, subM_ok hcw, ok_bind, hlim, pure_bind', pure_eq_ok, Grid.colWrap, hw0, Grid.textWide,
    Grid.modifyCurrentRow, modifyM, hrow, Grid.textWideRow, getM, hcell0, Cell.isWideContinuation, h0c,
    Cell.isWide, h0w, hcell1, C05.cell_set_spec W cell1 32 a hl32, List.getElem?_set, hi0, hi1,
    show ¬ (g.pos.col + 1 = g.pos.col) by omega, show ¬ (g.pos.col = g.pos.col + 1) by omega,
    C05.cell_set_spec W cell0 c a hl, hgt, List.length_set, hspw]
  have e1 : satAddU16 (satAddU16 g.pos.col 1) 1 = g.pos.col + 2 := by
    simp only [satAddU16, U16_MAX]; omega
  simp [typed, contCell, Grid.colInc, e1, hspw]
  rw [List.set_comm _ _ (by omega : g.pos.col + 1 ≠ g.pos.col), List.set_set]

theorem view_contCell' (c : Cell) : view (contCell c) = ⟨0, false, true, Attrs.default, []⟩ := by
  simp [view, contCell, Cell.clear, Cell.setWideContinuation]

/-- **a wide cell re-typed over itself** -/
theorem type_cell_wide_over {g : Grid} (hu : g.size.cols ≤ 65535) (a : Attrs) (f w : Nat) (zs : List Nat) (row : Row)
    (cell0 cell1 : Cell) (hw : min ((W f).getD 1) 2 = w) (hw2 : 2 ≤ w) (hnc : ¬ (W f = none ∧ f < 256))
    (hz : ∀ z ∈ zs, W z = some 0)
    (hcol : g.pos.col + w ≤ g.size.cols) (hrow : g.rows[g.pos.row]? = some row)
    (hcell0 : row.cells[g.pos.col]? = some cell0) (h0w : cell0.wide = true) (h0c : cell0.cont = false)
    (h22 : cell0.contents.length = 22)
    (hcell1 : row.cells[g.pos.col + 1]? = some cell1) (h221 : cell1.contents.length = 22) (hW32 : W 32 = some 1)
    (hp : prefixOk (Utf8.encode f).length zs) :
    ∃ cellF cc, typeChars W a (f :: zs) g =
        .ok (typed g row ((row.cells.set g.pos.col cellF).set (g.pos.col + 1) cc) (g.pos.col + 2)) ∧
      view cellF = typedView W a f zs ∧ cellF.contents.length = 22 ∧
      view cc = ⟨0, false, true, Attrs.default, []⟩ ∧ cc.contents.length = 22 := by
  obtain ⟨c1, es, l1, v1, k1, w1, ct1, a1⟩ := set_facts W cell0 f a h22
  obtain ⟨sp0, esp, _, _, ksp, _, _, _⟩ := set_facts W cell1 32 a h221
  obtain ⟨c1', sp, es', esp', e1⟩ := type_wide_over W hu a f w row cell0 cell1 hw hw2 hnc hcol hrow hcell0 h0w h0c hcell1 hW32
  have : c1' = c1 := by rw [es] at es'; exact (Except.ok.inj es').symm
  subst this
  have : sp = sp0 := by rw [esp] at esp'; exact (Except.ok.inj esp').symm
  subst this
  have hi0 := getElem?_lt hcell0
  have hi1 := getElem?_lt hcell1
  have hrl := getElem?_lt hrow
  have hl := encode_len f
  obtain ⟨tc', e2, e3⟩ := type_zeros W a zs
    (typed g row ((row.cells.set g.pos.col c1').set (g.pos.col + 1) (contCell sp)) (g.pos.col + 2))
    { row with cells := (row.cells.set g.pos.col c1').set (g.pos.col + 1) (contCell sp) } g.pos.col c1' hz
    (by simp [typed]) (by simp [typed]; omega) (by simp [typed, hrl])
    ⟨contCell sp, by simp [typed, hi1], Or.inl ⟨by simp [contCell, Cell.setWideContinuation], by simp [typed], by simp [typed]⟩⟩
    (by simp [hi0, List.getElem?_set]) k1 (by omega) (by rw [l1]; exact hp)
  obtain ⟨tF, eF, lF, vF, kF, wF, ctF, aF⟩ := appendAll_facts zs c1' k1 (by omega) (by rw [l1]; exact hp)
  have : tF = tc' := by rw [e2] at eF; exact (Except.ok.inj eF).symm
  subst this
  refine ⟨tF, contCell sp, ?_, ?_, kF, view_contCell' sp, ?_⟩
  · rw [typeChars_cons, e1]
    simp only [ok_bind, e3]
    simp only [withCell, typed, List.set_set]
    congr 2
    rw [List.set_comm _ _ (by omega : g.pos.col + 1 ≠ g.pos.col), List.set_set]
  · simp only [view, typedView, View.mk.injEq]
    refine ⟨?_, by rw [wF, w1], by rw [ctF, ct1], by rw [aF, a1], ?_⟩
    · rw [lF, l1]; simp
    · have : tF.contents.take tF.len = liveOf tF := rfl
      rw [this, vF, v1]
  · simp [contCell, Cell.clear, Cell.setWideContinuation, ksp]

end Vt.Recv
