/-
  Vt.Lemmas.GridP — a per-line predicate `P` is kept by every operation of `grid.rs` that only moves lines,
  drops them, flags them unwrapped or adds blank ones (partial-correctness form), and by `modifyCurrentRow` with
  a function that keeps it.  Instantiated for the per-cell conditions (`AllX`) and for the wrap-flag condition.
-/
import Vt.Lemmas.RowX
namespace Vt
set_option linter.unusedSimpArgs false

structure RowPred (P : Row → Prop) : Prop where
  new : ∀ n, P (Row.new n)
  unwrap : ∀ r, P r → P (r.wrap false)

def GridP (P : Row → Prop) (g : Grid) : Prop := (∀ r ∈ g.rows, P r) ∧ (∀ r ∈ g.scrollback, P r)

variable {P : Row → Prop}

theorem gridP_same {g g' : Grid} (h : GridP P g) (hr : g'.rows = g.rows) (hs : g'.scrollback = g.scrollback) :
    GridP P g' := by
  unfold GridP; rw [hr, hs]; exact h

theorem gridP_rows {g : Grid} (h : GridP P g) {rows' : List Row} (hr : ∀ r ∈ rows', P r) :
    GridP P { g with rows := rows' } := ⟨hr, h.2⟩

theorem mem_insertM {α} {site : Nat} {l l' : List α} {i : Nat} {x y : α} (e : insertM site l i x = .ok l')
    (hy : y ∈ l') : y = x ∨ y ∈ l := by
  unfold insertM at e
  split at e
  · simp only [pure_eq_ok, Except.ok.injEq] at e
    rw [← e] at hy
    rcases List.mem_append.mp hy with hy | hy
    · exact Or.inr (List.mem_of_mem_take hy)
    · rcases List.mem_cons.mp hy with rfl | hy
      · exact Or.inl rfl
      · exact Or.inr (List.mem_of_mem_drop hy)
  · simp [panic] at e

theorem mem_removeM {α} {site : Nat} {l l' : List α} {i : Nat} {x y : α} (e : removeM site l i = .ok (x, l')) :
    x ∈ l ∧ (y ∈ l' → y ∈ l) := by
  unfold removeM at e
  cases hc : l[i]? with
  | none => rw [hc] at e; simp [panic] at e
  | some z =>
    rw [hc] at e
    simp only [pure_eq_ok, Except.ok.injEq, Prod.mk.injEq] at e
    rw [← e.1, ← e.2]
    exact ⟨List.mem_of_getElem? hc, fun hy => List.mem_of_mem_eraseIdx hy⟩

theorem all_modifyM {α} {Q : α → Prop} {site : Nat} {l l' : List α} {i : Nat} {f : α → M α}
    (h : ∀ x ∈ l, Q x) (hf : ∀ x x', x ∈ l → f x = .ok x' → Q x') (e : modifyM site l i f = .ok l') :
    ∀ x ∈ l', Q x := by
  unfold modifyM at e
  cases hc : l[i]? with
  | none => rw [hc] at e; simp [panic] at e
  | some x =>
    rw [hc] at e
    simp only at e
    cases hy : f x with
    | error err => rw [hy] at e; simp at e
    | ok y =>
      rw [hy] at e
      simp only [ok_bind, pure_eq_ok, Except.ok.injEq] at e
      rw [← e]
      intro z hz
      rcases List.mem_or_eq_of_mem_set hz with hz | rfl
      · exact h z hz
      · exact hf x z (List.mem_of_getElem? hc) hy

theorem gridP_iterateM {Q : Grid → Prop} {f : Grid → M Grid} (hf : ∀ g g', Q g → f g = .ok g' → Q g') :
    ∀ (n : Nat) (g g' : Grid), Q g → iterateM n f g = .ok g' → Q g'
  | 0, g, g', h, e => by
    simp only [iterateM, pure_eq_ok, Except.ok.injEq] at e
    rw [← e]; exact h
  | n + 1, g, g', h, e => by
    simp only [iterateM] at e
    cases h1 : f g with
    | error err => rw [h1] at e; simp at e
    | ok g1 =>
      rw [h1] at e
      simp only [ok_bind] at e
      exact gridP_iterateM hf n g1 g' (hf g g1 h h1) e

/-! ### lines inserted, deleted, scrolled -/

/-- one step of IL / SD: remove the line at the bottom of the region, insert a blank one, unwrap -/
theorem gridP_down_step (hP : RowPred P) {g g' : Grid} (h : GridP P g) (s1 s2 s3 at_ : Nat)
    (e : (do
      let (_, rows) ← removeM s1 g.rows g.scrollBottom
      let rows ← insertM s2 rows at_ g.newRow
      let rows ← modifyM s3 rows g.scrollBottom (fun r => pure (r.wrap false))
      pure { g with rows := rows } : M Grid) = .ok g') : GridP P g' := by
  cases h1 : removeM s1 g.rows g.scrollBottom with
  | error err => rw [h1] at e; simp at e
  | ok p1 =>
    obtain ⟨x, rows1⟩ := p1
    rw [h1] at e
    simp only [ok_bind] at e
    cases h2 : insertM s2 rows1 at_ g.newRow with
    | error err => rw [h2] at e; simp at e
    | ok rows2 =>
      rw [h2] at e
      simp only [ok_bind] at e
      cases h3 : modifyM s3 rows2 g.scrollBottom (fun r => pure (r.wrap false)) with
      | error err => rw [h3] at e; simp at e
      | ok rows3 =>
        rw [h3] at e
        simp only [ok_bind, pure_eq_ok, Except.ok.injEq] at e
        rw [← e]
        refine gridP_rows h ?_
        have hr2 : ∀ r ∈ rows2, P r := by
          intro r hr
          rcases mem_insertM h2 hr with rfl | hr
          · exact hP.new _
          · exact h.1 r ((mem_removeM (y := r) h1).2 hr)
        exact all_modifyM hr2 (fun r r' hr hrr => by
          simp only [pure_eq_ok, Except.ok.injEq] at hrr
          rw [← hrr]; exact hP.unwrap r (hr2 r hr)) h3

theorem gridP_insertLines (hP : RowPred P) {g g' : Grid} (h : GridP P g) (n : Nat) (e : g.insertLines n = .ok g') :
    GridP P g' := by
  unfold Grid.insertLines at e
  refine gridP_iterateM (Q := GridP P) (fun g1 g2 h1 e1 => ?_) _ g g' h e
  exact gridP_down_step hP h1 430 431 432 g1.pos.row e1

theorem gridP_scrollDown (hP : RowPred P) {g g' : Grid} (h : GridP P g) (n : Nat) (e : g.scrollDown n = .ok g') :
    GridP P g' := by
  unfold Grid.scrollDown at e
  exact gridP_iterateM (Q := GridP P) (fun g1 g2 h1 e1 => gridP_down_step hP h1 440 441 442 g1.scrollTop e1) _ g g' h e

/-- one step of DL / SU on the lines: insert a blank line below the region, remove one -/
theorem rows_up_step (hP : RowPred P) {g : Grid} (h : ∀ r ∈ g.rows, P r) {site1 site2 at_ : Nat} {x : Row} {rows2 rows1 : List Row}
    (h1 : insertM site1 g.rows (g.scrollBottom + 1) g.newRow = .ok rows1)
    (h2 : removeM site2 rows1 at_ = .ok (x, rows2)) : P x ∧ ∀ r ∈ rows2, P r := by
  have hr1 : ∀ r ∈ rows1, P r := by
    intro r hr
    rcases mem_insertM h1 hr with rfl | hr
    · exact hP.new _
    · exact h r hr
  exact ⟨hr1 x (mem_removeM (y := x) h2).1, fun r hr => hr1 r ((mem_removeM (y := r) h2).2 hr)⟩

theorem gridP_deleteLines (hP : RowPred P) {g g' : Grid} (h : GridP P g) (n : Nat) (e : g.deleteLines n = .ok g') :
    GridP P g' := by
  unfold Grid.deleteLines at e
  cases hd : subM 433 g.size.rows g.pos.row with
  | error err => rw [hd] at e; simp at e
  | ok d =>
    rw [hd] at e
    simp only [ok_bind] at e
    refine gridP_iterateM (Q := GridP P) (fun g1 g2 h1 e1 => ?_) _ g g' h e
    cases h2 : insertM 434 g1.rows (g1.scrollBottom + 1) g1.newRow with
    | error err => rw [h2] at e1; simp at e1
    | ok rows1 =>
      rw [h2] at e1
      simp only [ok_bind] at e1
      cases h3 : removeM 435 rows1 g1.pos.row with
      | error err => rw [h3] at e1; simp at e1
      | ok p =>
        obtain ⟨x, rows2⟩ := p
        rw [h3] at e1
        simp only [ok_bind, pure_eq_ok, Except.ok.injEq] at e1
        rw [← e1]
        exact gridP_rows h1 (rows_up_step hP h1.1 h2 h3).2

theorem gridP_scrollUp (hP : RowPred P) {g g' : Grid} (h : GridP P g) (n : Nat) (e : g.scrollUp n = .ok g') :
    GridP P g' := by
  unfold Grid.scrollUp at e
  cases hd : subM 437 g.size.rows g.scrollTop with
  | error err => rw [hd] at e; simp at e
  | ok d =>
    rw [hd] at e
    simp only [ok_bind] at e
    refine gridP_iterateM (Q := GridP P) (fun g1 g2 h1 e1 => ?_) _ g g' h e
    cases h2 : insertM 438 g1.rows (g1.scrollBottom + 1) g1.newRow with
    | error err => rw [h2] at e1; simp at e1
    | ok rows1 =>
      rw [h2] at e1
      simp only [ok_bind] at e1
      cases h3 : removeM 439 rows1 g1.scrollTop with
      | error err => rw [h3] at e1; simp at e1
      | ok p =>
        obtain ⟨x, rows2⟩ := p
        rw [h3] at e1
        simp only [ok_bind] at e1
        obtain ⟨hx, hr2⟩ := rows_up_step hP h1.1 h2 h3
        have hbase : GridP P { g1 with rows := rows2 } := gridP_rows h1 hr2
        split at e1
        · cases ha : ({ g1 with rows := rows2 } : Grid).scrollRegionActive with
          | error err => rw [ha] at e1; simp at e1
          | ok active =>
            rw [ha] at e1
            simp only [ok_bind] at e1
            split at e1
            · simp only [pure_eq_ok, Except.ok.injEq] at e1
              rw [← e1]
              refine ⟨hr2, ?_⟩
              intro r hr
              have := List.mem_of_mem_drop hr
              rcases List.mem_append.mp this with hr' | hr'
              · exact h1.2 r hr'
              · simp only [List.mem_singleton] at hr'; rw [hr']; exact hx
            · simp only [pure_eq_ok, Except.ok.injEq] at e1
              rw [← e1]; exact hbase
        · simp only [pure_eq_ok, Except.ok.injEq] at e1
          rw [← e1]; exact hbase

/-! ### the cursor: nothing but `pos` / `savedPos` / the region / origin mode changes -/

theorem rowClampTop_rows (g : Grid) (b : Bool) : (g.rowClampTop b).1.rows = g.rows ∧ (g.rowClampTop b).1.scrollback = g.scrollback ∧
    (g.rowClampTop b).1.scrollbackLen = g.scrollbackLen ∧ (g.rowClampTop b).1.scrollTop = g.scrollTop ∧
    (g.rowClampTop b).1.scrollBottom = g.scrollBottom ∧ (g.rowClampTop b).1.size = g.size := by
  unfold Grid.rowClampTop; split <;> simp

theorem rowClampBottom_rows {g : Grid} {b : Bool} {p : Grid × Nat} (e : g.rowClampBottom b = .ok p) :
    p.1.rows = g.rows ∧ p.1.scrollback = g.scrollback ∧ p.1.scrollbackLen = g.scrollbackLen ∧
    p.1.scrollTop = g.scrollTop ∧ p.1.scrollBottom = g.scrollBottom ∧ p.1.size = g.size := by
  unfold Grid.rowClampBottom at e
  cases b with
  | true =>
    simp only [↓reduceIte, pure_bind'] at e
    split at e <;> (simp only [pure_eq_ok, Except.ok.injEq] at e; rw [← e]; simp)
  | false =>
    simp only [Bool.false_eq_true, ↓reduceIte] at e
    obtain ⟨bottom, _, e2⟩ := bind_eq_ok.mp e
    split at e2 <;> (simp only [pure_eq_ok, Except.ok.injEq] at e2; rw [← e2]; simp)

theorem colClamp_rows {g g' : Grid} (e : g.colClamp = .ok g') : g'.rows = g.rows ∧ g'.scrollback = g.scrollback := by
  unfold Grid.colClamp at e
  cases hb : subM 405 g.size.cols 1 with
  | error err => rw [hb] at e; simp at e
  | ok b =>
    rw [hb] at e
    simp only [ok_bind, pure_eq_ok, Except.ok.injEq] at e
    rw [← e]; split <;> simp

theorem rowClamp_rows {g g' : Grid} (e : g.rowClamp = .ok g') : g'.rows = g.rows ∧ g'.scrollback = g.scrollback := by
  unfold Grid.rowClamp at e
  cases hb : subM 404 g.size.rows 1 with
  | error err => rw [hb] at e; simp at e
  | ok b =>
    rw [hb] at e
    simp only [ok_bind, pure_eq_ok, Except.ok.injEq] at e
    rw [← e]; split <;> simp

theorem setPos_rows {g g' : Grid} {p : Pos} (e : g.setPos p = .ok g') : g'.rows = g.rows ∧ g'.scrollback = g.scrollback := by
  unfold Grid.setPos at e
  simp only at e
  generalize hg0 : ({ g with pos := if g.originMode = true then { p with row := satAddU16 p.row g.scrollTop } else p } : Grid) = g0 at e
  have h0 : g0.rows = g.rows ∧ g0.scrollback = g.scrollback := by rw [← hg0]; exact ⟨rfl, rfl⟩
  have h1 := rowClampTop_rows g0 g.originMode
  obtain ⟨p2, hb, e2⟩ := bind_eq_ok.mp e
  have h2 := rowClampBottom_rows hb
  have h3 := colClamp_rows e2
  exact ⟨by rw [h3.1, h2.1, h1.1, h0.1], by rw [h3.2, h2.2.1, h1.2.1, h0.2]⟩

end Vt
