/-
  Vt.Lemmas.GridInv — the grid operations of grid.rs never fail on a grid satisfying the
  invariant and preserve it (the inductive step of C13, and the totality of C03).
-/
import Vt.Lemmas.RowOps
import Vt.Lemmas.Loops
namespace Vt
set_option linter.unusedSimpArgs false

variable (W : Nat → Option Nat)

/-- a row of the right width satisfying the row invariant -/
def RowGood (cols : Nat) (r : Row) : Prop := r.cells.length = cols ∧ rowOk W r = true

theorem rowGood_cells {cols : Nat} {r : Row} (h : RowGood W cols r) : CellsInv W r.cells :=
  ((rowOk_iff W r).mp h.2).2

theorem rowGood_of {cols : Nat} {r : Row} (hl : r.cells.length = cols) (hc : 1 ≤ cols)
    (hi : CellsInv W r.cells) : RowGood W cols r :=
  ⟨hl, (rowOk_iff W r).mpr ⟨by omega, hi⟩⟩

/-- replacing the rows by as many good rows keeps the grid invariant -/
theorem gridInv_rows {g : Grid} {un : Bool} (h : GridInv W g un) (rows' : List Row)
    (hlen : rows'.length = g.rows.length) (hgood : ∀ r ∈ rows', RowGood W g.size.cols r) :
    GridInv W { g with rows := rows' } un :=
  { h with
    rows_len := by
      rcases h.rows_len with ⟨hu, he⟩ | hl
      · left; refine ⟨hu, ?_⟩
        simp only
        rw [he] at hlen
        exact List.eq_nil_of_length_eq_zero (by simpa using hlen)
      · right; simp only; omega
    row_ok := hgood }

theorem gridInv_setRow {g : Grid} {un : Bool} (h : GridInv W g un) (i : Nat) (r' : Row)
    (hr : RowGood W g.size.cols r') : GridInv W { g with rows := g.rows.set i r' } un := by
  refine gridInv_rows W h _ (by simp) ?_
  intro r hmem
  rcases mem_set_cases hmem with rfl | hmem
  · exact hr
  · exact h.row_ok r hmem

/-- cleared cells form a well-formed row -/
theorem cellsInv_map_clear {cs : List Cell} (a : Attrs) (h : CellsInv W cs) :
    CellsInv W (cs.map (fun c => c.clear a)) := by
  constructor
  · intro x hx
    obtain ⟨c, hc, rfl⟩ := List.mem_map.mp hx
    exact cellOk_clear W c a (h.cells_ok c hc)
  · clear h
    induction cs with
    | nil => rfl
    | cons c rest ih => simp [pairThrough, Cell.clear]; simpa [Cell.clear] using ih

theorem rowGood_clear {cols : Nat} {r : Row} (a : Attrs) (h : RowGood W cols r) :
    RowGood W cols (r.clear a) := by
  have hc : 1 ≤ cols := by
    have := ((rowOk_iff W r).mp h.2).1; rw [h.1] at this; exact this
  exact rowGood_of W (by simp [Row.clear, h.1]) hc (cellsInv_map_clear W a (rowGood_cells W h))

theorem rowGood_wrap {cols : Nat} {r : Row} (b : Bool) (h : RowGood W cols r) :
    RowGood W cols (r.wrap b) := by
  simpa [RowGood, Row.wrap, rowOk] using h

/-- ED 2 -/
theorem gridInv_eraseAll {g : Grid} {un : Bool} (h : GridInv W g un) (a : Attrs) :
    GridInv W (g.eraseAll a) un := by
  refine gridInv_rows W h _ (by simp) ?_
  intro r hmem
  obtain ⟨r0, hr0, rfl⟩ := List.mem_map.mp hmem
  exact rowGood_clear W a (h.row_ok r0 hr0)

/-- erasing the columns `[lo, hi)` of a good row -/
theorem eraseRange_ok {cols : Nat} {r : Row} (a : Attrs) (lo hi : Nat) (hhi : hi ≤ cols)
    (h : RowGood W cols r) :
    ∃ r', forRange lo hi (fun col r => r.erase col a) r = .ok r' ∧ RowGood W cols r' := by
  have hc : 1 ≤ cols := by
    have := ((rowOk_iff W r).mp h.2).1; rw [h.1] at this; exact this
  refine forRange_inv (fun r => RowGood W cols r) _ lo hi r h ?_
  intro i r _ hi' hr
  have hlt : i < r.cells.length := by rw [hr.1]; omega
  have hget := List.getElem?_eq_getElem hlt
  refine ⟨_, erase_eq W (rowGood_cells W hr) hget, ?_⟩
  exact rowGood_of W (by simp [eraseCells_length, hr.1]) hc (eraseCells_inv W i a (rowGood_cells W hr))

/-- `current_row_mut()` exists and a good replacement keeps the invariant -/
theorem modifyCurrentRow_ok {g : Grid} (h : GridInv W g true) (hlen : g.rows.length = g.size.rows)
    (f : Row → M Row) (hf : ∀ r, RowGood W g.size.cols r → ∃ r', f r = .ok r' ∧ RowGood W g.size.cols r') :
    ∃ g', g.modifyCurrentRow f = .ok g' ∧ GridInv W g' true ∧ g'.rows.length = g'.size.rows ∧
      g'.size = g.size ∧ g'.pos = g.pos ∧ g'.scrollbackLen = g.scrollbackLen ∧
      g'.scrollback = g.scrollback ∧ g'.scrollbackOffset = g.scrollbackOffset ∧
      g'.scrollTop = g.scrollTop ∧ g'.scrollBottom = g.scrollBottom := by
  have hrow : g.pos.row < g.rows.length := by rw [hlen]; exact h.pos_row
  have hget := List.getElem?_eq_getElem hrow
  obtain ⟨r', hr', hgood⟩ := hf _ (h.row_ok _ (List.getElem_mem hrow))
  refine ⟨{ g with rows := g.rows.set g.pos.row r' }, ?_, gridInv_setRow W h _ _ hgood, by simpa using hlen,
    rfl, rfl, rfl, rfl, rfl, rfl, rfl⟩
  simp [Grid.modifyCurrentRow, modifyM, hget, hr']

/-- what a cell-level grid operation keeps -/
structure GridKeeps (g g' : Grid) : Prop where
  size : g'.size = g.size
  rows_len : g'.rows.length = g.rows.length
  sb_len : g'.scrollbackLen = g.scrollbackLen

/-- EL 0 -/
theorem eraseRowForward_ok {g : Grid} (h : GridInv W g true) (hlen : g.rows.length = g.size.rows) (a : Attrs) :
    ∃ g', g.eraseRowForward a = .ok g' ∧ GridInv W g' true ∧ g'.rows.length = g'.size.rows ∧
      g'.size = g.size ∧ g'.scrollbackLen = g.scrollbackLen := by
  obtain ⟨g', h1, h2, h3, h4, _, h5, _⟩ := modifyCurrentRow_ok W h hlen
    (fun row => forRange g.pos.col g.size.cols (fun col r => r.erase col a) row)
    (fun r hr => eraseRange_ok W a _ _ (Nat.le_refl _) hr)
  exact ⟨g', h1, h2, h3, h4, h5⟩

/-- EL 1 -/
theorem eraseRowBackward_ok {g : Grid} (h : GridInv W g true) (hlen : g.rows.length = g.size.rows) (a : Attrs) :
    ∃ g', g.eraseRowBackward a = .ok g' ∧ GridInv W g' true ∧ g'.rows.length = g'.size.rows ∧
      g'.size = g.size ∧ g'.scrollbackLen = g.scrollbackLen := by
  simp only [Grid.eraseRowBackward, subM_ok h.cols_pos, ok_bind]
  obtain ⟨g', h1, h2, h3, h4, _, h5, _⟩ := modifyCurrentRow_ok W h hlen
    (fun row => forRange 0 (min g.pos.col (g.size.cols - 1) + 1) (fun col r => r.erase col a) row)
    (fun r hr => eraseRange_ok W a _ _ (by have := h.cols_pos; omega) hr)
  exact ⟨g', h1, h2, h3, h4, h5⟩

/-- EL 2 -/
theorem eraseRow_ok {g : Grid} (h : GridInv W g true) (hlen : g.rows.length = g.size.rows) (a : Attrs) :
    ∃ g', g.eraseRow a = .ok g' ∧ GridInv W g' true ∧ g'.rows.length = g'.size.rows ∧
      g'.size = g.size ∧ g'.scrollbackLen = g.scrollbackLen := by
  obtain ⟨g', h1, h2, h3, h4, _, h5, _⟩ := modifyCurrentRow_ok W h hlen
    (fun r => pure (r.clear a)) (fun r hr => ⟨_, rfl, rowGood_clear W a hr⟩)
  exact ⟨g', h1, h2, h3, h4, h5⟩

/-- ECH n, for every n -/
theorem eraseCells_ok {g : Grid} (h : GridInv W g true) (hlen : g.rows.length = g.size.rows)
    (count : Nat) (a : Attrs) :
    ∃ g', g.eraseCells count a = .ok g' ∧ GridInv W g' true ∧ g'.rows.length = g'.size.rows ∧
      g'.size = g.size ∧ g'.scrollbackLen = g.scrollbackLen := by
  obtain ⟨g', h1, h2, h3, h4, _, h5, _⟩ := modifyCurrentRow_ok W h hlen
    (fun row => forRange g.pos.col (min (satAddU16 g.pos.col count) g.size.cols)
      (fun col r => r.erase col a) row)
    (fun r hr => eraseRange_ok W a _ _ (Nat.min_le_right _ _) hr)
  exact ⟨g', h1, h2, h3, h4, h5⟩

/-- ED 0 -/
theorem eraseAllForward_ok {g : Grid} (h : GridInv W g true) (hlen : g.rows.length = g.size.rows) (a : Attrs) :
    ∃ g', g.eraseAllForward a = .ok g' ∧ GridInv W g' true ∧ g'.rows.length = g'.size.rows ∧
      g'.size = g.size ∧ g'.scrollbackLen = g.scrollbackLen := by
  simp only [Grid.eraseAllForward]
  generalize hrows1 : g.rows.take (g.pos.row + 1) ++ (g.rows.drop (g.pos.row + 1)).map (fun (r : Row) => r.clear a) = rows1
  have hrl : rows1.length = g.rows.length := by subst hrows1; simp [List.length_take]; omega
  have hg1 : GridInv W { g with rows := rows1 } true := by
    subst hrows1
    refine gridInv_rows W h _ (by simp [List.length_take]; omega) ?_
    intro r hr
    rcases List.mem_append.mp hr with hr | hr
    · exact h.row_ok r (List.mem_of_mem_take hr)
    · obtain ⟨r0, hr0, rfl⟩ := List.mem_map.mp hr
      exact rowGood_clear W a (h.row_ok r0 (List.mem_of_mem_drop hr0))
  obtain ⟨g', h1, h2, h3, h4, h5⟩ := eraseRowForward_ok W hg1 (by simp [hrl, hlen]) a
  exact ⟨g', h1, h2, h3, h4, h5⟩

/-- ED 1 -/
theorem eraseAllBackward_ok {g : Grid} (h : GridInv W g true) (hlen : g.rows.length = g.size.rows) (a : Attrs) :
    ∃ g', g.eraseAllBackward a = .ok g' ∧ GridInv W g' true ∧ g'.rows.length = g'.size.rows ∧
      g'.size = g.size ∧ g'.scrollbackLen = g.scrollbackLen := by
  simp only [Grid.eraseAllBackward]
  generalize hrows1 : (g.rows.take g.pos.row).map (fun (r : Row) => r.clear a) ++ g.rows.drop g.pos.row = rows1
  have hrl : rows1.length = g.rows.length := by subst hrows1; simp [List.length_take]; omega
  have hg1 : GridInv W { g with rows := rows1 } true := by
    subst hrows1
    refine gridInv_rows W h _ (by simp [List.length_take]; omega) ?_
    intro r hr
    rcases List.mem_append.mp hr with hr | hr
    · obtain ⟨r0, hr0, rfl⟩ := List.mem_map.mp hr
      exact rowGood_clear W a (h.row_ok r0 (List.mem_of_mem_take hr0))
    · exact h.row_ok r (List.mem_of_mem_drop hr)
  obtain ⟨g', h1, h2, h3, h4, h5⟩ := eraseRowBackward_ok W hg1 (by simp [hrl, hlen]) a
  exact ⟨g', h1, h2, h3, h4, h5⟩

end Vt

namespace Vt
set_option linter.unusedSimpArgs false
variable (W : Nat → Option Nat)

theorem removeM_ok {α} (site : Nat) (l : List α) (i : Nat) (h : i < l.length) :
    removeM site l i = .ok (l[i], l.eraseIdx i) := by
  simp [removeM, List.getElem?_eq_getElem h]

theorem insertM_ok {α} (site : Nat) (l : List α) (i : Nat) (x : α) (h : i ≤ l.length) :
    insertM site l i x = .ok (l.take i ++ x :: l.drop i) := by
  simp [insertM, h]

theorem modifyM_pure_ok {α} (site : Nat) (l : List α) (i : Nat) (h : i < l.length) (g : α → α) :
    modifyM site l i (fun r => pure (g r)) = .ok (l.set i (g l[i])) := by
  simp [modifyM, List.getElem?_eq_getElem h]

theorem mem_insert_cases {α} {l : List α} {i : Nat} {x y : α} (h : y ∈ l.take i ++ x :: l.drop i) :
    y = x ∨ y ∈ l := by
  rcases List.mem_append.mp h with h | h
  · exact Or.inr (List.mem_of_mem_take h)
  · rcases List.mem_cons.mp h with h | h
    · exact Or.inl h
    · exact Or.inr (List.mem_of_mem_drop h)

theorem rowGood_new (cols : Nat) (h : 1 ≤ cols) : RowGood W cols (Row.new cols) := by
  refine rowGood_of W (by simp [Row.new]) h ?_
  constructor
  · intro c hc
    simp only [Row.new, List.mem_replicate] at hc
    rw [hc.2]; simp [cellOk, Cell.new, Utf8.fromUtf8]
  · simp only [Row.new]
    induction cols with
    | zero => rfl
    | succ n ih =>
      cases n with
      | zero => simp [pairThrough, Cell.new]
      | succ m => simp [List.replicate_succ, pairThrough, Cell.new] at ih ⊢; exact ih

/-- the state the line-shifting loops keep -/
structure LinesInv (g0 g : Grid) : Prop where
  inv : GridInv W g true
  len : g.rows.length = g.size.rows
  size : g.size = g0.size
  pos : g.pos = g0.pos
  top : g.scrollTop = g0.scrollTop
  bottom : g.scrollBottom = g0.scrollBottom
  cap : g.scrollbackLen = g0.scrollbackLen

theorem linesInv_refl {g : Grid} (h : GridInv W g true) (hl : g.rows.length = g.size.rows) :
    LinesInv W g g := ⟨h, hl, rfl, rfl, rfl, rfl, rfl⟩

/-- one step of SD / RI -/
theorem scrollDown_step_ok {g0 g : Grid} (h : LinesInv W g0 g) :
    ∃ g', (do
      let (_, rows) ← removeM 440 g.rows g.scrollBottom
      let rows ← insertM 441 rows g.scrollTop g.newRow
      let rows ← modifyM 442 rows g.scrollBottom (fun r => pure (r.wrap false))
      pure { g with rows := rows }) = .ok g' ∧ LinesInv W g0 g' := by
  have hi := h.inv
  have hb : g.scrollBottom < g.rows.length := by rw [h.len]; exact hi.region_lt
  have hlen1 : (g.rows.eraseIdx g.scrollBottom).length = g.rows.length - 1 := by
    simp [List.length_eraseIdx, hb]
  have ht : g.scrollTop ≤ (g.rows.eraseIdx g.scrollBottom).length := by
    rw [hlen1]; have := hi.region_le; omega
  have hlen2 : ((g.rows.eraseIdx g.scrollBottom).take g.scrollTop ++
      g.newRow :: (g.rows.eraseIdx g.scrollBottom).drop g.scrollTop).length = g.rows.length := by
    simp [List.length_take, hlen1]; omega
  rw [removeM_ok _ _ _ hb]
  simp only [ok_bind]
  rw [insertM_ok _ _ _ _ ht]
  simp only [ok_bind]
  rw [modifyM_pure_ok _ _ _ (by rw [hlen2]; exact hb)]
  simp only [ok_bind, pure_eq_ok]
  refine ⟨_, rfl, ?_, by simpa [hlen2] using h.len, h.size, h.pos, h.top, h.bottom, h.cap⟩
  refine gridInv_rows W hi _ (by simp [hlen2]) ?_
  intro r hr
  rcases mem_set_cases hr with rfl | hr
  · apply rowGood_wrap
    have hmem := List.getElem_mem (l := (g.rows.eraseIdx g.scrollBottom).take g.scrollTop ++
      g.newRow :: (g.rows.eraseIdx g.scrollBottom).drop g.scrollTop) (by rw [hlen2]; exact hb)
    rcases mem_insert_cases hmem with h1 | h1
    · rw [h1]; exact rowGood_new W _ hi.cols_pos
    · exact hi.row_ok _ (List.mem_of_mem_eraseIdx h1)
  · rcases mem_insert_cases hr with rfl | hr
    · exact rowGood_new W _ hi.cols_pos
    · exact hi.row_ok _ (List.mem_of_mem_eraseIdx hr)

/-- SD n, for every n -/
theorem scrollDown_ok {g : Grid} (h : GridInv W g true) (hl : g.rows.length = g.size.rows) (count : Nat) :
    ∃ g', g.scrollDown count = .ok g' ∧ LinesInv W g g' := by
  unfold Grid.scrollDown
  exact iterateM_inv (LinesInv W g) _ _ g (linesInv_refl W h hl) (fun s hs => scrollDown_step_ok W hs)

/-- IL n, for every n -/
theorem insertLines_ok {g : Grid} (h : GridInv W g true) (hl : g.rows.length = g.size.rows) (count : Nat) :
    ∃ g', g.insertLines count = .ok g' ∧ LinesInv W g g' := by
  unfold Grid.insertLines
  refine iterateM_inv (LinesInv W g) _ _ g (linesInv_refl W h hl) ?_
  intro s hs
  have hi := hs.inv
  have hb : s.scrollBottom < s.rows.length := by rw [hs.len]; exact hi.region_lt
  have hlen1 : (s.rows.eraseIdx s.scrollBottom).length = s.rows.length - 1 := by
    simp [List.length_eraseIdx, hb]
  have ht : s.pos.row ≤ (s.rows.eraseIdx s.scrollBottom).length := by
    rw [hlen1, hs.len]; have := hi.pos_row; omega
  have hlen2 : ((s.rows.eraseIdx s.scrollBottom).take s.pos.row ++
      s.newRow :: (s.rows.eraseIdx s.scrollBottom).drop s.pos.row).length = s.rows.length := by
    simp [List.length_take, hlen1]; omega
  rw [removeM_ok _ _ _ hb]
  simp only [ok_bind]
  rw [insertM_ok _ _ _ _ ht]
  simp only [ok_bind]
  rw [modifyM_pure_ok _ _ _ (by rw [hlen2]; exact hb)]
  simp only [ok_bind, pure_eq_ok]
  refine ⟨_, rfl, ?_, by simpa [hlen2] using hs.len, hs.size, hs.pos, hs.top, hs.bottom, hs.cap⟩
  refine gridInv_rows W hi _ (by simp [hlen2]) ?_
  intro r hr
  rcases mem_set_cases hr with rfl | hr
  · apply rowGood_wrap
    have hmem := List.getElem_mem (l := (s.rows.eraseIdx s.scrollBottom).take s.pos.row ++
      s.newRow :: (s.rows.eraseIdx s.scrollBottom).drop s.pos.row) (by rw [hlen2]; exact hb)
    rcases mem_insert_cases hmem with h1 | h1
    · rw [h1]; exact rowGood_new W _ hi.cols_pos
    · exact hi.row_ok _ (List.mem_of_mem_eraseIdx h1)
  · rcases mem_insert_cases hr with rfl | hr
    · exact rowGood_new W _ hi.cols_pos
    · exact hi.row_ok _ (List.mem_of_mem_eraseIdx hr)

/-- DL n, for every n -/
theorem deleteLines_ok {g : Grid} (h : GridInv W g true) (hl : g.rows.length = g.size.rows) (count : Nat) :
    ∃ g', g.deleteLines count = .ok g' ∧ LinesInv W g g' := by
  unfold Grid.deleteLines
  rw [subM_ok (by have := h.pos_row; omega)]
  simp only [ok_bind]
  refine iterateM_inv (LinesInv W g) _ _ g (linesInv_refl W h hl) ?_
  intro s hs
  have hi := hs.inv
  have hb : s.scrollBottom + 1 ≤ s.rows.length := by rw [hs.len]; have := hi.region_lt; omega
  have hlen2 : (s.rows.take (s.scrollBottom + 1) ++ s.newRow :: s.rows.drop (s.scrollBottom + 1)).length
      = s.rows.length + 1 := by
    simp [List.length_take]; omega
  have hp : s.pos.row < s.rows.length + 1 := by rw [hs.len]; have := hi.pos_row; omega
  rw [insertM_ok _ _ _ _ hb]
  simp only [ok_bind]
  rw [removeM_ok _ _ _ (by rw [hlen2]; exact hp)]
  simp only [ok_bind, pure_eq_ok]
  refine ⟨_, rfl, ?_, ?_, hs.size, hs.pos, hs.top, hs.bottom, hs.cap⟩
  · refine gridInv_rows W hi _ ?_ ?_
    · simp only [List.length_eraseIdx, hlen2]; simp [hp]
    · intro r hr
      rcases mem_insert_cases (List.mem_of_mem_eraseIdx hr) with rfl | hr
      · exact rowGood_new W _ hi.cols_pos
      · exact hi.row_ok _ hr
  · simp only [List.length_eraseIdx, hlen2]; simp [hp]; exact hs.len

end Vt

namespace Vt
set_option linter.unusedSimpArgs false
variable (W : Nat → Option Nat)

/-- the invariant of SU / LF-at-the-margin: like `LinesInv`, but the history may grow and the
view offset may follow it -/
structure ScrollInv (g0 g : Grid) : Prop where
  inv : GridInv W g true
  len : g.rows.length = g.size.rows
  size : g.size = g0.size
  pos : g.pos = g0.pos
  top : g.scrollTop = g0.scrollTop
  bottom : g.scrollBottom = g0.scrollBottom
  cap : g.scrollbackLen = g0.scrollbackLen

theorem scrollInv_refl {g : Grid} (h : GridInv W g true) (hl : g.rows.length = g.size.rows) :
    ScrollInv W g g := ⟨h, hl, rfl, rfl, rfl, rfl, rfl⟩

/-- one step of SU -/
theorem scrollUp_step_ok {g0 g : Grid} (h : ScrollInv W g0 g) :
    ∃ g', (do
      let rows ← insertM 438 g.rows (g.scrollBottom + 1) g.newRow
      let (removed, rows) ← removeM 439 rows g.scrollTop
      let g := { g with rows := rows }
      if g.scrollbackLen > 0 then do
        let active ← g.scrollRegionActive
        if !active then
          let sb := g.scrollback ++ [removed]
          let sb := sb.drop (sb.length - g.scrollbackLen)
          let off := if g.scrollbackOffset > 0 then min sb.length (g.scrollbackOffset + 1)
                     else g.scrollbackOffset
          pure { g with scrollback := sb, scrollbackOffset := off }
        else pure g
      else pure g) = .ok g' ∧ ScrollInv W g0 g' := by
  have hi := h.inv
  have hb : g.scrollBottom + 1 ≤ g.rows.length := by rw [h.len]; have := hi.region_lt; omega
  have hlen2 : (g.rows.take (g.scrollBottom + 1) ++ g.newRow :: g.rows.drop (g.scrollBottom + 1)).length
      = g.rows.length + 1 := by
    simp [List.length_take]; omega
  have ht : g.scrollTop < g.rows.length + 1 := by
    rw [h.len]; have := hi.region_lt; have := hi.region_le; omega
  rw [insertM_ok _ _ _ _ hb]
  simp only [ok_bind]
  rw [removeM_ok _ _ _ (by rw [hlen2]; exact ht)]
  simp only [ok_bind]
  generalize hrm : (g.rows.take (g.scrollBottom + 1) ++ g.newRow :: g.rows.drop (g.scrollBottom + 1))[g.scrollTop]'(by rw [hlen2]; exact ht) = removed
  have hremoved : RowGood W g.size.cols removed := by
    have hmem := List.getElem_mem (l := g.rows.take (g.scrollBottom + 1) ++ g.newRow :: g.rows.drop (g.scrollBottom + 1))
      (by rw [hlen2]; exact ht)
    rw [hrm] at hmem
    rcases mem_insert_cases hmem with h1 | h1
    · rw [h1]; exact rowGood_new W _ hi.cols_pos
    · exact hi.row_ok _ h1
  have hrows : GridInv W { g with rows := (g.rows.take (g.scrollBottom + 1) ++ g.newRow ::
      g.rows.drop (g.scrollBottom + 1)).eraseIdx g.scrollTop } true := by
    refine gridInv_rows W hi _ ?_ ?_
    · simp only [List.length_eraseIdx, hlen2]; simp [ht]
    · intro r hr
      rcases mem_insert_cases (List.mem_of_mem_eraseIdx hr) with rfl | hr
      · exact rowGood_new W _ hi.cols_pos
      · exact hi.row_ok _ hr
  have hrl : ((g.rows.take (g.scrollBottom + 1) ++ g.newRow ::
      g.rows.drop (g.scrollBottom + 1)).eraseIdx g.scrollTop).length = g.size.rows := by
    simp only [List.length_eraseIdx, hlen2]; simp [ht]; exact h.len
  by_cases hcap : g.scrollbackLen > 0
  · simp only [hcap, ↓reduceIte, Grid.scrollRegionActive, subM_ok hi.rows_pos, ok_bind, pure_eq_ok]
    by_cases hact : (g.scrollTop != 0 || g.scrollBottom != g.size.rows - 1) = true
    · simp only [hact, Bool.not_true, Bool.false_eq_true, ↓reduceIte]
      exact ⟨_, rfl, hrows, hrl, h.size, h.pos, h.top, h.bottom, h.cap⟩
    · simp only [hact, Bool.not_false, ↓reduceIte]
      refine ⟨_, rfl, ?_, hrl, h.size, h.pos, h.top, h.bottom, h.cap⟩
      refine { hrows with sb_len := ?_, sb_off := ?_, sb_ok := ?_ }
      · simp only [List.length_drop, List.length_append, List.length_cons, List.length_nil]; omega
      · simp only
        split
        · exact Nat.min_le_left _ _
        · have := hi.sb_off; omega
      · intro r hr
        rcases List.mem_append.mp (List.mem_of_mem_drop hr) with h1 | h1
        · exact hi.sb_ok r h1
        · simp only [List.mem_singleton] at h1
          rw [h1]; exact hremoved.2
  · simp only [hcap, ↓reduceIte, pure_eq_ok]
    exact ⟨_, rfl, hrows, hrl, h.size, h.pos, h.top, h.bottom, h.cap⟩

/-- SU n, for every n -/
theorem scrollUp_ok {g : Grid} (h : GridInv W g true) (hl : g.rows.length = g.size.rows) (count : Nat) :
    ∃ g', g.scrollUp count = .ok g' ∧ ScrollInv W g g' := by
  unfold Grid.scrollUp
  rw [subM_ok (by have := h.region_lt; have := h.region_le; omega)]
  simp only [ok_bind]
  exact iterateM_inv (ScrollInv W g) _ _ g (scrollInv_refl W h hl) (fun s hs => scrollUp_step_ok W hs)

end Vt

namespace Vt
set_option linter.unusedSimpArgs false
variable (W : Nat → Option Nat)

/-- DCH n, for every n -/
theorem deleteCells_ok {g : Grid} (h : GridInv W g true) (hlen : g.rows.length = g.size.rows) (count : Nat) :
    ∃ g', g.deleteCells count = .ok g' ∧ GridInv W g' true ∧ g'.rows.length = g'.size.rows ∧
      g'.size = g.size ∧ g'.scrollbackLen = g.scrollbackLen := by
  unfold Grid.deleteCells
  obtain ⟨g', h1, h2, h3, h4, _, h5, _⟩ := modifyCurrentRow_ok W h hlen
    (fun row => do
      let d ← subM 424 g.size.cols g.pos.col
      let row ← iterateM (min count d) (fun row => row.remove g.pos.col) row
      pure (row.resize g.size.cols Cell.new))
    (by
      intro r hr
      simp only [subM_ok h.pos_col, ok_bind]
      obtain ⟨r1, hr1, hP⟩ := iterateM_inv_idx
        (fun k (row : Row) => CellsInv W row.cells ∧ row.cells.length = g.size.cols - k)
        (fun row => row.remove g.pos.col) (min count (g.size.cols - g.pos.col)) r
        ⟨rowGood_cells W hr, by simp [hr.1]⟩
        (by
          intro k row hk ⟨hci, hl⟩
          have hi : g.pos.col < row.cells.length := by rw [hl]; omega
          obtain ⟨r', e1, e2, e3, _⟩ := remove_ok W hci hi
          exact ⟨r', e1, e2, by rw [e3, hl]; omega⟩)
      obtain ⟨i1, i2, _⟩ := resize_inv W (len := g.size.cols) hP.1 h.cols_pos
      exact ⟨r1.resize g.size.cols Cell.new, by simp [hr1], rowGood_of W i2 h.cols_pos i1⟩)
  exact ⟨g', h1, h2, h3, h4, h5⟩

theorem cellOk_blank_cont : cellOk W (Cell.new.setWideContinuation true) = true := by
  simp [cellOk, Cell.new, Cell.setWideContinuation, Utf8.fromUtf8]

theorem cellOk_uncont {c : Cell} (h : cellOk W c = true) (hc : c.cont = true) :
    cellOk W (c.setWideContinuation false) = true := by
  obtain ⟨hw, hl⟩ := cellOk_cont W c h hc
  simp only [cellOk, Bool.and_eq_true, decide_eq_true_eq, beq_iff_eq, List.all_eq_true] at h
  obtain ⟨⟨⟨⟨h1, _⟩, h3⟩, _⟩, _⟩ := h
  simp [cellOk, Cell.setWideContinuation, h1, hl, hw, Utf8.fromUtf8]
  exact h3

/-- one step of ICH's loop on a row, cursor not on a continuation cell -/
theorem insert_plain_ok {r : Row} {i : Nat} (hinv : CellsInv W r.cells) (hi : i ≤ r.cells.length)
    (hflag : pairThrough false (r.cells.take i) = some false) :
    ∃ r', Grid.insertStep false i r = .ok r' ∧ CellsInv W r'.cells ∧ r'.cells.length = r.cells.length + 1 ∧
      pairThrough false (r'.cells.take i) = some false := by
  refine ⟨⟨r.cells.take i ++ Cell.new :: r.cells.drop i, false⟩,
    by simp [Grid.insertStep, Row.insert, insertM, hi], ?_, ?_, ?_⟩
  · constructor
    · intro x hx
      rcases mem_insert_cases hx with rfl | hx
      · exact cellOk_new' W
      · exact hinv.cells_ok x hx
    · obtain ⟨p, e1, e2⟩ := pairThrough_cut i hinv.paired
      rw [hflag] at e1
      have hp : p = false := (Option.some.inj e1).symm
      subst hp
      have := pairThrough_splice (mid := [Cell.new]) hflag (by simp [pairThrough, Cell.new]) e2
      simpa using this
  · simp [List.length_take]; omega
  · simp only
    rw [List.take_append_of_le_length (by simp [List.length_take]; omega)]
    simp [List.take_take, hflag]

/-- one step of ICH's loop on a row, cursor on a continuation cell: the continuation flag moves to
the inserted blank, so the wide character stays whole -/
theorem insert_wide_ok {r : Row} {i : Nat} {c : Cell} (hinv : CellsInv W r.cells)
    (hc : r.cells[i]? = some c) (hcc : c.cont = true) :
    ∃ r' c', Grid.insertStep true i r = .ok r' ∧ CellsInv W r'.cells ∧
      r'.cells.length = r.cells.length + 1 ∧ r'.cells[i]? = some c' ∧ c'.cont = true := by
  obtain ⟨a, b, hab, hl⟩ := decomp1 hc
  have hcok := hinv.cells_ok c (List.mem_of_getElem? hc)
  obtain ⟨hcw, _⟩ := cellOk_cont W c hcok hcc
  have hp := hinv.paired
  rw [hab] at hp
  obtain ⟨p, e1, e2, e3⟩ := paired_decomp1 hp
  refine ⟨⟨a ++ Cell.new.setWideContinuation true :: c.setWideContinuation false :: b, false⟩,
    Cell.new.setWideContinuation true, ?_, ?_, ?_, ?_, rfl⟩
  · subst hl
    obtain ⟨cs, wr⟩ := r
    simp only at hab
    subst hab
    simp [Grid.insertStep, modifyM, Row.insert, insertM, List.getElem?_append_right, List.set_append_right,
      List.take_append_of_le_length, List.drop_append_of_le_length]
  · constructor
    · intro x hx
      rcases List.mem_append.mp hx with hx | hx
      · exact hinv.cells_ok x (by rw [hab]; simp [hx])
      · rcases List.mem_cons.mp hx with rfl | hx
        · exact cellOk_blank_cont W
        · rcases List.mem_cons.mp hx with rfl | hx
          · exact cellOk_uncont W hcok hcc
          · exact hinv.cells_ok x (by rw [hab]; simp [hx])
    · have := pairThrough_splice (mid := [Cell.new.setWideContinuation true, c.setWideContinuation false])
        (b := b) e1
        (by simp [pairThrough, Cell.new, Cell.setWideContinuation, ← e2, hcc] :
          pairThrough p [Cell.new.setWideContinuation true, c.setWideContinuation false] = some c.wide)
        e3
      simpa using this
  · rw [hab]; simp; omega
  · subst hl; simp

/-- ICH n, for every n -/
theorem insertCells_ok {g : Grid} (h : GridInv W g true) (hlen : g.rows.length = g.size.rows) (count : Nat) :
    ∃ g', g.insertCells count = .ok g' ∧ GridInv W g' true ∧ g'.rows.length = g'.size.rows ∧
      g'.size = g.size ∧ g'.scrollbackLen = g.scrollbackLen := by
  have hrow : g.pos.row < g.rows.length := by rw [hlen]; exact h.pos_row
  have hget := List.getElem?_eq_getElem hrow
  generalize hr0 : g.rows[g.pos.row] = row0 at hget
  have hgood0 : RowGood W g.size.cols row0 := by rw [← hr0]; exact h.row_ok _ (List.getElem_mem hrow)
  have hci0 := rowGood_cells W hgood0
  unfold Grid.insertCells
  by_cases hcol : g.pos.col < g.size.cols
  · have hcl : g.pos.col < row0.cells.length := by rw [hgood0.1]; exact hcol
    have hcg := List.getElem?_eq_getElem hcl
    generalize row0.cells[g.pos.col] = c0 at hcg
    simp only [hcol, ↓reduceIte, Grid.drawingCellM, Grid.drawingCell, Grid.drawingRow, hget,
      Option.bind_some, Row.get, hcg, ok_bind, pure_bind', pure_eq_ok, Cell.isWideContinuation]
    by_cases hcont : c0.cont = true
    · -- cursor on a continuation cell
      simp only [Grid.modifyCurrentRow, modifyM, hget, hcont, ↓reduceIte]
      obtain ⟨r1, hr1, hP⟩ := iterateM_inv
        (fun (row : Row) => CellsInv W row.cells ∧ g.size.cols ≤ row.cells.length ∧
          ∃ c, row.cells[g.pos.col]? = some c ∧ c.cont = true)
        (Grid.insertStep true g.pos.col) (min count g.size.cols) row0 ⟨hci0, by rw [hgood0.1]; exact Nat.le_refl _, c0, hcg, hcont⟩
        (by
          intro row ⟨hci, hl, c, hc, hcc⟩
          obtain ⟨r', c', e1, e2, e3, e4, e5⟩ := insert_wide_ok W hci hc hcc
          exact ⟨r', e1, e2, by omega, c', e4, e5⟩)
      obtain ⟨r2, hr2, i1, i2, _⟩ := truncate_ok W hP.1 h.cols_pos hP.2.1
      refine ⟨{ g with rows := g.rows.set g.pos.row r2 }, ?_,
        gridInv_setRow W h _ _ (rowGood_of W i2 h.cols_pos i1), by simpa using hlen, rfl, rfl⟩
      simp only [hr1, ok_bind, hr2, pure_bind', pure_eq_ok]
    · -- cursor on an ordinary cell
      have hcont' : c0.cont = false := by simpa using hcont
      simp only [Grid.modifyCurrentRow, modifyM, hget, hcont', Bool.false_eq_true, ↓reduceIte, pure_bind',
        pure_eq_ok, ok_bind]
      obtain ⟨p, f1, f2, _⟩ := pairThrough_split hcg hci0.paired
      have hflag0 : pairThrough false (row0.cells.take g.pos.col) = some false := by
        rw [f1, ← f2, hcont']
      obtain ⟨r1, hr1, hP⟩ := iterateM_inv
        (fun (row : Row) => CellsInv W row.cells ∧ g.size.cols ≤ row.cells.length ∧
          pairThrough false (row.cells.take g.pos.col) = some false)
        (Grid.insertStep false g.pos.col) (min count g.size.cols) row0
        ⟨hci0, by rw [hgood0.1]; exact Nat.le_refl _, hflag0⟩
        (by
          intro row ⟨hci, hl, hf⟩
          obtain ⟨r', e1, e2, e3, e4⟩ := insert_plain_ok W hci (by omega) hf
          exact ⟨r', e1, e2, by omega, e4⟩)
      obtain ⟨r2, hr2, i1, i2, _⟩ := truncate_ok W hP.1 h.cols_pos hP.2.1
      refine ⟨{ g with rows := g.rows.set g.pos.row r2 }, ?_,
        gridInv_setRow W h _ _ (rowGood_of W i2 h.cols_pos i1), by simpa using hlen, rfl, rfl⟩
      simp only [hr1, ok_bind, hr2, pure_bind', pure_eq_ok]
  · -- pending-wrap column: the blanks are inserted past the end and truncated away
    have hpc : g.pos.col = g.size.cols := by have := h.pos_col; omega
    simp only [hcol, ↓reduceIte, pure_bind', pure_eq_ok, ok_bind, Grid.modifyCurrentRow, modifyM, hget,
      Bool.false_eq_true]
    have hflag0 : pairThrough false (row0.cells.take g.pos.col) = some false := by
      rw [List.take_of_length_le (by rw [hgood0.1, hpc]; exact Nat.le_refl _)]; exact hci0.paired
    obtain ⟨r1, hr1, hP⟩ := iterateM_inv
      (fun (row : Row) => CellsInv W row.cells ∧ g.size.cols ≤ row.cells.length ∧
        pairThrough false (row.cells.take g.pos.col) = some false)
      (Grid.insertStep false g.pos.col) (min count g.size.cols) row0
      ⟨hci0, by rw [hgood0.1]; exact Nat.le_refl _, hflag0⟩
      (by
        intro row ⟨hci, hl, hf⟩
        obtain ⟨r', e1, e2, e3, e4⟩ := insert_plain_ok W hci (by omega) hf
        exact ⟨r', e1, e2, by omega, e4⟩)
    obtain ⟨r2, hr2, i1, i2, _⟩ := truncate_ok W hP.1 h.cols_pos hP.2.1
    refine ⟨{ g with rows := g.rows.set g.pos.row r2 }, ?_,
      gridInv_setRow W h _ _ (rowGood_of W i2 h.cols_pos i1), by simpa using hlen, rfl, rfl⟩
    simp only [hr1, ok_bind, hr2, pure_bind', pure_eq_ok]

end Vt

namespace Vt
set_option linter.unusedSimpArgs false
variable (W : Nat → Option Nat)

/-- the outcome of a grid operation that keeps the invariant, the size and the capacity -/
structure StepOk (g g' : Grid) : Prop where
  inv : GridInv W g' true
  len : g'.rows.length = g'.size.rows
  size : g'.size = g.size
  cap : g'.scrollbackLen = g.scrollbackLen

/-- the operation never fails on `g` and keeps the invariant -/
def Total (f : Grid → M Grid) (g : Grid) : Prop := ∃ g', f g = .ok g' ∧ StepOk W g g'

theorem stepOk_refl {g : Grid} (h : GridInv W g true) (hl : g.rows.length = g.size.rows) : StepOk W g g :=
  ⟨h, hl, rfl, rfl⟩

theorem stepOk_trans {a b c : Grid} (h1 : StepOk W a b) (h2 : StepOk W b c) : StepOk W a c :=
  ⟨h2.inv, h2.len, h2.size.trans h1.size, h2.cap.trans h1.cap⟩

theorem total_bind {f k : Grid → M Grid} {g : Grid} (h1 : Total W f g)
    (h2 : ∀ g', StepOk W g g' → Total W k g') : Total W (fun g => f g >>= k) g := by
  obtain ⟨g1, e1, s1⟩ := h1
  obtain ⟨g2, e2, s2⟩ := h2 g1 s1
  exact ⟨g2, by simp [e1, e2], stepOk_trans W s1 s2⟩

/-- changing only the cursor to a valid position keeps the invariant -/
theorem stepOk_pos {g : Grid} (h : GridInv W g true) (hl : g.rows.length = g.size.rows) (p : Pos)
    (hr : p.row < g.size.rows) (hc : p.col ≤ g.size.cols) : StepOk W g { g with pos := p } :=
  ⟨{ h with pos_row := hr, pos_col := hc }, hl, rfl, rfl⟩

variable {W}

theorem total_of_eq {f : Grid → M Grid} {g g' : Grid} (he : f g = .ok g') (hs : StepOk W g g') :
    Total W f g := ⟨g', he, hs⟩

end Vt
