/-
  Vt.Props.DiffWrap — C02 (screen diffs) for CHANGED lines that are soft-wrapped: the re-assembly.

  `DiffWrap1` … `DiffWrap3` prove one line of `Row::write_contents_diff` on the receiver for EVERY combination of the
  four wrap flags involved (the line above wrapped in S / in P, the line itself wrapped in P / in S) and every
  position of the emitter's cursor, under two decidable side conditions on the pair of lines:

    `noF8b`  — asked only when the line is wrapped in both P and S: if P holds a wide character in column `cols-2`, S
               holds text there (excludes the two F8b patterns, in which the receiver's wrap flag is cleared and
               nothing repairs it);
    `NoPad`  — asked only when the line above is wrapped in both P and S: the first changed cell of the line, if it is
               not in column 0, holds text (excludes the F8a pattern, in which an erase run that starts after
               unchanged cells is flushed with space padding over them).

  Here: the loop of `Grid::write_contents_diff` over the lines with the invariant `RowsInvW` (lines `< i` show S, lines
  `≥ i` show P; the wrap flag of line `i-1` is still OWED when that line has just become wrapped: the receiver records
  it when the first character of line `i` is typed at the pending-wrap position), then `state_diff_wrapped` (same shape
  as `DiffGrid2.state_diff_mixed`; hypothesis `LinesOkP`: every line satisfies `LineOkAt` = `noF8b`, and `NoPad` where the
  emitter's cursor — `loopPositions`, computed by the model's own loop — is parked in the pending-wrap column of the line
  above; `linesOkP_of_W`: implied by the position-free `LineOkW` on every line), `chain_wrapped`,
  `diff_chain_after_redraw_wrapped`, and `lineOkW_of_lineOk` / `state_diff_mixed_of_wrapped` (the new theorem subsumes
  the old one).

  Every kind of line is covered (all 16 combinations of the four wrap flags, every cursor position).  The two side
  conditions are sufficient, not necessary: a wrap flag cleared by an F8b pattern can be set again by a later autowrap
  (such pairs reproduce although they violate `noF8b`).  Screens must not be scrolled back (F9 / F12 live there).
-/
import Vt.Props.DiffWrap3
import Vt.Props.InvAll
namespace Vt.C02
open Vt Vt.Recv Vt.C19 Vt.C09 Vt.RowDraw Vt.GridDraw Vt.Tok Vt.C03 Vt.C01 Vt.Bytes Vt.DiffRow Vt.C15wrap
set_option linter.unusedSimpArgs false
set_option linter.unusedVariables false

variable {W : Nat → Option Nat} {cb : CbPolicy}

/-- **line `i` of the pair is one the theorem handles**: no F8b pattern if the line is wrapped in both screens, no
F8a pattern if the line above is wrapped in both screens.  Nothing is asked of any other line. -/
def LineOkW (srows prows : List Row) (i : Nat) : Prop :=
  ∀ r p, srows[i]? = some r → prows[i]? = some p →
    (r.wrapped = true → p.wrapped = true → noF8b r.cells p.cells = true) ∧
    (wrapAbove srows i = true → wrapAbove prows i = true → NoPad r.cells p.cells)

/-- `LineOkW` with the F8a condition asked only where it matters: when the emitter's cursor `pp` at the start of the
line is parked in the pending-wrap column of the line above -/
def LineOkAt (srows prows : List Row) (cols i : Nat) (pp : Pos) : Prop :=
  ∀ r p, srows[i]? = some r → prows[i]? = some p →
    (r.wrapped = true → p.wrapped = true → noF8b r.cells p.cells = true) ∧
    (wrapAbove srows i = true → wrapAbove prows i = true → pp = ⟨i - 1, cols⟩ → NoPad r.cells p.cells)

theorem lineOkAt_of_W {srows prows : List Row} {i : Nat} (h : LineOkW srows prows i) (cols : Nat) (pp : Pos) :
    LineOkAt srows prows cols i pp := fun r p hr hp => ⟨(h r p hr hp).1, fun h1 h2 _ => (h r p hr hp).2 h1 h2⟩

/-- the emitter's cursor at the start of each line of the loop of `Grid::write_contents_diff` (as far as the loop
runs) -/
def loopPositions (cols : Nat) : List (Row × Row) → Nat → Bool → Bool → Pos → Attrs → List Pos
  | [], _, _, _, _, _ => []
  | (r, pr) :: rs, i, wrapping, prevWrapping, pp, pa =>
    pp :: (match r.writeContentsDiff pr 0 cols i wrapping prevWrapping pp pa with
      | .ok (_, np, na) => loopPositions cols rs (i + 1) r.wrapped pr.wrapped np na
      | .error _ => [])

/-- **every line of the pair of screens is one the theorem handles**: `LineOkAt` with the emitter's actual cursor -/
def LinesOkP (S P : Screen) : Prop :=
  ∀ k pos, (loopPositions S.cur.size.cols (S.cur.rows.zip P.cur.rows) 0 false false P.cur.pos P.attrs)[k]? = some pos →
    LineOkAt S.cur.rows P.cur.rows S.cur.size.cols k pos

theorem linesOkP_of_W {S P : Screen} (h : ∀ i, i < S.cur.rows.length → LineOkW S.cur.rows P.cur.rows i) : LinesOkP S P := by
  intro k pos _
  by_cases hk : k < S.cur.rows.length
  · exact lineOkAt_of_W (h k hk) _ _
  · intro r p hr _
    rw [List.getElem?_eq_none (by omega)] at hr
    exact absurd hr (by simp)

/-- the receiver between the lines of a diff: lines `< i` show the current screen, lines `≥ i` the previous one, wrap
flags included — except that the flag of line `i - 1`, when that line has just become wrapped, is still off: then the
cursor is in its pending-wrap column (`owe`) -/
structure RowsInvW (srows prows : List Row) (cols i : Nat) (pp : Pos) (R : RS) : Prop where
  canvas : Canvas R.g
  hcols : R.g.size.cols = cols
  nrows : R.g.size.rows = srows.length
  plen : prows.length = srows.length
  pos : R.g.pos = pp
  row : ∀ k (hk : k < srows.length), ∃ Rk, R.g.rows[k]? = some Rk ∧
    (k < i → Rk.cells.map view = srows[k].cells.map view ∧
      Rk.wrapped = (if k + 1 = i then (prows[k]'(by rw [plen]; exact hk)).wrapped && srows[k].wrapped else srows[k].wrapped)) ∧
    (i ≤ k → Rk.cells.map view = (prows[k]'(by rw [plen]; exact hk)).cells.map view ∧
      Rk.wrapped = (prows[k]'(by rw [plen]; exact hk)).wrapped)
  owe : ∀ (h0 : 0 < i) (hi : i ≤ srows.length), (srows[i - 1]'(by omega)).wrapped = true →
    (prows[i - 1]'(by rw [plen]; omega)).wrapped = false → pp = ⟨i - 1, cols⟩

theorem wrapAbove_pos (rows : List Row) (i : Nat) (h : wrapAbove rows i = true) :
    ∃ (h0 : 0 < i) (hi : i - 1 < rows.length), rows[i - 1].wrapped = true := by
  unfold wrapAbove at h
  by_cases h0 : i = 0
  · simp [h0] at h
  · rw [if_neg h0] at h
    cases hr : rows[i - 1]? with
    | none => rw [hr] at h; simp at h
    | some r =>
      have hl := getElem?_lt hr
      rw [List.getElem?_eq_getElem hl] at hr
      rw [List.getElem?_eq_getElem hl] at h
      exact ⟨by omega, hl, by simpa using h⟩

theorem wrapAbove_eq (rows : List Row) (i : Nat) (h0 : 0 < i) (hi : i - 1 < rows.length) :
    wrapAbove rows i = rows[i - 1].wrapped := by
  unfold wrapAbove
  rw [if_neg (by omega), List.getElem?_eq_getElem hi]; rfl

/-- the invariant after line `i`, when the receiver is as before but for line `i`, the cursor and the pen -/
theorem rowsInvW_next_plain {srows prows : List Row} {cols i : Nat} {pp : Pos} {R : RS}
    (hinv : RowsInvW srows prows cols i pp R) (hi : i < srows.length) (hwd : srows[i].cells.length = cols)
    (hno : ∀ (h0 : 0 < i), (srows[i - 1]'(by omega)).wrapped = true → (prows[i - 1]'(by rw [hinv.plen]; omega)).wrapped = true)
    {Ri : Row} {np : Pos} {na : Attrs} (hv : Ri.cells.map view = srows[i].cells.map view)
    (hw : Ri.wrapped = ((prows[i]'(by rw [hinv.plen]; exact hi)).wrapped && srows[i].wrapped))
    (hnp : srows[i].wrapped = true → (prows[i]'(by rw [hinv.plen]; exact hi)).wrapped = false → np = ⟨i, cols⟩) :
    RowsInvW srows prows cols (i + 1) np (shape R i Ri np na) := by
  have hRil : Ri.cells.length = R.g.size.cols := by
    have := congrArg List.length hv
    simp only [List.length_map] at this
    rw [this, hwd, hinv.hcols]
  have hil : i < R.g.rows.length := by rw [hinv.canvas.alloc, hinv.nrows]; exact hi
  refine ⟨shape_canvas hinv.canvas hRil np na, hinv.hcols, hinv.nrows, hinv.plen, rfl, ?_, ?_⟩
  · intro k hk
    by_cases hki : k = i
    · subst hki
      refine ⟨Ri, ?_, fun _ => ⟨hv, by rw [if_pos rfl]; exact hw⟩, fun h => by omega⟩
      rw [shape_rows_get]; simp [hil]
    · obtain ⟨Rk, hRk, hlo, hhi⟩ := hinv.row k hk
      refine ⟨Rk, ?_, fun h => ?_, fun h => hhi (by omega)⟩
      · rw [shape_rows_get, if_neg (fun h => hki h.1)]; exact hRk
      · obtain ⟨h1, h2⟩ := hlo (by omega)
        refine ⟨h1, ?_⟩
        rw [if_neg (by omega), h2]
        by_cases hk1 : k + 1 = i
        · rw [if_pos hk1]
          cases hs : srows[k].wrapped
          · simp
          · have := hno (by omega) (by
              have e : i - 1 = k := by omega
              simp only [e]; exact hs)
            have e : i - 1 = k := by omega
            simp only [e] at this
            rw [this]; rfl
        · rw [if_neg hk1]
  · intro _ _ hs hp
    simp only [Nat.add_sub_cancel] at hs hp
    exact hnp hs hp

/-- the invariant after line `i`, when the wrap of line `i - 1` has been recorded -/
theorem rowsInvW_next_wrap {srows prows : List Row} {cols i : Nat} {pp : Pos} {R : RS}
    (hinv : RowsInvW srows prows cols i pp R) (hi : i < srows.length) (hwd : srows[i].cells.length = cols)
    (hi1 : 1 ≤ i) {Rp : Row} (hp : R.g.rows[i - 1]? = some Rp) (hsw : (srows[i - 1]'(by omega)).wrapped = true)
    {Ri : Row} {np : Pos} {na : Attrs} (hv : Ri.cells.map view = srows[i].cells.map view)
    (hw : Ri.wrapped = ((prows[i]'(by rw [hinv.plen]; exact hi)).wrapped && srows[i].wrapped))
    (hnp : srows[i].wrapped = true → (prows[i]'(by rw [hinv.plen]; exact hi)).wrapped = false → np = ⟨i, cols⟩) :
    RowsInvW srows prows cols (i + 1) np (shape (wrapBase R i Rp) i Ri np na) := by
  have hRil : Ri.cells.length = R.g.size.cols := by
    have := congrArg List.length hv
    simp only [List.length_map] at this
    rw [this, hwd, hinv.hcols]
  have hil : i < R.g.rows.length := by rw [hinv.canvas.alloc, hinv.nrows]; exact hi
  have hcvB := wrapBase_canvas hinv.canvas i hp
  have hilB : i < (wrapBase R i Rp).g.rows.length := by simp [wrapBase]; exact hil
  refine ⟨shape_canvas hcvB hRil np na, hinv.hcols, hinv.nrows, hinv.plen, rfl, ?_, ?_⟩
  · intro k hk
    by_cases hki : k = i
    · subst hki
      refine ⟨Ri, ?_, fun _ => ⟨hv, by rw [if_pos rfl]; exact hw⟩, fun h => by omega⟩
      rw [shape_rows_get]; simp [hilB]
    · obtain ⟨Rk, hRk, hlo, hhi⟩ := hinv.row k hk
      by_cases hk1 : k = i - 1
      · subst hk1
        have hRkp : Rk = Rp := by rw [hp] at hRk; exact (Option.some.inj hRk).symm
        subst hRkp
        refine ⟨Rk.wrap true, ?_, fun _ => ?_, fun h => by omega⟩
        · rw [shape_rows_get, if_neg (fun h => hki h.1)]
          simp only [wrapBase]
          rw [List.getElem?_set_self (getElem?_lt hp)]
        · obtain ⟨h1, _⟩ := hlo (by omega)
          refine ⟨h1, ?_⟩
          rw [if_neg (by omega)]
          simp only [Row.wrap]
          exact hsw.symm
      · refine ⟨Rk, ?_, fun h => ?_, fun h => hhi (by omega)⟩
        · rw [shape_rows_get, if_neg (fun h => hki h.1)]
          simp only [wrapBase]
          rw [List.getElem?_set_ne (fun e => hk1 e.symm)]; exact hRk
        · obtain ⟨h1, h2⟩ := hlo (by omega)
          refine ⟨h1, ?_⟩
          rw [if_neg (by omega), h2, if_neg (by omega)]
  · intro _ _ hs hp'
    simp only [Nat.add_sub_cancel] at hs hp'
    exact hnp hs hp'

/-- the cell pair at column 0 of the loop's window -/
theorem firstOk_window {S P : List Cell} (hpl : P.length = S.length)
    (h : ∀ (h0 : 0 < S.length), ¬ (S[0].wide = true ∧ view S[0] ≠ view (P[0]'(by omega)))) :
    FirstOk (Row.window (S.zip P) 0 S.length) := by
  intro x hx h0
  rw [C03.window_eq, C14.windowFrom_eq] at hx
  simp only [Nat.zero_add, List.drop_zero, C14.enumFrom, List.mem_map] at hx
  obtain ⟨⟨c, k⟩, hm, rfl⟩ := hx
  simp only at h0
  subst h0
  rw [List.mk_mem_zipIdx_iff_getElem?] at hm
  have hlen := getElem?_lt hm
  simp only [List.length_take, List.length_zip] at hlen
  have h0S : 0 < S.length := by omega
  rw [List.getElem?_take] at hm
  simp only [h0S, ↓reduceIte] at hm
  rw [List.getElem?_eq_getElem (by simp [List.length_zip]; omega)] at hm
  have := Option.some.inj hm
  subst this
  simp only [List.getElem_zip]
  intro ⟨h1, h2⟩
  apply h h0S
  refine ⟨h2, fun hv => ?_⟩
  rw [(eq_iff_view _ _).mpr hv] at h1
  exact absurd h1 (by simp)

/-- when the first cell is changed, `NoPad` holds -/
theorem noPad_of_first {S P : List Cell} (h0 : 0 < S.length) (h0P : 0 < P.length) (hne : view S[0] ≠ view P[0]) : NoPad S P := by
  intro k hk hkP hk0 heq _
  exact absurd (heq 0 hk0) hne

/-- **one line of the loop**, whatever its wrap flags -/
theorem diff_rows_step_w (hW : WOk W) (hcb : C13.CbInv W cb) (p0 : Parser) (h0 : Ready p0) (hpi : C13.ParserInv W p0)
    {srows prows : List Row} {cols : Nat} (hS : SrcRows W cols srows) (hP : SrcRows W cols prows)
    {i : Nat} (hi : i < srows.length) {pp : Pos} (hok : LineOkAt srows prows cols i pp) {R : RS} {out : List Nat}
    (hinv : RowsInvW srows prows cols i pp R) (hem : Emitted W cb p0 out R) (hb : Bytes out) (hpp : pp.col ≤ cols) :
    ∃ bs np na R', srows[i].writeContentsDiff (prows[i]'(by rw [hinv.plen]; exact hi)) 0 cols i (wrapAbove srows i)
        (wrapAbove prows i) pp R.pen = .ok (bs, np, na) ∧
      Emitted W cb p0 (out ++ bs) R' ∧ R'.pen = na ∧ RowsInvW srows prows cols (i + 1) np R' ∧ Bytes (out ++ bs) ∧
      np.col ≤ cols ∧ R'.g.scrollbackOffset = R.g.scrollbackOffset ∧ (Attrs.wf R.pen → Attrs.wf na) := by
  have hip : i < prows.length := by rw [hinv.plen]; exact hi
  have hmem : srows[i] ∈ srows := List.getElem_mem hi
  have hmemp : prows[i] ∈ prows := List.getElem_mem hip
  have hwd := hS.width _ hmem
  have hwdp := hP.width _ hmemp
  obtain ⟨Ri0, hRi0, _, hshow⟩ := hinv.row i hi
  obtain ⟨hshowv, hshoww⟩ := hshow (Nat.le_refl _)
  have hir : i < R.g.size.rows := by rw [hinv.nrows]; exact hi
  have hil : i < R.g.rows.length := by rw [hinv.canvas.alloc]; exact hir
  obtain ⟨hnofb, hnopad⟩ := hok srows[i] prows[i] (List.getElem?_eq_getElem hi) (List.getElem?_eq_getElem hip)
  have hoccS := hS.wrapOcc _ hmem
  have hoccP := hP.wrapOcc _ hmemp
  obtain ⟨p1, e1, w1, r1⟩ := hem
  have hrs : rsOf p1.ws = R := by rw [w1, rsOf_withRS]
  have hpi1 := parserInv_of_emitted hW.space hcb hpi hb e1
  have hcv1 : Canvas (rsOf p1.ws).g := by rw [hrs]; exact hinv.canvas
  have hne : 0 < srows[i].cells.length := by rw [hwd, ← hinv.hcols]; exact hinv.canvas.cols_pos
  have hneP : 0 < prows[i].cells.length := by rw [hwdp, ← hinv.hcols]; exact hinv.canvas.cols_pos
  -- the conclusion from a `wrapping = false` run
  have hplain : ∀ (hno : ∀ (h0 : 0 < i), (srows[i - 1]'(by omega)).wrapped = true →
        (prows[i - 1]'(by rw [hinv.plen]; omega)).wrapped = true)
      (heqw : srows[i].writeContentsDiff prows[i] 0 cols i (wrapAbove srows i) (wrapAbove prows i) pp R.pen =
        srows[i].writeContentsDiff prows[i] 0 cols i false (wrapAbove prows i) pp R.pen),
      ∃ bs np na R', srows[i].writeContentsDiff prows[i] 0 cols i (wrapAbove srows i) (wrapAbove prows i) pp R.pen =
          .ok (bs, np, na) ∧
        Emitted W cb p0 (out ++ bs) R' ∧ R'.pen = na ∧ RowsInvW srows prows cols (i + 1) np R' ∧ Bytes (out ++ bs) ∧
        np.col ≤ cols ∧ R'.g.scrollbackOffset = R.g.scrollbackOffset ∧ (Attrs.wf R.pen → Attrs.wf na) := by
    intro hno heqw
    have hrow := row_diff_draws_flags (cb := cb) hW hcb p1 r1 hpi1 hcv1 i (by rw [hrs]; exact hir)
      srows[i] prows[i] (by rw [hrs, hinv.hcols]; exact hwd) (by rw [hrs, hinv.hcols]; exact hwdp) (hS.ok _ hmem) (hP.ok _ hmemp)
      Ri0 (by rw [hrs]; exact hRi0) hshowv hshoww (by rw [hrs, hinv.pos, hinv.hcols]; exact hpp) (wrapAbove prows i)
      hoccS hoccP hnofb
    rw [hrs, hinv.pos, hwd] at hrow
    obtain ⟨bs, np, na, ewc, ⟨Ri, hemr, hv, hw⟩, hbb, hnp, hwf, hown⟩ := hrow
    rw [hinv.hcols] at hnp hown
    refine ⟨bs, np, na, shape R i Ri np na, by rw [heqw]; exact ewc, emitted_comp h0 e1 w1 r1 hemr, rfl, ?_,
      Bytes.append hb hbb, hnp, rfl, hwf⟩
    exact rowsInvW_next_plain hinv hi hwd hno hv hw hown
  by_cases hwa : wrapAbove srows i = true
  · -- the line above is wrapped in S
    obtain ⟨hi0, hi1l, hsw⟩ := wrapAbove_pos srows i hwa
    have hi1lp : i - 1 < prows.length := by rw [hinv.plen]; exact hi1l
    obtain ⟨Rp, hRp, hRplo, _⟩ := hinv.row (i - 1) hi1l
    obtain ⟨hRpv, hRpw⟩ := hRplo (by omega)
    rw [if_pos (by omega)] at hRpw
    -- its last column is occupied, on the receiver too
    obtain ⟨hpl0, hoccl⟩ := hS.wrapOcc _ (List.getElem_mem hi1l) hsw
    have hwdl := hS.width _ (List.getElem_mem hi1l)
    obtain ⟨hRpl, hRpget⟩ := full_get hRpv
    have hlastR : Rp.cells[R.g.size.cols - 1]? = some (Rp.cells[cols - 1]'(by rw [hRpl, hwdl]; omega)) := by
      rw [hinv.hcols]
      exact List.getElem?_eq_getElem _
    have hoccR : ((Rp.cells[cols - 1]'(by rw [hRpl, hwdl]; omega)).hasContents ||
        (Rp.cells[cols - 1]'(by rw [hRpl, hwdl]; omega)).cont) = true := by
      have hvw := hRpget (cols - 1) (by rw [hwdl]; omega)
      rw [occ_of_views hvw]
      have e : srows[i - 1].cells.length - 1 = cols - 1 := by rw [hwdl]
      simp only [e] at hoccl
      rcases hoccl with h | h <;> simp [h]
    -- the conclusion from a run that records the wrap
    have hwrapc : ∀ (res : List Nat × Pos × Attrs),
        srows[i].writeContentsDiff prows[i] 0 cols i (wrapAbove srows i) (wrapAbove prows i) pp R.pen = .ok res →
        LineDone W cb p1 (wrapBase R i Rp) i srows[i] prows[i] cols res →
        ∃ bs np na R', srows[i].writeContentsDiff prows[i] 0 cols i (wrapAbove srows i) (wrapAbove prows i) pp R.pen =
            .ok (bs, np, na) ∧
          Emitted W cb p0 (out ++ bs) R' ∧ R'.pen = na ∧ RowsInvW srows prows cols (i + 1) np R' ∧ Bytes (out ++ bs) ∧
          np.col ≤ cols ∧ R'.g.scrollbackOffset = R.g.scrollbackOffset ∧ (Attrs.wf R.pen → Attrs.wf na) := by
      intro res eres ⟨⟨Ri, hemr, hv, hw⟩, hbb, hnp, hwf, hown⟩
      obtain ⟨bs, np, na⟩ := res
      refine ⟨bs, np, na, shape (wrapBase R i Rp) i Ri np na, eres, emitted_comp h0 e1 w1 r1 hemr, rfl, ?_,
        Bytes.append hb hbb, hnp, rfl, hwf⟩
      exact rowsInvW_next_wrap hinv hi hwd (by omega) hRp hsw hv hw hown
    by_cases hwap : wrapAbove prows i = true
    · -- … and in P: its flag is set on the receiver
      have hpw : prows[i - 1].wrapped = true := by rw [← wrapAbove_eq prows i hi0 hi1lp]; exact hwap
      have hRpw' : Rp.wrapped = true := by rw [hRpw, hpw, hsw]; rfl
      by_cases hfull : pp.row + 1 = i ∧ cols ≤ pp.col
      · -- the cursor is parked in the pending-wrap column
        have hppe : pp = ⟨i - 1, cols⟩ := by
          obtain ⟨r, c⟩ := pp
          simp only at hfull hpp
          simp only [Pos.mk.injEq]; omega
        have hres := row_diff_draws_parked (cb := cb) hW hcb p1 r1 hpi1 hcv1 i (by omega) (by rw [hrs]; exact hir)
          srows[i] prows[i] (by rw [hrs, hinv.hcols]; exact hwd) (by rw [hrs, hinv.hcols]; exact hwdp) (hS.ok _ hmem)
          (hP.ok _ hmemp) Ri0 (by rw [hrs]; exact hRi0) hshowv hshoww Rp (by rw [hrs]; exact hRp) _
          (by rw [hrs]; exact hlastR) hoccR cols (by rw [hrs, hinv.pos]; exact hppe) (Or.inl (by rw [hrs, hinv.hcols]))
          (hnopad hwa hwap hppe) true (Or.inl ⟨rfl, hRpw'⟩) hoccS hoccP hnofb
        rw [hrs, hinv.pos, hwd, hinv.hcols] at hres
        obtain ⟨res, eres, hdone⟩ := hres
        exact hwrapc res (by rw [hwa, hwap]; exact eres) hdone
      · by_cases hsemi : pp.row + 1 = i ∧ pp.col + 1 = cols ∧
            (srows[i].cells[0].wide = true ∧ view srows[i].cells[0] ≠ view prows[i].cells[0])
        · -- the cursor is in the last column and the line starts with a changed wide character
          have hppe : pp = ⟨i - 1, pp.col⟩ := by
            obtain ⟨r, c⟩ := pp
            simp only at hsemi
            simp only [Pos.mk.injEq, and_true]; omega
          have hres := row_diff_draws_parked (cb := cb) hW hcb p1 r1 hpi1 hcv1 i (by omega) (by rw [hrs]; exact hir)
            srows[i] prows[i] (by rw [hrs, hinv.hcols]; exact hwd) (by rw [hrs, hinv.hcols]; exact hwdp) (hS.ok _ hmem)
            (hP.ok _ hmemp) Ri0 (by rw [hrs]; exact hRi0) hshowv hshoww Rp (by rw [hrs]; exact hRp) _
            (by rw [hrs]; exact hlastR) hoccR pp.col (by rw [hrs, hinv.pos]; exact hppe)
            (Or.inr ⟨by rw [hrs, hinv.hcols]; exact hsemi.2.1, hne, hsemi.2.2⟩) (noPad_of_first hne hneP hsemi.2.2.2) true
            (Or.inl ⟨rfl, hRpw'⟩) hoccS hoccP hnofb
          rw [hrs, hinv.pos, hwd, hinv.hcols] at hres
          obtain ⟨res, eres, hdone⟩ := hres
          exact hwrapc res (by rw [hwa, hwap]; exact eres) hdone
        · -- otherwise `wrapping` is irrelevant
          refine hplain (fun _ _ => hpw) ?_
          rw [hwa, hwap]
          have hcolsr : srows[i].cols = cols := hwd
          have e := writeContentsDiff_irrel srows[i] prows[i] 0 cols i true pp R.pen
            (by
              rw [hcolsr]
              refine ⟨by unfold NotFull; exact hfull, ?_⟩
              by_cases hu : Unparked cols i pp
              · exact Or.inl hu
              · right
                have hfo := firstOk_window (S := srows[i].cells) (P := prows[i].cells) (by rw [hwd, hwdp]) (fun _ hc => by
                  apply hsemi
                  unfold Unparked at hu
                  refine ⟨by omega, by omega, hc⟩)
                rw [hwd] at hfo; exact hfo)
            (Or.inr rfl)
          exact e
    · -- … but not in P: its flag is still owed, the cursor is in its pending-wrap column
      have hwap' : wrapAbove prows i = false := by simpa using hwap
      have hpw : prows[i - 1].wrapped = false := by rw [← wrapAbove_eq prows i hi0 hi1lp]; exact hwap'
      have hppe := hinv.owe hi0 (Nat.le_of_lt hi) hsw hpw
      by_cases hfirst : view srows[i].cells[0] = view prows[i].cells[0]
      · have hres := row_diff_draws_owed (cb := cb) hW hcb p1 r1 hpi1 hcv1 i (by omega) (by rw [hrs]; exact hir)
          srows[i] prows[i] (by rw [hrs, hinv.hcols]; exact hwd) (by rw [hrs, hinv.hcols]; exact hwdp) (hS.ok _ hmem)
          (hP.ok _ hmemp) Ri0 (by rw [hrs]; exact hRi0) hshowv hshoww Rp (by rw [hrs]; exact hRp) _
          (by rw [hrs]; exact hlastR) hoccR (by rw [hrs, hinv.pos, hinv.hcols]; exact hppe) (fun _ => hfirst) hoccS hoccP hnofb
        rw [hrs, hinv.pos, hwd, hinv.hcols] at hres
        obtain ⟨res, eres, hdone⟩ := hres
        exact hwrapc res (by rw [hwa, hwap']; exact eres) hdone
      · have hres := row_diff_draws_parked (cb := cb) hW hcb p1 r1 hpi1 hcv1 i (by omega) (by rw [hrs]; exact hir)
          srows[i] prows[i] (by rw [hrs, hinv.hcols]; exact hwd) (by rw [hrs, hinv.hcols]; exact hwdp) (hS.ok _ hmem)
          (hP.ok _ hmemp) Ri0 (by rw [hrs]; exact hRi0) hshowv hshoww Rp (by rw [hrs]; exact hRp) _
          (by rw [hrs]; exact hlastR) hoccR cols (by rw [hrs, hinv.pos]; exact hppe) (Or.inl (by rw [hrs, hinv.hcols]))
          (noPad_of_first hne hneP hfirst) false (Or.inr ⟨hne, hfirst⟩) hoccS hoccP hnofb
        rw [hrs, hinv.pos, hwd, hinv.hcols] at hres
        obtain ⟨res, eres, hdone⟩ := hres
        exact hwrapc res (by rw [hwa, hwap']; exact eres) hdone
  · -- the line above is not wrapped in S
    have hwa' : wrapAbove srows i = false := by simpa using hwa
    refine hplain (fun hi0 hs => ?_) (by rw [hwa'])
    rw [← wrapAbove_eq srows i hi0 (by omega), hwa'] at hs
    exact absurd hs (by simp)

/-- **the loop over the lines**, whatever their wrap flags -/
theorem diff_rows_loop_w (hW : WOk W) (hcb : C13.CbInv W cb) (p0 : Parser) (h0 : Ready p0) (hpi : C13.ParserInv W p0)
    {srows prows : List Row} {cols : Nat} (hS : SrcRows W cols srows) (hP : SrcRows W cols prows)
    (hpl : prows.length = srows.length) :
    ∀ (rs : List (Row × Row)) (i : Nat) (pp : Pos) (out : List Nat) (R : RS),
    (srows.zip prows).drop i = rs → i ≤ srows.length →
    RowsInvW srows prows cols i pp R → Emitted W cb p0 out R → Bytes out → pp.col ≤ cols →
    (∀ k pos, (loopPositions cols rs i (wrapAbove srows i) (wrapAbove prows i) pp R.pen)[k]? = some pos →
      LineOkAt srows prows cols (i + k) pos) →
    ∃ out' pp' pa' R', Grid.diffRowsLoop cols rs i (wrapAbove srows i) (wrapAbove prows i) pp R.pen out = .ok (out', pp', pa') ∧
      Emitted W cb p0 out' R' ∧ R'.pen = pa' ∧ RowsInvW srows prows cols srows.length pp' R' ∧ Bytes out' ∧
      pp'.col ≤ cols ∧ R'.g.scrollbackOffset = R.g.scrollbackOffset ∧ (Attrs.wf R.pen → Attrs.wf pa')
  | [], i, pp, out, R, hrs, hil, hinv, hem, hb, hpp, hokp => by
    have hi : i = srows.length := by
      have := congrArg List.length hrs
      simp only [List.length_drop, List.length_nil, List.length_zip, hpl, Nat.min_self] at this
      omega
    subst hi
    exact ⟨out, pp, R.pen, R, rfl, hem, rfl, hinv, hb, hpp, rfl, id⟩
  | (r, pr) :: rest, i, pp, out, R, hrs, hil, hinv, hem, hb, hpp, hokp => by
    have hi : i < srows.length := by
      have := congrArg List.length hrs
      simp only [List.length_drop, List.length_cons, List.length_zip, hpl, Nat.min_self] at this
      omega
    have hip : i < prows.length := by rw [hpl]; exact hi
    have hiz : i < (srows.zip prows).length := by simp [List.length_zip, hpl]; exact hi
    have hr : (srows[i], prows[i]'hip) = (r, pr) := by
      have := congrArg (fun l => l[0]?) hrs
      simp only [List.getElem?_drop, Nat.add_zero, List.getElem?_eq_getElem hiz, List.getElem?_cons_zero,
        Option.some.injEq, List.getElem_zip] at this
      exact this
    have hrest : (srows.zip prows).drop (i + 1) = rest := by
      have := congrArg List.tail hrs
      simpa [List.tail_drop] using this
    obtain ⟨bs, np, na, R1, ewc, hem1, hpen1, hinv1, hb1, hnp1, hoff1, hwf1⟩ :=
      diff_rows_step_w hW hcb p0 h0 hpi hS hP hi (hokp 0 pp (by simp [loopPositions])) hinv hem hb hpp
    have hrw : r = srows[i] ∧ pr = prows[i] := by
      simp only [Prod.mk.injEq] at hr; exact ⟨hr.1.symm, hr.2.symm⟩
    have hokp' : ∀ k pos, (loopPositions cols rest (i + 1) (wrapAbove srows (i + 1)) (wrapAbove prows (i + 1)) np R1.pen)[k]? = some pos →
        LineOkAt srows prows cols (i + 1 + k) pos := by
      intro k pos hk
      have := hokp (k + 1) pos (by
        simp only [loopPositions, List.getElem?_cons_succ]
        rw [hrw.1, hrw.2, ewc]
        simp only
        rw [← wrapAbove_succ srows i hi, ← wrapAbove_succ prows i hip, ← hpen1]
        exact hk)
      rw [show i + 1 + k = i + (k + 1) by omega]; exact this
    obtain ⟨out', pp', pa', R', e', hem', hpen', hinv', hb', hpp', hoff', hwf'⟩ :=
      diff_rows_loop_w hW hcb p0 h0 hpi hS hP hpl rest (i + 1) np (out ++ bs) R1 hrest (by omega) hinv1 hem1 hb1 hnp1 hokp'
    refine ⟨out', pp', pa', R', ?_, hem', hpen', hinv', hb', hpp', hoff'.trans hoff1, fun h => hwf' (hpen1 ▸ hwf1 h)⟩
    simp only [Prod.mk.injEq] at hr
    rw [← hr.1, ← hr.2]
    simp only [Grid.diffRowsLoop, ewc, ok_bind]
    rw [← hpen1, ← wrapAbove_succ srows i hi, ← wrapAbove_succ prows i hip]
    exact e'

/-- **C02 with changed soft-wrapped lines**: `P` and `S` satisfy the invariants (`SrcScreen`: every reachable screen
that is not scrolled back), have the same size, and every line of the pair satisfies `LineOkAt` at the emitter's cursor (`LinesOkP`: no F8b pattern
on a line wrapped in both, no F8a pattern on a line that follows a line wrapped in both when the emitter's cursor is
parked there; `linesOkP_of_W`: in particular when every line satisfies `LineOkW`).  A receiver satisfying the parser
invariant that reproduces `P`, fed the bytes of `S.state_diff(P)`, reproduces `S`, still satisfies the parser invariant,
and reports no event -/
theorem state_diff_wrapped (hW : WOk W) (hcb : C13.CbInv W cb) {q : Parser} (P S : Screen) (hq : Reproduces q P)
    (hqi : C13.ParserInv W q) (hsz : S.cur.size = P.cur.size) (hS : SrcScreen W S) (hP : SrcScreen W P)
    (hok : LinesOkP S P) :
    ∃ bytes q', S.stateDiff P = .ok bytes ∧ q.process W cb bytes = .ok q' ∧ Reproduces q' S ∧ C13.ParserInv W q' ∧
      q'.ws.events = q.ws.events := by
  have hoffS := hS.off
  have hoffP := hP.off
  have hvS := C19.visibleRows_offset0 S.cur hoffS
  have hvP := C19.visibleRows_offset0 P.cur hoffP
  have hpl : P.cur.rows.length = S.cur.rows.length := by rw [hP.alloc, hS.alloc, hsz]
  -- 1. cursor visibility
  obtain ⟨q1, hcbytes, e1, w1ev, r1, hrs1, hh1, hm1⟩ : ∃ q1 hcb, q.process W cb hcb = .ok q1 ∧ q1.ws.events = q.ws.events ∧
      Ready q1 ∧ rsOf q1.ws = rsOf q.ws ∧ q1.ws.screen.hideCursor = S.hideCursor ∧
      C10.inputModes q1.ws.screen = C10.inputModes q.ws.screen ∧
      hcb = (if S.hideCursor != P.hideCursor then Term.hideCursor S.hideCursor else []) := by
    by_cases hd : (S.hideCursor != P.hideCursor) = true
    · obtain ⟨q1, e1, w1, r1⟩ := C10.process_hideCursor W cb q S.hideCursor hq.ready
      refine ⟨q1, _, e1, by rw [w1], r1, by rw [w1]; exact rsOf_hide _ _, by rw [w1], by rw [w1]; rfl, by rw [if_pos hd]⟩
    · have hd' : S.hideCursor = P.hideCursor := by simpa using hd
      refine ⟨q, [], C04.process_nil W cb q hq.ready.2, rfl, hq.ready, rfl, by rw [hq.hide, hd'], rfl, by rw [if_neg hd]⟩
  have hcbb : Bytes hcbytes := by
    rw [hm1.2]; split
    · exact hideCursor_bytes _
    · exact Bytes.nil
  have hpi1 := parserInv_of_emitted hW.space hcb hqi hcbb e1
  -- 2. the lines
  have hinvW : RowsInvW S.cur.rows P.cur.rows S.cur.size.cols 0 P.cur.pos (rsOf q1.ws) := by
    rw [hrs1]
    have hd := hq.drawn
    refine ⟨hd.canvas, by rw [hd.hcols, hsz], by rw [hd.nrows, hpl], hpl, hd.pos, ?_, fun h => absurd h (Nat.lt_irrefl 0)⟩
    intro k hk
    have hkp : k < P.cur.rows.length := by rw [hpl]; exact hk
    obtain ⟨Rk, hRk, hdone, _⟩ := hd.row k hkp
    obtain ⟨d1, _, d3⟩ := hdone hkp
    refine ⟨Rk, hRk, fun h => absurd h (Nat.not_lt_zero _), fun _ => ⟨d1, ?_⟩⟩
    rw [d3, if_neg (by simp)]
  have hPs : SrcRows W S.cur.size.cols P.cur.rows := by rw [hsz]; exact hP.rows
  obtain ⟨out, np, na, R', eloop, hem', hpen', hinv', hbout, hnp, hoff', hwfna⟩ :=
    diff_rows_loop_w hW hcb q1 r1 hpi1 hS.rows hPs hpl (S.cur.rows.zip P.cur.rows) 0 P.cur.pos []
      (rsOf q1.ws) rfl (Nat.zero_le _) hinvW (emitted_nil W cb q1 r1) Bytes.nil (by rw [hsz]; exact hP.cur_col)
      (fun k pos hk => by
        rw [Nat.zero_add]
        apply hok k pos
        have hw0s : wrapAbove S.cur.rows 0 = false := by simp [wrapAbove]
        have hw0p : wrapAbove P.cur.rows 0 = false := by simp [wrapAbove]
        have hpen1 : (rsOf q1.ws).pen = P.attrs := by rw [hrs1]; exact hq.pen
        rw [hw0s, hw0p, hpen1] at hk
        exact hk)
  have hpen1 : (rsOf q1.ws).pen = P.attrs := by rw [hrs1]; exact hq.pen
  have hw0s : wrapAbove S.cur.rows 0 = false := by simp [wrapAbove]
  have hw0p : wrapAbove P.cur.rows 0 = false := by simp [wrapAbove]
  rw [hpen1, hw0s, hw0p] at eloop
  rw [hpen1] at hwfna
  have hwf : Attrs.wf na := hwfna hP.pen_wf
  have hg' := (emitted_inv hW.space hcb hpi1 hbout hem').1
  have hinvS : RowsInv S.cur.rows S.cur.size.cols S.cur.rows.length false np R' := by
    refine ⟨hinv'.canvas, hinv'.hcols, hinv'.nrows, hinv'.pos, ?_, fun h => by simp at h⟩
    intro k hk
    obtain ⟨Rk, hRk, hlo, _⟩ := hinv'.row k hk
    obtain ⟨hv, hw⟩ := hlo hk
    refine ⟨Rk, hRk, fun _ => ⟨hv, ?_, ?_⟩, fun h => by omega⟩
    · intro c hc
      have hrow := hg'.row_ok Rk (List.mem_of_getElem? hRk)
      have hok := ((rowOk_iff W Rk).mp hrow.2).2.cells_ok c hc
      simp only [cellOk, Bool.and_eq_true, beq_iff_eq] at hok
      exact hok.1.1.1.1
    · have hgoal : (if k + 1 = S.cur.rows.length ∧ false = true then false else S.cur.rows[k].wrapped) =
          S.cur.rows[k].wrapped := by simp
      rw [hgoal, hw]
      by_cases hk1 : k + 1 = S.cur.rows.length
      · rw [if_pos hk1]
        have hlastu : S.cur.rows[k].wrapped = false := by
          apply hS.rows.lastUnwrapped
          rw [List.getLast?_eq_getElem?, ← hk1]
          simp [List.getElem?_eq_getElem hk]
        rw [hlastu]; simp
      · rw [if_neg hk1]
  obtain ⟨cur, ecur, Rf, hemf, hpenf, hinvf, hofff⟩ := cursor_fixup (cb := cb) hW r1 S.cur hS.rows hS.alloc hS.cur_row hS.cur_col
    hem' hpen' hwf hinvS (some np) (fun p hp => by
      have : np = p := Option.some.inj hp
      subst this
      exact ⟨rfl, hnp⟩)
  -- 3. the pen
  have hem2 := emitted_step W cb r1 hemf (step_pen W cb S.attrs na hS.pen_wf)
    (r' := { Rf with pen := S.attrs }) (by simp [hpenf])
  obtain ⟨q2, e2, w2, r2⟩ := hem2
  -- 4. the input modes
  have hm2 : C10.inputModes q2.ws.screen = C10.inputModes P := by
    rw [w2]
    have : C10.inputModes (withRS q1.ws { Rf with pen := S.attrs }).screen = C10.inputModes q1.ws.screen := by
      simp only [C10.inputModes, withRS, Screen.setCur]; split <;> rfl
    rw [this, hm1.1, hq.modes]
  obtain ⟨q3, e3, w3, r3⟩ := C10.process_input_mode_diff W cb q2 S P r2 hm2
  -- assemble
  have egrid : S.cur.writeContentsDiff P.cur P.attrs = .ok (out ++ cur, na) := by
    simp only [Grid.writeContentsDiff, hvS, hvP, ok_bind]
    rw [eloop]
    simp only [ok_bind]
    have : S.cur.writeCursorPositionFormatted (some np) (some na) = .ok cur := ecur
    rw [this]
    simp only [ok_bind, pure_eq_ok]
  have ecd : S.writeContentsDiff P = .ok (hcbytes ++ (out ++ cur) ++ S.attrs.writeEscapeCodeDiff na) := by
    simp only [Screen.writeContentsDiff, egrid, ok_bind, pure_eq_ok, hm1.2]
  have ebytes : S.stateDiff P = .ok ((hcbytes ++ (out ++ cur) ++ S.attrs.writeEscapeCodeDiff na) ++ S.inputModeDiff P) := by
    simp only [Screen.stateDiff, ecd, ok_bind, pure_eq_ok, Screen.inputModeDiff]
  have eproc : q.process W cb ((hcbytes ++ (out ++ cur) ++ S.attrs.writeEscapeCodeDiff na) ++ S.inputModeDiff P) = .ok q3 := by
    have s1 := process_then' (cb := cb) hq.ready e1 r1 e2
    have s2 := process_then' (cb := cb) hq.ready s1 r2 e3
    simpa [List.append_assoc] using s2
  refine ⟨_, q3, ebytes, eproc, ?_, parserInv_of_emitted hW.space hcb hqi (stateDiff_bytes' S P ebytes) eproc, ?_⟩
  · have hrs3 : rsOf q3.ws = { Rf with pen := S.attrs } := by
      rw [w3]
      have : rsOf ({ q2.ws with screen := C10.setInputModes q2.ws.screen (C10.inputModes S) } : WS) = rsOf q2.ws := rfl
      rw [this, w2, rsOf_withRS]
    refine ⟨r3, ?_, by rw [hrs3], ?_, by rw [w3]; rfl, ?_⟩
    · show RowsInv _ _ _ false _ (rsOf q3.ws)
      rw [hrs3]
      have := rowsInv_frame hinvf { Rf with pen := S.attrs } rfl rfl rfl rfl rfl
      rw [show ({ Rf with pen := S.attrs } : RS).g.pos = S.cur.pos from hinvf.pos] at this
      exact this
    · rw [w3]
      show (C10.setInputModes q2.ws.screen (C10.inputModes S)).hideCursor = S.hideCursor
      have : (C10.setInputModes q2.ws.screen (C10.inputModes S)).hideCursor = q2.ws.screen.hideCursor := rfl
      rw [this, w2]
      have : (withRS q1.ws { Rf with pen := S.attrs }).screen.hideCursor = q1.ws.screen.hideCursor := by
        simp only [withRS, Screen.setCur]; split <;> rfl
      rw [this, hh1]
    · rw [hrs3]
      show Rf.g.scrollbackOffset = 0
      rw [hofff, hoff', hrs1]; exact hq.off
  · rw [w3]
    show q2.ws.events = q.ws.events
    rw [w2]
    show q1.ws.events = q.ws.events
    exact w1ev

/-- what is asked of a link `P → S` of a chain: both satisfy the invariants (every reachable screen), are not
scrolled back, have the same size, and the lines of the pair satisfy `LinesOkP` -/
structure LinkW (W : Nat → Option Nat) (P S : Screen) : Prop where
  invP : emitInvB W P = true
  invS : emitInvB W S = true
  offP : P.cur.scrollbackOffset = 0
  offS : S.cur.scrollbackOffset = 0
  size : S.cur.size = P.cur.size
  lines : LinesOkP S P

/-- every consecutive pair of `P :: Ss` is a link -/
def LinksW (W : Nat → Option Nat) : Screen → List Screen → Prop
  | _, [] => True
  | P, S :: rest => LinkW W P S ∧ LinksW W S rest

/-- **C02 along chains, changed soft-wrapped lines included** -/
theorem chain_wrapped (hW : WOk W) (hcb : C13.CbInv W cb) :
    ∀ (Ss : List Screen) (q : Parser) (P : Screen), Reproduces q P → C13.ParserInv W q → LinksW W P Ss →
      ∃ q', feedDiffs W cb q P Ss = .ok q' ∧ Reproduces q' ((P :: Ss).getLast (by simp)) ∧ C13.ParserInv W q' ∧
        q'.ws.events = q.ws.events
  | [], q, P, hq, hqi, _ => ⟨q, rfl, by simpa using hq, hqi, rfl⟩
  | S :: rest, q, P, hq, hqi, hl => by
    obtain ⟨hPS, hrest⟩ := hl
    obtain ⟨bytes, q1, eb, ep, hrep, hinv1, hev⟩ := state_diff_wrapped (cb := cb) hW hcb P S hq hqi hPS.size
      (srcScreen_of_inv hPS.invS hPS.offS) (srcScreen_of_inv hPS.invP hPS.offP) hPS.lines
    obtain ⟨q', e', hrep', hinv', hev'⟩ := chain_wrapped hW hcb rest q1 S hrep hinv1 hrest
    refine ⟨q', ?_, ?_, hinv', hev'.trans hev⟩
    · simp only [feedDiffs, eb, ok_bind, ep]
      exact e'
    · rw [List.getLast_cons (by simp)]
      exact hrep'

/-! ### the new theorem subsumes the old one -/

/-- a plain line (unwrapped in both screens, line above unwrapped in S) and a frozen line (looks the same in both
screens) of `DiffGrid2.state_diff_mixed` satisfy `LineOkW`: `state_diff_wrapped` subsumes `state_diff_mixed` -/
theorem lineOkW_of_lineOk {srows prows : List Row} (hS : ∀ r ∈ srows, SrcOk W r.cells) (i : Nat)
    (h : LineOk srows prows i) : LineOkW srows prows i := by
  intro r p hr hp
  rcases h with ⟨hsu, _, hwa⟩ | ⟨⟨r', p', er, ep, hsame⟩, _⟩
  · simp only [hr, Option.map_some, Option.getD_some] at hsu
    refine ⟨fun h => ?_, fun h => ?_⟩
    · rw [hsu] at h; exact absurd h (by simp)
    · rw [hwa] at h; exact absurd h (by simp)
  · have e1 : r' = r := by rw [hr] at er; exact (Option.some.inj er).symm
    have e2 : p' = p := by rw [hp] at ep; exact (Option.some.inj ep).symm
    subst e1 e2
    have hviews := map_view_of_listRel hsame.2
    obtain ⟨hl, hv⟩ := full_get (S := p'.cells) (Ri := r') hviews
    refine ⟨fun _ _ => ?_, fun _ _ => ?_⟩
    · unfold noF8b
      split
      · rename_i n hn
        have hnr : n < r'.cells.length := by omega
        have hnp : n < p'.cells.length := by omega
        simp only [C05.flagAt, List.getElem?_eq_getElem hnr, List.getElem?_eq_getElem hnp, Option.map_some, Option.getD_some,
          Bool.or_eq_true, Bool.not_eq_true']
        cases hw : p'.cells[n].wide
        · exact Or.inl rfl
        · right
          have hrw : r'.cells[n].wide = true := by rw [view_wide (hv n hnp)]; exact hw
          exact wide_has_contents ((hS r' (List.mem_of_getElem? hr)).cells_ok _ (List.getElem_mem hnr)) hrw
      · rfl
    · intro k hk hkP _ _ hne
      exact absurd (hv k hkP) hne

/-- `DiffGrid2.state_diff_mixed`, re-derived from `state_diff_wrapped` -/
theorem state_diff_mixed_of_wrapped (hW : WOk W) (hcb : C13.CbInv W cb) {q : Parser} (P S : Screen) (hq : Reproduces q P)
    (hqi : C13.ParserInv W q) (hsz : S.cur.size = P.cur.size) (hS : SrcScreen W S) (hP : SrcScreen W P)
    (hok : ∀ i, i < S.cur.rows.length → LineOk S.cur.rows P.cur.rows i) :
    ∃ bytes q', S.stateDiff P = .ok bytes ∧ q.process W cb bytes = .ok q' ∧ Reproduces q' S ∧ C13.ParserInv W q' ∧
      q'.ws.events = q.ws.events :=
  state_diff_wrapped hW hcb P S hq hqi hsz hS hP
    (linesOkP_of_W (fun i hi => lineOkW_of_lineOk (fun r hr => hS.rows.ok r hr) i (hok i hi)))

/-- `LineOkW` as a Boolean function, for evaluation -/
def lineOkWB (srows prows : List Row) (i : Nat) : Bool :=
  match srows[i]?, prows[i]? with
  | some r, some p =>
    (!(r.wrapped && p.wrapped) || noF8b r.cells p.cells) &&
      (!(wrapAbove srows i && wrapAbove prows i) || decide (NoPad r.cells p.cells))
  | _, _ => true

theorem lineOkW_of_B {srows prows : List Row} {i : Nat} (h : lineOkWB srows prows i = true) : LineOkW srows prows i := by
  intro r p hr hp
  unfold lineOkWB at h
  rw [hr, hp] at h
  simp only [Bool.and_eq_true, Bool.or_eq_true, Bool.not_eq_true', Bool.and_eq_false_imp, decide_eq_true_eq] at h
  refine ⟨fun h1 h2 => ?_, fun h1 h2 => ?_⟩
  · rcases h.1 with h' | h'
    · rw [h' h1] at h2; exact absurd h2 (by simp)
    · exact h'
  · rcases h.2 with h' | h'
    · rw [h' h1] at h2; exact absurd h2 (by simp)
    · exact h'

/-- `LineOkAt` as a Boolean function -/
def lineOkAtB (srows prows : List Row) (cols i : Nat) (pp : Pos) : Bool :=
  match srows[i]?, prows[i]? with
  | some r, some p =>
    (!(r.wrapped && p.wrapped) || noF8b r.cells p.cells) &&
      (!(wrapAbove srows i && wrapAbove prows i && decide (pp = ⟨i - 1, cols⟩)) || decide (NoPad r.cells p.cells))
  | _, _ => true

theorem lineOkAt_of_B {srows prows : List Row} {cols i : Nat} {pp : Pos} (h : lineOkAtB srows prows cols i pp = true) :
    LineOkAt srows prows cols i pp := by
  intro r p hr hp
  unfold lineOkAtB at h
  rw [hr, hp] at h
  simp only [Bool.and_eq_true, Bool.or_eq_true, Bool.not_eq_true', Bool.and_eq_false_imp, decide_eq_true_eq,
    decide_eq_false_iff_not] at h
  refine ⟨fun h1 h2 => ?_, fun h1 h2 h3 => ?_⟩
  · rcases h.1 with h' | h'
    · rw [h' h1] at h2; exact absurd h2 (by simp)
    · exact h'
  · rcases h.2 with h' | h'
    · exact absurd h3 (h' ⟨h1, h2⟩)
    · exact h'

/-- `LinesOkP` as a Boolean function, for evaluation -/
def linesOkPB (S P : Screen) : Bool :=
  let L := loopPositions S.cur.size.cols (S.cur.rows.zip P.cur.rows) 0 false false P.cur.pos P.attrs
  (List.range L.length).all (fun k =>
    match L[k]? with
    | some pos => lineOkAtB S.cur.rows P.cur.rows S.cur.size.cols k pos
    | none => true)

theorem linesOkP_of_B {S P : Screen} (h : linesOkPB S P = true) : LinesOkP S P := by
  intro k pos hk
  unfold linesOkPB at h
  simp only [List.all_eq_true, List.mem_range] at h
  have := h k (getElem?_lt hk)
  rw [hk] at this
  exact lineOkAt_of_B this

/-- every line of the pair satisfies `LineOkW` (Boolean) -/
def linesOkWB (S P : Screen) : Bool := (List.range S.cur.rows.length).all (lineOkWB S.cur.rows P.cur.rows)

theorem linesOkW_of_B {S P : Screen} (h : linesOkWB S P = true) : ∀ i, i < S.cur.rows.length → LineOkW S.cur.rows P.cur.rows i := by
  intro i hi
  unfold linesOkWB at h
  rw [List.all_eq_true] at h
  exact lineOkW_of_B (h i (List.mem_range.mpr hi))

/-- **C02, as the property states it, with changed soft-wrapped lines**: a new parser fed `S0.state_formatted()` and
then the diffs of any chain of snapshots whose links satisfy `LinkW` ends in the observable state of the last one, and
reports no event -/
theorem diff_chain_after_redraw_wrapped (hW : WOk W) (hcb : C13.CbInv W cb) (S0 : Screen) (Ss : List Screen)
    (h0 : emitInvB W S0 = true) (hoff0 : S0.cur.scrollbackOffset = 0) (hl : LinksW W S0 Ss)
    (hlast : emitInvB W ((S0 :: Ss).getLast (by simp)) = true ∧ ((S0 :: Ss).getLast (by simp)).cur.scrollbackOffset = 0)
    (sb : Nat) :
    ∃ q b0 q0 qn, Parser.new S0.cur.size.rows S0.cur.size.cols sb = .ok q ∧ S0.stateFormatted = .ok b0 ∧
      q.process W cb b0 = .ok q0 ∧ feedDiffs W cb q0 S0 Ss = .ok qn ∧
      obs qn.screen = obs ((S0 :: Ss).getLast (by simp)) ∧ qn.ws.events = [] := by
  obtain ⟨q, b0, q0, enew, eb0, ep0, hrep0, hinv0, hev0⟩ := reproduces_of_redraw_inv (cb := cb) hW hcb S0 h0 hoff0 sb
  obtain ⟨qn, en, hrepn, _, hevn⟩ := chain_wrapped (cb := cb) hW hcb Ss q0 S0 hrep0 hinv0 hl
  have hSl := srcScreen_of_inv hlast.1 hlast.2
  refine ⟨q, b0, q0, qn, enew, eb0, ep0, en, shows_obs (shows_of_reproduces hrepn hSl.alloc) hrepn.modes hlast.2, ?_⟩
  rw [hevn, hev0]

/-! ### the hypotheses are satisfiable by pairs with CHANGED wrapped lines; the F8a / F8b witnesses are excluded
(kernel-evaluated; tests) -/

/-- the Boolean form of `LinkW` plus "some line that is wrapped (in S or P) or follows a line wrapped in S is changed" -/
def linkWB (P S : Screen) : Bool :=
  emitInvB W0 P && emitInvB W0 S && P.cur.scrollbackOffset == 0 && S.cur.scrollbackOffset == 0 &&
    S.cur.size == P.cur.size && linesOkPB S P

theorem linkW_of_B {P S : Screen} (h : linkWB P S = true) : LinkW W0 P S := by
  simp only [linkWB, Bool.and_eq_true, beq_iff_eq] at h
  obtain ⟨⟨⟨⟨⟨h1, h2⟩, h3⟩, h4⟩, h5⟩, h6⟩ := h
  exact ⟨h1, h2, h3, h4, h5, linesOkP_of_B h6⟩

def changedWrappedLine (P S : Screen) (i : Nat) : Bool :=
  match S.cur.rows[i]?, P.cur.rows[i]? with
  | some r, some p => (r.wrapped || p.wrapped || wrapAbove S.cur.rows i) && (r.cells.map view != p.cells.map view)
  | _, _ => false

/-- non-vacuity 1 — a paragraph grows: P = "abcdefgh" on 3x6 (line 0 wrapped), S = P then "ijklmnop" (lines 0 and 1
wrapped, line 1 has JUST become wrapped: its flag is owed, `diffStart` does not fire since line 2's first cell is
changed; lines 1 and 2 are changed and follow a wrapped line) -/
theorem linkW_nonvacuous_grow :
    isOkTrue (do
      let p ← C02.run 3 6 0 [[97, 98, 99, 100, 101, 102, 103, 104]]
      let s ← p.process W0 cbNone [105, 106, 107, 108, 109, 110, 111, 112]
      pure (linkWB p.screen s.screen && changedWrappedLine p.screen s.screen 1 && changedWrappedLine p.screen s.screen 2 &&
        ((s.screen.cur.rows[1]?).map (·.wrapped)).getD false && !((p.screen.cur.rows[1]?).map (·.wrapped)).getD false)) = true := by
  decide +kernel

/-- non-vacuity 2 — editing inside a wrapped paragraph: both screens show a paragraph wrapped over lines 0-1-2 of a
3x5 screen; S has a character of line 0 replaced, a wide character typed on line 1 (both lines wrapped in P and S, both
changed), and line 2 rewritten from its second column with a blank erased at its end -/
theorem linkW_nonvacuous_edit :
    isOkTrue (do
      let p ← C02.run 3 5 0 [[97, 98, 99, 100, 101, 102, 103, 104, 105, 106, 107, 108, 109]]
      let s ← p.process W0 cbNone [0x1b, 0x5b, 0x31, 0x3b, 0x32, 0x48, 120, 0x1b, 0x5b, 0x32, 0x3b, 0x32, 0x48, 0xe4, 0xb8, 0x80,
        0x1b, 0x5b, 0x33, 0x3b, 0x32, 0x48, 121, 0x1b, 0x5b, 0x58]
      pure (linkWB p.screen s.screen && changedWrappedLine p.screen s.screen 0 && changedWrappedLine p.screen s.screen 1 &&
        changedWrappedLine p.screen s.screen 2 &&
        ((s.screen.cur.rows[0]?).map (·.wrapped)).getD false && ((p.screen.cur.rows[0]?).map (·.wrapped)).getD false &&
        ((s.screen.cur.rows[1]?).map (·.wrapped)).getD false && ((p.screen.cur.rows[1]?).map (·.wrapped)).getD false)) = true := by
  decide +kernel

/-- non-vacuity 3 — a wrapped line becomes unwrapped (EL in the middle of line 0 of a wrapped paragraph), and a line
that was not wrapped becomes wrapped by typing over its end -/
theorem linkW_nonvacuous_flags :
    isOkTrue (do
      let p ← C02.run 4 4 0 [[97, 98, 99, 100, 101, 102, 13, 10, 103, 104]]
      let s ← p.process W0 cbNone [105, 106, 107, 0x1b, 0x5b, 0x31, 0x3b, 0x33, 0x48, 0x1b, 0x5b, 0x4b]
      pure (linkWB p.screen s.screen && changedWrappedLine p.screen s.screen 0 &&
        ((p.screen.cur.rows[0]?).map (·.wrapped)).getD false && !((s.screen.cur.rows[0]?).map (·.wrapped)).getD false &&
        !((p.screen.cur.rows[2]?).map (·.wrapped)).getD false && ((s.screen.cur.rows[2]?).map (·.wrapped)).getD false)) = true := by
  decide +kernel

/-- non-vacuity 4 — where `LinesOkP` is weaker than `LineOkW` on every line: "abcdefgh" wraps on a 3x4 screen; S has
the third cell of line 1 erased (the first changed cell of a line that follows a line wrapped in both screens is a blank
in column 2: `NoPad` fails, `linesOkWB` is false) — but the emitter's cursor is not parked at the end of line 0 (nothing
was written for line 0, the cursor is where P's cursor was), so no padding is emitted and `LinesOkP` holds -/
theorem linkW_nonvacuous_positional :
    isOkTrue (do
      let p ← C02.run 3 4 0 [[97, 98, 99, 100, 101, 102, 103, 104]]
      let s ← p.process W0 cbNone [0x1b, 0x5b, 0x32, 0x3b, 0x33, 0x48, 0x1b, 0x5b, 0x58]
      pure (linkWB p.screen s.screen && !linesOkWB s.screen p.screen && changedWrappedLine p.screen s.screen 1)) = true := by
  decide +kernel

/-- the F8a witness pair (2x2, "jwme" then "m") does NOT satisfy the side conditions: line 1 follows a line wrapped in
both screens and its first changed cell is a blank in column 1 (`NoPad` fails) -/
theorem F8a_excluded :
    isOkTrue (do
      let p ← C02.run 2 2 0 [[106, 119, 109, 101]]
      let s ← p.process W0 cbNone [109]
      pure (!linesOkPB s.screen p.screen && !linesOkWB s.screen p.screen && !lineOkWB s.screen.cur.rows p.screen.cur.rows 1 &&
        lineOkWB s.screen.cur.rows p.screen.cur.rows 0)) = true := by
  decide +kernel

/-- the F8b witness pair (3x4, P = "ab一c", S = "ab" CUF "x" "c") does NOT satisfy the side conditions: line 0 is wrapped
in both screens, P has a wide character in column 2 = cols-2 and S a blank there (`noF8b` fails) -/
theorem F8b_excluded :
    isOkTrue (do
      let p ← C02.run 3 4 0 [[97, 98, 0xE4, 0xB8, 0x80, 99]]
      let s ← C02.run 3 4 0 [[97, 98, 0x1b, 0x5b, 0x43, 120, 99]]
      pure (!linesOkPB s.screen p.screen && !linesOkWB s.screen p.screen && !lineOkWB s.screen.cur.rows p.screen.cur.rows 0)) = true := by
  decide +kernel

/-- the other F8b pattern (3x5, P = "abc一d", S = "ab一zd": a wide character typed at cols-3 over a wide character at
cols-2) is excluded too -/
theorem F8b2_excluded :
    isOkTrue (do
      let p ← C02.run 3 5 0 [[97, 98, 99, 0xE4, 0xB8, 0x80, 100]]
      let s ← C02.run 3 5 0 [[97, 98, 0xE4, 0xB8, 0x80, 122, 100]]
      pure (!linesOkPB s.screen p.screen && !linesOkWB s.screen p.screen && !lineOkWB s.screen.cur.rows p.screen.cur.rows 0 &&
        isOkFalse (diffReproduces p.screen s.screen))) = true := by
  decide +kernel

/-- the theorem APPLIED to the pair of `linkW_nonvacuous_grow` (a wrapped paragraph that grows by two lines; callbacks
`cbNone`, width function `W0`): a new parser fed `P.state_formatted()` and then `S.state_diff(P)` ends in the observable
state of `S` — by `diff_chain_after_redraw_wrapped`, not by evaluation -/
theorem diff_grow_instance (p s : Parser) (e1 : C02.run 3 6 0 [[97, 98, 99, 100, 101, 102, 103, 104]] = .ok p)
    (e2 : p.process W0 cbNone [105, 106, 107, 108, 109, 110, 111, 112] = .ok s) (sb : Nat) :
    ∃ q b0 q0 qn, Parser.new p.screen.cur.size.rows p.screen.cur.size.cols sb = .ok q ∧ p.screen.stateFormatted = .ok b0 ∧
      q.process W0 cbNone b0 = .ok q0 ∧ feedDiffs W0 cbNone q0 p.screen [s.screen] = .ok qn ∧
      obs qn.screen = obs s.screen ∧ qn.ws.events = [] := by
  have h := linkW_nonvacuous_grow
  simp only [e1, e2, ok_bind, pure_eq_ok, isOkTrue, Bool.and_eq_true] at h
  have hl := linkW_of_B h.1.1.1.1
  exact diff_chain_after_redraw_wrapped (cb := cbNone) C01.wOk_W0 InvAll.cbNone_all.1 p.screen [s.screen] hl.invP hl.offP
    ⟨hl, trivial⟩ ⟨hl.invS, hl.offS⟩ sb

end Vt.C02
