/-
  C08 — insert/delete and scrolling shift exactly the region they address.

  * `lf_inside` : LF/VT/FF strictly above the bottom margin (or below the region, above the last
    line) moves the cursor down one line and changes nothing else.
  * `lf_last_line_outside` : on the last line outside the region, LF does nothing.
  * `su_bounded`, `sd_bounded`, `scrollDown_trips`, `insertLines_trips` : the trip counts are
    bounded by the screen dimensions whatever the parameter (C03's cost clause; after the `fix:`
    commit 05acf7d).
  (these four are facts about the trip-count expressions, `min count rows ≤ rows`, nothing more).
  The closed forms are in C08b (IL / DL / SU / SD for every n), C08c (ICH / DCH on every well-formed line) and C08lfri
  (LF / VT / FF and RI for every count, whole-record; SU / SD whole-record).
-/
import Vt.Lemmas.Inv
namespace Vt.C08
open Vt
set_option linter.unusedSimpArgs false

theorem iterateM_zero {σ} (f : σ → M σ) (s : σ) : iterateM 0 f s = .ok s := rfl

/-- LF with room below: only the cursor row changes -/
theorem lf_inside (g : Grid) (hr : 1 ≤ g.size.rows)
    (h : g.pos.row + 1 ≤ (if g.inScrollRegion then g.scrollBottom else g.size.rows - 1))
    (hb : g.pos.row + 1 ≤ 65535) (ht : g.scrollTop ≤ g.size.rows) :
    g.rowIncScroll 1 = .ok ({ g with pos := ⟨g.pos.row + 1, g.pos.col⟩ }, 0) := by
  simp only [Grid.rowIncScroll, satAddU16, U16_MAX]
  rw [rowClampBottom_spec _ _ (by simpa using hr)]
  have e1 : min (g.pos.row + 1) 65535 = g.pos.row + 1 := by omega
  simp only [e1, ok_bind, pure_bind']
  cases hin : g.inScrollRegion
  · simp only [hin, Bool.false_eq_true, ↓reduceIte] at h ⊢
    have : min (g.pos.row + 1) (g.size.rows - 1) = g.pos.row + 1 := by omega
    simp [this]
  · simp only [hin, ↓reduceIte] at h ⊢
    have e2 : min (g.pos.row + 1) g.scrollBottom = g.pos.row + 1 := by omega
    have e3 : g.pos.row + 1 - g.scrollBottom = 0 := by omega
    simp only [e2, e3, Grid.scrollUp, subM_ok ht, ok_bind, Nat.zero_min, iterateM_zero]
    rfl

/-- LF on the last line when that line lies outside the scroll region: nothing happens -/
theorem lf_last_line_outside (g : Grid) (hr : 1 ≤ g.size.rows) (hin : g.inScrollRegion = false)
    (hl : g.pos.row = g.size.rows - 1) (hb : g.size.rows ≤ 65535) :
    g.rowIncScroll 1 = .ok (g, 0) := by
  simp only [Grid.rowIncScroll, satAddU16, U16_MAX, hin]
  rw [rowClampBottom_spec _ _ (by simpa using hr)]
  simp only [ok_bind, pure_bind', Bool.false_eq_true, ↓reduceIte, pure_eq_ok, Except.ok.injEq,
    Prod.mk.injEq, and_true]
  have : min (min (g.pos.row + 1) 65535) (g.size.rows - 1) = g.pos.row := by omega
  rw [this]

/-- trip counts never exceed the screen dimensions -/
theorem su_bounded (count rows top : Nat) (h : top ≤ rows) : min count (rows - top) ≤ rows := by omega
theorem sd_bounded (count rows : Nat) : min count rows ≤ rows := by omega

theorem scrollDown_trips (g : Grid) (count : Nat) :
    g.scrollDown count = iterateM (min count g.size.rows) (fun g => do
      let (_, rows) ← removeM 440 g.rows g.scrollBottom
      let rows ← insertM 441 rows g.scrollTop g.newRow
      let rows ← modifyM 442 rows g.scrollBottom (fun r => pure (r.wrap false))
      pure { g with rows := rows }) g := rfl

theorem insertLines_trips (g : Grid) (count : Nat) :
    g.insertLines count = iterateM (min count g.size.rows) (fun g => do
      let (_, rows) ← removeM 430 g.rows g.scrollBottom
      let rows ← insertM 431 rows g.pos.row g.newRow
      let rows ← modifyM 432 rows g.scrollBottom (fun r => pure (r.wrap false))
      pure { g with rows := rows }) g := rfl

end Vt.C08
