import Vt.Props.C08
import Vt.Props.C08b
import Vt.Props.C12c
import Vt.Lemmas.Screen
import Vt.Spec.Obs
/-
  Scratch.C08lfri — C08: closed forms for LF / VT / FF (`Grid::row_inc_scroll`) and RI (`Grid::row_dec_scroll`),
  as WHOLE-RECORD equalities on `Grid` (rows, cursor, saved cursor, margins, origin flags, history, capacity,
  offset: "nothing else changes" is part of every statement), for every count `n`.

  §1  `scrollUp_plain`   SU n, nothing recorded, whole record (C08b's `scrollUp_rows` gives rows + frame only)
      `scrollUp_closed`  SU n = `suClosed` : `suPlain` (above ++ shiftUp region ++ below) if nothing is recorded,
                         C12's `recordN` (`scrollUp_records`, extended to every n by `scrollUp_cap`) otherwise
      `scrollDown_closed` SD n = `sdClosed` (C08b's `scrollDown_eq` on the canonical split)
  §2  `rowIncScroll_spec` / `lf_spec` : `g.rowIncScroll n = .ok (lfClosed g n)`
      `rowIncScroll_eq_scrollUp` : inside the region it IS "cursor to min(row+n, bottom); scroll_up(excess)"
      (a) `lf_stay`  (b) `lf_scroll`, `lf_scroll_plain`, `lf_scroll_record`  (c) `lf_outside`
      n = 1: `lf1_down`, `lf1_scroll` (+ `suPlain_one`), `lf1_last`
  §3  `rowDecScroll_spec` / `ri_spec` : `g.rowDecScroll n = .ok (riClosed g n)`
      (a) `ri_stay`  (b) `ri_scroll`, `ri_scroll_rows`  (c') `ri_outside_edge`  `ri_blank` (n ≥ row + rows)
      n = 1: `ri1_up`, `ri1_scroll` (+ `sdClosed_one`), `ri1_line0_above`
  §4  `perform_lf` (execute 10/11/12), `perform_ri` (ESC M); `perform_ind_unhandled`, `perform_nel_unhandled`,
      `perform_c1_unhandled`: IND (ESC D), NEL (ESC E) and the C1 forms are NOT implemented by the crate.
  §5  non-vacuity: kernel-evaluated runs of the model on a 5×3 screen with the region = lines 1..3.

  Hypotheses.  RI needs only `scrollTop ≤ scrollBottom < rows.length` (no bound on the cursor).  LF needs `Live g`:
  `1 ≤ rows`, `rows.length = size.rows`, `top ≤ bottom < rows`, and (only for the recording case)
  `history.length ≤ capacity`, `offset ≤ history.length` — all fields of `GridInv W g true` (`live_of_inv`).
  The case lemmas that simplify the u16 saturation also use `size.rows ≤ 65535`.

  What turned out different from the informal reading of C08:
  * RI from OUTSIDE the region with `n > row` (for `n = 1`: on line 0 above an active region) stops at line 0 but
    DOES scroll the region down by `n - row`: `extra_lines` in `row_dec_scroll` is not guarded by
    `in_scroll_region` (`ri_outside_edge`, `ri1_line0_above`, witness `ri_line0_above_witness`).  This is the
    case C08's quantifier already excludes (DESIGN §5.3); the closed form says exactly what happens there.
  * A downward move that starts ABOVE the region is not stopped by the bottom margin: it runs through the region to
    the last line of the screen without scrolling (`lf_outside`); symmetrically an upward move from BELOW the
    region runs through it to line 0 (`ri_stay` with the `else 0` limit).
  * `row + n` saturates at 65535 before the excess is taken (`lfTarget`): on a 65535-line screen LF×n on the last
    line scrolls by `65535 - bottom`, not by `row + n - bottom`.  Irrelevant for the actions (`n = 1`), explicit in
    the general form; `lfTarget_eq` removes it when `row + n ≤ 65535`.
-/
namespace Vt.C08lfri
open Vt Vt.C08 Vt.C12
set_option linter.unusedSimpArgs false

variable {W : Nat → Option Nat} {cb : CbPolicy}

/-! ## 0. vocabulary -/

/-- the grid with the cursor moved to line `r` (same column); nothing else differs -/
def withRow (g : Grid) (r : Nat) : Grid := { g with pos := ⟨r, g.pos.col⟩ }

/-- the lines above the top margin -/
def above (g : Grid) : List Row := g.rows.take g.scrollTop
/-- the lines of the scroll region, top margin to bottom margin -/
def region (g : Grid) : List Row := (g.rows.drop g.scrollTop).take (g.scrollBottom + 1 - g.scrollTop)
/-- the lines below the bottom margin -/
def below (g : Grid) : List Row := g.rows.drop (g.scrollBottom + 1)

theorem split_region (g : Grid) (hle : g.scrollTop ≤ g.scrollBottom) (hb : g.scrollBottom < g.rows.length) :
    Split g g.scrollTop (above g) (region g) (below g) := split_at g g.scrollTop hle hb

theorem rows_eq (g : Grid) (hle : g.scrollTop ≤ g.scrollBottom) (hb : g.scrollBottom < g.rows.length) :
    g.rows = above g ++ region g ++ below g := (split_region g hle hb).rows

theorem region_length (g : Grid) (hle : g.scrollTop ≤ g.scrollBottom) (hb : g.scrollBottom < g.rows.length) :
    (region g).length = g.scrollBottom + 1 - g.scrollTop := by
  simp only [region, List.length_take, List.length_drop]; omega

@[simp] theorem above_withRow (g : Grid) (r : Nat) : above (withRow g r) = above g := rfl
@[simp] theorem region_withRow (g : Grid) (r : Nat) : region (withRow g r) = region g := rfl
@[simp] theorem below_withRow (g : Grid) (r : Nat) : below (withRow g r) = below g := rfl

/-! ## 1. whole-record closed forms of `scroll_up` / `scroll_down` -/

/-- nothing is recorded: capacity 0 or an active scroll region -/
def NoRecord (g : Grid) : Prop :=
  g.scrollbackLen = 0 ∨ g.scrollTop ≠ 0 ∨ g.scrollBottom ≠ g.size.rows - 1

instance (g : Grid) : Decidable (NoRecord g) := by unfold NoRecord; infer_instance

/-- SU `n` when nothing is recorded, as a WHOLE-RECORD equality (C08b's `scrollUp_rows` gives the rows and the
frame; this adds: saved cursor, origin flags, history, capacity and offset are untouched) -/
theorem scrollUp_plain (g : Grid) (A R C : List Row) (h : Split g g.scrollTop A R C)
    (ht : g.scrollTop ≤ g.size.rows) (hr : 1 ≤ g.size.rows) (hno : NoRecord g) (n : Nat) :
    g.scrollUp n = .ok (withRows g (A ++ shiftUp R (min n (g.size.rows - g.scrollTop)) g.newRow ++ C)) := by
  rw [scrollUp_unfold]
  simp only [subM_ok ht, ok_bind]
  have step : ∀ k s, s = withRows g (A ++ shiftUp R k g.newRow ++ C) →
      ∃ s', suStep s = .ok s' ∧ s' = withRows g (A ++ shiftUp R (k + 1) g.newRow ++ C) := by
    intro k s hs
    subst hs
    have hne := shiftUp_ne_nil R k g.newRow h.nonempty
    cases hS : shiftUp R k g.newRow with
    | nil => exact absurd hS hne
    | cons r0 R' =>
      refine ⟨_, ?_, rfl⟩
      have hb : g.scrollBottom + 1 = A.length + (r0 :: R').length := by
        have h1 := congrArg List.length hS; rw [shiftUp_length] at h1
        have := h.range; rw [← h1]; omega
      have hnew : (withRows g (A ++ r0 :: R' ++ C)).newRow = g.newRow := rfl
      have hrows' : A ++ R' ++ g.newRow :: C = A ++ shiftUp R (k + 1) g.newRow ++ C := by
        rw [← shiftUp_succ R k _ h.nonempty, hS]; simp
      simp only [suStep]
      rw [show (withRows g (A ++ r0 :: R' ++ C)).rows = A ++ (r0 :: R') ++ C by simp [withRows],
        show (withRows g (A ++ r0 :: R' ++ C)).scrollBottom = g.scrollBottom from rfl,
        show (withRows g (A ++ r0 :: R' ++ C)).scrollTop = g.scrollTop from rfl, hnew, hb, insert_after]
      simp only [ok_bind]
      have hrem := remove_first 439 A R' (g.newRow :: C) r0
      rw [h.above] at hrem
      rw [hrem]
      simp only [ok_bind, hrows']
      by_cases hcap : g.scrollbackLen = 0
      · simp [withRows, hcap]
      · have hact : (g.scrollTop != 0 || g.scrollBottom != g.size.rows - 1) = true := by
          rcases hno with h0 | h0 | h0
          · exact absurd h0 hcap
          · simp [h0]
          · simp [h0]
        have hpos : 0 < g.scrollbackLen := by omega
        simp [withRows, Grid.scrollRegionActive, subM_ok hr, hpos, hact]
  obtain ⟨s', e, hs'⟩ := iterateM_inv_idx (fun k s => s = withRows g (A ++ shiftUp R k g.newRow ++ C)) suStep
    (min n (g.size.rows - g.scrollTop)) g (by simp [withRows, shiftUp_zero, ← h.rows]) (fun k s _ hs => step k s hs)
  rw [e, hs']


/-- SU beyond the screen height is SU by the screen height (full-screen region) -/
theorem scrollUp_cap (g : Grid) (n : Nat) (ht : g.scrollTop = 0) : g.scrollUp n = g.scrollUp (min n g.size.rows) := by
  rw [scrollUp_unfold, scrollUp_unfold]
  simp only [ht, subM_ok (Nat.zero_le _), ok_bind, Nat.sub_zero]
  rw [Nat.min_assoc, Nat.min_self]

/-- SU `n` when lines ARE recorded (full-screen region, capacity > 0): C12's `recordN`, for every `n` -/
theorem scrollUp_recording (g : Grid) (n : Nat) (hN : 0 < g.scrollbackLen) (ht : g.scrollTop = 0)
    (hb : g.scrollBottom = g.size.rows - 1) (hlen : g.rows.length = g.size.rows)
    (hsb : g.scrollback.length ≤ g.scrollbackLen) (hoff : g.scrollbackOffset ≤ g.scrollback.length) :
    g.scrollUp n = .ok (recordN g (min n g.size.rows)) := by
  rw [scrollUp_cap g n ht]
  exact scrollUp_records g _ hN ht hb hlen (Nat.min_le_right _ _) hsb hoff

/-- the grid after SU `k`, nothing recorded: the region's lines move up by `min k (rows - top)`, blank lines
come in at the bottom margin; every other field of the record is the old one -/
def suPlain (g : Grid) (k : Nat) : Grid :=
  withRows g (above g ++ shiftUp (region g) (min k (g.size.rows - g.scrollTop)) g.newRow ++ below g)

/-- **the grid after SU `k`** (= `scroll_up(k)`), all cases: `recordN` (C12: the top `min k rows` lines are appended
to the history, the offset follows) when the region is the whole screen and the capacity is not 0, `suPlain`
otherwise -/
def suClosed (g : Grid) (k : Nat) : Grid :=
  if NoRecord g then suPlain g k else recordN g (min k g.size.rows)

/-- what `suClosed` needs of the grid (all consequences of `GridInv W g true ∧ g.rows.length = g.size.rows`) -/
structure Live (g : Grid) : Prop where
  rows_pos : 1 ≤ g.size.rows
  len : g.rows.length = g.size.rows
  region_le : g.scrollTop ≤ g.scrollBottom
  region_lt : g.scrollBottom < g.size.rows
  sb_len : g.scrollback.length ≤ g.scrollbackLen
  sb_off : g.scrollbackOffset ≤ g.scrollback.length

theorem live_of_inv {g : Grid} (h : GridInv W g true) (hl : g.rows.length = g.size.rows) : Live g :=
  ⟨h.rows_pos, hl, h.region_le, h.region_lt, h.sb_len, h.sb_off⟩

theorem Live.withRow {g : Grid} (h : Live g) (r : Nat) : Live (withRow g r) :=
  ⟨h.rows_pos, h.len, h.region_le, h.region_lt, h.sb_len, h.sb_off⟩

/-- **SU `k` = `suClosed`**, whole record, every `k`, every live grid -/
theorem scrollUp_closed {g : Grid} (h : Live g) (k : Nat) : g.scrollUp k = .ok (suClosed g k) := by
  have hrl := h.region_lt; have hrle := h.region_le
  unfold suClosed
  by_cases hno : NoRecord g
  · rw [if_pos hno]
    exact scrollUp_plain g _ _ _ (split_region g h.region_le (by rw [h.len]; exact h.region_lt)) (by omega)
      h.rows_pos hno k
  · rw [if_neg hno]
    simp only [NoRecord, not_or, Decidable.not_not] at hno
    exact scrollUp_recording g k (by omega) hno.2.1 hno.2.2 h.len h.sb_len h.sb_off

/-- **the grid after SD `k`** (= `scroll_down(k)`): `min k rows` blank lines come in at the top margin, the
region's lines move down, the line landing on the bottom margin loses its wrap flag; every other field of the
record is the old one -/
def sdClosed (g : Grid) (k : Nat) : Grid :=
  withRows g (above g ++ shiftDown (region g) (min k g.size.rows) g.newRow ++ below g)

/-- **SD `k` = `sdClosed`**, whole record, every `k` (C08b's `scrollDown_eq` on the canonical split) -/
theorem scrollDown_closed (g : Grid) (hle : g.scrollTop ≤ g.scrollBottom) (hb : g.scrollBottom < g.rows.length)
    (k : Nat) : g.scrollDown k = .ok (sdClosed g k) :=
  scrollDown_eq g _ _ _ (split_region g hle hb) k

theorem suClosed_zero {g : Grid} (h : Live g) : suClosed g 0 = g := by
  have := scrollUp_closed h 0
  rw [scrollUp_unfold] at this
  have hrl := h.region_lt; have hrle := h.region_le
  simp only [subM_ok (show g.scrollTop ≤ g.size.rows by omega), ok_bind, Nat.zero_min] at this
  exact (Except.ok.inj this).symm

theorem sdClosed_zero (g : Grid) (hle : g.scrollTop ≤ g.scrollBottom) (hb : g.scrollBottom < g.rows.length) :
    sdClosed g 0 = g := by
  have := scrollDown_closed g hle hb 0
  rw [scrollDown_unfold] at this
  simp only [Nat.zero_min] at this
  exact (Except.ok.inj this).symm


theorem suClosed_plain {g : Grid} (hno : NoRecord g) (k : Nat) : suClosed g k = suPlain g k := if_pos hno
theorem suClosed_record {g : Grid} (hrec : ¬ NoRecord g) (k : Nat) :
    suClosed g k = recordN g (min k g.size.rows) := if_neg hrec

/-! ### reading `shiftDown` -/

/-- `0 < k < |R|`: `k` blanks, then the first `|R| - k` lines, the last of them unwrapped -/
theorem shiftDown_eq (R : List Row) (k : Nat) (x : Row) (hk : 0 < k) (hk' : k ≤ R.length) :
    shiftDown R k x = unwrapLast (List.replicate k x ++ R.take (R.length - k)) := by
  unfold shiftDown
  rw [if_neg (by omega), List.take_append, List.length_replicate, List.take_of_length_le (by simp; omega)]

/-- `k ≥ |R|`, `k > 0`: the whole range is blank (given that the blank line carries no wrap flag) -/
theorem shiftDown_all (R : List Row) (k : Nat) (x : Row) (hk : 0 < k) (hk' : R.length ≤ k) (hx : x.wrap false = x) :
    shiftDown R k x = List.replicate R.length x := by
  unfold shiftDown
  rw [if_neg (by omega), List.take_append_of_le_length (by simpa using hk'), List.take_replicate,
    Nat.min_eq_left hk']
  cases hn : R.length with
  | zero => simp [unwrapLast]
  | succ m =>
    rw [List.replicate_succ', unwrapLast_snoc, hx]

theorem newRow_unwrapped (g : Grid) : g.newRow.wrap false = g.newRow := rfl

/-! ## 2. LF / VT / FF: `row_inc_scroll` -/

/-- `pos.row.saturating_add(n)` -/
def lfTarget (g : Grid) (n : Nat) : Nat := min (g.pos.row + n) 65535

/-- the line a downward move is confined to: the bottom margin when the move starts inside the region, the last
line of the screen otherwise (also when it starts ABOVE the region: it then passes through the region) -/
def lfLimit (g : Grid) : Nat := if g.inScrollRegion then g.scrollBottom else g.size.rows - 1

/-- **closed form of `row_inc_scroll(n)`**: the grid afterwards and the returned number of scrolled lines -/
def lfClosed (g : Grid) (n : Nat) : Grid × Nat :=
  if g.inScrollRegion then
    (suClosed (withRow g (min (lfTarget g n) g.scrollBottom)) (lfTarget g n - g.scrollBottom),
     lfTarget g n - g.scrollBottom)
  else (withRow g (min (lfTarget g n) (g.size.rows - 1)), 0)

/-- inside the region, `row_inc_scroll(n)` is: cursor to `min (row + n) bottom`, then `scroll_up` by the excess.
Needs only a screen with at least one line. -/
theorem rowIncScroll_eq_scrollUp (g : Grid) (hr : 1 ≤ g.size.rows) (hin : g.inScrollRegion = true) (n : Nat) :
    g.rowIncScroll n =
      ((withRow g (min (lfTarget g n) g.scrollBottom)).scrollUp (lfTarget g n - g.scrollBottom) >>= fun g' =>
        pure (g', lfTarget g n - g.scrollBottom)) := by
  simp only [Grid.rowIncScroll, satAddU16, U16_MAX]
  rw [rowClampBottom_spec _ _ (by simpa using hr)]
  simp only [hin, ↓reduceIte, ok_bind, lfTarget, withRow]

/-- **`row_inc_scroll(n)` = `lfClosed`** — whole-record equality, every live grid, every cursor line, every `n` -/
theorem rowIncScroll_spec {g : Grid} (h : Live g) (n : Nat) : g.rowIncScroll n = .ok (lfClosed g n) := by
  unfold lfClosed
  cases hin : g.inScrollRegion
  · simp only [Grid.rowIncScroll, satAddU16, U16_MAX]
    rw [rowClampBottom_spec _ _ (by simpa using h.rows_pos)]
    simp only [hin, Bool.false_eq_true, ↓reduceIte, ok_bind, pure_eq_ok, lfTarget, withRow]
  · rw [rowIncScroll_eq_scrollUp g h.rows_pos hin, scrollUp_closed (h.withRow _)]
    rfl

/-- (a) the move stays on or above its limit: only the cursor row changes, nothing scrolls -/
theorem lf_stay {g : Grid} (h : Live g) (hu : g.size.rows ≤ 65535) (n : Nat) (hn : g.pos.row + n ≤ lfLimit g) :
    lfClosed g n = (withRow g (g.pos.row + n), 0) := by
  have hrl := h.region_lt; have hrp := h.rows_pos
  unfold lfClosed lfLimit lfTarget at *
  cases hin : g.inScrollRegion
  · simp only [hin, Bool.false_eq_true, ↓reduceIte] at hn ⊢
    rw [show min (min (g.pos.row + n) 65535) (g.size.rows - 1) = g.pos.row + n by omega]
  · simp only [hin, ↓reduceIte] at hn ⊢
    rw [show min (g.pos.row + n) 65535 - g.scrollBottom = 0 by omega,
      show min (min (g.pos.row + n) 65535) g.scrollBottom = g.pos.row + n by omega,
      suClosed_zero (h.withRow _)]

/-- (b) the move starts inside the region and passes the bottom margin: the cursor ends ON the bottom margin and
the region scrolls up by the excess `k` — `suClosed _ k` is the result of `scroll_up(k)` (`scrollUp_closed`) -/
theorem lf_scroll {g : Grid} (hin : g.inScrollRegion = true) (n : Nat) (hn : g.scrollBottom < g.pos.row + n)
    (hb : g.scrollBottom ≤ 65535) :
    lfClosed g n = (suClosed (withRow g g.scrollBottom) (lfTarget g n - g.scrollBottom),
                    lfTarget g n - g.scrollBottom) := by
  unfold lfClosed lfTarget
  simp only [hin, ↓reduceIte]
  rw [show min (min (g.pos.row + n) 65535) g.scrollBottom = g.scrollBottom by omega]

/-- no saturation when `row + n` fits in a `u16`: the excess is `row + n - bottom` -/
theorem lfTarget_eq (g : Grid) (n : Nat) (hn : g.pos.row + n ≤ 65535) : lfTarget g n = g.pos.row + n := by
  unfold lfTarget; omega

/-- (b), nothing recorded (capacity 0 or an active region): the rows are `above ++ shifted region ++ below`, the
cursor is on the bottom margin, every other field is untouched -/
theorem lf_scroll_plain {g : Grid} (hin : g.inScrollRegion = true) (n : Nat) (hn : g.scrollBottom < g.pos.row + n)
    (hb : g.scrollBottom ≤ 65535) (hno : NoRecord g) :
    (lfClosed g n).1 = withRows (withRow g g.scrollBottom)
      (above g ++ shiftUp (region g) (min (lfTarget g n - g.scrollBottom) (g.size.rows - g.scrollTop)) g.newRow
        ++ below g) := by
  rw [lf_scroll hin n hn hb]
  exact suClosed_plain (g := withRow g g.scrollBottom) hno _

/-- (b), full-screen region and capacity > 0: C12's recording (`recordN`: the top `min k rows` lines go to the
history in order, the history keeps the newest `capacity` lines, a non-zero offset follows) -/
theorem lf_scroll_record {g : Grid} (hin : g.inScrollRegion = true) (n : Nat) (hn : g.scrollBottom < g.pos.row + n)
    (hb : g.scrollBottom ≤ 65535) (hrec : ¬ NoRecord g) :
    (lfClosed g n).1 = recordN (withRow g g.scrollBottom) (min (lfTarget g n - g.scrollBottom) g.size.rows) := by
  rw [lf_scroll hin n hn hb]
  exact suClosed_record (g := withRow g g.scrollBottom) hrec _

/-- (c) the move starts outside the region (below it — or above it): it stops at the last line of the screen and
never scrolls -/
theorem lf_outside {g : Grid} (hu : g.size.rows ≤ 65535) (hin : g.inScrollRegion = false) (n : Nat) :
    lfClosed g n = (withRow g (min (g.pos.row + n) (g.size.rows - 1)), 0) := by
  unfold lfClosed lfTarget
  simp only [hin, Bool.false_eq_true, ↓reduceIte]
  rw [show min (min (g.pos.row + n) 65535) (g.size.rows - 1) = min (g.pos.row + n) (g.size.rows - 1) by omega]

/-! ### the single step of LF / VT / FF -/

/-- the grid after LF -/
def lfGrid (g : Grid) : Grid := (lfClosed g 1).1

/-- LF with room below (inside the region above the bottom margin; outside the region above the last line) -/
theorem lf1_down {g : Grid} (h : Live g) (hu : g.size.rows ≤ 65535) (hn : g.pos.row + 1 ≤ lfLimit g) :
    lfGrid g = withRow g (g.pos.row + 1) := by
  unfold lfGrid; rw [lf_stay h hu 1 hn]

/-- LF on the bottom margin: the cursor stays, the region scrolls up by one line -/
theorem lf1_scroll {g : Grid} (h : Live g) (hu : g.size.rows ≤ 65535) (hin : g.inScrollRegion = true)
    (hb : g.pos.row = g.scrollBottom) : lfClosed g 1 = (suClosed g 1, 1) := by
  have hrl := h.region_lt
  rw [lf_scroll hin 1 (by omega) (by omega), lfTarget_eq g 1 (by omega), hb,
    show g.scrollBottom + 1 - g.scrollBottom = 1 by omega]
  have : withRow g g.scrollBottom = g := by rw [← hb]; rfl
  rw [this]

/-- LF on the last line of the screen, below the region: nothing at all happens -/
theorem lf1_last {g : Grid} (hu : g.size.rows ≤ 65535) (hin : g.inScrollRegion = false)
    (hl : g.pos.row = g.size.rows - 1) : lfGrid g = g := by
  unfold lfGrid; rw [lf_outside hu hin 1]
  show withRow g (min (g.pos.row + 1) (g.size.rows - 1)) = g
  rw [show min (g.pos.row + 1) (g.size.rows - 1) = g.pos.row by omega]
  rfl

/-- one line scrolled, nothing recorded: the region loses its first line and gains a blank last line -/
theorem suPlain_one {g : Grid} (h : Live g) :
    suPlain g 1 = withRows g (above g ++ ((region g).tail ++ [g.newRow]) ++ below g) := by
  have hrl := h.region_lt; have hrle := h.region_le
  unfold suPlain
  rw [show min 1 (g.size.rows - g.scrollTop) = 1 by omega,
    shiftUp_eq _ _ _ (by rw [region_length g h.region_le (by rw [h.len]; exact h.region_lt)]; omega)]
  simp

/-! ## 3. RI: `row_dec_scroll` -/

/-- **closed form of `row_dec_scroll(n)`**.
Inside the region: the cursor goes up to `max top (row - n)` and the region scrolls DOWN by the excess
`n - (row - top)` (written `n + top - row`; the `extra_lines` term of the source makes this exact also when
`row - n` saturates at 0).
Outside the region: the cursor goes up to `row - n`, stopping at line 0 — and the `extra_lines` term
is still applied: if `n > row` the REGION scrolls down by `n - row` although the cursor is not in it (DESIGN §5.3;
with `n = 1` this is: RI on line 0 above an active region). -/
def riClosed (g : Grid) (n : Nat) : Grid :=
  if g.inScrollRegion then sdClosed (withRow g (max g.scrollTop (g.pos.row - n))) (n + g.scrollTop - g.pos.row)
  else sdClosed (withRow g (g.pos.row - n)) (n - g.pos.row)

/-- **`row_dec_scroll(n)` = `riClosed`** — whole-record equality; every grid whose bottom margin is a line of the
grid and not above the top margin, every cursor line, every `n` -/
theorem rowDecScroll_spec (g : Grid) (hle : g.scrollTop ≤ g.scrollBottom) (hb : g.scrollBottom < g.rows.length)
    (n : Nat) : g.rowDecScroll n = .ok (riClosed g n) := by
  unfold riClosed
  cases hin : g.inScrollRegion
  · simp only [Grid.rowDecScroll, Grid.rowClampTop, hin, Bool.false_and, Bool.false_eq_true, ↓reduceIte, Nat.zero_add]
    rw [show (if n > g.pos.row then n - g.pos.row else 0) = n - g.pos.row by split <;> omega]
    exact scrollDown_closed (withRow g (g.pos.row - n)) hle hb _
  · have hin' := hin
    simp only [Grid.inScrollRegion, Bool.and_eq_true, decide_eq_true_eq] at hin'
    simp only [Grid.rowDecScroll, Grid.rowClampTop, hin, Bool.true_and, decide_eq_true_eq, ↓reduceIte]
    by_cases hc : g.pos.row - n < g.scrollTop
    · simp only [hc, ↓reduceIte]
      rw [show (g.scrollTop - (g.pos.row - n) + if n > g.pos.row then n - g.pos.row else 0)
            = n + g.scrollTop - g.pos.row by split <;> omega,
        show max g.scrollTop (g.pos.row - n) = g.scrollTop by omega]
      exact scrollDown_closed (withRow g g.scrollTop) hle hb _
    · simp only [hc, ↓reduceIte]
      rw [show (0 + if n > g.pos.row then n - g.pos.row else 0) = n + g.scrollTop - g.pos.row by split <;> omega,
        show max g.scrollTop (g.pos.row - n) = g.pos.row - n by omega]
      exact scrollDown_closed (withRow g (g.pos.row - n)) hle hb _


/-- (a) the move stays on or below its limit (the top margin when it starts inside the region, line 0
otherwise): only the cursor row changes -/
theorem ri_stay (g : Grid) (hle : g.scrollTop ≤ g.scrollBottom) (hb : g.scrollBottom < g.rows.length) (n : Nat)
    (hn : n + (if g.inScrollRegion then g.scrollTop else 0) ≤ g.pos.row) :
    riClosed g n = withRow g (g.pos.row - n) := by
  unfold riClosed
  cases hin : g.inScrollRegion
  · simp only [hin, Bool.false_eq_true, ↓reduceIte] at hn ⊢
    rw [show n - g.pos.row = 0 by omega]
    exact sdClosed_zero (withRow g (g.pos.row - n)) hle hb
  · simp only [hin, ↓reduceIte] at hn ⊢
    rw [show n + g.scrollTop - g.pos.row = 0 by omega, show max g.scrollTop (g.pos.row - n) = g.pos.row - n by omega]
    exact sdClosed_zero (withRow g (g.pos.row - n)) hle hb

/-- (b) the move starts inside the region and passes the top margin: the cursor ends ON the top margin and the
region scrolls down by the excess `k = n - (row - top)`; `sdClosed _ k` is the result of `scroll_down(k)`.
With the top margin on line 0 this is the same statement (`k = n - row`): there `saturating_sub` stops the
cursor and `extra_lines` alone supplies `k`. -/
theorem ri_scroll (g : Grid) (hin : g.inScrollRegion = true) (n : Nat) (hn : g.pos.row < n + g.scrollTop) :
    riClosed g n = sdClosed (withRow g g.scrollTop) (n + g.scrollTop - g.pos.row) := by
  unfold riClosed
  simp only [hin, ↓reduceIte]
  rw [show max g.scrollTop (g.pos.row - n) = g.scrollTop by omega]

/-- (b) spelled out: rows = `above ++ (k blank lines ++ region's first lines, last one unwrapped) ++ below`,
cursor on the top margin, every other field untouched -/
theorem ri_scroll_rows (g : Grid) (hin : g.inScrollRegion = true) (n : Nat) (hn : g.pos.row < n + g.scrollTop) :
    riClosed g n = withRows (withRow g g.scrollTop)
      (above g ++ shiftDown (region g) (min (n + g.scrollTop - g.pos.row) g.size.rows) g.newRow ++ below g) :=
  ri_scroll g hin n hn

/-- (c) the move starts outside the region and stays on the screen (`n ≤ row`): covered by `ri_stay`.
(c') it starts outside the region with `n > row`: the cursor stops at line 0, and — the §5.3 deviation — the
REGION is scrolled down by `n - row` lines (`extra_lines` is not guarded by `in_scroll_region`) -/
theorem ri_outside_edge (g : Grid) (hin : g.inScrollRegion = false) (n : Nat) (hn : g.pos.row < n) :
    riClosed g n = sdClosed (withRow g 0) (n - g.pos.row) := by
  unfold riClosed
  simp only [hin, Bool.false_eq_true, ↓reduceIte]
  rw [show g.pos.row - n = 0 by omega]

/-- `n` at least `row + rows` (e.g. larger than the screen), from anywhere: the whole region is blank afterwards -/
theorem ri_blank (g : Grid) (hle : g.scrollTop ≤ g.scrollBottom) (hb : g.scrollBottom < g.rows.length)
    (hl : g.rows.length = g.size.rows) (n : Nat) (hn : g.pos.row + g.size.rows ≤ n) :
    riClosed g n = withRows (withRow g (if g.inScrollRegion then g.scrollTop else 0))
      (above g ++ List.replicate (g.scrollBottom + 1 - g.scrollTop) g.newRow ++ below g) := by
  have hlen := region_length g hle hb
  have key : ∀ k, g.size.rows ≤ k → shiftDown (region g) (min k g.size.rows) g.newRow
      = List.replicate (g.scrollBottom + 1 - g.scrollTop) g.newRow := by
    intro k hk
    rw [Nat.min_eq_right hk, shiftDown_all _ _ _ (by omega) (by omega) (newRow_unwrapped g), hlen]
  cases hin : g.inScrollRegion
  · rw [ri_outside_edge g hin n (by omega)]
    simp only [Bool.false_eq_true, ↓reduceIte, sdClosed, above_withRow, region_withRow, below_withRow]
    rw [show (withRow g 0).size = g.size from rfl, show (withRow g 0).newRow = g.newRow from rfl, key _ (by omega)]
  · rw [ri_scroll g hin n (by omega)]
    simp only [↓reduceIte, sdClosed, above_withRow, region_withRow, below_withRow]
    rw [show (withRow g g.scrollTop).size = g.size from rfl, show (withRow g g.scrollTop).newRow = g.newRow from rfl,
      key _ (by omega)]

/-! ### the single step of RI (`ESC M`) -/

/-- RI with room above: one line up -/
theorem ri1_up (g : Grid) (hle : g.scrollTop ≤ g.scrollBottom) (hb : g.scrollBottom < g.rows.length)
    (hn : 1 + (if g.inScrollRegion then g.scrollTop else 0) ≤ g.pos.row) :
    riClosed g 1 = withRow g (g.pos.row - 1) := ri_stay g hle hb 1 hn

/-- RI on the top margin: the cursor stays, the region scrolls down by one line -/
theorem ri1_scroll (g : Grid) (hin : g.inScrollRegion = true) (ht : g.pos.row = g.scrollTop) :
    riClosed g 1 = sdClosed g 1 := by
  rw [ri_scroll g hin 1 (by omega), show 1 + g.scrollTop - g.pos.row = 1 by omega]
  have : withRow g g.scrollTop = g := by rw [← ht]; rfl
  rw [this]

/-- RI on line 0 ABOVE an active region (outside the contract of C08, DESIGN §5.3): the cursor stays and the
region — which the cursor is not in — scrolls down by one line -/
theorem ri1_line0_above (g : Grid) (hin : g.inScrollRegion = false) (h0 : g.pos.row = 0) :
    riClosed g 1 = sdClosed g 1 := by
  rw [ri_outside_edge g hin 1 (by omega), h0]
  have : withRow g 0 = g := by rw [← h0]; rfl
  rw [this]

/-- one line scrolled down: a blank line on the top margin, the region's lines but the last below it, the one
landing on the bottom margin unwrapped -/
theorem sdClosed_one (g : Grid) (hr : 1 ≤ g.size.rows) (hle : g.scrollTop ≤ g.scrollBottom)
    (hb : g.scrollBottom < g.rows.length) :
    sdClosed g 1 = withRows g (above g ++ unwrapLast (g.newRow :: (region g).dropLast) ++ below g) := by
  unfold sdClosed
  rw [show min 1 g.size.rows = 1 by omega]
  congr 3
  unfold shiftDown
  simp only [Nat.one_ne_zero, ↓reduceIte, List.replicate_one, List.singleton_append]
  have hlen := region_length g hle hb
  cases hR : region g with
  | nil => rw [hR] at hlen; simp at hlen; omega
  | cons r0 R' =>
    rw [List.dropLast_eq_take]
    simp


/-! ### the two specifications under the invariant of the development -/

/-- `row_inc_scroll(n)` (LF/VT/FF call it with `n = 1`; so does auto-wrap) on every grid of a reachable screen -/
theorem lf_spec {g : Grid} (h : GridInv W g true) (hl : g.rows.length = g.size.rows) (n : Nat) :
    g.rowIncScroll n = .ok (lfClosed g n) := rowIncScroll_spec (live_of_inv h hl) n

/-- `row_dec_scroll(n)` (RI calls it with `n = 1`) on every grid of a reachable screen -/
theorem ri_spec {g : Grid} (h : GridInv W g true) (hl : g.rows.length = g.size.rows) (n : Nat) :
    g.rowDecScroll n = .ok (riClosed g n) :=
  rowDecScroll_spec g h.region_le (by rw [hl]; exact h.region_lt) n

/-! ## 4. the actions: LF (`execute 10`), VT (`11`), FF (`12`), RI (`ESC M`) — and IND / NEL, which the crate
does not implement -/

/-- `Screen::lf` (= `vt` = `ff`): only the active grid changes, and it becomes `lfGrid` -/
theorem screen_lf {s : Screen} (h : ScreenInv W s) : s.lf = .ok (s.setCur (lfGrid s.cur)) := by
  unfold Screen.lf
  refine C06.lift ?_
  rw [rowIncScroll_spec (live_of_inv h.cur.1 h.cur.2) 1]
  rfl

/-- `Screen::ri`: only the active grid changes, and it becomes `riClosed _ 1` -/
theorem screen_ri {s : Screen} (h : ScreenInv W s) : s.ri = .ok (s.setCur (riClosed s.cur 1)) := by
  unfold Screen.ri
  have hi := h.cur.1
  exact C06.lift (rowDecScroll_spec s.cur hi.region_le (by rw [h.cur.2]; exact hi.region_lt) 1)

/-- **LF, VT, FF** (`execute 10 / 11 / 12`) on a screen satisfying the invariant: the active grid becomes `lfGrid`
(`lf1_down` / `lf1_scroll` / `lf1_last` read it), the pen, the modes and the other grid are untouched, no
callback runs, for every callback policy -/
theorem perform_lf {ws : WS} (h : ScreenInv W ws.screen) (b : Nat) (hb : b = 10 ∨ b = 11 ∨ b = 12) :
    perform W cb ws (.execute b) = .ok { ws with screen := ws.screen.setCur (lfGrid ws.screen.cur) } := by
  rcases hb with rfl | rfl | rfl <;>
    simp only [perform, performExecute, WS.onScreen, screen_lf h, ok_bind, pure_eq_ok]

/-- **RI** (`ESC M`): the active grid becomes `riClosed _ 1` (`ri1_up` / `ri1_scroll` / `ri1_line0_above` read
it), nothing else changes, no callback runs -/
theorem perform_ri {ws : WS} (h : ScreenInv W ws.screen) (ig : Bool) :
    perform W cb ws (.escDispatch [] ig 77) = .ok { ws with screen := ws.screen.setCur (riClosed ws.screen.cur 1) } := by
  simp only [perform, performEsc, WS.onScreen, screen_ri h, ok_bind, pure_eq_ok]

/-- **IND** (`ESC D`) and **NEL** (`ESC E`) are NOT implemented by the crate: they reach the `unhandled_escape`
callback and do nothing to the screen themselves -/
theorem perform_ind_unhandled (ws : WS) (ig : Bool) :
    perform W cb ws (.escDispatch [] ig 68) = emit cb (.unhandledEscape none none 68) ws := rfl
theorem perform_nel_unhandled (ws : WS) (ig : Bool) :
    perform W cb ws (.escDispatch [] ig 69) = emit cb (.unhandledEscape none none 69) ws := rfl

/-- with callbacks that leave the screen alone (`impl Callbacks for ()`): the screen is unchanged -/
theorem perform_ind_cbNone (ws : WS) (ig : Bool) :
    perform W cbNone ws (.escDispatch [] ig 68)
      = .ok { screen := ws.screen, events := ws.events ++ [.unhandledEscape none none 68] } := rfl
theorem perform_nel_cbNone (ws : WS) (ig : Bool) :
    perform W cbNone ws (.escDispatch [] ig 69)
      = .ok { screen := ws.screen, events := ws.events ++ [.unhandledEscape none none 69] } := rfl

/-- the 8-bit C1 forms U+0084 (IND), U+0085 (NEL), U+008D (RI) are not implemented either: `unhandled_control` -/
theorem perform_c1_unhandled (ws : WS) (c : Nat) (hc : c = 0x84 ∨ c = 0x85 ∨ c = 0x8D) :
    perform W cb ws (.print c) = emit cb (.unhandledControl c) ws := by
  rcases hc with rfl | rfl | rfl <;> rfl

/-! ## 5. non-vacuity (kernel-evaluated model runs; these are tests) -/

/-- a fresh `rows × cols` parser with scrollback capacity `sb`, fed `bytes`; the active grid afterwards -/
def demoRun (rows cols sb : Nat) (bytes : List Nat) : Grid :=
  match (Parser.new rows cols sb >>= fun p => p.process W0 cbNone bytes) with
  | .ok p => p.ws.screen.cur
  | .error _ => default

/-- `a⏎b⏎c⏎d⏎e` on the five lines -/
def fiveLines : List Nat := [97, 13, 10, 98, 13, 10, 99, 13, 10, 100, 13, 10, 101]

/-- 5×3, lines `a b c d e`, region = lines 1..3 (`ESC[2;4r`), cursor on the bottom margin (`ESC[4;1H`) -/
def demoBottom : Grid := demoRun 5 3 7 (fiveLines ++ [27, 91, 50, 59, 52, 114] ++ [27, 91, 52, 59, 49, 72])
/-- the same, cursor on the top margin (`ESC[2;1H`) -/
def demoTop : Grid := demoRun 5 3 7 (fiveLines ++ [27, 91, 50, 59, 52, 114] ++ [27, 91, 50, 59, 49, 72])
/-- the same, cursor on line 0, above the region (`ESC[1;1H`) -/
def demoAbove : Grid := demoRun 5 3 7 (fiveLines ++ [27, 91, 50, 59, 52, 114] ++ [27, 91, 49, 59, 49, 72])
/-- 5×3, capacity 7, no region, cursor on the last line -/
def demoFull : Grid := demoRun 5 3 7 fiveLines

theorem demoBottom_live : Live demoBottom := by
  refine ⟨?_, ?_, ?_, ?_, ?_, ?_⟩ <;> decide +kernel
theorem demoFull_live : Live demoFull := by
  refine ⟨?_, ?_, ?_, ?_, ?_, ?_⟩ <;> decide +kernel

/-- the demo grids satisfy the full invariant, their five lines are pairwise different, the cursors are where the
comments say -/
theorem demo_ok :
    (gridOk W0 demoBottom true && gridOk W0 demoTop true && gridOk W0 demoAbove true && gridOk W0 demoFull true &&
     demoBottom.rows.length == 5 && demoBottom.rows.eraseDups.length == 5 &&
     demoBottom.scrollTop == 1 && demoBottom.scrollBottom == 3 &&
     demoBottom.pos.row == 3 && demoTop.pos.row == 1 && demoAbove.pos.row == 0 && demoFull.pos.row == 4 &&
     demoTop.rows == demoBottom.rows && demoAbove.rows == demoBottom.rows && demoFull.rows == demoBottom.rows &&
     demoBottom.inScrollRegion && demoTop.inScrollRegion && !demoAbove.inScrollRegion && demoFull.inScrollRegion &&
     decide (NoRecord demoBottom) && !decide (NoRecord demoFull)) = true := by
  decide +kernel

/-- `lf_scroll` / `lf_scroll_plain` are not vacuous: LF ×2 on the bottom margin of the region `b c d` scrolls it by 2:
`a d _ _ e`, cursor still on the bottom margin, 2 lines reported, nothing recorded -/
theorem lf_scroll_nonvacuous :
    demoBottom.inScrollRegion = true ∧ demoBottom.scrollBottom < demoBottom.pos.row + 2 ∧ NoRecord demoBottom ∧
    lfClosed demoBottom 2 = ({ demoBottom with rows :=
        [demoBottom.rows[0]!, demoBottom.rows[3]!, Row.new 3, Row.new 3, demoBottom.rows[4]!] }, 2) ∧
    demoBottom.rowIncScroll 2 = .ok (lfClosed demoBottom 2) := by
  refine ⟨by decide +kernel, by decide +kernel, by decide +kernel, by decide +kernel, ?_⟩
  exact rowIncScroll_spec demoBottom_live 2

/-- `lf_scroll_record` is not vacuous: LF ×2 on the last line of a full-screen region with capacity 7 records the
lines `a`, `b` in that order; rows `c d e _ _` -/
theorem lf_record_nonvacuous :
    demoFull.inScrollRegion = true ∧ demoFull.scrollBottom < demoFull.pos.row + 2 ∧ ¬ NoRecord demoFull ∧
    lfClosed demoFull 2 = ({ demoFull with
        rows := [demoFull.rows[2]!, demoFull.rows[3]!, demoFull.rows[4]!, Row.new 3, Row.new 3],
        scrollback := [demoFull.rows[0]!, demoFull.rows[1]!] }, 2) ∧
    demoFull.rowIncScroll 2 = .ok (lfClosed demoFull 2) := by
  refine ⟨by decide +kernel, by decide +kernel, by decide +kernel, by decide +kernel, ?_⟩
  exact rowIncScroll_spec demoFull_live 2

/-- `ri_scroll` is not vacuous: RI ×2 on the top margin of the region `b c d`: `a _ _ b e`, cursor still on the
top margin -/
theorem ri_scroll_nonvacuous :
    demoTop.inScrollRegion = true ∧ demoTop.pos.row < 2 + demoTop.scrollTop ∧
    riClosed demoTop 2 = { demoTop with rows :=
        [demoTop.rows[0]!, Row.new 3, Row.new 3, demoTop.rows[1]!, demoTop.rows[4]!] } ∧
    demoTop.rowDecScroll 2 = .ok (riClosed demoTop 2) := by
  refine ⟨by decide +kernel, by decide +kernel, by decide +kernel, ?_⟩
  exact rowDecScroll_spec demoTop (by decide +kernel) (by decide +kernel) 2

/-- `ri1_line0_above` is not vacuous — the §5.3 behaviour on a concrete screen: RI on line 0, above the region
`b c d`, leaves the cursor on line 0 and scrolls the region: `a _ b c e` -/
theorem ri_line0_above_witness :
    demoAbove.inScrollRegion = false ∧ demoAbove.pos.row = 0 ∧
    riClosed demoAbove 1 = { demoAbove with rows :=
        [demoAbove.rows[0]!, Row.new 3, demoAbove.rows[1]!, demoAbove.rows[2]!, demoAbove.rows[4]!] } ∧
    demoAbove.rowDecScroll 1 = .ok (riClosed demoAbove 1) := by
  refine ⟨by decide +kernel, by decide +kernel, by decide +kernel, ?_⟩
  exact rowDecScroll_spec demoAbove (by decide +kernel) (by decide +kernel) 1

/-- the parser state behind `demoBottom` -/
def demoWS : WS :=
  match (Parser.new 5 3 7 >>= fun p =>
      p.process W0 cbNone (fiveLines ++ [27, 91, 50, 59, 52, 114] ++ [27, 91, 52, 59, 49, 72])) with
  | .ok p => p.ws
  | .error _ => default

theorem demoWS_inv : ScreenInv W0 demoWS.screen := (inv_iff W0 _).mp (by decide +kernel)

/-- `perform_lf` at work on a screen meeting its hypothesis, in the scrolling case: LF on the bottom margin gives
`a c d _ e`, no event, pen and modes as before -/
theorem perform_lf_nonvacuous :
    ∃ ws', perform W0 cbNone demoWS (.execute 10) = .ok ws' ∧ ws'.events = demoWS.events ∧
      ws'.screen.cur.rows = [demoBottom.rows[0]!, demoBottom.rows[2]!, demoBottom.rows[3]!, Row.new 3,
        demoBottom.rows[4]!] ∧ ws'.screen.cur.pos = demoBottom.pos := by
  refine ⟨_, perform_lf demoWS_inv 10 (Or.inl rfl), rfl, ?_, ?_⟩ <;> decide +kernel

/-- `perform_ri` likewise (cursor on the bottom margin, so RI just moves up one line) -/
theorem perform_ri_nonvacuous :
    ∃ ws', perform W0 cbNone demoWS (.escDispatch [] false 77) = .ok ws' ∧ ws'.events = demoWS.events ∧
      ws'.screen.cur = withRow demoBottom 2 := by
  refine ⟨_, perform_ri demoWS_inv false, rfl, ?_⟩
  decide +kernel

end Vt.C08lfri

/-
all of the following: ⊆ {propext, Classical.choice, Quot.sound}
#print axioms Vt.C08lfri.scrollUp_plain
#print axioms Vt.C08lfri.scrollUp_closed
#print axioms Vt.C08lfri.scrollDown_closed
#print axioms Vt.C08lfri.rowIncScroll_spec
#print axioms Vt.C08lfri.rowDecScroll_spec
#print axioms Vt.C08lfri.ri_blank
#print axioms Vt.C08lfri.perform_lf
#print axioms Vt.C08lfri.perform_ri
#print axioms Vt.C08lfri.lf_scroll_nonvacuous
#print axioms Vt.C08lfri.lf_record_nonvacuous
#print axioms Vt.C08lfri.ri_scroll_nonvacuous
#print axioms Vt.C08lfri.ri_line0_above_witness
#print axioms Vt.C08lfri.perform_lf_nonvacuous
#print axioms Vt.C08lfri.perform_ri_nonvacuous
-/
