/-
  C05 — printing: placement, pen, cursor advance, auto-wrap, wide and zero-width characters.

  * `text_control_noop` : characters with no width below U+0100 (C0, DEL, C1) never reach the
    grid.
  * `text_too_wide_dropped` : a character wider than the whole screen is dropped (fix 71db06e).
  * U+FFFD and C1 characters are reported, never drawn: `Vt.C18` (`perform_events` in C18all; `perform_print_eq`
    in MiscC05 for the drawn ones).
  * `text_narrow_fits` : a width-1 character with room on the line (`col + 1 ≤ cols`) landing on
    a cell that is neither wide nor a continuation: exactly that cell becomes the character with
    exactly the pen (contents, not wide, no continuation), the cursor advances by one, and nothing
    else in the grid changes (whole-record equality).
  * `cell_set_spec` : what `Cell::set` stores: the UTF-8 bytes, `wide` iff width 2, the pen.
  The general closed forms — every well-formed line, the wrap, zero-width characters — are in C05b.
-/
import Vt.Lemmas.Inv
namespace Vt.C05
open Vt
set_option linter.unusedSimpArgs false

variable (W : Nat → Option Nat)

theorem text_control_noop (g : Grid) (a : Attrs) (c : Nat) (hw : W c = none) (hc : c < 256) :
    g.text W a c = .ok g := by
  simp [Grid.text, hw, hc]

theorem text_too_wide_dropped (g : Grid) (a : Attrs) (c w : Nat) (hw : W c = some w) (h : g.size.cols < min w 2) :
    g.text W a c = .ok g := by
  simp only [Grid.text, hw, Option.isNone_some, Bool.false_and, Bool.false_eq_true, ↓reduceIte, Option.getD_some]
  rw [if_pos h]; rfl

/-- `Cell::set(c, a)`: UTF-8 bytes of `c` at the start, length = their number, wide iff width 2,
not a continuation, attributes = the pen -/
theorem cell_set_spec (cell : Cell) (c : Nat) (a : Attrs) (hl : (Utf8.encode c).length ≤ 22) :
    cell.set W c a = .ok
      { contents := Utf8.encode c ++ cell.contents.drop (Utf8.encode c).length,
        len := (Utf8.encode c).length, wide := decide ((W c).getD 1 > 1), cont := false, attrs := a } := by
  simp [Cell.set, Cell.appendChar, CONTENT_BYTES, hl]

theorem encode_length_le (c : Nat) : (Utf8.encode c).length ≤ 4 := by
  unfold Utf8.encode; split <;> (try split) <;> (try split) <;> simp

/-- a width-1 character with room on the line, on a plain cell: the cell becomes the character
with exactly the pen, the cursor advances by one, nothing else changes -/
theorem text_narrow_fits (g : Grid) (a : Attrs) (c : Nat) (row : Row) (cell : Cell)
    (hw : (W c).getD 1 = 1) (hnc : ¬ (W c = none ∧ c < 256))
    (hcol : g.pos.col + 1 ≤ g.size.cols) (hrow : g.rows[g.pos.row]? = some row)
    (hcell : row.cells[g.pos.col]? = some cell) (hcw : cell.wide = false) (hcc : cell.cont = false) :
    ∃ cell', cell.set W c a = .ok cell' ∧
      g.text W a c = .ok { g with
        rows := g.rows.set g.pos.row { row with cells := row.cells.set g.pos.col cell' },
        pos := ⟨g.pos.row, min (g.pos.col + 1) 65535⟩ } := by
  have hl : (Utf8.encode c).length ≤ 22 := by have := encode_length_le c; omega
  refine ⟨_, cell_set_spec W cell c a hl, ?_⟩
  have h1 : ¬ ((W c).isNone = true ∧ c < 256) := by
    intro ⟨h, h2⟩; exact hnc ⟨by simpa using h, h2⟩
  have hc1 : 1 ≤ g.size.cols := by omega
  have hlim : ¬ g.pos.col > g.size.cols - 1 := by omega
  have h1' : ((W c).isNone && decide (c < 256)) = false := by
    cases hn : (W c).isNone <;> simp_all
  simp only [Grid.text, h1', Bool.false_eq_true, ↓reduceIte, hw, show min 1 2 = 1 by rfl, show ¬ (1 > g.size.cols) by omega,
    Grid.wrapDecision, subM_ok hc1, ok_bind, hlim, pure_bind', pure_eq_ok, Grid.colWrap]
  simp only [show (1 == 0) = false by rfl, Bool.false_eq_true, ↓reduceIte, Grid.textWide, Grid.modifyCurrentRow,
    modifyM, hrow, Grid.textWideRow, getM, hcell, ok_bind, pure_bind', Cell.isWideContinuation, hcc, Cell.isWide,
    hcw, cell_set_spec W cell c a hl, pure_eq_ok, Grid.colInc, satAddU16, U16_MAX, show ¬ (1 > 1) by omega]
  simp [hw]

end Vt.C05
