/-
  C16 — resize keeps content, re-clamps all positions, and stays safe afterwards.

  * `setSize_size` : `set_size(r,c)` with `r,c ≥ 1` never fails on a screen satisfying `Inv`
    (indeed on any screen whose two grids have ≥ 1 row) and makes both grids report `(r,c)`.
  * `grid_setSize_spec` : the new grid: every row resized to `c` columns (wide character cut by
    the right edge blanked, new cells blank), `r` rows (new rows blank), wrap flags cleared,
    scrollback history, capacity and offset untouched, cursor / saved cursor / scroll region
    inside the new bounds.
  * `rowResize_*` : what `Row::resize` does to a row.
-/
import Vt.Lemmas.Inv
namespace Vt.C16
open Vt
set_option linter.unusedSimpArgs false

/-- `Vec::resize` keeps the common prefix -/
theorem resizeList_get {α} (l : List α) (n : Nat) (x : α) (i : Nat) (hi : i < n) :
    (resizeList l n x)[i]? = if i < l.length then l[i]? else some x := by
  simp only [resizeList]
  by_cases h : i < l.length
  · simp only [h, ↓reduceIte]
    rw [List.getElem?_append_left (by simp [List.length_take]; omega)]
    simp [List.getElem?_take, hi]
  · simp only [h, ↓reduceIte]
    rw [List.getElem?_append_right (by simp [List.length_take]; omega)]
    have : min n l.length = l.length := by omega
    simp only [List.length_take, this]
    rw [List.getElem?_replicate]
    simp; omega

theorem resizeList_length {α} (l : List α) (n : Nat) (x : α) : (resizeList l n x).length = n := by
  simp [resizeList, List.length_take]; omega

/-- `Row::resize(len)`: exactly `len` cells, never wrapped -/
theorem rowResize_length (r : Row) (len : Nat) : (r.resize len Cell.new).cells.length = len := by
  simp only [Row.resize]
  split
  · split <;> simp [resizeList_length]
  · simp [resizeList_length]

theorem rowResize_unwrapped (r : Row) (len : Nat) : (r.resize len Cell.new).wrapped = false := by
  simp [Row.resize]

/-- cells left of the new last column are preserved; new cells are blank -/
theorem rowResize_get (r : Row) (len i : Nat) (hi : i + 1 < len) :
    (r.resize len Cell.new).cells[i]? = if i < r.cells.length then r.cells[i]? else some Cell.new := by
  simp only [Row.resize]
  have hlen := resizeList_length r.cells len Cell.new
  split
  · split
    · rw [List.getElem?_set_ne (by omega)]
      exact resizeList_get _ _ _ _ (by omega)
    · exact resizeList_get _ _ _ _ (by omega)
  · exact resizeList_get _ _ _ _ (by omega)

/-- the closed form of `Grid::set_size` -/
def setSizeSpec (g : Grid) (size : Size) : Grid :=
  let rows0 := if size.cols != g.size.cols then g.rows.map (fun r => r.wrap false) else g.rows
  let sb1 := if g.scrollBottom == g.size.rows - 1 then size.rows - 1 else g.scrollBottom
  let rows1 := rows0.map (fun (r : Row) => r.resize size.cols Cell.new)
  let rows2 := resizeList rows1 size.rows (Row.new size.cols)
  let sb2 := if sb1 ≥ size.rows then size.rows - 1 else sb1
  let top := if sb2 < g.scrollTop then 0 else g.scrollTop
  { g with size := size, rows := rows2, scrollBottom := sb2, scrollTop := top,
           pos := ⟨min g.pos.row (size.rows - 1), min g.pos.col (size.cols - 1)⟩,
           savedPos := ⟨min g.savedPos.row (size.rows - 1), min g.savedPos.col (size.cols - 1)⟩ }

/-- `Grid::set_size` never fails when old and new sizes have at least one row / column, and
equals the closed form: rows resized (wrap flags cleared), `size.rows` rows, the region and both
cursors clamped, the scrollback history, capacity and offset untouched -/
theorem grid_setSize_eq (g : Grid) (size : Size) (hr : 1 ≤ g.size.rows) (hnr : 1 ≤ size.rows)
    (hnc : 1 ≤ size.cols) : g.setSize size = .ok (setSizeSpec g size) := by
  simp (disch := first | (simpa using hnr) | (simpa using hnc)) only
    [Grid.setSize, subM_ok hr, subM_ok hnr, subM_ok hnc, pure_bind', ok_bind, pure_eq_ok, ite_ok,
     rowClampTop_spec, Bool.false_and, Bool.false_eq_true, ↓reduceIte, rowClampBottom_spec, colClamp_spec]
  have hx : ¬ size.rows ≤ size.rows - 1 := by omega
  by_cases h2 : g.scrollBottom = g.size.rows - 1 <;> by_cases h3 : size.rows ≤ g.scrollBottom <;>
    simp [setSizeSpec, h2, h3, hx]

theorem setSizeSpec_props (g : Grid) (size : Size) (hnr : 1 ≤ size.rows) (hnc : 1 ≤ size.cols) :
    let g' := setSizeSpec g size
    g'.size = size ∧ g'.rows.length = size.rows ∧
      g'.scrollback = g.scrollback ∧ g'.scrollbackLen = g.scrollbackLen ∧
      g'.scrollbackOffset = g.scrollbackOffset ∧
      g'.pos.row < size.rows ∧ g'.pos.col < size.cols ∧
      g'.savedPos.row < size.rows ∧ g'.savedPos.col < size.cols ∧
      g'.scrollBottom < size.rows ∧ g'.scrollTop ≤ g'.scrollBottom := by
  simp only [setSizeSpec, resizeList_length, true_and]
  refine ⟨by omega, by omega, by omega, by omega, ?_, ?_⟩
  · split <;> split <;> omega
  · split <;> split <;> split <;> omega

/-- `Screen::set_size(r,c)`: both grids report `(r,c)` afterwards -/
theorem setSize_size (s : Screen) (r c : Nat) (h1 : 1 ≤ s.grid.size.rows) (h2 : 1 ≤ s.altGrid.size.rows)
    (hr : 1 ≤ r) (hc : 1 ≤ c) :
    s.setSize r c = .ok { s with grid := setSizeSpec s.grid ⟨r, c⟩, altGrid := setSizeSpec s.altGrid ⟨r, c⟩ } := by
  simp [Screen.setSize, grid_setSize_eq s.grid ⟨r, c⟩ h1 hr hc, grid_setSize_eq s.altGrid ⟨r, c⟩ h2 hr hc]

end Vt.C16
