/-
  C10 (continued) — the input-mode round trips at the level of BYTES.

  * `actBytes` / `actAction` : the byte string of each mode-changing sequence the crate emits
    (`ESC =`, `ESC >`, `ESC [ ? n h`, `ESC [ ? n l`) and the vte action it parses to (`tok_act`);
  * `input_mode_formatted_bytes`, `input_mode_diff_bytes` : the emitted byte strings are exactly the
    concatenation of the sequences of `formattedActs` / `diffActs`;
  * `process_input_mode_formatted` : processing `input_mode_formatted()` of `s` on a ready parser whose
    mouse state is at its defaults leaves exactly the five input modes of `s`, changes nothing else on
    the screen and reports no event;
  * `process_input_mode_diff` : the same for `s.input_mode_diff(prev)` on a parser whose modes equal
    `prev`'s.
-/
import Vt.Props.C10
import Vt.Props.C09b
namespace Vt.C10
open Vt Vt.Tok
set_option linter.unusedSimpArgs false

/-- the bytes of one mode-changing sequence -/
def actBytes : ModeAct → List Nat
  | .keypad true => [0x1B, 61]
  | .keypad false => [0x1B, 62]
  | .set n => [0x1B, 0x5B, 0x3F] ++ Term.itoa n ++ [104]
  | .rst n => [0x1B, 0x5B, 0x3F] ++ Term.itoa n ++ [108]

/-- … and the action vte reports for it -/
def actAction : ModeAct → Action
  | .keypad true => .escDispatch [] false 61
  | .keypad false => .escDispatch [] false 62
  | .set n => .csiDispatch [[n]] [0x3F] false 104
  | .rst n => .csiDispatch [[n]] [0x3F] false 108

theorem tok_act (a : ModeAct) (h : ∀ n, (a = .set n ∨ a = .rst n) → n ≤ 65535) : Tok (actBytes a) [actAction a] := by
  cases a with
  | keypad on =>
    cases on
    · exact tok_esc 62 (by omega)
    · exact tok_esc 61 (by omega)
  | set n =>
    have := tok_csi_private [n] 104 (by simpa using h n (Or.inl rfl)) (by simp) (by omega)
    simpa [paramBytes, Tok.groups, actBytes, actAction] using this
  | rst n =>
    have := tok_csi_private [n] 108 (by simpa using h n (Or.inr rfl)) (by simp) (by omega)
    simpa [paramBytes, Tok.groups, actBytes, actAction] using this

theorem tok_acts : ∀ (as : List ModeAct), (∀ a ∈ as, ∀ n, (a = .set n ∨ a = .rst n) → n ≤ 65535) →
    Tok (as.flatMap actBytes) (as.map actAction)
  | [], _ => tok_nil
  | a :: as, h => by
    simp only [List.flatMap_cons, List.map_cons]
    exact tok_append (tok_act a (h a (List.mem_cons_self ..))) (tok_acts as (fun b hb => h b (List.mem_cons_of_mem _ hb)))

theorem itoa_vals : Term.itoa 1 = [49] ∧ Term.itoa 9 = [57] ∧ Term.itoa 1000 = [49, 48, 48, 48] ∧
    Term.itoa 1002 = [49, 48, 48, 50] ∧ Term.itoa 1003 = [49, 48, 48, 51] ∧ Term.itoa 1005 = [49, 48, 48, 53] ∧
    Term.itoa 1006 = [49, 48, 48, 54] ∧ Term.itoa 2004 = [50, 48, 48, 52] := by decide +kernel

theorem mouse_bytes (mode prev : MouseMode) :
    Term.mouseProtocolMode mode prev = (mouseActs mode prev).flatMap actBytes := by
  obtain ⟨i1, i9, i1000, i1002, i1003, _, _, _⟩ := itoa_vals
  cases mode <;> cases prev <;>
    simp [Term.mouseProtocolMode, mouseActs, actBytes, mouseNum, Term.mouseModeNum, Term.ESC, i9, i1000, i1002, i1003]

theorem enc_bytes (enc prev : MouseEnc) :
    Term.mouseProtocolEncoding enc prev = (encActs enc prev).flatMap actBytes := by
  obtain ⟨_, _, _, _, _, i1005, i1006, _⟩ := itoa_vals
  cases enc <;> cases prev <;>
    simp [Term.mouseProtocolEncoding, encActs, actBytes, encNum, Term.mouseEncNum, Term.ESC, i1005, i1006]

/-- the bytes of `input_mode_formatted` are the sequences of `formattedActs`, in order -/
theorem input_mode_formatted_bytes (s : Screen) : s.inputModeFormatted = (formattedActs s).flatMap actBytes := by
  obtain ⟨i1, _, _, _, _, _, _, i2004⟩ := itoa_vals
  simp only [Screen.inputModeFormatted, Screen.writeInputModeFormatted, formattedActs, List.flatMap_append,
    mouse_bytes, enc_bytes]
  cases s.appKeypad <;> cases s.appCursor <;> cases s.bracketedPaste <;>
    simp [Term.applicationKeypad, Term.applicationCursor, Term.bracketedPaste, actBytes, Term.ESC, i1, i2004]

/-- the bytes of `input_mode_diff` are the sequences of `diffActs`, in order -/
theorem input_mode_diff_bytes (s prev : Screen) : s.inputModeDiff prev = (diffActs s prev).flatMap actBytes := by
  obtain ⟨i1, _, _, _, _, _, _, i2004⟩ := itoa_vals
  simp only [Screen.inputModeDiff, Screen.writeInputModeDiff, diffActs, List.flatMap_append,
    mouse_bytes, enc_bytes]
  cases s.appKeypad <;> cases s.appCursor <;> cases s.bracketedPaste <;>
    cases prev.appKeypad <;> cases prev.appCursor <;> cases prev.bracketedPaste <;>
    simp [Term.applicationKeypad, Term.applicationCursor, Term.bracketedPaste, actBytes, Term.ESC, i1, i2004]

/-- the mode numbers the emitters use -/
def ModeNum (n : Nat) : Prop :=
  n = 1 ∨ n = 9 ∨ n = 1000 ∨ n = 1002 ∨ n = 1003 ∨ n = 1005 ∨ n = 1006 ∨ n = 2004

def Emitted : ModeAct → Prop
  | .keypad _ => True
  | .set n => ModeNum n
  | .rst n => ModeNum n

theorem decsetOne_some (s : Screen) (n : Nat) (h : ModeNum n) : ∃ s', s.decsetOne [n] = .ok (some s') := by
  rcases h with rfl | rfl | rfl | rfl | rfl | rfl | rfl | rfl <;> exact ⟨_, rfl⟩

theorem decrstOne_some (s : Screen) (n : Nat) (h : ModeNum n) : ∃ s', s.decrstOne [n] = .ok (some s') := by
  rcases h with rfl | rfl | rfl | rfl | rfl | rfl | rfl | rfl <;> exact ⟨_, rfl⟩

/-- performing the parsed action is applying the mode change to the screen; no event -/
theorem perform_act (W : Nat → Option Nat) (cb : CbPolicy) (ws : WS) (a : ModeAct) (h : Emitted a) :
    perform W cb ws (actAction a) = (applyAct ws.screen a >>= fun s' => pure { ws with screen := s' }) := by
  cases a with
  | keypad on => cases on <;> rfl
  | set n =>
    obtain ⟨s', e⟩ := decsetOne_some ws.screen n h
    simp [perform, performCsi, actAction, decset, applyAct, e]
  | rst n =>
    obtain ⟨s', e⟩ := decrstOne_some ws.screen n h
    simp [perform, performCsi, actAction, decrst, applyAct, e]

theorem perform_acts (W : Nat → Option Nat) (cb : CbPolicy) : ∀ (as : List ModeAct) (ws : WS),
    (∀ a ∈ as, Emitted a) →
    (as.map actAction).foldlM (perform W cb) ws =
      (applyActs ws.screen as >>= fun s' => pure { ws with screen := s' })
  | [], ws, _ => rfl
  | a :: as, ws, h => by
    simp only [List.map_cons, List.foldlM_cons, perform_act W cb ws a (h a (List.mem_cons_self ..)), applyActs]
    cases applyAct ws.screen a with
    | error e => rfl
    | ok s' =>
      simp only [ok_bind, pure_bind']
      exact perform_acts W cb as _ (fun b hb => h b (List.mem_cons_of_mem _ hb))

theorem modeNum_le {n : Nat} (h : ModeNum n) : n ≤ 65535 := by
  rcases h with rfl | rfl | rfl | rfl | rfl | rfl | rfl | rfl <;> omega

theorem mouseActs_emitted (mode prev : MouseMode) : ∀ a ∈ mouseActs mode prev, Emitted a := by
  cases mode <;> cases prev <;> simp [mouseActs, Emitted, ModeNum, mouseNum]

theorem encActs_emitted (enc prev : MouseEnc) : ∀ a ∈ encActs enc prev, Emitted a := by
  cases enc <;> cases prev <;> simp [encActs, Emitted, ModeNum, encNum]

theorem formattedActs_emitted (s : Screen) : ∀ a ∈ formattedActs s, Emitted a := by
  intro a ha
  simp only [formattedActs, List.mem_append, List.mem_cons, List.mem_nil_iff, or_false] at ha
  rcases ha with ((rfl | rfl | rfl) | ha) | ha
  · trivial
  · split <;> simp [Emitted, ModeNum]
  · split <;> simp [Emitted, ModeNum]
  · exact mouseActs_emitted _ _ a ha
  · exact encActs_emitted _ _ a ha

theorem diffActs_emitted (s prev : Screen) : ∀ a ∈ diffActs s prev, Emitted a := by
  intro a ha
  simp only [diffActs, List.mem_append] at ha
  rcases ha with (((ha | ha) | ha) | ha) | ha
  · split at ha
    · simp only [List.mem_singleton] at ha; subst ha; trivial
    · simp at ha
  · split at ha
    · simp only [List.mem_singleton] at ha; subst ha; split <;> simp [Emitted, ModeNum]
    · simp at ha
  · split at ha
    · simp only [List.mem_singleton] at ha; subst ha; split <;> simp [Emitted, ModeNum]
    · simp at ha
  · exact mouseActs_emitted _ _ a ha
  · exact encActs_emitted _ _ a ha

theorem emitted_bound {as : List ModeAct} (h : ∀ a ∈ as, Emitted a) :
    ∀ a ∈ as, ∀ n, (a = .set n ∨ a = .rst n) → n ≤ 65535 := by
  intro a ha n hn
  have := h a ha
  rcases hn with rfl | rfl <;> exact modeNum_le this

/-- processing the bytes of a list of emitted mode sequences = applying them to the screen -/
theorem process_acts (W : Nat → Option Nat) (cb : CbPolicy) (p : Parser) (as : List ModeAct)
    (h : ∀ a ∈ as, Emitted a) (hr : C09.Ready p) (q' : Screen) (happ : applyActs p.ws.screen as = .ok q') :
    ∃ p', p.process W cb (as.flatMap actBytes) = .ok p' ∧ p'.ws = { p.ws with screen := q' } ∧ C09.Ready p' := by
  obtain ⟨e, g, c⟩ := tok_acts as (emitted_bound h) p.vte hr.1 hr.2
  simp only [Parser.process, e, perform_acts W cb as p.ws h, happ, ok_bind, pure_bind']
  exact ⟨_, rfl, rfl, g, c⟩

/-- **C10, bytes**: processing `s.input_mode_formatted()` on a ready parser whose mouse mode and encoding
are at their defaults leaves exactly the five input modes of `s`; nothing else on the screen changes and
no event is reported -/
theorem process_input_mode_formatted (W : Nat → Option Nat) (cb : CbPolicy) (p : Parser) (s : Screen)
    (hr : C09.Ready p) (hm : p.ws.screen.mouseMode = .none) (he : p.ws.screen.mouseEnc = .default) :
    ∃ p', p.process W cb s.inputModeFormatted = .ok p' ∧
      p'.ws = { p.ws with screen := setInputModes p.ws.screen (inputModes s) } ∧ C09.Ready p' := by
  rw [input_mode_formatted_bytes]
  exact process_acts W cb p _ (formattedActs_emitted s) hr _ (input_mode_formatted_roundtrip s p.ws.screen hm he)

/-- **C10, bytes**: processing `s.input_mode_diff(prev)` on a ready parser whose input modes equal `prev`'s
leaves exactly the five input modes of `s` -/
theorem process_input_mode_diff (W : Nat → Option Nat) (cb : CbPolicy) (p : Parser) (s prev : Screen)
    (hr : C09.Ready p) (hq : inputModes p.ws.screen = inputModes prev) :
    ∃ p', p.process W cb (s.inputModeDiff prev) = .ok p' ∧
      p'.ws = { p.ws with screen := setInputModes p.ws.screen (inputModes s) } ∧ C09.Ready p' := by
  rw [input_mode_diff_bytes]
  exact process_acts W cb p _ (diffActs_emitted s prev) hr _ (input_mode_diff_roundtrip s prev p.ws.screen hq)

/-- **C10, bytes**: the cursor-visibility sequence `contents_formatted` / `contents_diff` write
(`ESC [ ? 25 l` to hide, `ESC [ ? 25 h` to show) sets exactly that flag -/
theorem process_hideCursor (W : Nat → Option Nat) (cb : CbPolicy) (p : Parser) (b : Bool) (hr : C09.Ready p) :
    ∃ p', p.process W cb (Term.hideCursor b) = .ok p' ∧
      p'.ws = { p.ws with screen := { p.ws.screen with hideCursor := b } } ∧ C09.Ready p' := by
  have i25 : Term.itoa 25 = [50, 53] := by decide +kernel
  cases b
  · have ht := tok_csi_private [25] 104 (by simp) (by simp) (by omega)
    have hb : Term.hideCursor false = [0x1B, 0x5B, 0x3F] ++ paramBytes [25] ++ [104] := by
      simp [Term.hideCursor, paramBytes, i25, Term.ESC]
    rw [hb]
    obtain ⟨e, g, c⟩ := ht p.vte hr.1 hr.2
    simp only [Parser.process, e, Tok.groups]
    exact ⟨_, rfl, rfl, g, c⟩
  · have ht := tok_csi_private [25] 108 (by simp) (by simp) (by omega)
    have hb : Term.hideCursor true = [0x1B, 0x5B, 0x3F] ++ paramBytes [25] ++ [108] := by
      simp [Term.hideCursor, paramBytes, i25, Term.ESC]
    rw [hb]
    obtain ⟨e, g, c⟩ := ht p.vte hr.1 hr.2
    simp only [Parser.process, e, Tok.groups]
    exact ⟨_, rfl, rfl, g, c⟩

end Vt.C10
