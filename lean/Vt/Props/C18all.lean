/-
  C18all — the callback-event classification of EVERY action: one table, one theorem.

  `expectedEvents s a`  : for every `Action` (every `Perform` call vte can make), the list of calls
                          `perform` makes on the `Callbacks` object when it meets `a` on screen `s`,
                          with payloads.  Written as a table from src/perform.rs / src/screen.rs, not
                          from the model's `perform`.
  `changesScreen a`     : `false` exactly for the sequences that only report, SI / SO, DCS, and the
                          unimplemented ones.
  `perform_events`      : `perform W cb ws a = .ok ws' → ws'.events = ws.events ++ expectedEvents ws.screen a`
                          for EVERY action `a` and EVERY callbacks policy `cb`.
  `perform_reports_only`: `changesScreen a = false → perform W cb ws a = report cb (expectedEvents ws.screen a) ws`
                          (the action does nothing but hand its events to the callbacks, in order);
                          `perform_cbNone`, `perform_cbNone_inert`: with callbacks that leave the screen
                          alone the screen is *equal* afterwards, and the action cannot fail.
  `run_events`, `run_events_flat`, `run_inert`, `process_events`, `process_events_flat`, `process_inert`:
                          lists of actions and `Parser::process` on arbitrary bytes (events in stream order).
  corollaries           : `no_callback_iff` / `implemented_no_callback`, `unknown_private_mode_reported`,
                          `unknown_private_modes_list`, `unknown_ed_el_private`, `unknown_ed_el`,
                          `unknown_sgr_reported`, `unknown_sgr_then_rest`, `sgr_1_5`, `sgr_malformed_silent`,
                          `sgr_unknown_colour_space`, `osc_st_terminated`, `osc_bel_terminated`,
                          `si_so_dcs_inert`.

  READING (how the property text has to be read for it to be true of the code)

  * "reported exactly once" is PER UNIMPLEMENTED PARAMETER, not per sequence, for the two sequences
    that loop over their parameters:
      - `CSI ? p1 ; … ; pk h` and `… l`: one `unhandled_csi` call for every `pi` that is not one of
        [1] [6] [9] [25] [47] [1000] [1002] [1003] [1005] [1006] [1049] [2004] (a parameter with
        sub-parameters such as `1:2` is never one of them), in order.  Every one of these calls carries
        the same payload: the marker `?`, the second intermediate if any, the COMPLETE parameter
        list, the final byte.  `CSI ? 7 ; 12 h` gives two identical calls.  The implemented
        parameters of the same sequence still apply, in order (`unknown_private_modes_list`):
        `CSI ? 7 ; 25 h` reports once and shows the cursor.
      - `CSI p1 ; … ; pk m`: one `unhandled_csi` call (payload: no intermediates, the complete
        parameter list, `m`) for every parameter that has no meaning; the others still change the
        pen (`CSI 1 ; 5 m`: one call, and bold — `sgr_1_5`).  So a sequence can BOTH be reported and
        change the screen.
  * three things about SGR colours are not covered by the property text at all:
      - a bare `38` / `48` followed by a parameter other than `2` / `5` is reported ONCE and the REST
        of the sequence is dropped (`sgr_unknown_colour_space`);
      - a bare `38` / `48` at the end of the sequence, `38;5` / `38;2;r;g` cut short (or continued by a
        parameter with sub-parameters), and any colour component above 255 — in the `;` form or in
        the `:` form `38:5:i`, `38:2:r:g:b` — end the processing of the sequence SILENTLY: no
        callback for it, and no effect and no callback for anything after it
        (`sgr_malformed_silent`).  These are unimplemented inputs that are NOT reported;
      - `38:2:…` / `38:5:…` with any other number of sub-parameters, and every other parameter with
        sub-parameters, is reported like an unknown number.
  * an OSC closed by ST (`ESC \`) is two actions for vte: the `osc_dispatch` (same fields as with BEL,
    `bell_terminated = false`, which vt100 ignores) and then `esc_dispatch([], '\')`, which vt100 does
    not implement.  So `ESC ] 2 ; title ESC \` makes TWO calls: `set_window_title(title)` and
    `unhandled_escape(None, None, b'\\')` (`osc_st_terminated`); with BEL only the first.
  * `CSI 8 ; r ; c t`: `resize((r, c))`; an absent (or empty) second / third parameter defaults to the
    current number of rows / columns of the screen the action meets; the value 0 is NOT defaulted;
    further parameters and sub-parameters are ignored.  This is the only payload that depends on the
    screen (`expectedEvents_indep`).
  * `CSI J` / `CSI K` / `CSI ? J` / `CSI ? K` look at the first value of the first parameter only:
    0 1 2 are implemented, anything else is reported once (with the marker, if there is one) and
    erases nothing.
  * a C1 control (U+0080..U+009F) that reaches `print` is reported as `unhandled_control` like the one
    reaching `execute`; U+FFFD is reported as `unhandled_char` and not drawn.
  * the `ignore` flag (more than two intermediates / too many parameters) is not looked at by vt100.
-/
import Vt.Props.C18
import Vt.Props.C10
import Vt.Props.C09
import Vt.Lemmas.Tokens
namespace Vt.C18all
open Vt

/-! ## the specification -/

/-- the first value of the `i`-th parameter of a CSI sequence, if it is there -/
def paramValue (params : List (List Nat)) (i : Nat) : Option Nat := params[i]? >>= fun p => p.head?

/-- the DEC private modes `CSI ? n h` / `CSI ? n l` implement -/
def privateModeImplemented (p : List Nat) : Bool :=
  p ∈ [[1], [6], [9], [25], [47], [1000], [1002], [1003], [1005], [1006], [1049], [2004]]

/-- the single SGR numbers with a meaning of their own -/
def sgrKnown (n : Nat) : Bool :=
  n ∈ [0, 1, 2, 3, 4, 7, 22, 23, 24, 27, 39, 49] ||
  (30 ≤ n && n ≤ 37) || (40 ≤ n && n ≤ 47) || (90 ≤ n && n ≤ 97) || (100 ≤ n && n ≤ 107)

/-- the outcome of one step of `CSI … m` -/
inductive SgrItem where
  | applied     -- the pen changes
  | reported    -- `unhandled_csi` is called
  deriving DecidableEq, Repr

/-- what one parameter of `CSI … m` does -/
inductive SgrStep where
  | apply (extra : Nat)   -- changes the pen, using up `extra` further parameters
  | report                -- reported; the following parameters are still looked at
  | reportStop            -- reported; the rest of the sequence is dropped
  | stop                  -- silently dropped together with the rest of the sequence
  deriving DecidableEq, Repr

def rgbOk (r g b : Nat) : Bool := r ≤ 255 && g ≤ 255 && b ≤ 255

/-- after a bare `38` / `48`: the legacy `;2;r;g;b` and `;5;i` forms -/
def colourStep (rest : List (List Nat)) : SgrStep :=
  match rest with
  | [2] :: [r] :: [g] :: [b] :: _ => if rgbOk r g b then .apply 4 else .stop
  | [5] :: [i] :: _ => if i ≤ 255 then .apply 2 else .stop
  | [2] :: _ => .stop
  | [5] :: _ => .stop
  | [] => .stop
  | _ :: _ => .reportStop

/-- what the parameter `p` of `CSI … m` does, given the parameters `rest` that follow it -/
def sgrStep (p : List Nat) (rest : List (List Nat)) : SgrStep :=
  match p with
  | [n] => if sgrKnown n then .apply 0 else if n = 38 ∨ n = 48 then colourStep rest else .report
  | [n, 2, r, g, b] => if n = 38 ∨ n = 48 then (if rgbOk r g b then .apply 0 else .stop) else .report
  | [n, 5, i] => if n = 38 ∨ n = 48 then (if i ≤ 255 then .apply 0 else .stop) else .report
  | _ => .report

/-- how `CSI … m` goes through a non-empty parameter list, left to right -/
def sgrItems : List (List Nat) → List SgrItem
  | [] => []
  | p :: rest =>
    match sgrStep p rest with
    | .apply k => .applied :: sgrItems (rest.drop k)
    | .report => .reported :: sgrItems rest
    | .reportStop => [.reported]
    | .stop => []
termination_by ps => ps.length
decreasing_by all_goals (simp only [List.length_cons, List.length_drop]; omega)

/-- test: `1` applies, `5` is reported, `38;2;1;2;3` applies, `99` is reported, `38:5:7` applies,
`38:5:700` stops the sequence silently (the final `3` is never looked at) -/
example : sgrItems [[1],[5],[38],[2],[1],[2],[3],[99],[38,5,7],[38,5,700],[3]]
    = [.applied, .reported, .applied, .reported, .applied] := by decide +kernel

/-- `CSI p1 ; … ; pk m` (k ≥ 1): one copy of the event `e` per reported parameter -/
def sgrEvents (e : Event) (ps : List (List Nat)) : List Event :=
  ((sgrItems ps).filter (· == .reported)).map (fun _ => e)

/-! ### the table -/

/-- ESC finals (no intermediate) that change the screen: `7 8 = > M c` -/
def escImplemented (b : Nat) : Bool := b ∈ [55, 56, 61, 62, 77, 99]

/-- CSI finals (no intermediate, no private marker) that are implemented and never call back:
`@ A B C D E F G H L M P S T X d r` -/
def csiPlainImplemented (c : Nat) : Bool :=
  c ∈ [64, 65, 66, 67, 68, 69, 70, 71, 72, 76, 77, 80, 83, 84, 88, 100, 114]

/-- the erase mode of `CSI J` / `CSI K`: the first value of the first parameter, 0 if absent -/
def eraseMode (params : List (List Nat)) : Nat := (paramValue params 0).getD 0

/-- `CSI ? p1 ; … ; pk h/l`: one copy of the event `e` per unimplemented parameter, in order -/
def modeEvents (e : Event) (ps : List (List Nat)) : List Event :=
  (ps.filter (fun p => !privateModeImplemented p)).map (fun _ => e)

/-- **The table.**  The calls `perform` makes on the `Callbacks` object for action `a` met on screen `s`
(`s` matters for the default size of a resize request only).  `[]` = implemented or ignored. -/
def expectedEvents (s : Screen) : Action → List Event
  | .print c =>
    if 0x80 ≤ c ∧ c < 0xA0 then [.unhandledControl c]          -- a C1 control that reached `print`
    else if c = 0xFFFD then [.unhandledChar c]                  -- the replacement character
    else []                                                     -- drawn
  | .execute b =>
    if b = 7 then [.audibleBell]                                -- BEL
    else if 8 ≤ b ∧ b ≤ 15 then []                              -- BS HT LF VT FF CR, and SO SI (ignored)
    else [.unhandledControl b]                                  -- every other C0 / C1 control
  | .hook _ _ _ _ => []                                         -- DCS strings are ignored
  | .put _ => []
  | .unhook => []
  | .oscDispatch params _ =>                                    -- the terminator does not matter
    match params with
    | [[48], t] => [.setWindowIconName t, .setWindowTitle t]    -- OSC 0 ; t   (icon name first)
    | [[49], t] => [.setWindowIconName t]                       -- OSC 1 ; t
    | [[50], t] => [.setWindowTitle t]                          -- OSC 2 ; t
    | _ => [.unhandledOsc params]                               -- any other number / number of fields
  | .escDispatch ints _ b =>
    if ints ≠ [] then [.unhandledEscape ints[0]? ints[1]? b]    -- ESC with intermediates: never implemented
    else if b = 103 then [.visualBell]                          -- ESC g
    else if escImplemented b then []                            -- ESC 7 8 = > M c
    else [.unhandledEscape none none b]
  | .csiDispatch params ints _ c =>
    -- the payload of every `unhandled_csi` of this sequence: both intermediates, all parameters, final
    let unh := Event.unhandledCsi ints[0]? ints[1]? params c
    match ints[0]? with
    | none =>                                                   -- no intermediate, no private marker
      if csiPlainImplemented c then []                          -- CSI @ A B C D E F G H L M P S T X d r
      else if c = 74 ∨ c = 75 then                              -- CSI J, CSI K
        (if eraseMode params ≤ 2 then [] else [unh])
      else if c = 109 then sgrEvents unh params                 -- CSI m: one per meaningless parameter
      else if c = 116 ∧ paramValue params 0 = some 8 then       -- CSI 8 ; rows ; cols t
        [.resize ((paramValue params 1).getD s.size.rows) ((paramValue params 2).getD s.size.cols)]
      else [unh]                                                -- every other final, every other `t`
    | some 63 =>                                                -- first intermediate is `?`
      if c = 74 ∨ c = 75 then                                   -- CSI ? J, CSI ? K
        (if eraseMode params ≤ 2 then [] else [unh])
      else if c = 104 ∨ c = 108 then modeEvents unh params      -- CSI ? h, CSI ? l: one per unknown mode
      else [unh]
    | some _ => [unh]                                           -- any other first intermediate / marker

/-- **Can the action change the screen?**  `false` exactly for: the report-only sequences (BEL, ESC g,
OSC, `CSI 8 t`), SI / SO, DCS, and everything unimplemented — including `CSI ? h/l` none of whose
parameters is implemented, `CSI [?] J/K` with a mode above 2, and `CSI m` with a non-empty parameter
list none of whose parameters applies. -/
def changesScreen : Action → Bool
  | .print c => !(decide (0x80 ≤ c ∧ c < 0xA0)) && c != 0xFFFD
  | .execute b => 8 ≤ b && b ≤ 13                               -- BS HT LF VT FF CR
  | .hook _ _ _ _ => false
  | .put _ => false
  | .unhook => false
  | .oscDispatch _ _ => false
  | .escDispatch ints _ b => ints.isEmpty && escImplemented b
  | .csiDispatch params ints _ c =>
    match ints[0]? with
    | none =>
      csiPlainImplemented c ||
      ((c == 74 || c == 75) && decide (eraseMode params ≤ 2)) ||
      (c == 109 && (params.isEmpty || (sgrItems params).contains .applied))
    | some 63 =>
      ((c == 74 || c == 75) && decide (eraseMode params ≤ 2)) ||
      ((c == 104 || c == 108) && params.any privateModeImplemented)
    | some _ => false

/-- hand the events to the callbacks object one after the other, do nothing else -/
def report (cb : CbPolicy) (evs : List Event) (ws : WS) : M WS := evs.foldlM (fun w e => emit cb e w) ws


/-- test helper: does `perform` agree with the table on this action, from a fresh 5x10 screen that has seen "ab"? -/
def agrees (a : Action) : Bool :=
  match Parser.new 5 10 3 >>= fun p => p.process W0 cbNone [97, 98] with
  | .error _ => false
  | .ok p =>
    match perform W0 cbNone p.ws a with
    | .error _ => false
    | .ok ws' => ws'.events == p.ws.events ++ expectedEvents p.ws.screen a &&
        (changesScreen a || ws'.screen == p.ws.screen)

/-- test (a differential check of the table against the model on 35 actions of every shape) -/
example : ([Action.print 65, .print 0x85, .print 0xFFFD, .execute 7, .execute 14, .execute 0, .execute 13,
  .hook [] [] false 112, .put 3, .unhook, .oscDispatch [[48], [1,2]] true, .oscDispatch [[51], [1,2]] true,
  .oscDispatch [] false, .escDispatch [] false 92, .escDispatch [40] false 66, .escDispatch [] false 103,
  .escDispatch [] false 55, .csiDispatch [[7],[25],[12]] [63] false 104, .csiDispatch [[3]] [63] false 74,
  .csiDispatch [[3]] [63, 36] false 75, .csiDispatch [[1]] [63] false 75, .csiDispatch [[1],[5]] [] false 109,
  .csiDispatch [[38],[7],[1]] [] false 109, .csiDispatch [[38],[2],[1]] [] false 109,
  .csiDispatch [[5],[6]] [] false 109, .csiDispatch [] [] false 109, .csiDispatch [[8],[30]] [] false 116,
  .csiDispatch [[8]] [] false 116, .csiDispatch [[8],[],[7]] [] false 116, .csiDispatch [[9]] [] false 116,
  .csiDispatch [[1]] [62] false 99, .csiDispatch [[1]] [] false 122, .csiDispatch [[2]] [] false 65,
  .csiDispatch [[0]] [63] false 110, .csiDispatch [[48, 5, 300]] [] false 109]).all agrees = true := by decide +kernel


/-! ## proofs -/

/-! ### SGR -/

theorem sgrItems_cons (p : List Nat) (rest : List (List Nat)) :
    sgrItems (p :: rest) =
      match sgrStep p rest with
      | .apply k => .applied :: sgrItems (rest.drop k)
      | .report => .reported :: sgrItems rest
      | .reportStop => [.reported]
      | .stop => [] := by
  rw [sgrItems]

theorem sgrEvents_apply {p rest k} (e : Event) (h : sgrStep p rest = .apply k) :
    sgrEvents e (p :: rest) = sgrEvents e (rest.drop k) := by
  simp [sgrEvents, sgrItems_cons, h]
theorem sgrEvents_report {p rest} (e : Event) (h : sgrStep p rest = .report) :
    sgrEvents e (p :: rest) = e :: sgrEvents e rest := by
  simp [sgrEvents, sgrItems_cons, h]
theorem sgrEvents_reportStop {p rest} (e : Event) (h : sgrStep p rest = .reportStop) :
    sgrEvents e (p :: rest) = [e] := by
  simp [sgrEvents, sgrItems_cons, h]
theorem sgrEvents_stop {p rest} (e : Event) (h : sgrStep p rest = .stop) :
    sgrEvents e (p :: rest) = [] := by
  simp [sgrEvents, sgrItems_cons, h]

theorem colourStep_2_short (rest2 : List (List Nat))
    (h : ∀ (r g b : Nat) (rest3 : List (List Nat)), rest2 = [r] :: [g] :: [b] :: rest3 → False) :
    colourStep ([2] :: rest2) = .stop := by
  unfold colourStep
  split
  · rename_i r g b rest3 heq
    simp only [List.cons.injEq, true_and] at heq
    exact absurd heq (h r g b rest3)
  all_goals first | rfl | simp_all

theorem colourStep_5_short (rest2 : List (List Nat))
    (h : ∀ (i : Nat) (rest3 : List (List Nat)), rest2 = [i] :: rest3 → False) :
    colourStep ([5] :: rest2) = .stop := by
  unfold colourStep
  split
  all_goals first | rfl | simp_all

theorem colourStep_other (hd : List Nat) (tl : List (List Nat)) (h2 : hd = [2] → False) (h5 : hd = [5] → False) :
    colourStep (hd :: tl) = .reportStop := by
  unfold colourStep
  split
  all_goals first | rfl | simp_all

theorem sgrStep_other (p : List Nat) (rest : List (List Nat))
    (h1 : ∀ n : Nat, p = [n] → False)
    (h2 : ∀ r g b : Nat, p = [38, 2, r, g, b] → False) (h3 : ∀ i : Nat, p = [38, 5, i] → False)
    (h4 : ∀ r g b : Nat, p = [48, 2, r, g, b] → False) (h5 : ∀ i : Nat, p = [48, 5, i] → False) :
    sgrStep p rest = .report := by
  unfold sgrStep
  split
  · exact (h1 _ rfl).elim
  · rename_i n r g b
    by_cases hn : n = 38 ∨ n = 48
    · rcases hn with rfl | rfl
      · exact (h2 _ _ _ rfl).elim
      · exact (h4 _ _ _ rfl).elim
    · simp only [hn, ↓reduceIte]
  · rename_i n i
    by_cases hn : n = 38 ∨ n = 48
    · rcases hn with rfl | rfl
      · exact (h3 _ rfl).elim
      · exact (h5 _ rfl).elim
    · simp only [hn, ↓reduceIte]
  · rfl

theorem emit_events {cb : CbPolicy} {e : Event} {ws ws' : WS} (h : emit cb e ws = .ok ws') :
    ws'.events = ws.events ++ [e] := C18.emit_appends cb e ws ws' h

macro "sgr_step" : tactic =>
  `(tactic| (simp_all [sgrStep, sgrKnown, colourStep, rgbOk, colourStep_2_short, colourStep_5_short,
      colourStep_other]; done))

theorem sgrLoop_events (cb : CbPolicy) (e : Event) :
    ∀ (ps : List (List Nat)) (ws ws' : WS), sgrLoop (emit cb e) ps ws = .ok ws' →
      ws'.events = ws.events ++ sgrEvents e ps := by
  intro ps ws
  fun_induction sgrLoop (emit cb e) ps ws <;> intro ws' h
  all_goals first
    | (simp only [pure_eq_ok, Except.ok.injEq] at h; subst h
       first
         | (simp [sgrEvents, sgrItems]; done)
         | (rw [sgrEvents_stop e (by sgr_step)]; simp; done))
    | (rename_i ih; rw [ih _ h, sgrEvents_apply e (k := 0) (by sgr_step)]; rfl)
    | (rename_i ih; rw [ih _ h, sgrEvents_apply e (k := 2) (by sgr_step)]; rfl)
    | (rename_i ih; rw [ih _ h, sgrEvents_apply e (k := 4) (by sgr_step)]; rfl)
    | (rw [emit_events h, sgrEvents_reportStop e (by sgr_step)]; done)
    | skip
  all_goals
    rename_i ih
    obtain ⟨w1, hw1, hw2⟩ := bind_eq_ok.mp h
    rw [ih _ _ hw2, emit_events hw1,
      sgrEvents_report e (by
        first
          | exact sgrStep_other _ _ (by assumption) (by assumption) (by assumption) (by assumption) (by assumption)
          | sgr_step)]
    simp
theorem sgrItems_apply {p rest k} (h : sgrStep p rest = .apply k) :
    sgrItems (p :: rest) = .applied :: sgrItems (rest.drop k) := by
  simp [sgrItems_cons, h]
theorem sgrItems_report {p rest} (h : sgrStep p rest = .report) :
    sgrItems (p :: rest) = .reported :: sgrItems rest := by
  simp [sgrItems_cons, h]
theorem sgrItems_reportStop {p rest} (h : sgrStep p rest = .reportStop) :
    sgrItems (p :: rest) = [.reported] := by
  simp [sgrItems_cons, h]
theorem sgrItems_stop {p rest} (h : sgrStep p rest = .stop) :
    sgrItems (p :: rest) = [] := by
  simp [sgrItems_cons, h]

/-- a parameter list none of whose parameters applies: `sgr` is exactly "call `unhandled` once per
reported parameter" -/
theorem sgrLoop_inert (unh : WS → M WS) :
    ∀ (ps : List (List Nat)) (ws : WS), SgrItem.applied ∉ sgrItems ps →
      sgrLoop unh ps ws = (sgrItems ps).foldlM (fun w _ => unh w) ws := by
  intro ps ws
  fun_induction sgrLoop unh ps ws <;> intro hno
  all_goals first
    | (simp [sgrItems]; done)
    | (rw [sgrItems_stop ?_]; (· rfl); (· sgr_step))
    | (exfalso; rw [sgrItems_apply (k := 0) ?_] at hno; (· simp at hno); (· sgr_step))
    | (exfalso; rw [sgrItems_apply (k := 2) ?_] at hno; (· simp at hno); (· sgr_step))
    | (exfalso; rw [sgrItems_apply (k := 4) ?_] at hno; (· simp at hno); (· sgr_step))
    | (rw [sgrItems_reportStop ?_]; (· simp only [List.foldlM_cons, List.foldlM_nil, bind_pure]); (· sgr_step))
    | skip
  all_goals
    rename_i ih
    rw [sgrItems_report ?_] at hno
    · rw [sgrItems_report ?_]
      · simp only [List.foldlM_cons]
        congr 1; funext w
        exact ih w (by simpa using hno)
      · first
          | exact sgrStep_other _ _ (by assumption) (by assumption) (by assumption) (by assumption) (by assumption)
          | sgr_step
    · first
        | exact sgrStep_other _ _ (by assumption) (by assumption) (by assumption) (by assumption) (by assumption)
        | sgr_step

theorem onScreen_events {ws ws' : WS} {f : Screen → M Screen} (h : ws.onScreen f = .ok ws') :
    ws'.events = ws.events := by
  simp only [WS.onScreen] at h
  obtain ⟨s, _, h2⟩ := bind_eq_ok.mp h
  simp only [pure_eq_ok, Except.ok.injEq] at h2
  subst h2; rfl

theorem report_nil (cb : CbPolicy) (ws : WS) : report cb [] ws = .ok ws := rfl
theorem report_one (cb : CbPolicy) (e : Event) (ws : WS) : report cb [e] ws = emit cb e ws := by
  simp only [report, List.foldlM_cons, List.foldlM_nil, bind_pure]
theorem report_cons (cb : CbPolicy) (e : Event) (evs : List Event) (ws : WS) :
    report cb (e :: evs) ws = (emit cb e ws >>= report cb evs) := by
  simp only [report, List.foldlM_cons]; rfl

/-- reporting appends exactly the reported events, in order -/
theorem report_events (cb : CbPolicy) : ∀ (evs : List Event) (ws ws' : WS), report cb evs ws = .ok ws' →
    ws'.events = ws.events ++ evs
  | [], ws, ws', h => by
    simp only [report_nil, Except.ok.injEq] at h; subst h; simp
  | e :: evs, ws, ws', h => by
    rw [report_cons] at h
    obtain ⟨w1, h1, h2⟩ := bind_eq_ok.mp h
    rw [report_events cb evs w1 ws' h2, emit_events h1]; simp

/-- the screen after reporting is what the callbacks made of it, one event after the other -/
theorem report_screen (cb : CbPolicy) : ∀ (evs : List Event) (ws ws' : WS), report cb evs ws = .ok ws' →
    evs.foldlM (fun s e => cb e s) ws.screen = .ok ws'.screen
  | [], ws, ws', h => by
    simp only [report_nil, Except.ok.injEq] at h; subst h; rfl
  | e :: evs, ws, ws', h => by
    rw [report_cons] at h
    obtain ⟨w1, h1, h2⟩ := bind_eq_ok.mp h
    have ih := report_screen cb evs w1 ws' h2
    simp only [emit] at h1
    obtain ⟨s1, hs1, hw1⟩ := bind_eq_ok.mp h1
    simp only [pure_eq_ok, Except.ok.injEq] at hw1
    subst hw1
    simp only [List.foldlM_cons, hs1, ok_bind]
    exact ih

/-- callbacks that leave the screen alone (`impl Callbacks for ()`, any recorder) -/
theorem report_cbNone : ∀ (evs : List Event) (ws : WS),
    report cbNone evs ws = .ok { screen := ws.screen, events := ws.events ++ evs }
  | [], ws => by simp [report_nil]
  | e :: evs, ws => by
    rw [report_cons]
    simp only [emit, cbNone, pure_eq_ok, ok_bind]
    rw [report_cbNone evs]
    simp

/-! ### parameter readers -/

theorem eraseMode_eq (params : List (List Nat)) : canon1 params 0 = eraseMode params := by
  simp only [canon1, firstOr0, eraseMode, paramValue]
  cases params with
  | nil => simp
  | cons p ps => cases p <;> simp <;> (intro h; exact h.symm)

theorem xtOp_eq (params : List (List Nat)) : xtOp params = paramValue params 0 := by
  cases params <;> simp [xtOp, paramValue]

theorem xtArg_tail (params : List (List Nat)) (d : Nat) : xtArg params.tail d = (paramValue params 1).getD d := by
  cases params with
  | nil => simp [xtArg, paramValue]
  | cons p ps =>
    cases ps with
    | nil => simp [xtArg, paramValue]
    | cons q qs => cases q <;> simp [xtArg, paramValue]

theorem xtArg_tail2 (params : List (List Nat)) (d : Nat) :
    xtArg params.tail.tail d = (paramValue params 2).getD d := by
  cases params with
  | nil => simp [xtArg, paramValue]
  | cons p ps =>
    cases ps with
    | nil => simp [xtArg, paramValue]
    | cons q qs =>
      cases qs with
      | nil => simp [xtArg, paramValue]
      | cons r rs => cases r <;> simp [xtArg, paramValue]

theorem head?_eq (l : List Nat) : l.head? = l[0]? := by cases l <;> rfl
theorem tail_head?_eq (l : List Nat) : l.tail.head? = l[1]? := by
  cases l with
  | nil => rfl
  | cons a t => cases t <;> rfl


/-! ### DEC private modes -/

theorem decsetOne_none (s : Screen) (p : List Nat) (h : privateModeImplemented p = false) :
    s.decsetOne p = .ok none := by
  unfold Screen.decsetOne
  split <;> first | rfl | simp [privateModeImplemented] at h

theorem decrstOne_none (s : Screen) (p : List Nat) (h : privateModeImplemented p = false) :
    s.decrstOne p = .ok none := by
  unfold Screen.decrstOne
  split <;> first | rfl | simp [privateModeImplemented] at h

theorem decsetOne_some (s : Screen) (p : List Nat) (h : privateModeImplemented p = true) (r : Option Screen)
    (hr : s.decsetOne p = .ok r) : ∃ s', r = some s' := by
  unfold Screen.decsetOne at hr
  split at hr
  all_goals first
    | (simp only [pure_eq_ok, Except.ok.injEq] at hr; exact ⟨_, hr.symm⟩)
    | (obtain ⟨_, _, h2⟩ := bind_eq_ok.mp hr
       simp only [pure_eq_ok, Except.ok.injEq] at h2; exact ⟨_, h2.symm⟩)
    | (obtain ⟨_, _, h2⟩ := bind_eq_ok.mp hr
       obtain ⟨_, _, h3⟩ := bind_eq_ok.mp h2
       obtain ⟨_, _, h4⟩ := bind_eq_ok.mp h3
       simp only [pure_eq_ok, Except.ok.injEq] at h4; exact ⟨_, h4.symm⟩)
    | (exfalso; simp [privateModeImplemented] at h; simp_all)

theorem decrstOne_some (s : Screen) (p : List Nat) (h : privateModeImplemented p = true) (r : Option Screen)
    (hr : s.decrstOne p = .ok r) : ∃ s', r = some s' := by
  unfold Screen.decrstOne at hr
  split at hr
  all_goals first
    | (simp only [pure_eq_ok, Except.ok.injEq] at hr; exact ⟨_, hr.symm⟩)
    | (obtain ⟨_, _, h2⟩ := bind_eq_ok.mp hr
       simp only [pure_eq_ok, Except.ok.injEq] at h2; exact ⟨_, h2.symm⟩)
    | (exfalso; simp [privateModeImplemented] at h; simp_all)

/-- one step of the `for param in params` loop of `decset` / `decrst` -/
def modeStep (one : Screen → List Nat → M (Option Screen)) (unh : WS → M WS) (ws : WS) (p : List Nat) : M WS := do
  match ← one ws.screen p with
  | some s => pure { ws with screen := s }
  | none => unh ws

theorem decset_eq (unh : WS → M WS) (ps : List (List Nat)) (ws : WS) :
    decset unh ps ws = ps.foldlM (modeStep Screen.decsetOne unh) ws := rfl
theorem decrst_eq (unh : WS → M WS) (ps : List (List Nat)) (ws : WS) :
    decrst unh ps ws = ps.foldlM (modeStep Screen.decrstOne unh) ws := rfl

/-- `one` classifies parameters the way the table does -/
structure Classifies (one : Screen → List Nat → M (Option Screen)) : Prop where
  none : ∀ s p, privateModeImplemented p = false → one s p = .ok none
  some : ∀ s p, privateModeImplemented p = true → ∀ r, one s p = .ok r → ∃ s', r = some s'

theorem classifies_decset : Classifies Screen.decsetOne := ⟨decsetOne_none, decsetOne_some⟩
theorem classifies_decrst : Classifies Screen.decrstOne := ⟨decrstOne_none, decrstOne_some⟩

theorem modes_events {one} (hc : Classifies one) (cb : CbPolicy) (e : Event) :
    ∀ (ps : List (List Nat)) (ws ws' : WS), ps.foldlM (modeStep one (emit cb e)) ws = .ok ws' →
      ws'.events = ws.events ++ modeEvents e ps
  | [], ws, ws', h => by
    simp only [List.foldlM_nil, pure_eq_ok, Except.ok.injEq] at h; subst h; simp [modeEvents]
  | p :: ps, ws, ws', h => by
    simp only [List.foldlM_cons] at h
    obtain ⟨w1, h1, h2⟩ := bind_eq_ok.mp h
    have ih := modes_events hc cb e ps w1 ws' h2
    simp only [modeStep] at h1
    obtain ⟨r, hr, h3⟩ := bind_eq_ok.mp h1
    cases hi : privateModeImplemented p
    · rw [hc.none _ _ hi] at hr
      simp only [Except.ok.injEq] at hr; subst hr
      simp only at h3
      rw [ih, emit_events h3]
      simp [modeEvents, hi]
    · obtain ⟨s', rfl⟩ := hc.some _ _ hi r hr
      simp only [pure_eq_ok, Except.ok.injEq] at h3; subst h3
      rw [ih]
      simp [modeEvents, hi]

/-- no parameter is implemented: the whole sequence only reports -/
theorem modes_inert {one} (hc : Classifies one) (cb : CbPolicy) (e : Event) :
    ∀ (ps : List (List Nat)) (ws : WS), ps.any privateModeImplemented = false →
      ps.foldlM (modeStep one (emit cb e)) ws = report cb (modeEvents e ps) ws
  | [], ws, _ => rfl
  | p :: ps, ws, h => by
    simp only [List.any_cons, Bool.or_eq_false_iff] at h
    simp only [List.foldlM_cons]
    have e1 : modeStep one (emit cb e) ws p = emit cb e ws := by
      simp only [modeStep, hc.none _ _ h.1, ok_bind]
    have e2 : modeEvents e (p :: ps) = e :: modeEvents e ps := by simp [modeEvents, h.1]
    rw [e1, e2, report_cons]
    congr 1; funext w
    exact modes_inert hc cb e ps w h.2

/-- with callbacks that leave the screen alone, the implemented parameters of a list apply as if the
unimplemented ones were not there -/
theorem modes_filter {one} (hc : Classifies one) (e : Event) :
    ∀ (ps : List (List Nat)) (ws ws' : WS) (evs0 : List Event),
      ps.foldlM (modeStep one (emit cbNone e)) ws = .ok ws' →
      (ps.filter privateModeImplemented).foldlM (modeStep one (emit cbNone e)) { ws with events := evs0 }
        = .ok { ws' with events := evs0 }
  | [], ws, ws', evs0, h => by
    simp only [List.foldlM_nil, pure_eq_ok, Except.ok.injEq] at h; subst h; rfl
  | p :: ps, ws, ws', evs0, h => by
    simp only [List.foldlM_cons] at h
    obtain ⟨w1, h1, h2⟩ := bind_eq_ok.mp h
    have ih := modes_filter hc e ps w1 ws' evs0 h2
    simp only [modeStep] at h1
    obtain ⟨r, hr, h3⟩ := bind_eq_ok.mp h1
    cases hi : privateModeImplemented p
    · rw [hc.none _ _ hi] at hr
      simp only [Except.ok.injEq] at hr; subst hr
      simp only [emit, cbNone, pure_eq_ok, ok_bind, Except.ok.injEq] at h3
      subst h3
      simpa [hi] using ih
    · obtain ⟨s', rfl⟩ := hc.some _ _ hi r hr
      simp only [pure_eq_ok, Except.ok.injEq] at h3; subst h3
      simp only [hi, List.filter_cons_of_pos, List.foldlM_cons]
      have : modeStep one (emit cbNone e) { ws with events := evs0 } p
          = .ok { screen := s', events := evs0 } := by
        simp only [modeStep, hr, ok_bind, pure_eq_ok]
      rw [this]
      exact ih

/-! ### ED / EL -/

theorem edMode_none (s : Screen) (m : Nat) (h : 3 ≤ m) : s.edMode m = .ok none := by
  unfold Screen.edMode
  split <;> first | omega | rfl
theorem elMode_none (s : Screen) (m : Nat) (h : 3 ≤ m) : s.elMode m = .ok none := by
  unfold Screen.elMode
  split <;> first | omega | rfl

theorem edMode_some (s : Screen) (m : Nat) (h : m ≤ 2) (r : Option Screen) (hr : s.edMode m = .ok r) :
    ∃ s', r = some s' := by
  have hm : m = 0 ∨ m = 1 ∨ m = 2 := by omega
  rcases hm with rfl | rfl | rfl
  all_goals
    simp only [Screen.edMode] at hr
    obtain ⟨_, _, h2⟩ := bind_eq_ok.mp hr
    simp only [pure_eq_ok, Except.ok.injEq] at h2; exact ⟨_, h2.symm⟩
theorem elMode_some (s : Screen) (m : Nat) (h : m ≤ 2) (r : Option Screen) (hr : s.elMode m = .ok r) :
    ∃ s', r = some s' := by
  have hm : m = 0 ∨ m = 1 ∨ m = 2 := by omega
  rcases hm with rfl | rfl | rfl
  all_goals
    simp only [Screen.elMode] at hr
    obtain ⟨_, _, h2⟩ := bind_eq_ok.mp hr
    simp only [pure_eq_ok, Except.ok.injEq] at h2; exact ⟨_, h2.symm⟩

theorem ed_inert (unh : WS → M WS) (m : Nat) (ws : WS) (h : 3 ≤ m) : ed unh m ws = unh ws := by
  simp only [ed, edMode_none _ _ h, ok_bind]
theorem el_inert (unh : WS → M WS) (m : Nat) (ws : WS) (h : 3 ≤ m) : el unh m ws = unh ws := by
  simp only [el, elMode_none _ _ h, ok_bind]

theorem ed_events (unh : WS → M WS) (m : Nat) (ws ws' : WS) (h : m ≤ 2) (hr : ed unh m ws = .ok ws') :
    ws'.events = ws.events := by
  simp only [ed] at hr
  obtain ⟨r, h1, h2⟩ := bind_eq_ok.mp hr
  obtain ⟨s', rfl⟩ := edMode_some _ _ h r h1
  simp only [pure_eq_ok, Except.ok.injEq] at h2; subst h2; rfl
theorem el_events (unh : WS → M WS) (m : Nat) (ws ws' : WS) (h : m ≤ 2) (hr : el unh m ws = .ok ws') :
    ws'.events = ws.events := by
  simp only [el] at hr
  obtain ⟨r, h1, h2⟩ := bind_eq_ok.mp hr
  obtain ⟨s', rfl⟩ := elMode_some _ _ h r h1
  simp only [pure_eq_ok, Except.ok.injEq] at h2; subst h2; rfl


/-! ### normal forms of the dispatch tables -/

theorem execute_other (cb : CbPolicy) (ws : WS) (b : Nat) (h : b < 7 ∨ 15 < b) :
    performExecute cb ws b = emit cb (.unhandledControl b) ws := by
  simp only [performExecute]
  split <;> first | omega | rfl

theorem esc_other (cb : CbPolicy) (ws : WS) (b : Nat) (h : escImplemented b = false) (hg : b ≠ 103) :
    performEsc cb ws [] b = emit cb (.unhandledEscape none none b) ws := by
  simp only [escImplemented, List.mem_cons, List.not_mem_nil, or_false, decide_eq_false_iff_not, not_or] at h
  simp only [performEsc]
  split <;> first | omega | rfl

theorem csi_plain_other (cb : CbPolicy) (ws : WS) (params : List (List Nat)) (c : Nat)
    (h : C18.csiImplemented c = false) :
    performCsi cb ws params [] c = emit cb (.unhandledCsi none none params c) ws := by
  simp only [C18.csiImplemented, Bool.or_eq_false_iff, beq_eq_false_iff_ne, ne_eq, Bool.and_eq_false_iff,
    decide_eq_false_iff_not, Nat.not_le] at h
  simp only [performCsi]
  split <;> first | omega | rfl

theorem csi_private_other (cb : CbPolicy) (ws : WS) (params : List (List Nat)) (rest : List Nat) (c : Nat)
    (h : c ≠ 74 ∧ c ≠ 75 ∧ c ≠ 104 ∧ c ≠ 108) :
    performCsi cb ws params (63 :: rest) c = emit cb (.unhandledCsi (some 63) rest.head? params c) ws := by
  simp only [performCsi]
  split <;> first | omega | rfl

theorem csi_intermediate (cb : CbPolicy) (ws : WS) (params : List (List Nat)) (i : Nat) (rest : List Nat) (c : Nat)
    (hi : i ≠ 63) :
    performCsi cb ws params (i :: rest) c = emit cb (.unhandledCsi (some i) rest.head? params c) ws := by
  simp only [performCsi]


/-! ### every action against the table -/

/-- what is proved of each action `a` with result `r = perform W cb ws a` -/
structure Spec (cb : CbPolicy) (ws : WS) (a : Action) (r : M WS) : Prop where
  events : ∀ ws', r = .ok ws' → ws'.events = ws.events ++ expectedEvents ws.screen a
  inert : changesScreen a = false → r = report cb (expectedEvents ws.screen a) ws

theorem spec_report {cb : CbPolicy} {ws : WS} {a : Action} {r : M WS} (evs : List Event)
    (h1 : r = report cb evs ws) (h2 : expectedEvents ws.screen a = evs) : Spec cb ws a r := by
  subst h1 h2
  exact ⟨fun ws' h => report_events cb _ ws ws' h, fun _ => rfl⟩

theorem spec_emit {cb : CbPolicy} {ws : WS} {a : Action} {r : M WS} (e : Event)
    (h1 : r = emit cb e ws) (h2 : expectedEvents ws.screen a = [e]) : Spec cb ws a r :=
  spec_report [e] (by rw [h1, report_one]) h2

theorem spec_pure {cb : CbPolicy} {ws : WS} {a : Action} {r : M WS}
    (h1 : r = .ok ws) (h2 : expectedEvents ws.screen a = []) : Spec cb ws a r :=
  spec_report [] (by rw [h1, report_nil]) h2

theorem spec_change {cb : CbPolicy} {ws : WS} {a : Action} {r : M WS}
    (h1 : ∀ ws', r = .ok ws' → ws'.events = ws.events) (h2 : expectedEvents ws.screen a = [])
    (h3 : changesScreen a = true) : Spec cb ws a r :=
  ⟨fun _ h => by rw [h1 _ h, h2]; simp, fun h => by rw [h3] at h; cases h⟩

theorem spec_onScreen {cb : CbPolicy} {ws : WS} {a : Action} {r : M WS} (f : Screen → M Screen)
    (h1 : r = ws.onScreen f) (h2 : expectedEvents ws.screen a = [])
    (h3 : changesScreen a = true) : Spec cb ws a r :=
  spec_change (fun _ h => onScreen_events (h1 ▸ h)) h2 h3

variable (W : Nat → Option Nat) (cb : CbPolicy) (ws : WS)

theorem spec_execute (b : Nat) : Spec cb ws (.execute b) (performExecute cb ws b) := by
  have hb : b = 7 ∨ b = 8 ∨ b = 9 ∨ b = 10 ∨ b = 11 ∨ b = 12 ∨ b = 13 ∨ b = 14 ∨ b = 15 ∨ (b < 7 ∨ 15 < b) := by
    omega
  rcases hb with rfl | rfl | rfl | rfl | rfl | rfl | rfl | rfl | rfl | h
  · exact spec_emit .audibleBell rfl rfl
  · exact spec_onScreen Screen.bs rfl rfl rfl
  · exact spec_onScreen Screen.tab rfl rfl rfl
  · exact spec_onScreen Screen.lf rfl rfl rfl
  · exact spec_onScreen Screen.lf rfl rfl rfl
  · exact spec_onScreen Screen.lf rfl rfl rfl
  · exact spec_onScreen Screen.cr rfl rfl rfl
  · exact spec_pure rfl rfl
  · exact spec_pure rfl rfl
  · refine spec_emit (.unhandledControl b) (execute_other cb ws b h) ?_
    have h1 : b ≠ 7 := by omega
    have h2 : ¬ (8 ≤ b ∧ b ≤ 15) := by omega
    simp only [expectedEvents, h1, h2, ↓reduceIte]

theorem spec_print (c : Nat) : Spec cb ws (.print c) (performPrint W cb ws c) := by
  by_cases h1 : 0x80 ≤ c ∧ c < 0xA0
  · have h1' : (decide (0x80 ≤ c) && decide (c < 0xA0)) = true := by simp [h1]
    refine spec_emit (.unhandledControl c) ?_ ?_
    · simp only [performPrint, h1', ↓reduceIte]
      exact execute_other cb ws c (Or.inr (by omega))
    · simp only [expectedEvents, h1, and_self, ↓reduceIte]
  · have h1' : (decide (0x80 ≤ c) && decide (c < 0xA0)) = false := by
      rcases (by omega : c < 0x80 ∨ 0xA0 ≤ c) with h | h
      · have : ¬ 0x80 ≤ c := by omega
        simp [this]
      · have : ¬ c < 0xA0 := by omega
        simp [this]
    by_cases h2 : c = 0xFFFD
    · subst h2
      exact spec_emit (.unhandledChar 0xFFFD) rfl rfl
    · have h2' : (c == 0xFFFD) = false := by simpa using h2
      refine spec_onScreen (fun s => s.text W c) ?_ ?_ ?_
      · simp only [performPrint, h1', h2', Bool.false_eq_true, ↓reduceIte]
      · simp only [expectedEvents, h1, h2, ↓reduceIte]
      · simp [changesScreen, h1, h2]

theorem spec_esc (ints : List Nat) (ig : Bool) (b : Nat) :
    Spec cb ws (.escDispatch ints ig b) (performEsc cb ws ints b) := by
  cases ints with
  | cons i rest =>
    refine spec_emit (.unhandledEscape (some i) rest.head? b) rfl ?_
    simp [expectedEvents, head?_eq]
  | nil =>
    have hb : b = 55 ∨ b = 56 ∨ b = 61 ∨ b = 62 ∨ b = 77 ∨ b = 99 ∨ b = 103 ∨
        (b ≠ 55 ∧ b ≠ 56 ∧ b ≠ 61 ∧ b ≠ 62 ∧ b ≠ 77 ∧ b ≠ 99 ∧ b ≠ 103) := by omega
    rcases hb with rfl | rfl | rfl | rfl | rfl | rfl | rfl | h
    · exact spec_onScreen Screen.decsc rfl rfl rfl
    · exact spec_onScreen Screen.decrc rfl rfl rfl
    · exact spec_change (fun ws' h => by cases h; rfl) rfl rfl
    · exact spec_change (fun ws' h => by cases h; rfl) rfl rfl
    · exact spec_onScreen Screen.ri rfl rfl rfl
    · exact spec_onScreen Screen.ris rfl rfl rfl
    · exact spec_emit .visualBell rfl rfl
    · have hi : escImplemented b = false := by simp [escImplemented]; omega
      refine spec_emit (.unhandledEscape none none b) (esc_other cb ws b hi h.2.2.2.2.2.2) ?_
      simp [expectedEvents, hi, h.2.2.2.2.2.2]

theorem spec_osc (params : List (List Nat)) (bl : Bool) :
    Spec cb ws (.oscDispatch params bl) (performOsc cb ws params) := by
  unfold performOsc
  split
  · rename_i t
    exact spec_report [.setWindowIconName t, .setWindowTitle t] (by rw [report_cons]; congr 1; funext w; rw [report_one]) rfl
  · rename_i t; exact spec_emit (.setWindowIconName t) rfl rfl
  · rename_i t; exact spec_emit (.setWindowTitle t) rfl rfl
  · rename_i h1 h2 h3
    refine spec_emit (.unhandledOsc params) rfl ?_
    simp only [expectedEvents]


/-! ### CSI -/

theorem expectedEvents_csi_plain (s : Screen) (params : List (List Nat)) (ig : Bool) (c : Nat) :
    expectedEvents s (.csiDispatch params [] ig c) =
      if csiPlainImplemented c then []
      else if c = 74 ∨ c = 75 then
        (if eraseMode params ≤ 2 then [] else [.unhandledCsi none none params c])
      else if c = 109 then sgrEvents (.unhandledCsi none none params c) params
      else if c = 116 ∧ paramValue params 0 = some 8 then
        [.resize ((paramValue params 1).getD s.size.rows) ((paramValue params 2).getD s.size.cols)]
      else [.unhandledCsi none none params c] := rfl

theorem expectedEvents_csi_private (s : Screen) (params : List (List Nat)) (rest : List Nat) (ig : Bool) (c : Nat) :
    expectedEvents s (.csiDispatch params (63 :: rest) ig c) =
      if c = 74 ∨ c = 75 then
        (if eraseMode params ≤ 2 then [] else [.unhandledCsi (some 63) rest.head? params c])
      else if c = 104 ∨ c = 108 then modeEvents (.unhandledCsi (some 63) rest.head? params c) params
      else [.unhandledCsi (some 63) rest.head? params c] := by
  simp [expectedEvents, head?_eq, modeEvents]

theorem expectedEvents_csi_other (s : Screen) (params : List (List Nat)) (i : Nat) (rest : List Nat) (ig : Bool)
    (c : Nat) (hi : i ≠ 63) :
    expectedEvents s (.csiDispatch params (i :: rest) ig c) = [.unhandledCsi (some i) rest.head? params c] := by
  simp only [expectedEvents, List.getElem?_cons_zero, List.getElem?_cons_succ, head?_eq]

theorem changesScreen_csi_plain (params : List (List Nat)) (ig : Bool) (c : Nat) :
    changesScreen (.csiDispatch params [] ig c) =
      (csiPlainImplemented c ||
       ((c == 74 || c == 75) && decide (eraseMode params ≤ 2)) ||
       (c == 109 && (params.isEmpty || (sgrItems params).contains .applied))) := rfl

theorem changesScreen_csi_private (params : List (List Nat)) (rest : List Nat) (ig : Bool) (c : Nat) :
    changesScreen (.csiDispatch params (63 :: rest) ig c) =
      (((c == 74 || c == 75) && decide (eraseMode params ≤ 2)) ||
       ((c == 104 || c == 108) && params.any privateModeImplemented)) := rfl

theorem changesScreen_csi_other (params : List (List Nat)) (i : Nat) (rest : List Nat) (ig : Bool)
    (c : Nat) (hi : i ≠ 63) :
    changesScreen (.csiDispatch params (i :: rest) ig c) = false := by
  simp only [changesScreen, List.getElem?_cons_zero]

theorem report_sgrEvents (cb : CbPolicy) (e : Event) : ∀ (items : List SgrItem) (ws : WS),
    SgrItem.applied ∉ items →
    report cb ((items.filter (· == .reported)).map (fun _ => e)) ws = items.foldlM (fun w _ => emit cb e w) ws
  | [], _, _ => rfl
  | it :: items, ws, h => by
    simp only [List.mem_cons, not_or] at h
    cases it with
    | applied => exact absurd rfl h.1
    | reported =>
      have : (SgrItem.reported == SgrItem.reported) = true := rfl
      simp only [List.filter_cons, this, ↓reduceIte, List.map_cons, report_cons, List.foldlM_cons]
      congr 1; funext w
      exact report_sgrEvents cb e items w h.2

/-- `CSI … m` -/
theorem spec_sgr (params : List (List Nat)) (ig : Bool) :
    Spec cb ws (.csiDispatch params [] ig 109) (sgr (emit cb (.unhandledCsi none none params 109)) params ws) := by
  have hE : expectedEvents ws.screen (.csiDispatch params [] ig 109)
      = sgrEvents (.unhandledCsi none none params 109) params := rfl
  have hC : changesScreen (.csiDispatch params [] ig 109)
      = (params.isEmpty || (sgrItems params).contains .applied) := rfl
  cases params with
  | nil =>
    exact spec_change (fun ws' h => by cases h; rfl) (by rw [hE]; simp [sgrEvents, sgrItems]) rfl
  | cons p ps =>
    have hs : sgr (emit cb (.unhandledCsi none none (p :: ps) 109)) (p :: ps) ws
        = sgrLoop (emit cb (.unhandledCsi none none (p :: ps) 109)) (p :: ps) ws := C09.sgr_nonempty _ _ _ _
    rw [hs]
    refine ⟨fun ws' h => ?_, fun h => ?_⟩
    · rw [hE]; exact sgrLoop_events cb _ _ _ _ h
    · rw [hC] at h
      simp only [List.isEmpty_cons, Bool.false_or, List.contains_eq_mem, decide_eq_false_iff_not] at h
      rw [hE, sgrLoop_inert _ _ _ h]
      exact (report_sgrEvents cb _ _ ws h).symm

/-- `CSI J` / `CSI ? J` with the `unhandled` closure `emit cb e` -/
theorem spec_ed {a : Action} (e : Event) (params : List (List Nat))
    (hE : expectedEvents ws.screen a = if eraseMode params ≤ 2 then [] else [e])
    (hC : eraseMode params ≤ 2 → changesScreen a = true) :
    Spec cb ws a (ed (emit cb e) (canon1 params 0) ws) := by
  rw [eraseMode_eq]
  by_cases h : eraseMode params ≤ 2
  · exact spec_change (fun ws' hr => ed_events _ _ _ _ h hr) (by rw [hE, if_pos h]) (hC h)
  · exact spec_emit e (ed_inert _ _ _ (by omega)) (by rw [hE, if_neg h])

theorem spec_el {a : Action} (e : Event) (params : List (List Nat))
    (hE : expectedEvents ws.screen a = if eraseMode params ≤ 2 then [] else [e])
    (hC : eraseMode params ≤ 2 → changesScreen a = true) :
    Spec cb ws a (el (emit cb e) (canon1 params 0) ws) := by
  rw [eraseMode_eq]
  by_cases h : eraseMode params ≤ 2
  · exact spec_change (fun ws' hr => el_events _ _ _ _ h hr) (by rw [hE, if_pos h]) (hC h)
  · exact spec_emit e (el_inert _ _ _ (by omega)) (by rw [hE, if_neg h])

/-- `CSI ? … h` / `CSI ? … l` with the `unhandled` closure `emit cb e` -/
theorem spec_modes {one} (hc : Classifies one) {a : Action} (e : Event) (params : List (List Nat))
    (hE : expectedEvents ws.screen a = modeEvents e params)
    (hC : changesScreen a = params.any privateModeImplemented) :
    Spec cb ws a (params.foldlM (modeStep one (emit cb e)) ws) := by
  refine ⟨fun ws' h => ?_, fun h => ?_⟩
  · rw [hE]; exact modes_events hc cb e params ws ws' h
  · rw [hC] at h
    rw [hE]; exact modes_inert hc cb e params ws h


theorem spec_csi (params : List (List Nat)) (ints : List Nat) (ig : Bool) (c : Nat) :
    Spec cb ws (.csiDispatch params ints ig c) (performCsi cb ws params ints c) := by
  cases ints with
  | nil =>
    have hc : c = 64 ∨ c = 65 ∨ c = 66 ∨ c = 67 ∨ c = 68 ∨ c = 69 ∨ c = 70 ∨ c = 71 ∨ c = 72 ∨ c = 76 ∨
        c = 77 ∨ c = 80 ∨ c = 83 ∨ c = 84 ∨ c = 88 ∨ c = 100 ∨ c = 114 ∨ c = 74 ∨ c = 75 ∨ c = 109 ∨ c = 116 ∨
        (c < 64 ∨ c = 73 ∨ (78 ≤ c ∧ c ≤ 79) ∨ (81 ≤ c ∧ c ≤ 82) ∨ (85 ≤ c ∧ c ≤ 87) ∨ (89 ≤ c ∧ c ≤ 99) ∨
          (101 ≤ c ∧ c ≤ 108) ∨ (110 ≤ c ∧ c ≤ 113) ∨ c = 115 ∨ 117 ≤ c) := by omega
    rcases hc with rfl | rfl | rfl | rfl | rfl | rfl | rfl | rfl | rfl | rfl | rfl | rfl | rfl | rfl | rfl | rfl |
      rfl | rfl | rfl | rfl | rfl | h
    · simp only [performCsi]; exact spec_onScreen _ rfl rfl rfl
    · simp only [performCsi]; exact spec_onScreen _ rfl rfl rfl
    · simp only [performCsi]; exact spec_onScreen _ rfl rfl rfl
    · simp only [performCsi]; exact spec_onScreen _ rfl rfl rfl
    · simp only [performCsi]; exact spec_onScreen _ rfl rfl rfl
    · simp only [performCsi]; exact spec_onScreen _ rfl rfl rfl
    · simp only [performCsi]; exact spec_onScreen _ rfl rfl rfl
    · simp only [performCsi]; exact spec_onScreen _ rfl rfl rfl
    · simp only [performCsi]; exact spec_onScreen _ rfl rfl rfl
    · simp only [performCsi]; exact spec_onScreen _ rfl rfl rfl
    · simp only [performCsi]; exact spec_onScreen _ rfl rfl rfl
    · simp only [performCsi]; exact spec_onScreen _ rfl rfl rfl
    · simp only [performCsi]; exact spec_onScreen _ rfl rfl rfl
    · simp only [performCsi]; exact spec_onScreen _ rfl rfl rfl
    · simp only [performCsi]; exact spec_onScreen _ rfl rfl rfl
    · simp only [performCsi]; exact spec_onScreen _ rfl rfl rfl
    · simp only [performCsi]; exact spec_onScreen _ rfl rfl rfl
    · -- J
      refine spec_ed cb ws (.unhandledCsi none none params 74) params ?_ ?_
      · rw [expectedEvents_csi_plain]; rfl
      · intro h; rw [changesScreen_csi_plain]; simp [h]
    · -- K
      refine spec_el cb ws (.unhandledCsi none none params 75) params ?_ ?_
      · rw [expectedEvents_csi_plain]; rfl
      · intro h; rw [changesScreen_csi_plain]; simp [h]
    · exact spec_sgr cb ws params ig
    · -- t
      by_cases h8 : paramValue params 0 = some 8
      · have h8' : (xtOp params == some 8) = true := by rw [xtOp_eq, h8]; rfl
        refine spec_emit (.resize ((paramValue params 1).getD ws.screen.size.rows)
          ((paramValue params 2).getD ws.screen.size.cols)) ?_ ?_
        · simp only [performCsi, h8', ↓reduceIte]
          rw [xtArg_tail2, xtArg_tail]
        · rw [expectedEvents_csi_plain]; simp [csiPlainImplemented, h8]
      · have h8' : (xtOp params == some 8) = false := by
          rw [xtOp_eq]; simpa using h8
        refine spec_emit (.unhandledCsi none none params 116) ?_ ?_
        · simp only [performCsi, h8', Bool.false_eq_true, ↓reduceIte]
        · rw [expectedEvents_csi_plain]; simp [csiPlainImplemented, h8]
    · have hi : C18.csiImplemented c = false := by
        simp only [C18.csiImplemented, Bool.or_eq_false_iff, beq_eq_false_iff_ne, ne_eq, Bool.and_eq_false_iff,
          decide_eq_false_iff_not, Nat.not_le]
        omega
      refine spec_emit (.unhandledCsi none none params c) (csi_plain_other cb ws params c hi) ?_
      rw [expectedEvents_csi_plain]
      have h1 : csiPlainImplemented c = false := by
        simp only [csiPlainImplemented, List.mem_cons, List.not_mem_nil, or_false, decide_eq_false_iff_not]
        omega
      have h2 : ¬ (c = 74 ∨ c = 75) := by omega
      have h3 : ¬ c = 109 := by omega
      have h4 : ¬ c = 116 := by omega
      simp [h1, h2, h3, h4]
  | cons i rest =>
    by_cases hi : i = 63
    · subst hi
      have hc : c = 74 ∨ c = 75 ∨ c = 104 ∨ c = 108 ∨ (c ≠ 74 ∧ c ≠ 75 ∧ c ≠ 104 ∧ c ≠ 108) := by omega
      rcases hc with rfl | rfl | rfl | rfl | h
      · refine spec_ed cb ws (.unhandledCsi (some 63) rest.head? params 74) params ?_ ?_
        · rw [expectedEvents_csi_private]; rfl
        · intro h; rw [changesScreen_csi_private]; simp [h]
      · refine spec_el cb ws (.unhandledCsi (some 63) rest.head? params 75) params ?_ ?_
        · rw [expectedEvents_csi_private]; rfl
        · intro h; rw [changesScreen_csi_private]; simp [h]
      · refine spec_modes cb ws classifies_decset (.unhandledCsi (some 63) rest.head? params 104) params ?_ ?_
        · rw [expectedEvents_csi_private]; rfl
        · rw [changesScreen_csi_private]; rfl
      · refine spec_modes cb ws classifies_decrst (.unhandledCsi (some 63) rest.head? params 108) params ?_ ?_
        · rw [expectedEvents_csi_private]; rfl
        · rw [changesScreen_csi_private]; rfl
      · refine spec_emit (.unhandledCsi (some 63) rest.head? params c) (csi_private_other cb ws params rest c h) ?_
        rw [expectedEvents_csi_private]
        have h2 : ¬ (c = 74 ∨ c = 75) := by omega
        have h3 : ¬ (c = 104 ∨ c = 108) := by omega
        simp [h2, h3]
    · exact spec_emit (.unhandledCsi (some i) rest.head? params c) (csi_intermediate cb ws params i rest c hi)
        (expectedEvents_csi_other _ params i rest ig c hi)

/-- every action of `perform` against the table -/
theorem perform_spec (a : Action) : Spec cb ws a (perform W cb ws a) := by
  cases a with
  | print c => exact spec_print W cb ws c
  | execute b => exact spec_execute cb ws b
  | hook p i g c => exact spec_pure rfl rfl
  | put b => exact spec_pure rfl rfl
  | unhook => exact spec_pure rfl rfl
  | oscDispatch params bl => exact spec_osc cb ws params bl
  | csiDispatch params ints ig c => exact spec_csi cb ws params ints ig c
  | escDispatch ints ig b => exact spec_esc cb ws ints ig b


/-! ## the theorems -/

/-- **C18, events, every action, every callbacks object.**  Whatever `perform` does with action `a`, the
calls it makes on the `Callbacks` object are exactly `expectedEvents` (computed on the screen the
action meets), in that order, appended to the log. -/
theorem perform_events (a : Action) (ws' : WS) (h : perform W cb ws a = .ok ws') :
    ws'.events = ws.events ++ expectedEvents ws.screen a :=
  (perform_spec W cb ws a).events ws' h

/-- **C18, inertness, every callbacks object.**  An action that is not implemented
(`changesScreen a = false`) does nothing but hand its events to the callbacks object, one after the
other: whatever happens to the screen is what the user's callbacks do to it. -/
theorem perform_reports_only (a : Action) (h : changesScreen a = false) :
    perform W cb ws a = report cb (expectedEvents ws.screen a) ws :=
  (perform_spec W cb ws a).inert h

theorem perform_inert (a : Action) (h : changesScreen a = false) (ws' : WS)
    (hr : perform W cb ws a = .ok ws') :
    (expectedEvents ws.screen a).foldlM (fun s e => cb e s) ws.screen = .ok ws'.screen := by
  rw [perform_reports_only W cb ws a h] at hr
  exact report_screen cb _ ws ws' hr

/-- **C18 for `impl Callbacks for ()` and every callbacks object that leaves the screen alone.** -/
theorem perform_cbNone (a : Action) (ws' : WS) (h : perform W cbNone ws a = .ok ws') :
    ws'.events = ws.events ++ expectedEvents ws.screen a ∧
    (changesScreen a = false → ws'.screen = ws.screen) := by
  refine ⟨perform_events W cbNone ws a ws' h, fun hc => ?_⟩
  rw [perform_reports_only W cbNone ws a hc, report_cbNone] at h
  cases h; rfl

/-- … and such an action never fails -/
theorem perform_cbNone_inert (a : Action) (h : changesScreen a = false) :
    perform W cbNone ws a = .ok { screen := ws.screen, events := ws.events ++ expectedEvents ws.screen a } := by
  rw [perform_reports_only W cbNone ws a h, report_cbNone]

/-! ### lists of actions, `Parser::process` -/

/-- the events of a run: each action's events, computed on the screen that action meets, in stream order -/
def runEvents (W : Nat → Option Nat) (cb : CbPolicy) : WS → List Action → List Event
  | _, [] => []
  | ws, a :: as =>
    expectedEvents ws.screen a ++
      match perform W cb ws a with
      | .ok ws1 => runEvents W cb ws1 as
      | .error _ => []

theorem run_events : ∀ (acts : List Action) (ws ws' : WS), acts.foldlM (perform W cb) ws = .ok ws' →
    ws'.events = ws.events ++ runEvents W cb ws acts
  | [], ws, ws', h => by
    simp only [List.foldlM_nil, pure_eq_ok, Except.ok.injEq] at h; subst h; simp [runEvents]
  | a :: as, ws, ws', h => by
    simp only [List.foldlM_cons] at h
    obtain ⟨w1, h1, h2⟩ := bind_eq_ok.mp h
    rw [run_events as w1 ws' h2, perform_events W cb ws a w1 h1]
    simp [runEvents, h1]

/-- the only payload that depends on the screen is the size a `CSI 8 ; r ; c t` request defaults to -/
def isResizeRequest : Action → Bool
  | .csiDispatch params [] _ 116 => paramValue params 0 == some 8
  | _ => false

theorem expectedEvents_indep (s s' : Screen) (a : Action) (h : isResizeRequest a = false) :
    expectedEvents s a = expectedEvents s' a := by
  cases a with
  | csiDispatch params ints ig c =>
    cases ints with
    | nil =>
      rw [expectedEvents_csi_plain, expectedEvents_csi_plain]
      by_cases hc : c = 116
      · subst hc
        have : ¬ paramValue params 0 = some 8 := by simpa [isResizeRequest] using h
        simp [this]
      · simp [hc]
    | cons i rest =>
      by_cases hi : i = 63
      · subst hi; rw [expectedEvents_csi_private, expectedEvents_csi_private]
      · rw [expectedEvents_csi_other _ _ _ _ _ _ hi, expectedEvents_csi_other _ _ _ _ _ _ hi]
  | _ => rfl

/-- without resize requests the events of a run are a function of the actions alone -/
theorem run_events_flat (s0 : Screen) : ∀ (acts : List Action) (ws ws' : WS),
    (∀ a ∈ acts, isResizeRequest a = false) → acts.foldlM (perform W cb) ws = .ok ws' →
    ws'.events = ws.events ++ acts.flatMap (expectedEvents s0)
  | [], ws, ws', _, h => by
    simp only [List.foldlM_nil, pure_eq_ok, Except.ok.injEq] at h; subst h; simp
  | a :: as, ws, ws', hn, h => by
    simp only [List.foldlM_cons] at h
    obtain ⟨w1, h1, h2⟩ := bind_eq_ok.mp h
    rw [run_events_flat s0 as w1 ws' (fun x hx => hn x (List.mem_cons_of_mem _ hx)) h2,
      perform_events W cb ws a w1 h1, expectedEvents_indep ws.screen s0 a (hn a List.mem_cons_self)]
    simp

/-- a run of unimplemented / report-only actions with callbacks that leave the screen alone: the screen
is untouched and the log receives every event, in stream order -/
theorem run_inert : ∀ (acts : List Action) (ws : WS), (∀ a ∈ acts, changesScreen a = false) →
    acts.foldlM (perform W cbNone) ws =
      .ok { screen := ws.screen, events := ws.events ++ acts.flatMap (expectedEvents ws.screen) }
  | [], ws, _ => by simp
  | a :: as, ws, h => by
    simp only [List.foldlM_cons]
    rw [perform_cbNone_inert W ws a (h a List.mem_cons_self)]
    simp only [ok_bind]
    rw [run_inert as _ (fun x hx => h x (List.mem_cons_of_mem _ hx))]
    simp

/-- **`Parser::process` on arbitrary bytes**: the callbacks object receives exactly the events of the
actions `vte` makes of the bytes, in stream order (`process` is a left fold, `C18.process_is_fold`). -/
theorem process_events (p p' : Parser) (bytes : List Nat) (h : p.process W cb bytes = .ok p') :
    p'.ws.events = p.ws.events ++ runEvents W cb p.ws (p.vte.advance bytes).2 := by
  rw [C18.process_is_fold] at h
  obtain ⟨w, h1, h2⟩ := bind_eq_ok.mp h
  simp only [pure_eq_ok, Except.ok.injEq] at h2
  subst h2
  exact run_events W cb _ p.ws w h1

theorem process_events_flat (p p' : Parser) (bytes : List Nat) (s0 : Screen)
    (hn : ∀ a ∈ (p.vte.advance bytes).2, isResizeRequest a = false)
    (h : p.process W cb bytes = .ok p') :
    p'.ws.events = p.ws.events ++ (p.vte.advance bytes).2.flatMap (expectedEvents s0) := by
  rw [C18.process_is_fold] at h
  obtain ⟨w, h1, h2⟩ := bind_eq_ok.mp h
  simp only [pure_eq_ok, Except.ok.injEq] at h2
  subst h2
  exact run_events_flat W cb s0 _ p.ws w hn h1

/-- bytes that contain only unimplemented / report-only sequences leave the screen as it was -/
theorem process_inert (p : Parser) (bytes : List Nat)
    (hi : ∀ a ∈ (p.vte.advance bytes).2, changesScreen a = false) :
    p.process W cbNone bytes = .ok
      { vte := (p.vte.advance bytes).1
        ws := { screen := p.ws.screen
                events := p.ws.events ++ (p.vte.advance bytes).2.flatMap (expectedEvents p.ws.screen) } } := by
  rw [C18.process_is_fold, run_inert W _ p.ws hi]
  rfl

/-! ## corollaries: the sentences of the property -/

/-- the sequences that produce no callback at all.  Everything the crate implements is here, plus
SI / SO and the three DCS actions (ignored on purpose).  For `CSI … m` "no parameter is reported"
includes the malformed colour forms that are dropped silently (`sgr_malformed_silent`). -/
def quiet : Action → Bool
  | .print c => !(decide (0x80 ≤ c ∧ c < 0xA0)) && c != 0xFFFD      -- every character but C1 and U+FFFD
  | .execute b => 8 ≤ b && b ≤ 15                                    -- BS HT LF VT FF CR SO SI
  | .hook _ _ _ _ => true
  | .put _ => true
  | .unhook => true
  | .oscDispatch _ _ => false
  | .escDispatch ints _ b => ints.isEmpty && escImplemented b         -- ESC 7 8 = > M c
  | .csiDispatch params ints _ c =>
    match ints[0]? with
    | none =>
      csiPlainImplemented c ||                                         -- CSI @ A B C D E F G H L M P S T X d r
      ((c == 74 || c == 75) && decide (eraseMode params ≤ 2)) ||       -- CSI J, CSI K, modes 0 1 2
      (c == 109 && !(sgrItems params).contains .reported)              -- CSI m, no parameter reported
    | some 63 =>
      ((c == 74 || c == 75) && decide (eraseMode params ≤ 2)) ||       -- CSI ? J, CSI ? K, modes 0 1 2
      ((c == 104 || c == 108) && params.all privateModeImplemented)    -- CSI ? h / l, all modes implemented
    | some _ => false

theorem sgrEvents_eq_nil (e : Event) (ps : List (List Nat)) :
    sgrEvents e ps = [] ↔ (sgrItems ps).contains .reported = false := by
  simp only [sgrEvents, List.map_eq_nil_iff, List.filter_eq_nil_iff, List.contains_eq_mem,
    decide_eq_false_iff_not]
  constructor
  · intro h hm; exact h _ hm rfl
  · intro h x hx hxr
    have : x = .reported := by cases x <;> first | rfl | cases hxr
    exact h (this ▸ hx)

theorem modeEvents_eq_nil (e : Event) (ps : List (List Nat)) :
    modeEvents e ps = [] ↔ ps.all privateModeImplemented = true := by
  simp [modeEvents, List.filter_eq_nil_iff]

/-- **"implemented sequences produce no callback"**, and nothing else is silent: an action makes no
call on the callbacks object exactly when it is in the list `quiet`. -/
theorem no_callback_iff (s : Screen) (a : Action) : expectedEvents s a = [] ↔ quiet a = true := by
  cases a with
  | print c =>
    simp only [expectedEvents, quiet]
    by_cases h1 : 0x80 ≤ c ∧ c < 0xA0
    · simp [h1]
    · by_cases h2 : c = 0xFFFD <;> simp [h1, h2]
  | execute b =>
    simp only [expectedEvents, quiet]
    by_cases h1 : b = 7
    · subst h1; simp
    · by_cases h2 : 8 ≤ b ∧ b ≤ 15 <;> simp [h1, h2]
  | hook _ _ _ _ => simp [expectedEvents, quiet]
  | put _ => simp [expectedEvents, quiet]
  | unhook => simp [expectedEvents, quiet]
  | oscDispatch params bl =>
    simp only [expectedEvents, quiet]
    split <;> simp
  | escDispatch ints ig b =>
    cases ints with
    | cons i rest => simp [expectedEvents, quiet]
    | nil =>
      simp only [expectedEvents, quiet]
      by_cases h1 : b = 103
      · subst h1; simp [escImplemented]
      · cases h2 : escImplemented b <;> simp [h1]
  | csiDispatch params ints ig c =>
    cases ints with
    | nil =>
      rw [expectedEvents_csi_plain]
      have hq : quiet (.csiDispatch params [] ig c) =
          (csiPlainImplemented c || ((c == 74 || c == 75) && decide (eraseMode params ≤ 2)) ||
            (c == 109 && !(sgrItems params).contains .reported)) := rfl
      rw [hq]
      cases h0 : csiPlainImplemented c
      · by_cases h1 : c = 74 ∨ c = 75
        · have h1' : (c == 74 || c == 75) = true := by simpa using h1
          have h1'' : (c == 109) = false := by rcases h1 with rfl | rfl <;> rfl
          by_cases h2 : eraseMode params ≤ 2 <;> simp [h1, h1', h1'', h2]
        · have h1' : (c == 74 || c == 75) = false := by simpa using h1
          by_cases h2 : c = 109
          · subst h2
            simp [sgrEvents_eq_nil]
          · have h2' : (c == 109) = false := by simpa using h2
            by_cases h3 : c = 116 ∧ paramValue params 0 = some 8 <;> simp [h1, h1', h2, h2', h3]
      · simp
    | cons i rest =>
      by_cases hi : i = 63
      · subst hi
        rw [expectedEvents_csi_private]
        have hq : quiet (.csiDispatch params (63 :: rest) ig c) =
            (((c == 74 || c == 75) && decide (eraseMode params ≤ 2)) ||
              ((c == 104 || c == 108) && params.all privateModeImplemented)) := rfl
        rw [hq]
        by_cases h1 : c = 74 ∨ c = 75
        · have h1' : (c == 74 || c == 75) = true := by simpa using h1
          have h1'' : (c == 104 || c == 108) = false := by rcases h1 with rfl | rfl <;> rfl
          by_cases h2 : eraseMode params ≤ 2 <;> simp [h1, h1', h1'', h2]
        · have h1' : (c == 74 || c == 75) = false := by simpa using h1
          by_cases h2 : c = 104 ∨ c = 108
          · have h2' : (c == 104 || c == 108) = true := by simpa using h2
            simp only [h1, h2, ↓reduceIte, modeEvents_eq_nil, h1', h2', Bool.false_and, Bool.true_and,
              Bool.false_or]
          · have h2' : (c == 104 || c == 108) = false := by simpa using h2
            simp [h1, h1', h2, h2']
      · rw [expectedEvents_csi_other _ _ _ _ _ _ hi]
        have hq : quiet (.csiDispatch params (i :: rest) ig c) = false := by
          simp only [quiet, List.getElem?_cons_zero]
        simp [hq]

/-- **`implemented_no_callback`**: every sequence in the list makes no call on the callbacks object,
whatever that object does -/
theorem implemented_no_callback (a : Action) (hq : quiet a = true) (ws' : WS)
    (h : perform W cb ws a = .ok ws') : ws'.events = ws.events := by
  rw [perform_events W cb ws a ws' h, (no_callback_iff ws.screen a).mpr hq]; simp

/-- `CSI ? params h` and `CSI ? params l` are the loops over the parameters -/
theorem perform_decset (params : List (List Nat)) (rest : List Nat) (ig : Bool) :
    perform W cb ws (.csiDispatch params (63 :: rest) ig 104) =
      params.foldlM (modeStep Screen.decsetOne (emit cb (.unhandledCsi (some 63) rest.head? params 104))) ws := rfl
theorem perform_decrst (params : List (List Nat)) (rest : List Nat) (ig : Bool) :
    perform W cb ws (.csiDispatch params (63 :: rest) ig 108) =
      params.foldlM (modeStep Screen.decrstOne (emit cb (.unhandledCsi (some 63) rest.head? params 108))) ws := rfl

/-- **`unknown_private_mode_reported`**, one mode: `CSI ? n h` / `CSI ? n l` with `n` not one of
1 6 9 25 47 1000 1002 1003 1005 1006 1049 2004 (for instance `?7h`, `?12h`, `?2026h`) is reported
once, with the marker, the parameter and the final byte, and changes nothing. -/
theorem unknown_private_mode_reported (n : Nat) (rest : List Nat) (ig : Bool) (c : Nat)
    (hn : privateModeImplemented [n] = false) (hc : c = 104 ∨ c = 108) :
    perform W cbNone ws (.csiDispatch [[n]] (63 :: rest) ig c) =
      .ok { screen := ws.screen, events := ws.events ++ [.unhandledCsi (some 63) rest.head? [[n]] c] } := by
  have hC : changesScreen (.csiDispatch [[n]] (63 :: rest) ig c) = false := by
    rw [changesScreen_csi_private]
    rcases hc with rfl | rfl <;> simp [hn]
  rw [perform_cbNone_inert W ws _ hC, expectedEvents_csi_private]
  rcases hc with rfl | rfl <;> simp [modeEvents, hn]

/-- (non-vacuity) `?7`, `?12`, `?2026`, and a mode written with a sub-parameter, are not implemented -/
example : privateModeImplemented [7] = false ∧ privateModeImplemented [12] = false ∧
    privateModeImplemented [2026] = false ∧ privateModeImplemented [25, 1] = false := by decide

/-- the loop over an all-implemented parameter list never calls `unhandled` -/
theorem modes_unh_irrelevant {one} (hc : Classifies one) (unh unh' : WS → M WS) :
    ∀ (ps : List (List Nat)) (ws : WS), ps.all privateModeImplemented = true →
      ps.foldlM (modeStep one unh) ws = ps.foldlM (modeStep one unh') ws
  | [], _, _ => rfl
  | p :: ps, ws, h => by
    simp only [List.all_cons, Bool.and_eq_true] at h
    have e1 : modeStep one unh ws p = modeStep one unh' ws p := by
      simp only [modeStep]
      cases hr : one ws.screen p with
      | error e => rfl
      | ok r =>
        obtain ⟨s', rfl⟩ := hc.some _ _ h.1 r hr
        rfl
    simp only [List.foldlM_cons, e1]
    congr 1; funext w
    exact modes_unh_irrelevant hc unh unh' ps w h.2

/-- **`unknown_private_mode_reported`, parameter lists** (the per-parameter reading): in
`CSI ? p1 ; … ; pk h` (or `l`) every unimplemented `pi` produces its own `unhandled_csi` event — all
carrying the complete parameter list — in order, and the screen ends up exactly as after the same
sequence with the unimplemented parameters deleted: the implemented ones apply. -/
theorem unknown_private_modes_list (params : List (List Nat)) (rest : List Nat) (ig : Bool) (c : Nat)
    (hc : c = 104 ∨ c = 108) (ws' : WS) (evs0 : List Event)
    (h : perform W cbNone ws (.csiDispatch params (63 :: rest) ig c) = .ok ws') :
    ws'.events = ws.events ++
      (params.filter (fun p => !privateModeImplemented p)).map
        (fun _ => Event.unhandledCsi (some 63) rest.head? params c) ∧
    perform W cbNone { ws with events := evs0 }
      (.csiDispatch (params.filter privateModeImplemented) (63 :: rest) ig c) = .ok { ws' with events := evs0 } := by
  refine ⟨?_, ?_⟩
  · rw [perform_events W cbNone ws _ ws' h, expectedEvents_csi_private]
    rcases hc with rfl | rfl <;> simp [modeEvents]
  · have hall : (params.filter privateModeImplemented).all privateModeImplemented = true := by
      simp
    rcases hc with rfl | rfl
    · rw [perform_decset] at h ⊢
      rw [modes_unh_irrelevant classifies_decset _
        (emit cbNone (.unhandledCsi (some 63) rest.head? params 104)) _ _ hall]
      exact modes_filter classifies_decset _ params ws ws' evs0 h
    · rw [perform_decrst] at h ⊢
      rw [modes_unh_irrelevant classifies_decrst _
        (emit cbNone (.unhandledCsi (some 63) rest.head? params 108)) _ _ hall]
      exact modes_filter classifies_decrst _ params ws ws' evs0 h

/-- **`unknown_ed_el_private`**: `CSI ? n J` / `CSI ? n K` with `n ≥ 3` (and likewise without the `?`)
is reported once and erases nothing. -/
theorem unknown_ed_el_private (params : List (List Nat)) (rest : List Nat) (ig : Bool) (c : Nat)
    (hm : 3 ≤ eraseMode params) (hc : c = 74 ∨ c = 75) :
    perform W cbNone ws (.csiDispatch params (63 :: rest) ig c) =
      .ok { screen := ws.screen, events := ws.events ++ [.unhandledCsi (some 63) rest.head? params c] } := by
  have hm' : ¬ eraseMode params ≤ 2 := by omega
  have hC : changesScreen (.csiDispatch params (63 :: rest) ig c) = false := by
    rw [changesScreen_csi_private]
    rcases hc with rfl | rfl <;> simp [hm']
  rw [perform_cbNone_inert W ws _ hC, expectedEvents_csi_private]
  rcases hc with rfl | rfl <;> simp [hm']

/-- (non-vacuity) `CSI ? 3 J`: mode 3; `CSI ? J`: mode 0 -/
example : eraseMode [[3]] = 3 ∧ eraseMode [] = 0 ∧ eraseMode [[0]] = 0 := by decide

theorem unknown_ed_el (params : List (List Nat)) (ig : Bool) (c : Nat)
    (hm : 3 ≤ eraseMode params) (hc : c = 74 ∨ c = 75) :
    perform W cbNone ws (.csiDispatch params [] ig c) =
      .ok { screen := ws.screen, events := ws.events ++ [.unhandledCsi none none params c] } := by
  have hm' : ¬ eraseMode params ≤ 2 := by omega
  have hC : changesScreen (.csiDispatch params [] ig c) = false := by
    rw [changesScreen_csi_plain]
    rcases hc with rfl | rfl <;> simp [hm', csiPlainImplemented]
  rw [perform_cbNone_inert W ws _ hC, expectedEvents_csi_plain]
  rcases hc with rfl | rfl <;> simp [hm', csiPlainImplemented]

/-- **`si_so_dcs_inert`**: SI, SO and the three DCS actions (`hook`, `put`, `unhook` — a whole DCS
string is a `hook`, one `put` per byte, an `unhook`) do nothing at all: no callback, no change, for
every callbacks object -/
theorem si_so_dcs_inert (a : Action)
    (h : a = .execute 14 ∨ a = .execute 15 ∨ (∃ p i g c, a = .hook p i g c) ∨ (∃ b, a = .put b) ∨ a = .unhook) :
    perform W cb ws a = .ok ws := by
  rcases h with rfl | rfl | ⟨p, i, g, c, rfl⟩ | ⟨b, rfl⟩ | rfl <;> rfl

/-- **SGR, unknown parameter**: `CSI n m` with a meaningless single `n` is reported once, the pen stays -/
theorem unknown_sgr_reported (n : Nat) (ig : Bool) (hn : sgrKnown n = false) (h38 : n ≠ 38) (h48 : n ≠ 48) :
    perform W cbNone ws (.csiDispatch [[n]] [] ig 109) =
      .ok { screen := ws.screen, events := ws.events ++ [.unhandledCsi none none [[n]] 109] } := by
  have hs : sgrStep [n] [] = .report := by simp [sgrStep, hn, h38, h48]
  have hI : sgrItems [[n]] = [.reported] := by rw [sgrItems_report hs]; simp [sgrItems]
  have hC : changesScreen (.csiDispatch [[n]] [] ig 109) = false := by
    rw [changesScreen_csi_plain]; simp [csiPlainImplemented, hI]
  rw [perform_cbNone_inert W ws _ hC, expectedEvents_csi_plain]
  simp [csiPlainImplemented, sgrEvents, hI]

/-- (non-vacuity) blink, conceal, strike-through, overline … have no meaning for the crate -/
example : sgrKnown 5 = false ∧ sgrKnown 8 = false ∧ sgrKnown 9 = false ∧ sgrKnown 53 = false := by decide

/-- **SGR, per-parameter reading**: an unknown parameter in front of other parameters is reported
first; then the rest of the sequence is processed by the same loop as if it were not there -/
theorem unknown_sgr_then_rest (n : Nat) (q : List Nat) (rest : List (List Nat)) (ig : Bool)
    (hn : sgrKnown n = false) (h38 : n ≠ 38) (h48 : n ≠ 48) :
    perform W cbNone ws (.csiDispatch ([n] :: q :: rest) [] ig 109) =
      sgrLoop (emit cbNone (.unhandledCsi none none ([n] :: q :: rest) 109)) (q :: rest)
        { ws with events := ws.events ++ [.unhandledCsi none none ([n] :: q :: rest) 109] } := by
  have hk : C09.known n = false := by
    simp only [sgrKnown, List.mem_cons, List.not_mem_nil, or_false, Bool.or_eq_false_iff,
      decide_eq_false_iff_not, not_or, Bool.and_eq_false_iff, Nat.not_le] at hn
    simp only [C09.known, Bool.or_eq_false_iff, beq_eq_false_iff_ne, ne_eq, Bool.and_eq_false_iff,
      decide_eq_false_iff_not, Nat.not_le]
    omega
  have e : perform W cbNone ws (.csiDispatch ([n] :: q :: rest) [] ig 109) =
      sgrLoop (emit cbNone (.unhandledCsi none none ([n] :: q :: rest) 109)) ([n] :: q :: rest) ws := by
    simp only [perform, performCsi]
    exact C09.sgr_nonempty _ _ _ _
  rw [e, C09.sgr_unknown_skip _ _ _ _ hk]
  simp [emit, cbNone]

/-- `CSI 1 ; 5 m`: one event AND the pen becomes bold — "exactly once" is per unimplemented
parameter, and the implemented parameters of the same sequence still apply -/
theorem sgr_1_5 (ig : Bool) :
    perform W cbNone ws (.csiDispatch [[1], [5]] [] ig 109) =
      .ok { screen := { ws.screen with attrs := { ws.screen.attrs with intensity := .bold } }
            events := ws.events ++ [.unhandledCsi none none [[1], [5]] 109] } := by
  have e : perform W cbNone ws (.csiDispatch [[1], [5]] [] ig 109) =
      sgrLoop (emit cbNone (.unhandledCsi none none [[1], [5]] 109)) [[1], [5]] ws := by
    simp only [perform, performCsi]
    exact C09.sgr_nonempty _ _ _ _
  rw [e, C09.sgr_bold, C09.sgr_unknown_skip _ _ _ _ (by decide)]
  simp [emit, cbNone, sgrLoop, WS.modAttrs]

/-- **malformed SGR colour forms are dropped without any callback** (this is where the property's
"each unimplemented sequence is reported" does not hold): when the step is `.stop` — a bare `38`/`48` at
the end, `38;5` or `38;2;r;g` cut short, a colour component above 255 in either the `;` or the `:`
form — `perform` returns at once: no event, no change, and the parameters after it are not looked at,
for every callbacks object -/
theorem sgr_malformed_silent (p : List Nat) (rest : List (List Nat)) (ig : Bool)
    (h : sgrStep p rest = .stop) :
    perform W cb ws (.csiDispatch (p :: rest) [] ig 109) = .ok ws := by
  have hI : sgrItems (p :: rest) = [] := sgrItems_stop h
  have hC : changesScreen (.csiDispatch (p :: rest) [] ig 109) = false := by
    rw [changesScreen_csi_plain]; simp [csiPlainImplemented, hI]
  rw [perform_reports_only W cb ws _ hC, expectedEvents_csi_plain]
  simp [csiPlainImplemented, sgrEvents, hI, report_nil]

example : sgrStep [38] [] = .stop := by decide
example : sgrStep [48] [[5]] = .stop := by decide
example : sgrStep [38] [[2], [1], [2]] = .stop := by decide
example : sgrStep [38] [[5], [300], [1]] = .stop := by decide
example : sgrStep [38, 5, 300] [[1]] = .stop := by decide
example : sgrStep [48, 2, 0, 256, 0] [] = .stop := by decide

/-- a bare `38` / `48` followed by anything but `2` or `5` is reported once and ends the sequence -/
theorem sgr_unknown_colour_space (p : List Nat) (rest : List (List Nat)) (ig : Bool)
    (h : sgrStep p rest = .reportStop) :
    perform W cbNone ws (.csiDispatch (p :: rest) [] ig 109) =
      .ok { screen := ws.screen, events := ws.events ++ [.unhandledCsi none none (p :: rest) 109] } := by
  have hI : sgrItems (p :: rest) = [.reported] := sgrItems_reportStop h
  have hC : changesScreen (.csiDispatch (p :: rest) [] ig 109) = false := by
    rw [changesScreen_csi_plain]; simp [csiPlainImplemented, hI]
  rw [perform_cbNone_inert W ws _ hC, expectedEvents_csi_plain]
  simp [csiPlainImplemented, sgrEvents, hI]

example : sgrStep [38] [[7], [1]] = .reportStop := by decide

/-! ### OSC terminators, at the level of the vte automaton -/

/-- the fields of the OSC string collected so far (what `osc_end` hands over) -/
def oscFields (v : Vte) : List (List Nat) :=
  v.actionOscPutParam.oscParams.map
    (fun p => (v.actionOscPutParam.oscRaw.drop p.1).take (p.2 - p.1))

theorem oscEnd_actions (v : Vte) (b : Nat) : (v.oscEnd b).2 = [.oscDispatch (oscFields v) (b == 0x07)] := rfl

open Vt.C04 in
/-- inside an OSC string, BEL hands over the OSC (`bell_terminated = true`) and nothing else -/
theorem vte_osc_bel (v : Vte) (hs : v.state = .oscString) (hc : v.carry = []) :
    (v.advance [0x07]).2 = [.oscDispatch (oscFields v) true] := by
  rw [advance_eq_loop v _ 2 hc (by simp), advanceLoop_nonground_cons _ v _ _ (by rw [hs]; simp)]
  simp [Vte.changeState, hs, Vte.advanceOscString, advanceLoop_nil, oscEnd_actions]

open Vt.C04 in
/-- inside an OSC string, `ESC \\` (ST) hands over the same OSC (`bell_terminated = false`) and then
the `\\` as an escape sequence of its own -/
theorem vte_osc_st (v : Vte) (hs : v.state = .oscString) (hc : v.carry = []) :
    (v.advance [0x1B, 0x5C]).2 = [.oscDispatch (oscFields v) false, .escDispatch [] false 0x5C] := by
  rw [advance_eq_loop v _ 3 hc (by simp), advanceLoop_nonground_cons _ v _ _ (by rw [hs]; simp)]
  have h1 : v.changeState 0x1B = ({ (v.oscEnd 0x1B).1.resetParams with state := .escape }, (v.oscEnd 0x1B).2) := by
    simp [Vte.changeState, hs, Vte.advanceOscString]
  rw [h1]
  rw [advanceLoop_nonground_cons _ _ _ _ (by simp)]
  simp [Vte.changeState, Vte.advanceEsc, Vte.isC0Exec, Vte.escDispatch, Vte.resetParams, advanceLoop_nil,
    oscEnd_actions]

/-- **`osc_st_terminated`**: a parser inside an OSC string that receives `ESC \\`: the callbacks
object gets the events of the OSC (title / icon name / `unhandled_osc`, exactly as with BEL) and then
one `unhandled_escape(None, None, '\\')` for the string terminator; the screen is untouched. -/
theorem osc_st_terminated (p : Parser) (hs : p.vte.state = .oscString) (hc : p.vte.carry = []) :
    p.process W cbNone [0x1B, 0x5C] = .ok
      { vte := (p.vte.advance [0x1B, 0x5C]).1
        ws := { screen := p.ws.screen
                events := p.ws.events ++ expectedEvents p.ws.screen (.oscDispatch (oscFields p.vte) false)
                  ++ [.unhandledEscape none none 0x5C] } } := by
  have hi : ∀ a ∈ (p.vte.advance [0x1B, 0x5C]).2, changesScreen a = false := by
    rw [vte_osc_st p.vte hs hc]
    intro a ha
    simp only [List.mem_cons, List.not_mem_nil, or_false] at ha
    rcases ha with rfl | rfl <;> rfl
  rw [process_inert W p _ hi, vte_osc_st p.vte hs hc]
  simp [expectedEvents, escImplemented]

/-- the same string closed with BEL: the OSC's events only -/
theorem osc_bel_terminated (p : Parser) (hs : p.vte.state = .oscString) (hc : p.vte.carry = []) :
    p.process W cbNone [0x07] = .ok
      { vte := (p.vte.advance [0x07]).1
        ws := { screen := p.ws.screen
                events := p.ws.events ++ expectedEvents p.ws.screen (.oscDispatch (oscFields p.vte) true) } } := by
  have hi : ∀ a ∈ (p.vte.advance [0x07]).2, changesScreen a = false := by
    rw [vte_osc_bel p.vte hs hc]
    intro a ha
    simp only [List.mem_cons, List.not_mem_nil, or_false] at ha
    subst ha; rfl
  rw [process_inert W p _ hi, vte_osc_bel p.vte hs hc]
  simp

/-- the events of an OSC do not depend on its terminator -/
theorem osc_terminator_irrelevant (s : Screen) (params : List (List Nat)) (b b' : Bool) :
    expectedEvents s (.oscDispatch params b) = expectedEvents s (.oscDispatch params b') := rfl


/-! ## tests: concrete runs of the model on bytes (`decide +kernel`; these are tests, they also show
that the hypotheses `… = .ok ws'` / `state = .oscString` of the theorems above are satisfiable) -/

/-- a fresh 3x8 parser fed `pre`, then `bytes`: the events of `bytes`, whether the screen is unchanged,
and the final screen -/
def byteRun (pre bytes : List Nat) : Option (List Event × Bool × Screen) :=
  match Parser.new 3 8 2 >>= fun p => p.process W0 cbNone pre with
  | .error _ => none
  | .ok p0 =>
    match p0.process W0 cbNone bytes with
    | .error _ => none
    | .ok p => some (p.ws.events.drop p0.ws.events.length, p.ws.screen == p0.ws.screen, p.ws.screen)

/-- `ESC ] 2 ; h i ESC \\` : the title, then the ST's `\\` as an unhandled escape; screen untouched -/
example : (byteRun [97] [27, 93, 50, 59, 104, 105, 27, 92]).map (fun r => (r.1, r.2.1))
    = some ([.setWindowTitle [104, 105], .unhandledEscape none none 92], true) := by decide +kernel
/-- `ESC ] 2 ; h i BEL` : the title only -/
example : (byteRun [97] [27, 93, 50, 59, 104, 105, 7]).map (fun r => (r.1, r.2.1))
    = some ([.setWindowTitle [104, 105]], true) := by decide +kernel
/-- the hypothesis of `osc_st_terminated` is met by a parser that has read `ESC ] 2 ; h i` -/
example : (match Parser.new 3 8 2 >>= fun p => p.process W0 cbNone [27, 93, 50, 59, 104, 105] with
    | .ok p => p.vte.state == .oscString && p.vte.carry == [] && oscFields p.vte == [[50], [104, 105]]
    | .error _ => false) = true := by decide +kernel
/-- `ESC [ ? 7 ; 25 ; 12 h` after `ESC [ ? 25 l`: two identical events, and the cursor is shown again -/
example : (byteRun [27, 91, 63, 50, 53, 108] [27, 91, 63, 55, 59, 50, 53, 59, 49, 50, 104]).map
      (fun r => (r.1, r.2.1, r.2.2.hideCursor))
    = some ([.unhandledCsi (some 63) none [[7], [25], [12]] 104,
             .unhandledCsi (some 63) none [[7], [25], [12]] 104], false, false) := by decide +kernel
/-- `ESC [ ? 7 h`, `ESC [ ? 2026 l`: one event each, nothing changes -/
example : (byteRun [97] [27, 91, 63, 55, 104, 27, 91, 63, 50, 48, 50, 54, 108]).map (fun r => (r.1, r.2.1))
    = some ([.unhandledCsi (some 63) none [[7]] 104, .unhandledCsi (some 63) none [[2026]] 108], true) := by
  decide +kernel
/-- `ESC [ ? 3 J` and `ESC [ ? 5 K`: reported, nothing erased -/
example : (byteRun [97, 98] [27, 91, 63, 51, 74, 27, 91, 63, 53, 75]).map (fun r => (r.1, r.2.1))
    = some ([.unhandledCsi (some 63) none [[3]] 74, .unhandledCsi (some 63) none [[5]] 75], true) := by
  decide +kernel
/-- `ESC [ 1 ; 5 m`: one event and the pen is bold -/
example : (byteRun [97] [27, 91, 49, 59, 53, 109]).map (fun r => (r.1, r.2.1, r.2.2.attrs.intensity))
    = some ([.unhandledCsi none none [[1], [5]] 109], false, .bold) := by decide +kernel
/-- `ESC [ 38 ; 5 ; 300 ; 1 m`: dropped silently, the `1` included -/
example : (byteRun [97] [27, 91, 51, 56, 59, 53, 59, 51, 48, 48, 59, 49, 109]).map (fun r => (r.1, r.2.1))
    = some ([], true) := by decide +kernel
/-- `ESC [ 8 ; 5 t` on a 3x8 screen: the absent trailing value defaults to the 8 columns -/
example : (byteRun [97] [27, 91, 56, 59, 53, 116]).map (fun r => (r.1, r.2.1))
    = some ([.resize 5 8], true) := by decide +kernel
/-- `ESC [ 8 ; ; 30 t`: an EMPTY parameter is a 0 for vte, and 0 is not defaulted: `resize((0, 30))` -/
example : (byteRun [97] [27, 91, 56, 59, 59, 51, 48, 116]).map (fun r => (r.1, r.2.1))
    = some ([.resize 0 30], true) := by decide +kernel
/-- `ESC [ 8 t`: both default -/
example : (byteRun [97] [27, 91, 56, 116]).map (fun r => (r.1, r.2.1))
    = some ([.resize 3 8], true) := by decide +kernel
/-- SI, SO, a DCS string `ESC P q x ESC \\`: only the ST's `\\` is reported -/
example : (byteRun [97] [14, 15, 27, 80, 113, 120, 27, 92]).map (fun r => (r.1, r.2.1))
    = some ([.unhandledEscape none none 92], true) := by decide +kernel

end Vt.C18all

/-
#print axioms Vt.C18all.perform_spec
#print axioms Vt.C18all.perform_events
#print axioms Vt.C18all.perform_reports_only
#print axioms Vt.C18all.perform_inert
#print axioms Vt.C18all.perform_cbNone
#print axioms Vt.C18all.perform_cbNone_inert
#print axioms Vt.C18all.run_events
#print axioms Vt.C18all.run_events_flat
#print axioms Vt.C18all.run_inert
#print axioms Vt.C18all.process_events
#print axioms Vt.C18all.process_events_flat
#print axioms Vt.C18all.process_inert
#print axioms Vt.C18all.no_callback_iff
#print axioms Vt.C18all.implemented_no_callback
#print axioms Vt.C18all.unknown_private_mode_reported
#print axioms Vt.C18all.unknown_private_modes_list
#print axioms Vt.C18all.unknown_ed_el_private
#print axioms Vt.C18all.unknown_ed_el
#print axioms Vt.C18all.unknown_sgr_reported
#print axioms Vt.C18all.unknown_sgr_then_rest
#print axioms Vt.C18all.sgr_1_5
#print axioms Vt.C18all.sgr_malformed_silent
#print axioms Vt.C18all.sgr_unknown_colour_space
#print axioms Vt.C18all.osc_st_terminated
#print axioms Vt.C18all.osc_bel_terminated
#print axioms Vt.C18all.si_so_dcs_inert
-/
