/-
  C18 — callback events are exact and in order; unimplemented input is inert.

  With a callback object that does not itself modify the screen (`cbNone`, i.e.
  `impl Callbacks for ()` or any recording callbacks):
  * `*_inert` : every action the crate does not implement leaves the screen state
    *equal* and appends exactly one event with the exact payload;
  * `bell`, `vbell`, `osc_0/1/2`, `xtwinops_resize` : the reporting sequences leave the
    screen equal and emit exactly the specified events (OSC 0: icon name, then title;
    absent rows/cols default to the current size);
  * `si_so_inert`, `dcs_inert` : SI, SO and every DCS hook/put/unhook: no event, no change;
  * `process_events_in_order` : `process` is a left fold of `perform` over the action list,
    so events are appended in stream order, each action's events exactly once.
-/
import Vt.Lemmas.Screen
namespace Vt.C18
open Vt

variable (W : Nat → Option Nat) (ws : WS)

/-- state unchanged, exactly these events appended -/
def Reports (r : M WS) (ws : WS) (evs : List Event) : Prop :=
  r = .ok { screen := ws.screen, events := ws.events ++ evs }

theorem emit_none (e : Event) : Reports (emit cbNone e ws) ws [e] := by
  simp [Reports, emit, cbNone]

/-- C0 controls other than BEL BS HT LF VT FF CR SO SI, and C1 controls: one `unhandled_control` -/
theorem execute_inert (b : Nat) (h : b < 7 ∨ 15 < b) :
    Reports (perform W cbNone ws (.execute b)) ws [.unhandledControl b] := by
  simp only [perform, performExecute]
  split <;> first | omega | exact emit_none ws _

/-- a C1 control character reaching `print` (split UTF-8) is reported like the unsplit one -/
theorem print_c1_inert (c : Nat) (h : 0x80 ≤ c ∧ c < 0xA0) :
    Reports (perform W cbNone ws (.print c)) ws [.unhandledControl c] := by
  have h1 : (decide (0x80 ≤ c) && decide (c < 0xA0)) = true := by simp [h]
  simp only [perform, performPrint, h1, ↓reduceIte]
  exact execute_inert W ws c (Or.inr (by omega))

/-- U+FFFD (invalid input) is reported as `unhandled_char` and never drawn -/
theorem print_replacement_inert :
    Reports (perform W cbNone ws (.print 0xFFFD)) ws [.unhandledChar 0xFFFD] := by
  simp only [perform, performPrint]
  exact emit_none ws _

theorem bell : Reports (perform W cbNone ws (.execute 7)) ws [.audibleBell] := by
  simp only [perform, performExecute]; exact emit_none ws _

theorem si_so_inert (b : Nat) (h : b = 14 ∨ b = 15) : perform W cbNone ws (.execute b) = .ok ws := by
  rcases h with rfl | rfl <;> rfl

theorem dcs_inert (a : Action)
    (h : (∃ p i g c, a = .hook p i g c) ∨ (∃ b, a = .put b) ∨ a = .unhook) :
    perform W cbNone ws a = .ok ws := by
  rcases h with ⟨p, i, g, c, rfl⟩ | ⟨b, rfl⟩ | rfl <;> rfl

/-- ESC with intermediates: never implemented -/
theorem esc_intermediate_inert (i : Nat) (rest : List Nat) (ig : Bool) (b : Nat) :
    Reports (perform W cbNone ws (.escDispatch (i :: rest) ig b)) ws
      [.unhandledEscape (some i) rest.head? b] := by
  simp only [perform, performEsc]; exact emit_none ws _

/-- the ESC finals the crate implements: 7 8 = > M c g -/
def escImplemented (b : Nat) : Bool :=
  b == 55 || b == 56 || b == 61 || b == 62 || b == 77 || b == 99 || b == 103

theorem esc_inert (ig : Bool) (b : Nat) (h : escImplemented b = false) :
    Reports (perform W cbNone ws (.escDispatch [] ig b)) ws [.unhandledEscape none none b] := by
  simp only [escImplemented, Bool.or_eq_false_iff, beq_eq_false_iff_ne, ne_eq] at h
  simp only [perform, performEsc]
  split <;> first | omega | exact emit_none ws _

theorem vbell (ig : Bool) : Reports (perform W cbNone ws (.escDispatch [] ig 103)) ws [.visualBell] := by
  simp only [perform, performEsc]; exact emit_none ws _

/-- CSI with an intermediate/private marker other than `?` -/
theorem csi_intermediate_inert (i : Nat) (rest : List Nat) (params : List (List Nat)) (ig : Bool) (c : Nat)
    (hi : i ≠ 63) :
    Reports (perform W cbNone ws (.csiDispatch params (i :: rest) ig c)) ws
      [.unhandledCsi (some i) rest.head? params c] := by
  simp only [perform, performCsi]
  first
    | exact emit_none ws _
    | (split
       · rename_i h; simp at h
       · rename_i h; simp only [List.cons.injEq] at h; omega
       · rename_i i' rest' _ h
         simp only [List.cons.injEq] at h
         obtain ⟨rfl, rfl⟩ := h
         exact emit_none ws _)

/-- the CSI finals implemented without a private marker -/
def csiImplemented (c : Nat) : Bool :=
  (64 ≤ c && c ≤ 72) || c == 74 || c == 75 || c == 76 || c == 77 || c == 80 || c == 83 || c == 84 ||
  c == 88 || c == 100 || c == 109 || c == 114 || c == 116

theorem csi_inert (params : List (List Nat)) (ig : Bool) (c : Nat) (h : csiImplemented c = false) :
    Reports (perform W cbNone ws (.csiDispatch params [] ig c)) ws [.unhandledCsi none none params c] := by
  simp only [csiImplemented, Bool.or_eq_false_iff, beq_eq_false_iff_ne, ne_eq, Bool.and_eq_false_iff,
    decide_eq_false_iff_not, Nat.not_le] at h
  simp only [perform, performCsi]
  split <;> first | omega | exact emit_none ws _

/-- `CSI ? … c` for finals other than J K h l -/
theorem csi_private_inert (rest : List Nat) (params : List (List Nat)) (ig : Bool) (c : Nat)
    (h : c ≠ 74 ∧ c ≠ 75 ∧ c ≠ 104 ∧ c ≠ 108) :
    Reports (perform W cbNone ws (.csiDispatch params (63 :: rest) ig c)) ws
      [.unhandledCsi (some 63) rest.head? params c] := by
  simp only [perform, performCsi]
  split <;> first | omega | exact emit_none ws _

/-- `CSI 8 ; r ; c t`: one `resize` event; absent values default to the current size -/
theorem xtwinops_resize (rest : List (List Nat)) (sub : List Nat) (ig : Bool) :
    Reports (perform W cbNone ws (.csiDispatch ((8 :: sub) :: rest) [] ig 116)) ws
      [.resize (xtArg rest ws.screen.size.rows) (xtArg rest.tail ws.screen.size.cols)] := by
  simp only [perform, performCsi, xtOp, List.head?_cons, beq_self_eq_true, ↓reduceIte, List.tail_cons]
  exact emit_none ws _

/-- `CSI t` with any other first parameter -/
theorem xtwinops_other_inert (params : List (List Nat)) (ig : Bool)
    (h : xtOp params ≠ some 8) :
    Reports (perform W cbNone ws (.csiDispatch params [] ig 116)) ws [.unhandledCsi none none params 116] := by
  simp only [perform, performCsi]
  rw [if_neg (by simpa using h)]
  exact emit_none ws _

theorem osc_0 (s : List Nat) (bellT : Bool) :
    Reports (perform W cbNone ws (.oscDispatch [[48], s] bellT)) ws [.setWindowIconName s, .setWindowTitle s] := by
  simp [perform, performOsc, Reports, emit, cbNone]
theorem osc_1 (s : List Nat) (bellT : Bool) :
    Reports (perform W cbNone ws (.oscDispatch [[49], s] bellT)) ws [.setWindowIconName s] := by
  simp [perform, performOsc, Reports, emit, cbNone]
theorem osc_2 (s : List Nat) (bellT : Bool) :
    Reports (perform W cbNone ws (.oscDispatch [[50], s] bellT)) ws [.setWindowTitle s] := by
  simp [perform, performOsc, Reports, emit, cbNone]

/-- every other OSC: one `unhandled_osc` with the exact parameter list -/
theorem osc_inert (params : List (List Nat)) (bellT : Bool)
    (h : ∀ s, params ≠ [[48], s] ∧ params ≠ [[49], s] ∧ params ≠ [[50], s]) :
    Reports (perform W cbNone ws (.oscDispatch params bellT)) ws [.unhandledOsc params] := by
  simp only [perform, performOsc]
  split
  · rename_i s; exact absurd rfl (h s).1
  · rename_i s; exact absurd rfl (h s).2.1
  · rename_i s; exact absurd rfl (h s).2.2
  · exact emit_none ws _

/-- an unknown ED/EL mode changes nothing and is reported once -/
theorem ed_unknown_inert (params : List (List Nat)) (ig : Bool) (h : 3 ≤ canon1 params 0) :
    Reports (perform W cbNone ws (.csiDispatch params [] ig 74)) ws [.unhandledCsi none none params 74] := by
  simp only [perform, performCsi, ed, Screen.edMode]
  split
  all_goals first
    | (rename_i heq; omega)
    | skip
  simp only [pure_bind', List.head?_nil, List.tail_nil]
  exact emit_none ws _

theorem el_unknown_inert (params : List (List Nat)) (ig : Bool) (h : 3 ≤ canon1 params 0) :
    Reports (perform W cbNone ws (.csiDispatch params [] ig 75)) ws [.unhandledCsi none none params 75] := by
  simp only [perform, performCsi, el, Screen.elMode]
  split
  all_goals first
    | (rename_i heq; omega)
    | skip
  simp only [pure_bind', List.head?_nil, List.tail_nil]
  exact emit_none ws _

/-- `process` runs `perform` over the chunk's actions from left to right: events are appended in
stream order -/
theorem process_is_fold (cb : CbPolicy) (p : Parser) (bytes : List Nat) :
    p.process W cb bytes =
      ((p.vte.advance bytes).2.foldlM (perform W cb) p.ws >>= fun ws =>
        pure { vte := (p.vte.advance bytes).1, ws := ws }) := rfl

/-- events are only ever appended -/
theorem emit_appends (cb : CbPolicy) (e : Event) (ws ws' : WS) (h : emit cb e ws = .ok ws') :
    ws'.events = ws.events ++ [e] := by
  simp only [emit] at h
  obtain ⟨s, _, h2⟩ := bind_eq_ok.mp h
  simp only [pure_eq_ok, Except.ok.injEq] at h2
  subst h2; rfl

end Vt.C18
