import Vt.Props.C11b
import Vt.Props.C12c
import Vt.Props.C10b
/-
  C11 (more) — DECSC / DECRC across arbitrary input, the four entry / exit combinations of the
  alternate screen, the pen, the byte level, and the resize callback.

  §1  Frame of the saved cursor.  The Rust keeps `saved_pos` and `saved_origin_mode` in EACH `Grid`
      (primary and alternate have their own) and `saved_attrs` once, in `Screen` (shared).
      `savedAll s` = those five components.  They are written only by
        DECSC (`ESC 7`)            — position + origin mode of the ACTIVE grid, and the shared pen;
        `CSI ? 1049 h`             — a DECSC, then `Grid::clear` of the alternate grid, which resets
                                     the alternate grid's saved position to (0,0) / origin off;
        RIS (`ESC c`)              — everything back to (0,0) / off / default pen;
        `set_size`                 — clamps both saved positions into the new size (API call, or the
                                     resize callback of `CSI 8 ; r ; c t` if it calls `set_size`).
      `perform_saved` : every other action leaves all five unchanged (any grid operation; `sv`-lemmas).
      `decsc_frame_decrc` : DECSC, any list of such actions, DECRC ⇒ position, origin mode and pen are
      exactly (no clamping) those DECSC saw — provided the same grid is active at both ends; if the
      other grid is active, the pen is still the saved one but position / origin mode are the OTHER
      grid's saved ones (`decsc_frame_decrc_other`).  `decrc_fresh`: without any DECSC, DECRC homes
      the cursor, clears origin mode and resets the pen.
  §2  `perform_cbResize_eq` : with the resizing callback, every action except `CSI 8 ; r ; c t` acts
      exactly as with no callback effect; hence `alt_isolation_cbResize`, and `resize_breaks_isolation`
      (a concrete run: the primary grid changes while the alternate screen is active).
  §3  The four combinations `?47h/?1049h … ?47l/?1049l`, with the pen.
  §4  Byte level.
-/
namespace Vt.C11
open Vt Vt.C12
set_option linter.unusedSimpArgs false
set_option linter.unusedVariables false

/-! ## 1. the saved cursor is framed -/

/-- the saved cursor of one grid: `saved_pos`, `saved_origin_mode` -/
def _root_.Vt.Grid.sv (g : Grid) : Pos × Bool := (g.savedPos, g.savedOriginMode)

/-- "the saved cursor of the grid is `v`" -/
abbrev GS (v : Pos × Bool) (g : Grid) : Prop := g.sv = v

syntax "msv" : tactic
set_option hygiene false in
macro_rules
  | `(tactic| msv) => `(tactic| repeat' (first
      | exact MPred.pure hg
      | exact MPred.ok hg
      | (apply MPred.bind_any; intro _)
      | (apply MPred.ite <;> intro _)
      | (apply MPred.pure; (split <;> exact hg))
      | exact modifyCurrentRow_sv hg _
      | exact modifyCellM_sv hg _ _ _
      | exact appendToPrev_sv hg _ _ _
      | split))

section sv
variable {v : Pos × Bool} {g : Grid}

theorem colClamp_sv (hg : GS v g) : MPred (GS v) g.colClamp := by
  simp only [Grid.colClamp]; msv
theorem rowClamp_sv (hg : GS v g) : MPred (GS v) g.rowClamp := by
  simp only [Grid.rowClamp]; msv
theorem rowClampTop_sv (hg : GS v g) (l : Bool) : GS v (g.rowClampTop l).1 := by
  simp only [Grid.rowClampTop]; split <;> exact hg
theorem rowClampBottom_sv (hg : GS v g) (l : Bool) : MPred (fun p => GS v p.1) (g.rowClampBottom l) := by
  simp only [Grid.rowClampBottom]; msv
theorem setPos_sv (hg : GS v g) (pos : Pos) : MPred (GS v) (g.setPos pos) := by
  simp only [Grid.setPos]
  refine MPred.bind (rowClampBottom_sv (rowClampTop_sv (by exact hg) _) _) ?_
  intro a ha
  exact colClamp_sv ha
theorem insertLines_sv (hg : GS v g) (n : Nat) : MPred (GS v) (g.insertLines n) := by
  simp only [Grid.insertLines]
  refine iterateM_pred ?_ _ _ hg
  intro a hg
  msv
theorem deleteLines_sv (hg : GS v g) (n : Nat) : MPred (GS v) (g.deleteLines n) := by
  simp only [Grid.deleteLines]
  apply MPred.bind_any; intro d
  refine iterateM_pred ?_ _ _ hg
  intro a hg
  msv
theorem scrollDown_sv (hg : GS v g) (n : Nat) : MPred (GS v) (g.scrollDown n) := by
  simp only [Grid.scrollDown]
  refine iterateM_pred ?_ _ _ hg
  intro a hg
  msv
theorem scrollUp_sv (hg : GS v g) (n : Nat) : MPred (GS v) (g.scrollUp n) := by
  simp only [Grid.scrollUp, Grid.scrollRegionActive]
  apply MPred.bind_any; intro d
  refine iterateM_pred ?_ _ _ hg
  intro a hg
  msv
theorem allocateRows_sv (hg : GS v g) : GS v g.allocateRows := by
  simp only [Grid.allocateRows]; split <;> exact hg
theorem restoreCursor_sv (hg : GS v g) : GS v g.restoreCursor := hg
theorem setScrollback_sv (hg : GS v g) (r : Nat) : GS v (g.setScrollback r) := hg
theorem eraseAll_sv (hg : GS v g) (a : Attrs) : GS v (g.eraseAll a) := hg
theorem modifyCurrentRow_sv (hg : GS v g) (f : Row → M Row) : MPred (GS v) (g.modifyCurrentRow f) := by
  simp only [Grid.modifyCurrentRow]; msv
theorem modifyCellM_sv (hg : GS v g) (site : Nat) (pos : Pos) (f : Cell → M Cell) :
    MPred (GS v) (g.modifyCellM site pos f) := by
  simp only [Grid.modifyCellM]; msv
theorem eraseRowForward_sv (hg : GS v g) (a : Attrs) : MPred (GS v) (g.eraseRowForward a) :=
  modifyCurrentRow_sv hg _
theorem eraseRowBackward_sv (hg : GS v g) (a : Attrs) : MPred (GS v) (g.eraseRowBackward a) := by
  simp only [Grid.eraseRowBackward]
  apply MPred.bind_any; intro c1
  exact modifyCurrentRow_sv hg _
theorem eraseAllForward_sv (hg : GS v g) (a : Attrs) : MPred (GS v) (g.eraseAllForward a) := by
  simp only [Grid.eraseAllForward]
  exact eraseRowForward_sv (by exact hg) _
theorem eraseAllBackward_sv (hg : GS v g) (a : Attrs) : MPred (GS v) (g.eraseAllBackward a) := by
  simp only [Grid.eraseAllBackward]
  exact eraseRowBackward_sv (by exact hg) _
theorem eraseRow_sv (hg : GS v g) (a : Attrs) : MPred (GS v) (g.eraseRow a) :=
  modifyCurrentRow_sv hg _
theorem insertCells_sv (hg : GS v g) (n : Nat) : MPred (GS v) (g.insertCells n) := by
  simp only [Grid.insertCells]
  msv
theorem deleteCells_sv (hg : GS v g) (n : Nat) : MPred (GS v) (g.deleteCells n) :=
  modifyCurrentRow_sv hg _
theorem eraseCells_sv (hg : GS v g) (n : Nat) (a : Attrs) : MPred (GS v) (g.eraseCells n a) :=
  modifyCurrentRow_sv hg _
theorem setScrollRegion_sv (hg : GS v g) (t b : Nat) : MPred (GS v) (g.setScrollRegion t b) := by
  simp only [Grid.setScrollRegion]
  apply MPred.bind_any; intro b'
  apply MPred.pure
  split <;> exact hg
theorem setOriginMode_sv (hg : GS v g) (m : Bool) : MPred (GS v) (g.setOriginMode m) := by
  simp only [Grid.setOriginMode]
  exact setPos_sv (by exact hg) _
theorem rowIncClamp_sv (hg : GS v g) (n : Nat) : MPred (GS v) (g.rowIncClamp n) := by
  simp only [Grid.rowIncClamp]
  refine MPred.bind (rowClampBottom_sv (by exact hg) _) ?_
  intro a ha
  exact MPred.pure ha
theorem rowIncScroll_sv (hg : GS v g) (n : Nat) : MPred (fun p => GS v p.1) (g.rowIncScroll n) := by
  simp only [Grid.rowIncScroll]
  refine MPred.bind (rowClampBottom_sv (by exact hg) _) ?_
  intro a ha
  apply MPred.ite <;> intro _
  · refine MPred.bind (scrollUp_sv ha _) ?_
    intro a' ha'
    exact MPred.pure ha'
  · exact MPred.pure ha
theorem rowDecClamp_sv (hg : GS v g) (n : Nat) : GS v (g.rowDecClamp n) := by
  simp only [Grid.rowDecClamp]
  exact rowClampTop_sv (by exact hg) _
theorem rowDecScroll_sv (hg : GS v g) (n : Nat) : MPred (GS v) (g.rowDecScroll n) := by
  simp only [Grid.rowDecScroll]
  exact scrollDown_sv (rowClampTop_sv (by exact hg) _) _
theorem rowSet_sv (hg : GS v g) (i : Nat) : MPred (GS v) (g.rowSet i) := by
  simp only [Grid.rowSet]
  exact rowClamp_sv (by exact hg)
theorem colInc_sv (hg : GS v g) (n : Nat) : GS v (g.colInc n) := hg
theorem colDec_sv (hg : GS v g) (n : Nat) : GS v (g.colDec n) := hg
theorem colIncClamp_sv (hg : GS v g) (n : Nat) : MPred (GS v) (g.colIncClamp n) :=
  colClamp_sv (colInc_sv hg n)
theorem colTab_sv (hg : GS v g) : MPred (GS v) g.colTab := by
  simp only [Grid.colTab]
  exact colClamp_sv (by exact hg)
theorem colSet_sv (hg : GS v g) (i : Nat) : MPred (GS v) (g.colSet i) := by
  simp only [Grid.colSet]
  exact colClamp_sv (by exact hg)
theorem cnl_sv (hg : GS v g) (n : Nat) : MPred (GS v) (g.cnl n) :=
  MPred.bind (colSet_sv hg 0) (fun a ha => rowIncClamp_sv ha n)
theorem cpl_sv (hg : GS v g) (n : Nat) : MPred (GS v) (g.cpl n) :=
  MPred.bind (colSet_sv hg 0) (fun a ha => MPred.pure (rowDecClamp_sv ha n))
theorem appendToPrev_sv (hg : GS v g) (row col c : Nat) : MPred (GS v) (g.appendToPrev row col c) := by
  simp only [Grid.appendToPrev]
  apply MPred.bind_any; intro pc
  apply MPred.ite <;> intro _
  · apply MPred.bind_any; intro c2
    exact modifyCellM_sv hg _ _ _
  · exact modifyCellM_sv hg _ _ _
theorem textZero_sv (hg : GS v g) (c : Nat) : MPred (GS v) (g.textZero c) := by
  simp only [Grid.textZero]
  msv
theorem textWide_sv (W : Nat → Option Nat) (hg : GS v g) (a : Attrs) (c w : Nat) :
    MPred (GS v) (g.textWide W a c w) := by
  simp only [Grid.textWide]
  refine MPred.bind (modifyCurrentRow_sv hg _) ?_
  intro a' ha
  apply MPred.pure
  split
  · exact colInc_sv (colInc_sv ha 1) 1
  · exact colInc_sv ha 1
theorem colWrap_sv (hg : GS v g) (w : Nat) (wr : Bool) : MPred (GS v) (g.colWrap w wr) := by
  simp only [Grid.colWrap]
  apply MPred.bind_any; intro lim
  apply MPred.ite <;> intro _
  · refine MPred.bind (rowIncScroll_sv (by exact hg) 1) ?_
    intro a ha
    apply MPred.ite <;> intro _
    · exact MPred.pure ha
    · apply MPred.bind_any; intro pr
      apply MPred.bind_any; intro rows
      exact MPred.pure ha
  · exact MPred.pure hg
theorem text_sv (W : Nat → Option Nat) (hg : GS v g) (a : Attrs) (c : Nat) :
    MPred (GS v) (g.text W a c) := by
  simp only [Grid.text]
  apply MPred.ite <;> intro _
  · exact MPred.pure hg
  · apply MPred.ite <;> intro _
    · exact MPred.pure hg
    · apply MPred.bind_any; intro wr
      refine MPred.bind (colWrap_sv hg _ _) ?_
      intro a' ha
      apply MPred.ite <;> intro _
      · exact textZero_sv ha _
      · exact textWide_sv W ha _ _ _

end sv

/-! ### screens -/

/-- everything DECSC / DECRC keep: the saved cursor of the primary grid, the saved cursor of the
alternate grid, and the one saved pen (`Screen::saved_attrs`, shared by both screens) -/
structure SavedAll where
  prim : Pos × Bool
  alt : Pos × Bool
  pen : Attrs
  deriving DecidableEq, Repr

def savedAll (s : Screen) : SavedAll := ⟨s.grid.sv, s.altGrid.sv, s.savedAttrs⟩

abbrev SS (v : SavedAll) (s : Screen) : Prop := savedAll s = v

section ss
variable {v : SavedAll} {s : Screen}

theorem modifyGrid_ss {f : Grid → M Grid} (hf : ∀ v g, GS v g → MPred (GS v) (f g)) (hs : SS v s) :
    MPred (SS v) (s.modifyGrid f) := by
  simp only [Screen.modifyGrid]
  apply MPred.ite <;> intro _
  · refine MPred.bind (hf _ _ rfl) ?_
    intro a h'
    apply MPred.pure
    show savedAll _ = v
    rw [← hs]
    simp only [savedAll]
    rw [h']
  · refine MPred.bind (hf _ _ rfl) ?_
    intro a h'
    apply MPred.pure
    show savedAll _ = v
    rw [← hs]
    simp only [savedAll]
    rw [h']

theorem enterAlternateGrid_ss (hs : SS v s) : MPred (SS v) s.enterAlternateGrid := by
  simp only [Screen.enterAlternateGrid]
  refine MPred.bind (modifyGrid_ss (fun v g hk => MPred.pure (setScrollback_sv hk 0)) hs) ?_
  intro a h'
  apply MPred.pure
  show savedAll _ = v
  rw [← h']
  simp only [savedAll]
  rw [allocateRows_sv rfl]

theorem exitAlternateGrid_ss (hs : SS v s) : SS v s.exitAlternateGrid := hs

theorem sRestoreCursor_ss (hs : SS v s) : MPred (SS v) s.restoreCursor := by
  simp only [Screen.restoreCursor]
  refine MPred.bind (modifyGrid_ss (fun v g hk => MPred.pure (restoreCursor_sv hk)) hs) ?_
  intro a h'
  exact MPred.pure h'

abbrev OSS (v : SavedAll) (o : Option Screen) : Prop := ∀ s', o = some s' → SS v s'

theorem some_ss {m : M Screen} (h : MPred (SS v) m) :
    MPred (OSS v) (do let s ← m; pure (some s)) :=
  MPred.bind h (fun a h' => MPred.pure (fun s' e => by cases e; exact h'))

/-- DECSET of anything but 1049 -/
theorem decsetOne_ss (hs : SS v s) (p : List Nat) (hp : p ≠ [1049]) : MPred (OSS v) (s.decsetOne p) := by
  unfold Screen.decsetOne
  split
  all_goals first
    | (apply MPred.pure; intro s' e; cases e; exact hs)
    | skip
  · exact some_ss (modifyGrid_ss (fun v g hk => setOriginMode_sv hk _) hs)
  · exact some_ss (enterAlternateGrid_ss hs)
  · exact absurd rfl hp
  · exact MPred.pure (fun s' e => nomatch e)

/-- every DECRST, `?1049l` included (it restores, it does not save) -/
theorem decrstOne_ss (hs : SS v s) (p : List Nat) : MPred (OSS v) (s.decrstOne p) := by
  unfold Screen.decrstOne
  split
  all_goals first
    | (apply MPred.pure; intro s' e
       cases e <;> first
         | exact hs
         | (simp only [Screen.clearMouseMode, Screen.clearMouseEnc]; split <;> exact hs))
    | skip
  · exact some_ss (modifyGrid_ss (fun v g hk => setOriginMode_sv hk _) hs)

theorem edMode_ss (hs : SS v s) (m : Nat) : MPred (OSS v) (s.edMode m) := by
  unfold Screen.edMode
  split
  · exact some_ss (modifyGrid_ss (fun v g hk => eraseAllForward_sv hk _) hs)
  · exact some_ss (modifyGrid_ss (fun v g hk => eraseAllBackward_sv hk _) hs)
  · exact some_ss (modifyGrid_ss (fun v g hk => MPred.pure (eraseAll_sv hk _)) hs)
  · exact MPred.pure (fun s' e => nomatch e)

theorem elMode_ss (hs : SS v s) (m : Nat) : MPred (OSS v) (s.elMode m) := by
  unfold Screen.elMode
  split
  · exact some_ss (modifyGrid_ss (fun v g hk => eraseRowForward_sv hk _) hs)
  · exact some_ss (modifyGrid_ss (fun v g hk => eraseRowBackward_sv hk _) hs)
  · exact some_ss (modifyGrid_ss (fun v g hk => eraseRow_sv hk _) hs)
  · exact MPred.pure (fun s' e => nomatch e)

end ss

/-- a callback policy that leaves the saved cursors and the saved pen alone.  `cbNone` does;
`cbResize` does NOT (`set_size` clamps the saved positions): see `perform_saved_cbResize`. -/
def CbSaved (cb : CbPolicy) : Prop := ∀ e s v, SS v s → MPred (SS v) (cb e s)

theorem cbNone_saved : CbSaved cbNone := fun _ _ _ hs => MPred.pure hs

/-- a step of the wrapped screen that leaves the saved cursors and pen alone -/
def WSv (f : WS → M WS) : Prop := ∀ v ws, SS v ws.screen → MPred (fun ws' => SS v ws'.screen) (f ws)

section wsv
variable {cb : CbPolicy}

theorem emit_ss (hcb : CbSaved cb) (e : Event) : WSv (emit cb e) := by
  intro v ws hs
  simp only [emit]
  refine MPred.bind (hcb e _ v hs) ?_
  intro a h'
  exact MPred.pure h'

theorem onScreen_ss {f : Screen → M Screen} (hf : ∀ v s, SS v s → MPred (SS v) (f s)) :
    WSv (fun ws => ws.onScreen f) := by
  intro v ws hs
  simp only [WS.onScreen]
  refine MPred.bind (hf v _ hs) ?_
  intro a h'
  exact MPred.pure h'

theorem onGrid_ss {f : Screen → Grid → M Grid} (hf : ∀ s v g, GS v g → MPred (GS v) (f s g)) :
    WSv (fun ws => ws.onScreen (fun s => s.modifyGrid (f s))) :=
  onScreen_ss (fun v s hs => modifyGrid_ss (hf s) hs)

theorem arm_ss {unh : WS → M WS} (hunh : WSv unh) {arm : Screen → M (Option Screen)}
    (harm : ∀ v s, SS v s → MPred (OSS v) (arm s)) :
    WSv (fun ws => do
      match ← arm ws.screen with
      | some s => pure { ws with screen := s }
      | none => unh ws) := by
  intro v ws hs
  simp only
  refine MPred.bind (harm v _ hs) ?_
  intro o ho
  cases o with
  | none => exact hunh v ws hs
  | some s' => exact MPred.pure (ho s' rfl)

theorem fold_ss {α} (ok : α → Prop) {step : WS → α → M WS}
    (hstep : ∀ x, ok x → WSv (fun ws => step ws x)) :
    ∀ (xs : List α), (∀ x ∈ xs, ok x) → WSv (fun ws => xs.foldlM step ws) := by
  intro xs
  induction xs with
  | nil => intro _ v ws hs; exact MPred.pure hs
  | cons x xs ih =>
    intro hok v ws hs
    simp only [List.foldlM]
    exact MPred.bind (hstep x (hok x List.mem_cons_self) v ws hs)
      (fun a h' => ih (fun y hy => hok y (List.mem_cons_of_mem _ hy)) v a h')

theorem sgrLoop_ss {unh : WS → M WS} (hunh : WSv unh) (ps : List (List Nat)) : WSv (sgrLoop unh ps) := by
  intro v ws
  fun_induction sgrLoop unh ps ws <;> intro hs
  all_goals first
    | exact MPred.pure hs
    | (rename_i ih; exact ih hs)
    | exact hunh v _ hs
    | (rename_i ih; exact MPred.bind (hunh v _ hs) (fun a h' => ih a h'))

theorem sgr_ss {unh : WS → M WS} (hunh : WSv unh) (ps : List (List Nat)) : WSv (sgr unh ps) := by
  intro v ws hs
  unfold sgr
  split
  · exact MPred.pure hs
  · exact sgrLoop_ss hunh ps v ws hs

/-- **the actions that write a saved cursor or the saved pen**: DECSC (`ESC 7`), RIS (`ESC c`),
and a DECSET list containing 1049 -/
def Saves : Action → Bool
  | .escDispatch [] _ 55 => true
  | .escDispatch [] _ 99 => true
  | .csiDispatch params (63 :: _) _ 104 => params.any (fun p => p == [1049])
  | _ => false

theorem performExecute_ss (hcb : CbSaved cb) (b : Nat) : WSv (fun ws => performExecute cb ws b) := by
  intro v ws hs
  simp only [performExecute]
  split
  all_goals first
    | exact emit_ss hcb _ v ws hs
    | exact MPred.pure hs
    | exact onGrid_ss (f := fun _ g => pure (g.colDec 1)) (fun s v g hk => MPred.pure (colDec_sv hk 1)) v ws hs
    | exact onGrid_ss (f := fun _ g => g.colTab) (fun s v g hk => colTab_sv hk) v ws hs
    | exact onGrid_ss (f := fun _ g => g.colSet 0) (fun s v g hk => colSet_sv hk 0) v ws hs
    | exact onGrid_ss (f := fun _ g => do let (g, _) ← g.rowIncScroll 1; pure g)
        (fun s v g hk => MPred.bind (rowIncScroll_sv hk 1) (fun p hp => MPred.pure hp)) v ws hs

theorem perform_ss (W : Nat → Option Nat) (hcb : CbSaved cb) (a : Action) (hsv : Saves a = false) :
    WSv (fun ws => perform W cb ws a) := by
  have hunh : ∀ e, WSv (emit cb e) := fun e => emit_ss hcb e
  cases a with
  | print c =>
    intro v ws hs
    simp only [perform, performPrint]
    apply MPred.ite <;> intro _
    · exact performExecute_ss hcb c v ws hs
    · apply MPred.ite <;> intro _
      · exact hunh _ v ws hs
      · exact onGrid_ss (f := fun s g => g.text W s.attrs c) (fun s v g hk => text_sv W hk _ _) v ws hs
  | execute b => exact performExecute_ss hcb b
  | hook _ _ _ _ => exact fun v ws hs => MPred.pure hs
  | put _ => exact fun v ws hs => MPred.pure hs
  | unhook => exact fun v ws hs => MPred.pure hs
  | oscDispatch params _ =>
    intro v ws hs
    simp only [perform, performOsc]
    split
    · exact MPred.bind (hunh _ v ws hs) (fun a h' => hunh _ v a h')
    all_goals exact hunh _ v ws hs
  | escDispatch ints ig b =>
    intro v ws hs
    simp only [perform, performEsc]
    split
    · exact hunh _ v ws hs
    · split
      · simp [Saves] at hsv
      · exact onScreen_ss (f := Screen.decrc) (fun v s hs => sRestoreCursor_ss hs) v ws hs
      · exact MPred.pure hs
      · exact MPred.pure hs
      · exact onGrid_ss (f := fun _ g => g.rowDecScroll 1) (fun s v g hk => rowDecScroll_sv hk 1) v ws hs
      · simp [Saves] at hsv
      · exact hunh _ v ws hs
      · exact hunh _ v ws hs
  | csiDispatch params ints ig c =>
    intro v ws hs
    simp only [perform, performCsi]
    split
    · split
      · exact onGrid_ss (f := fun _ g => g.insertCells (canon1 params 1))
          (fun s v g hk => insertCells_sv hk _) v ws hs
      · exact onGrid_ss (f := fun _ g => pure (g.rowDecClamp (canon1 params 1)))
          (fun s v g hk => MPred.pure (rowDecClamp_sv hk _)) v ws hs
      · exact onGrid_ss (f := fun _ g => g.rowIncClamp (canon1 params 1))
          (fun s v g hk => rowIncClamp_sv hk _) v ws hs
      · exact onGrid_ss (f := fun _ g => g.colIncClamp (canon1 params 1))
          (fun s v g hk => colIncClamp_sv hk _) v ws hs
      · exact onGrid_ss (f := fun _ g => pure (g.colDec (canon1 params 1)))
          (fun s v g hk => MPred.pure (colDec_sv hk _)) v ws hs
      · exact onGrid_ss (f := fun _ g => g.cnl (canon1 params 1))
          (fun s v g hk => cnl_sv hk _) v ws hs
      · exact onGrid_ss (f := fun _ g => g.cpl (canon1 params 1))
          (fun s v g hk => cpl_sv hk _) v ws hs
      · refine onScreen_ss (f := fun s => s.cha (canon1 params 1)) ?_ v ws hs
        intro v s hs
        simp only [Screen.cha]
        apply MPred.bind_any; intro x
        exact modifyGrid_ss (fun v g hk => colSet_sv hk _) hs
      · refine onScreen_ss (f := fun s => s.cup (canon2 params 1 1).1 (canon2 params 1 1).2) ?_ v ws hs
        intro v s hs
        simp only [Screen.cup]
        apply MPred.bind_any; intro x
        apply MPred.bind_any; intro y
        exact modifyGrid_ss (fun v g hk => setPos_sv hk _) hs
      · exact arm_ss (hunh _) (arm := fun s => s.edMode (canon1 params 0))
          (fun v s hs => edMode_ss hs _) v ws hs
      · exact arm_ss (hunh _) (arm := fun s => s.elMode (canon1 params 0))
          (fun v s hs => elMode_ss hs _) v ws hs
      · exact onGrid_ss (f := fun _ g => g.insertLines (canon1 params 1))
          (fun s v g hk => insertLines_sv hk _) v ws hs
      · exact onGrid_ss (f := fun _ g => g.deleteLines (canon1 params 1))
          (fun s v g hk => deleteLines_sv hk _) v ws hs
      · exact onGrid_ss (f := fun _ g => g.deleteCells (canon1 params 1))
          (fun s v g hk => deleteCells_sv hk _) v ws hs
      · exact onGrid_ss (f := fun _ g => g.scrollUp (canon1 params 1))
          (fun s v g hk => scrollUp_sv hk _) v ws hs
      · exact onGrid_ss (f := fun _ g => g.scrollDown (canon1 params 1))
          (fun s v g hk => scrollDown_sv hk _) v ws hs
      · exact onGrid_ss (f := fun s g => g.eraseCells (canon1 params 1) s.attrs)
          (fun s v g hk => eraseCells_sv hk _ _) v ws hs
      · refine onScreen_ss (f := fun s => s.vpa (canon1 params 1)) ?_ v ws hs
        intro v s hs
        simp only [Screen.vpa]
        apply MPred.bind_any; intro x
        exact modifyGrid_ss (fun v g hk => rowSet_sv hk _) hs
      · exact sgr_ss (hunh _) params v ws hs
      · refine onScreen_ss (f := fun s => s.decstbm (canon2 params 1 s.cur.size.rows).1
            (canon2 params 1 s.cur.size.rows).2) ?_ v ws hs
        intro v s hs
        simp only [Screen.decstbm]
        apply MPred.bind_any; intro x
        apply MPred.bind_any; intro y
        exact modifyGrid_ss (fun v g hk => setScrollRegion_sv hk _ _) hs
      · apply MPred.ite <;> intro _
        · exact hunh _ v ws hs
        · exact hunh _ v ws hs
      · exact hunh _ v ws hs
    · split
      · exact arm_ss (hunh _) (arm := fun s => s.edMode (canon1 params 0))
          (fun v s hs => edMode_ss hs _) v ws hs
      · exact arm_ss (hunh _) (arm := fun s => s.elMode (canon1 params 0))
          (fun v s hs => elMode_ss hs _) v ws hs
      · have hp : ∀ p ∈ params, p ≠ [1049] := by
          intro p hp
          simp only [Saves, List.any_eq_false, beq_iff_eq] at hsv
          exact hsv p hp
        exact fold_ss (fun p => p ≠ [1049]) (fun p hpp => arm_ss (hunh _) (arm := fun s => s.decsetOne p)
          (fun v s hs => decsetOne_ss hs p hpp)) params hp v ws hs
      · exact fold_ss (fun _ => True) (fun p _ => arm_ss (hunh _) (arm := fun s => s.decrstOne p)
          (fun v s hs => decrstOne_ss hs p)) params (fun _ _ => trivial) v ws hs
      · exact hunh _ v ws hs
    · exact hunh _ v ws hs

end wsv

/-- **C11, frame of the saved cursor, one action.**  Every action other than DECSC, RIS and
`CSI ? 1049 h` leaves the saved cursor position and saved origin mode of BOTH grids and the saved
pen unchanged (callback without effect on them, e.g. `()`; for a resizing callback see
`perform_saved_cbResize`). -/
theorem perform_saved (W : Nat → Option Nat) {cb : CbPolicy} (hcb : CbSaved cb) (a : Action)
    (hsv : Saves a = false) (ws ws' : WS) (h : perform W cb ws a = .ok ws') :
    savedAll ws'.screen = savedAll ws.screen :=
  MPred.iff.mp (perform_ss W hcb a hsv _ ws rfl) ws' h

/-- … any list of such actions -/
theorem actions_saved (W : Nat → Option Nat) {cb : CbPolicy} (hcb : CbSaved cb) :
    ∀ (acts : List Action) (ws ws' : WS), (∀ a ∈ acts, Saves a = false) →
      acts.foldlM (perform W cb) ws = .ok ws' → savedAll ws'.screen = savedAll ws.screen := by
  intro acts
  induction acts with
  | nil =>
    intro ws ws' _ h
    simp only [List.foldlM, pure_eq_ok, Except.ok.injEq] at h
    subst h; rfl
  | cons a acts ih =>
    intro ws ws' hs h
    simp only [List.foldlM] at h
    obtain ⟨w1, h1, h2⟩ := bind_eq_ok.mp h
    rw [ih w1 ws' (fun b hb => hs b (List.mem_cons_of_mem _ hb)) h2,
      perform_saved W hcb a (hs a List.mem_cons_self) ws w1 h1]


/-! ### DECSC … DECRC -/

/-- DECSC in closed form: the active grid records its cursor position and origin mode, the screen
records the pen; nothing else changes (`Screen::save_cursor`) -/
def decscOf (s : Screen) : Screen :=
  if s.altScreen then { s with altGrid := s.altGrid.saveCursor, savedAttrs := s.attrs }
  else { s with grid := s.grid.saveCursor, savedAttrs := s.attrs }

/-- DECRC in closed form (`Screen::restore_cursor`): no clamping, no other effect -/
def decrcOf (s : Screen) : Screen :=
  if s.altScreen then { s with altGrid := s.altGrid.restoreCursor, attrs := s.savedAttrs }
  else { s with grid := s.grid.restoreCursor, attrs := s.savedAttrs }

theorem decsc_eq (s : Screen) : s.decsc = .ok (decscOf s) := by
  simp only [Screen.decsc, Screen.saveCursor, Screen.modifyGrid, decscOf]
  by_cases h : s.altScreen = true <;> simp [h]

theorem decrc_eq (s : Screen) : s.decrc = .ok (decrcOf s) := by
  simp only [Screen.decrc, Screen.restoreCursor, Screen.modifyGrid, decrcOf]
  by_cases h : s.altScreen = true <;> simp [h]

theorem perform_decsc (W : Nat → Option Nat) (cb : CbPolicy) (ws : WS) (ig : Bool) :
    perform W cb ws (.escDispatch [] ig 55) = .ok { ws with screen := decscOf ws.screen } := by
  simp [perform, performEsc, WS.onScreen, decsc_eq]

theorem perform_decrc (W : Nat → Option Nat) (cb : CbPolicy) (ws : WS) (ig : Bool) :
    perform W cb ws (.escDispatch [] ig 56) = .ok { ws with screen := decrcOf ws.screen } := by
  simp [perform, performEsc, WS.onScreen, decrc_eq]

/-- what DECRC makes live: the saved cursor of the ACTIVE grid and the shared saved pen -/
theorem live_decrcOf (s : Screen) : live (decrcOf s) = saved s := decrc_spec s _ (decrc_eq s)

theorem saved_decscOf (s : Screen) : saved (decscOf s) = live s ∧ (decscOf s).altScreen = s.altScreen := by
  refine ⟨(decsc_spec s _ (decsc_eq s)).1, ?_⟩
  simp only [decscOf]; split <;> rfl

/-- what is saved for the active grid is determined by `savedAll` and the active-grid flag -/
theorem saved_of_savedAll {a b : Screen} (h : savedAll a = savedAll b) (hf : a.altScreen = b.altScreen) :
    saved a = saved b := by
  simp only [savedAll, SavedAll.mk.injEq, Grid.sv, Prod.mk.injEq] at h
  obtain ⟨⟨h1, h2⟩, ⟨h3, h4⟩, h5⟩ := h
  simp only [saved, Screen.cur, hf]
  cases b.altScreen <;> simp [h1, h2, h3, h4, h5]

/-- the saved cursor of the grid that is NOT active -/
def savedOther (s : Screen) : Pos × Bool := if s.altScreen then s.grid.sv else s.altGrid.sv

theorem saved_of_savedAll_other {a b : Screen} (h : savedAll a = savedAll b) (hf : a.altScreen ≠ b.altScreen) :
    saved a = ⟨(savedOther b).1, (savedOther b).2, b.savedAttrs⟩ := by
  simp only [savedAll, SavedAll.mk.injEq, Grid.sv, Prod.mk.injEq] at h
  obtain ⟨⟨h1, h2⟩, ⟨h3, h4⟩, h5⟩ := h
  simp only [saved, Screen.cur, savedOther, Grid.sv]
  cases ha : a.altScreen <;> cases hb : b.altScreen <;> simp_all

theorem savedOther_decscOf (s : Screen) : savedOther (decscOf s) = savedOther s := by
  simp only [decscOf, savedOther]
  by_cases h : s.altScreen = true <;> simp [h, Grid.sv, Grid.saveCursor]

/-- **C11, DECSC … DECRC.**  DECSC, then ANY list of actions other than DECSC / RIS / `?1049h`
(printing, scrolling, erasing, cursor movement, SGR, origin mode, scroll regions, `?47h` / `?47l` /
`?1049l`, unknown sequences, …), then DECRC:
 * the pen is the pen DECSC saw (the saved pen is shared by both screens);
 * if the same screen (primary / alternate) is active at the DECRC as at the DECSC, the cursor
   position and origin mode are exactly those DECSC saw — DECRC does not clamp;
 * if the other screen is active, position and origin mode come from THAT grid's own saved cursor
   as it was at the time of the DECSC (each grid has its own). -/
theorem decsc_frame_decrc (W : Nat → Option Nat) {cb : CbPolicy} (hcb : CbSaved cb) (ig ig' : Bool)
    (ws0 ws1 ws2 ws3 : WS) (h1 : perform W cb ws0 (.escDispatch [] ig 55) = .ok ws1)
    (acts : List Action) (hacts : ∀ a ∈ acts, Saves a = false)
    (h2 : acts.foldlM (perform W cb) ws1 = .ok ws2)
    (h3 : perform W cb ws2 (.escDispatch [] ig' 56) = .ok ws3) :
    ws3.screen.attrs = ws0.screen.attrs ∧
    (ws2.screen.altScreen = ws0.screen.altScreen → live ws3.screen = live ws0.screen) ∧
    (ws2.screen.altScreen ≠ ws0.screen.altScreen →
      ws3.screen.cur.pos = (savedOther ws0.screen).1 ∧
      ws3.screen.cur.originMode = (savedOther ws0.screen).2) := by
  rw [perform_decsc] at h1
  rw [perform_decrc] at h3
  simp only [Except.ok.injEq] at h1 h3
  subst h1 h3
  have hfr := actions_saved W hcb acts _ ws2 hacts h2
  obtain ⟨hsv, hfl⟩ := saved_decscOf ws0.screen
  simp only at hfr ⊢
  have hpen : (decrcOf ws2.screen).attrs = ws0.screen.attrs := by
    have e1 : (decrcOf ws2.screen).attrs = ws2.screen.savedAttrs := by
      simp only [decrcOf]; split <;> rfl
    have e2 : ws2.screen.savedAttrs = (decscOf ws0.screen).savedAttrs := congrArg SavedAll.pen hfr
    have e3 : (decscOf ws0.screen).savedAttrs = ws0.screen.attrs := by
      simp only [decscOf]; split <;> rfl
    rw [e1, e2, e3]
  refine ⟨hpen, ?_, ?_⟩
  · intro hsame
    rw [live_decrcOf, saved_of_savedAll hfr (hsame.trans hfl.symm), hsv]
  · intro hne
    have hl := live_decrcOf ws2.screen
    rw [saved_of_savedAll_other hfr (fun e => hne (e.trans hfl)), savedOther_decscOf] at hl
    simp only [live, Saved.mk.injEq] at hl
    exact ⟨hl.1, hl.2.1⟩

/-- DECRC without any DECSC before it (new parser, any input that does not save): the cursor goes
home, origin mode is switched off and the pen is reset — on either screen -/
theorem decrc_fresh (W : Nat → Option Nat) {cb : CbPolicy} (hcb : CbSaved cb) (rows cols sb : Nat)
    (p : Parser) (hp : Parser.new rows cols sb = .ok p)
    (acts : List Action) (hacts : ∀ a ∈ acts, Saves a = false) (ws2 ws3 : WS)
    (h2 : acts.foldlM (perform W cb) p.ws = .ok ws2) (ig : Bool)
    (h3 : perform W cb ws2 (.escDispatch [] ig 56) = .ok ws3) :
    live ws3.screen = ⟨⟨0, 0⟩, false, Attrs.default⟩ := by
  rw [perform_decrc] at h3
  simp only [Except.ok.injEq] at h3
  subst h3
  have hfr := actions_saved W hcb acts _ ws2 hacts h2
  have h0 : savedAll p.ws.screen = ⟨(⟨0, 0⟩, false), (⟨0, 0⟩, false), Attrs.default⟩ := by
    simp only [Parser.new, Screen.new, Grid.new] at hp
    obtain ⟨s, hs, e⟩ := bind_eq_ok.mp hp
    simp only [pure_eq_ok, Except.ok.injEq] at e
    subst e
    obtain ⟨g, hg, hs⟩ := bind_eq_ok.mp hs
    obtain ⟨ag, hag, hs⟩ := bind_eq_ok.mp hs
    simp only [pure_eq_ok, Except.ok.injEq] at hs
    subst hs
    obtain ⟨b, _, hg⟩ := bind_eq_ok.mp hg
    obtain ⟨b', _, hag⟩ := bind_eq_ok.mp hag
    simp only [pure_eq_ok, Except.ok.injEq] at hg hag
    subst hg hag
    simp only [savedAll, Grid.sv, Grid.allocateRows]
    split <;> rfl
  rw [h0] at hfr
  simp only [savedAll, SavedAll.mk.injEq, Grid.sv, Prod.mk.injEq] at hfr
  obtain ⟨⟨a1, a2⟩, ⟨a3, a4⟩, a5⟩ := hfr
  rw [live_decrcOf]
  simp only [saved, Screen.cur]
  cases ws2.screen.altScreen <;> simp [a1, a2, a3, a4, a5]

/-- the exclusions are needed: each of the three excluded actions, and `set_size`, changes what
DECRC restores.  TESTS (concrete runs of the model on a 4x6 screen, cursor saved at (2,4)):
after `ESC 7` + X + `ESC 8` the cursor is at …  -/
def decscProbe (mid : List Nat) (resize : Option (Nat × Nat)) : M (Pos × Bool) := do
  let p ← Parser.new 4 6 2
  let p ← p.process (fun _ => some 1) cbNone [0x1B, 0x5B, 51, 0x3B, 53, 72, 0x1B, 0x5B, 49, 109, 0x1B, 55]
  let p ← p.process (fun _ => some 1) cbNone mid
  let p ← match resize with
    | some (r, c) => do let s ← p.ws.screen.setSize r c; pure { p with ws := { p.ws with screen := s } }
    | none => pure p
  let p ← p.process (fun _ => some 1) cbNone [0x1B, 56]
  pure (p.screen.cur.pos, decide (p.screen.attrs.intensity = .bold))

/-- a run succeeded with the expected result -/
def yields {α} [DecidableEq α] (m : M α) (a : α) : Bool := isOkTrue (do let r ← m; pure (decide (r = a)))

/-- TEST (non-vacuity of `decsc_frame_decrc`): text, LF, SGR 0, CUP home, `?6h`, `?47h`, text,
`?47l` in between — restored to (2,4), bold -/
theorem decsc_probe_frame :
    yields (decscProbe [97, 98, 10, 10, 10, 0x1B, 0x5B, 48, 109, 0x1B, 0x5B, 72, 0x1B, 0x5B, 0x3F, 54, 104,
      0x1B, 0x5B, 0x3F, 52, 55, 104, 120, 0x1B, 0x5B, 0x3F, 52, 55, 108] none) (⟨2, 4⟩, true) = true := by
  decide +kernel

/-- TEST: a second DECSC in between (at home, pen reset) wins -/
theorem decsc_probe_decsc :
    yields (decscProbe [0x1B, 0x5B, 72, 0x1B, 0x5B, 48, 109, 0x1B, 55, 97] none) (⟨0, 0⟩, false) = true := by
  decide +kernel

/-- TEST: RIS in between resets what is saved -/
theorem decsc_probe_ris : yields (decscProbe [0x1B, 99, 97, 98] none) (⟨0, 0⟩, false) = true := by
  decide +kernel

/-- TEST: `?1049h` in between, from the alternate screen's point of view: DECRC on the alternate
screen restores that grid's saved cursor, which `?1049h` cleared to home; the pen is the shared one -/
theorem decsc_probe_1049 :
    yields (decscProbe [0x1B, 0x5B, 0x3F, 49, 48, 52, 57, 104, 97] none) (⟨0, 0⟩, true) = true := by
  decide +kernel

/-- TEST: `set_size(2,3)` in between clamps the saved position (2,4) to (1,2) — DECRC itself never
clamps, `Grid::set_size` does -/
theorem decsc_probe_resize : yields (decscProbe [97] (some (2, 3))) (⟨1, 2⟩, true) = true := by
  decide +kernel


/-! ## 2. the resizing callback -/

/-- `CSI 8 ; r ; c t`, the one sequence that reaches `Callbacks::resize` -/
def isResizeReq : Action → Bool
  | .csiDispatch params [] _ 116 => xtOp params == some 8
  | _ => false

theorem er1 : emit cbResize .audibleBell = emit cbNone .audibleBell := rfl
theorem er2 : emit cbResize .visualBell = emit cbNone .visualBell := rfl
theorem er3 (s) : emit cbResize (.setWindowIconName s) = emit cbNone (.setWindowIconName s) := rfl
theorem er4 (s) : emit cbResize (.setWindowTitle s) = emit cbNone (.setWindowTitle s) := rfl
theorem er5 (c) : emit cbResize (.unhandledChar c) = emit cbNone (.unhandledChar c) := rfl
theorem er6 (c) : emit cbResize (.unhandledControl c) = emit cbNone (.unhandledControl c) := rfl
theorem er7 (a b c) : emit cbResize (.unhandledEscape a b c) = emit cbNone (.unhandledEscape a b c) := rfl
theorem er8 (a b c d) : emit cbResize (.unhandledCsi a b c d) = emit cbNone (.unhandledCsi a b c d) := rfl
theorem er9 (p) : emit cbResize (.unhandledOsc p) = emit cbNone (.unhandledOsc p) := rfl

/-- **with the resizing callback, every action except `CSI 8 ; r ; c t` does exactly what it does
with a callback object that leaves the screen alone** (same screen, same events).  So every
  theorem proved for `cbNone` transfers to `cbResize` for all other input. -/
theorem perform_cbResize_eq (W : Nat → Option Nat) (ws : WS) (a : Action) (h : isResizeReq a = false) :
    perform W cbResize ws a = perform W cbNone ws a := by
  cases a with
  | print c => simp only [perform, performPrint, performExecute, er1, er2, er3, er4, er5, er6, er7, er8, er9]
  | execute b => simp only [perform, performPrint, performExecute, er1, er2, er3, er4, er5, er6, er7, er8, er9]
  | hook _ _ _ _ => rfl
  | put _ => rfl
  | unhook => rfl
  | oscDispatch params _ => simp only [perform, performOsc, er1, er2, er3, er4, er5, er6, er7, er8, er9]
  | escDispatch ints ig b => simp only [perform, performEsc, er1, er2, er3, er4, er5, er6, er7, er8, er9]
  | csiDispatch params ints ig c =>
    simp only [perform, performCsi, er1, er2, er3, er4, er5, er6, er7, er8, er9]
    split
    · split
      all_goals first
        | rfl
        | skip
      simp only [isResizeReq] at h
      simp only [h, Bool.false_eq_true, ↓reduceIte]
    · rfl
    · rfl

theorem actions_cbResize_eq (W : Nat → Option Nat) :
    ∀ (acts : List Action) (ws : WS), (∀ a ∈ acts, isResizeReq a = false) →
      acts.foldlM (perform W cbResize) ws = acts.foldlM (perform W cbNone) ws := by
  intro acts
  induction acts with
  | nil => intro _ _; rfl
  | cons a acts ih =>
    intro ws h
    simp only [List.foldlM]
    rw [perform_cbResize_eq W ws a (h a List.mem_cons_self)]
    cases perform W cbNone ws a with
    | error e => rfl
    | ok w => exact ih w (fun b hb => h b (List.mem_cons_of_mem _ hb))

/-- **C11 isolation with a resizing callback**: while the alternate screen is active, every action
other than RIS, `?47l`, `?1049l` AND `CSI 8 ; r ; c t` leaves the whole primary grid unchanged.
(`Screen::set_size` resizes BOTH grids — legitimately: see `resize_breaks_isolation`.) -/
theorem alt_isolation_cbResize (W : Nat → Option Nat) (ws ws' : WS) (a : Action)
    (ha : ws.screen.altScreen = true) (hal : Leaves a = false) (hrz : isResizeReq a = false)
    (h : perform W cbResize ws a = .ok ws') :
    ws'.screen.grid = ws.screen.grid ∧ ws'.screen.altScreen = true := by
  rw [perform_cbResize_eq W ws a hrz] at h
  exact alt_isolation W cbNone_keeps ws ws' a ha hal h

theorem alt_isolation_stream_cbResize (W : Nat → Option Nat) (acts : List Action) (ws ws' : WS)
    (ha : ws.screen.altScreen = true) (hal : ∀ a ∈ acts, Leaves a = false)
    (hrz : ∀ a ∈ acts, isResizeReq a = false) (h : acts.foldlM (perform W cbResize) ws = .ok ws') :
    ws'.screen.grid = ws.screen.grid ∧ ws'.screen.altScreen = true := by
  rw [actions_cbResize_eq W acts ws hrz] at h
  exact alt_isolation_stream W cbNone_keeps acts ws ws' ha hal h

/-- the saved-cursor frame with a resizing callback: additionally exclude `CSI 8 ; r ; c t` -/
theorem perform_saved_cbResize (W : Nat → Option Nat) (a : Action) (hsv : Saves a = false)
    (hrz : isResizeReq a = false) (ws ws' : WS) (h : perform W cbResize ws a = .ok ws') :
    savedAll ws'.screen = savedAll ws.screen := by
  rw [perform_cbResize_eq W ws a hrz] at h
  exact perform_saved W cbNone_saved a hsv ws ws' h

/-- TEST — the exception is real.  4x6 parser whose `resize` callback calls `set_size`; draw on
the primary screen, `?47h`, `CSI 8 ; 2 ; 3 t`: the alternate screen is still active and the
PRIMARY grid now has 2 rows of 3 cells (it had 4 of 6), and `CbKeeps cbResize` is false. -/
theorem resize_breaks_isolation :
    isOkTrue (do
      let p ← Parser.new 4 6 0
      let p1 ← p.process (fun _ => some 1) cbResize [97, 98, 99, 0x1B, 0x5B, 0x3F, 52, 55, 104]
      let p2 ← p1.process (fun _ => some 1) cbResize [0x1B, 0x5B, 56, 0x3B, 50, 0x3B, 51, 116]
      pure (p1.screen.altScreen && p2.screen.altScreen && decide (p1.screen.grid.size = ⟨4, 6⟩) &&
        decide (p2.screen.grid.size = ⟨2, 3⟩) && decide (p2.screen.grid.rows.length = 2) &&
        decide (p2.screen.grid ≠ p1.screen.grid))) = true := by
  decide +kernel

def rzGrid : Grid :=
  { size := ⟨4, 6⟩
    pos := ⟨0, 0⟩
    savedPos := ⟨0, 0⟩
    rows := List.replicate 4 (Row.new 6)
    scrollTop := 0
    scrollBottom := 3
    originMode := false
    savedOriginMode := false
    scrollback := []
    scrollbackLen := 0
    scrollbackOffset := 0 }

def rzScreen : Screen :=
  { (default : Screen) with
    grid := rzGrid
    altGrid := rzGrid
    altScreen := true }

/-- so `alt_isolation`'s hypothesis `CbKeeps cb` really excludes the resizing callback -/
theorem cbResize_not_keeps : ¬ Vt.C11.CbKeeps cbResize := by
  intro hk
  have h1 : isOkTrue (do
      let s' ← cbResize (.resize 2 3) rzScreen
      pure (decide (s'.grid ≠ rzScreen.grid))) = true := by decide +kernel
  cases e : cbResize (.resize 2 3) rzScreen with
  | error _ => rw [e] at h1; simp [isOkTrue] at h1
  | ok s' =>
    have := (hk _ _ _ rfl e).1
    rw [e] at h1
    simp [isOkTrue, this] at h1


/-! ## 3. the four entry / exit combinations, and the pen -/

/-- `?1049h` succeeded, so the alternate grid has at least one row (`Grid::clear` computes
`rows - 1`): the hypothesis `hr` of `enter1049_eq` is implied by the run -/
theorem enter1049_rows (s s1 : Screen) (hs : s.altScreen = false)
    (h : s.decsetOne [1049] = .ok (some s1)) : 1 ≤ s.altGrid.size.rows := by
  by_cases hr : 1 ≤ s.altGrid.size.rows
  · exact hr
  · exfalso
    simp [Screen.decsetOne, Screen.decsc, Screen.saveCursor, Screen.modifyGrid, hs, Grid.clear, subM, hr,
      panic, bind, Except.bind] at h

/-- the primary grid right after entering the alternate screen with `?47h` / `?1049h`: the
scrollback view is reset to offset 0; 1049 additionally saves the cursor INTO THE PRIMARY GRID -/
def gridEntered (pin : List Nat) (g : Grid) : Grid :=
  if pin = [1049] then (g.saveCursor).setScrollback 0 else g.setScrollback 0

/-- … and what leaving with `?47l` / `?1049l` does to it: 1049 restores the primary grid's saved cursor -/
def gridLeft (pout : List Nat) (g : Grid) : Grid :=
  if pout = [1049] then g.restoreCursor else g

/-- **C11, all four combinations.**  Enter with `?47h` or `?1049h`, process ANY actions other than
RIS / `?47l` / `?1049l`, leave with `?47l` or `?1049l`: the primary grid record is
`gridLeft pout (gridEntered pin g)` — see `round_trip_grid` for what that means field by field —
and the pen is the saved pen if leaving with 1049, else whatever the alternate-screen input left. -/
theorem alt_round_trip (W : Nat → Option Nat) {cb : CbPolicy} (hcb : Vt.C11.CbKeeps cb) (ws : WS)
    (hs : ws.screen.altScreen = false) (pin pout : List Nat)
    (hin : pin = [47] ∨ pin = [1049]) (hout : pout = [47] ∨ pout = [1049])
    (s1 : Screen) (h1 : ws.screen.decsetOne pin = .ok (some s1))
    (acts : List Action) (hl : ∀ a ∈ acts, Leaves a = false) (ws2 : WS)
    (h2 : acts.foldlM (perform W cb) { ws with screen := s1 } = .ok ws2)
    (s3 : Screen) (h3 : ws2.screen.decrstOne pout = .ok (some s3)) :
    s3.altScreen = false ∧
    s3.grid = gridLeft pout (gridEntered pin ws.screen.grid) ∧
    s3.attrs = (if pout = [1049] then ws2.screen.savedAttrs else ws2.screen.attrs) ∧
    s3.savedAttrs = ws2.screen.savedAttrs ∧ s3.altGrid = ws2.screen.altGrid := by
  have hent : s1.grid = gridEntered pin ws.screen.grid ∧ s1.altScreen = true := by
    rcases hin with rfl | rfl
    · rw [enter47_eq _ hs] at h1
      simp only [Except.ok.injEq, Option.some.injEq] at h1
      subst h1
      exact ⟨by simp [gridEntered, entered47], rfl⟩
    · obtain ⟨_, e1⟩ := enter1049_eq _ hs (enter1049_rows _ _ hs h1)
      rw [e1] at h1
      simp only [Except.ok.injEq, Option.some.injEq] at h1
      subst h1
      exact ⟨by simp [gridEntered, entered1049], rfl⟩
  obtain ⟨hg, _⟩ := alt_isolation_stream W hcb acts _ ws2 hent.2 hl h2
  simp only at hg
  rcases hout with rfl | rfl
  · rw [exit47_eq] at h3
    simp only [Except.ok.injEq, Option.some.injEq] at h3
    subst h3
    refine ⟨rfl, ?_, by simp [Screen.exitAlternateGrid], rfl, rfl⟩
    simp only [Screen.exitAlternateGrid, hg, hent.1]
    simp [gridLeft]
  · rw [exit1049_eq] at h3
    simp only [Except.ok.injEq, Option.some.injEq] at h3
    subst h3
    refine ⟨rfl, ?_, by simp [left1049], rfl, rfl⟩
    simp only [left1049, hg, hent.1]
    simp [gridLeft]

/-- field by field: in ALL FOUR combinations the cells and wrap flags (`rows`), the size, the
scroll region, the scrollback lines and capacity of the primary grid are unchanged and the view
offset is 0.  The cursor:
  47 → 47     : position / origin mode untouched (they could not change: nothing was drawn here);
  1049 → 1049 : restored to what they were on entry;
  1049 → 47   : untouched, but the primary grid's SAVED cursor was overwritten on entry;
  47 → 1049   : replaced by the primary grid's saved cursor — the last DECSC made on the primary
                screen, or (0,0) / origin off if there was none. -/
theorem round_trip_grid (pin pout : List Nat) (g : Grid) :
    (gridLeft pout (gridEntered pin g)).rows = g.rows ∧
    (gridLeft pout (gridEntered pin g)).size = g.size ∧
    (gridLeft pout (gridEntered pin g)).scrollTop = g.scrollTop ∧
    (gridLeft pout (gridEntered pin g)).scrollBottom = g.scrollBottom ∧
    (gridLeft pout (gridEntered pin g)).scrollback = g.scrollback ∧
    (gridLeft pout (gridEntered pin g)).scrollbackLen = g.scrollbackLen ∧
    (gridLeft pout (gridEntered pin g)).scrollbackOffset = 0 ∧
    (gridLeft pout (gridEntered pin g)).pos =
      (if pout = [1049] ∧ pin ≠ [1049] then g.savedPos else g.pos) ∧
    (gridLeft pout (gridEntered pin g)).originMode =
      (if pout = [1049] ∧ pin ≠ [1049] then g.savedOriginMode else g.originMode) ∧
    (gridLeft pout (gridEntered pin g)).savedPos = (if pin = [1049] then g.pos else g.savedPos) ∧
    (gridLeft pout (gridEntered pin g)).savedOriginMode =
      (if pin = [1049] then g.originMode else g.savedOriginMode) := by
  by_cases h1 : pin = [1049] <;> by_cases h2 : pout = [1049] <;>
    simp [gridLeft, gridEntered, h1, h2, Grid.saveCursor, Grid.restoreCursor, Grid.setScrollback]

/-- `?47h … ?1049l` spelled out -/
theorem alt_round_trip_47_1049 (W : Nat → Option Nat) {cb : CbPolicy} (hcb : Vt.C11.CbKeeps cb) (ws : WS)
    (hs : ws.screen.altScreen = false) (s1 : Screen) (h1 : ws.screen.decsetOne [47] = .ok (some s1))
    (acts : List Action) (hl : ∀ a ∈ acts, Leaves a = false) (ws2 : WS)
    (h2 : acts.foldlM (perform W cb) { ws with screen := s1 } = .ok ws2)
    (s3 : Screen) (h3 : ws2.screen.decrstOne [1049] = .ok (some s3)) :
    s3.altScreen = false ∧
    s3.grid = { ws.screen.grid with
      scrollbackOffset := 0, pos := ws.screen.grid.savedPos, originMode := ws.screen.grid.savedOriginMode } ∧
    s3.attrs = ws2.screen.savedAttrs := by
  obtain ⟨a, b, c, _⟩ := alt_round_trip W hcb ws hs [47] [1049] (Or.inl rfl) (Or.inr rfl) s1 h1 acts hl ws2 h2 s3 h3
  refine ⟨a, ?_, by simpa using c⟩
  rw [b]
  simp [gridLeft, gridEntered, Grid.restoreCursor, Grid.setScrollback]

/-- `?1049h … ?47l` spelled out -/
theorem alt_round_trip_1049_47 (W : Nat → Option Nat) {cb : CbPolicy} (hcb : Vt.C11.CbKeeps cb) (ws : WS)
    (hs : ws.screen.altScreen = false) (s1 : Screen) (h1 : ws.screen.decsetOne [1049] = .ok (some s1))
    (acts : List Action) (hl : ∀ a ∈ acts, Leaves a = false) (ws2 : WS)
    (h2 : acts.foldlM (perform W cb) { ws with screen := s1 } = .ok ws2)
    (s3 : Screen) (h3 : ws2.screen.decrstOne [47] = .ok (some s3)) :
    s3.altScreen = false ∧
    s3.grid = { ws.screen.grid with
      scrollbackOffset := 0, savedPos := ws.screen.grid.pos, savedOriginMode := ws.screen.grid.originMode } ∧
    s3.attrs = ws2.screen.attrs := by
  obtain ⟨a, b, c, _⟩ := alt_round_trip W hcb ws hs [1049] [47] (Or.inr rfl) (Or.inl rfl) s1 h1 acts hl ws2 h2 s3 h3
  refine ⟨a, ?_, by simpa using c⟩
  rw [b]
  simp [gridLeft, gridEntered, Grid.saveCursor, Grid.setScrollback]

/-- **the pen of `?1049h … ?1049l`.**  `?1049h` saves the pen into the one shared `saved_attrs`,
`?1049l` makes `saved_attrs` the pen.  So the pen comes back to its value on entry PROVIDED no DECSC
and no further `?1049h` was processed on the alternate screen (`Saves`); otherwise the pen after
leaving is the one saved last (`pen_1049_not_isolated`).  The cursor position has no such proviso:
it is kept in the primary grid, which the alternate screen cannot reach. -/
theorem alt_round_trip_1049_pen (W : Nat → Option Nat) {cb : CbPolicy} (hcb : Vt.C11.CbKeeps cb)
    (hsv : CbSaved cb) (ws : WS)
    (hs : ws.screen.altScreen = false) (s1 : Screen) (h1 : ws.screen.decsetOne [1049] = .ok (some s1))
    (acts : List Action) (hl : ∀ a ∈ acts, Leaves a = false) (hns : ∀ a ∈ acts, Saves a = false)
    (ws2 : WS) (h2 : acts.foldlM (perform W cb) { ws with screen := s1 } = .ok ws2)
    (s3 : Screen) (h3 : ws2.screen.decrstOne [1049] = .ok (some s3)) :
    s3.attrs = ws.screen.attrs ∧ s3.grid.pos = ws.screen.grid.pos ∧
    s3.grid.originMode = ws.screen.grid.originMode := by
  obtain ⟨_, b, c, _⟩ := alt_round_trip W hcb ws hs [1049] [1049] (Or.inr rfl) (Or.inr rfl) s1 h1 acts hl ws2 h2 s3 h3
  have hfr := actions_saved W hsv acts _ ws2 hns h2
  have hpen : ws2.screen.savedAttrs = s1.savedAttrs := congrArg SavedAll.pen hfr
  obtain ⟨_, e1⟩ := enter1049_eq _ hs (enter1049_rows _ _ hs h1)
  rw [e1] at h1
  simp only [Except.ok.injEq, Option.some.injEq] at h1
  subst h1
  refine ⟨?_, ?_, ?_⟩
  · rw [c]; simp only [↓reduceIte, hpen, entered1049]
  · rw [b]; simp [gridLeft, gridEntered, Grid.saveCursor, Grid.restoreCursor, Grid.setScrollback]
  · rw [b]; simp [gridLeft, gridEntered, Grid.saveCursor, Grid.restoreCursor, Grid.setScrollback]

/-- TEST — without the proviso the pen is NOT restored: default pen, `?1049h`, SGR 1 (bold),
`ESC 7` on the alternate screen, `?1049l`: the pen is bold; the cursor (moved to (1,2) before
entering, moved and saved elsewhere on the alternate screen) is back at (1,2). -/
theorem pen_1049_not_isolated :
    isOkTrue (do
      let p ← Parser.new 3 5 0
      let p ← p.process (fun _ => some 1) cbNone [0x1B, 0x5B, 50, 0x3B, 51, 72]
      let p ← p.process (fun _ => some 1) cbNone
        [0x1B, 0x5B, 0x3F, 49, 48, 52, 57, 104, 0x1B, 0x5B, 49, 109, 97, 0x1B, 55,
         0x1B, 0x5B, 0x3F, 49, 48, 52, 57, 108]
      pure (decide (p.screen.attrs.intensity = .bold) && decide (p.screen.grid.pos = ⟨1, 2⟩) &&
        !p.screen.altScreen)) = true := by
  decide +kernel


/-! ## 4. byte level

The sequences as BYTES, parsed by the vte model from a ready parser (Ground state, nothing pending:
`C09.Ready`), then performed.  `esc7` = `ESC 7`, `esc8` = `ESC 8`, `altSeq n 104` = `ESC [ ? n h`,
`altSeq n 108` = `ESC [ ? n l` with `n` in decimal. -/

open Vt.Tok

def esc7 : List Nat := [0x1B, 55]
def esc8 : List Nat := [0x1B, 56]
def altSeq (n final : Nat) : List Nat := [0x1B, 0x5B, 0x3F] ++ Term.itoa n ++ [final]

/-- the four switch sequences, byte by byte -/
theorem altSeq_vals :
    altSeq 47 104 = [0x1B, 0x5B, 0x3F, 52, 55, 104] ∧
    altSeq 1049 104 = [0x1B, 0x5B, 0x3F, 49, 48, 52, 57, 104] ∧
    altSeq 47 108 = [0x1B, 0x5B, 0x3F, 52, 55, 108] ∧
    altSeq 1049 108 = [0x1B, 0x5B, 0x3F, 49, 48, 52, 57, 108] := by decide +kernel

theorem tok_altSeq (n final : Nat) (hn : n ≤ 65535) (hf : 0x40 ≤ final ∧ final ≤ 0x7E) :
    Tok (altSeq n final) [.csiDispatch [[n]] [0x3F] false final] := by
  have := tok_csi_private [n] final (by simpa using hn) (by simp) hf
  simpa [paramBytes, Tok.groups, altSeq] using this

theorem tok_esc7 : Tok esc7 [.escDispatch [] false 55] := tok_esc 55 (by omega)
theorem tok_esc8 : Tok esc8 [.escDispatch [] false 56] := tok_esc 56 (by omega)

/-- processing a token on a ready parser = performing its actions; the parser is ready again -/
theorem process_tok (W : Nat → Option Nat) (cb : CbPolicy) {t : List Nat} {acts : List Action}
    (ht : Tok t acts) (p p' : Parser) (hr : C09.Ready p) (h : p.process W cb t = .ok p') :
    acts.foldlM (perform W cb) p.ws = .ok p'.ws ∧ C09.Ready p' := by
  obtain ⟨e, g, c⟩ := ht p.vte hr.1 hr.2
  simp only [Parser.process, e] at h
  obtain ⟨ws, h1, h2⟩ := bind_eq_ok.mp h
  simp only [pure_eq_ok, Except.ok.injEq] at h2
  subst h2
  exact ⟨h1, g, c⟩

theorem process_tok_ok (W : Nat → Option Nat) (cb : CbPolicy) {t : List Nat} {acts : List Action}
    (ht : Tok t acts) (p : Parser) (hr : C09.Ready p) (ws' : WS)
    (h : acts.foldlM (perform W cb) p.ws = .ok ws') :
    ∃ p', p.process W cb t = .ok p' ∧ p'.ws = ws' ∧ C09.Ready p' := by
  obtain ⟨e, g, c⟩ := ht p.vte hr.1 hr.2
  simp only [Parser.process, e, h, ok_bind, pure_eq_ok]
  exact ⟨_, rfl, rfl, g, c⟩

/-- any chunk, any parser state: the screen transformer is the fold of `perform` over the parsed actions -/
theorem process_actions (W : Nat → Option Nat) (cb : CbPolicy) (p p' : Parser) (bytes : List Nat)
    (h : p.process W cb bytes = .ok p') :
    (p.vte.advance bytes).2.foldlM (perform W cb) p.ws = .ok p'.ws := by
  simp only [Parser.process] at h
  obtain ⟨ws, h1, h2⟩ := bind_eq_ok.mp h
  simp only [pure_eq_ok, Except.ok.injEq] at h2
  subst h2
  exact h1

theorem foldlM_single {α β} (f : β → α → M β) (b : β) (a : α) : [a].foldlM f b = f b a := by
  simp only [List.foldlM]
  cases f b a <;> rfl

/-! ### the six sequences, one by one -/

theorem perform_enter47 (W : Nat → Option Nat) (cb : CbPolicy) (ws : WS) (hs : ws.screen.altScreen = false) :
    perform W cb ws (.csiDispatch [[47]] [0x3F] false 104) = .ok { ws with screen := entered47 ws.screen } := by
  simp [perform, performCsi, decset, List.foldlM, enter47_eq _ hs]

theorem perform_enter1049 (W : Nat → Option Nat) (cb : CbPolicy) (ws : WS) (hs : ws.screen.altScreen = false)
    (hr : 1 ≤ ws.screen.altGrid.size.rows) :
    perform W cb ws (.csiDispatch [[1049]] [0x3F] false 104) =
      .ok { ws with screen := entered1049 ws.screen (clearedGrid ws.screen.altGrid) } := by
  simp [perform, performCsi, decset, List.foldlM, (enter1049_eq _ hs hr).2]

theorem perform_exit47 (W : Nat → Option Nat) (cb : CbPolicy) (ws : WS) :
    perform W cb ws (.csiDispatch [[47]] [0x3F] false 108) = .ok { ws with screen := ws.screen.exitAlternateGrid } := by
  simp [perform, performCsi, decrst, List.foldlM, exit47_eq]

theorem perform_exit1049 (W : Nat → Option Nat) (cb : CbPolicy) (ws : WS) :
    perform W cb ws (.csiDispatch [[1049]] [0x3F] false 108) = .ok { ws with screen := left1049 ws.screen } := by
  simp [perform, performCsi, decrst, List.foldlM, exit1049_eq]

/-- **`ESC 7`** as bytes -/
theorem process_decsc (W : Nat → Option Nat) (cb : CbPolicy) (p : Parser) (hr : C09.Ready p) :
    ∃ p', p.process W cb esc7 = .ok p' ∧ p'.ws = { p.ws with screen := decscOf p.ws.screen } ∧ C09.Ready p' :=
  process_tok_ok W cb tok_esc7 p hr _ (by rw [foldlM_single, perform_decsc])

/-- **`ESC 8`** as bytes -/
theorem process_decrc (W : Nat → Option Nat) (cb : CbPolicy) (p : Parser) (hr : C09.Ready p) :
    ∃ p', p.process W cb esc8 = .ok p' ∧ p'.ws = { p.ws with screen := decrcOf p.ws.screen } ∧ C09.Ready p' :=
  process_tok_ok W cb tok_esc8 p hr _ (by rw [foldlM_single, perform_decrc])

/-- **`ESC [ ? 47 h`** as bytes, on the primary screen -/
theorem process_enter47 (W : Nat → Option Nat) (cb : CbPolicy) (p : Parser) (hr : C09.Ready p)
    (hs : p.ws.screen.altScreen = false) :
    ∃ p', p.process W cb (altSeq 47 104) = .ok p' ∧
      p'.ws = { p.ws with screen := entered47 p.ws.screen } ∧ C09.Ready p' :=
  process_tok_ok W cb (tok_altSeq 47 104 (by omega) (by omega)) p hr _
    (by rw [foldlM_single, perform_enter47 W cb _ hs])

/-- **`ESC [ ? 1049 h`** as bytes, on the primary screen: cursor saved, alternate grid cleared -/
theorem process_enter1049 (W : Nat → Option Nat) (cb : CbPolicy) (p : Parser) (hr : C09.Ready p)
    (hs : p.ws.screen.altScreen = false) (hrows : 1 ≤ p.ws.screen.altGrid.size.rows) :
    ∃ p', p.process W cb (altSeq 1049 104) = .ok p' ∧
      p'.ws = { p.ws with screen := entered1049 p.ws.screen (clearedGrid p.ws.screen.altGrid) } ∧
      C09.Ready p' :=
  process_tok_ok W cb (tok_altSeq 1049 104 (by omega) (by omega)) p hr _
    (by rw [foldlM_single, perform_enter1049 W cb _ hs hrows])

/-- **`ESC [ ? 47 l`** as bytes -/
theorem process_exit47 (W : Nat → Option Nat) (cb : CbPolicy) (p : Parser) (hr : C09.Ready p) :
    ∃ p', p.process W cb (altSeq 47 108) = .ok p' ∧
      p'.ws = { p.ws with screen := p.ws.screen.exitAlternateGrid } ∧ C09.Ready p' :=
  process_tok_ok W cb (tok_altSeq 47 108 (by omega) (by omega)) p hr _
    (by rw [foldlM_single, perform_exit47])

/-- **`ESC [ ? 1049 l`** as bytes -/
theorem process_exit1049 (W : Nat → Option Nat) (cb : CbPolicy) (p : Parser) (hr : C09.Ready p) :
    ∃ p', p.process W cb (altSeq 1049 108) = .ok p' ∧
      p'.ws = { p.ws with screen := left1049 p.ws.screen } ∧ C09.Ready p' :=
  process_tok_ok W cb (tok_altSeq 1049 108 (by omega) (by omega)) p hr _
    (by rw [foldlM_single, perform_exit1049])

/-! ### the two end-to-end statements on bytes -/

/-- **C11 on bytes, DECSC … DECRC**: `ESC 7`, then any chunk `mid` none of whose actions is DECSC /
RIS / `?1049h` and after which the parser is back in Ground, then `ESC 8`. -/
theorem process_decsc_frame_decrc (W : Nat → Option Nat) {cb : CbPolicy} (hcb : CbSaved cb)
    (p0 p1 p2 p3 : Parser) (hr : C09.Ready p0) (h1 : p0.process W cb esc7 = .ok p1)
    (mid : List Nat) (h2 : p1.process W cb mid = .ok p2)
    (hmid : ∀ a ∈ (p1.vte.advance mid).2, Saves a = false) (hr2 : C09.Ready p2)
    (h3 : p2.process W cb esc8 = .ok p3) :
    p3.screen.attrs = p0.screen.attrs ∧
    (p2.screen.altScreen = p0.screen.altScreen → live p3.screen = live p0.screen) ∧
    (p2.screen.altScreen ≠ p0.screen.altScreen →
      p3.screen.cur.pos = (savedOther p0.screen).1 ∧
      p3.screen.cur.originMode = (savedOther p0.screen).2) := by
  obtain ⟨a1, _⟩ := process_tok W cb tok_esc7 p0 p1 hr h1
  obtain ⟨a3, _⟩ := process_tok W cb tok_esc8 p2 p3 hr2 h3
  rw [foldlM_single] at a1 a3
  exact decsc_frame_decrc W hcb false false p0.ws p1.ws p2.ws p3.ws a1 _ hmid
    (process_actions W cb p1 p2 mid h2) a3

/-- **C11 on bytes, all four combinations**: `ESC [ ? pin h` on the primary screen, then any chunk
`mid` none of whose actions is RIS / `?47l` / `?1049l` and after which the parser is back in
Ground, then `ESC [ ? pout l`, for `pin`, `pout` ∈ {47, 1049}. -/
theorem process_alt_round_trip (W : Nat → Option Nat) {cb : CbPolicy} (hcb : Vt.C11.CbKeeps cb)
    (pin pout : Nat) (hin : pin = 47 ∨ pin = 1049) (hout : pout = 47 ∨ pout = 1049)
    (p0 p1 p2 p3 : Parser) (hr : C09.Ready p0) (hs : p0.screen.altScreen = false)
    (h1 : p0.process W cb (altSeq pin 104) = .ok p1)
    (mid : List Nat) (h2 : p1.process W cb mid = .ok p2)
    (hmid : ∀ a ∈ (p1.vte.advance mid).2, Leaves a = false) (hr2 : C09.Ready p2)
    (h3 : p2.process W cb (altSeq pout 108) = .ok p3) :
    p3.screen.altScreen = false ∧
    p3.screen.grid = gridLeft [pout] (gridEntered [pin] p0.screen.grid) ∧
    p3.screen.attrs = (if pout = 1049 then p2.screen.savedAttrs else p2.screen.attrs) ∧
    p3.ws.events = p2.ws.events := by
  have hpin : pin ≤ 65535 := by rcases hin with rfl | rfl <;> omega
  have hpout : pout ≤ 65535 := by rcases hout with rfl | rfl <;> omega
  obtain ⟨a1, _⟩ := process_tok W cb (tok_altSeq pin 104 hpin (by omega)) p0 p1 hr h1
  obtain ⟨a3, _⟩ := process_tok W cb (tok_altSeq pout 108 hpout (by omega)) p2 p3 hr2 h3
  rw [foldlM_single] at a1 a3
  -- the entry, as `decsetOne`
  have hent : ∃ s1, p0.ws.screen.decsetOne [pin] = .ok (some s1) ∧ p1.ws = { p0.ws with screen := s1 } := by
    rcases hin with rfl | rfl
    · rw [perform_enter47 W cb _ hs] at a1
      exact ⟨_, enter47_eq _ hs, (Except.ok.inj a1).symm⟩
    · have hrows : 1 ≤ p0.ws.screen.altGrid.size.rows := by
        by_cases hr' : 1 ≤ p0.ws.screen.altGrid.size.rows
        · exact hr'
        · exfalso
          have hs' : p0.ws.screen.altScreen = false := hs
          simp [perform, performCsi, decset, List.foldlM, Screen.decsetOne, Screen.decsc, Screen.saveCursor,
            Screen.modifyGrid, hs', Grid.clear, subM, hr', panic, bind, Except.bind] at a1
      rw [perform_enter1049 W cb _ hs hrows] at a1
      exact ⟨_, (enter1049_eq _ hs hrows).2, (Except.ok.inj a1).symm⟩
  obtain ⟨s1, e1, e1'⟩ := hent
  -- the exit, as `decrstOne`
  have hex : ∃ s3, p2.ws.screen.decrstOne [pout] = .ok (some s3) ∧ p3.ws = { p2.ws with screen := s3 } := by
    rcases hout with rfl | rfl
    · rw [perform_exit47] at a3
      exact ⟨_, exit47_eq _, (Except.ok.inj a3).symm⟩
    · rw [perform_exit1049] at a3
      exact ⟨_, exit1049_eq _, (Except.ok.inj a3).symm⟩
  obtain ⟨s3, e3, e3'⟩ := hex
  have hm := process_actions W cb p1 p2 mid h2
  rw [e1'] at hm
  obtain ⟨r1, r2, r3, _⟩ := alt_round_trip W hcb p0.ws hs [pin] [pout]
    (by rcases hin with rfl | rfl <;> simp) (by rcases hout with rfl | rfl <;> simp)
    s1 e1 _ hmid p2.ws hm s3 e3
  refine ⟨?_, ?_, ?_, ?_⟩
  · show p3.ws.screen.altScreen = false
    rw [e3']; exact r1
  · show p3.ws.screen.grid = _
    rw [e3']; exact r2
  · show p3.ws.screen.attrs = _
    rw [e3']
    simp only
    rw [r3]
    rcases hout with rfl | rfl <;> simp [Parser.screen]
  · rw [e3']

/-- TEST (non-vacuity of the byte-level statements): on a 3x5 parser with one line of history,
cursor at (1,2), pen underlined — `?47h`, text that scrolls the alternate screen, SGR 0, `?1049l`:
back on the primary screen, its rows / history untouched, cursor at the (never set) saved position
(0,0), pen = saved pen = default. -/
theorem bytes_47_1049_test :
    isOkTrue (do
      let p ← Parser.new 3 5 4
      let p0 ← p.process (fun _ => some 1) cbNone
        [97, 10, 98, 10, 99, 10, 100, 0x1B, 0x5B, 50, 0x3B, 51, 72, 0x1B, 0x5B, 52, 109]
      let p1 ← p0.process (fun _ => some 1) cbNone (altSeq 47 104)
      let p2 ← p1.process (fun _ => some 1) cbNone [120, 10, 10, 10, 10, 121, 0x1B, 0x5B, 48, 109]
      let p3 ← p2.process (fun _ => some 1) cbNone (altSeq 1049 108)
      pure (!p3.screen.altScreen && decide (p3.screen.grid.rows = p0.screen.grid.rows) &&
        decide (p3.screen.grid.scrollback = p0.screen.grid.scrollback) &&
        decide (p0.screen.grid.scrollback.length = 1) &&
        decide (p0.screen.grid.pos = ⟨1, 2⟩) && decide (p3.screen.grid.pos = ⟨0, 0⟩) &&
        decide (p2.screen.altGrid.scrollback = []) &&
        p0.screen.attrs.underline && !p3.screen.attrs.underline)) = true := by
  decide +kernel

end Vt.C11

/-
#print axioms Vt.C11.perform_saved
#print axioms Vt.C11.actions_saved
#print axioms Vt.C11.decsc_frame_decrc
#print axioms Vt.C11.decrc_fresh
#print axioms Vt.C11.perform_cbResize_eq
#print axioms Vt.C11.alt_isolation_cbResize
#print axioms Vt.C11.alt_isolation_stream_cbResize
#print axioms Vt.C11.perform_saved_cbResize
#print axioms Vt.C11.resize_breaks_isolation
#print axioms Vt.C11.cbResize_not_keeps
#print axioms Vt.C11.alt_round_trip
#print axioms Vt.C11.round_trip_grid
#print axioms Vt.C11.alt_round_trip_47_1049
#print axioms Vt.C11.alt_round_trip_1049_47
#print axioms Vt.C11.alt_round_trip_1049_pen
#print axioms Vt.C11.pen_1049_not_isolated
#print axioms Vt.C11.process_decsc
#print axioms Vt.C11.process_decrc
#print axioms Vt.C11.process_enter47
#print axioms Vt.C11.process_enter1049
#print axioms Vt.C11.process_exit47
#print axioms Vt.C11.process_exit1049
#print axioms Vt.C11.process_decsc_frame_decrc
#print axioms Vt.C11.process_alt_round_trip
#print axioms Vt.C11.bytes_47_1049_test
-/
