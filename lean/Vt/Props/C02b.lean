/-
  C02 (continued) — a universal instance of the diff property: the two screens show the same lines and differ in
  the cursor position (anywhere, the pending-wrap column included), the pen, the cursor visibility and the input
  modes only.

  `Reproduces q P`: the receiver `q` is in the state a reproduction of `P` leaves it in (what C01's
  `state_formatted_reproduces` establishes: `reproduces_of_redraw`).
  `state_diff_cursor_only`: from `Reproduces q P`, processing the BYTES of `S.state_diff(P)` gives
  `Reproduces q' S` — so the statement chains: a single receiver fed `diff(S1,S0)`, `diff(S2,S1)`, … stays equal to
  the latest snapshot as long as only those components change.

  The property is false in general of the pinned tree (listed findings F8a, F8b, F9, F12), all of which need cells
  to differ; this theorem is the part that involves none of the row machinery that fails there.
-/
import Vt.Props.C01full
namespace Vt.C02
open Vt Vt.Recv Vt.C19 Vt.C09 Vt.RowDraw Vt.GridDraw Vt.Tok Vt.C03 Vt.C01
set_option linter.unusedSimpArgs false
set_option linter.unusedVariables false

variable {W : Nat → Option Nat} {cb : CbPolicy}

/-- the receiver is in the state a reproduction of `P` leaves it in -/
structure Reproduces (q : Parser) (P : Screen) : Prop where
  ready : Ready q
  drawn : DrawnAs q P
  pen : (rsOf q.ws).pen = P.attrs
  hide : q.ws.screen.hideCursor = P.hideCursor
  modes : C10.inputModes q.ws.screen = C10.inputModes P
  off : (rsOf q.ws).g.scrollbackOffset = 0

/-- a receiver that reproduces `P` shows `P` -/
theorem shows_of_reproduces {q : Parser} {P : Screen} (h : Reproduces q P) (hal : P.cur.rows.length = P.cur.size.rows) :
    Shows q.screen P := by
  have hcur : q.screen.cur = (rsOf q.ws).g := rfl
  obtain ⟨hc, hwr, hvw⟩ := rows_shown h.drawn
  refine ⟨?_, by rw [hcur]; exact hc, by rw [hcur]; exact hvw, by rw [hcur]; exact hwr, by rw [hcur]; exact h.drawn.pos, h.hide,
    h.pen, h.off⟩
  rw [hcur]
  have h1 := h.drawn.hcols
  have h2 := h.drawn.nrows
  rw [hal] at h2
  cases hsg : (rsOf q.ws).g.size; cases hss : P.cur.size
  simp only [hsg, hss] at h1 h2 ⊢
  rw [h1, h2]

/-- chaining `process` over a concatenation when the first part leaves the parser ready -/
theorem process_then' {q q1 q2 : Parser} (hq : Ready q) {X Y : List Nat} (e1 : q.process W cb X = .ok q1) (r1 : Ready q1)
    (e2 : q1.process W cb Y = .ok q2) : q.process W cb (X ++ Y) = .ok q2 := by
  have hcar : (q.vte.advance X).1.carry = [] := by rw [← process_vte W cb e1]; exact r1.2
  rw [C04.process_append W cb q X Y hq.2 hcar, e1]; exact e2

/-- what C01 establishes: after `state_formatted` on a new parser the receiver reproduces the source -/
theorem reproduces_of_redraw (hW : WOk W) (P : Screen) (hinv : emitInvB W P = true) (hoff : P.cur.scrollbackOffset = 0)
    (sb : Nat) :
    ∃ q bytes q', Parser.new P.cur.size.rows P.cur.size.cols sb = .ok q ∧ P.stateFormatted = .ok bytes ∧
      q.process W cb bytes = .ok q' ∧ Reproduces q' P := by
  have hS := srcScreen_of_inv hinv hoff
  have hI : Inv W P := by
    simp only [emitInvB, invPlusB, Bool.and_eq_true] at hinv
    exact hinv.1.1.1.1.1
  obtain ⟨hcg, _⟩ := ((inv_iff W P).mp hI).cur
  obtain ⟨q, enew, hq, hqoff, hqsz, hm, he⟩ := new_recvOk W P.cur.size.rows P.cur.size.cols sb hcg.rows_pos hcg.cols_pos
    hcg.rows_u16 hcg.cols_u16
  obtain ⟨bytes, q', eb, ep, r', hsh, hmodes, hev, hdr⟩ := state_formatted_reproduces (cb := cb) hW hq hqoff hm he P hS
    (by rw [hqsz])
  exact ⟨q, bytes, q', enew, eb, ep, ⟨r', hdr, hsh.pen, hsh.hide, hmodes, hsh.off⟩⟩

/-- **C02, cursor / pen / visibility / modes only**: `S` shows the same lines as `P`; a receiver that reproduces
`P`, fed the bytes of `S.state_diff(P)`, reproduces `S` (and reports no event) -/
theorem state_diff_cursor_only (hW : WOk W) {q : Parser} (P S : Screen) (hq : Reproduces q P)
    (hrows : S.cur.rows = P.cur.rows) (hsz : S.cur.size = P.cur.size)
    (hoffS : S.cur.scrollbackOffset = 0) (hoffP : P.cur.scrollbackOffset = 0)
    (hS : SrcScreen W S) (hPcol : P.cur.pos.col ≤ P.cur.size.cols) (hPwf : Attrs.wf P.attrs) :
    ∃ bytes q', S.stateDiff P = .ok bytes ∧ q.process W cb bytes = .ok q' ∧ Reproduces q' S ∧
      q'.ws.events = q.ws.events := by
  -- the bytes
  have hvS := C19.visibleRows_offset0 S.cur hoffS
  have hvP := C19.visibleRows_offset0 P.cur hoffP
  -- 1. cursor visibility
  obtain ⟨q1, hcbytes, e1, w1ev, r1, hrs1, hh1, hm1⟩ : ∃ q1 hcb, q.process W cb hcb = .ok q1 ∧ q1.ws.events = q.ws.events ∧
      Ready q1 ∧ rsOf q1.ws = rsOf q.ws ∧ q1.ws.screen.hideCursor = S.hideCursor ∧
      C10.inputModes q1.ws.screen = C10.inputModes q.ws.screen ∧
      hcb = (if S.hideCursor != P.hideCursor then Term.hideCursor S.hideCursor else []) := by
    by_cases hd : (S.hideCursor != P.hideCursor) = true
    · obtain ⟨q1, e1, w1, r1⟩ := C10.process_hideCursor W cb q S.hideCursor hq.ready
      refine ⟨q1, _, e1, by rw [w1], r1, by rw [w1]; exact rsOf_hide _ _, by rw [w1], by rw [w1]; rfl, by rw [if_pos hd]⟩
    · have hd' : S.hideCursor = P.hideCursor := by simpa using hd
      refine ⟨q, [], C04.process_nil W cb q hq.ready.2, rfl, hq.ready, rfl, by rw [hq.hide, hd'], rfl, by rw [if_neg hd]⟩
  -- 2. the grid: the rows emit nothing, the cursor is fixed up
  have hinvP : RowsInv S.cur.rows S.cur.size.cols S.cur.rows.length false P.cur.pos (rsOf q1.ws) := by
    rw [hrs1, hrows, hsz]; exact hq.drawn
  obtain ⟨cur, ecur, Rf, hemf, hpenf, hinvf, hofff⟩ := cursor_fixup (cb := cb) hW r1 S.cur hS.rows hS.alloc hS.cur_row hS.cur_col
    (emitted_nil W cb q1 r1) (show (rsOf q1.ws).pen = P.attrs by rw [hrs1]; exact hq.pen) hPwf hinvP (some P.cur.pos)
    (fun p hp => by
      have : P.cur.pos = p := Option.some.inj hp
      subst this
      exact ⟨rfl, by rw [hsz]; exact hPcol⟩)
  simp only [List.nil_append] at hemf
  -- 3. the pen
  have hem2 := emitted_step W cb r1 hemf (step_pen W cb S.attrs P.attrs hS.pen_wf)
    (r' := { Rf with pen := S.attrs }) (by simp [hpenf])
  obtain ⟨q2, e2, w2, r2⟩ := hem2
  -- 4. the input modes
  have hm2 : C10.inputModes q2.ws.screen = C10.inputModes P := by
    rw [w2]
    have : C10.inputModes (withRS q1.ws { Rf with pen := S.attrs }).screen = C10.inputModes q1.ws.screen := by
      simp only [C10.inputModes, withRS, Screen.setCur]; split <;> rfl
    rw [this, hm1.1, hq.modes]
  obtain ⟨q3, e3, w3, r3⟩ := C10.process_input_mode_diff W cb q2 S P r2 hm2
  -- assemble
  have egrid : S.cur.writeContentsDiff P.cur P.attrs = .ok (cur, P.attrs) := by
    simp only [Grid.writeContentsDiff, hvS, hvP, ok_bind, hrows, hsz]
    rw [C19.diffRowsLoop_self]
    simp only [ok_bind]
    have : S.cur.writeCursorPositionFormatted (some P.cur.pos) (some P.attrs) = .ok cur := ecur
    rw [this]
    simp only [ok_bind, List.nil_append, pure_eq_ok]
  have ecd : S.writeContentsDiff P = .ok (hcbytes ++ cur ++ S.attrs.writeEscapeCodeDiff P.attrs) := by
    simp only [Screen.writeContentsDiff, egrid, ok_bind, pure_eq_ok, hm1.2]
  refine ⟨(hcbytes ++ cur ++ S.attrs.writeEscapeCodeDiff P.attrs) ++ S.inputModeDiff P, q3, ?_, ?_, ?_, ?_⟩
  · simp only [Screen.stateDiff, ecd, ok_bind, pure_eq_ok, Screen.inputModeDiff]
  · have s1 := process_then' (cb := cb) hq.ready e1 r1 e2
    have s2 := process_then' (cb := cb) hq.ready s1 r2 e3
    simpa [List.append_assoc] using s2
  · have hrs3 : rsOf q3.ws = { Rf with pen := S.attrs } := by
      rw [w3]
      have : rsOf ({ q2.ws with screen := C10.setInputModes q2.ws.screen (C10.inputModes S) } : WS) = rsOf q2.ws := rfl
      rw [this, w2, rsOf_withRS]
    refine ⟨r3, ?_, by rw [hrs3], ?_, by rw [w3]; rfl, by rw [hrs3]; show Rf.g.scrollbackOffset = 0; rw [hofff, hrs1]; exact hq.off⟩
    · show RowsInv _ _ _ false _ (rsOf q3.ws)
      rw [hrs3]
      have := rowsInv_frame hinvf { Rf with pen := S.attrs } rfl rfl rfl rfl rfl
      rw [show ({ Rf with pen := S.attrs } : RS).g.pos = S.cur.pos from hinvf.pos] at this
      exact this
    · rw [w3]
      show (C10.setInputModes q2.ws.screen (C10.inputModes S)).hideCursor = S.hideCursor
      have : (C10.setInputModes q2.ws.screen (C10.inputModes S)).hideCursor = q2.ws.screen.hideCursor := rfl
      rw [this, w2]
      have : (withRS q1.ws { Rf with pen := S.attrs }).screen.hideCursor = q1.ws.screen.hideCursor := by
        simp only [withRS, Screen.setCur]; split <;> rfl
      rw [this, hh1]
  · rw [w3]
    show q2.ws.events = q.ws.events
    rw [w2]
    show q1.ws.events = q.ws.events
    exact w1ev

/-- **C02 for two screens that show the same lines**: a new parser fed `P.state_formatted()` and then
`S.state_diff(P)` ends in the observable state of `S` — for every `P`, `S` satisfying the invariants (every
reachable screen, `reachable_emitInv`), not scrolled back, of the same size and with the same lines; they may
differ in the cursor (anywhere), the pen, the cursor visibility and the five input modes -/
theorem diff_after_redraw (hW : WOk W) (P S : Screen) (hP : emitInvB W P = true) (hSi : emitInvB W S = true)
    (hoffP : P.cur.scrollbackOffset = 0) (hoffS : S.cur.scrollbackOffset = 0)
    (hrows : S.cur.rows = P.cur.rows) (hsz : S.cur.size = P.cur.size) (sb : Nat) :
    ∃ q b1 q1 b2 q2, Parser.new P.cur.size.rows P.cur.size.cols sb = .ok q ∧ P.stateFormatted = .ok b1 ∧
      q.process W cb b1 = .ok q1 ∧ S.stateDiff P = .ok b2 ∧ q1.process W cb b2 = .ok q2 ∧
      obs q2.screen = obs S ∧ q2.ws.events = [] := by
  obtain ⟨q, b1, q1, enew, eb1, ep1, hrep⟩ := reproduces_of_redraw (cb := cb) hW P hP hoffP sb
  have hSP := srcScreen_of_inv hP hoffP
  have hSS := srcScreen_of_inv hSi hoffS
  obtain ⟨b2, q2, eb2, ep2, hrep2, hev2⟩ := state_diff_cursor_only (cb := cb) hW P S hrep hrows hsz hoffS hoffP hSS
    hSP.cur_col hSP.pen_wf
  refine ⟨q, b1, q1, b2, q2, enew, eb1, ep1, eb2, ep2, shows_obs (shows_of_reproduces hrep2 hSS.alloc) hrep2.modes hoffS, ?_⟩
  rw [hev2]
  -- the redraw reported no event
  have hI : Inv W P := by
    simp only [emitInvB, invPlusB, Bool.and_eq_true] at hP
    exact hP.1.1.1.1.1
  obtain ⟨hcg, _⟩ := ((inv_iff W P).mp hI).cur
  obtain ⟨q', b', q1', enew', eb', ep', _, hev'⟩ := full_redraw_fresh (cb := cb) hW P hP hoffP sb
  have hq : q' = q := by rw [enew] at enew'; exact (Except.ok.inj enew').symm
  subst hq
  have hb : b' = b1 := by rw [eb1] at eb'; exact (Except.ok.inj eb').symm
  subst hb
  have hq1 : q1' = q1 := by rw [ep1] at ep'; exact (Except.ok.inj ep').symm
  subst hq1
  exact hev'

/-- the hypotheses are satisfiable by two different screens: "ab" with the cursor after it, and the same text with
the cursor moved home, a red pen and the cursor hidden (kernel-evaluated; a test) -/
theorem diff_after_redraw_nonvacuous :
    isOkTrue (do
      let p ← C02.run 2 3 0 [[97, 98]]
      let s ← C02.run 2 3 0 [[97, 98, 0x1b, 0x5b, 0x48, 0x1b, 0x5b, 0x33, 0x31, 0x6d, 0x1b, 0x5b, 0x3f, 0x32, 0x35, 0x6c]]
      pure (emitInvB W0 p.screen && emitInvB W0 s.screen && p.screen.cur.scrollbackOffset == 0 &&
            s.screen.cur.scrollbackOffset == 0 && s.screen.cur.rows == p.screen.cur.rows &&
            s.screen.cur.size == p.screen.cur.size && s.screen.cur.pos != p.screen.cur.pos &&
            s.screen.attrs != p.screen.attrs && s.screen.hideCursor != p.screen.hideCursor)) = true := by
  decide +kernel

end Vt.C02
