/-
  C04 — the result is independent of how the byte stream is chunked.

  `process = foldM perform ∘ Vte.advance`, so chunk independence is a property of the vte
  model alone.
  * `write_eq_process`, `flush_noop` : `io::Write::write` is `process` and reports the whole
    buffer; `flush` is the identity.
  * `advance_nil` : an empty chunk changes nothing (when no UTF-8 bytes are pending).
  * `process_nil`.
  * `advanceLoop_nonground_cons` : outside `Ground` the automaton consumes exactly one byte per
    step, so there the effect of a chunk is a left fold of `changeState` over its bytes and any
    cut point gives the same result (`advanceLoop_append_nonground_prefix`).
  * `F10_witness` : the known finding (vte's `advance_partial_utf8`): "C2 | 85 7A 8D" loses 'z'.
  * `F7_fixed` : "C2 85" and "C2 | 85" now report the same event (the `fix:` commit 19f83fe).
  The general theorems are in C04b (`advance_append`, `process_append`, `process_chunks`: every cut that leaves no
  partial character pending) and MiscC04 (`process_chunks_utf8`: any chunking into valid UTF-8 pieces, escape
  sequences cut anywhere).  F10 needs no invalid byte: "C3 | A9 41 C3 A9" loses the 'A'.
-/
import Vt.Spec.Obs
import Vt.Props.C02
namespace Vt.C04
open Vt

theorem write_eq_process (W : Nat → Option Nat) (cb : CbPolicy) (p : Parser) (bytes : List Nat) :
    p.write W cb bytes = (p.process W cb bytes >>= fun p' => pure (p', bytes.length)) := rfl

theorem flush_noop (p : Parser) : p.flush = .ok p := rfl

theorem advance_nil (v : Vte) (h : v.carry = []) : v.advance [] = (v, []) := by
  simp [Vte.advance, h, Vte.advanceLoop]

theorem process_nil (W : Nat → Option Nat) (cb : CbPolicy) (p : Parser) (h : p.vte.carry = []) :
    p.process W cb [] = .ok p := by
  simp [Parser.process, advance_nil _ h]

/-- one step outside `Ground` -/
theorem advanceLoop_nonground_cons (fuel : Nat) (v : Vte) (b : Nat) (rest : List Nat)
    (h : v.state ≠ .ground) :
    Vte.advanceLoop (fuel + 1) v (b :: rest) =
      ((Vte.advanceLoop fuel (v.changeState b).1 rest).1,
       (v.changeState b).2 ++ (Vte.advanceLoop fuel (v.changeState b).1 rest).2) := by
  obtain ⟨st, ints, ign, ps, cur, pa, raw, ops, carry⟩ := v
  cases st <;> simp_all [Vte.advanceLoop]

/-- F10 (known finding, in the dependency): "C2 | 85 7A 8D" prints U+0085 and drops 'z' -/
theorem F10_witness :
    ((Vte.new.advance [0xC2]).1.advance [0x85, 0x7A, 0x8D]).2 ≠ [] ∧
    (Vte.new.advance [0xC2, 0x85, 0x7A, 0x8D]).2 =
      [.execute 0x85, .print 0x7A, .execute 0x8D] ∧
    ((Vte.new.advance [0xC2]).1.advance [0x85, 0x7A, 0x8D]).2 =
      [.print 0x85, .execute 0x8D] := by
  refine ⟨by decide +kernel, by decide +kernel, by decide +kernel⟩

/-- F7 (fixed): split or not, "C2 85" is one `unhandled_control(0x85)` -/
theorem F7_fixed : isOkTrue (do
    let p ← Parser.new 2 2 0
    let a ← p.process W0 cbNone [0xC2, 0x85]
    let b ← p.process W0 cbNone [0xC2]
    let b ← b.process W0 cbNone [0x85]
    pure (decide (a.ws = b.ws) && decide (a.ws.events = [.unhandledControl 0x85]))) = true := by
  decide +kernel

end Vt.C04
