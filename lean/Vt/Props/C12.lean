/-
  C12 — scrollback: ordered bounded history, clamped stable view, view-only offset.

  * `setScrollback_view_only` : `set_scrollback(k)` clamps `k` to the history length and changes
    nothing but the offset (whole-record equality) — the live screen, the cursor and the
    history are untouched.
  * `visibleRows_spec` : the visible rows are the last `k` history lines (at most `rows` of
    them) followed by the first `rows - k` live lines.
  * `scrollUp_one_records` / `scrollUp_one_noop_history` : one line scrolling off the top is
    appended unmodified to the history, which keeps the `N` most recent lines, exactly when
    the capacity is non-zero and no scroll region is active; while the view is scrolled back
    the offset grows by one up to the history length (`view_stable`, `view_moves_at_capacity`: MiscC12).
  * `offset_irrelevant_scrollUp` : the offset never influences the live rows (one step; over ALL actions, the n-step
    recording and the history frame: C12c).
-/
import Vt.Lemmas.Inv
namespace Vt.C12
open Vt
set_option linter.unusedSimpArgs false

theorem setScrollback_view_only (g : Grid) (k : Nat) :
    g.setScrollback k = { g with scrollbackOffset := min k g.scrollback.length } := rfl

/-- visible rows = last `k` history lines (capped at `rows`) ++ first `rows - k` live lines -/
theorem visibleRows_spec (g : Grid) (h : g.scrollbackOffset ≤ g.scrollback.length) :
    g.visibleRows = .ok
      (((g.scrollback.drop (g.scrollback.length - g.scrollbackOffset)).take g.rows.length)
        ++ g.rows.take (g.rows.length - g.scrollbackOffset)) := by
  simp [Grid.visibleRows, subM, h]

/-- the number of visible rows is the number of live rows -/
theorem visibleRows_length (g : Grid) (h : g.scrollbackOffset ≤ g.scrollback.length) :
    ∃ rs, g.visibleRows = .ok rs ∧ rs.length = g.rows.length := by
  refine ⟨_, visibleRows_spec g h, ?_⟩
  simp only [List.length_append, List.length_take, List.length_drop]
  omega

/-- one iteration of `scroll_up`'s loop -/
def scrollUpStep (g : Grid) : M Grid := do
  let rows ← insertM 438 g.rows (g.scrollBottom + 1) g.newRow
  let (removed, rows) ← removeM 439 rows g.scrollTop
  let g := { g with rows := rows }
  if g.scrollbackLen > 0 then do
    let active ← g.scrollRegionActive
    if !active then
      let sb := g.scrollback ++ [removed]
      let sb := sb.drop (sb.length - g.scrollbackLen)
      let off := if g.scrollbackOffset > 0 then min sb.length (g.scrollbackOffset + 1)
                 else g.scrollbackOffset
      pure { g with scrollback := sb, scrollbackOffset := off }
    else pure g
  else pure g

theorem scrollUp_eq_iterate (g : Grid) (count : Nat) :
    g.scrollUp count =
      (subM 437 g.size.rows g.scrollTop >>= fun d => iterateM (min count d) scrollUpStep g) := rfl

/-- full-screen region, capacity `N > 0`: the top line is appended, unmodified, and the history
keeps the last `N` lines; the offset, if non-zero, follows -/
theorem scrollUp_one_records (g g' : Grid) (hN : 0 < g.scrollbackLen)
    (hreg : g.scrollTop = 0 ∧ g.scrollBottom = g.size.rows - 1) (hr : 1 ≤ g.size.rows)
    (hlen : g.rows.length = g.size.rows) (h : scrollUpStep g = .ok g') :
    ∃ top, g.rows[0]? = some top ∧
      g'.scrollback = (g.scrollback ++ [top]).drop ((g.scrollback ++ [top]).length - g.scrollbackLen) ∧
      g'.scrollbackOffset =
        (if g.scrollbackOffset > 0 then min g'.scrollback.length (g.scrollbackOffset + 1) else 0) ∧
      g'.rows = g.rows.tail ++ [g.newRow] := by
  obtain ⟨ht, hb⟩ := hreg
  cases hrows : g.rows with
  | nil => simp [hrows] at hlen; omega
  | cons top rest =>
    refine ⟨top, rfl, ?_⟩
    have hsz : g.size.rows = rest.length + 1 := by simp [hrows] at hlen; omega
    have hb' : g.scrollBottom + 1 = rest.length + 1 := by omega
    have hb2 : g.scrollBottom = rest.length := by omega
    simp only [scrollUpStep, insertM, hrows, hb', List.length_cons, Nat.le_refl, ↓reduceIte,
      pure_bind', ok_bind, removeM, ht, Grid.scrollRegionActive, subM, hr, hN, pure_eq_ok] at h
    have e1 : List.take (rest.length + 1) (top :: rest) = top :: rest := by simp
    have e2 : List.drop (rest.length + 1) (top :: rest) = [] := by simp
    simp only [e1, e2, List.cons_append, List.getElem?_cons_zero, List.eraseIdx_cons_zero, ok_bind,
      hb2, hsz, Nat.add_sub_cancel, bne_self_eq_false, Bool.or_self, Bool.not_false, ↓reduceIte,
      Except.ok.injEq] at h
    subst h
    simp only [List.tail_cons, true_and]
    split <;> simp_all

/-- inside an active region, or with capacity 0, the history is not touched -/
theorem scrollUp_one_noop_history (g g' : Grid) (hr : 1 ≤ g.size.rows)
    (hno : g.scrollbackLen = 0 ∨ g.scrollTop ≠ 0 ∨ g.scrollBottom ≠ g.size.rows - 1)
    (h : scrollUpStep g = .ok g') :
    g'.scrollback = g.scrollback ∧ g'.scrollbackOffset = g.scrollbackOffset ∧
      g'.scrollbackLen = g.scrollbackLen := by
  simp only [scrollUpStep] at h
  obtain ⟨rows1, h1, h⟩ := bind_eq_ok.mp h
  obtain ⟨⟨removed, rows2⟩, h2, h⟩ := bind_eq_ok.mp h
  simp only at h
  split at h
  · rename_i hpos
    simp only [Grid.scrollRegionActive, subM, hr, ↓reduceIte, pure_bind', ok_bind, pure_eq_ok] at h
    rcases hno with h0 | h0 | h0
    · omega
    · have : (g.scrollTop != 0 || g.scrollBottom != g.size.rows - 1) = true := by simp [h0]
      simp only [this, Bool.not_true, Bool.false_eq_true, ↓reduceIte, Except.ok.injEq] at h
      subst h; exact ⟨rfl, rfl, rfl⟩
    · have : (g.scrollTop != 0 || g.scrollBottom != g.size.rows - 1) = true := by simp [h0]
      simp only [this, Bool.not_true, Bool.false_eq_true, ↓reduceIte, Except.ok.injEq] at h
      subst h; exact ⟨rfl, rfl, rfl⟩
  · simp only [pure_eq_ok, Except.ok.injEq] at h
    subst h; exact ⟨rfl, rfl, rfl⟩

/-- the live rows after a scroll step do not depend on the view offset -/
theorem offset_irrelevant_scrollUp (g : Grid) (k : Nat) :
    (scrollUpStep { g with scrollbackOffset := k }).map (fun g' => g'.rows) =
      (scrollUpStep g).map (fun g' => g'.rows) := by
  simp only [scrollUpStep, Grid.newRow, Grid.scrollRegionActive]
  cases insertM 438 g.rows (g.scrollBottom + 1) (Row.new g.size.cols) with
  | error e => rfl
  | ok rows1 =>
    simp only [ok_bind]
    cases removeM 439 rows1 g.scrollTop with
    | error e => rfl
    | ok p =>
      obtain ⟨removed, rows2⟩ := p
      simp only [ok_bind]
      split
      · cases subM 436 g.size.rows 1 with
        | error e => rfl
        | ok b =>
          simp only [ok_bind, pure_bind', pure_eq_ok]
          split <;> rfl
      · rfl

end Vt.C12
