/-
  C06 — cursor movement and addressing follow xterm semantics and never touch cells.

  Every theorem has the form `op = ok { g with pos := … }` (and, for DECSTBM / origin
  mode, the region / origin fields): a whole-record equality, so "no cell, no wrap flag,
  not the pen" is part of the statement, for every grid with at least one row and column,
  every cursor position (including the pending-wrap column) and every parameter value.
  `Screen`-level versions follow through `modifyGrid` (`lift`): only the active grid changes.
-/
import Vt.Lemmas.Grid
namespace Vt.C06
set_option linter.unusedSimpArgs false
open Vt

variable (g : Grid)

def Sized (g : Grid) : Prop := 1 ≤ g.size.rows ∧ 1 ≤ g.size.cols

/-- BS: one column left, stopping at column 0 (from the pending-wrap column `cols` to `cols-1`) -/
theorem bs_spec : g.colDec 1 = { g with pos := ⟨g.pos.row, g.pos.col - 1⟩ } := rfl

/-- CUB n -/
theorem cub_spec (n : Nat) : g.colDec n = { g with pos := ⟨g.pos.row, g.pos.col - n⟩ } := rfl

/-- CR -/
theorem cr_spec (h : Sized g) : g.colSet 0 = .ok { g with pos := ⟨g.pos.row, 0⟩ } := by
  simp [Grid.colSet, Grid.colClamp, subM, h.2]

/-- CHA n (1-based, clamped to the last column); `n ≥ 1` after canonicalisation -/
theorem cha_spec (h : Sized g) (n : Nat) :
    g.colSet n = .ok { g with pos := ⟨g.pos.row, min n (g.size.cols - 1)⟩ } := by
  simp only [Grid.colSet, Grid.colClamp, subM, h.2, ↓reduceIte, pure_bind']
  by_cases hn : n > g.size.cols - 1
  · simp [hn]; omega
  · simp [hn]; omega

/-- HT: next multiple of 8, stopping at the last column -/
theorem ht_spec (h : Sized g) :
    g.colTab = .ok { g with pos := ⟨g.pos.row, min (g.pos.col - g.pos.col % 8 + 8) (g.size.cols - 1)⟩ } := by
  simp only [Grid.colTab, Grid.colClamp, subM, h.2, ↓reduceIte, pure_bind']
  by_cases hn : g.pos.col - g.pos.col % 8 + 8 > g.size.cols - 1
  · simp [hn]; omega
  · simp [hn]; omega

/-- CUF n: right by n, stopping at the last column (65535 = u16 saturation, beyond any screen) -/
theorem cuf_spec (h : Sized g) (n : Nat) :
    g.colIncClamp n = .ok { g with pos := ⟨g.pos.row, min (min (g.pos.col + n) 65535) (g.size.cols - 1)⟩ } := by
  simp only [Grid.colIncClamp, Grid.colInc, Grid.colClamp, subM, h.2, ↓reduceIte, pure_bind', satAddU16, U16_MAX]
  by_cases hn : min (g.pos.col + n) 65535 > g.size.cols - 1
  · simp [hn]; omega
  · simp [hn]; omega

/-- the row CUU n ends on: up by n, stopping at line 0, or at the top margin when the move
starts inside the scroll region -/
def cuuRow (g : Grid) (n : Nat) : Nat :=
  if g.inScrollRegion && g.pos.row - n < g.scrollTop then g.scrollTop else g.pos.row - n

theorem cuu_spec (n : Nat) : g.rowDecClamp n = { g with pos := ⟨cuuRow g n, g.pos.col⟩ } := by
  simp only [Grid.rowDecClamp, Grid.rowClampTop, cuuRow]
  split <;> simp_all

/-- the row CUD n ends on: down by n, stopping at the last line, or at the bottom margin when
the move starts inside the scroll region -/
def cudRow (g : Grid) (n : Nat) : Nat :=
  min (min (g.pos.row + n) 65535) (if g.inScrollRegion then g.scrollBottom else g.size.rows - 1)

theorem cud_spec (h : Sized g) (n : Nat) :
    g.rowIncClamp n = .ok { g with pos := ⟨cudRow g n, g.pos.col⟩ } := by
  simp only [Grid.rowIncClamp, Grid.rowClampBottom, cudRow, satAddU16, U16_MAX]
  cases hin : g.inScrollRegion
  · simp only [Bool.false_eq_true, ↓reduceIte, subM, h.1, pure_bind']
    by_cases hn : min (g.pos.row + n) 65535 > g.size.rows - 1
    · simp [hn]; omega
    · simp [hn]; omega
  · simp only [↓reduceIte, pure_bind']
    by_cases hn : min (g.pos.row + n) 65535 > g.scrollBottom
    · simp [hn]; omega
    · simp [hn]; omega

/-- CNL n = column 0 then CUD n -/
theorem cnl_spec (h : Sized g) (n : Nat) :
    g.cnl n = .ok { g with pos := ⟨cudRow g n, 0⟩ } := by
  simp only [Grid.cnl, cr_spec g h, ok_bind]
  have := cud_spec { g with pos := ⟨g.pos.row, 0⟩ } h n
  simpa [cudRow, Grid.inScrollRegion] using this

/-- CPL n = column 0 then CUU n -/
theorem cpl_spec (h : Sized g) (n : Nat) :
    g.cpl n = .ok { g with pos := ⟨cuuRow g n, 0⟩ } := by
  simp only [Grid.cpl, cr_spec g h, ok_bind]
  have := cuu_spec { g with pos := ⟨g.pos.row, 0⟩ } n
  simp only [this, pure_eq_ok]
  simp [cuuRow, Grid.inScrollRegion]

/-- VPA n (already decremented): absolute row, clamped to the screen -/
theorem vpa_spec (h : Sized g) (n : Nat) :
    g.rowSet n = .ok { g with pos := ⟨min n (g.size.rows - 1), g.pos.col⟩ } := by
  simp only [Grid.rowSet, Grid.rowClamp, subM, h.1, ↓reduceIte, pure_bind']
  by_cases hn : n > g.size.rows - 1
  · simp [hn]; omega
  · simp [hn]; omega

/-- where CUP (row, col) (0-based, already decremented) puts the cursor: in origin mode rows are
relative to, and confined to, the scroll region -/
def cupPos (g : Grid) (row col : Nat) : Pos :=
  let r := if g.originMode then min (row + g.scrollTop) 65535 else row
  let r := if g.originMode && r < g.scrollTop then g.scrollTop else r
  let r := min r (if g.originMode then g.scrollBottom else g.size.rows - 1)
  ⟨r, min col (g.size.cols - 1)⟩

theorem cup_spec (h : Sized g) (row col : Nat) :
    g.setPos ⟨row, col⟩ = .ok { g with pos := cupPos g row col } := by
  obtain ⟨hr, hc⟩ := h
  simp only [Grid.setPos, rowClampTop_spec]
  rw [rowClampBottom_spec _ _ (by simpa using hr)]
  simp only [ok_bind, pure_bind']
  rw [colClamp_spec _ (by simpa using hc)]
  cases ho : g.originMode <;> simp [cupPos, satAddU16, U16_MAX, ho]

/-- DECSTBM top bottom (0-based, already decremented): the region is accepted iff
`top < min bottom (rows-1)`, otherwise the full screen; the cursor goes to the first line of the
resulting region, column 0.  Nothing else changes. -/
theorem decstbm_spec (h : Sized g) (top bottom : Nat) :
    g.setScrollRegion top bottom = .ok
      (if top < min bottom (g.size.rows - 1) then
        { g with scrollTop := top, scrollBottom := min bottom (g.size.rows - 1), pos := ⟨top, 0⟩ }
      else
        { g with scrollTop := 0, scrollBottom := g.size.rows - 1, pos := ⟨0, 0⟩ }) := by
  simp only [Grid.setScrollRegion, subM, h.1, ↓reduceIte, pure_bind']
  split <;> rfl

/-- DECOM set/reset: origin mode := v, cursor to the home position of the new mode -/
theorem origin_spec (h : Sized g) (v : Bool) :
    g.setOriginMode v = .ok { g with originMode := v, pos := cupPos { g with originMode := v } 0 0 } := by
  simp only [Grid.setOriginMode]
  exact cup_spec { g with originMode := v } h 0 0

/-! ### lifting to `Screen`: only the active grid changes -/

theorem lift {s : Screen} {f : Grid → M Grid} {g' : Grid} (h : f s.cur = .ok g') :
    s.modifyGrid f = .ok (s.setCur g') := modifyGrid_ok_of h

/-- e.g. CUU on the screen: the pen, the modes, the other grid are untouched; the active grid
changes only in `pos` -/
theorem screen_cuu (s : Screen) (n : Nat) :
    s.cuu n = .ok (s.setCur { s.cur with pos := ⟨cuuRow s.cur n, s.cur.pos.col⟩ }) := by
  unfold Screen.cuu
  exact lift (by simp [cuu_spec])

theorem screen_cud (s : Screen) (h : Sized s.cur) (n : Nat) :
    s.cud n = .ok (s.setCur { s.cur with pos := ⟨cudRow s.cur n, s.cur.pos.col⟩ }) := by
  unfold Screen.cud
  exact lift (cud_spec _ h n)

theorem screen_cup (s : Screen) (h : Sized s.cur) (row col : Nat) (hr : 1 ≤ row) (hc : 1 ≤ col) :
    s.cup row col = .ok (s.setCur { s.cur with pos := cupPos s.cur (row - 1) (col - 1) }) := by
  unfold Screen.cup
  simp only [subM, hr, hc, ↓reduceIte, pure_bind']
  exact lift (cup_spec _ h _ _)

/-- canonicalisation: a missing or zero parameter means 1 -/
theorem canon1_default (params : List (List Nat)) (h : firstOr0 params = 0) : canon1 params 1 = 1 := by
  simp [canon1, h]
theorem canon1_value (params : List (List Nat)) (h : firstOr0 params ≠ 0) :
    canon1 params 1 = firstOr0 params := by
  simp [canon1, h]
theorem canon1_pos (params : List (List Nat)) : 1 ≤ canon1 params 1 := by
  simp only [canon1]
  by_cases h : firstOr0 params = 0
  · simp [h]
  · simp [h]; omega

end Vt.C06
