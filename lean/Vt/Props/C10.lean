/-
  C10 — terminal modes track set/reset exactly; input_mode_formatted/diff reproduce them.

  * `decset_*` / `decrst_*` : each of the nine DEC private modes and ESC = / ESC >
    changes exactly its component (the result is stated as a whole-record
    equality, so "nothing else changes" is part of the statement).
  * resetting a mouse mode/encoding other than the active one has no effect: the `decrst_*` equalities here and
    `rstEff` / `clrMode` / `clrEnc` in C11more_c10.
  * several modes in one sequence apply left to right: `decset_cons` / `decrst_cons` (handled heads),
    `decset_cons_unhandled` / `decrst_cons_unhandled` and `perform_modes` (C11more_c10).
  * `input_mode_formatted_roundtrip` / `input_mode_diff_roundtrip` : replaying the
    mode changes the emitters write reproduces the five input modes
    (at the level of the actions; the bytes of these fixed sequences are parsed
    by the vte model in C10b: `tok_act`, `process_input_mode_formatted`, `process_input_mode_diff`).
  * `input_mode_diff_empty_iff`.
-/
import Vt.Model.Perform
import Vt.Lemmas.Except
namespace Vt.C10
open Vt

variable (s : Screen)

/-! ### single modes -/

theorem decset_1 : s.decsetOne [1] = .ok (some { s with appCursor := true }) := rfl
theorem decrst_1 : s.decrstOne [1] = .ok (some { s with appCursor := false }) := rfl
theorem decset_25 : s.decsetOne [25] = .ok (some { s with hideCursor := false }) := rfl
theorem decrst_25 : s.decrstOne [25] = .ok (some { s with hideCursor := true }) := rfl
theorem decset_2004 : s.decsetOne [2004] = .ok (some { s with bracketedPaste := true }) := rfl
theorem decrst_2004 : s.decrstOne [2004] = .ok (some { s with bracketedPaste := false }) := rfl
theorem decset_9 : s.decsetOne [9] = .ok (some { s with mouseMode := .press }) := rfl
theorem decset_1000 : s.decsetOne [1000] = .ok (some { s with mouseMode := .pressRelease }) := rfl
theorem decset_1002 : s.decsetOne [1002] = .ok (some { s with mouseMode := .buttonMotion }) := rfl
theorem decset_1003 : s.decsetOne [1003] = .ok (some { s with mouseMode := .anyMotion }) := rfl
theorem decset_1005 : s.decsetOne [1005] = .ok (some { s with mouseEnc := .utf8 }) := rfl
theorem decset_1006 : s.decsetOne [1006] = .ok (some { s with mouseEnc := .sgr }) := rfl
theorem deckpam_spec : s.deckpam = { s with appKeypad := true } := rfl
theorem deckpnm_spec : s.deckpnm = { s with appKeypad := false } := rfl

/-- the DECRST number of a mouse mode -/
def mouseNum : MouseMode → Nat
  | .none => 0 | .press => 9 | .pressRelease => 1000 | .buttonMotion => 1002 | .anyMotion => 1003
def encNum : MouseEnc → Nat
  | .default => 0 | .utf8 => 1005 | .sgr => 1006

/-- resetting the active mouse mode turns reporting off; resetting another one does nothing -/
theorem decrst_mouse (m : MouseMode) (hm : m ≠ .none) :
    s.decrstOne [mouseNum m] = .ok (some (if s.mouseMode = m then { s with mouseMode := .none } else s)) := by
  cases m <;> simp_all [mouseNum, Screen.decrstOne, Screen.clearMouseMode]

theorem decrst_enc (e : MouseEnc) (he : e ≠ .default) :
    s.decrstOne [encNum e] = .ok (some (if s.mouseEnc = e then { s with mouseEnc := .default } else s)) := by
  cases e <;> simp_all [encNum, Screen.decrstOne, Screen.clearMouseEnc]

/-! ### lists apply in order -/

theorem decset_cons (unh : WS → M WS) (p : List Nat) (ps : List (List Nat)) (ws : WS) (s' : Screen)
    (h : ws.screen.decsetOne p = .ok (some s')) :
    decset unh (p :: ps) ws = decset unh ps { ws with screen := s' } := by
  simp [decset, List.foldlM, h]

theorem decrst_cons (unh : WS → M WS) (p : List Nat) (ps : List (List Nat)) (ws : WS) (s' : Screen)
    (h : ws.screen.decrstOne p = .ok (some s')) :
    decrst unh (p :: ps) ws = decrst unh ps { ws with screen := s' } := by
  simp [decrst, List.foldlM, h]

theorem decset_nil (unh : WS → M WS) (ws : WS) : decset unh [] ws = .ok ws := rfl
theorem decrst_nil (unh : WS → M WS) (ws : WS) : decrst unh [] ws = .ok ws := rfl

/-! ### the emitters, at the level of actions

`input_mode_formatted` writes, in this order: keypad, cursor keys, bracketed
paste, mouse mode (vs `None`), mouse encoding (vs `Default`).  `InputModes` is
the five-component observable. -/

structure InputModes where
  appKeypad : Bool
  appCursor : Bool
  bracketedPaste : Bool
  mouseMode : MouseMode
  mouseEnc : MouseEnc
  deriving DecidableEq, Repr

def inputModes (s : Screen) : InputModes :=
  ⟨s.appKeypad, s.appCursor, s.bracketedPaste, s.mouseMode, s.mouseEnc⟩

def setInputModes (s : Screen) (m : InputModes) : Screen :=
  { s with appKeypad := m.appKeypad, appCursor := m.appCursor, bracketedPaste := m.bracketedPaste,
           mouseMode := m.mouseMode, mouseEnc := m.mouseEnc }

/-- a mode-changing action -/
inductive ModeAct where
  | keypad (on : Bool)
  | set (n : Nat)
  | rst (n : Nat)
  deriving DecidableEq, Repr

def applyAct (s : Screen) : ModeAct → M Screen
  | .keypad true => pure s.deckpam
  | .keypad false => pure s.deckpnm
  | .set n => do match ← s.decsetOne [n] with | some s' => pure s' | none => pure s
  | .rst n => do match ← s.decrstOne [n] with | some s' => pure s' | none => pure s

def applyActs (s : Screen) (as : List ModeAct) : M Screen := as.foldlM applyAct s

/-- the actions `Term.mouseProtocolMode mode prev` stands for -/
def mouseActs (mode prev : MouseMode) : List ModeAct :=
  if mode = prev then []
  else match mode with
    | .none => [.rst (mouseNum prev)]
    | m => [.set (mouseNum m)]

def encActs (enc prev : MouseEnc) : List ModeAct :=
  if enc = prev then []
  else match enc with
    | .default => [.rst (encNum prev)]
    | e => [.set (encNum e)]

/-- the actions of `input_mode_formatted` -/
def formattedActs (s : Screen) : List ModeAct :=
  [.keypad s.appKeypad, if s.appCursor then .set 1 else .rst 1,
   if s.bracketedPaste then .set 2004 else .rst 2004]
  ++ mouseActs s.mouseMode .none ++ encActs s.mouseEnc .default

/-- the actions of `input_mode_diff` -/
def diffActs (s prev : Screen) : List ModeAct :=
  (if s.appKeypad != prev.appKeypad then [.keypad s.appKeypad] else [])
  ++ (if s.appCursor != prev.appCursor then [if s.appCursor then .set 1 else .rst 1] else [])
  ++ (if s.bracketedPaste != prev.bracketedPaste then [if s.bracketedPaste then .set 2004 else .rst 2004] else [])
  ++ mouseActs s.mouseMode prev.mouseMode ++ encActs s.mouseEnc prev.mouseEnc

theorem apply_mouseActs (q : Screen) (mode : MouseMode) :
    applyActs q (mouseActs mode q.mouseMode) = .ok { q with mouseMode := mode } := by
  cases mode <;> cases hq : q.mouseMode <;>
    simp [mouseActs, applyActs, List.foldlM, applyAct, mouseNum, Screen.decrstOne, Screen.decsetOne,
      Screen.clearMouseMode, hq] <;> (cases q; simp_all)

theorem apply_encActs (q : Screen) (enc : MouseEnc) :
    applyActs q (encActs enc q.mouseEnc) = .ok { q with mouseEnc := enc } := by
  cases enc <;> cases hq : q.mouseEnc <;>
    simp [encActs, applyActs, List.foldlM, applyAct, encNum, Screen.decrstOne, Screen.decsetOne,
      Screen.clearMouseEnc, hq] <;> (cases q; simp_all)

theorem apply_mouseActs' (q : Screen) (mode prev : MouseMode) (h : q.mouseMode = prev) :
    applyActs q (mouseActs mode prev) = .ok { q with mouseMode := mode } := by
  subst h; exact apply_mouseActs q mode

theorem apply_encActs' (q : Screen) (enc prev : MouseEnc) (h : q.mouseEnc = prev) :
    applyActs q (encActs enc prev) = .ok { q with mouseEnc := enc } := by
  subst h; exact apply_encActs q enc

theorem applyActs_append (q : Screen) (a b : List ModeAct) :
    applyActs q (a ++ b) = (applyActs q a >>= fun q' => applyActs q' b) := by
  simp [applyActs, List.foldlM_append]

/-- `input_mode_formatted` on a receiver whose mouse mode and encoding are at their defaults
(a fresh parser) reproduces exactly the five input modes, and changes nothing else -/
theorem input_mode_formatted_roundtrip (s q : Screen) (hm : q.mouseMode = .none) (he : q.mouseEnc = .default) :
    applyActs q (formattedActs s) = .ok (setInputModes q (inputModes s)) := by
  unfold formattedActs
  rw [applyActs_append, applyActs_append]
  have h1 : applyActs q [.keypad s.appKeypad, if s.appCursor then .set 1 else .rst 1,
      if s.bracketedPaste then .set 2004 else .rst 2004]
      = .ok { q with appKeypad := s.appKeypad, appCursor := s.appCursor, bracketedPaste := s.bracketedPaste } := by
    cases h1 : s.appKeypad <;> cases h2 : s.appCursor <;> cases h3 : s.bracketedPaste <;>
      simp [applyActs, List.foldlM, applyAct, Screen.deckpam, Screen.deckpnm, Screen.decsetOne, Screen.decrstOne]
  rw [h1]
  simp only [ok_bind]
  rw [apply_mouseActs' _ _ _ (by simpa using hm)]
  simp only [ok_bind]
  rw [apply_encActs' _ _ _ (by simpa using he)]
  rfl

/-- `input_mode_diff(prev)` on a receiver whose modes equal `prev`'s reproduces the five input modes -/
theorem input_mode_diff_roundtrip (s prev q : Screen) (hq : inputModes q = inputModes prev) :
    applyActs q (diffActs s prev) = .ok (setInputModes q (inputModes s)) := by
  simp only [inputModes, InputModes.mk.injEq] at hq
  obtain ⟨hk, hc, hb, hm, he⟩ := hq
  unfold diffActs
  rw [applyActs_append, applyActs_append, applyActs_append, applyActs_append]
  have e1 : applyActs q (if s.appKeypad != prev.appKeypad then [ModeAct.keypad s.appKeypad] else [])
      = .ok { q with appKeypad := s.appKeypad } := by
    cases h1 : s.appKeypad <;> cases h2 : prev.appKeypad <;>
      simp [applyActs, List.foldlM, applyAct, Screen.deckpam, Screen.deckpnm] <;> (cases q; simp_all)
  rw [e1]; simp only [ok_bind]
  have e2 : ∀ q' : Screen, q'.appCursor = prev.appCursor →
      applyActs q' (if s.appCursor != prev.appCursor then [if s.appCursor then ModeAct.set 1 else .rst 1] else [])
      = .ok { q' with appCursor := s.appCursor } := by
    intro q' hq'
    cases h1 : s.appCursor <;> cases h2 : prev.appCursor <;>
      simp [applyActs, List.foldlM, applyAct, Screen.decsetOne, Screen.decrstOne] <;> (cases q'; simp_all)
  rw [e2 _ (by simpa using hc)]; simp only [ok_bind]
  have e3 : ∀ q' : Screen, q'.bracketedPaste = prev.bracketedPaste →
      applyActs q' (if s.bracketedPaste != prev.bracketedPaste then [if s.bracketedPaste then ModeAct.set 2004 else .rst 2004] else [])
      = .ok { q' with bracketedPaste := s.bracketedPaste } := by
    intro q' hq'
    cases h1 : s.bracketedPaste <;> cases h2 : prev.bracketedPaste <;>
      simp [applyActs, List.foldlM, applyAct, Screen.decsetOne, Screen.decrstOne] <;> (cases q'; simp_all)
  rw [e3 _ (by simpa using hb)]; simp only [ok_bind]
  rw [apply_mouseActs' _ _ _ (by simpa using hm)]; simp only [ok_bind]
  rw [apply_encActs' _ _ _ (by simpa using he)]; rfl

/-- the diff is empty exactly when no input mode differs -/
theorem input_mode_diff_empty_iff (s prev : Screen) :
    s.inputModeDiff prev = [] ↔ inputModes s = inputModes prev := by
  simp only [Screen.inputModeDiff, Screen.writeInputModeDiff, inputModes, InputModes.mk.injEq,
    List.append_eq_nil_iff]
  constructor
  · rintro ⟨⟨⟨⟨h1, h2⟩, h3⟩, h4⟩, h5⟩
    refine ⟨?_, ?_, ?_, ?_, ?_⟩
    · revert h1; cases s.appKeypad <;> cases prev.appKeypad <;> simp [Term.applicationKeypad]
    · revert h2; cases s.appCursor <;> cases prev.appCursor <;> simp [Term.applicationCursor]
    · revert h3; cases s.bracketedPaste <;> cases prev.bracketedPaste <;> simp [Term.bracketedPaste]
    · revert h4; cases s.mouseMode <;> cases prev.mouseMode <;> simp [Term.mouseProtocolMode, Term.mouseModeNum]
    · revert h5; cases s.mouseEnc <;> cases prev.mouseEnc <;> simp [Term.mouseProtocolEncoding, Term.mouseEncNum]
  · rintro ⟨h1, h2, h3, h4, h5⟩
    simp [h1, h2, h3, h4, h5, Term.mouseProtocolMode, Term.mouseProtocolEncoding]

/-- `state_formatted` / `state_diff` are the concatenation of their two parts -/
theorem state_formatted_concat (s : Screen) :
    s.stateFormatted = (s.contentsFormatted >>= fun c => pure (c ++ s.inputModeFormatted)) := rfl
theorem state_diff_concat (s prev : Screen) :
    s.stateDiff prev = (s.contentsDiff prev >>= fun c => pure (c ++ s.inputModeDiff prev)) := rfl

end Vt.C10
