/-
  Vt.Props.Reach — C01 and C15 for every REACHABLE screen, with no assumption left on the screen: the
  hypotheses `Inv`, `Inv⁺`, `emitInv` of `full_redraw_fresh_reemit` / `rows_protocol_fresh` are discharged by
  `reachable_emitInv`.

  For every history of `process` / `set_size` / `set_scrollback` calls from `Parser::new` (sizes 1..65535, any
  scrollback capacity, any bytes in any chunking, callbacks that do nothing or resize), if the screen `S` it ends
  in is not scrolled back, then the bytes of `S.state_formatted()` fed to a new parser of the same size give a
  screen with `obs = obs S`, no event, and byte-identical re-emission (C01); and the row-wise drawing protocol
  over `rows_formatted(0, cols)`, `cursor_state_formatted()`, `attributes_formatted()` shows `S` (C15).
-/
import Vt.Props.InvAll
import Vt.Props.C15full
namespace Vt.Reach
open Vt Vt.C13 Vt.C19 Vt.InvX Vt.InvF Vt.InvAll Vt.Recv
set_option linter.unusedSimpArgs false

variable {W : Nat → Option Nat}

/-- **C01 for every reachable screen** -/
theorem full_redraw_reachable (hW : WOk W) {cbS cbR : CbPolicy}
    (hcb : CbInv W cbS) (hcx : CbX W cbS) (hcf : CbF W cbS)
    (rows cols sb : Nat) (hr : 1 ≤ rows) (hc : 1 ≤ cols) (hr' : rows ≤ 65535) (hc' : cols ≤ 65535)
    (ops : List Op) (hv : ∀ op ∈ ops, op.Valid) (sbR : Nat) :
    ∃ p, (Parser.new rows cols sb >>= fun p0 => ops.foldlM (applyOp W cbS) p0) = .ok p ∧
      (p.ws.screen.cur.scrollbackOffset = 0 →
        ∃ q bytes q', Parser.new p.ws.screen.cur.size.rows p.ws.screen.cur.size.cols sbR = .ok q ∧
          p.ws.screen.stateFormatted = .ok bytes ∧ q.process W cbR bytes = .ok q' ∧
          obs q'.screen = obs p.ws.screen ∧ q'.ws.events = [] ∧
          q'.screen.stateFormatted = .ok bytes ∧ q'.screen.contentsFormatted = p.ws.screen.contentsFormatted) := by
  obtain ⟨p, e, _, hinv⟩ := reachable_emitInv hW.space hcb hcx hcf rows cols sb hr hc hr' hc' ops hv
  exact ⟨p, e, fun hoff => C01.full_redraw_fresh_reemit (cb := cbR) hW p.ws.screen hinv hoff sbR⟩

/-- **C15 for every reachable screen** -/
theorem rows_protocol_reachable (hW : WOk W) {cbS cbR : CbPolicy}
    (hcb : CbInv W cbS) (hcx : CbX W cbS) (hcf : CbF W cbS)
    (rows cols sb : Nat) (hr : 1 ≤ rows) (hc : 1 ≤ cols) (hr' : rows ≤ 65535) (hc' : cols ≤ 65535)
    (ops : List Op) (hv : ∀ op ∈ ops, op.Valid) (sbR : Nat) :
    ∃ p, (Parser.new rows cols sb >>= fun p0 => ops.foldlM (applyOp W cbS) p0) = .ok p ∧
      (p.ws.screen.cur.scrollbackOffset = 0 →
        ∃ q rb cs q', Parser.new p.ws.screen.cur.size.rows p.ws.screen.cur.size.cols sbR = .ok q ∧
          p.ws.screen.rowsFormatted 0 p.ws.screen.cur.size.cols = .ok rb ∧
          p.ws.screen.cursorStateFormatted = .ok cs ∧
          q.process W cbR (C15.protocolStream p.ws.screen rb cs) = .ok q' ∧ C01.Shows q'.screen p.ws.screen) := by
  obtain ⟨p, e, _, hinv⟩ := reachable_emitInv hW.space hcb hcx hcf rows cols sb hr hc hr' hc' ops hv
  exact ⟨p, e, fun hoff => C15.rows_protocol_fresh (cb := cbR) hW p.ws.screen hinv hoff sbR⟩

/-- non-vacuity: the model's two callback policies satisfy the three hypotheses, and the kernel-evaluation
width function satisfies `WOk` -/
example : (CbInv W0 cbNone ∧ CbX W0 cbNone ∧ CbF W0 cbNone) ∧ (CbInv W0 cbResize ∧ CbX W0 cbResize ∧ CbF W0 cbResize) ∧
    WOk W0 := ⟨cbNone_all, cbResize_all, C01.wOk_W0⟩

end Vt.Reach
