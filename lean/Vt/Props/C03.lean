/-
  C03 — totality: no input or accessor argument can panic, overflow or hang.

  In the model every Rust panic site is an explicit `.error` (Vt/Model/Prim.lean), so "returns
  normally" is "`= .ok _`".  Non-termination is excluded at the level of the model by
  construction: every model function is accepted by Lean's termination checker (structural
  recursion, or well-founded recursion on the parameter list for `sgr`), with no fuel that could
  run out except `Vte.advanceLoop`, whose fuel is `bytes.length + 1` and each iteration consumes
  at least one byte.
  Theorems collected here (each `= .ok _` for ALL argument values):
  * constructors / API: `Vt.C13.inv_new`, `Vt.C13.setScrollback_total`, `Vt.C16.grid_setSize_eq`,
    `Vt.C16.setSize_size`;
  * every cursor movement for every parameter: `Vt.C06.*_spec`;
  * every unimplemented or reporting sequence: `Vt.C18.*` (state unchanged ⇒ total);
  * SGR for every parameter list: `sgr_total`; modes: `Vt.C10.*`;
  * accessors: `cell_total`, `row_wrapped_total`, `visibleRows_total`, `input_mode_total`,
    `attributes_formatted_total` — any argument values;
  * cost clause: `Vt.C08.su_bounded`, `sd_bounded`, `scrollDown_trips`, `insertLines_trips`,
    `ich_trips`, and the byte-parameter saturation `param_bounded` (vte never hands over a value
    above 65535).
  The central theorem — `process_total` / `reachable_inv`: every action from every `Inv` state returns normally and
  keeps `Inv` — is in InvPerform (with Lemmas/{RowInv,RowOps,GridInv,GridTotal,CellInv,TextInv,VteOk}); the accessor half is
  C03b (`accessors_total`); Bytes adds that the emitters return bytes.  The "bound" theorems listed under the cost
  clause are facts about the trip-count expressions the model shares with the code (`min count rows`), not more.
-/
import Vt.Props.C13
import Vt.Props.C06
import Vt.Props.C08
import Vt.Props.C16
import Vt.Props.C18
import Vt.Props.C09
namespace Vt.C03
open Vt
set_option linter.unusedSimpArgs false

/-- `visible_rows()` is total whenever the offset is within the history (an `Inv` clause) -/
theorem visibleRows_total (g : Grid) (h : g.scrollbackOffset ≤ g.scrollback.length) :
    ∃ rs, g.visibleRows = .ok rs := by
  simp [Grid.visibleRows, subM, h]

/-- `cell(r, c)` for ANY `r`, `c` -/
theorem cell_total (s : Screen) (h : s.cur.scrollbackOffset ≤ s.cur.scrollback.length) (r c : Nat) :
    ∃ o, s.cell r c = .ok o := by
  obtain ⟨rs, hrs⟩ := visibleRows_total s.cur h
  simp [Screen.cell, Grid.visibleCell, Grid.visibleRow, hrs]

/-- `row_wrapped(r)` for ANY `r` -/
theorem row_wrapped_total (s : Screen) (h : s.cur.scrollbackOffset ≤ s.cur.scrollback.length) (r : Nat) :
    ∃ b, s.rowWrapped r = .ok b := by
  obtain ⟨rs, hrs⟩ := visibleRows_total s.cur h
  simp [Screen.rowWrapped, Grid.visibleRow, hrs]

/-- SGR never fails, for every parameter list and pen, provided the callback does not -/
theorem sgr_total (unh : WS → M WS) (hunh : ∀ w, ∃ w', unh w = .ok w') :
    ∀ (ps : List (List Nat)) (ws : WS), ∃ ws', sgrLoop unh ps ws = .ok ws' := by
  intro ps ws
  fun_induction sgrLoop unh ps ws
  all_goals first
    | exact ⟨_, rfl⟩
    | assumption
    | exact hunh _
    | skip
  all_goals
    rename_i ih
    obtain ⟨w1, hw1⟩ := hunh ‹WS›
    obtain ⟨w2, hw2⟩ := ih w1
    exact ⟨w2, by simp [hw1, hw2]⟩

/-- vte's parameter accumulation saturates: no parameter above 65535 ever reaches the screen -/
theorem param_bounded (v : Vte) (b : Nat) (h : v.param ≤ 65535) : (v.actionParamnext b).param ≤ 65535 := by
  simp only [Vte.actionParamnext]
  split
  · exact h
  · simp only; omega

theorem ich_trips (g : Grid) (count : Nat) : min count g.size.cols ≤ g.size.cols := by omega

end Vt.C03
